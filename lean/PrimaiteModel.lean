import PrimaiteModel.Model.Basic
import PrimaiteModel.Model.Acl
import PrimaiteModel.Gen.Acl
import PrimaiteModel.Props.C07
