import PrimaiteModel.Model.Isolation
import PrimaiteModel.Gen.SharedState
open Primaite.Isolation
def proc0 : Proc := { inst := fun i => initInst 7 (if i = 0 then 1 else 0) 0, glob := fun _ => 0 }
#eval traj 0 (run [⟨0, constructProg, 5⟩, ⟨1, constructProg, 9⟩, ⟨0, stepProgClean, 2⟩, ⟨1, resetProg, 4⟩, ⟨0, stepProgClean, 3⟩] proc0).2
#eval [Phase.construct, .reset, .step].map fun ph => (writesOf (progOf ph), unprotectedReads [] (progOf ph))
