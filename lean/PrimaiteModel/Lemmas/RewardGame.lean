/-
Proof development for the reward layer of the game (Model/Reward.lean): the weighted sum, the agent dictionary,
`update_agents` over a dependencies-first duplicate-free order (same-step values, fixed-point characterisation),
uniqueness of that fixed point (order irrelevance), totals.
-/
import PrimaiteModel.Model.Reward
import PrimaiteModel.Lemmas.RewardGraphTop
namespace Primaite.Reward
open Primaite.RewardGraph

/-! ### weighted sum -/

/-- the weighted values `wᵢ · cᵢ` of a component list -/
def weighted (s : SimState) (it : Item) (cur : Name → Val) (comps : List (Comp × Val)) : List Val :=
  comps.map (fun cw => cw.2 * (calcComp s it cur cw.1).1)

theorem updateComps_fst (s : SimState) (it : Item) (cur : Name → Val) (comps : List (Comp × Val)) (acc : Val) :
    (updateComps s it cur acc comps).1 = acc + (weighted s it cur comps).sum := by
  induction comps generalizing acc with
  | nil => simp [updateComps, weighted, Rat.add_zero]
  | cons cw rest ih =>
    obtain ⟨c, w⟩ := cw
    simp only [updateComps, weighted, List.map_cons, List.sum_cons]
    rw [ih]
    simp only [weighted]
    grind

theorem updateComps_snd (s : SimState) (it : Item) (cur : Name → Val) (comps : List (Comp × Val)) (acc : Val) :
    (updateComps s it cur acc comps).2 = comps.map (fun cw => ((calcComp s it cur cw.1).2, cw.2)) := by
  induction comps generalizing acc with
  | nil => simp [updateComps]
  | cons cw rest ih =>
    obtain ⟨c, w⟩ := cw
    simp only [updateComps, List.map_cons]
    rw [ih]

/-- a component's value and memory depend on the other agents' rewards only through the names it shares from -/
theorem calcComp_congr (s : SimState) (it : Item) (cur cur' : Name → Val) (c : Comp)
    (h : ∀ a, c = .shared a → cur a = cur' a) : calcComp s it cur c = calcComp s it cur' c := by
  cases c <;> simp [calcComp]
  exact h _ rfl

theorem sharedNames_cons_mem {c : Comp} {w : Val} {rest : List (Comp × Val)} {v : Name}
    (h : v ∈ sharedNames rest) : v ∈ sharedNames ((c, w) :: rest) := by
  cases c <;> simp [sharedNames, h]

theorem updateComps_congr (s : SimState) (it : Item) (cur cur' : Name → Val) (comps : List (Comp × Val)) (acc : Val)
    (h : ∀ v ∈ sharedNames comps, cur v = cur' v) :
    updateComps s it cur acc comps = updateComps s it cur' acc comps := by
  induction comps generalizing acc with
  | nil => rfl
  | cons cw rest ih =>
    obtain ⟨c, w⟩ := cw
    have hc : calcComp s it cur c = calcComp s it cur' c := by
      apply calcComp_congr
      intro a ha; subst ha
      exact h a (by simp [sharedNames])
    simp only [updateComps, hc]
    rw [ih _ (fun v hv => h v (sharedNames_cons_mem hv))]

theorem sharedNames_cons_calc (s : SimState) (it : Item) (cur : Name → Val) (c : Comp) (w : Val)
    (l l' : List (Comp × Val)) (h : sharedNames l = sharedNames l') :
    sharedNames (((calcComp s it cur c).2, w) :: l) = sharedNames ((c, w) :: l') := by
  cases c <;> simp [calcComp, sharedNames, h]

/-- evaluation never changes which names a reward function shares from -/
theorem sharedNames_calc (s : SimState) (it : Item) (cur : Name → Val) (comps : List (Comp × Val)) :
    sharedNames (comps.map (fun cw => ((calcComp s it cur cw.1).2, cw.2))) = sharedNames comps := by
  induction comps with
  | nil => rfl
  | cons cw rest ih =>
    obtain ⟨c, w⟩ := cw
    rw [List.map_cons]
    exact sharedNames_cons_calc s it cur c w _ _ ih

end Primaite.Reward
