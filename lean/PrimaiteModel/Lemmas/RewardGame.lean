/-
Proof development for the reward layer of the game (Model/Reward.lean): the weighted sum, the agent dictionary,
`update_agents` over a dependencies-first duplicate-free order (same-step values, fixed-point characterisation),
uniqueness of that fixed point (order irrelevance), totals.
-/
import PrimaiteModel.Model.Reward
import PrimaiteModel.Lemmas.RewardGraphTop
namespace Primaite.Reward
open Primaite.RewardGraph

/-! ### weighted sum -/

/-- the weighted values `wᵢ · cᵢ` of a component list -/
def weighted (s : SimState) (it : Item) (cur : Name → Val) (comps : List (Comp × Val)) : List Val :=
  comps.map (fun cw => cw.2 * (calcComp s it cur cw.1).1)

theorem updateComps_fst (s : SimState) (it : Item) (cur : Name → Val) (comps : List (Comp × Val)) (acc : Val) :
    (updateComps s it cur acc comps).1 = acc + (weighted s it cur comps).sum := by
  induction comps generalizing acc with
  | nil => simp [updateComps, weighted, Rat.add_zero]
  | cons cw rest ih =>
    obtain ⟨c, w⟩ := cw
    simp only [updateComps, weighted, List.map_cons, List.sum_cons]
    rw [ih]
    simp only [weighted]
    grind

theorem updateComps_snd (s : SimState) (it : Item) (cur : Name → Val) (comps : List (Comp × Val)) (acc : Val) :
    (updateComps s it cur acc comps).2 = comps.map (fun cw => ((calcComp s it cur cw.1).2, cw.2)) := by
  induction comps generalizing acc with
  | nil => simp [updateComps]
  | cons cw rest ih =>
    obtain ⟨c, w⟩ := cw
    simp only [updateComps, List.map_cons]
    rw [ih]

/-- a component's value and memory depend on the other agents' rewards only through the names it shares from -/
theorem calcComp_congr (s : SimState) (it : Item) (cur cur' : Name → Val) (c : Comp)
    (h : ∀ a, c = .shared a → cur a = cur' a) : calcComp s it cur c = calcComp s it cur' c := by
  cases c <;> simp [calcComp]
  exact h _ rfl

theorem sharedNames_cons_mem {c : Comp} {w : Val} {rest : List (Comp × Val)} {v : Name}
    (h : v ∈ sharedNames rest) : v ∈ sharedNames ((c, w) :: rest) := by
  cases c <;> simp [sharedNames, h]

theorem updateComps_congr (s : SimState) (it : Item) (cur cur' : Name → Val) (comps : List (Comp × Val)) (acc : Val)
    (h : ∀ v ∈ sharedNames comps, cur v = cur' v) :
    updateComps s it cur acc comps = updateComps s it cur' acc comps := by
  induction comps generalizing acc with
  | nil => rfl
  | cons cw rest ih =>
    obtain ⟨c, w⟩ := cw
    have hc : calcComp s it cur c = calcComp s it cur' c := by
      apply calcComp_congr
      intro a ha; subst ha
      exact h a (by simp [sharedNames])
    simp only [updateComps, hc]
    rw [ih _ (fun v hv => h v (sharedNames_cons_mem hv))]

theorem sharedNames_cons_calc (s : SimState) (it : Item) (cur : Name → Val) (c : Comp) (w : Val)
    (l l' : List (Comp × Val)) (h : sharedNames l = sharedNames l') :
    sharedNames (((calcComp s it cur c).2, w) :: l) = sharedNames ((c, w) :: l') := by
  cases c <;> simp [calcComp, sharedNames, h]

/-- evaluation never changes which names a reward function shares from -/
theorem sharedNames_calc (s : SimState) (it : Item) (cur : Name → Val) (comps : List (Comp × Val)) :
    sharedNames (comps.map (fun cw => ((calcComp s it cur cw.1).2, cw.2))) = sharedNames comps := by
  induction comps with
  | nil => rfl
  | cons cw rest ih =>
    obtain ⟨c, w⟩ := cw
    rw [List.map_cons]
    exact sharedNames_cons_calc s it cur c w _ _ ih


/-! ### the agent dictionary -/

theorem agentKeys_setAgent (n : Name) (a : Agent) (as : List (Name × Agent)) :
    agentKeys (setAgent n a as) = agentKeys as := by
  unfold agentKeys setAgent
  rw [List.map_map]
  apply List.map_congr_left
  intro p _
  by_cases h : p.1 = n <;> simp [h]

theorem lookup_setAgent (n : Name) (a : Agent) (as : List (Name × Agent)) (m : Name) :
    (setAgent n a as).lookup m = if m = n then (as.lookup n).map (fun _ => a) else as.lookup m := by
  induction as with
  | nil => simp [setAgent]
  | cons p t ih =>
    obtain ⟨k, v⟩ := p
    unfold setAgent at ih ⊢
    simp only [List.map_cons, List.lookup]
    by_cases hkn : k = n
    · subst hkn
      by_cases hmk : m = k
      · subst hmk; simp
      · have : (m == k) = false := by simp [hmk]
        simp only [if_true, this, hmk, if_false]
        rw [ih]; simp [hmk]
    · simp only [hkn, if_false]
      by_cases hmk : m = k
      · subst hmk; simp [hkn]
      · have : (m == k) = false := by simp [hmk]
        simp only [this]
        rw [ih]
        by_cases hmn : m = n
        · subst hmn; simp [this]
        · simp [hmn]

theorem lookup_none_iff (as : List (Name × Agent)) (n : Name) : as.lookup n = none ↔ n ∉ agentKeys as := by
  induction as with
  | nil => simp [agentKeys]
  | cons p t ih =>
    obtain ⟨k, v⟩ := p
    simp only [List.lookup, agentKeys, List.map_cons, List.mem_cons, not_or]
    by_cases h : n = k
    · subst h; simp
    · have : (n == k) = false := by simp [h]
      simp only [this, h, not_false_eq_true, true_and]
      exact ih

theorem lookup_some_mem_keys {as : List (Name × Agent)} {n : Name} {a : Agent} (h : as.lookup n = some a) :
    n ∈ agentKeys as := by
  apply Classical.byContradiction
  intro hn
  rw [(lookup_none_iff as n).mpr hn] at h
  cases h

theorem mem_keys_lookup {as : List (Name × Agent)} {n : Name} (h : n ∈ agentKeys as) : ∃ a, as.lookup n = some a := by
  cases hl : as.lookup n with
  | none => exact absurd h ((lookup_none_iff as n).mp hl)
  | some a => exact ⟨a, rfl⟩

theorem curOf_setAgent_ne (n : Name) (a : Agent) (as : List (Name × Agent)) (m : Name) (h : m ≠ n) :
    curOf (setAgent n a as) m = curOf as m := by
  unfold curOf
  rw [lookup_setAgent]; simp [h]

/-- the graph of "shares from" in component order (`sharingGraph` with the identity as set order) -/
def depGraph (as : List (Name × Agent)) : Graph Name := as.map (fun p => (p.1, sharedNames p.2.comps))

theorem nbrs_sharingGraph (σ : List Name → List Name) (as : List (Name × Agent)) (n : Name) :
    nbrs (sharingGraph σ as) n = match as.lookup n with
      | some a => σ (sharedNames a.comps)
      | none => [] := by
  unfold nbrs sharingGraph
  induction as with
  | nil => simp
  | cons p t ih =>
    obtain ⟨k, v⟩ := p
    simp only [List.map_cons, List.lookup]
    by_cases h : n = k
    · subst h; simp
    · have : (n == k) = false := by simp [h]
      simp only [this]
      exact ih

theorem depGraph_eq (as : List (Name × Agent)) : depGraph as = sharingGraph id as := rfl

theorem nbrs_depGraph (as : List (Name × Agent)) (n : Name) :
    nbrs (depGraph as) n = match as.lookup n with
      | some a => sharedNames a.comps
      | none => [] := by
  rw [depGraph_eq, nbrs_sharingGraph]; rfl

theorem keys_sharingGraph (σ : List Name → List Name) (as : List (Name × Agent)) :
    keys (sharingGraph σ as) = agentKeys as := by
  unfold keys sharingGraph agentKeys
  rw [List.map_map]; rfl

/-! ### one agent's update -/

/-- what `update_agents` does to one agent when `step_counter > 0`: `update_reward`, `save_reward_to_history`,
`total_reward += current_reward`, with `cur` answering the shared-reward callbacks -/
def updAgent (s : SimState) (cur : Name → Val) (a : Agent) : Agent :=
  match a.hist with
  | [] => a
  | (it, _) :: older =>
    let r := updateComps s it cur 0 a.comps
    { comps := r.2, current := r.1, total := a.total + r.1, hist := (it, some r.1) :: older }

theorem updAgent_congr (s : SimState) (cur cur' : Name → Val) (a : Agent)
    (h : ∀ v ∈ sharedNames a.comps, cur v = cur' v) : updAgent s cur a = updAgent s cur' a := by
  unfold updAgent
  cases hh : a.hist with
  | nil => rfl
  | cons e older =>
    obtain ⟨it, r⟩ := e
    simp only [updateComps_congr s it cur cur' a.comps 0 h]

theorem sharedNames_updAgent (s : SimState) (cur : Name → Val) (a : Agent) :
    sharedNames (updAgent s cur a).comps = sharedNames a.comps := by
  unfold updAgent
  cases hh : a.hist with
  | nil => simp
  | cons e older =>
    obtain ⟨it, r⟩ := e
    simp only [updateComps_snd]
    exact sharedNames_calc s it cur a.comps

theorem updOne_ok (s : SimState) (g : Game) (name : Name) (a : Agent)
    (hl : g.agents.lookup name = some a) (hpos : 0 < g.stepCounter) (hh : a.hist ≠ [])
    (hs : ∀ v ∈ sharedNames a.comps, v ∈ agentKeys g.agents) :
    updOne s g name = .ok { g with agents := setAgent name (updAgent s (curOf g.agents) a) g.agents } := by
  unfold updOne
  simp only [hl, hpos, if_true]
  cases hhist : a.hist with
  | nil => exact absurd hhist hh
  | cons e older =>
    obtain ⟨it, r⟩ := e
    have hall : (sharedNames a.comps).all (fun v => decide (v ∈ agentKeys g.agents)) = true := by
      simp only [List.all_eq_true, decide_eq_true_eq]; exact hs
    simp only [hall, if_true, updAgent, hhist]


/-! ### `update_agents` over a dependencies-first, duplicate-free order -/

/-- what `setup_reward_sharing` establishes and every step preserves -/
structure WF (g : Game) : Prop where
  keysNodup : (agentKeys g.agents).Nodup
  orderNodup : g.order.Nodup
  orderMem : ∀ n, n ∈ g.order ↔ n ∈ agentKeys g.agents
  deps : DepsFirst (depGraph g.agents) g.order

structure Inv (s : SimState) (g0 : Game) (pre : List Name) (h : Game) : Prop where
  order : h.order = g0.order
  step : h.stepCounter = g0.stepCounter
  keys : agentKeys h.agents = agentKeys g0.agents
  untouched : ∀ n, n ∉ pre → h.agents.lookup n = g0.agents.lookup n
  done : ∀ n ∈ pre, ∀ a, g0.agents.lookup n = some a → h.agents.lookup n = some (updAgent s (curOf h.agents) a)

theorem shared_mem_order {g : Game} (wf : WF g) {n : Name} {a : Agent} (hl : g.agents.lookup n = some a)
    {v : Name} (hv : v ∈ sharedNames a.comps) : v ∈ g.order ∧ g.order.idxOf v < g.order.idxOf n := by
  have hn : n ∈ g.order := (wf.orderMem n).mpr (lookup_some_mem_keys hl)
  have hv' : v ∈ nbrs (depGraph g.agents) n := by rw [nbrs_depGraph, hl]; exact hv
  exact ⟨wf.deps.nbr_mem hn hv', wf.deps.idx_lt hn hv'⟩

theorem idxOf_lt_of_split {l pre suf : List Name} {m n : Name} (hl : l = pre ++ m :: suf) (hm : m ∉ pre)
    (hn : n ∈ pre) : l.idxOf n < l.idxOf m := by
  have h1 : l.idxOf n < pre.length := by
    rw [hl, List.idxOf_append, if_pos hn]; exact List.idxOf_lt_length_of_mem hn
  have h2 : l.idxOf m = pre.length := by
    rw [hl, List.idxOf_append, if_neg hm]; simp
  omega

theorem updateAgents_fold (s : SimState) (g0 : Game) (wf : WF g0) (hpos : 0 < g0.stepCounter)
    (hhist : ∀ n a, g0.agents.lookup n = some a → a.hist ≠ []) :
    ∀ (suf pre : List Name) (h : Game), g0.order = pre ++ suf → Inv s g0 pre h →
      ∃ h', foldE (updOne s) h suf = .ok h' ∧ Inv s g0 g0.order h' := by
  intro suf
  induction suf with
  | nil =>
    intro pre h hsplit inv
    simp at hsplit
    exact ⟨h, rfl, by rw [hsplit]; exact inv⟩
  | cons m suf ih =>
    intro pre h hsplit inv
    have hnd := wf.orderNodup
    rw [hsplit] at hnd
    have hmpre : m ∉ pre := by
      intro hm
      have := (List.nodup_append.mp hnd).2.2 m hm m (by simp)
      exact this rfl
    have hmord : m ∈ g0.order := by rw [hsplit]; simp
    obtain ⟨a, ha⟩ := mem_keys_lookup ((wf.orderMem m).mp hmord)
    have hla : h.agents.lookup m = some a := by rw [inv.untouched m hmpre]; exact ha
    have hstep : 0 < h.stepCounter := by rw [inv.step]; exact hpos
    have hsk : ∀ v ∈ sharedNames a.comps, v ∈ agentKeys h.agents := by
      intro v hv
      rw [inv.keys]
      exact (wf.orderMem v).mp (shared_mem_order wf ha hv).1
    have hone := updOne_ok s h m a hla hstep (hhist m a ha) hsk
    simp only [foldE, hone]
    apply ih (pre ++ [m]) _ (by rw [hsplit]; simp)
    -- the invariant after evaluating m
    have hne_of_shared : ∀ (n : Name) (b : Agent), g0.agents.lookup n = some b → (n = m ∨ n ∈ pre) →
        ∀ v ∈ sharedNames b.comps, v ≠ m := by
      intro n b hb hn v hv hvm
      subst hvm
      have hlt := (shared_mem_order wf hb hv).2
      rcases hn with rfl | hn
      · omega
      · have := idxOf_lt_of_split hsplit hmpre hn
        omega
    refine ⟨inv.order, inv.step, by simp only [agentKeys_setAgent]; exact inv.keys, ?_, ?_⟩
    · intro n hn
      have hnm : n ≠ m := by intro h'; subst h'; exact hn (by simp)
      have hnp : n ∉ pre := fun h' => hn (List.mem_append_left _ h')
      simp only [lookup_setAgent, hnm, if_false]
      exact inv.untouched n hnp
    · intro n hn b hb
      have hcur : ∀ v ∈ sharedNames b.comps,
          curOf h.agents v = curOf (setAgent m (updAgent s (curOf h.agents) a) h.agents) v := by
        intro v hv
        have hn' : n = m ∨ n ∈ pre := by
          rcases List.mem_append.mp hn with h' | h'
          · exact Or.inr h'
          · simp at h'; exact Or.inl h'
        exact (curOf_setAgent_ne m _ h.agents v (hne_of_shared n b hb hn' v hv)).symm
      by_cases hnm : n = m
      · subst hnm
        have hab : a = b := by rw [ha] at hb; cases hb; rfl
        subst hab
        simp only [lookup_setAgent, if_true, hla, Option.map_some]
        exact congrArg some (updAgent_congr s _ _ a hcur)
      · have hnp : n ∈ pre := by
          rcases List.mem_append.mp hn with h' | h'
          · exact h'
          · simp at h'; exact absurd h' hnm
        simp only [lookup_setAgent, hnm, if_false]
        rw [inv.done n hnp b hb]
        exact congrArg some (updAgent_congr s _ _ b hcur)

/-- **Same-step values, as a fixed point.** On a well-formed game, `update_agents` succeeds and every agent ends up
updated with the shared-reward callbacks answering from the *resulting* game, i.e. with this step's rewards. -/
theorem updateAgents_spec (s : SimState) (g : Game) (wf : WF g) (hpos : 0 < g.stepCounter)
    (hhist : ∀ n a, g.agents.lookup n = some a → a.hist ≠ []) :
    ∃ g', updateAgents s g = .ok g' ∧ g'.order = g.order ∧ g'.stepCounter = g.stepCounter ∧
      agentKeys g'.agents = agentKeys g.agents ∧
      ∀ n a, g.agents.lookup n = some a → g'.agents.lookup n = some (updAgent s (curOf g'.agents) a) := by
  obtain ⟨h', hf, inv⟩ := updateAgents_fold s g wf hpos hhist g.order [] g (by simp)
    ⟨rfl, rfl, rfl, fun _ _ => rfl, by simp⟩
  refine ⟨h', hf, inv.order, inv.step, inv.keys, ?_⟩
  intro n a ha
  exact inv.done n ((wf.orderMem n).mpr (lookup_some_mem_keys ha)) a ha


/-! ### uniqueness of the fixed point: the evaluation order does not matter -/

theorem fixpoint_unique (s : SimState) (g : Game) (wf : WF g) (A B : List (Name × Agent))
    (hA : ∀ n a, g.agents.lookup n = some a → A.lookup n = some (updAgent s (curOf A) a))
    (hB : ∀ n a, g.agents.lookup n = some a → B.lookup n = some (updAgent s (curOf B) a)) :
    ∀ n ∈ agentKeys g.agents, A.lookup n = B.lookup n := by
  have key : ∀ (k : Nat) (n : Name), n ∈ g.order → g.order.idxOf n < k → A.lookup n = B.lookup n := by
    intro k
    induction k with
    | zero => intro n _ h; omega
    | succ k ih =>
      intro n hn hk
      obtain ⟨a, ha⟩ := mem_keys_lookup ((wf.orderMem n).mp hn)
      rw [hA n a ha, hB n a ha]
      apply congrArg some
      apply updAgent_congr
      intro v hv
      obtain ⟨hvo, hlt⟩ := shared_mem_order wf ha hv
      have := ih v hvo (by omega)
      unfold curOf
      rw [this]
  intro n hn
  have hno := (wf.orderMem n).mpr hn
  exact key (g.order.idxOf n + 1) n hno (by omega)

def SameAgents (g1 g2 : Game) : Prop := ∀ n, g1.agents.lookup n = g2.agents.lookup n

/-- Two well-formed games holding the same agents (as a mapping), whatever their dictionary order and whatever their
evaluation orders, hold the same agents after `update_agents`. -/
theorem updateAgents_order_irrelevant (s : SimState) (g1 g2 : Game) (wf1 : WF g1) (wf2 : WF g2)
    (same : SameAgents g1 g2) (hpos1 : 0 < g1.stepCounter) (hpos2 : 0 < g2.stepCounter)
    (hhist : ∀ n a, g1.agents.lookup n = some a → a.hist ≠ []) :
    ∃ g1' g2', updateAgents s g1 = .ok g1' ∧ updateAgents s g2 = .ok g2' ∧ SameAgents g1' g2' := by
  obtain ⟨g1', h1, _, _, hk1, hf1⟩ := updateAgents_spec s g1 wf1 hpos1 hhist
  obtain ⟨g2', h2, _, _, hk2, hf2⟩ := updateAgents_spec s g2 wf2 hpos2
    (fun n a h => hhist n a (by rw [same n]; exact h))
  refine ⟨g1', g2', h1, h2, ?_⟩
  intro n
  by_cases hn : n ∈ agentKeys g1.agents
  · exact fixpoint_unique s g1 wf1 g1'.agents g2'.agents hf1
      (fun m a h => hf2 m a (by rw [← same m]; exact h)) n hn
  · have hn2 : n ∉ agentKeys g2.agents := by
      intro h'
      obtain ⟨a, ha⟩ := mem_keys_lookup h'
      rw [← same n] at ha
      exact hn (lookup_some_mem_keys ha)
    rw [(lookup_none_iff _ n).mpr (by rw [hk1]; exact hn), (lookup_none_iff _ n).mpr (by rw [hk2]; exact hn2)]

/-! ### well-formedness is preserved; one whole step -/

theorem DepsFirst_of_nbrs_sub {g g' : Graph Name} {l : List Name}
    (h : ∀ u v, v ∈ nbrs g' u → v ∈ nbrs g u) (hd : DepsFirst g l) : DepsFirst g' l := by
  intro l₁ u l₂ heq v hv
  exact hd l₁ u l₂ heq v (h u v hv)

theorem WF_of_same_shape {g g' : Game} (wf : WF g) (ho : g'.order = g.order)
    (hk : agentKeys g'.agents = agentKeys g.agents)
    (hl : ∀ n a, g.agents.lookup n = some a → ∃ a', g'.agents.lookup n = some a' ∧ sharedNames a'.comps = sharedNames a.comps) :
    WF g' := by
  refine ⟨by rw [hk]; exact wf.keysNodup, by rw [ho]; exact wf.orderNodup, by rw [ho, hk]; exact wf.orderMem, ?_⟩
  rw [ho]
  apply DepsFirst_of_nbrs_sub _ wf.deps
  intro u v hv
  rw [nbrs_depGraph] at hv ⊢
  cases hu : g.agents.lookup u with
  | none =>
    have : g'.agents.lookup u = none := by
      rw [lookup_none_iff, hk, ← lookup_none_iff]; exact hu
    rw [this] at hv; simp at hv
  | some a =>
    obtain ⟨a', ha', hs⟩ := hl u a hu
    rw [ha'] at hv
    simp only at hv ⊢
    rw [← hs]; exact hv

theorem updateAgents_WF (s : SimState) (g g' : Game) (wf : WF g)
    (ho : g'.order = g.order) (hk : agentKeys g'.agents = agentKeys g.agents)
    (hf : ∀ n a, g.agents.lookup n = some a → g'.agents.lookup n = some (updAgent s (curOf g'.agents) a)) : WF g' :=
  WF_of_same_shape wf ho hk (fun n a h => ⟨_, hf n a h, sharedNames_updAgent s _ a⟩)

/-- the agent after `process_action_response` appended this step's item -/
def pushItem (it : Item) (a : Agent) : Agent := { a with hist := (it, none) :: a.hist }

theorem lookup_act (items : Name → Item) (g : Game) (n : Name) :
    (act items g).agents.lookup n = (g.agents.lookup n).map (pushItem (items n)) := by
  unfold act
  simp only
  induction g.agents with
  | nil => simp
  | cons p t ih =>
    obtain ⟨k, v⟩ := p
    simp only [List.map_cons, List.lookup]
    by_cases h : n = k
    · subst h; simp [pushItem]
    · have : (n == k) = false := by simp [h]
      simp only [this]; exact ih

theorem agentKeys_act (items : Name → Item) (g : Game) : agentKeys (act items g).agents = agentKeys g.agents := by
  unfold act agentKeys
  simp only [List.map_map]
  rfl

theorem WF_advance_act (items : Name → Item) (g : Game) (wf : WF g) : WF (advance (act items g)) := by
  apply WF_of_same_shape (g' := advance (act items g)) wf rfl (agentKeys_act items g)
  intro n a ha
  refine ⟨pushItem (items n) a, ?_, rfl⟩
  show (act items g).agents.lookup n = _
  rw [lookup_act, ha]; rfl

/-- **One step.** On a well-formed game the step succeeds, stays well-formed, and every agent is updated from its own
new item and the post-step state, with shared components reading the rewards of the resulting game. -/
theorem gameStep_spec (g : Game) (wf : WF g) (items : Name → Item) (s : SimState) :
    ∃ g', gameStep g items s = .ok g' ∧ WF g' ∧ g'.order = g.order ∧ g'.stepCounter = g.stepCounter + 1 ∧
      agentKeys g'.agents = agentKeys g.agents ∧
      ∀ n a, g.agents.lookup n = some a →
        g'.agents.lookup n = some (updAgent s (curOf g'.agents) (pushItem (items n) a)) := by
  have wf1 := WF_advance_act items g wf
  have hl1 : ∀ n a, (advance (act items g)).agents.lookup n = some a →
      ∃ a0, g.agents.lookup n = some a0 ∧ a = pushItem (items n) a0 := by
    intro n a h
    have h' : (act items g).agents.lookup n = some a := h
    rw [lookup_act] at h'
    cases h0 : g.agents.lookup n with
    | none => rw [h0] at h'; simp at h'
    | some a0 => rw [h0] at h'; simp at h'; exact ⟨a0, rfl, h'.symm⟩
  obtain ⟨g', hok, ho, hs, hk, hf⟩ := updateAgents_spec s (advance (act items g)) wf1
    (by simp [advance]) (by
      intro n a h
      obtain ⟨a0, _, rfl⟩ := hl1 n a h
      simp [pushItem])
  refine ⟨g', hok, updateAgents_WF s _ g' wf1 ho hk hf, ho, by rw [hs]; rfl, by rw [hk]; exact agentKeys_act items g, ?_⟩
  intro n a ha
  apply hf
  show (act items g).agents.lookup n = _
  rw [lookup_act, ha]; rfl

end Primaite.Reward
