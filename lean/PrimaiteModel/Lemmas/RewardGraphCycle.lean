/-
Proof development for `graph_has_cycle` (Model/RewardGraph.lean): soundness/completeness of the recursive search with
early exit, via a ghost finish-order list; plus the top-level theorems for both functions with explicit fuel.
-/
import PrimaiteModel.Lemmas.RewardGraphTopo
namespace Primaite.RewardGraph

variable {α : Type} [DecidableEq α]

/-- what a `False` return guarantees -/
structure CPost (g : Graph α) (vis cur fin : List α) (n : α) (r : Bool × CSt α) : Prop where
  curEq : r.2.2 = cur
  visMono : ∀ x ∈ vis, x ∈ r.2.1
  nIn : n ∈ r.2.1
  nNotCur : n ∉ cur
  ghost : ∃ fin', (∀ x, x ∈ fin' ↔ (x ∈ r.2.1 ∧ x ∉ cur)) ∧ DepsFirst g fin' ∧ (∀ x ∈ fin, x ∈ fin')

structure LPost (g : Graph α) (vis cur fin ms : List α) (r : Bool × CSt α) : Prop where
  curEq : r.2.2 = cur
  visMono : ∀ x ∈ vis, x ∈ r.2.1
  allIn : ∀ m ∈ ms, m ∈ r.2.1 ∧ m ∉ cur
  ghost : ∃ fin', (∀ x, x ∈ fin' ↔ (x ∈ r.2.1 ∧ x ∉ cur)) ∧ DepsFirst g fin' ∧ (∀ x ∈ fin, x ∈ fin')

def CSpec (g : Graph α) (fuel : Nat) : Prop :=
  ∀ (vis cur fin : List α) (n : α),
    mu g vis < fuel → n ∈ univ g → (∀ a ∈ cur, Path g a n) →
    (∀ x, x ∈ fin ↔ (x ∈ vis ∧ x ∉ cur)) → DepsFirst g fin →
    ((cdfs g fuel (vis, cur) n).1 = true → ¬ Acyclic g) ∧
    ((cdfs g fuel (vis, cur) n).1 = false → CPost g vis cur fin n (cdfs g fuel (vis, cur) n))

theorem loop_spec (g : Graph α) (fuel : Nat) (ih : CSpec g fuel) :
    ∀ (ms : List α) (vis cur fin : List α),
      mu g vis < fuel → (∀ m ∈ ms, m ∈ univ g ∧ ∀ a ∈ cur, Path g a m) →
      (∀ x, x ∈ fin ↔ (x ∈ vis ∧ x ∉ cur)) → DepsFirst g fin →
      ((loopE (cdfs g fuel) (vis, cur) ms).1 = true → ¬ Acyclic g) ∧
      ((loopE (cdfs g fuel) (vis, cur) ms).1 = false →
          LPost g vis cur fin ms (loopE (cdfs g fuel) (vis, cur) ms)) := by
  intro ms
  induction ms with
  | nil =>
    intro vis cur fin _ _ hfin hd
    refine ⟨by simp [loopE], fun _ => ⟨rfl, fun x hx => hx, by simp, ⟨fin, hfin, hd, fun x hx => hx⟩⟩⟩
  | cons m ms ihms =>
    intro vis cur fin hmu hms hfin hd
    have hm := hms m (by simp)
    obtain ⟨ht, hf⟩ := ih vis cur fin m hmu hm.1 hm.2 hfin hd
    simp only [loopE]
    cases hb : (cdfs g fuel (vis, cur) m).1 with
    | true =>
      simp only [if_true]
      exact ⟨fun _ => ht hb, fun h => by simp at h⟩
    | false =>
      have p := hf hb
      obtain ⟨fin1, hfin1, hd1, hsub1⟩ := p.ghost
      -- rewrite the intermediate state as (v1, cur)
      have hst : (cdfs g fuel (vis, cur) m).2 = ((cdfs g fuel (vis, cur) m).2.1, cur) :=
        Prod.ext rfl p.curEq
      have hmu1 : mu g (cdfs g fuel (vis, cur) m).2.1 < fuel :=
        Nat.lt_of_le_of_lt (mu_anti g vis _ p.visMono) hmu
      have := ihms (cdfs g fuel (vis, cur) m).2.1 cur fin1 hmu1
        (fun x hx => hms x (by simp [hx])) hfin1 hd1
      rw [← hst] at this
      obtain ⟨ht2, hf2⟩ := this
      simp only [Bool.false_eq_true, if_false]
      refine ⟨ht2, fun h => ?_⟩
      have q := hf2 h
      obtain ⟨fin2, hfin2, hd2, hsub2⟩ := q.ghost
      refine ⟨q.curEq, fun x hx => q.visMono x (p.visMono x hx), ?_, ⟨fin2, hfin2, hd2, fun x hx => hsub2 x (hsub1 x hx)⟩⟩
      intro x hx
      rcases List.mem_cons.mp hx with rfl | hx
      · exact ⟨q.visMono _ p.nIn, p.nNotCur⟩
      · exact q.allIn x hx

theorem cdfs_spec (g : Graph α) : ∀ fuel, CSpec g fuel := by
  intro fuel
  induction fuel with
  | zero => intro vis cur fin n h; omega
  | succ fuel ih =>
    intro vis cur fin n hmu hn hA hfin hd
    unfold cdfs
    by_cases hc : n ∈ cur
    · simp only [hc, if_true]
      exact ⟨fun _ hac => hac n (hA n hc), fun h => by simp at h⟩
    · simp only [hc, if_false]
      by_cases hv : n ∈ vis
      · simp only [hv, if_true]
        exact ⟨fun h => by simp at h, fun _ => ⟨rfl, fun x hx => hx, hv, hc, ⟨fin, hfin, hd, fun x hx => hx⟩⟩⟩
      · simp only [hv, if_false]
        have hmu0 : mu g (n :: vis) < fuel := by
          have := mu_lt g vis n hn hv; omega
        have hfin0 : ∀ x, x ∈ fin ↔ (x ∈ n :: vis ∧ x ∉ n :: cur) := by
          intro x
          rw [hfin x]
          constructor
          · intro ⟨h1, h2⟩
            have : x ≠ n := by intro h; subst h; exact hv h1
            exact ⟨List.mem_cons_of_mem _ h1, by simp [this, h2]⟩
          · intro ⟨h1, h2⟩
            simp at h2
            rcases List.mem_cons.mp h1 with h | h
            · exact absurd h h2.1
            · exact ⟨h, h2.2⟩
        have hnb : ∀ m ∈ nbrs g n, m ∈ univ g ∧ ∀ a ∈ n :: cur, Path g a m := by
          intro m hm
          refine ⟨nbrs_sub_univ g n m hm, ?_⟩
          intro a ha
          rcases List.mem_cons.mp ha with rfl | ha
          · exact .single hm
          · exact (hA a ha).snoc hm
        obtain ⟨ht, hf⟩ := loop_spec g fuel ih (nbrs g n) (n :: vis) (n :: cur) fin hmu0 hnb hfin0 hd
        cases hb : (loopE (cdfs g fuel) (n :: vis, n :: cur) (nbrs g n)).1 with
        | true =>
          simp only [if_true]
          exact ⟨fun _ => ht hb, fun h => by simp at h⟩
        | false =>
          simp only [Bool.false_eq_true, if_false]
          refine ⟨fun h => by simp at h, fun _ => ?_⟩
          have q := hf hb
          obtain ⟨fin1, hfin1, hd1, hsub1⟩ := q.ghost
          have hcur : (loopE (cdfs g fuel) (n :: vis, n :: cur) (nbrs g n)).2.2.erase n = cur := by
            rw [q.curEq]; simp
          refine ⟨hcur, fun x hx => q.visMono x (List.mem_cons_of_mem _ hx), q.visMono n (by simp), hc, ?_⟩
          refine ⟨fin1 ++ [n], ?_, hd1.snoc ?_, fun x hx => List.mem_append_left _ (hsub1 x hx)⟩
          · intro x
            simp only [List.mem_append, List.mem_singleton]
            constructor
            · rintro (h | rfl)
              · have := (hfin1 x).mp h
                exact ⟨this.1, fun hx => this.2 (List.mem_cons_of_mem _ hx)⟩
              · exact ⟨q.visMono _ (by simp), hc⟩
            · intro ⟨h1, h2⟩
              by_cases hxn : x = n
              · exact Or.inr hxn
              · exact Or.inl ((hfin1 x).mpr ⟨h1, by simp [hxn, h2]⟩)
          · intro v hv'
            exact (hfin1 v).mpr (q.allIn v hv')

/-- a dependencies-first list that contains every node with dependencies excludes cycles -/
theorem path_into_prefix {g : Graph α} {l : List α} (hd : DepsFirst g l) :
    ∀ {u w}, Path g u w → ∀ l₁ l₂, l = l₁ ++ u :: l₂ → w ∈ l₁ := by
  intro u w hp
  induction hp with
  | single h => intro l₁ l₂ heq; exact hd l₁ _ l₂ heq _ h
  | @cons u0 v0 w0 h _ ih =>
    intro l₁ l₂ heq
    have hv := hd l₁ u0 l₂ heq v0 h
    obtain ⟨a, b, hab⟩ := List.append_of_mem hv
    have := ih a (b ++ u0 :: l₂) (by rw [heq, hab]; simp [List.append_assoc])
    rw [hab]; exact List.mem_append_left _ this

theorem depsFirst_no_cycle {g : Graph α} {l : List α} (hd : DepsFirst g l) (u : α) (hp : Path g u u) :
    ∀ (k : Nat) (l₁ l₂ : List α), l₁.length = k → l = l₁ ++ u :: l₂ → False := by
  intro k
  induction k using Nat.strongRecOn with
  | _ k ih =>
    intro l₁ l₂ hk heq
    have hu := path_into_prefix hd hp l₁ l₂ heq
    obtain ⟨a, b, hab⟩ := List.append_of_mem hu
    have hlen : a.length < k := by rw [← hk, hab]; simp
    exact ih a.length hlen a (b ++ u :: l₂) rfl (by rw [heq, hab]; simp [List.append_assoc])


theorem key_of_nbr {g : Graph α} {u v : α} (h : v ∈ nbrs g u) : u ∈ keys g := by
  unfold nbrs at h
  cases hl : g.lookup u with
  | none => simp [hl] at h
  | some l =>
    clear h
    induction g with
    | nil => simp [List.lookup] at hl
    | cons a t ih =>
      obtain ⟨k, w⟩ := a
      simp only [List.lookup] at hl
      by_cases hk : u == k
      · simp at hk; subst hk; simp [keys]
      · simp [hk] at hl; simp only [keys, List.map_cons, List.mem_cons]; exact Or.inr (ih hl)

theorem path_head_key {g : Graph α} {u w : α} (h : Path g u w) : u ∈ keys g := by
  cases h with
  | single h => exact key_of_nbr h
  | cons h _ => exact key_of_nbr h

omit [DecidableEq α] in
theorem keys_sub_univ (g : Graph α) : ∀ m ∈ keys g, m ∈ univ g := by
  intro m hm; unfold univ; unfold keys at hm; exact List.mem_append_left _ hm

/-- `graph_has_cycle` rejects exactly the cyclic graphs (fuel = number of nodes + 1 suffices). -/
theorem hasCycle_iff (g : Graph α) (fuel : Nat) (hfuel : mu g [] < fuel) :
    hasCycleF g fuel = true ↔ ¬ Acyclic g := by
  have hs := loop_spec g fuel (cdfs_spec g fuel) (keys g) [] [] [] hfuel
    (fun m hm => ⟨keys_sub_univ g m hm, by simp⟩) (by simp) (by intro l₁ u l₂ h; simp at h)
  unfold hasCycleF
  constructor
  · exact hs.1
  · intro hna
    cases hb : (loopE (cdfs g fuel) ([], []) (keys g)).1 with
    | true => rfl
    | false =>
      exfalso; apply hna
      have q := hs.2 hb
      obtain ⟨fin, hfin, hd, _⟩ := q.ghost
      intro u hp
      have hu : u ∈ fin := (hfin u).mpr ⟨(q.allIn u (path_head_key hp)).1, by simp⟩
      obtain ⟨a, b, hab⟩ := List.append_of_mem hu
      exact depsFirst_no_cycle hd u hp a.length a b rfl hab

theorem topoSort_depsFirst (g : Graph α) (hac : Acyclic g) (fuel : Nat) (hfuel : mu g [] < fuel) :
    DepsFirst g (topoSortF g fuel) ∧ ∀ k ∈ keys g, k ∈ topoSortF g fuel := by
  unfold topoSortF
  have key : ∀ (ms : List α) (st : List α × List α), (∀ m ∈ ms, m ∈ univ g) →
      mu g st.1 < fuel → DepsFirst g st.2 → (∀ x ∈ st.2, x ∈ st.1) → (∀ x ∈ st.1, x ∈ st.2) →
      let r := ms.foldl (fun st n => tdfs g fuel st n) st
      DepsFirst g r.2 ∧ (∀ x ∈ st.2, x ∈ r.2) ∧ (∀ m ∈ ms, m ∈ r.2) := by
    intro ms
    induction ms with
    | nil => intro st _ _ hd _ _; exact ⟨hd, fun x hx => hx, by simp⟩
    | cons m ms ih =>
      intro st hms hmu hd hs hs'
      obtain ⟨v, s⟩ := st
      simp only [List.foldl_cons]
      obtain ⟨p, hm⟩ := tdfs_spec g hac fuel v s m [] hmu (hms m (by simp)) hd hs
        (fun x hx hxs => absurd (hs' x hx) hxs) (by simp)
      have hfull : ∀ x ∈ (tdfs g fuel (v, s) m).1, x ∈ (tdfs g fuel (v, s) m).2 := by
        intro x hx
        apply Classical.byContradiction
        intro hxs
        have := p.grey x hx hxs
        simp at this
      obtain ⟨h1, h2, h3⟩ := ih (tdfs g fuel (v, s) m) (fun x hx => hms x (by simp [hx]))
        (Nat.lt_of_le_of_lt (mu_anti g v _ p.visMono) hmu) p.deps p.sub hfull
      refine ⟨h1, fun x hx => h2 x (p.stkMono x hx), ?_⟩
      intro x hx
      rcases List.mem_cons.mp hx with rfl | hx
      · exact h2 _ hm
      · exact h3 x hx
  obtain ⟨h1, _, h3⟩ := key (keys g) ([], []) (keys_sub_univ g) hfuel
    (by intro l₁ u l₂ h; simp at h) (by simp) (by simp)
  exact ⟨h1, h3⟩



end Primaite.RewardGraph
