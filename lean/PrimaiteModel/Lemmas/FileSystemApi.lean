/-
`Inv` is preserved by the Python-API operations of `Model/FileSystemApi.lean`.
-/
import PrimaiteModel.Model.FileSystemApi
import PrimaiteModel.Lemmas.FileSystemKeeps
namespace Primaite.FileSystem

/-! ### `Folder.add_file` -/

/-- Re-adding the file `get_file` found (forced create of an existing file): nothing is removed. -/
theorem addFileForced_existing {g : Folder} {x : Name} {f : File} (hf : g.getFile x = some f) :
    g.addFileForced f = g.addFile f := by
  obtain ⟨_, hn⟩ := getFile_live hf
  unfold Folder.addFileForced
  rw [hn, hf]
  simp

/-- Adding a file whose name is not live: nothing is removed. -/
theorem addFileForced_new {g : Folder} {f : File} (hf : g.getFile f.name = none) :
    g.addFileForced f = g.addFile f := by
  unfold Folder.addFileForced
  rw [hf]

theorem removeFile_meta (g : Folder) (f : File) :
    (g.removeFile f).id = g.id ∧ (g.removeFile f).name = g.name ∧ (g.removeFile f).deleted = g.deleted := by
  unfold Folder.removeFile; split <;> simp

theorem addFile_meta (g : Folder) (f : File) :
    (g.addFile f).id = g.id ∧ (g.addFile f).name = g.name ∧ (g.addFile f).deleted = g.deleted := by
  simp [Folder.addFile]

theorem addFileForced_meta (g : Folder) (f : File) :
    (g.addFileForced f).id = g.id ∧ (g.addFileForced f).name = g.name ∧ (g.addFileForced f).deleted = g.deleted := by
  unfold Folder.addFileForced
  split
  · split
    · obtain ⟨a, b, c⟩ := addFile_meta (g.removeFile ‹File›) f
      obtain ⟨a', b', c'⟩ := removeFile_meta g ‹File›
      exact ⟨a.trans a', b.trans b', c.trans c'⟩
    · exact addFile_meta g f
  · exact addFile_meta g f

/-- A forced `add_file` of a file with a FRESH uuid keeps the folder invariant: a live namesake is moved to the
deleted dictionary first, so live names stay unique. -/
theorem folderInv_addFileForced_fresh {g : Folder} {n : Nat} (h : FolderInv g) (hb : FolderBelow n g) {f : File}
    (hid : n ≤ f.id) (hdel : f.deleted = false) :
    FolderInv (g.addFileForced f) ∧ FolderBelow (f.id + 1) (g.addFileForced f) := by
  unfold Folder.addFileForced
  cases hg : g.getFile f.name with
  | none =>
    simp only
    have hno := getFile_none hg
    refine ⟨folderInv_addFile_new h ?_ hno hdel, folderBelow_addFile (hb.mono (by omega)) (Nat.lt_succ_self _)⟩
    intro a ha
    have := hb a ha
    omega
  | some e =>
    simp only
    obtain ⟨hem, hen⟩ := getFile_live hg
    have hne : (e.id != f.id) = true := by
      have := hb e (Or.inl hem)
      simp only [bne_iff_ne, ne_eq]; omega
    rw [if_pos hne]
    have h1 := folderInv_removeFile h e
    have hb1 := folderBelow_removeFile hb hem
    refine ⟨folderInv_addFile_new h1 ?_ ?_ hdel, folderBelow_addFile (hb1.mono (by omega)) (Nat.lt_succ_self _)⟩
    · intro a ha
      have := hb1 a ha
      omega
    · intro a ha hn
      unfold Folder.removeFile at ha
      have hany : g.files.any (fun y => y.id == e.id) = true := by
        simp only [List.any_eq_true, beq_iff_eq]; exact ⟨e, hem, rfl⟩
      rw [if_pos hany] at ha
      obtain ⟨ha, hane⟩ := (mem_dictPop File.id).mp ha
      exact hane (h.uniqueNames a ha e hem (hn.trans hen.symm))

/-! ### create_file called directly -/

theorem inv_apiCreateFile {s : State} (h : Inv s) (F x : Name) (force : Bool) : Inv (apiCreateFile s F x force).1 := by
  unfold apiCreateFile
  have ts := createFileTarget_spec h F
  cases heq : createFileTarget s F with
  | mk s1 og =>
    rw [heq] at ts
    cases og with
    | none => exact ts.1
    | some g =>
      simp only
      split
      · exact ts.1
      · exact inv_createFileIn ts.1 (ts.2 g rfl) x

/-! ### get-or-create -/

theorem getOrCreateFolder_spec {s : State} (h : Inv s) (G : Name) :
    Inv (getOrCreateFolder s G).1 ∧ (getOrCreateFolder s G).2 ∈ (getOrCreateFolder s G).1.folders ∧
    (getOrCreateFolder s G).2.name = G ∧ s.next ≤ (getOrCreateFolder s G).1.next := by
  unfold getOrCreateFolder
  cases hg : getFolder s G with
  | some g =>
    obtain ⟨hm, hn⟩ := getFolder_live hg
    exact ⟨h, hm, hn, Nat.le_refl _⟩
  | none => exact createFolder_spec h G

/-! ### copy_file -/

theorem inv_apiCopyFile {s : State} (h : Inv s) (F x G : Name) : Inv (apiCopyFile s F x G).1 := by
  unfold apiCopyFile
  cases hf : getFile s F x with
  | none => exact h
  | some f =>
    simp only
    -- the source is a live file of a live folder, so it is not flagged
    have hfl : f.deleted = false := by
      unfold getFile at hf
      cases hg : getFolder s F with
      | none => rw [hg] at hf; simp at hf
      | some g0 =>
        rw [hg] at hf
        obtain ⟨hgm, _⟩ := getFolder_live hg
        exact (h.folder g0 (Or.inl hgm)).1.liveFlag f (getFile_live hf).1
    obtain ⟨h1, hm, _, _⟩ := getOrCreateFolder_spec h G
    generalize getOrCreateFolder s G = r at h1 hm ⊢
    have gi := h1.folder r.2 (Or.inl hm)
    refine inv_updFolder h1 r.2.id (fun g => g.addFileForced { f with id := r.1.next }) rfl rfl rfl (Nat.le_succ _) ?_
    intro g0 hg0 hid
    have := folder_eq_of_id h1 hm hg0 hid
    subst this
    obtain ⟨m1, m2, m3⟩ := addFileForced_meta r.2 { f with id := r.1.next }
    have := folderInv_addFileForced_fresh (f := { f with id := r.1.next }) gi.1 gi.2.1 (Nat.le_refl _) hfl
    exact ⟨m1, m2, m3, this.1, this.2⟩

/-! ### add_file on a live folder -/

theorem inv_apiAddFile {s : State} (h : Inv s) (F x : Name) (force : Bool) : Inv (apiAddFile s F x force).1 := by
  unfold apiAddFile
  cases hg : getFolder s F with
  | none => exact h
  | some g =>
    simp only
    obtain ⟨hm, _⟩ := getFolder_live hg
    have gi := h.folder g (Or.inl hm)
    split
    · exact h
    · refine inv_updFolder h g.id (fun g => g.addFileForced { id := s.next, name := x }) rfl rfl rfl (Nat.le_succ _) ?_
      intro g0 hg0 hid
      have := folder_eq_of_id h hm hg0 hid
      subst this
      obtain ⟨m1, m2, m3⟩ := addFileForced_meta g0 { id := s.next, name := x }
      have := folderInv_addFileForced_fresh (f := { id := s.next, name := x }) gi.1 gi.2.1 (Nat.le_refl _) rfl
      exact ⟨m1, m2, m3, this.1, this.2⟩

/-! ### the by-id entry points -/

theorem inv_apiDeleteFileById {s : State} (h : Inv s) (i j : Nat) : Inv (apiDeleteFileById s i j).1 := by
  unfold apiDeleteFileById
  split
  · exact h
  · split
    · exact h
    · exact inv_deleteFile h _ _

theorem inv_apiDeleteFolderById {s : State} (h : Inv s) (i : Nat) : Inv (apiDeleteFolderById s i).1 := by
  unfold apiDeleteFolderById
  split
  · exact h
  · exact inv_deleteFolder h _

theorem inv_apiRemoveFileById {s : State} (h : Inv s) (i j : Nat) : Inv (apiRemoveFileById s i j).1 := by
  unfold apiRemoveFileById
  split
  · exact h
  · rename_i g hg
    have hgm := List.mem_of_find?_eq_some hg
    have gi := h.folder g (Or.inl hgm)
    split
    · exact h
    · rename_i f hf
      have hfm := List.mem_of_find?_eq_some hf
      refine inv_updFolder h g.id (fun g => g.removeFile f) rfl rfl rfl (Nat.le_refl _) ?_
      intro g0 hg0 hid
      have := folder_eq_of_id h hgm hg0 hid
      subst this
      obtain ⟨m1, m2, m3⟩ := removeFile_meta g0 f
      exact ⟨m1, m2, m3, folderInv_removeFile gi.1 f, folderBelow_removeFile gi.2.1 hfm⟩

/-! ### move_file -/

/-- Taking a live file out of a folder altogether keeps the folder invariant. -/
theorem folderInv_popLive {g : Folder} (h : FolderInv g) (k : Nat) :
    FolderInv { g with files := dictPop File.id g.files k } := by
  constructor
  · exact nodup_dictPop _ h.liveIds
  · exact h.delIds
  · intro a ha b hb
    exact h.disjoint a ((mem_dictPop File.id).mp ha).1 b hb
  · intro a ha
    exact h.liveFlag a ((mem_dictPop File.id).mp ha).1
  · exact h.delFlag
  · intro a ha b hb
    exact h.uniqueNames a ((mem_dictPop File.id).mp ha).1 b ((mem_dictPop File.id).mp hb).1
  · intro a ha
    exact h.routes a ((mem_dictPop File.id).mp ha).1

theorem folderBelow_popLive {n : Nat} {g : Folder} (h : FolderBelow n g) (k : Nat) :
    FolderBelow n { g with files := dictPop File.id g.files k } := by
  intro a ha
  rcases ha with ha | ha
  · exact h a (Or.inl ((mem_dictPop File.id).mp ha).1)
  · exact h a (Or.inr ha)

/-- The one thing `Inv` does not record: file uuids of different folders are distinct. `MoveFresh s F x G` says that
the file `move_file(F, x, G)` is going to move — when it does move, i.e. when the destination has no live file of that name —
is not already (live or deleted) in the destination. A move within one folder or onto a live namesake is a no-op and needs
nothing. In the implementation a `File` object sits in one folder only; the rig checks this clause on the real objects after
every operation. -/
def MoveFresh (s : State) (F x G : Name) : Prop :=
  ∀ f, getFile s F x = some f → (getOrCreateFolder s G).2.getFile f.name = none →
    ∀ a, a ∈ (getOrCreateFolder s G).2.files ∨ a ∈ (getOrCreateFolder s G).2.deletedFiles → a.id ≠ f.id

theorem inv_apiMoveFile {s : State} (h : Inv s) (F x G : Name) (hfresh : MoveFresh s F x G) :
    Inv (apiMoveFile s F x G).1 := by
  unfold apiMoveFile
  cases hsrc : getFolder s F with
  | none => exact h
  | some src =>
    simp only
    cases hf : src.getFile x with
    | none => exact h
    | some f =>
      simp only
      have hgf : getFile s F x = some f := by unfold getFile; rw [hsrc]; exact hf
      have hfr := hfresh f hgf
      obtain ⟨hsm, _⟩ := getFolder_live hsrc
      obtain ⟨hfm, _⟩ := getFile_live hf
      obtain ⟨h1, hm, _, hle⟩ := getOrCreateFolder_spec h G
      -- the source folder is still live (unchanged) after get-or-create
      have hsm1 : src ∈ (getOrCreateFolder s G).1.folders := by
        unfold getOrCreateFolder
        cases hg : getFolder s G with
        | some g => exact hsm
        | none =>
          rw [createFolder_eq, hg]
          simp only
          refine (mem_dictSet Folder.id).mpr (Or.inr ⟨hsm, ?_⟩)
          obtain ⟨f1, _⟩ := setDur_fields s { id := s.next, name := G }
          rw [f1]
          exact Nat.ne_of_lt (h.folder src (Or.inl hsm)).2.2
      generalize getOrCreateFolder s G = r at h1 hm hsm1 hfr hle ⊢
      split
      · exact h1
      · rename_i hnone
        have hnone' : r.2.getFile f.name = none := by
          cases hq : r.2.getFile f.name with
          | none => rfl
          | some _ => rw [hq] at hnone; simp at hnone
        have si := h1.folder src (Or.inl hsm1)
        have di := h1.folder r.2 (Or.inl hm)
        -- source and destination are different folders: the source has a live file of that name
        have hne : r.2.id ≠ src.id := by
          intro e
          have := folder_eq_of_id h1 hsm1 (Or.inl hm) e
          rw [this] at hnone'
          exact getFile_none hnone' f hfm rfl
        -- step 1: the file leaves the source
        have h2 : Inv (updFolder r.1 src.id (fun g => { g with files := dictPop File.id g.files f.id })) := by
          refine inv_updFolder h1 src.id _ rfl rfl rfl (Nat.le_refl _) ?_
          intro g0 hg0 hid
          have := folder_eq_of_id h1 hsm1 hg0 hid
          subst this
          exact ⟨rfl, rfl, rfl, folderInv_popLive si.1 f.id, folderBelow_popLive si.2.1 f.id⟩
        have hm2 : r.2 ∈ (updFolder r.1 src.id (fun g => { g with files := dictPop File.id g.files f.id })).folders := by
          unfold updFolder
          simp only
          refine List.mem_map.mpr ⟨r.2, hm, ?_⟩
          have : (r.2.id == src.id) = false := by simpa using hne
          simp [this]
        -- step 2: it arrives in the destination
        have h3 := inv_updFolder (s' := updFolder (updFolder r.1 src.id (fun g => { g with files := dictPop File.id g.files f.id }))
            r.2.id (fun g => g.addFile f)) h2 r.2.id (fun g => g.addFile f) rfl rfl rfl (Nat.le_refl _) (by
          intro g0 hg0 hid
          have := folder_eq_of_id h2 hm2 hg0 hid
          subst this
          obtain ⟨m1, m2, m3⟩ := addFile_meta r.2 f
          refine ⟨m1, m2, m3, folderInv_addFile_new di.1 (hfr hnone') (getFile_none hnone') (si.1.liveFlag f hfm), ?_⟩
          exact folderBelow_addFile di.2.1 (si.2.1 f (Or.inl hfm)))
        exact inv_congr h3 rfl rfl rfl rfl

end Primaite.FileSystem
