/-
State-level invariant `Inv` of `Model/FileSystem.lean` and its preservation by every file-system operation.
-/
import PrimaiteModel.Lemmas.FileSystemFolder
namespace Primaite.FileSystem

/-- The structural invariant of the file system (DESIGN §5/C15). -/
structure Inv (s : State) : Prop where
  /-- every folder, live or deleted, satisfies the folder invariant; all uuids are below the allocation counter -/
  folder : ∀ g, g ∈ s.folders ∨ g ∈ s.deletedFolders → FolderInv g ∧ FolderBelow s.next g ∧ g.id < s.next
  /-- distinct uuids among the live folders, among the deleted folders, and no folder in both dictionaries -/
  liveIds : (s.folders.map Folder.id).Nodup
  delIds : (s.deletedFolders.map Folder.id).Nodup
  disjoint : ∀ a ∈ s.folders, ∀ b ∈ s.deletedFolders, a.id ≠ b.id
  /-- the `deleted` flag says which dictionary a folder is in -/
  liveFlag : ∀ a ∈ s.folders, a.deleted = false
  delFlag : ∀ b ∈ s.deletedFolders, b.deleted = true
  /-- live folder names are unique -/
  uniqueNames : ∀ a ∈ s.folders, ∀ b ∈ s.folders, a.name = b.name → a.id = b.id
  /-- the request route of a live folder's name leads to that folder -/
  routes : ∀ a ∈ s.folders, lookupRoute s.folderRoutes a.name = some a.id
  /-- the root folder is live (it cannot be deleted) -/
  root : ∃ g ∈ s.folders, g.name = "root"

/-! ### `get_folder` -/

theorem getFolder_live {s : State} {n : Name} {g : Folder} (h : getFolder s n = some g) :
    g ∈ s.folders ∧ g.name = n := by
  unfold getFolder at h
  split at h
  · rename_i g' hg
    simp only [Option.some.injEq] at h; subst h
    exact ⟨List.mem_of_find?_eq_some hg, by simpa using List.find?_some hg⟩
  · simp at h

theorem getFolder_none {s : State} {n : Name} (h : getFolder s n = none) : ∀ a ∈ s.folders, a.name ≠ n := by
  unfold getFolder at h
  split at h
  · simp at h
  · rename_i hg
    intro a ha
    simpa using List.find?_eq_none.mp hg a ha

theorem getFolder_incl {s : State} {n : Name} {g : Folder} (h : getFolder s n true = some g) :
    g.name = n ∧ (g ∈ s.folders ∨ (g ∈ s.deletedFolders ∧ ∀ a ∈ s.folders, a.name ≠ n)) := by
  unfold getFolder at h
  split at h
  · rename_i g' hg
    simp only [Option.some.injEq] at h; subst h
    exact ⟨by simpa using List.find?_some hg, Or.inl (List.mem_of_find?_eq_some hg)⟩
  · rename_i hg
    have h' : s.deletedFolders.find? (fun g => g.name == n) = some g := by simpa using h
    refine ⟨by simpa using List.find?_some h', Or.inr ⟨List.mem_of_find?_eq_some h', ?_⟩⟩
    intro a ha
    simpa using List.find?_eq_none.mp hg a ha

/-- With a live folder of that name, `include_deleted=True` finds the same (live) folder. -/
theorem getFolder_incl_of_live {s : State} {n : Name} {g : Folder} (h : getFolder s n = some g) :
    getFolder s n true = some g := by
  unfold getFolder at h ⊢
  cases hf : s.folders.find? (fun g => g.name == n) with
  | some g' => rw [hf] at h; exact h
  | none => rw [hf] at h; simp at h

theorem getFolder_none_of {s : State} {n : Name} (h : ∀ a ∈ s.folders, a.name ≠ n) : getFolder s n = none := by
  unfold getFolder
  have : s.folders.find? (fun g => g.name == n) = none := by
    apply List.find?_eq_none.mpr
    intro a ha; simpa using h a ha
  simp [this]

/-- A member of either dictionary with the uuid of a live folder is that folder. -/
theorem folder_eq_of_id {s : State} (h : Inv s) {g g0 : Folder} (hg : g ∈ s.folders)
    (h0 : g0 ∈ s.folders ∨ g0 ∈ s.deletedFolders) (hid : g0.id = g.id) : g0 = g := by
  rcases h0 with h0 | h0
  · exact eq_of_key_eq Folder.id h.liveIds h0 hg hid
  · exact absurd hid.symm (h.disjoint g hg g0 h0)

/-! ### mapping the folder objects in place -/

/-- Any in-place mutation of folder objects that keeps their identity, name, set membership flag, folder invariant
and uuid bound keeps `Inv`. -/
theorem inv_of_maps {s s' : State} (h : Inv s) (t1 t2 : Folder → Folder)
    (hf : s'.folders = s.folders.map t1) (hd : s'.deletedFolders = s.deletedFolders.map t2)
    (hr : s'.folderRoutes = s.folderRoutes) (hn : s.next ≤ s'.next)
    (h1 : ∀ g ∈ s.folders, (t1 g).id = g.id ∧ (t1 g).name = g.name ∧ (t1 g).deleted = false ∧
      FolderInv (t1 g) ∧ FolderBelow s'.next (t1 g))
    (h2 : ∀ g ∈ s.deletedFolders, (t2 g).id = g.id ∧ (t2 g).deleted = true ∧
      FolderInv (t2 g) ∧ FolderBelow s'.next (t2 g)) : Inv s' := by
  have ids1 : s'.folders.map Folder.id = s.folders.map Folder.id := by
    rw [hf, List.map_map]; apply List.map_congr_left; intro a ha; exact (h1 a ha).1
  have ids2 : s'.deletedFolders.map Folder.id = s.deletedFolders.map Folder.id := by
    rw [hd, List.map_map]; apply List.map_congr_left; intro a ha; exact (h2 a ha).1
  constructor
  · intro g hg
    rcases hg with hg | hg
    · rw [hf] at hg
      obtain ⟨g0, hg0, rfl⟩ := List.mem_map.mp hg
      have := h1 g0 hg0
      exact ⟨this.2.2.2.1, this.2.2.2.2, by rw [this.1]; exact Nat.lt_of_lt_of_le (h.folder g0 (Or.inl hg0)).2.2 hn⟩
    · rw [hd] at hg
      obtain ⟨g0, hg0, rfl⟩ := List.mem_map.mp hg
      have := h2 g0 hg0
      exact ⟨this.2.2.1, this.2.2.2, by rw [this.1]; exact Nat.lt_of_lt_of_le (h.folder g0 (Or.inr hg0)).2.2 hn⟩
  · rw [ids1]; exact h.liveIds
  · rw [ids2]; exact h.delIds
  · intro a ha b hb
    rw [hf] at ha; rw [hd] at hb
    obtain ⟨a0, ha0, rfl⟩ := List.mem_map.mp ha
    obtain ⟨b0, hb0, rfl⟩ := List.mem_map.mp hb
    rw [(h1 a0 ha0).1, (h2 b0 hb0).1]
    exact h.disjoint a0 ha0 b0 hb0
  · intro a ha
    rw [hf] at ha
    obtain ⟨a0, ha0, rfl⟩ := List.mem_map.mp ha
    exact (h1 a0 ha0).2.2.1
  · intro b hb
    rw [hd] at hb
    obtain ⟨b0, hb0, rfl⟩ := List.mem_map.mp hb
    exact (h2 b0 hb0).2.1
  · intro a ha b hb hn'
    rw [hf] at ha hb
    obtain ⟨a0, ha0, rfl⟩ := List.mem_map.mp ha
    obtain ⟨b0, hb0, rfl⟩ := List.mem_map.mp hb
    rw [(h1 a0 ha0).1, (h1 b0 hb0).1]
    rw [(h1 a0 ha0).2.1, (h1 b0 hb0).2.1] at hn'
    exact h.uniqueNames a0 ha0 b0 hb0 hn'
  · intro a ha
    rw [hf] at ha
    obtain ⟨a0, ha0, rfl⟩ := List.mem_map.mp ha
    rw [hr, (h1 a0 ha0).1, (h1 a0 ha0).2.1]
    exact h.routes a0 ha0
  · obtain ⟨g, hg, hgn⟩ := h.root
    exact ⟨t1 g, by rw [hf]; exact List.mem_map.mpr ⟨g, hg, rfl⟩, by rw [(h1 g hg).2.1]; exact hgn⟩

/-- Mutating the one folder object with uuid `i` (wherever it sits). -/
theorem inv_updFolder {s s' : State} (h : Inv s) (i : Nat) (t : Folder → Folder)
    (hf : s'.folders = (updFolder s i t).folders) (hd : s'.deletedFolders = (updFolder s i t).deletedFolders)
    (hr : s'.folderRoutes = s.folderRoutes) (hn : s.next ≤ s'.next)
    (ht : ∀ g, g ∈ s.folders ∨ g ∈ s.deletedFolders → g.id = i →
      (t g).id = g.id ∧ (t g).name = g.name ∧ (t g).deleted = g.deleted ∧ FolderInv (t g) ∧ FolderBelow s'.next (t g)) :
    Inv s' := by
  apply inv_of_maps h (fun g => if g.id == i then t g else g) (fun g => if g.id == i then t g else g) hf hd hr hn
  · intro g hg
    by_cases hi : g.id = i
    · have := ht g (Or.inl hg) hi
      simp only [hi, beq_self_eq_true, if_true]
      rw [← hi]
      exact ⟨this.1, this.2.1, by rw [this.2.2.1]; exact h.liveFlag g hg, this.2.2.2.1, this.2.2.2.2⟩
    · have hb : (g.id == i) = false := by simpa using hi
      simp only [hb]
      exact ⟨rfl, rfl, h.liveFlag g hg, (h.folder g (Or.inl hg)).1, (h.folder g (Or.inl hg)).2.1.mono hn⟩
  · intro g hg
    by_cases hi : g.id = i
    · have := ht g (Or.inr hg) hi
      simp only [hi, beq_self_eq_true, if_true]
      rw [← hi]
      exact ⟨this.1, by rw [this.2.2.1]; exact h.delFlag g hg, this.2.2.2.1, this.2.2.2.2⟩
    · have hb : (g.id == i) = false := by simpa using hi
      simp only [hb]
      exact ⟨rfl, h.delFlag g hg, (h.folder g (Or.inr hg)).1, (h.folder g (Or.inr hg)).2.1.mono hn⟩

/-- Changing only the counters keeps `Inv`. -/
theorem inv_congr {s s' : State} (h : Inv s) (hf : s'.folders = s.folders) (hd : s'.deletedFolders = s.deletedFolders)
    (hr : s'.folderRoutes = s.folderRoutes) (hn : s'.next = s.next) : Inv s' := by
  apply inv_of_maps h id id (by simp [hf]) (by simp [hd]) hr (by omega)
  · intro g hg
    exact ⟨rfl, rfl, h.liveFlag g hg, (h.folder g (Or.inl hg)).1, by rw [hn]; exact (h.folder g (Or.inl hg)).2.1⟩
  · intro g hg
    exact ⟨rfl, h.delFlag g hg, (h.folder g (Or.inr hg)).1, by rw [hn]; exact (h.folder g (Or.inr hg)).2.1⟩

/-! ### create_folder -/

/-- `setDur` of `create_folder` as a function. -/
def setDur (s : State) (g : Folder) : Folder :=
  match s.defaultRestore with
  | some d => { g with restoreDuration := d }
  | none => g

theorem setDur_fields (s : State) (g : Folder) :
    (setDur s g).id = g.id ∧ (setDur s g).name = g.name ∧ (setDur s g).deleted = g.deleted ∧
    (setDur s g).files = g.files ∧ (setDur s g).deletedFiles = g.deletedFiles ∧ (setDur s g).fileRoutes = g.fileRoutes ∧
    (setDur s g).restoreCountdown = g.restoreCountdown := by
  unfold setDur; split <;> simp

theorem createFolder_eq (s : State) (n : Name) :
    createFolder s n =
      match getFolder s n with
      | some g => ({ s with folders := dictSet Folder.id s.folders (setDur s g) }, setDur s g)
      | none =>
        ({ s with folders := dictSet Folder.id s.folders (setDur s { id := s.next, name := n }),
                  folderRoutes := (n, s.next) :: s.folderRoutes, next := s.next + 1 },
         setDur s { id := s.next, name := n }) := by
  unfold createFolder setDur
  cases hg : getFolder s n <;> cases hd : s.defaultRestore <;> simp

/-- `create_folder`: `Inv` is kept, and the returned folder is the live folder of that name afterwards. -/
theorem createFolder_spec {s : State} (h : Inv s) (n : Name) :
    Inv (createFolder s n).1 ∧ (createFolder s n).2 ∈ (createFolder s n).1.folders ∧ (createFolder s n).2.name = n ∧
    s.next ≤ (createFolder s n).1.next := by
  rw [createFolder_eq]
  cases hg : getFolder s n with
  | some g =>
    simp only
    obtain ⟨hgm, hgn⟩ := getFolder_live hg
    obtain ⟨f1, f2, f3, f4, f5, f6, _⟩ := setDur_fields s g
    refine ⟨?_, (mem_dictSet Folder.id).mpr (Or.inl rfl), by rw [f2]; exact hgn, Nat.le_refl _⟩
    have hfold : dictSet Folder.id s.folders (setDur s g) =
        s.folders.map (fun y => if y.id == g.id then setDur s y else y) := by
      unfold dictSet
      have : s.folders.any (fun y => y.id == (setDur s g).id) = true := by
        simp only [List.any_eq_true, beq_iff_eq]; exact ⟨g, hgm, f1.symm⟩
      rw [if_pos this]
      apply List.map_congr_left
      intro a ha
      rw [f1]
      by_cases hk : a.id = g.id
      · simp [eq_of_key_eq Folder.id h.liveIds ha hgm hk]
      · simp [hk]
    refine inv_of_maps (s' := { s with folders := dictSet Folder.id s.folders (setDur s g) }) h
      (fun y => if y.id == g.id then setDur s y else y) id hfold (by simp) rfl (Nat.le_refl _) ?_ ?_
    · intro a ha
      have ai := h.folder a (Or.inl ha)
      by_cases hk : a.id = g.id
      · simp only [hk, beq_self_eq_true, if_true]
        obtain ⟨a1, a2, a3, a4, a5, a6, _⟩ := setDur_fields s a
        exact ⟨by rw [a1, hk], a2, by rw [a3]; exact h.liveFlag a ha, ai.1.congr a4 a5 a6, ai.2.1.congr a4 a5⟩
      · have hb : (a.id == g.id) = false := by simpa using hk
        simp only [hb]
        exact ⟨rfl, rfl, h.liveFlag a ha, ai.1, ai.2.1⟩
    · intro a ha
      have ai := h.folder a (Or.inr ha)
      exact ⟨rfl, h.delFlag a ha, ai.1, ai.2.1⟩
  | none =>
    simp only
    have hno := getFolder_none hg
    obtain ⟨f1, f2, f3, f4, f5, f6, _⟩ := setDur_fields s { id := s.next, name := n }
    refine ⟨?_, (mem_dictSet Folder.id).mpr (Or.inl rfl), f2, Nat.le_succ _⟩
    have hfresh : ∀ a, a ∈ s.folders ∨ a ∈ s.deletedFolders → a.id ≠ s.next :=
      fun a ha => Nat.ne_of_lt (h.folder a ha).2.2
    have hnewInv : FolderInv (setDur s { id := s.next, name := n }) := by
      constructor <;> simp [f4, f5]
    have hnewBelow : FolderBelow (s.next + 1) (setDur s { id := s.next, name := n }) := by
      intro a ha; rw [f4, f5] at ha; simp at ha
    constructor
    · intro a ha
      simp only at ha
      rcases ha with ha | ha
      · rcases (mem_dictSet Folder.id).mp ha with rfl | ⟨ha, _⟩
        · exact ⟨hnewInv, hnewBelow, by rw [f1]; exact Nat.lt_succ_self _⟩
        · have ai := h.folder a (Or.inl ha)
          exact ⟨ai.1, ai.2.1.mono (Nat.le_succ _), Nat.lt_succ_of_lt ai.2.2⟩
      · have ai := h.folder a (Or.inr ha)
        exact ⟨ai.1, ai.2.1.mono (Nat.le_succ _), Nat.lt_succ_of_lt ai.2.2⟩
    · exact nodup_dictSet _ h.liveIds
    · exact h.delIds
    · intro a ha b hb
      simp only at ha hb
      rcases (mem_dictSet Folder.id).mp ha with rfl | ⟨ha, _⟩
      · rw [f1]; exact fun e => hfresh b (Or.inr hb) e.symm
      · exact h.disjoint a ha b hb
    · intro a ha
      simp only at ha
      rcases (mem_dictSet Folder.id).mp ha with rfl | ⟨ha, _⟩
      · rw [f3]
      · exact h.liveFlag a ha
    · exact h.delFlag
    · intro a ha b hb hn
      simp only at ha hb
      rcases (mem_dictSet Folder.id).mp ha with ea | ⟨ha', _⟩ <;>
        rcases (mem_dictSet Folder.id).mp hb with eb | ⟨hb', _⟩
      · rw [ea, eb]
      · rw [ea, f2] at hn; exact absurd hn.symm (hno b hb')
      · rw [eb, f2] at hn; exact absurd hn (hno a ha')
      · exact h.uniqueNames a ha' b hb' hn
    · intro a ha
      simp only at ha ⊢
      rw [lookupRoute_cons]
      rcases (mem_dictSet Folder.id).mp ha with rfl | ⟨ha, _⟩
      · rw [f2, f1]; simp
      · rw [if_neg (fun e => hno a ha e.symm)]
        exact h.routes a ha
    · obtain ⟨r, hr, hrn⟩ := h.root
      refine ⟨r, ?_, hrn⟩
      simp only
      exact (mem_dictSet Folder.id).mpr (Or.inr ⟨hr, by rw [f1]; exact hfresh r (Or.inl hr)⟩)

end Primaite.FileSystem
