/-
Helper development for C13 section 7 (the registries agree): the representation invariant `Rep`, dictionary lemmas,
and its preservation by every operation.  The property theorems that use it are in `Props/C13.lean`.
-/
import PrimaiteModel.Model.Registries
namespace Primaite.C13
open Primaite.Lifecycle Primaite.Registries

/-! ## 7. the registries agree -/

/-- one installed software: its name, the uid of its object, service or application -/
structure Entry where
  name : String
  uid : Nat
  isApp : Bool
deriving DecidableEq, Repr

def Entry.kv (e : Entry) : String × Nat := (e.name, e.uid)

/-- **Agreement of the registries**: there is one list of installed software `es` (distinct names, distinct objects)
of which `software`, `node.services`, `node.applications`, the service routes and the application routes are
the order-preserving projections; every port-map entry belongs to an installed object; every object named
exists in the heap with that name and the right kind. -/
structure Rep (n : Node) (es : List Entry) : Prop where
  software : n.software = es.map Entry.kv
  services : n.services = (es.filter (fun e => !e.isApp)).map (·.uid)
  applications : n.applications = (es.filter (·.isApp)).map (·.uid)
  svcRoutes : n.svcRoutes = (es.filter (fun e => !e.isApp)).map Entry.kv
  appRoutes : n.appRoutes = (es.filter (·.isApp)).map Entry.kv
  namesNodup : (es.map (·.name)).Nodup
  uidsNodup : (es.map (·.uid)).Nodup
  uidsLt : ∀ e ∈ es, e.uid < n.next
  heapSvcLt : ∀ i ∈ n.svcs, i.m.uid < n.next
  heapAppLt : ∀ i ∈ n.apps, i.m.uid < n.next
  svcEntry : ∀ e ∈ es, e.isApp = false → ∃ i, n.findSvc e.uid = some i ∧ i.m.cls.name = e.name
  appEntry : ∀ e ∈ es, e.isApp = true → n.findSvc e.uid = none ∧ ∃ i, n.findApp e.uid = some i ∧ i.m.cls.name = e.name
  portOwners : ∀ x ∈ n.portMap, ∃ e ∈ es, e.uid = x.2
  portUidsNodup : (n.portMap.map (·.2)).Nodup

/-- what agreement means for an observer: the same names everywhere, and `describe_state` lists exactly those -/
theorem C13_rep_names (n : Node) (es : List Entry) (h : Rep n es) :
    n.software.map (·.1) = es.map (·.name) ∧
    n.svcRoutes.map (·.1) ++ n.appRoutes.map (·.1) =
      (n.services ++ n.applications).filterMap n.nameOf ∧
    (∀ name, name ∈ n.software.map (·.1) ↔ name ∈ (n.services ++ n.applications).filterMap n.nameOf) ∧
    (∀ x ∈ n.portMap, ∃ name, n.nameOf x.2 = some name ∧ (name, x.2) ∈ n.software) := by
  have hname : ∀ e ∈ es, n.nameOf e.uid = some e.name := by
    intro e he
    unfold Node.nameOf Node.metaOf
    cases hk : e.isApp
    · obtain ⟨i, hi, hn⟩ := h.svcEntry e he hk
      simp [hi, hn]
    · obtain ⟨hnone, i, hi, hn⟩ := h.appEntry e he hk
      simp [hnone, hi, hn]
  have hfm : ∀ (l : List Entry), (∀ e ∈ l, e ∈ es) → (l.map (·.uid)).filterMap n.nameOf = l.map (·.name) := by
    intro l hl
    induction l with
    | nil => rfl
    | cons a t ih =>
      simp only [List.map_cons, List.filterMap_cons, hname a (hl a (by simp))]
      rw [ih (fun e he => hl e (by simp [he]))]
  have hsub1 : ∀ e ∈ es.filter (fun e => !e.isApp), e ∈ es := fun e he => (List.mem_filter.mp he).1
  have hsub2 : ∀ e ∈ es.filter (·.isApp), e ∈ es := fun e he => (List.mem_filter.mp he).1
  have hroutes : n.svcRoutes.map (·.1) ++ n.appRoutes.map (·.1) = (n.services ++ n.applications).filterMap n.nameOf := by
    rw [h.svcRoutes, h.appRoutes, h.services, h.applications, List.filterMap_append, hfm _ hsub1, hfm _ hsub2]
    simp [Entry.kv, List.map_map, Function.comp_def]
  refine ⟨by rw [h.software]; simp [Entry.kv, List.map_map, Function.comp_def], hroutes, ?_, ?_⟩
  · intro name
    rw [← hroutes, h.software, h.svcRoutes, h.appRoutes]
    simp only [Entry.kv, List.map_map, Function.comp_def, List.mem_map, List.mem_append, List.mem_filter]
    constructor
    · rintro ⟨e, he, rfl⟩
      cases hk : e.isApp
      · exact Or.inl ⟨e, ⟨he, by simp [hk]⟩, rfl⟩
      · exact Or.inr ⟨e, ⟨he, hk⟩, rfl⟩
    · rintro (⟨e, ⟨he, _⟩, rfl⟩ | ⟨e, ⟨he, _⟩, rfl⟩) <;> exact ⟨e, he, rfl⟩
  · intro x hx
    obtain ⟨e, he, hu⟩ := h.portOwners x hx
    refine ⟨e.name, hu ▸ hname e he, ?_⟩
    rw [h.software, ← hu]
    exact List.mem_map.mpr ⟨e, he, rfl⟩

/-- the empty node agrees -/
theorem C13_rep_init (p : Power) (up down : Int) : Rep { power := p, upDur := up, downDur := down } [] := by
  constructor <;> simp [Node.findSvc, Node.findApp]



/-! ### dictionary lemmas -/

theorem dget_kv_none (l : List Entry) (name : String) (h : name ∉ l.map (·.name)) : dget name (l.map Entry.kv) = none := by
  induction l with
  | nil => rfl
  | cons a t ih =>
    simp only [List.map_cons, List.mem_cons, not_or] at h
    simp only [List.map_cons, Entry.kv, dget]
    rw [if_neg (fun hh => h.1 hh.symm)]
    exact ih h.2

theorem dget_kv_some (l : List Entry) (name : String) (u : Nat) (h : dget name (l.map Entry.kv) = some u) :
    ∃ e ∈ l, e.name = name ∧ e.uid = u := by
  induction l with
  | nil => simp [dget] at h
  | cons a t ih =>
    simp only [List.map_cons, Entry.kv, dget] at h
    by_cases ha : a.name = name
    · rw [if_pos ha] at h
      exact ⟨a, by simp, ha, by simpa using h⟩
    · rw [if_neg ha] at h
      obtain ⟨e, he, h1, h2⟩ := ih h
      exact ⟨e, by simp [he], h1, h2⟩

theorem dget_kv_mem (l : List Entry) (e : Entry) (he : e ∈ l) (hn : (l.map (·.name)).Nodup) :
    dget e.name (l.map Entry.kv) = some e.uid := by
  induction l with
  | nil => simp at he
  | cons a t ih =>
    simp only [List.map_cons, List.nodup_cons] at hn
    simp only [List.map_cons, Entry.kv, dget]
    rcases List.mem_cons.mp he with rfl | het
    · simp
    · have : a.name ≠ e.name := fun hh => hn.1 (hh ▸ List.mem_map.mpr ⟨e, het, rfl⟩)
      rw [if_neg this]
      exact ih het hn.2

theorem dset_fresh {κ ν} [DecidableEq κ] (l : List (κ × ν)) (k : κ) (v : ν) (h : dget k l = none) : dset k v l = l ++ [(k, v)] := by
  induction l with
  | nil => rfl
  | cons a t ih =>
    rcases a with ⟨k', v'⟩
    simp only [dget] at h
    by_cases hk : k' = k
    · rw [if_pos hk] at h; cases h
    · rw [if_neg hk] at h
      simp only [dset, if_neg hk, List.cons_append, ih h]

theorem mem_dset {κ ν} [DecidableEq κ] (l : List (κ × ν)) (k : κ) (v : ν) (x : κ × ν) (h : x ∈ dset k v l) : x ∈ l ∨ x = (k, v) := by
  induction l with
  | nil => simp [dset] at h; exact Or.inr h
  | cons a t ih =>
    rcases a with ⟨k', v'⟩
    simp only [dset] at h
    by_cases hk : k' = k
    · rw [if_pos hk] at h
      rcases List.mem_cons.mp h with rfl | h
      · exact Or.inr rfl
      · exact Or.inl (by simp [h])
    · rw [if_neg hk] at h
      rcases List.mem_cons.mp h with rfl | h
      · exact Or.inl (by simp)
      · rcases ih h with h | h
        · exact Or.inl (by simp [h])
        · exact Or.inr h

theorem dset_snd_nodup {κ} [DecidableEq κ] (l : List (κ × Nat)) (k : κ) (v : Nat) (hn : (l.map (·.2)).Nodup)
    (hv : v ∉ l.map (·.2)) : ((dset k v l).map (·.2)).Nodup := by
  induction l with
  | nil => simp [dset]
  | cons a t ih =>
    rcases a with ⟨k', v'⟩
    simp only [List.map_cons, List.nodup_cons, List.mem_cons, not_or] at hn hv
    simp only [dset]
    by_cases hk : k' = k
    · rw [if_pos hk]
      simp only [List.map_cons, List.nodup_cons]
      exact ⟨hv.2, hn.2⟩
    · rw [if_neg hk]
      simp only [List.map_cons, List.nodup_cons]
      refine ⟨?_, ih hn.2 hv.2⟩
      intro hm
      obtain ⟨x, hx, hx2⟩ := List.mem_map.mp hm
      rcases mem_dset t k v x hx with h | h
      · exact hn.1 (hx2 ▸ List.mem_map.mpr ⟨x, h, rfl⟩)
      · subst h; exact hv.1 hx2

/-- with distinct names, popping a name is filtering it out -/
theorem ddel_kv (l : List Entry) (name : String) (hn : (l.map (·.name)).Nodup) :
    ddel name (l.map Entry.kv) = (l.filter (fun e => e.name != name)).map Entry.kv := by
  induction l with
  | nil => rfl
  | cons a t ih =>
    simp only [List.map_cons, List.nodup_cons] at hn
    simp only [List.map_cons, Entry.kv, ddel]
    by_cases ha : a.name = name
    · rw [if_pos ha]
      have hall : t.filter (fun e => e.name != name) = t := by
        apply List.filter_eq_self.mpr
        intro e he
        have : e.name ≠ name := fun hh => hn.1 (ha ▸ hh ▸ List.mem_map.mpr ⟨e, he, rfl⟩)
        simpa using this
      rw [List.filter_cons]
      simp only [ha, bne_self_eq_false, Bool.false_eq_true, if_false, hall]
    · rw [if_neg ha]
      have := ih hn.2
      have hne : (a.name != name) = true := by simpa using ha
      rw [List.filter_cons, if_pos hne, List.map_cons, ← this]
      rfl

theorem mem_delFirst {α} (p : α → Bool) (l : List α) (x : α) (h : x ∈ delFirst p l) : x ∈ l := by
  induction l with
  | nil => simp [delFirst] at h
  | cons a t ih =>
    simp only [delFirst] at h
    by_cases hp : p a = true
    · rw [if_pos hp] at h; simp [h]
    · rw [if_neg hp] at h
      rcases List.mem_cons.mp h with rfl | h
      · simp
      · simp [ih h]

/-- if the predicate singles out the entries of object `u` and objects are distinct, the removed entry was the only one -/
theorem delFirst_removes (p : (Nat × Nat) × Nat → Bool) (l : List ((Nat × Nat) × Nat)) (u : Nat)
    (hp : ∀ x ∈ l, p x = true ↔ x.2 = u) (hn : (l.map (·.2)).Nodup) :
    (∀ x ∈ delFirst p l, x.2 ≠ u) ∧ ((delFirst p l).map (·.2)).Nodup := by
  induction l with
  | nil => simp [delFirst]
  | cons a t ih =>
    simp only [List.map_cons, List.nodup_cons] at hn
    simp only [delFirst]
    by_cases hpa : p a = true
    · rw [if_pos hpa]
      have hau : a.2 = u := (hp a (by simp)).mp hpa
      refine ⟨?_, hn.2⟩
      intro x hx hxu
      exact hn.1 (hau ▸ hxu ▸ List.mem_map.mpr ⟨x, hx, rfl⟩)
    · rw [if_neg hpa]
      obtain ⟨h1, h2⟩ := ih (fun x hx => hp x (by simp [hx])) hn.2
      constructor
      · intro x hx
        rcases List.mem_cons.mp hx with rfl | hx
        · exact fun hh => hpa ((hp x (by simp)).mpr hh)
        · exact h1 x hx
      · simp only [List.map_cons, List.nodup_cons]
        refine ⟨?_, h2⟩
        intro hm
        obtain ⟨x, hx, hx2⟩ := List.mem_map.mp hm
        exact hn.1 (hx2 ▸ List.mem_map.mpr ⟨x, mem_delFirst p t x hx, rfl⟩)


/-! ### install -/

theorem find_none_of_lt_svc (l : List SvcInst) (k : Nat) (h : ∀ i ∈ l, i.m.uid < k) : l.find? (fun i => i.m.uid == k) = none := by
  rw [List.find?_eq_none]
  intro i hi
  have := h i hi
  simp; omega

theorem find_none_of_lt_app (l : List AppInst) (k : Nat) (h : ∀ i ∈ l, i.m.uid < k) : l.find? (fun i => i.m.uid == k) = none := by
  rw [List.find?_eq_none]
  intro i hi
  have := h i hi
  simp; omega

theorem name_fresh (n : Node) (es : List Entry) (h : Rep n es) (name : String) (hf : dhas name n.software = false) :
    name ∉ es.map (·.name) := by
  intro hm
  obtain ⟨e, he, rfl⟩ := List.mem_map.mp hm
  have := dget_kv_mem es e he h.namesNodup
  rw [← h.software] at this
  simp [dhas, this] at hf

theorem name_fresh_filter (es : List Entry) (p : Entry → Bool) (name : String) (h : name ∉ es.map (·.name)) :
    name ∉ (es.filter p).map (·.name) := by
  intro hm
  obtain ⟨e, he, rfl⟩ := List.mem_map.mp hm
  exact h (List.mem_map.mpr ⟨e, (List.mem_filter.mp he).1, rfl⟩)

theorem port_uid_fresh (n : Node) (es : List Entry) (h : Rep n es) : n.next ∉ n.portMap.map (·.2) := by
  intro hm
  obtain ⟨x, hx, hx2⟩ := List.mem_map.mp hm
  obtain ⟨e, he, hu⟩ := h.portOwners x hx
  have := h.uidsLt e he
  omega

/-- registering a new service object whose name is not installed keeps the registries in agreement -/
theorem rep_registerSvc (n : Node) (es : List Entry) (h : Rep n es) (c : Cls) (l : List Nat) (hl : Health) (f : Int)
    (hf : dhas c.name n.software = false) :
    Rep (n.registerSvc c l hl f) (es ++ [⟨c.name, n.next, false⟩]) := by
  have hfresh := name_fresh n es h c.name hf
  have hu : n.next ∉ es.map (·.uid) := by
    intro hm
    obtain ⟨e, he, hx⟩ := List.mem_map.mp hm
    have := h.uidsLt e he; omega
  constructor
  · show dset c.name n.next n.software = _
    rw [h.software, dset_fresh _ _ _ (dget_kv_none es c.name hfresh)]
    simp [Entry.kv]
  · show n.services ++ [n.next] = _
    rw [h.services]; simp [List.filter_append]
  · show n.applications = _
    rw [h.applications]; simp [List.filter_append]
  · show dset c.name n.next n.svcRoutes = _
    rw [h.svcRoutes, dset_fresh _ _ _ (dget_kv_none _ c.name (name_fresh_filter es _ c.name hfresh))]
    simp [List.filter_append, Entry.kv]
  · show n.appRoutes = _
    rw [h.appRoutes]; simp [List.filter_append]
  · rw [List.map_append, List.nodup_append]
    refine ⟨h.namesNodup, by simp, ?_⟩
    intro a ha b hb
    simp only [List.map_cons, List.map_nil, List.mem_singleton] at hb
    subst hb
    exact fun hab => hfresh (hab ▸ ha)
  · rw [List.map_append, List.nodup_append]
    refine ⟨h.uidsNodup, by simp, ?_⟩
    intro a ha b hb
    simp only [List.map_cons, List.map_nil, List.mem_singleton] at hb
    subst hb
    exact fun hab => hu (hab ▸ ha)
  · intro e he
    show e.uid < n.next + 1
    rcases List.mem_append.mp he with he | he
    · have := h.uidsLt e he; omega
    · simp only [List.mem_singleton] at he; subst he; simp
  · intro i hi
    show i.m.uid < n.next + 1
    simp only [Node.registerSvc, List.mem_append, List.mem_singleton] at hi
    rcases hi with hi | rfl
    · have := h.heapSvcLt i hi; omega
    · simp
  · intro i hi
    show i.m.uid < n.next + 1
    have := h.heapAppLt i hi; omega
  · intro e he hk
    show ∃ i, (n.svcs ++ _).find? _ = some i ∧ _
    rcases List.mem_append.mp he with he | he
    · obtain ⟨i, hi, hn⟩ := h.svcEntry e he hk
      refine ⟨i, ?_, hn⟩
      rw [List.find?_append]
      have : n.svcs.find? (fun i => i.m.uid == e.uid) = some i := hi
      rw [this]; rfl
    · simp only [List.mem_singleton] at he; subst he
      rw [List.find?_append, find_none_of_lt_svc n.svcs n.next h.heapSvcLt]
      simp
  · intro e he hk
    rcases List.mem_append.mp he with he | he
    · obtain ⟨hnone, i, hi, hn⟩ := h.appEntry e he hk
      refine ⟨?_, i, hi, hn⟩
      show (n.svcs ++ _).find? _ = none
      rw [List.find?_append]
      have : n.svcs.find? (fun i => i.m.uid == e.uid) = none := hnone
      rw [this]
      have := h.uidsLt e he
      simp; omega
    · simp only [List.mem_singleton] at he; subst he; cases hk
  · intro x hx
    rcases mem_dset _ _ _ x hx with hx | rfl
    · obtain ⟨e, he, hu⟩ := h.portOwners x hx
      exact ⟨e, by simp [he], hu⟩
    · exact ⟨⟨c.name, n.next, false⟩, by simp, rfl⟩
  · exact dset_snd_nodup _ _ _ h.portUidsNodup (port_uid_fresh n es h)


/-- registering a new application object whose name is not installed keeps the registries in agreement -/
theorem rep_registerApp (n : Node) (es : List Entry) (h : Rep n es) (c : Cls) (l : List Nat) (hl : Health) (f : Int)
    (hf : dhas c.name n.software = false) :
    Rep (n.registerApp c l hl f) (es ++ [⟨c.name, n.next, true⟩]) := by
  have hfresh := name_fresh n es h c.name hf
  have hu : n.next ∉ es.map (·.uid) := by
    intro hm
    obtain ⟨e, he, hx⟩ := List.mem_map.mp hm
    have := h.uidsLt e he; omega
  constructor
  · show dset c.name n.next n.software = _
    rw [h.software, dset_fresh _ _ _ (dget_kv_none es c.name hfresh)]
    simp [Entry.kv]
  · show n.services = _
    rw [h.services]; simp [List.filter_append]
  · show n.applications ++ [n.next] = _
    rw [h.applications]; simp [List.filter_append]
  · show n.svcRoutes = _
    rw [h.svcRoutes]; simp [List.filter_append]
  · show dset c.name n.next n.appRoutes = _
    rw [h.appRoutes, dset_fresh _ _ _ (dget_kv_none _ c.name (name_fresh_filter es _ c.name hfresh))]
    simp [List.filter_append, Entry.kv]
  · rw [List.map_append, List.nodup_append]
    refine ⟨h.namesNodup, by simp, ?_⟩
    intro a ha b hb
    simp only [List.map_cons, List.map_nil, List.mem_singleton] at hb
    subst hb
    exact fun hab => hfresh (hab ▸ ha)
  · rw [List.map_append, List.nodup_append]
    refine ⟨h.uidsNodup, by simp, ?_⟩
    intro a ha b hb
    simp only [List.map_cons, List.map_nil, List.mem_singleton] at hb
    subst hb
    exact fun hab => hu (hab ▸ ha)
  · intro e he
    show e.uid < n.next + 1
    rcases List.mem_append.mp he with he | he
    · have := h.uidsLt e he; omega
    · simp only [List.mem_singleton] at he; subst he; simp
  · intro i hi
    show i.m.uid < n.next + 1
    have := h.heapSvcLt i hi; omega
  · intro i hi
    show i.m.uid < n.next + 1
    simp only [Node.registerApp, List.mem_append, List.mem_singleton] at hi
    rcases hi with hi | rfl
    · have := h.heapAppLt i hi; omega
    · simp
  · intro e he hk
    rcases List.mem_append.mp he with he | he
    · exact h.svcEntry e he hk
    · simp only [List.mem_singleton] at he; subst he; cases hk
  · intro e he hk
    rcases List.mem_append.mp he with he | he
    · obtain ⟨hnone, i, hi, hn⟩ := h.appEntry e he hk
      refine ⟨hnone, i, ?_, hn⟩
      show (n.apps ++ _).find? _ = some i
      rw [List.find?_append]
      have : n.apps.find? (fun i => i.m.uid == e.uid) = some i := hi
      rw [this]; rfl
    · simp only [List.mem_singleton] at he; subst he
      refine ⟨find_none_of_lt_svc n.svcs n.next h.heapSvcLt, ?_⟩
      show ∃ i, (n.apps ++ _).find? _ = some i ∧ _
      rw [List.find?_append, find_none_of_lt_app n.apps n.next h.heapAppLt]
      simp
  · intro x hx
    rcases mem_dset _ _ _ x hx with hx | rfl
    · obtain ⟨e, he, hu⟩ := h.portOwners x hx
      exact ⟨e, by simp [he], hu⟩
    · exact ⟨⟨c.name, n.next, true⟩, by simp, rfl⟩
  · exact dset_snd_nodup _ _ _ h.portUidsNodup (port_uid_fresh n es h)

/-! ### operations that only touch the objects' lifecycle state -/

theorem find_map_meta_svc (l : List SvcInst) (g : SvcInst → Svc) (u : Nat) :
    (l.map (fun i => { i with s := g i })).find? (fun i => i.m.uid == u) =
      (l.find? (fun i => i.m.uid == u)).map (fun i => { i with s := g i }) := by
  induction l with
  | nil => rfl
  | cons a t ih =>
    simp only [List.map_cons, List.find?_cons]
    by_cases ha : (a.m.uid == u) = true
    · simp [ha]
    · simp only [ha]; exact ih

theorem find_map_meta_app (l : List AppInst) (g : AppInst → App) (u : Nat) :
    (l.map (fun i => { i with a := g i })).find? (fun i => i.m.uid == u) =
      (l.find? (fun i => i.m.uid == u)).map (fun i => { i with a := g i }) := by
  induction l with
  | nil => rfl
  | cons a t ih =>
    simp only [List.map_cons, List.find?_cons]
    by_cases ha : (a.m.uid == u) = true
    · simp [ha]
    · simp only [ha]; exact ih

/-- agreement only looks at the registries and at the objects' identity (`m`): rewriting lifecycle states keeps it -/
theorem rep_of_heap_map (n n' : Node) (es : List Entry) (h : Rep n es) (gs : SvcInst → Svc) (ga : AppInst → App)
    (h1 : n'.svcs = n.svcs.map (fun i => { i with s := gs i })) (h2 : n'.apps = n.apps.map (fun i => { i with a := ga i }))
    (h3 : n'.services = n.services) (h4 : n'.applications = n.applications) (h5 : n'.software = n.software)
    (h6 : n'.portMap = n.portMap) (h7 : n'.svcRoutes = n.svcRoutes) (h8 : n'.appRoutes = n.appRoutes)
    (h9 : n'.next = n.next) : Rep n' es := by
  have fs : ∀ u, n'.findSvc u = (n.findSvc u).map (fun i => { i with s := gs i }) := by
    intro u; show n'.svcs.find? _ = _; rw [h1]; exact find_map_meta_svc _ _ _
  have fa : ∀ u, n'.findApp u = (n.findApp u).map (fun i => { i with a := ga i }) := by
    intro u; show n'.apps.find? _ = _; rw [h2]; exact find_map_meta_app _ _ _
  constructor
  · rw [h5]; exact h.software
  · rw [h3]; exact h.services
  · rw [h4]; exact h.applications
  · rw [h7]; exact h.svcRoutes
  · rw [h8]; exact h.appRoutes
  · exact h.namesNodup
  · exact h.uidsNodup
  · rw [h9]; exact h.uidsLt
  · rw [h9, h1]; intro i hi
    obtain ⟨j, hj, rfl⟩ := List.mem_map.mp hi
    exact h.heapSvcLt j hj
  · rw [h9, h2]; intro i hi
    obtain ⟨j, hj, rfl⟩ := List.mem_map.mp hi
    exact h.heapAppLt j hj
  · intro e he hk
    obtain ⟨i, hi, hn⟩ := h.svcEntry e he hk
    exact ⟨{ i with s := gs i }, by rw [fs, hi]; rfl, hn⟩
  · intro e he hk
    obtain ⟨hnone, i, hi, hn⟩ := h.appEntry e he hk
    exact ⟨by rw [fs, hnone]; rfl, { i with a := ga i }, by rw [fa, hi]; rfl, hn⟩
  · rw [h6]; exact h.portOwners
  · rw [h6]; exact h.portUidsNodup

theorem rep_deliver (n : Node) (es : List Entry) (h : Rep n es) (op : Op) (n' : Node)
    (h1 : n'.svcs = (n.deliverEvs op).svcs) (h2 : n'.apps = (n.deliverEvs op).apps)
    (h3 : n'.services = n.services) (h4 : n'.applications = n.applications) (h5 : n'.software = n.software)
    (h6 : n'.portMap = n.portMap) (h7 : n'.svcRoutes = n.svcRoutes) (h8 : n'.appRoutes = n.appRoutes)
    (h9 : n'.next = n.next) : Rep n' es :=
  rep_of_heap_map n n' es h (fun i => i.s.applyAll (n.svcEvs op i)) (fun i => i.a.applyAll (n.appEvs op i))
    h1 h2 h3 h4 h5 h6 h7 h8 h9

theorem rep_same_heap (n : Node) (es : List Entry) (h : Rep n es) (n' : Node)
    (h1 : n'.svcs = n.svcs) (h2 : n'.apps = n.apps)
    (h3 : n'.services = n.services) (h4 : n'.applications = n.applications) (h5 : n'.software = n.software)
    (h6 : n'.portMap = n.portMap) (h7 : n'.svcRoutes = n.svcRoutes) (h8 : n'.appRoutes = n.appRoutes)
    (h9 : n'.next = n.next) : Rep n' es :=
  rep_of_heap_map n n' es h (fun i => i.s) (fun i => i.a) (by rw [h1]; simp) (by rw [h2]; simp) h3 h4 h5 h6 h7 h8 h9


/-! ### uninstall -/

theorem rep_nameOf (n : Node) (es : List Entry) (h : Rep n es) (e : Entry) (he : e ∈ es) : n.nameOf e.uid = some e.name := by
  unfold Node.nameOf Node.metaOf
  cases hk : e.isApp
  · obtain ⟨i, hi, hn⟩ := h.svcEntry e he hk
    simp [hi, hn]
  · obtain ⟨hnone, i, hi, hn⟩ := h.appEntry e he hk
    simp [hnone, hi, hn]

theorem eq_of_name (es : List Entry) (hn : (es.map (·.name)).Nodup) (a b : Entry) (ha : a ∈ es) (hb : b ∈ es)
    (h : a.name = b.name) : a = b := by
  induction es with
  | nil => simp at ha
  | cons x t ih =>
    simp only [List.map_cons, List.nodup_cons] at hn
    rcases List.mem_cons.mp ha with rfl | ha' <;> rcases List.mem_cons.mp hb with rfl | hb'
    · rfl
    · exact absurd (h ▸ List.mem_map.mpr ⟨b, hb', rfl⟩) hn.1
    · exact absurd (h ▸ List.mem_map.mpr ⟨a, ha', rfl⟩) hn.1
    · exact ih hn.2 ha' hb'

theorem eq_of_uid (es : List Entry) (hn : (es.map (·.uid)).Nodup) (a b : Entry) (ha : a ∈ es) (hb : b ∈ es)
    (h : a.uid = b.uid) : a = b := by
  induction es with
  | nil => simp at ha
  | cons x t ih =>
    simp only [List.map_cons, List.nodup_cons] at hn
    rcases List.mem_cons.mp ha with rfl | ha' <;> rcases List.mem_cons.mp hb with rfl | hb'
    · rfl
    · exact absurd (h ▸ List.mem_map.mpr ⟨b, hb', rfl⟩) hn.1
    · exact absurd (h ▸ List.mem_map.mpr ⟨a, ha', rfl⟩) hn.1
    · exact ih hn.2 ha' hb'

theorem filter_uid_eq_filter_name (l : List Entry) (u : Nat) (name : String)
    (h : ∀ x ∈ l, x.uid = u ↔ x.name = name) :
    (l.map (·.uid)).filter (· != u) = (l.filter (fun e => e.name != name)).map (·.uid) := by
  induction l with
  | nil => rfl
  | cons a t ih =>
    have hh := h a (by simp)
    have iht := ih (fun x hx => h x (by simp [hx]))
    by_cases ha : a.name = name
    · have hau : a.uid = u := hh.mpr ha
      simp [List.filter_cons, ha, hau, iht]
    · have hau : ¬ a.uid = u := fun hx => ha (hh.mp hx)
      simp [List.filter_cons, ha, hau, iht]

theorem filter_noop (l : List Entry) (name : String) (h : ∀ x ∈ l, x.name ≠ name) :
    l.filter (fun e => e.name != name) = l := by
  apply List.filter_eq_self.mpr
  intro x hx; simpa using h x hx

theorem filter_swap (es : List Entry) (p q : Entry → Bool) : (es.filter p).filter q = (es.filter q).filter p := by
  simp only [List.filter_filter]
  congr 1; funext x; exact Bool.and_comm _ _

theorem nodup_filter_map {β} (es : List Entry) (p : Entry → Bool) (f : Entry → β) (h : (es.map f).Nodup) :
    ((es.filter p).map f).Nodup :=
  List.Nodup.sublist ((List.filter_sublist).map f) h

/-- Under agreement, `uninstall` never raises and removes exactly the named software from every registry. -/
theorem rep_uninstall (n : Node) (es : List Entry) (h : Rep n es) (name : String) :
    ∃ n', n.uninstall name = some n' ∧ Rep n' (es.filter (fun e => e.name != name)) := by
  cases hd : dget name n.software with
  | none =>
    refine ⟨n, by simp [Node.uninstall, hd], ?_⟩
    have : ∀ x ∈ es, x.name ≠ name := by
      intro x hx hxn
      have := dget_kv_mem es x hx h.namesNodup
      rw [← h.software, hxn, hd] at this; cases this
    rw [filter_noop es name this]; exact h
  | some u =>
    rw [h.software] at hd
    obtain ⟨e, he, hen, heu⟩ := dget_kv_some es name u hd
    rw [← h.software] at hd
    have key : ∀ x ∈ es, x.uid = u ↔ x.name = name := by
      intro x hx
      constructor
      · intro hxu; rw [eq_of_uid es h.uidsNodup x e hx he (hxu.trans heu.symm)]; exact hen
      · intro hxn; rw [eq_of_name es h.namesNodup x e hx he (hxn.trans hen.symm)]; exact heu
    have hpm : ∀ x ∈ n.portMap, ((n.nameOf x.2 == some name) = true ↔ x.2 = u) := by
      intro x hx
      obtain ⟨e', he', hu'⟩ := h.portOwners x hx
      rw [← hu', rep_nameOf n es h e' he']
      simp only [beq_iff_eq, Option.some.injEq]
      exact (key e' he').symm
    obtain ⟨pm1, pm2⟩ := delFirst_removes (fun e => n.nameOf e.2 == some name) n.portMap u hpm h.portUidsNodup
    have hmemf : ∀ x, x ∈ es.filter (fun e => e.name != name) → x ∈ es := fun x hx => (List.mem_filter.mp hx).1
    have hport : ∀ x ∈ delFirst (fun e => n.nameOf e.2 == some name) n.portMap,
        ∃ e' ∈ es.filter (fun e => e.name != name), e'.uid = x.2 := by
      intro x hx
      obtain ⟨e', he', hu'⟩ := h.portOwners x (mem_delFirst _ _ _ hx)
      refine ⟨e', List.mem_filter.mpr ⟨he', ?_⟩, hu'⟩
      have : ¬ e'.name = name := fun hh => pm1 x hx (hu' ▸ (key e' he').mpr hh)
      simpa using this
    cases hk : e.isApp
    · -- a service
      obtain ⟨i, hi, _⟩ := h.svcEntry e he hk
      have hroute : dhas name n.svcRoutes = true := by
        have := dget_kv_mem (es.filter (fun e => !e.isApp)) e (List.mem_filter.mpr ⟨he, by simp [hk]⟩)
          (nodup_filter_map es _ _ h.namesNodup)
        rw [← h.svcRoutes, hen] at this
        simp [dhas, this]
      have hiu : n.findSvc u = some i := heu ▸ hi
      refine ⟨{ n with software := ddel name n.software, services := n.services.filter (· != u),
                       svcRoutes := ddel name n.svcRoutes,
                       portMap := delFirst (fun e => n.nameOf e.2 == some name) n.portMap,
                       classMap := delFirst (fun e => e.2 == name) n.classMap },
              by simp [Node.uninstall, hd, hiu, hroute], ?_⟩
      have happs : ∀ x ∈ es.filter (·.isApp), x.name ≠ name := by
        intro x hx hxn
        have hxe := eq_of_name es h.namesNodup x e (List.mem_filter.mp hx).1 he (hxn.trans hen.symm)
        have := (List.mem_filter.mp hx).2
        rw [hxe, hk] at this; cases this
      constructor
      · show ddel name n.software = _
        rw [h.software]; exact ddel_kv es name h.namesNodup
      · show n.services.filter (· != u) = _
        rw [h.services, filter_uid_eq_filter_name _ u name (fun x hx => key x (List.mem_filter.mp hx).1), filter_swap]
      · show n.applications = _
        rw [h.applications, filter_swap, filter_noop _ name happs]
      · show ddel name n.svcRoutes = _
        rw [h.svcRoutes, ddel_kv _ name (nodup_filter_map es _ _ h.namesNodup), filter_swap]
      · show n.appRoutes = _
        rw [h.appRoutes, filter_swap, filter_noop _ name happs]
      · exact nodup_filter_map es _ _ h.namesNodup
      · exact nodup_filter_map es _ _ h.uidsNodup
      · exact fun x hx => h.uidsLt x (hmemf x hx)
      · exact h.heapSvcLt
      · exact h.heapAppLt
      · exact fun x hx hxk => h.svcEntry x (hmemf x hx) hxk
      · exact fun x hx hxk => h.appEntry x (hmemf x hx) hxk
      · exact hport
      · exact pm2
    · -- an application
      obtain ⟨hnone, i, hi, _⟩ := h.appEntry e he hk
      have hroute : dhas name n.appRoutes = true := by
        have := dget_kv_mem (es.filter (·.isApp)) e (List.mem_filter.mpr ⟨he, hk⟩)
          (nodup_filter_map es _ _ h.namesNodup)
        rw [← h.appRoutes, hen] at this
        simp [dhas, this]
      have hiu : n.findApp u = some i := heu ▸ hi
      have hnu : n.findSvc u = none := heu ▸ hnone
      refine ⟨{ n with software := ddel name n.software, applications := n.applications.filter (· != u),
                       appRoutes := ddel name n.appRoutes,
                       portMap := delFirst (fun e => n.nameOf e.2 == some name) n.portMap,
                       classMap := delFirst (fun e => e.2 == name) n.classMap },
              by simp [Node.uninstall, hd, hiu, hnu, hroute], ?_⟩
      have hsvcs : ∀ x ∈ es.filter (fun e => !e.isApp), x.name ≠ name := by
        intro x hx hxn
        have hxe := eq_of_name es h.namesNodup x e (List.mem_filter.mp hx).1 he (hxn.trans hen.symm)
        have := (List.mem_filter.mp hx).2
        rw [hxe, hk] at this; cases this
      constructor
      · show ddel name n.software = _
        rw [h.software]; exact ddel_kv es name h.namesNodup
      · show n.services = _
        rw [h.services, filter_swap, filter_noop _ name hsvcs]
      · show n.applications.filter (· != u) = _
        rw [h.applications, filter_uid_eq_filter_name _ u name (fun x hx => key x (List.mem_filter.mp hx).1), filter_swap]
      · show n.svcRoutes = _
        rw [h.svcRoutes, filter_swap, filter_noop _ name hsvcs]
      · show ddel name n.appRoutes = _
        rw [h.appRoutes, ddel_kv _ name (nodup_filter_map es _ _ h.namesNodup), filter_swap]
      · exact nodup_filter_map es _ _ h.namesNodup
      · exact nodup_filter_map es _ _ h.uidsNodup
      · exact fun x hx => h.uidsLt x (hmemf x hx)
      · exact h.heapSvcLt
      · exact h.heapAppLt
      · exact fun x hx hxk => h.svcEntry x (hmemf x hx) hxk
      · exact fun x hx hxk => h.appEntry x (hmemf x hx) hxk
      · exact hport
      · exact pm2


/-! ### install = refuse, or evict the installed instance of that name and register the new one -/

/-- after `uninstall name` the name is free -/
theorem rep_uninstall_free (n : Node) (es : List Entry) (h : Rep n es) (name : String) :
    ∃ n', n.uninstall name = some n' ∧ Rep n' (es.filter (fun e => e.name != name)) ∧ dhas name n'.software = false ∧
      n'.next = n.next := by
  obtain ⟨n', hu, hr⟩ := rep_uninstall n es h name
  refine ⟨n', hu, hr, ?_, ?_⟩
  · have hnot : name ∉ (es.filter (fun e => e.name != name)).map (·.name) := by
      intro hm
      obtain ⟨e, he, hen⟩ := List.mem_map.mp hm
      have := (List.mem_filter.mp he).2
      simp [hen] at this
    have := dget_kv_none _ name hnot
    rw [← hr.software] at this
    simp [dhas, this]
  · unfold Node.uninstall at hu
    split at hu
    · cases hu; rfl
    · split at hu
      · split at hu
        · cases hu; rfl
        · cases hu
      · split at hu
        · split at hu
          · cases hu; rfl
          · cases hu
        · cases hu; rfl

/-- Under agreement the eviction inside `install` never raises, keeps agreement and leaves the name free. -/
theorem rep_evict (n : Node) (es : List Entry) (h : Rep n es) (name : String) :
    ∃ n1 es1, n.evict name = some n1 ∧ Rep n1 es1 ∧ dhas name n1.software = false ∧ n1.next = n.next := by
  unfold Node.evict
  cases hd : dhas name n.software
  · exact ⟨n, es, by simp, h, hd, rfl⟩
  · obtain ⟨n', hu, hr, hfree, hnext⟩ := rep_uninstall_free n es h name
    exact ⟨n', _, by simpa using hu, hr, hfree, hnext⟩

/-- **`SoftwareManager.install` of a service keeps the registries in agreement, whatever is installed already**
(refused, or the installed instance of that name is evicted first), and never raises. -/
theorem rep_installSvc (n : Node) (es : List Entry) (h : Rep n es) (c : Cls) (cfg : Bool) (l : List Nat) (hl : Health) (f : Int) :
    ∃ n' es', n.installSvc c cfg l hl f = some n' ∧ Rep n' es' := by
  unfold Node.installSvc
  cases hg : n.installRefused c cfg
  · obtain ⟨n1, es1, he, hr, hfree, _⟩ := rep_evict n es h c.name
    exact ⟨_, _, by simp [he], rep_registerSvc n1 es1 hr c l hl f hfree⟩
  · exact ⟨n, es, by simp, h⟩

theorem rep_installApp (n : Node) (es : List Entry) (h : Rep n es) (c : Cls) (cfg : Bool) (l : List Nat) (hl : Health) (f : Int) :
    ∃ n' es', n.installApp c cfg l hl f = some n' ∧ Rep n' es' := by
  unfold Node.installApp
  cases hg : n.installRefused c cfg
  · obtain ⟨n1, es1, he, hr, hfree, _⟩ := rep_evict n es h c.name
    exact ⟨_, _, by simp [he], rep_registerApp n1 es1 hr c l hl f hfree⟩
  · exact ⟨n, es, by simp, h⟩

/-! ### every operation -/

/-- **Every operation keeps the registries in agreement** — no hypothesis on the operation (finding F-22 repaired:
an install of an installed name evicts the old instance first). -/
theorem rep_step (n : Node) (es : List Entry) (h : Rep n es) (op : Op) :
    ∃ es', Rep (n.step op).1 es' := by
  cases op with
  | installSvc c cfg l hl f =>
    obtain ⟨n', es', hi, hr⟩ := rep_installSvc n es h c cfg l hl f
    exact ⟨es', by simp only [Node.step, hi]; exact hr⟩
  | installApp c cfg l hl f =>
    obtain ⟨n', es', hi, hr⟩ := rep_installApp n es h c cfg l hl f
    exact ⟨es', by simp only [Node.step, hi]; exact hr⟩
  | uninstall name =>
    obtain ⟨n', hu, hr⟩ := rep_uninstall n es h name
    exact ⟨_, by simp only [Node.step, hu]; exact hr⟩
  | reqUninstall name =>
    obtain ⟨n', hu, hr⟩ := rep_uninstall n es h name
    simp only [Node.step, hu]
    split
    · exact ⟨es, h⟩
    · split
      · exact ⟨es, h⟩
      · exact ⟨_, hr⟩
  | reqInstall name c =>
    simp only [Node.step]
    split
    · exact ⟨es, h⟩
    · split
      · exact ⟨es, h⟩
      · cases c with
        | none => exact ⟨es, h⟩
        | some cl =>
          obtain ⟨c, l⟩ := cl
          obtain ⟨n1, es1, hi, h1⟩ := rep_installApp n es h c false l .good 2
          simp only [hi]
          split
          · refine ⟨es1, rep_of_heap_map n1 _ _ h1 (fun i => i.s)
              (fun i => if i.m.uid = n.next then i.a.install else i.a) ?_ rfl rfl rfl rfl rfl rfl rfl rfl⟩
            simp
          · exact ⟨es1, h1⟩
  | svcReq name r => exact ⟨es, rep_deliver n es h _ _ rfl rfl rfl rfl rfl rfl rfl rfl rfl⟩
  | appReq name r => exact ⟨es, rep_deliver n es h _ _ rfl rfl rfl rfl rfl rfl rfl rfl rfl⟩
  | svcApi u e =>
    simp only [Node.step]
    split
    · split
      · exact ⟨es, h⟩
      · exact ⟨es, rep_deliver n es h _ _ rfl rfl rfl rfl rfl rfl rfl rfl rfl⟩
    · exact ⟨es, h⟩
  | appApi u e =>
    simp only [Node.step]
    split
    · split
      · exact ⟨es, h⟩
      · exact ⟨es, rep_deliver n es h _ _ rfl rfl rfl rfl rfl rfl rfl rfl rfl⟩
    · exact ⟨es, h⟩
  | tick =>
    simp only [Node.step]
    split
    · exact ⟨es, h⟩
    · exact ⟨es, rep_deliver n es h .tick _ rfl rfl rfl rfl rfl rfl rfl rfl rfl⟩
  | powerOn =>
    simp only [Node.step]
    split
    · exact ⟨es, rep_deliver n es h .powerOn _ rfl rfl rfl rfl rfl rfl rfl rfl rfl⟩
    · split
      · exact ⟨es, rep_same_heap n es h _ rfl rfl rfl rfl rfl rfl rfl rfl rfl⟩
      · exact ⟨es, h⟩
  | powerOff =>
    simp only [Node.step]
    split
    · exact ⟨es, rep_deliver n es h .powerOff _ rfl rfl rfl rfl rfl rfl rfl rfl rfl⟩
    · split
      · exact ⟨es, rep_same_heap n es h _ rfl rfl rfl rfl rfl rfl rfl rfl rfl⟩
      · exact ⟨es, h⟩
  | reqStartup =>
    simp only [Node.step]
    split
    · exact ⟨es, h⟩
    · split
      · exact ⟨es, rep_deliver n es h .reqStartup _ rfl rfl rfl rfl rfl rfl rfl rfl rfl⟩
      · exact ⟨es, rep_same_heap n es h _ rfl rfl rfl rfl rfl rfl rfl rfl rfl⟩
  | reqShutdown =>
    simp only [Node.step]
    split
    · exact ⟨es, h⟩
    · split
      · exact ⟨es, rep_deliver n es h .reqShutdown _ rfl rfl rfl rfl rfl rfl rfl rfl rfl⟩
      · exact ⟨es, rep_same_heap n es h _ rfl rfl rfl rfl rfl rfl rfl rfl rfl⟩
  | deliver p pr sc => exact ⟨es, h⟩
  | frame hd sc => simp only [Node.step]; split <;> exact ⟨es, h⟩
  | send u => simp only [Node.step]; split <;> exact ⟨es, h⟩

theorem rep_run (ops : List Op) (n : Node) (es : List Entry) (h : Rep n es) :
    ∃ es', Rep (n.run ops) es' := by
  induction ops generalizing n es with
  | nil => exact ⟨es, h⟩
  | cons op ops ih =>
    obtain ⟨es1, h1⟩ := rep_step n es h op
    exact ih _ es1 h1

end Primaite.C13
