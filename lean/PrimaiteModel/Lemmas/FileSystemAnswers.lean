/-
What the operations of `Model/FileSystem.lean` answer, and when they leave the state untouched.
-/
import PrimaiteModel.Lemmas.FileSystemOps
namespace Primaite.FileSystem

theorem ofBool_ne_raised (b : Bool) : ofBool b ≠ .raised := by cases b <;> simp [ofBool]

theorem getFolder_of_live {s : State} (h : Inv s) {g : Folder} (hg : g ∈ s.folders) : getFolder s g.name = some g := by
  cases hf : getFolder s g.name with
  | none => exact absurd rfl (getFolder_none hf g hg)
  | some g0 =>
    obtain ⟨h0, hn⟩ := getFolder_live hf
    rw [eq_of_key_eq Folder.id h.liveIds h0 hg (h.uniqueNames g0 h0 g hg hn)]

theorem getFile_of_live {g : Folder} (h : FolderInv g) {f : File} (hf : f ∈ g.files) : g.getFile f.name = some f := by
  cases hg : g.getFile f.name with
  | none => exact absurd rfl (getFile_none hg f hf)
  | some f0 =>
    obtain ⟨h0, hn⟩ := getFile_live hg
    rw [eq_of_key_eq File.id h.liveIds h0 hf (h.uniqueNames f0 h0 f hf hn)]

theorem getFile_none_of {g : Folder} {x : Name} (h : ∀ a ∈ g.files, a.name ≠ x) : g.getFile x = none := by
  unfold Folder.getFile
  have : g.files.find? (fun f => f.name == x) = none := by
    apply List.find?_eq_none.mpr
    intro a ha; simpa using h a ha
  simp [this]

/-- Re-assigning a live folder object to itself changes nothing. -/
theorem updFolder_self {s : State} (h : Inv s) {g : Folder} (hg : g ∈ s.folders) : updFolder s g.id (fun _ => g) = s := by
  unfold updFolder
  have e1 : s.folders.map (fun y => if y.id == g.id then g else y) = s.folders :=
    map_replace_self Folder.id h.liveIds hg
  have e2 : s.deletedFolders.map (fun y => if y.id == g.id then g else y) = s.deletedFolders := by
    apply map_replace_absent Folder.id
    intro y hy hyi
    exact h.disjoint g hg y hy hyi.symm
  simp only [e1, e2]

/-- The answer of a request on the `folder` route: refused by the guard, or whatever the continuation says about the
live folder of that name (`unreachable` for an unknown request name). Never `raised`. -/
theorem viaFolder_out {s : State} (h : Inv s) (F : Name) (k : Folder → Option (Folder × Out)) :
    ((∀ a ∈ s.folders, a.name ≠ F) ∧ viaFolder s F k = (s, .failure)) ∨
    ∃ g, g ∈ s.folders ∧ g.name = F ∧
      ((k g = none ∧ viaFolder s F k = (s, .unreachable)) ∨
       ∃ g' o, k g = some (g', o) ∧ viaFolder s F k = (updFolder s g.id (fun _ => g'), o)) := by
  unfold viaFolder
  by_cases hguard : folderGuard s F = true
  · obtain ⟨g, hgm, hgn, _, hroute, hfind⟩ := folderGuard_spec h hguard
    refine Or.inr ⟨g, hgm, hgn, ?_⟩
    simp only [hguard, Bool.not_true, Bool.false_eq_true, if_false, hroute, hfind]
    cases hk : k g with
    | none => exact Or.inl ⟨rfl, rfl⟩
    | some p => obtain ⟨g', o⟩ := p; exact Or.inr ⟨g', o, rfl, rfl⟩
  · have hg' : folderGuard s F = false := by simpa using hguard
    -- the guard fails: either no live folder, or (impossible under Inv) a live folder flagged deleted
    cases hg : getFolder s F with
    | none =>
      exact Or.inl ⟨getFolder_none hg, by simp [hg']⟩
    | some g =>
      exfalso
      obtain ⟨hgm, _⟩ := getFolder_live hg
      unfold folderGuard at hg'
      rw [getFolder_incl_of_live hg, hg] at hg'
      simp [h.liveFlag g hgm] at hg'

/-- Inside a folder satisfying the invariant a file request never answers `raised`. -/
theorem fileRequest_out_ne_raised {g : Folder} (h : FolderInv g) (x : Name) (v : Verb) :
    (g.fileRequest x v).2 ≠ .raised := by
  unfold Folder.fileRequest
  split
  · simp
  · rename_i hguard
    unfold Folder.fileGuard at hguard
    cases hf : g.getFile x with
    | none => simp [hf] at hguard
    | some f =>
      obtain ⟨hfm, hfn⟩ := getFile_live hf
      have hr := h.routes f hfm
      rw [hfn] at hr
      rw [hr]
      simp only
      cases hfind : (g.files ++ g.deletedFiles).find? (fun y => y.id == f.id) with
      | none =>
        have := List.find?_eq_none.mp hfind f (List.mem_append.mpr (Or.inl hfm))
        simp at this
      | some f0 =>
        simp only
        cases f0.verb v with
        | none => simp
        | some p => obtain ⟨f', b⟩ := p; cases b <;> simp

end Primaite.FileSystem
