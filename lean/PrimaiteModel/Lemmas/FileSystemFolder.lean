/-
Folder-level invariant `FolderInv` of `Model/FileSystem.lean` and its preservation by every folder operation.
-/
import PrimaiteModel.Lemmas.FileSystemBasics
namespace Primaite.FileSystem

/-- The structural invariant of one folder (live or deleted). -/
structure FolderInv (g : Folder) : Prop where
  /-- distinct uuids among the live files, among the deleted files … -/
  liveIds : (g.files.map File.id).Nodup
  delIds : (g.deletedFiles.map File.id).Nodup
  /-- … and no file in both dictionaries -/
  disjoint : ∀ a ∈ g.files, ∀ b ∈ g.deletedFiles, a.id ≠ b.id
  /-- the `deleted` flag says which dictionary a file is in -/
  liveFlag : ∀ a ∈ g.files, a.deleted = false
  delFlag : ∀ b ∈ g.deletedFiles, b.deleted = true
  /-- live file names are unique -/
  uniqueNames : ∀ a ∈ g.files, ∀ b ∈ g.files, a.name = b.name → a.id = b.id
  /-- the request route of a live file's name leads to that file -/
  routes : ∀ a ∈ g.files, lookupRoute g.fileRoutes a.name = some a.id

/-- every file uuid of the folder is below the allocation counter -/
def FolderBelow (n : Nat) (g : Folder) : Prop := ∀ a, a ∈ g.files ∨ a ∈ g.deletedFiles → a.id < n

theorem FolderBelow.mono {n m : Nat} {g : Folder} (h : FolderBelow n g) (hnm : n ≤ m) : FolderBelow m g :=
  fun a ha => Nat.lt_of_lt_of_le (h a ha) hnm

theorem FolderInv.congr {g g' : Folder} (h : FolderInv g) (h1 : g'.files = g.files)
    (h2 : g'.deletedFiles = g.deletedFiles) (h3 : g'.fileRoutes = g.fileRoutes) : FolderInv g' := by
  constructor
  · rw [h1]; exact h.liveIds
  · rw [h2]; exact h.delIds
  · rw [h1, h2]; exact h.disjoint
  · rw [h1]; exact h.liveFlag
  · rw [h2]; exact h.delFlag
  · rw [h1]; exact h.uniqueNames
  · rw [h1, h3]; exact h.routes

theorem FolderBelow.congr {n : Nat} {g g' : Folder} (h : FolderBelow n g) (h1 : g'.files = g.files)
    (h2 : g'.deletedFiles = g.deletedFiles) : FolderBelow n g' := by
  unfold FolderBelow; rw [h1, h2]; exact h

theorem folderInv_empty (i : Nat) (n : Name) (d : Int) :
    FolderInv { id := i, name := n, restoreDuration := d } := by
  constructor <;> simp

/-! ### `get_file` -/

theorem getFile_live {g : Folder} {n : Name} {f : File} (h : g.getFile n = some f) : f ∈ g.files ∧ f.name = n := by
  unfold Folder.getFile at h
  split at h
  · rename_i f' hf
    simp only [Option.some.injEq] at h; subst h
    exact ⟨List.mem_of_find?_eq_some hf, by simpa using List.find?_some hf⟩
  · simp at h

theorem getFile_none {g : Folder} {n : Name} (h : g.getFile n = none) : ∀ a ∈ g.files, a.name ≠ n := by
  unfold Folder.getFile at h
  split at h
  · simp at h
  · rename_i hf
    intro a ha
    have := List.find?_eq_none.mp hf a ha
    simpa using this

/-- `get_file(name, include_deleted=True)`: a live file of that name, or — when there is no live one — a deleted one. -/
theorem getFile_incl {g : Folder} {n : Name} {f : File} (h : g.getFile n true = some f) :
    f.name = n ∧ (f ∈ g.files ∨ (f ∈ g.deletedFiles ∧ ∀ a ∈ g.files, a.name ≠ n)) := by
  unfold Folder.getFile at h
  split at h
  · rename_i f' hf
    simp only [Option.some.injEq] at h; subst h
    exact ⟨by simpa using List.find?_some hf, Or.inl (List.mem_of_find?_eq_some hf)⟩
  · rename_i hf
    simp only [if_true] at h
    refine ⟨by simpa using List.find?_some h, Or.inr ⟨List.mem_of_find?_eq_some h, ?_⟩⟩
    intro a ha
    simpa using List.find?_eq_none.mp hf a ha

theorem getFile_isSome_of_live {g : Folder} {f : File} (hf : f ∈ g.files) : (g.getFile f.name).isSome := by
  unfold Folder.getFile
  split
  · simp
  · rename_i hn
    have := List.find?_eq_none.mp hn f hf
    simp at this

/-! ### add / remove / restore a file -/

/-- A live file `f` keeps `deleted = false` under `restore()`. -/
theorem File.restore_of_live {f : File} (h : f.deleted = false) : f.restore = f := by
  cases f; simp_all [File.restore]

/-- `add_file` of a brand-new file whose name is not live. -/
theorem folderInv_addFile_new {g : Folder} (h : FolderInv g) {f : File}
    (hid : ∀ a, a ∈ g.files ∨ a ∈ g.deletedFiles → a.id ≠ f.id) (hname : ∀ a ∈ g.files, a.name ≠ f.name)
    (hdel : f.deleted = false) : FolderInv (g.addFile f) := by
  unfold Folder.addFile
  constructor
  · exact nodup_dictSet _ h.liveIds
  · exact h.delIds
  · intro a ha b hb
    rcases (mem_dictSet File.id).mp ha with rfl | ⟨ha, _⟩
    · exact fun e => hid b (Or.inr hb) e.symm
    · exact h.disjoint a ha b hb
  · intro a ha
    rcases (mem_dictSet File.id).mp ha with rfl | ⟨ha, _⟩
    · exact hdel
    · exact h.liveFlag a ha
  · exact h.delFlag
  · intro a ha b hb hn
    rcases (mem_dictSet File.id).mp ha with rfl | ⟨ha', _⟩ <;> rcases (mem_dictSet File.id).mp hb with rfl | ⟨hb', _⟩
    · rfl
    · exact absurd hn.symm (hname b hb')
    · exact absurd hn (hname a ha')
    · exact h.uniqueNames a ha' b hb' hn
  · intro a ha
    simp only [lookupRoute_cons]
    rcases (mem_dictSet File.id).mp ha with rfl | ⟨ha, _⟩
    · simp
    · rw [if_neg (fun e => hname a ha e.symm)]
      exact h.routes a ha

/-- `add_file(force=True)` of the file that is already live under that name: only the route is re-registered. -/
theorem folderInv_addFile_existing {g : Folder} (h : FolderInv g) {f : File} (hf : f ∈ g.files) :
    FolderInv (g.addFile f) := by
  unfold Folder.addFile
  rw [dictSet_self File.id h.liveIds hf]
  constructor
  · exact h.liveIds
  · exact h.delIds
  · exact h.disjoint
  · exact h.liveFlag
  · exact h.delFlag
  · exact h.uniqueNames
  · intro a ha
    simp only [lookupRoute_cons]
    by_cases hn : f.name = a.name
    · rw [if_pos hn, h.uniqueNames f hf a ha hn]
    · rw [if_neg hn]; exact h.routes a ha

theorem addFile_existing_files {g : Folder} (h : FolderInv g) {f : File} (hf : f ∈ g.files) :
    (g.addFile f).files = g.files ∧ (g.addFile f).deletedFiles = g.deletedFiles := by
  unfold Folder.addFile
  simp [dictSet_self File.id h.liveIds hf]

theorem folderBelow_addFile {n : Nat} {g : Folder} (h : FolderBelow n g) {f : File} (hf : f.id < n) :
    FolderBelow n (g.addFile f) := by
  intro a ha
  unfold Folder.addFile at ha
  rcases ha with ha | ha
  · rcases (mem_dictSet File.id).mp ha with rfl | ⟨ha, _⟩
    · exact hf
    · exact h a (Or.inl ha)
  · exact h a (Or.inr ha)

/-- `remove_file`: the live file moves to the deleted dictionary with its flag set. -/
theorem folderInv_removeFile {g : Folder} (h : FolderInv g) (f : File) :
    FolderInv (g.removeFile f) := by
  unfold Folder.removeFile
  split
  · constructor
    · exact nodup_dictPop _ h.liveIds
    · exact nodup_dictSet _ h.delIds
    · intro a ha b hb
      obtain ⟨ha, hne⟩ := (mem_dictPop File.id).mp ha
      rcases (mem_dictSet File.id).mp hb with rfl | ⟨hb, _⟩
      · exact hne
      · exact h.disjoint a ha b hb
    · intro a ha
      exact h.liveFlag a ((mem_dictPop File.id).mp ha).1
    · intro b hb
      rcases (mem_dictSet File.id).mp hb with rfl | ⟨hb, _⟩
      · rfl
      · exact h.delFlag b hb
    · intro a ha b hb
      exact h.uniqueNames a ((mem_dictPop File.id).mp ha).1 b ((mem_dictPop File.id).mp hb).1
    · intro a ha
      exact h.routes a ((mem_dictPop File.id).mp ha).1
  · exact h

theorem folderBelow_removeFile {n : Nat} {g : Folder} (h : FolderBelow n g) {f : File} (hf : f ∈ g.files) :
    FolderBelow n (g.removeFile f) := by
  have hfn := h f (Or.inl hf)
  intro a ha
  unfold Folder.removeFile at ha
  split at ha
  · rcases ha with ha | ha
    · exact h a (Or.inl ((mem_dictPop File.id).mp ha).1)
    · rcases (mem_dictSet File.id).mp ha with rfl | ⟨ha, _⟩
      · exact hfn
      · exact h a (Or.inr ha)
  · exact h a ha

theorem removeFileByName_spec {g : Folder} {n : Name} :
    (∃ f ∈ g.files, f.name = n ∧ g.removeFileByName n = (g.removeFile f, true)) ∨
    ((∀ a ∈ g.files, a.name ≠ n) ∧ g.removeFileByName n = (g, false)) := by
  unfold Folder.removeFileByName
  split
  · rename_i f hf
    exact Or.inl ⟨f, List.mem_of_find?_eq_some hf, by simpa using List.find?_some hf, rfl⟩
  · rename_i hf
    refine Or.inr ⟨?_, rfl⟩
    intro a ha
    simpa using List.find?_eq_none.mp hf a ha

/-- Members of the accumulated `deleted_files` in `remove_all_files`. -/
theorem mem_foldl_delete {fs d : List File} {y : File}
    (h : y ∈ fs.foldl (fun d f => dictSet File.id d f.delete) d) : y ∈ d ∨ ∃ f ∈ fs, y = f.delete := by
  induction fs generalizing d with
  | nil => exact Or.inl h
  | cons c t ih =>
    simp only [List.foldl_cons] at h
    rcases ih h with h' | ⟨f, hf, rfl⟩
    · rcases (mem_dictSet File.id).mp h' with rfl | ⟨h', _⟩
      · exact Or.inr ⟨c, List.mem_cons_self .., rfl⟩
      · exact Or.inl h'
    · exact Or.inr ⟨f, List.mem_cons_of_mem _ hf, rfl⟩

theorem nodup_foldl_delete {fs d : List File} (h : (d.map File.id).Nodup) :
    ((fs.foldl (fun d f => dictSet File.id d f.delete) d).map File.id).Nodup := by
  induction fs generalizing d with
  | nil => exact h
  | cons c t ih => exact ih (nodup_dictSet _ h)

/-- `remove_all_files` (folder deletion): every file ends in the deleted dictionary, flagged. -/
theorem folderInv_removeAllFiles {g : Folder} (h : FolderInv g) : FolderInv g.removeAllFiles := by
  unfold Folder.removeAllFiles
  constructor
  · simp
  · exact nodup_foldl_delete h.delIds
  · simp
  · simp
  · intro b hb
    rcases mem_foldl_delete hb with hb | ⟨f, _, rfl⟩
    · exact h.delFlag b hb
    · rfl
  · simp
  · simp

theorem folderBelow_removeAllFiles {n : Nat} {g : Folder} (h : FolderBelow n g) : FolderBelow n g.removeAllFiles := by
  intro a ha
  unfold Folder.removeAllFiles at ha
  rcases ha with ha | ha
  · simp at ha
  · rcases mem_foldl_delete ha with ha | ⟨f, hf, rfl⟩
    · exact h a (Or.inr ha)
    · exact h f (Or.inl hf)

/-- `Folder.restore_file(name)` keeps the folder invariant whatever the name denotes. -/
theorem folderInv_restoreFile {g : Folder} (h : FolderInv g) (n : Name) : FolderInv (g.restoreFile n).1 := by
  unfold Folder.restoreFile
  split
  · exact h
  · rename_i f hf
    obtain ⟨hfn, hcase⟩ := getFile_incl hf
    -- a live file other than f never carries f's name
    have hother : ∀ a ∈ g.files, a.id ≠ f.id → a.name ≠ f.name := by
      intro a ha hne hn
      rcases hcase with hl | ⟨_, hno⟩
      · exact hne (h.uniqueNames a ha f hl hn)
      · exact hno a ha (hn.trans hfn)
    constructor
    · exact nodup_dictSet _ h.liveIds
    · exact nodup_dictPop _ h.delIds
    · intro a ha b hb
      obtain ⟨hb, hbne⟩ := (mem_dictPop File.id).mp hb
      rcases (mem_dictSet File.id).mp ha with rfl | ⟨ha, _⟩
      · exact fun e => hbne e.symm
      · exact h.disjoint a ha b hb
    · intro a ha
      rcases (mem_dictSet File.id).mp ha with rfl | ⟨ha, _⟩
      · rfl
      · exact h.liveFlag a ha
    · intro b hb
      exact h.delFlag b ((mem_dictPop File.id).mp hb).1
    · intro a ha b hb hn
      rcases (mem_dictSet File.id).mp ha with ea | ⟨ha', hane⟩ <;>
        rcases (mem_dictSet File.id).mp hb with eb | ⟨hb', hbne⟩
      · rw [ea, eb]
      · rw [ea] at hn ⊢; exact absurd hn.symm (hother b hb' hbne)
      · rw [eb] at hn ⊢; exact absurd hn (hother a ha' hane)
      · exact h.uniqueNames a ha' b hb' hn
    · intro a ha
      simp only [lookupRoute_cons]
      rcases (mem_dictSet File.id).mp ha with rfl | ⟨ha, hane⟩
      · simp [File.restore]
      · rw [if_neg (fun e => hother a ha hane e.symm)]
        exact h.routes a ha

theorem folderBelow_restoreFile {k : Nat} {g : Folder} (h : FolderBelow k g) (n : Name) :
    FolderBelow k (g.restoreFile n).1 := by
  unfold Folder.restoreFile
  split
  · exact h
  · rename_i f hf
    obtain ⟨_, hcase⟩ := getFile_incl hf
    have hfk : f.id < k := by
      rcases hcase with hl | ⟨hd, _⟩
      · exact h f (Or.inl hl)
      · exact h f (Or.inr hd)
    intro a ha
    rcases ha with ha | ha
    · rcases (mem_dictSet File.id).mp ha with rfl | ⟨ha, _⟩
      · exact hfk
      · exact h a (Or.inl ha)
    · exact h a (Or.inr ((mem_dictPop File.id).mp ha).1)

theorem restoreFile_meta (g : Folder) (n : Name) :
    (g.restoreFile n).1.id = g.id ∧ (g.restoreFile n).1.name = g.name ∧ (g.restoreFile n).1.deleted = g.deleted ∧
    (g.restoreFile n).1.restoreCountdown = g.restoreCountdown ∧ (g.restoreFile n).1.restoreDuration = g.restoreDuration := by
  unfold Folder.restoreFile
  split <;> simp

/-- The two loops of `_restoring_timestep`. -/
theorem foldl_restoreFile_inv {g : Folder} {k : Nat} (fs : List File) (h : FolderInv g) (hb : FolderBelow k g) :
    let g' := fs.foldl (fun (a : Folder) (f : File) => (a.restoreFile f.name).1) g
    FolderInv g' ∧ FolderBelow k g' ∧ g'.id = g.id ∧ g'.name = g.name ∧ g'.deleted = g.deleted := by
  induction fs generalizing g with
  | nil => exact ⟨h, hb, rfl, rfl, rfl⟩
  | cons c t ih =>
    simp only [List.foldl_cons]
    have := ih (folderInv_restoreFile h c.name) (folderBelow_restoreFile hb c.name)
    obtain ⟨m1, m2, m3, _, _⟩ := restoreFile_meta g c.name
    simp only at this
    refine ⟨this.1, this.2.1, ?_, ?_, ?_⟩
    · rw [this.2.2.1, m1]
    · rw [this.2.2.2.1, m2]
    · rw [this.2.2.2.2, m3]

/-- `_restoring_timestep` keeps the folder invariant, the identity of the folder, and ends with `deleted = false`
when it completes (a live folder already has `deleted = false`). -/
theorem restoringTimestep_spec {g : Folder} {k : Nat} (h : FolderInv g) (hb : FolderBelow k g) :
    FolderInv g.restoringTimestep ∧ FolderBelow k g.restoringTimestep ∧ g.restoringTimestep.id = g.id ∧
    g.restoringTimestep.name = g.name ∧ (g.deleted = false → g.restoringTimestep.deleted = false) := by
  unfold Folder.restoringTimestep
  split
  · simp only
    split
    · have h1 : FolderInv { g with restoreCountdown := g.restoreCountdown - 1 } := h.congr rfl rfl rfl
      have hb1 : FolderBelow k { g with restoreCountdown := g.restoreCountdown - 1 } := hb.congr rfl rfl
      have s1 := foldl_restoreFile_inv g.files h1 hb1
      simp only at s1
      have s2 := foldl_restoreFile_inv
        (g.files.foldl (fun (a : Folder) (f : File) => (a.restoreFile f.name).1) { g with restoreCountdown := g.restoreCountdown - 1 }).deletedFiles
        s1.1 s1.2.1
      simp only at s2
      refine ⟨s2.1.congr rfl rfl rfl, s2.2.1.congr rfl rfl, ?_, ?_, fun _ => rfl⟩
      · simp only; rw [s2.2.2.1, s1.2.2.1]
      · simp only; rw [s2.2.2.2.1, s1.2.2.2.1]
    · exact ⟨h.congr rfl rfl rfl, hb.congr rfl rfl, rfl, rfl, fun hd => hd⟩
  · exact ⟨h, hb, rfl, rfl, fun hd => hd⟩

/-! ### the file route inside a folder -/

/-- A member of either dictionary with the uuid of a live file is that file. -/
theorem file_eq_of_id {g : Folder} (h : FolderInv g) {f f0 : File} (hf : f ∈ g.files)
    (h0 : f0 ∈ g.files ++ g.deletedFiles) (hid : f0.id = f.id) : f0 = f := by
  rcases List.mem_append.mp h0 with h0 | h0
  · exact eq_of_key_eq File.id h.liveIds h0 hf hid
  · exact absurd hid.symm (h.disjoint f hf f0 h0)

/-- Under the invariant the item-level requests of a file never change the folder: a request that passes the guards
reaches the live file of that name, and none of the five verbs changes a live file's structure. -/
theorem fileRequest_state {g : Folder} (h : FolderInv g) (x : Name) (v : Verb) : (g.fileRequest x v).1 = g := by
  unfold Folder.fileRequest
  split
  · rfl
  · rename_i hguard
    split
    · rfl
    · rename_i i hi
      split
      · rfl
      · rename_i f0 hf0
        split
        · rfl
        · rename_i f' b hv
          -- the guard found a live file f named x
          unfold Folder.fileGuard at hguard
          split at hguard
          · rename_i f hf
            obtain ⟨hfm, hfn⟩ := getFile_live hf
            have hi' : i = f.id := by
              have := h.routes f hfm
              rw [hfn, hi] at this
              exact Option.some.inj this
            have hid0 : f0.id = f.id := by
              have := List.find?_some hf0
              simp only [beq_iff_eq] at this
              rw [this, hi']
            have h0 : f0 = f := file_eq_of_id h hfm (List.mem_of_find?_eq_some hf0) hid0
            subst h0
            have hfl : f0.deleted = false := h.liveFlag f0 hfm
            have hf' : f' = f0 := by
              cases v <;> simp [File.verb] at hv <;> try exact hv.1.symm
              · rw [File.restore_of_live hfl] at hv; exact hv.1.symm
            subst hf'
            have e1 : g.files.map (fun y => if y.id == i then f' else y) = g.files := by
              rw [hi']; exact map_replace_self File.id h.liveIds hfm
            have e2 : g.deletedFiles.map (fun y => if y.id == i then f' else y) = g.deletedFiles := by
              apply map_replace_absent File.id
              intro y hy hyi
              exact h.disjoint f' hfm y hy (by rw [hyi, hi'])
            simp only [e1, e2]
          · simp at hguard

/-- The answer of a file request: refused unless a live file of that name exists. -/
theorem fileRequest_refused {g : Folder} {x : Name} (v : Verb) (h : ∀ a ∈ g.files, a.name ≠ x) :
    (g.fileRequest x v).2 = .failure := by
  unfold Folder.fileRequest Folder.fileGuard
  have : g.getFile x = none := by
    unfold Folder.getFile
    have : g.files.find? (fun f => f.name == x) = none := by
      apply List.find?_eq_none.mpr
      intro a ha; simpa using h a ha
    simp [this]
  simp [this]

end Primaite.FileSystem
