/-
Refinement lemma for C17: every operation of the composed model (`Database.step`) changes the *server* only through a
finite sequence of server-level events (`SrvEv`) of the kinds that operation permits (`OpAllows`).  Sequence-level
theorems in `Props/C17.lean` are then proved once, over all event sequences, and lifted to all operation sequences.
-/
import PrimaiteModel.Model.Database
namespace Primaite.Database

/-- Everything that can happen to the database server. -/
inductive SrvEv
  | recv (src : Nat) (p : Payload)
  | req (r : SvcReq)
  | setPw (pw : Option Nat)
  | backup (b : Backup) (pq big : Bool)
  | restore (b : Backup) (pq pr sendOk : Bool)
  | fileDelete | fileCorrupt | fileRepair | folderDelete
  | admin (a : Admin)
  | dl (a : DlOp)
  | fsr (db : Bool) (a : FsAct)
  | reinstall (cfg : Option InstCfg)
  | powerOn | powerOff
  | tick (b : Backup) (t : Nat) (pq pr big sendOk : Bool)

def SrvEv.apply (s : Server) : SrvEv → Server
  | .recv src p => (s.receive src p).1
  | .req r => (s.request r).1
  | .setPw pw => { s with password := pw }
  | .backup b pq big => (backupDatabase s b pq big).1
  | .restore b pq pr k => (restoreBackup s b pq pr k).1
  | .folderDelete => s.folderDelete.1
  | .admin a => (s.admin a).1
  | .dl a => (s.dl a).1
  | .fsr db a => (s.fsr db a).1
  | .reinstall cfg => (s.reinstall cfg).1
  | .fileDelete => s.fileDelete.1
  | .fileCorrupt => s.fileCorrupt.1
  | .fileRepair => s.fileRepair.1
  | .powerOn => s.powerOn
  | .powerOff => s.powerOff
  | .tick b t pq pr big k => (serverTick s b t pq pr big k).1

/-- `s'` is reached from `s` by finitely many events, each satisfying `A`. -/
inductive Reach (A : SrvEv → Prop) : Server → Server → Prop
  | refl (s : Server) : Reach A s s
  | head {s s' : Server} (e : SrvEv) (h : A e) (r : Reach A (e.apply s) s') : Reach A s s'

theorem Reach.trans {A} {a b c : Server} (h1 : Reach A a b) (h2 : Reach A b c) : Reach A a c := by
  induction h1 with
  | refl => exact h2
  | head e h _ ih => exact .head e h (ih h2)

theorem Reach.mono {A B : SrvEv → Prop} (hAB : ∀ e, A e → B e) {a b : Server} (h : Reach A a b) : Reach B a b := by
  induction h with
  | refl => exact .refl _
  | head e h _ ih => exact .head e (hAB e h) ih

theorem Reach.single {A} (s : Server) (e : SrvEv) (h : A e) : Reach A s (e.apply s) := .head e h (.refl _)

/-- An invariant kept by every permitted event is kept along `Reach`. -/
theorem Reach.invariant {A} {I : Server → Prop} (hstep : ∀ s e, A e → I s → I (e.apply s))
    {a b : Server} (h : Reach A a b) (ha : I a) : I b := by
  induction h with
  | refl => exact ha
  | head e he _ ih => exact ih (hstep _ e he ha)

def IsConnect (e : SrvEv) : Prop := ∃ j pw, e = .recv j (.connect pw)
def IsSql (q : Sql) (e : SrvEv) : Prop := ∃ j cid, e = .recv j (.sql cid q)
def IsDisc (e : SrvEv) : Prop := ∃ j cid, e = .recv j (.disconnect cid)
def IsJunk (e : SrvEv) : Prop := ∃ j k, e = .recv j (.junk k)

/-- Which server events an operation may cause. -/
def OpAllows : Op → SrvEv → Prop
  | .connect _, e => IsConnect e
  | .nConnect _, e => IsConnect e
  | .rawQuery _ _ q, e => IsSql q e
  | .hQuery _ q, e => IsSql q e
  | .nQuery _ q, e => IsSql q e
  | .rawDisconnect _ _, e => IsDisc e
  | .rawJunk _ _, e => IsJunk e
  | .hDisconnect _, e => IsDisc e
  | .nDisconnect _, e => IsDisc e
  | .uninstall _, e => IsDisc e
  | .execute _, e => IsConnect e ∨ IsSql .pgstat e
  | .ransom _ q, e => IsConnect e ∨ IsSql q e
  | .svc r, e => e = .req r
  | .setPw pw, e => e = .setPw pw
  | .backup _, e => ∃ b pq big, e = .backup b pq big
  | .restore _ _, e => ∃ b pq pr k, e = .restore b pq pr k
  | .folderDelete, e => e = .folderDelete
  | .admin a, e => e = .admin a
  | .dl a, e => e = .dl a
  | .fsr db a, e => e = .fsr db a
  | .svcInstall cfg, e => e = .reinstall cfg
  | .co _, _ => False
  | .bkDelete, _ => False
  | .dm _ q _ _ _, e => IsConnect e ∨ IsSql q e
  | .ransomReq _ q, e => IsConnect e ∨ IsSql q e
  | .fileDelete, e => e = .fileDelete
  | .fileCorrupt, e => e = .fileCorrupt
  | .fileRepair, e => e = .fileRepair
  | .power who on, e => who = 0 ∧ e = (if on then SrvEv.powerOn else SrvEv.powerOff)
  | .tick _ _ _, e => ∃ b t pq pr big k, e = .tick b t pq pr big k
  | .install _, _ => False
  | .appRun _, _ => False
  | .appClose _, _ => False
  | .clientPw _ _, _ => False
  | .ftps _, _ => False
  | .block _ _, _ => False

/-! ### the composed functions -/

@[simp] theorem setClient_srv (st : State) (i : Nat) (c : Client) : (st.setClient i c).srv = st.srv := rfl

theorem send_srv (st : State) (i : Nat) (p : Payload) :
    (st.send i p).1.srv = st.srv ∨ (st.send i p).1.srv = (st.srv.receive i p).1 := by
  unfold State.send
  by_cases hr : (!st.reqOpen i || !st.srv.listening) = true
  · left; simp [hr]
  · right
    simp only [hr, Bool.false_eq_true, if_false]
    split <;> rfl

theorem send_reach (st : State) (i : Nat) (p : Payload) :
    Reach (fun e => e = .recv i p) st.srv (st.send i p).1.srv := by
  rcases send_srv st i p with h | h
  · rw [h]; exact .refl _
  · rw [h]; exact Reach.single (A := fun e => e = .recv i p) st.srv (.recv i p) rfl

@[simp] theorem updClient_srv (st : State) (i : Nat) (f : Client → Client) : (st.updClient i f).srv = st.srv := by
  unfold State.updClient; split <;> rfl

theorem getNewConnection_reach (st : State) (i : Nat) : Reach IsConnect st.srv (st.getNewConnection i).1.srv := by
  unfold State.getNewConnection
  split
  · exact .refl _
  · rename_i c _
    split
    · exact .refl _
    · have h := (send_reach st i (.connect c.serverPw)).mono (B := IsConnect) (fun e he => ⟨i, c.serverPw, he⟩)
      dsimp only
      split
      · simpa using h
      · exact h

theorem rawQuery_reach (st : State) (i : Nat) (cid : Option Nat) (q : Sql) :
    Reach (IsSql q) st.srv (st.rawQuery i cid q).1.srv := by
  unfold State.rawQuery
  exact (send_reach st i (.sql cid q)).mono (fun e he => ⟨i, cid, he⟩)

theorem handleQuery_reach (st : State) (h : Nat) (q : Sql) : Reach (IsSql q) st.srv (st.handleQuery h q).1.srv := by
  unfold State.handleQuery
  split
  · exact .refl _
  · split
    · exact rawQuery_reach _ _ _ _
    · exact .refl _

theorem clientDisconnect_reach (st : State) (i id : Nat) : Reach IsDisc st.srv (st.clientDisconnect i id).1.srv := by
  unfold State.clientDisconnect
  split
  · exact .refl _
  · split
    · exact .refl _
    · split
      · exact .refl _
      · have h := (send_reach st i (.disconnect (some id))).mono (B := IsDisc) (fun e he => ⟨i, some id, he⟩)
        simpa using h

theorem handleDisconnect_reach (st : State) (h : Nat) : Reach IsDisc st.srv (st.handleDisconnect h).1.srv := by
  unfold State.handleDisconnect
  split
  · exact .refl _
  · split
    · exact clientDisconnect_reach _ _ _
    · exact .refl _

theorem nativeConnect_reach (st : State) (i : Nat) : Reach IsConnect st.srv (st.nativeConnect i).1.srv := by
  unfold State.nativeConnect
  split
  · exact .refl _
  · split
    · exact .refl _
    · have h := getNewConnection_reach st i
      dsimp only
      split
      · simpa using h
      · exact h

theorem nativeQuery_reach (st : State) (i : Nat) (q : Sql) : Reach (IsSql q) st.srv (st.nativeQuery i q).1.srv := by
  unfold State.nativeQuery
  split
  · exact .refl _
  · split
    · exact .refl _
    · split
      · exact .refl _
      · exact handleQuery_reach _ _ _

theorem nativeDisconnect_reach (st : State) (i : Nat) : Reach IsDisc st.srv (st.nativeDisconnect i).1.srv := by
  unfold State.nativeDisconnect
  split
  · exact .refl _
  · split
    · exact .refl _
    · dsimp only
      simp only [updClient_srv]
      split
      · exact clientDisconnect_reach _ _ _
      · exact .refl _

theorem ensureNative_reach (st : State) (i : Nat) (c : Client) :
    Reach IsConnect st.srv (st.ensureNative i c).1.srv := by
  unfold State.ensureNative
  split
  · exact .refl _
  · exact nativeConnect_reach st i

theorem execute_reach (st : State) (i : Nat) :
    Reach (fun e => IsConnect e ∨ IsSql .pgstat e) st.srv (st.execute i).1.srv := by
  unfold State.execute
  split
  · exact .refl _
  · rename_i c _
    split
    · exact .refl _
    · dsimp only
      have h1 := (ensureNative_reach st i c).mono (B := fun e => IsConnect e ∨ IsSql .pgstat e) (fun e he => Or.inl he)
      split
      · exact h1
      · split
        · exact h1
        · exact h1.trans ((rawQuery_reach (st.ensureNative i c).1 _ _ _).mono (fun e he => Or.inr he))

theorem uninstall_fold_reach (i : Nat) (ids : List Nat) (acc : State × List (Option Nat)) :
    Reach IsDisc acc.1.srv (ids.foldl (uninstallStep i) acc).1.srv := by
  induction ids generalizing acc with
  | nil => exact .refl _
  | cons id rest ih =>
    simp only [List.foldl_cons]
    exact (clientDisconnect_reach acc.1 i id).trans (ih (uninstallStep i acc id))

theorem uninstall_reach (st : State) (i : Nat) : Reach IsDisc st.srv (st.uninstall i).1.srv := by
  unfold State.uninstall
  split
  · exact .refl _
  · split
    · exact .refl _
    · dsimp only
      simp only [updClient_srv]
      exact uninstall_fold_reach i _ (st, [])

theorem ransomConnect_reach (st : State) (i : Nat) (c : Client) :
    Reach IsConnect st.srv (st.ransomConnect i c).1.srv := by
  unfold State.ransomConnect
  split
  · exact .refl _
  · dsimp only
    simp only [updClient_srv]
    exact getNewConnection_reach st i

theorem ransom_reach (st : State) (i : Nat) (q : Sql) :
    Reach (fun e => IsConnect e ∨ IsSql q e) st.srv (st.ransom i q).1.srv := by
  unfold State.ransom
  split
  · exact .refl _
  · split
    · exact .refl _
    · dsimp only
      split
      · exact .refl _
      · split
        · exact .refl _
        · rename_i c _ _ _ _
          generalize hst1 : (st.setClient i { c with rsApp := appRun c.node.isOn c.rsApp }).setClient i
            { c with rsApp := appRun c.node.isOn c.rsApp, serverPw := c.rsPw } = st1
          generalize hc2 : ({ c with rsApp := appRun c.node.isOn c.rsApp, serverPw := c.rsPw } : Client) = c2
          have hs : st1.srv = st.srv := by rw [← hst1]; rfl
          have h1 := (ransomConnect_reach st1 i c2).mono (B := fun e => IsConnect e ∨ IsSql q e) (fun e he => Or.inl he)
          rw [hs] at h1
          split
          · exact h1
          · exact h1.trans ((handleQuery_reach (st1.ransomConnect i c2).1 _ _).mono (fun e he => Or.inr he))

theorem dmConnect_reach (st : State) (i : Nat) (c : Client) :
    Reach IsConnect st.srv (st.dmConnect i c).1.srv := by
  unfold State.dmConnect
  split
  · exact .refl _
  · dsimp only
    simp only [updClient_srv]
    exact getNewConnection_reach st i

theorem dmAttack_reach (st : State) (i : Nat) (q : Sql) (scan atk : Bool) :
    Reach (fun e => IsConnect e ∨ IsSql q e) st.srv (st.dmAttack i q scan atk).1.srv := by
  unfold State.dmAttack
  split
  · exact .refl _
  · split
    · exact .refl _
    · dsimp only
      split
      · exact .refl _
      · split
        · exact .refl _
        · split
          · simp only [updClient_srv]; exact .refl _
          · rename_i c _ _ _ _ _
            generalize hc2 : ({ c with dmApp := appRun c.node.isOn c.dmApp, serverPw := c.dmPw, dmStage := dmAdvance c.dmStage scan } : Client) = c2
            generalize hst1 : (st.setClient i { c with dmApp := appRun c.node.isOn c.dmApp }).setClient i c2 = st1
            have hs : st1.srv = st.srv := by rw [← hst1]; rfl
            have h1 := (dmConnect_reach st1 i c2).mono (B := fun e => IsConnect e ∨ IsSql q e) (fun e he => Or.inl he)
            rw [hs] at h1
            split
            · simp only [updClient_srv]; exact h1
            · simp only [updClient_srv]
              exact h1.trans ((handleQuery_reach (st1.dmConnect i c2).1 _ _).mono (fun e he => Or.inr he))

theorem tick_srv (st : State) (big downOk sendOk : Bool) : (st.tick big downOk sendOk).srv =
    (serverTick st.srv st.bk (st.t + 1) (st.bk.node.isOn && !st.blockFtpReq) (st.bk.node.isOn && !st.blockFtpResp && downOk)
      big sendOk).1 := rfl

/-- The refinement: every operation acts on the server through permitted events only. -/
theorem step_reach (st : State) (op : Op) : Reach (OpAllows op) st.srv (step st op).1.srv := by
  cases op with
  | connect i => exact getNewConnection_reach st i
  | rawQuery i cid q =>
    simp only [step]; split
    · exact rawQuery_reach _ _ _ _
    · exact .refl _
  | rawDisconnect i cid =>
    simp only [step]; split
    · exact (send_reach st i (.disconnect cid)).mono (fun e he => ⟨i, cid, he⟩)
    · exact .refl _
  | rawJunk i k =>
    simp only [step]; split
    · exact (send_reach st i (.junk k)).mono (fun e he => ⟨i, k, he⟩)
    · exact .refl _
  | hQuery h q =>
    simp only [step]; split
    · exact .refl _
    · exact handleQuery_reach _ _ _
  | hDisconnect h =>
    simp only [step]; split
    · exact .refl _
    · exact handleDisconnect_reach _ _
  | nConnect i =>
    simp only [step]; split
    · exact nativeConnect_reach _ _
    · exact .refl _
  | nQuery i q =>
    simp only [step]; split
    · exact nativeQuery_reach _ _ _
    · exact .refl _
  | nDisconnect i =>
    simp only [step]; split
    · exact nativeDisconnect_reach _ _
    · exact .refl _
  | execute i =>
    simp only [step]; split
    · exact .refl _
    · split
      · exact .refl _
      · exact execute_reach _ _
  | uninstall i => exact uninstall_reach st i
  | install i =>
    show Reach _ st.srv (st.install i).srv
    unfold State.install; split
    · exact .refl _
    · split <;> exact .refl _
  | appRun i =>
    simp only [step]; split
    · split <;> exact .refl _
    · exact .refl _
  | appClose i =>
    simp only [step]; split
    · split <;> exact .refl _
    · exact .refl _
  | clientPw i pw =>
    simp only [step]; split
    · split <;> exact .refl _
    · exact .refl _
  | ransom i q => exact ransom_reach st i q
  | svc r => exact Reach.single (A := OpAllows (.svc r)) st.srv (.req r) rfl
  | setPw pw => exact Reach.single (A := OpAllows (.setPw pw)) st.srv (.setPw pw) rfl
  | backup big =>
    simp only [step]; split
    · exact .refl _
    · exact Reach.single (A := OpAllows (.backup big)) st.srv (.backup st.bk st.ftpReq big) ⟨_, _, _, rfl⟩
  | restore d k =>
    simp only [step]; split
    · exact .refl _
    · exact Reach.single (A := OpAllows (.restore d k)) st.srv (.restore st.bk st.ftpReq (st.ftpResp && d) k) ⟨_, _, _, _, rfl⟩
  | folderDelete => exact Reach.single (A := OpAllows .folderDelete) st.srv .folderDelete rfl
  | admin a => exact Reach.single (A := OpAllows (.admin a)) st.srv (.admin a) rfl
  | dl a => exact Reach.single (A := OpAllows (.dl a)) st.srv (.dl a) rfl
  | fsr db a => exact Reach.single (A := OpAllows (.fsr db a)) st.srv (.fsr db a) rfl
  | svcInstall cfg =>
    simp only [step]
    split
    · rename_i h
      have : (st.srv.reinstall cfg).1 = (SrvEv.reinstall cfg).apply st.srv := rfl
      rw [this]
      exact Reach.single (A := OpAllows (.svcInstall cfg)) st.srv (.reinstall cfg) rfl
    · exact .refl _
    · exact .refl _
  | co k =>
    simp only [step]
    (repeat' split) <;> exact .refl _
  | bkDelete =>
    simp only [step]; split <;> exact .refl _
  | dm i q scan atk via =>
    simp only [step]; split
    · exact .refl _
    · split
      · exact .refl _
      · split
        · exact .refl _
        · exact dmAttack_reach st i q scan atk
  | ransomReq i q =>
    simp only [step]; split
    · exact .refl _
    · split
      · exact .refl _
      · exact ransom_reach st i q
  | fileDelete => exact Reach.single (A := OpAllows .fileDelete) st.srv .fileDelete rfl
  | fileCorrupt => exact Reach.single (A := OpAllows .fileCorrupt) st.srv .fileCorrupt rfl
  | fileRepair => exact Reach.single (A := OpAllows .fileRepair) st.srv .fileRepair rfl
  | power who on =>
    cases on with
    | true =>
      simp only [step]
      split
      · rename_i h0
        exact Reach.single (A := OpAllows (.power who true)) st.srv .powerOn ⟨h0, rfl⟩
      · split
        · exact .refl _
        · split <;> exact .refl _
    | false =>
      simp only [step]
      split
      · rename_i h0
        exact Reach.single (A := OpAllows (.power who false)) st.srv .powerOff ⟨h0, rfl⟩
      · split
        · exact .refl _
        · split <;> exact .refl _
  | ftps b =>
    simp only [step]
    split
    · exact .refl _
    · split <;> split <;> exact .refl _
  | block w on =>
    simp only [step]
    split
    · exact .refl _
    · split
      · exact .refl _
      · split <;> exact .refl _
  | tick big d k =>
    show Reach _ st.srv (st.tick big d k).srv
    rw [tick_srv]
    exact Reach.single (A := OpAllows (.tick big d k)) st.srv (.tick st.bk (st.t + 1) _ _ big k) ⟨_, _, _, _, _, _, rfl⟩

/-- All operation sequences. -/
theorem run_reach (st : State) (ops : List Op) :
    Reach (fun e => ∃ op ∈ ops, OpAllows op e) st.srv (run st ops).srv := by
  induction ops generalizing st with
  | nil => exact .refl _
  | cons o os ih =>
    unfold run
    exact ((step_reach st o).mono (fun e he => ⟨o, List.mem_cons_self, he⟩)).trans
      ((ih _).mono (fun e ⟨op, hm, ha⟩ => ⟨op, List.mem_cons_of_mem _ hm, ha⟩))

end Primaite.Database
