/-
Helper lemmas for `Model/FileSystem.lean`: dictionaries-as-lists (`dictSet`, `dictPop`), routes, `find?`.
-/
import PrimaiteModel.Model.FileSystem
namespace Primaite.FileSystem

variable {α : Type} (key : α → Nat)

theorem mem_dictSet {l : List α} {x y : α} :
    y ∈ dictSet key l x ↔ y = x ∨ (y ∈ l ∧ key y ≠ key x) := by
  unfold dictSet
  by_cases h : l.any (fun y => key y == key x) = true
  · rw [if_pos h]
    simp only [List.mem_map]
    constructor
    · rintro ⟨z, hz, rfl⟩
      by_cases hk : key z = key x
      · simp [hk]
      · simp [hk, hz]
    · rintro (rfl | ⟨hy, hk⟩)
      · simp only [List.any_eq_true, beq_iff_eq] at h
        obtain ⟨z, hz, hzk⟩ := h
        exact ⟨z, hz, by simp [hzk]⟩
      · exact ⟨y, hy, by simp [hk]⟩
  · rw [if_neg h]
    simp only [List.any_eq_true, beq_iff_eq, not_exists, not_and] at h
    simp only [List.mem_append, List.mem_singleton]
    constructor
    · rintro (hy | rfl)
      · exact Or.inr ⟨hy, h y hy⟩
      · exact Or.inl rfl
    · rintro (rfl | ⟨hy, _⟩)
      · exact Or.inr rfl
      · exact Or.inl hy

theorem map_key_dictSet {l : List α} {x : α} :
    (dictSet key l x).map key = if l.any (fun y => key y == key x) then l.map key else l.map key ++ [key x] := by
  unfold dictSet
  split
  · simp only [List.map_map]
    apply List.map_congr_left
    intro a _
    by_cases hk : key a = key x <;> simp [hk]
  · simp

theorem nodup_dictSet {l : List α} {x : α} (h : (l.map key).Nodup) : ((dictSet key l x).map key).Nodup := by
  rw [map_key_dictSet]
  split
  · exact h
  · rename_i hn
    simp only [List.any_eq_true, beq_iff_eq, not_exists, not_and] at hn
    rw [List.nodup_append]
    refine ⟨h, by simp, ?_⟩
    intro a ha b hb
    simp only [List.mem_singleton] at hb
    simp only [List.mem_map] at ha
    obtain ⟨z, hz, rfl⟩ := ha
    subst hb
    exact hn z hz

theorem mem_dictPop {l : List α} {k : Nat} {y : α} : y ∈ dictPop key l k ↔ y ∈ l ∧ key y ≠ k := by
  simp [dictPop]

theorem nodup_dictPop {l : List α} {k : Nat} (h : (l.map key).Nodup) : ((dictPop key l k).map key).Nodup :=
  List.Nodup.sublist (List.Sublist.map _ List.filter_sublist) h

/-- Two members of a list with distinct keys that carry the same key are equal. -/
theorem eq_of_key_eq {l : List α} (h : (l.map key).Nodup) {a b : α} (ha : a ∈ l) (hb : b ∈ l)
    (hk : key a = key b) : a = b := by
  induction l with
  | nil => cases ha
  | cons c t ih =>
    simp only [List.map_cons, List.nodup_cons, List.mem_map, not_exists, not_and] at h
    simp only [List.mem_cons] at ha hb
    rcases ha with rfl | ha <;> rcases hb with rfl | hb
    · rfl
    · exact absurd hk.symm (h.1 b hb)
    · exact absurd hk (h.1 a ha)
    · exact ih h.2 ha hb

/-- `d[x.key] = x` for the object already stored under that key changes nothing. -/
theorem dictSet_self {l : List α} (h : (l.map key).Nodup) {x : α} (hx : x ∈ l) : dictSet key l x = l := by
  unfold dictSet
  have : l.any (fun y => key y == key x) = true := by
    simp only [List.any_eq_true, beq_iff_eq]; exact ⟨x, hx, rfl⟩
  rw [if_pos this]
  conv => rhs; rw [← List.map_id l]
  apply List.map_congr_left
  intro a ha
  by_cases hk : key a = key x
  · simp [eq_of_key_eq key h ha hx hk]
  · simp [hk]

/-- Replacing "the element with key k" by itself. -/
theorem map_replace_self {l : List α} (h : (l.map key).Nodup) {x : α} (hx : x ∈ l) :
    l.map (fun y => if key y == key x then x else y) = l := by
  conv => rhs; rw [← List.map_id l]
  apply List.map_congr_left
  intro a ha
  by_cases hk : key a = key x
  · simp [eq_of_key_eq key h ha hx hk]
  · simp [hk]

theorem map_replace_absent {l : List α} {k : Nat} {x : α} (h : ∀ y ∈ l, key y ≠ k) :
    l.map (fun y => if key y == k then x else y) = l := by
  conv => rhs; rw [← List.map_id l]
  apply List.map_congr_left
  intro a ha
  simp [h a ha]

/-- Names are unique as a list once keys are distinct and names determine keys. -/
theorem nodup_map_of_inj {β : Type} (nm : α → β) {l : List α} (h : (l.map key).Nodup)
    (hinj : ∀ a ∈ l, ∀ b ∈ l, nm a = nm b → key a = key b) : (l.map nm).Nodup := by
  induction l with
  | nil => simp
  | cons c t ih =>
    simp only [List.map_cons, List.nodup_cons, List.mem_map, not_exists, not_and] at h ⊢
    refine ⟨?_, ih h.2 (fun a ha b hb => hinj a (List.mem_cons_of_mem _ ha) b (List.mem_cons_of_mem _ hb))⟩
    intro z hz hzn
    exact h.1 z hz (hinj z (List.mem_cons_of_mem _ hz) c (List.mem_cons_self ..) hzn)

theorem lookupRoute_cons (n m : Name) (i : Nat) (r : Routes) :
    lookupRoute ((n, i) :: r) m = if n = m then some i else lookupRoute r m := by
  unfold lookupRoute
  by_cases h : n = m <;> simp [h]

end Primaite.FileSystem
