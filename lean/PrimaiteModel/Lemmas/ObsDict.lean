/-
Generic facts about `contains` on dictionaries built in parallel (same keys, same order) — used by C02.
-/
import PrimaiteModel.Model.Obs
namespace Primaite.Obs

/-- space entries and value entries with the same keys in the same order, each value contained in its space -/
inductive Par : List (Key × Space) → List (Key × Val) → Prop
  | nil : Par [] []
  | cons {k s v ss vs} : contains s v = true → Par ss vs → Par ((k, s) :: ss) ((k, v) :: vs)

theorem keysOf_cons {α} (p : Key × α) (l : List (Key × α)) : keysOf (p :: l) = p.1 :: keysOf l := rfl
theorem keysOf_nil {α} : keysOf ([] : List (Key × α)) = [] := rfl
theorem keysOf_append {α} (a b : List (Key × α)) : keysOf (a ++ b) = keysOf a ++ keysOf b := by
  simp [keysOf]
theorem keysOf_optEntry {α} (c : Bool) (k : Key) (v : α) : keysOf (optEntry c k v) = if c then [k] else [] := by
  cases c <;> rfl

theorem Par.keys {ss vs} (h : Par ss vs) : keysOf ss = keysOf vs := by
  induction h with
  | nil => rfl
  | cons _ _ ih => simp [keysOf_cons, ih]

theorem Par.append {a b c d} (h1 : Par a b) (h2 : Par c d) : Par (a ++ c) (b ++ d) := by
  induction h1 with
  | nil => simpa using h2
  | cons hc _ ih => exact Par.cons hc ih

theorem Par.single {k s v} (h : contains s v = true) : Par [(k, s)] [(k, v)] := Par.cons h Par.nil

theorem Par.opt (c : Bool) (k : Key) {s v} (h : c = true → contains s v = true) : Par (optEntry c k s) (optEntry c k v) := by
  cases c
  · exact Par.nil
  · exact Par.single (h rfl)

theorem Par.enumFrom {α} (f : α → Space) (g : α → Val) (xs : List α) (k : Nat)
    (h : ∀ x ∈ xs, contains (f x) (g x) = true) : Par (enumFrom k (xs.map f)) (enumFrom k (xs.map g)) := by
  induction xs generalizing k with
  | nil => exact Par.nil
  | cons x xs ih =>
    simp only [List.map_cons, Obs.enumFrom]
    exact Par.cons (h x (by simp)) (ih (k + 1) (fun y hy => h y (by simp [hy])))

theorem Par.enumTag {α} (p : String) (f : α → Space) (g : α → Val) (xs : List α) (k : Nat)
    (h : ∀ x ∈ xs, contains (f x) (g x) = true) : Par (enumTag p k (xs.map f)) (enumTag p k (xs.map g)) := by
  induction xs generalizing k with
  | nil => exact Par.nil
  | cons x xs ih =>
    simp only [List.map_cons, Obs.enumTag]
    exact Par.cons (h x (by simp)) (ih (k + 1) (fun y hy => h y (by simp [hy])))

theorem Par.map {α} (key : α → Key) (f : α → Space) (g : α → Val) (xs : List α)
    (h : ∀ x ∈ xs, contains (f x) (g x) = true) :
    Par (xs.map (fun x => (key x, f x))) (xs.map (fun x => (key x, g x))) := by
  induction xs with
  | nil => exact Par.nil
  | cons x xs ih =>
    simp only [List.map_cons]
    exact Par.cons (h x (by simp)) (ih (fun y hy => h y (by simp [hy])))

theorem lookupK_append_of_not_mem {α} (k : Key) (pre rest : List (Key × α)) (h : k ∉ keysOf pre) :
    lookupK k (pre ++ rest) = lookupK k rest := by
  induction pre with
  | nil => rfl
  | cons p pre ih =>
    obtain ⟨k', v⟩ := p
    simp only [keysOf_cons, List.mem_cons, not_or] at h
    simp only [List.cons_append, lookupK, h.1, if_false]
    exact ih h.2

theorem containsAll_of_par {ss vs} (h : Par ss vs) :
    ∀ pre : List (Key × Val), (∀ k ∈ keysOf ss, k ∉ keysOf pre) → (keysOf ss).Nodup →
      containsAll ss (pre ++ vs) = true := by
  induction h with
  | nil => intro pre _ _; simp [containsAll]
  | @cons k s v ss vs hc _ ih =>
    intro pre hdis hnd
    simp only [keysOf_cons, List.nodup_cons] at hnd
    have hk : k ∉ keysOf pre := hdis k (by simp [keysOf_cons])
    have hl : lookupK k (pre ++ (k, v) :: vs) = some v := by
      rw [lookupK_append_of_not_mem k pre _ hk]; simp [lookupK]
    simp only [containsAll, hl, hc, Bool.true_and]
    have := ih (pre ++ [(k, v)]) (by
      intro k' hk'
      simp only [keysOf_append, keysOf_cons, keysOf_nil, List.mem_append, List.mem_singleton, not_or]
      refine ⟨hdis k' (by simp [keysOf_cons, hk']), ?_⟩
      intro he; subst he; exact hnd.1 hk') hnd.2
    simpa using this

/-- The structural composition rule of C02: a dictionary is contained as soon as it is built in parallel with the space
from contained children under distinct keys. -/
theorem contains_dict_of_par {ss vs} (h : Par ss vs) (hnd : (keysOf ss).Nodup) :
    contains (.dict ss) (.dict vs) = true := by
  have h1 := containsAll_of_par h [] (by intro k _; simp [keysOf]) hnd
  simp only [List.nil_append] at h1
  simp only [contains, h1, Bool.and_true, List.all_eq_true, List.contains_iff_mem, ← h.keys]
  intro k hk; simpa using hk

theorem keysOf_enumFrom {α} (k : Nat) (xs : List α) : keysOf (enumFrom k xs) = (List.range' k xs.length).map Key.n := by
  induction xs generalizing k with
  | nil => rfl
  | cons x xs ih => simp [Obs.enumFrom, keysOf_cons, ih, List.range'_succ]

theorem nodup_keys_enumFrom {α} (k : Nat) (xs : List α) : (keysOf (enumFrom k xs)).Nodup := by
  rw [keysOf_enumFrom]
  exact List.Pairwise.map _ (fun a b (h : a ≠ b) he => h (by injection he)) (List.nodup_range' (step := 1) (by omega))

theorem keysOf_enumTag {α} (p : String) (k : Nat) (xs : List α) :
    keysOf (enumTag p k xs) = (List.range' k xs.length).map (Key.si p) := by
  induction xs generalizing k with
  | nil => rfl
  | cons x xs ih => simp [Obs.enumTag, keysOf_cons, ih, List.range'_succ]

theorem nodup_keys_enumTag {α} (p : String) (k : Nat) (xs : List α) : (keysOf (enumTag p k xs)).Nodup := by
  rw [keysOf_enumTag]
  exact List.Pairwise.map _ (fun a b (h : a ≠ b) he => h (by injection he)) (List.nodup_range' (step := 1) (by omega))

theorem lookupS_mem {α} {k : String} {l : List (String × α)} {v : α} (h : lookupS k l = some v) : (k, v) ∈ l := by
  induction l with
  | nil => simp [lookupS] at h
  | cons p l ih =>
    obtain ⟨k', v'⟩ := p
    simp only [lookupS] at h
    by_cases hk : k = k'
    · simp only [hk, if_true, Option.some.injEq] at h; subst h; simp [hk]
    · simp only [hk, if_false] at h; exact List.mem_cons_of_mem _ (ih h)

theorem lookupN_mem {α} {k : Nat} {l : List (Nat × α)} {v : α} (h : lookupN k l = some v) : (k, v) ∈ l := by
  induction l with
  | nil => simp [lookupN] at h
  | cons p l ih =>
    obtain ⟨k', v'⟩ := p
    simp only [lookupN] at h
    by_cases hk : k = k'
    · simp only [hk, if_true, Option.some.injEq] at h; subst h; simp [hk]
    · simp only [hk, if_false] at h; exact List.mem_cons_of_mem _ (ih h)

end Primaite.Obs
