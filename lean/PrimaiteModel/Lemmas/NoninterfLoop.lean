/-
C03 — the loop language: a well-formed loop is a permutation-invariant consumer, for every interpretation of the pure functions.
-/
import PrimaiteModel.Model.NoninterfLoop
import PrimaiteModel.Lemmas.NoninterfSites

namespace Primaite.Noninterf.LoopIR

def Agree (A : List String) (s s' : Store) : Prop := ∀ v, v ∈ A → s.get v = s'.get v

theorem Expr.eval_agree (P : Prims) (x : Nat) (A : List String) (s s' : Store) (h : Agree A s s') :
    ∀ e : Expr, e.readsOk A = true → e.eval P x s = e.eval P x s'
  | .const _, _ => rfl
  | .elem, _ => rfl
  | .var v, hr => by
    simp only [Expr.readsOk, List.contains_iff_mem] at hr
    exact h v hr
  | .app1 f a, hr => by
    simp only [Expr.readsOk] at hr
    simp only [Expr.eval, Expr.eval_agree P x A s s' h a hr]
  | .app2 f a b, hr => by
    simp only [Expr.readsOk, Bool.and_eq_true] at hr
    simp only [Expr.eval, Expr.eval_agree P x A s s' h a hr.1, Expr.eval_agree P x A s s' h b hr.2]

theorem get_cons (s : Store) (v w : String) (n : Nat) :
    Store.get ((v, n) :: s) w = if w = v then n else s.get w := by
  unfold Store.get
  by_cases h : w = v
  · subst h; simp [List.lookup]
  · have : (w == v) = false := by simpa using h
    simp [List.lookup, this, h]

/-- Two stores that agree on the locals assigned so far give the same emits and agree on the locals assigned afterwards. -/
theorem Stmt.exec_agree (P : Prims) (x : Nat) :
    ∀ (b : Stmt) (A : List String) (s s' : Store), Agree A s s' → b.readsOk A = true →
      (b.exec P x s).2 = (b.exec P x s').2 ∧ Agree (b.defs A) (b.exec P x s).1 (b.exec P x s').1
  | .skip, A, s, s', h, _ => ⟨rfl, h⟩
  | .assign v e, A, s, s', h, hr => by
    simp only [Stmt.readsOk] at hr
    refine ⟨rfl, ?_⟩
    intro w hw
    simp only [Stmt.exec, get_cons, Expr.eval_agree P x A s s' h e hr]
    by_cases hwv : w = v
    · simp [hwv]
    · simp only [hwv, if_false]
      simp only [Stmt.defs, List.mem_cons] at hw
      rcases hw with hw | hw
      · exact absurd hw hwv
      · exact h w hw
  | .seq a b, A, s, s', h, hr => by
    simp only [Stmt.readsOk, Bool.and_eq_true] at hr
    have ha := Stmt.exec_agree P x a A s s' h hr.1
    have hb := Stmt.exec_agree P x b (a.defs A) _ _ ha.2 hr.2
    exact ⟨by simp only [Stmt.exec, ha.1, hb.1], hb.2⟩
  | .ite c t e, A, s, s', h, hr => by
    simp only [Stmt.readsOk, Bool.and_eq_true] at hr
    have hc := Expr.eval_agree P x A s s' h c hr.1.1
    have ht := Stmt.exec_agree P x t A s s' h hr.1.2
    have he := Stmt.exec_agree P x e A s s' h hr.2
    simp only [Stmt.exec, hc]
    by_cases hz : c.eval P x s' ≠ 0
    · simp only [if_pos hz]
      refine ⟨ht.1, fun w hw => ht.2 w ?_⟩
      simp only [Stmt.defs, List.mem_filter] at hw
      exact hw.1
    · simp only [if_neg hz]
      refine ⟨he.1, fun w hw => he.2 w ?_⟩
      simp only [Stmt.defs, List.mem_filter, List.contains_iff_mem] at hw
      exact hw.2
  | .emit acc k v, A, s, s', h, hr => by
    simp only [Stmt.readsOk, Bool.and_eq_true] at hr
    exact ⟨by simp only [Stmt.exec, Expr.eval_agree P x A s s' h k hr.1, Expr.eval_agree P x A s s' h v hr.2], h⟩

/-- the emits of ONE iteration, as a function of the element alone -/
def iterEmits (P : Prims) (body : Stmt) (x : Nat) : List Emit := (body.exec P x []).2

/-- Without loop-carried locals the loop is a `flatMap` of a function of the element. -/
theorem runLoop_eq_flatMap (P : Prims) (body : Stmt) (h : body.readsOk [] = true) :
    ∀ (l : List Nat) (s : Store), runLoop P body l s = l.flatMap (iterEmits P body)
  | [], _ => rfl
  | x :: t, s => by
    have h1 := (Stmt.exec_agree P x body [] s [] (fun _ hv => by simp at hv) h).1
    simp only [runLoop, List.flatMap_cons, iterEmits, h1, runLoop_eq_flatMap P body h t]

theorem accOf_flatMap (acc : String) (F : Nat → List Emit) (l : List Nat) :
    accOf acc (l.flatMap F) = l.flatMap fun x => accOf acc (F x) := by
  induction l with
  | nil => rfl
  | cons a t ih =>
    simp only [List.flatMap_cons, ← ih]
    simp [accOf]

theorem keyedByElem_exec (P : Prims) (x : Nat) (acc : String) :
    ∀ (b : Stmt) (s : Store), b.keyedByElem acc = true → ∀ e ∈ accOf acc (b.exec P x s).2, e.1 = x
  | .skip, _, _ => by simp [Stmt.exec, accOf]
  | .assign _ _, _, _ => by simp [Stmt.exec, accOf]
  | .seq a b, s, h => by
    simp only [Stmt.keyedByElem, Bool.and_eq_true] at h
    intro e he
    have : accOf acc ((Stmt.seq a b).exec P x s).2 =
        accOf acc (a.exec P x s).2 ++ accOf acc (b.exec P x (a.exec P x s).1).2 := by
      simp [Stmt.exec, accOf]
    rw [this, List.mem_append] at he
    rcases he with he | he
    · exact keyedByElem_exec P x acc a s h.1 e he
    · exact keyedByElem_exec P x acc b _ h.2 e he
  | .ite c t e, s, h => by
    simp only [Stmt.keyedByElem, Bool.and_eq_true] at h
    intro e' he
    simp only [Stmt.exec] at he
    by_cases hz : c.eval P x s ≠ 0
    · simp only [if_pos hz] at he; exact keyedByElem_exec P x acc t s h.1 e' he
    · simp only [if_neg hz] at he; exact keyedByElem_exec P x acc e s h.2 e' he
  | .emit a k v, s, h => by
    intro e he
    simp only [Stmt.keyedByElem, Bool.or_eq_true, bne_iff_ne, ne_eq, beq_iff_eq] at h
    by_cases ha : a = acc
    · rcases h with h | h
      · exact absurd ha h
      · subst h
        simp [Stmt.exec, accOf, ha, Expr.eval] at he
        rw [he]
    · have : (a == acc) = false := by simpa using ha
      simp [Stmt.exec, accOf, this] at he

/-- a `flatMap` whose pieces are empty except at `k` only depends on how often `k` occurs -/
theorem flatMap_only_at (G : Nat → List (Nat × Nat)) (k : Nat) (hG : ∀ x, x ≠ k → G x = []) :
    ∀ l : List Nat, l.flatMap G = (List.replicate (l.count k) (G k)).flatten
  | [] => rfl
  | a :: t => by
    by_cases h : a = k
    · subst h
      simp [List.flatMap_cons, flatMap_only_at G a hG t, List.replicate_succ]
    · have hc : (a :: t).count k = t.count k := by
        simp [h]
      simp [List.flatMap_cons, hG a h, flatMap_only_at G k hG t, hc]

theorem observe_invariant (keys : List Nat) (u : Use) (G : Nat → List (Nat × Nat)) (hu : u ≠ .ordered)
    (hk : u = .byKey → ∀ x, ∀ e ∈ G x, e.1 = x) (l l' : List Nat) (h : l.Perm l') :
    observe keys u (l.flatMap G) = observe keys u (l'.flatMap G) := by
  have hp : (l.flatMap G).Perm (l'.flatMap G) := h.flatMap_right G
  cases u with
  | asSet => exact canonSet_invariant _ _ (hp.map _)
  | asSorted => exact sortedIter_invariant _ _ (hp.map _)
  | lenOnly => simp only [observe, hp.length_eq]
  | dropped => rfl
  | ordered => exact absurd rfl hu
  | byKey =>
    simp only [observe]
    apply List.map_congr_left
    intro k _
    have hG : ∀ x, x ≠ k → (G x).filter (fun e => e.1 == k) = [] := by
      intro x hx
      apply List.filter_eq_nil_iff.mpr
      intro e he
      have := hk rfl x e he
      simp only [beq_iff_eq]
      omega
    have e1 : ∀ m : List Nat, (m.flatMap G).filter (fun e => e.1 == k) =
        (List.replicate (m.count k) ((G k).filter fun e => e.1 == k)).flatten := by
      intro m
      rw [List.filter_flatMap]
      exact flatMap_only_at (fun x => (G x).filter fun e => e.1 == k) k hG m
    rw [e1 l, e1 l', h.count_eq]

theorem flatMap_congr_mem {α β : Type} (f g : α → List β) :
    ∀ l : List α, (∀ a ∈ l, f a = g a) → l.flatMap f = l.flatMap g
  | [], _ => rfl
  | a :: t, h => by
    simp only [List.flatMap_cons, h a (List.mem_cons_self ..),
      flatMap_congr_mem f g t fun b hb => h b (List.mem_cons_of_mem _ hb)]

/-- MAIN LEMMA: a well-formed loop is permutation-invariant, whatever the pure functions compute. -/
theorem wellFormed_invariant (P : Prims) (keys : List Nat) (p : Loop) (hw : p.wellFormed = true) :
    Invariant (p.consumer P keys) := by
  intro l l' h
  simp only [Loop.wellFormed, Bool.and_eq_true, List.all_eq_true] at hw
  obtain ⟨⟨hr, _⟩, hu⟩ := hw
  unfold Loop.consumer
  rw [runLoop_eq_flatMap P p.body hr, runLoop_eq_flatMap P p.body hr]
  apply flatMap_congr_mem
  intro u hmem
  have hu' := hu u hmem
  simp only [bne_iff_ne, ne_eq, Bool.or_eq_true] at hu'
  rw [accOf_flatMap, accOf_flatMap]
  refine observe_invariant keys u.2 _ hu'.1 ?_ l l' h
  intro hb x e he
  rcases hu'.2 with h2 | h2
  · exact absurd hb h2
  · exact keyedByElem_exec P x u.1 p.body [] h2 e he

end Primaite.Noninterf.LoopIR
