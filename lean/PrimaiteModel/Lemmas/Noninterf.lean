/-
Helper lemmas for C03: independence of the interpreter from the opaque environment, canonical numbering under an
injective renaming, the relational run lemma, and the permutation-invariance of each modelled set consumer.
-/
import PrimaiteModel.Model.Noninterf

namespace Primaite.Noninterf

/-! ## environments -/

theorem Rho.Valid.shift {ι : Type} {ρ : Rho ι} (h : ρ.Valid) (a b c d : Nat) : (ρ.shift a b c d).Valid where
  inj := by
    intro i j hij
    have := h.inj _ _ hij
    omega
  isPerm := fun k l => h.isPerm (c + k) l

theorem StampLenAgree.shift {ι ι' : Type} {g : Fixed} {ρ : Rho ι} {ρ' : Rho ι'} (h : StampLenAgree g ρ ρ')
    (a b c d a' b' c' d' : Nat) : StampLenAgree g (ρ.shift a b c d) (ρ'.shift a' b' c' d') :=
  fun k k' => h (b + k) (b' + k')

theorem Prog.Safe.mono {α : Type} {S : Fam → Bool} {P Q : Prop} (hPQ : P → Q) : ∀ {p : Prog α}, p.Safe S P → p.Safe S Q
  | .ret _, _ => trivial
  | .fresh _, h => fun x => Prog.Safe.mono hPQ (h x)
  | .idEq _ _ _, h => fun x => Prog.Safe.mono hPQ (h x)
  | .now _, h => fun x => Prog.Safe.mono hPQ (h x)
  | .frameSize _ _ _, h => ⟨h.1.imp id hPQ, fun x => Prog.Safe.mono hPQ (h.2 x)⟩
  | .iterSet _ _ _, h => ⟨h.1, fun x => Prog.Safe.mono hPQ (h.2 x)⟩
  | .rand _ _ _, h => ⟨h.1, fun x => Prog.Safe.mono hPQ (h.2 x)⟩

/-! ## the interpreter cannot observe `ρ` -/

/-- **Key lemma.** A safe program (all draws from families the code seeds) computes the same result and leaves the same
world under any two valid environments (of possibly different identifier types, with ANY two entropy streams) whose
readings have texts of equal length. -/
theorem interp_indep {ι ι' : Type} [DecidableEq ι] [DecidableEq ι'] (g : Fixed) {ρ : Rho ι} {ρ' : Rho ι'}
    (hv : ρ.Valid) (hv' : ρ'.Valid) {α : Type} :
    ∀ (p : Prog α) (w : World), p.Safe g.seeds (StampLenAgree g ρ ρ') → interp g ρ p w = interp g ρ' p w
  | .ret _, _, _ => rfl
  | .fresh k, w, h => by
    simp only [interp]
    exact interp_indep g hv hv' (k w.nid) _ (h _)
  | .idEq a b k, w, h => by
    simp only [interp]
    have e : decide (ρ.uuid a = ρ.uuid b) = decide (ρ'.uuid a = ρ'.uuid b) := by
      by_cases hab : a = b
      · subst hab; simp
      · have h1 : ρ.uuid a ≠ ρ.uuid b := fun e => hab (hv.inj _ _ e)
        have h2 : ρ'.uuid a ≠ ρ'.uuid b := fun e => hab (hv'.inj _ _ e)
        simp [h1, h2]
    rw [e]
    exact interp_indep g hv hv' _ w (h _)
  | .now k, w, h => by
    simp only [interp]
    exact interp_indep g hv hv' (k w.nst) _ (h _)
  | .frameSize base hs k, w, h => by
    simp only [interp]
    have e : (hs.map fun x => g.textLen (ρ.stamp x)) = (hs.map fun x => g.textLen (ρ'.stamp x)) := by
      rcases h.1 with rfl | hP
      · rfl
      · exact List.map_congr_left (fun x _ => hP x x)
    rw [e]
    exact interp_indep g hv hv' _ w (h.2 _)
  | .iterSet c l k, w, h => by
    simp only [interp]
    have e : c (ρ.perm w.nperm l) = c (ρ'.perm w.nperm l) :=
      h.1 _ _ ((hv.isPerm _ l).trans (hv'.isPerm _ l).symm)
    rw [e]
    exact interp_indep g hv hv' _ _ (h.2 _)
  | .rand f n k, w, h => by
    simp only [interp, h.1, if_true]
    exact interp_indep g hv hv' _ _ (h.2 _)

/-! ## canonical numbering -/

theorem Tok.map_map {ι κ μ : Type} (f : ι → κ) (h : κ → μ) (t : Tok ι) : (t.map f).map h = t.map (h ∘ f) := by
  cases t <;> rfl

theorem idxOf_map_inj {ι κ : Type} [DecidableEq ι] [DecidableEq κ] (f : ι → κ) (hf : ∀ a b, f a = f b → a = b)
    (i : ι) : ∀ (l : List ι), (l.map f).idxOf (f i) = l.idxOf i
  | [] => rfl
  | a :: t => by
    simp only [List.map_cons, List.idxOf_cons, idxOf_map_inj f hf i t]
    by_cases h : a = i
    · subst h; simp
    · have h' : f a ≠ f i := fun e => h (hf _ _ e)
      have b1 : (a == i) = false := by simpa using h
      have b2 : (f a == f i) = false := by simpa using h'
      rw [b1, b2]

theorem mem_map_inj {ι κ : Type} (f : ι → κ) (hf : ∀ a b, f a = f b → a = b) (i : ι) (l : List ι) :
    f i ∈ l.map f ↔ i ∈ l := by
  constructor
  · intro h
    obtain ⟨a, ha, e⟩ := List.mem_map.mp h
    exact hf _ _ e ▸ ha
  · exact fun h => List.mem_map.mpr ⟨i, h, rfl⟩

/-- Renaming the identifiers injectively does not change the canonical form (and the `seen` list is renamed along). -/
theorem canonToks_map_inj {ι κ : Type} [DecidableEq ι] [DecidableEq κ] (f : ι → κ) (hf : ∀ a b, f a = f b → a = b) :
    ∀ (l : List (Tok ι)) (seen : List ι),
      canonToks (seen.map f) (l.map (Tok.map f)) = (((canonToks seen l).1).map f, (canonToks seen l).2)
  | [], _ => rfl
  | .val n :: t, seen => by
    simp only [List.map_cons, Tok.map, canonToks, canonToks_map_inj f hf t seen]
  | .ident i :: t, seen => by
    simp only [List.map_cons, Tok.map, canonToks, mem_map_inj f hf]
    by_cases h : i ∈ seen
    · simp only [h, if_true, canonToks_map_inj f hf t seen, idxOf_map_inj f hf]
    · have e : seen.map f ++ [f i] = (seen ++ [i]).map f := by simp
      simp only [h, if_false, e, canonToks_map_inj f hf t (seen ++ [i]), List.length_map]

theorem canonRun_map_inj {ι κ : Type} [DecidableEq ι] [DecidableEq κ] (f : ι → κ) (hf : ∀ a b, f a = f b → a = b) :
    ∀ (ls : List (List (Tok ι))) (seen : List ι),
      canonRun (seen.map f) (ls.map (fun l => l.map (Tok.map f))) = canonRun seen ls
  | [], _ => rfl
  | l :: ls, seen => by
    simp only [List.map_cons, canonRun, canonToks_map_inj f hf l seen, canonRun_map_inj f hf ls]

/-! ## the relational run lemma -/

/-- Every program the simulator can produce is safe. -/
structure Sim.Safe {Cfg σ Act : Type} (sim : Sim Cfg σ Act) (S : Fam → Bool) (P : Prop) : Prop where
  construct : ∀ c, (sim.construct c).Safe S P
  rebuild : ∀ c, (sim.rebuild c).Safe S P
  step : ∀ s a, (sim.step s a).Safe S P

/-- Visible state of a process: everything except which part of `ρ` it is looking at. -/
def Proc.Agree {σ : Type} (p p' : Proc σ) : Prop := p.episode = p'.episode ∧ p.st = p'.st ∧ p.w = p'.w

theorem tokmap_shift {ι : Type} (u : Nat → ι) (b d : Nat) (l : List (Tok Nat)) :
    l.map (Tok.map fun n => u (b + d + n)) = (l.map (Tok.map fun n => d + n)).map (Tok.map fun n => u (b + n)) := by
  simp only [List.map_map]
  apply List.map_congr_left
  intro t _
  cases t with
  | val n => rfl
  | ident i => simp [Tok.map, Nat.add_assoc]

/-- One operation, two processes that agree on their visible state (whatever environments they run in, wherever in
them): they agree afterwards, both moved their identifier base by the same `d`, and their raw outputs are the images of
ONE symbolic output under each process's own naming `n ↦ ρ.uuid (baseId + n)`. -/
theorem opStep_rel {ι ι' Cfg σ Act : Type} [DecidableEq ι] [DecidableEq ι'] (g : Fixed) {ρ : Rho ι} {ρ' : Rho ι'}
    (hv : ρ.Valid) (hv' : ρ'.Valid) (sim : Sim Cfg σ Act) (sched : Nat → Cfg)
    (hs : sim.Safe g.seeds (StampLenAgree g ρ ρ')) (o : Op Act) (p p' : Proc σ) (ha : p.Agree p') :
    (opStep g ρ sim sched p o).1.Agree (opStep g ρ' sim sched p' o).1 ∧
    ∃ (d : Nat) (sym : List (Tok Nat)),
      (opStep g ρ sim sched p o).1.baseId = p.baseId + d ∧ (opStep g ρ' sim sched p' o).1.baseId = p'.baseId + d ∧
      (opStep g ρ sim sched p o).2 = sym.map (Tok.map fun n => ρ.uuid (p.baseId + n)) ∧
      (opStep g ρ' sim sched p' o).2 = sym.map (Tok.map fun n => ρ'.uuid (p'.baseId + n)) := by
  obtain ⟨he, hst, hw⟩ := ha
  cases o with
  | step a =>
    have hsafe : (sim.step p.st a).Safe g.seeds (StampLenAgree g (p.rho ρ) (p'.rho ρ')) :=
      Prog.Safe.mono (fun h => h.shift _ _ _ _ _ _ _ _) (hs.step p.st a)
    have e : interp g (p.rho ρ) (sim.step p.st a) p.w = interp g (p'.rho ρ') (sim.step p.st a) p.w :=
      interp_indep g (hv.shift p.baseId p.baseSt p.basePerm p.baseEnt) (hv'.shift p'.baseId p'.baseSt p'.basePerm p'.baseEnt)
        (sim.step p.st a) p.w hsafe
    simp only [opStep, doStep, ← hst, ← hw]
    refine ⟨⟨he, by rw [e], by rw [e]⟩, 0, (interp g (p.rho ρ) (sim.step p.st a) p.w).1.2, rfl, rfl, rfl, ?_⟩
    rw [e]; rfl
  | foreign f =>
    simp only [opStep, doForeign, ← hw]
    exact ⟨⟨he, hst, rfl⟩, 0, [], rfl, rfl, rfl, rfl⟩
  | reset seed =>
    have hsafe : (sim.rebuild (sched (p.episode + 1))).Safe g.seeds (StampLenAgree g (p.rebase.rho ρ) (p'.rebase.rho ρ')) :=
      Prog.Safe.mono (fun h => h.shift _ _ _ _ _ _ _ _) (hs.rebuild _)
    have e : interp g (p.rebase.rho ρ) (sim.rebuild (sched (p.episode + 1))) { rng := resetRng g seed p.w } =
        interp g (p'.rebase.rho ρ') (sim.rebuild (sched (p.episode + 1))) { rng := resetRng g seed p.w } :=
      interp_indep g (hv.shift p.rebase.baseId p.rebase.baseSt p.rebase.basePerm p.rebase.baseEnt)
        (hv'.shift p'.rebase.baseId p'.rebase.baseSt p'.rebase.basePerm p'.rebase.baseEnt)
        (sim.rebuild (sched (p.episode + 1))) { rng := resetRng g seed p.w } hsafe
    simp only [opStep, doReset, ← he, ← hw]
    refine ⟨⟨rfl, by rw [e], by rw [e]⟩, p.w.nid,
      ((interp g (p.rebase.rho ρ) (sim.rebuild (sched (p.episode + 1))) { rng := resetRng g seed p.w }).1.2).map
        (Tok.map fun n => p.w.nid + n), rfl, ?_, ?_, ?_⟩
    · simp only [Proc.rebase, ← hw]
    · exact tokmap_shift ρ.uuid p.baseId p.w.nid _
    · rw [← e]
      have := tokmap_shift ρ'.uuid p'.baseId p.w.nid
        (interp g (p.rebase.rho ρ) (sim.rebuild (sched (p.episode + 1))) { rng := resetRng g seed p.w }).1.2
      simpa only [Proc.rebase, Proc.rho, Rho.shift, ← hw] using this

/-- The same, for a whole operation list. -/
theorem runOps_rel {ι ι' Cfg σ Act : Type} [DecidableEq ι] [DecidableEq ι'] (g : Fixed) {ρ : Rho ι} {ρ' : Rho ι'}
    (hv : ρ.Valid) (hv' : ρ'.Valid) (sim : Sim Cfg σ Act) (sched : Nat → Cfg)
    (hs : sim.Safe g.seeds (StampLenAgree g ρ ρ')) :
    ∀ (ops : List (Op Act)) (p p' : Proc σ), p.Agree p' →
      ∃ syms : List (List (Tok Nat)),
        runOps g ρ sim sched p ops = syms.map (fun l => l.map (Tok.map fun n => ρ.uuid (p.baseId + n))) ∧
        runOps g ρ' sim sched p' ops = syms.map (fun l => l.map (Tok.map fun n => ρ'.uuid (p'.baseId + n)))
  | [], _, _, _ => ⟨[], rfl, rfl⟩
  | o :: ops, p, p', ha => by
    obtain ⟨ha', d, sym, hb, hb', ho, ho'⟩ := opStep_rel g hv hv' sim sched hs o p p' ha
    obtain ⟨syms, h1, h2⟩ := runOps_rel g hv hv' sim sched hs ops _ _ ha'
    refine ⟨sym :: syms.map (fun l => l.map (Tok.map fun n => d + n)), ?_, ?_⟩
    · simp only [runOps, List.map_cons, ho, h1, hb, List.map_map]
      refine congrArg _ (List.map_congr_left fun l _ => ?_)
      exact tokmap_shift ρ.uuid p.baseId d l
    · simp only [runOps, List.map_cons, ho', h2, hb', List.map_map]
      refine congrArg _ (List.map_congr_left fun l _ => ?_)
      exact tokmap_shift ρ'.uuid p'.baseId d l

/-- Canonical trajectories of two agreeing processes coincide. -/
theorem canon_runOps_eq {ι ι' Cfg σ Act : Type} [DecidableEq ι] [DecidableEq ι'] (g : Fixed) {ρ : Rho ι} {ρ' : Rho ι'}
    (hv : ρ.Valid) (hv' : ρ'.Valid) (sim : Sim Cfg σ Act) (sched : Nat → Cfg)
    (hs : sim.Safe g.seeds (StampLenAgree g ρ ρ')) (ops : List (Op Act)) (p p' : Proc σ) (ha : p.Agree p') :
    canonRun [] (runOps g ρ sim sched p ops) = canonRun [] (runOps g ρ' sim sched p' ops) := by
  obtain ⟨syms, h1, h2⟩ := runOps_rel g hv hv' sim sched hs ops p p' ha
  rw [h1, h2]
  have i1 : ∀ a b, ρ.uuid (p.baseId + a) = ρ.uuid (p.baseId + b) → a = b := fun a b e => by
    have := hv.inj _ _ e; omega
  have i2 : ∀ a b, ρ'.uuid (p'.baseId + a) = ρ'.uuid (p'.baseId + b) → a = b := fun a b e => by
    have := hv'.inj _ _ e; omega
  have c1 := canonRun_map_inj (fun n => ρ.uuid (p.baseId + n)) i1 syms []
  have c2 := canonRun_map_inj (fun n => ρ'.uuid (p'.baseId + n)) i2 syms []
  simp only [List.map_nil] at c1 c2
  rw [c1, c2]

/-- `reset(seed = s)` from ANY two process states with the same episode index (whatever happened before, whatever the
generator state, wherever in whatever environment): the two new games agree, and the first outputs are images of one
symbolic output under the new namings. -/
theorem doReset_seed_rel {ι ι' Cfg σ Act : Type} [DecidableEq ι] [DecidableEq ι'] (g : Fixed) {ρ : Rho ι} {ρ' : Rho ι'}
    (hv : ρ.Valid) (hv' : ρ'.Valid) (sim : Sim Cfg σ Act) (sched : Nat → Cfg)
    (hs : sim.Safe g.seeds (StampLenAgree g ρ ρ')) (p p' : Proc σ) (he : p.episode = p'.episode) (s : Nat) :
    (doReset g ρ sim sched p (some s)).1.Agree (doReset g ρ' sim sched p' (some s)).1 ∧
    ∃ sym : List (Tok Nat),
      (doReset g ρ sim sched p (some s)).2 =
        sym.map (Tok.map fun n => ρ.uuid ((doReset g ρ sim sched p (some s)).1.baseId + n)) ∧
      (doReset g ρ' sim sched p' (some s)).2 =
        sym.map (Tok.map fun n => ρ'.uuid ((doReset g ρ' sim sched p' (some s)).1.baseId + n)) := by
  have hsafe : (sim.rebuild (sched (p.episode + 1))).Safe g.seeds (StampLenAgree g (p.rebase.rho ρ) (p'.rebase.rho ρ')) :=
    Prog.Safe.mono (fun h => h.shift _ _ _ _ _ _ _ _) (hs.rebuild _)
  have e : interp g (p.rebase.rho ρ) (sim.rebuild (sched (p.episode + 1))) { rng := seedAll g s } =
      interp g (p'.rebase.rho ρ') (sim.rebuild (sched (p.episode + 1))) { rng := seedAll g s } :=
    interp_indep g (hv.shift p.rebase.baseId p.rebase.baseSt p.rebase.basePerm p.rebase.baseEnt)
      (hv'.shift p'.rebase.baseId p'.rebase.baseSt p'.rebase.basePerm p'.rebase.baseEnt) _ _ hsafe
  simp only [doReset, resetRng, ← he]
  refine ⟨⟨rfl, by rw [e], by rw [e]⟩,
    (interp g (p.rebase.rho ρ) (sim.rebuild (sched (p.episode + 1))) { rng := seedAll g s }).1.2, rfl, ?_⟩
  rw [e]; rfl

end Primaite.Noninterf
