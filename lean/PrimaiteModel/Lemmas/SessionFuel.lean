/-
C16 helper: the fuel `Net.fuel` given to the disconnect recursion `chain` always suffices (in every state, reachable or not):
every `_disconnect` that goes on first removes a connection, so the number of connections in the network bounds the depth.
-/
import PrimaiteModel.Lemmas.SessionCases
namespace Primaite.Session

/-- number of terminal connections in a list of nodes -/
def tc (l : List Node) : Nat := (l.map (fun nd => nd.conns.length)).sum

theorem totalConns_eq (n : Net) : n.totalConns = tc n.nodes := rfl

theorem tc_updAt_le (l : List Node) (i : Nat) (f : Node → Node) (hf : ∀ a, (f a).conns.length ≤ a.conns.length) :
    tc (updAt l i f) ≤ tc l := by
  induction l generalizing i with
  | nil => simp [updAt, tc]
  | cons a t ih =>
    cases i with
    | zero => have := hf a; simp only [updAt, tc, List.map_cons, List.sum_cons]; omega
    | succ i => have := ih i; simp only [updAt, tc, List.map_cons, List.sum_cons] at this ⊢; omega

theorem tc_updAt_lt (l : List Node) (i : Nat) (f : Node → Node) (a : Node) (hl : l[i]? = some a)
    (hlt : (f a).conns.length < a.conns.length) : tc (updAt l i f) < tc l := by
  induction l generalizing i with
  | nil => simp at hl
  | cons b t ih =>
    cases i with
    | zero =>
      simp only [List.getElem?_cons_zero, Option.some.injEq] at hl; subst hl
      simp only [updAt, tc, List.map_cons, List.sum_cons]; omega
    | succ i =>
      simp only [List.getElem?_cons_succ] at hl
      have := ih i hl
      simp only [updAt, tc, List.map_cons, List.sum_cons] at this ⊢; omega

theorem upd_tc_le (n : Net) (i : Nat) (f : Node → Node) (hf : ∀ a, (f a).conns.length ≤ a.conns.length) :
    (n.upd i f).totalConns ≤ n.totalConns := tc_updAt_le n.nodes i f hf

theorem dropConn_len_le (cid : Nat) (a : Node) : (a.dropConn cid).conns.length ≤ a.conns.length := List.length_filter_le _ _

theorem dropConn_len_lt (cid : Nat) (a : Node) (c : Conn) (h : a.conns.find? (fun c => c.id == cid) = some c) :
    (a.dropConn cid).conns.length < a.conns.length := by
  unfold Node.dropConn
  apply List.length_filter_lt_length_iff_exists.mpr
  refine ⟨c, List.mem_of_find?_eq_some h, ?_⟩
  have := List.find?_some h
  simp only [beq_iff_eq] at this
  simp [this]

theorem localLogout_len_le (a : Node) : a.localLogout.conns.length ≤ a.conns.length := by
  unfold Node.localLogout; split
  · exact Nat.le_refl _
  · exact Nat.le_refl _

@[simp] theorem upd_stuck (n : Net) (i : Nat) (f : Node → Node) : (n.upd i f).stuck = n.stuck := rfl
@[simp] theorem bump_stuck (n : Net) (k : Nat) : (n.bump k).stuck = n.stuck := rfl

/-- fuel needed by each of the three procedures when `T` connections exist -/
def need : Hop → Nat → Nat
  | .disconnect, T => 3 * T + 1
  | .remoteLogout, T => 3 * T + 2
  | .onDisconnect, T => 3 * T + 3

/-- with enough fuel the chain never reports `stuck`, and it never adds a connection -/
theorem chain_ok (f : Nat) : ∀ (h : Hop) (n : Net) (i cid : Nat), need h n.totalConns ≤ f →
    (chain f h n i cid).stuck = n.stuck ∧ (chain f h n i cid).totalConns ≤ n.totalConns := by
  induction f with
  | zero => intro h n i cid hf; cases h <;> simp [need] at hf
  | succ f ih =>
    intro h n i cid hf
    cases h with
    | disconnect =>
      simp only [need] at hf
      unfold chain
      split
      · exact ⟨rfl, Nat.le_refl _⟩
      · rename_i nd hnd
        split
        · exact ⟨rfl, Nat.le_refl _⟩
        · rename_i c hc
          have hle1 : (n.upd i (Node.dropConn cid)).totalConns < n.totalConns :=
            tc_updAt_lt n.nodes i _ nd hnd (dropConn_len_lt cid nd c hc)
          split
          · refine ⟨rfl, ?_⟩
            exact Nat.le_trans (upd_tc_le _ i _ localLogout_len_le) (Nat.le_of_lt hle1)
          · rename_i p _
            split
            · have := ih .onDisconnect (n.upd i (Node.dropConn cid)) p cid (by simp only [need]; omega)
              exact ⟨this.1, Nat.le_trans this.2 (Nat.le_of_lt hle1)⟩
            · exact ⟨rfl, Nat.le_of_lt hle1⟩
    | onDisconnect =>
      simp only [need] at hf
      unfold chain
      split
      · exact ⟨rfl, Nat.le_refl _⟩
      · split
        · split
          · have h1 := ih .disconnect n i cid (by simp only [need]; omega)
            have h2 := ih .remoteLogout (chain f .disconnect n i cid) i cid (by simp only [need]; omega)
            exact ⟨h2.1.trans h1.1, Nat.le_trans h2.2 h1.2⟩
          · exact ⟨rfl, Nat.le_refl _⟩
        · exact ih .disconnect n i cid (by simp only [need]; omega)
    | remoteLogout =>
      simp only [need] at hf
      unfold chain
      split
      · exact ⟨rfl, Nat.le_refl _⟩
      · split
        · have h1 := ih .disconnect n i cid (by simp only [need]; omega)
          exact ⟨h1.1, Nat.le_trans (upd_tc_le _ i _ (fun a => Nat.le_refl _)) h1.2⟩
        · exact ⟨rfl, Nat.le_refl _⟩

/-- `Net.fuel` is enough for a `_disconnect` started in that state -/
theorem disconnect_not_stuck (n : Net) (i cid : Nat) : (disconnect n.fuel n i cid).stuck = n.stuck :=
  (chain_ok n.fuel .disconnect n i cid (by simp only [need, Net.fuel]; omega)).1

theorem forceLogout_not_stuck (n : Net) (j cid : Nat) : (forceLogout n j cid).stuck = n.stuck := by
  unfold forceLogout; simp [disconnect_not_stuck]

theorem foldl_not_stuck {α : Type} (g : Net → α → Net) (hg : ∀ m a, (g m a).stuck = m.stuck) (l : List α) (n : Net) :
    (l.foldl g n).stuck = n.stuck := by
  induction l generalizing n with
  | nil => rfl
  | cons a t ih => simp only [List.foldl_cons]; rw [ih, hg]

theorem logoutUser_not_stuck (n : Net) (j : Nat) (u : String) : (logoutUser n j u).stuck = n.stuck := by
  unfold logoutUser
  split
  · rfl
  · simp only [upd_stuck]
    exact foldl_not_stuck _ (fun m cid => forceLogout_not_stuck m j cid) _ _

theorem timeoutRemote_not_stuck (n : Net) (y : Nat) (s : RSession) : (timeoutRemote n y s).stuck = n.stuck := by
  unfold timeoutRemote; dsimp only; split <;> rfl

theorem preTimestepNode_not_stuck (n : Net) (y : Nat) : (preTimestepNode n y).stuck = n.stuck := by
  unfold preTimestepNode
  split
  · rfl
  · dsimp only
    rw [foldl_not_stuck _ (fun m s => timeoutRemote_not_stuck m y s)]
    split <;> rfl

theorem tick_not_stuck (n : Net) : (tick n).stuck = n.stuck := by
  unfold tick
  dsimp only
  rw [foldl_not_stuck _ preTimestepNode_not_stuck]

theorem localLogin_not_stuck (n : Net) (y : Nat) (u p : String) : (localLogin n y u p).1.stuck = n.stuck := by
  rcases localLogin_cases n y u p with h | ⟨_, _, _, h⟩ <;> rw [h] <;> rfl

end Primaite.Session
