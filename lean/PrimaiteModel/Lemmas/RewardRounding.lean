/-
What floating-point arithmetic keeps of the two sums of C10 (step reward = Σ wᵢ·cᵢ, episode total = Σ rₖ).

The code accumulates left to right in IEEE doubles: `total += weight * value` is `acc ← fl (acc + fl (w · c))`, and
`total_reward += current_reward` is `acc ← fl (acc + r)`.  Here `fl` is an ABSTRACT rounding function on an arbitrary
linearly ordered field, of which only the standard model is assumed: `|fl x − x| ≤ u · |x|` (for IEEE doubles without
overflow / underflow: `u = 2⁻⁵³`).  Proved, for every list and every such `fl`:

    |flSum fl 0 ts − Σ ts|                 ≤ ((1+u)ⁿ − 1) · Σ |tᵢ|          (n = length)
    |flWeightedFold fl wcs − Σ wᵢ·cᵢ|      ≤ ((1+u)ⁿ⁺¹ − 1) · Σ |wᵢ·cᵢ|

This is the factor `gamma` of harness/rigs/reward.py; that the Python floats of CPython are such an `fl` with `u = 2⁻⁵³`
is the IEEE-754 standard, not proved here.  (Mathlib: ordered fields, `abs`, `linarith` / `nlinarith` / `ring`.)
-/
import Mathlib.Algebra.Order.Field.Basic
import Mathlib.Algebra.Order.Ring.Abs
import Mathlib.Tactic.Linarith
import Mathlib.Tactic.Ring
import Mathlib.Tactic.Positivity

namespace Primaite.Reward.Rounding

variable {K : Type} [Field K] [LinearOrder K] [IsStrictOrderedRing K]

/-- exact sum -/
def sum : List K → K
  | [] => 0
  | t :: ts => t + sum ts

/-- sum of absolute values -/
def sumAbs : List K → K
  | [] => 0
  | t :: ts => |t| + sumAbs ts

/-- the accumulation loop `acc ← fl (acc + t)` -/
def flSum (fl : K → K) : K → List K → K
  | acc, [] => acc
  | acc, t :: ts => flSum fl (fl (acc + t)) ts

/-- `RewardFunction.update` in rounded arithmetic: `acc ← fl (acc + fl (w * c))` -/
def flWeightedFold (fl : K → K) : K → List (K × K) → K
  | acc, [] => acc
  | acc, wc :: rest => flWeightedFold fl (fl (acc + fl (wc.1 * wc.2))) rest

theorem sumAbs_nonneg (ts : List K) : 0 ≤ sumAbs ts := by
  induction ts with
  | nil => exact le_refl _
  | cons t ts ih => unfold sumAbs; positivity

theorem one_le_pow_one_add {u : K} (hu : 0 ≤ u) (n : Nat) : 1 ≤ (1 + u) ^ n :=
  one_le_pow₀ (by linarith)

/-- the general step: starting from a rounded accumulator `A` that approximates the exact `S` -/
theorem flSum_error_from (fl : K → K) (u : K) (hu : 0 ≤ u) (hfl : ∀ x, |fl x - x| ≤ u * |x|) (ts : List K) :
    ∀ A S : K, |flSum fl A ts - (S + sum ts)| ≤
      (1 + u) ^ ts.length * |A - S| + ((1 + u) ^ ts.length - 1) * (|S| + sumAbs ts) := by
  induction ts with
  | nil =>
    intro A S
    simp [flSum, sum, sumAbs]
  | cons t rest ih =>
    intro A S
    have hstep : |fl (A + t) - (S + t)| ≤ (1 + u) * |A - S| + u * |S + t| := by
      have h1 : |fl (A + t) - (A + t)| ≤ u * |A + t| := hfl (A + t)
      have h2 : |A + t| ≤ |A - S| + |S + t| := by
        have : A + t = (A - S) + (S + t) := by ring
        rw [this]; exact abs_add_le _ _
      have h3 : |fl (A + t) - (S + t)| ≤ |fl (A + t) - (A + t)| + |A - S| := by
        have : fl (A + t) - (S + t) = (fl (A + t) - (A + t)) + (A - S) := by ring
        rw [this]; exact abs_add_le _ _
      nlinarith [abs_nonneg (A - S), abs_nonneg (S + t)]
    have hS : |S + t| ≤ |S| + |t| := abs_add_le _ _
    have ih' := ih (fl (A + t)) (S + t)
    have hp : (1 : K) ≤ (1 + u) ^ rest.length := one_le_pow_one_add hu _
    have hsa := sumAbs_nonneg rest
    have e1 : S + sum (t :: rest) = S + t + sum rest := by simp [sum]; ring
    simp only [flSum, List.length_cons, sumAbs]
    rw [e1]
    have hpow : (1 + u) ^ (rest.length + 1) = (1 + u) ^ rest.length * (1 + u) := pow_succ _ _
    rw [hpow]
    set P := (1 + u) ^ rest.length with hP
    have hP0 : 0 ≤ P := by positivity
    have habs0 := abs_nonneg (A - S)
    have habsS := abs_nonneg S
    have habst := abs_nonneg t
    have habsSt := abs_nonneg (S + t)
    -- ih' : |…| ≤ P * |fl (A+t) − (S+t)| + (P − 1) * (|S+t| + sumAbs rest)
    calc |flSum fl (fl (A + t)) rest - (S + t + sum rest)|
        ≤ P * |fl (A + t) - (S + t)| + (P - 1) * (|S + t| + sumAbs rest) := ih'
      _ ≤ P * ((1 + u) * |A - S| + u * |S + t|) + (P - 1) * (|S + t| + sumAbs rest) := by
          have := mul_le_mul_of_nonneg_left hstep hP0
          linarith
      _ = P * (1 + u) * |A - S| + (P * (1 + u) - 1) * |S + t| + (P - 1) * sumAbs rest := by ring
      _ ≤ P * (1 + u) * |A - S| + (P * (1 + u) - 1) * (|S| + (|t| + sumAbs rest)) := by
          have hc1 : 0 ≤ P * (1 + u) - 1 := by nlinarith
          have hc2 : P - 1 ≤ P * (1 + u) - 1 := by nlinarith
          have hc3 : 0 ≤ P - 1 := by linarith
          nlinarith [mul_le_mul_of_nonneg_left hS hc1, mul_le_mul_of_nonneg_right hc2 hsa]

/-- **Rounded summation.** `acc ← fl (acc + t)` from 0 stays within `((1+u)ⁿ − 1) · Σ|tᵢ|` of the exact sum. -/
theorem flSum_error (fl : K → K) (u : K) (hu : 0 ≤ u) (hfl : ∀ x, |fl x - x| ≤ u * |x|) (ts : List K) :
    |flSum fl 0 ts - sum ts| ≤ ((1 + u) ^ ts.length - 1) * sumAbs ts := by
  have h := flSum_error_from fl u hu hfl ts 0 0
  simpa using h

theorem flWeightedFold_eq_flSum (fl : K → K) (wcs : List (K × K)) :
    ∀ acc, flWeightedFold fl acc wcs = flSum fl acc (wcs.map (fun wc => fl (wc.1 * wc.2))) := by
  induction wcs with
  | nil => intro acc; rfl
  | cons wc rest ih => intro acc; simp only [flWeightedFold, List.map_cons, flSum]; exact ih _

theorem sum_rounded_terms (fl : K → K) (u : K) (hu : 0 ≤ u) (hfl : ∀ x, |fl x - x| ≤ u * |x|) (ts : List K) :
    |sum (ts.map fl) - sum ts| ≤ u * sumAbs ts ∧ sumAbs (ts.map fl) ≤ (1 + u) * sumAbs ts := by
  induction ts with
  | nil => simp [sum, sumAbs]
  | cons t rest ih =>
    obtain ⟨ih1, ih2⟩ := ih
    have h1 := hfl t
    have h2 : |fl t| ≤ (1 + u) * |t| := by
      have : fl t = (fl t - t) + t := by ring
      have h3 : |fl t| ≤ |fl t - t| + |t| := by
        conv_lhs => rw [this]
        exact abs_add_le _ _
      linarith
    constructor
    · simp only [List.map_cons, sum, sumAbs]
      have : fl t + sum (rest.map fl) - (t + sum rest) = (fl t - t) + (sum (rest.map fl) - sum rest) := by ring
      rw [this]
      have := abs_add_le (fl t - t) (sum (rest.map fl) - sum rest)
      linarith
    · simp only [List.map_cons, sumAbs]
      linarith

/-- **Rounded weighted sum.** The loop of `RewardFunction.update` in any arithmetic with relative rounding error `u` stays
within `((1+u)ⁿ⁺¹ − 1) · Σ|wᵢ·cᵢ|` of the exact weighted sum. -/
theorem flWeightedFold_error (fl : K → K) (u : K) (hu : 0 ≤ u) (hfl : ∀ x, |fl x - x| ≤ u * |x|) (wcs : List (K × K)) :
    |flWeightedFold fl 0 wcs - sum (wcs.map (fun wc => wc.1 * wc.2))| ≤
      ((1 + u) ^ (wcs.length + 1) - 1) * sumAbs (wcs.map (fun wc => wc.1 * wc.2)) := by
  rw [flWeightedFold_eq_flSum]
  set ts := wcs.map (fun wc => wc.1 * wc.2) with hts
  have hmap : wcs.map (fun wc => fl (wc.1 * wc.2)) = ts.map fl := by
    rw [hts, List.map_map]; rfl
  rw [hmap]
  have hlen : wcs.length = ts.length := by rw [hts, List.length_map]
  rw [hlen]
  have hA := flSum_error fl u hu hfl (ts.map fl)
  obtain ⟨hB, hC⟩ := sum_rounded_terms fl u hu hfl ts
  rw [List.length_map] at hA
  have hp : (1 : K) ≤ (1 + u) ^ ts.length := one_le_pow_one_add hu _
  have hsa := sumAbs_nonneg ts
  have htri : |flSum fl 0 (ts.map fl) - sum ts| ≤ |flSum fl 0 (ts.map fl) - sum (ts.map fl)| + |sum (ts.map fl) - sum ts| := by
    have : flSum fl 0 (ts.map fl) - sum ts = (flSum fl 0 (ts.map fl) - sum (ts.map fl)) + (sum (ts.map fl) - sum ts) := by ring
    rw [this]; exact abs_add_le _ _
  have hpow : (1 + u) ^ (ts.length + 1) = (1 + u) ^ ts.length * (1 + u) := pow_succ _ _
  rw [hpow]
  set P := (1 + u) ^ ts.length
  have hc : 0 ≤ P - 1 := by linarith
  have h4 : (P - 1) * sumAbs (ts.map fl) ≤ (P - 1) * ((1 + u) * sumAbs ts) := mul_le_mul_of_nonneg_left hC hc
  calc |flSum fl 0 (ts.map fl) - sum ts|
      ≤ (P - 1) * sumAbs (ts.map fl) + u * sumAbs ts := by linarith
    _ ≤ (P - 1) * ((1 + u) * sumAbs ts) + u * sumAbs ts := by linarith
    _ = (P * (1 + u) - 1) * sumAbs ts := by ring

end Primaite.Reward.Rounding
