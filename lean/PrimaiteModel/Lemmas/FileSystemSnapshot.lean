/-
Snapshot of the source text the model `Model/FileSystem.lean` was transcribed from (branch fix-C15): the request
trees, handler functions, validator bodies and the cleaned bodies of the transcribed methods, exactly as the extractor
`harness/extract/filesystem.py` prints them.  `Props/C15.lean` proves `Gen.FileSystem.* = Snapshot.*`, so any change
to one of these methods breaks a proof obligation and forces the model to be re-read against the new text.
Hand-maintained: refresh it (from Gen/FileSystem.lean) only together with the model.
-/
namespace Primaite.FileSystem.Snapshot

def fsTree : List (String × String × String × String) := [
  ("self._delete_manager", "file", "lambda request, context: RequestResponse.from_bool(self.delete_file(folder_name=request[0], file_name=request[1]))", "self._file_exists"),
  ("self._delete_manager", "folder", "lambda request, context: RequestResponse.from_bool(self.delete_folder(folder_name=request[0]))", "self._folder_exists"),
  ("rm", "delete", "self._delete_manager", ""),
  ("self._create_manager", "file", "_create_file_action", ""),
  ("self._create_manager", "folder", "_create_folder_action", ""),
  ("rm", "create", "self._create_manager", ""),
  ("rm", "access", "_access_file_action", ""),
  ("self._restore_manager", "file", "lambda request, context: RequestResponse.from_bool(self.restore_file(folder_name=request[0], file_name=request[1]))", ""),
  ("self._restore_manager", "folder", "lambda request, context: RequestResponse.from_bool(self.restore_folder(folder_name=request[0]))", ""),
  ("rm", "restore", "self._restore_manager", ""),
  ("rm", "folder", "self._folder_request_manager", "self._folder_exists + self._folder_not_deleted"),
  ("rm", "file", "_file_action", "self._file_exists")
]

def folderTree : List (String × String × String × String) := [
  ("rm", "delete", "lambda request, context: RequestResponse.from_bool(self.remove_file_by_name(file_name=request[0]))", ""),
  ("rm", "file", "self._file_request_manager", "self._file_exists + self._file_not_deleted")
]

def fsHandlers : List (String × String) := [
  ("_create_file_action", "def _create_file_action(request, context):\n    if not request[2] and self.get_file(folder_name=request[0] or 'root', file_name=request[1]):\n        return RequestResponse.from_bool(False)\n    file = self.create_file(folder_name=request[0], file_name=request[1], force=request[2])\n    if not file:\n        return RequestResponse.from_bool(False)\n    return RequestResponse(status='success', data={'file_name': file.name, 'folder_name': file.folder_name, 'file_type': file.file_type.name, 'file_size': file.size})"),
  ("_create_folder_action", "def _create_folder_action(request, context):\n    folder = self.create_folder(folder_name=request[0])\n    if not folder:\n        return RequestResponse.from_bool(False)\n    return RequestResponse(status='success', data={'folder_name': folder.name})"),
  ("_access_file_action", "def _access_file_action(request, context):\n    file = self.get_file(folder_name=request[0], file_name=request[1])\n    if not file:\n        return RequestResponse.from_bool(False)\n    if self.access_file(folder_name=request[0], file_name=request[1]):\n        return RequestResponse(status='success', data={'file_name': file.name, 'folder_name': file.folder_name, 'file_type': file.file_type.name, 'file_size': file.size, 'file_status': file.health_status.name})\n    return RequestResponse.from_bool(False)"),
  ("_file_action", "def _file_action(request, context):\n    file = self.get_file(folder_name=request[0], file_name=request[1])\n    return file._request_manager(request[2:], context)")
]

-- re-read 2026-09-26 after fix 4477cb4: each validator first answers False when the request carries fewer options than it
-- reads (the model's operations always carry them, so the modelled behaviour is unchanged)
def validators : List (String × String) := [
  ("FileSystem._FolderExistsValidator", "if len(request) < 1:\n    return False; return self.file_system.get_folder(folder_name=request[0]) is not None"),
  ("FileSystem._FolderNotDeletedValidator", "if len(request) < 1:\n    return False; folder = self.file_system.get_folder(folder_name=request[0], include_deleted=True); return folder is not None and (not folder.deleted)"),
  ("FileSystem._FileExistsValidator", "if len(request) < 2:\n    return False; return self.file_system.get_file(folder_name=request[0], file_name=request[1]) is not None"),
  ("Folder._FileExistsValidator", "if len(request) < 1:\n    return False; return self.folder.get_file(file_name=request[0]) is not None"),
  ("Folder._FileNotDeletedValidator", "if len(request) < 1:\n    return False; file = self.folder.get_file(file_name=request[0]); return file is not None and (not file.deleted)")
]

-- re-read 2026-09-26 after a79d153 (restore countdown loaded with max(duration, 1))
def methods : List (String × String) := [
  ("FileSystem.__init__", "def __init__(self, **kwargs):\n    super().__init__(**kwargs)\n    if not self.folders:\n        self.create_folder('root')"),
  ("FileSystem.create_folder", "def create_folder(self, folder_name):\n    folder = self.get_folder(folder_name)\n    if folder:\n        pass\n    else:\n        folder = Folder(name=folder_name, sys_log=self.sys_log)\n        self._folder_request_manager.add_request(name=folder.name, request_type=RequestType(func=folder._request_manager))\n    self.folders[folder.uuid] = folder\n    if self._default_folder_scan_duration is not None:\n        folder.scan_duration = self._default_folder_scan_duration\n    if self._default_folder_restore_duration is not None:\n        folder.restore_duration = self._default_folder_restore_duration\n    return folder"),
  ("FileSystem.delete_folder", "def delete_folder(self, folder_name):\n    if folder_name == 'root':\n        return False\n    folder = self.get_folder(folder_name)\n    if not folder:\n        return False\n    folder.delete()\n    self.folders.pop(folder.uuid)\n    folder.remove_all_files()\n    self.deleted_folders[folder.uuid] = folder\n    return True"),
  ("FileSystem.get_folder", "def get_folder(self, folder_name, include_deleted=False):\n    for folder in self.folders.values():\n        if folder.name == folder_name:\n            return folder\n    if include_deleted:\n        for folder in self.deleted_folders.values():\n            if folder.name == folder_name:\n                return folder\n    return None"),
  ("FileSystem.create_file", "def create_file(self, file_name, size=None, file_type=None, folder_name=None, force=False):\n    if folder_name:\n        folder = self.get_folder(folder_name)\n        if not folder:\n            folder = self.create_folder(folder_name)\n    else:\n        folder = self.get_folder('root')\n    file = self.get_file(folder.name, file_name)\n    if file:\n        if force:\n            pass\n    else:\n        file = File(name=file_name, sim_size=size, file_type=file_type, folder_id=folder.uuid, folder_name=folder.name, sim_root=self.sim_root, sys_log=self.sys_log)\n    folder.add_file(file, force=force)\n    self.num_file_creations += 1\n    return file"),
  ("FileSystem.get_file", "def get_file(self, folder_name, file_name, include_deleted=False):\n    folder = self.get_folder(folder_name, include_deleted=include_deleted)\n    if folder:\n        return folder.get_file(file_name, include_deleted=include_deleted)"),
  ("FileSystem.delete_file", "def delete_file(self, folder_name, file_name):\n    folder = self.get_folder(folder_name)\n    if folder:\n        file = folder.get_file(file_name)\n        if file:\n            self.num_file_deletions += 1\n            folder.remove_file(file)\n            return True\n    return False"),
  ("FileSystem.restore_folder", "def restore_folder(self, folder_name):\n    folder = self.get_folder(folder_name=folder_name, include_deleted=True)\n    if folder is None:\n        return False\n    self.deleted_folders.pop(folder.uuid, None)\n    folder.restore()\n    self.folders[folder.uuid] = folder\n    self._folder_request_manager.add_request(name=folder.name, request_type=RequestType(func=folder._request_manager))\n    return True"),
  ("FileSystem.restore_file", "def restore_file(self, folder_name, file_name):\n    folder = self.get_folder(folder_name=folder_name)\n    if not folder:\n        return False\n    file = folder.get_file(file_name=file_name, include_deleted=True)\n    if not file:\n        return False\n    return folder.restore_file(file_name=file_name)"),
  ("FileSystem.access_file", "def access_file(self, folder_name, file_name):\n    folder = self.get_folder(folder_name=folder_name)\n    if folder:\n        file = folder.get_file(file_name=file_name)\n        if file:\n            file.num_access += 1\n            return True\n        else:\n            pass\n    return False"),
  ("FileSystem.pre_timestep", "def pre_timestep(self, timestep):\n    super().pre_timestep(timestep)\n    self.num_file_creations = 0\n    self.num_file_deletions = 0\n    for folder in self.folders.values():\n        folder.pre_timestep(timestep)"),
  ("FileSystem.apply_timestep", "def apply_timestep(self, timestep):\n    super().apply_timestep(timestep=timestep)\n    for folder_id in self.folders:\n        self.folders[folder_id].apply_timestep(timestep=timestep)"),
  ("FileSystem.describe_state", "def describe_state(self):\n    state = super().describe_state()\n    state['folders'] = {folder.name: folder.describe_state() for folder in self.folders.values()}\n    state['deleted_folders'] = {folder.name: folder.describe_state() for folder in self.deleted_folders.values()}\n    state['num_file_creations'] = self.num_file_creations\n    state['num_file_deletions'] = self.num_file_deletions\n    return state"),
  ("Folder.get_file", "def get_file(self, file_name, include_deleted=False):\n    for file in self.files.values():\n        if file.name == file_name:\n            return file\n    if include_deleted:\n        for file in self.deleted_files.values():\n            if file.name == file_name:\n                return file\n    return None"),
  ("Folder.add_file", "def add_file(self, file, force=False):\n    if file is None or not isinstance(file, File):\n        raise Exception(f'Invalid file: {file}')\n    if self.get_file(file.name) is not None and (not force):\n        raise Exception(f'File with name {file.name} already exists in folder')\n    if file.uuid in self.files and (not force):\n        raise Exception(f'File with uuid {file.uuid} already exists in folder')\n    existing = self.get_file(file.name)\n    if existing is not None and existing.uuid != file.uuid:\n        self.remove_file(existing)\n    self.files[file.uuid] = file\n    self._file_request_manager.add_request(file.name, RequestType(func=file._request_manager))\n    file.folder = self"),
  ("Folder.remove_file", "def remove_file(self, file):\n    if file is None or not isinstance(file, File):\n        raise Exception(f'Invalid file: {file}')\n    if self.files.get(file.uuid):\n        self.files.pop(file.uuid)\n        self.deleted_files[file.uuid] = file\n        file.delete()\n    else:\n        pass"),
  ("Folder.remove_file_by_name", "def remove_file_by_name(self, file_name):\n    for f in self.files.values():\n        if f.name == file_name:\n            self.remove_file(f)\n            return True\n    return False"),
  ("Folder.remove_all_files", "def remove_all_files(self):\n    for file_id in self.files:\n        file = self.files.get(file_id)\n        file.delete()\n        self.deleted_files[file_id] = file\n    self.files = {}"),
  ("Folder.restore_file", "def restore_file(self, file_name):\n    file = self.get_file(file_name=file_name, include_deleted=True)\n    if not file:\n        return False\n    file.restore()\n    self.files[file.uuid] = file\n    self._file_request_manager.add_request(file.name, RequestType(func=file._request_manager))\n    self.deleted_files.pop(file.uuid, None)\n    return True"),
  ("Folder.restore", "def restore(self):\n    if self.deleted:\n        self.deleted = False\n    if self.restore_countdown <= 0:\n        self.restore_countdown = max(self.restore_duration, 1)\n        self.health_status = FileSystemItemHealthStatus.RESTORING\n    else:\n        pass\n    return True"),
  ("Folder.delete", "def delete(self):\n    if self.deleted:\n        return False\n    self.deleted = True\n    return True"),
  ("Folder._restoring_timestep", "def _restoring_timestep(self):\n    if self.restore_countdown >= 0:\n        self.restore_countdown -= 1\n        if self.restore_countdown == 0:\n            for file_id, file in self.files.items():\n                self.restore_file(file_name=file.name)\n            deleted_files = self.deleted_files.copy()\n            for file_id, file in deleted_files.items():\n                self.restore_file(file_name=file.name)\n            if self.deleted:\n                self.deleted = False\n            elif self.health_status in [FileSystemItemHealthStatus.CORRUPT, FileSystemItemHealthStatus.RESTORING]:\n                self.health_status = FileSystemItemHealthStatus.GOOD"),
  ("Folder.apply_timestep", "def apply_timestep(self, timestep):\n    super().apply_timestep(timestep=timestep)\n    self._scan_timestep()\n    self._reveal_to_red_timestep()\n    self._restoring_timestep()\n    for file_id in self.files:\n        self.files[file_id].apply_timestep(timestep=timestep)"),
  ("Folder.describe_state", "def describe_state(self):\n    state = super().describe_state()\n    state['files'] = {file.name: file.describe_state() for uuid, file in self.files.items()}\n    state['deleted_files'] = {file.name: file.describe_state() for uuid, file in self.deleted_files.items()}\n    state['scanned_this_step'] = self._scanned_this_step\n    return state"),
  ("File.restore", "def restore(self):\n    if self.deleted:\n        self.deleted = False\n        return True\n    if self.health_status == FileSystemItemHealthStatus.CORRUPT:\n        self.health_status = FileSystemItemHealthStatus.GOOD\n    self.num_access += 1\n    return True"),
  ("File.delete", "def delete(self):\n    if self.deleted:\n        return False\n    self.num_access += 1\n    self.deleted = True\n    return True")
]

end Primaite.FileSystem.Snapshot
