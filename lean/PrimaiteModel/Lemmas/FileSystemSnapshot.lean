/-
Snapshot of the source text the model `Model/FileSystem.lean` was transcribed from (branch fix-C15): the request
trees, handler functions, validator bodies and the cleaned bodies of the transcribed methods, exactly as the extractor
`harness/extract/filesystem.py` prints them.  `Props/C15.lean` proves `Gen.FileSystem.* = Snapshot.*`, so any change
to one of these methods breaks a proof obligation and forces the model to be re-read against the new text.
Hand-maintained: refresh it (from Gen/FileSystem.lean) only together with the model.
-/
namespace Primaite.FileSystem.Snapshot

def fsTree : List (String × String × String × String) := [
  ("self._delete_manager", "file", "lambda request, context: RequestResponse.from_bool(self.delete_file(folder_name=request[0], file_name=request[1]))", "self._file_exists"),
  ("self._delete_manager", "folder", "lambda request, context: RequestResponse.from_bool(self.delete_folder(folder_name=request[0]))", "self._folder_exists"),
  ("rm", "delete", "self._delete_manager", ""),
  ("self._create_manager", "file", "_create_file_action", ""),
  ("self._create_manager", "folder", "_create_folder_action", ""),
  ("rm", "create", "self._create_manager", ""),
  ("rm", "access", "_access_file_action", ""),
  ("self._restore_manager", "file", "lambda request, context: RequestResponse.from_bool(self.restore_file(folder_name=request[0], file_name=request[1]))", ""),
  ("self._restore_manager", "folder", "lambda request, context: RequestResponse.from_bool(self.restore_folder(folder_name=request[0]))", ""),
  ("rm", "restore", "self._restore_manager", ""),
  ("rm", "folder", "self._folder_request_manager", "self._folder_exists + self._folder_not_deleted"),
  ("rm", "file", "_file_action", "self._file_exists")
]

def folderTree : List (String × String × String × String) := [
  ("rm", "delete", "lambda request, context: RequestResponse.from_bool(self.remove_file_by_name(file_name=request[0]))", ""),
  ("rm", "file", "self._file_request_manager", "self._file_exists + self._file_not_deleted")
]

-- round 7, second shift: `_file_action` left the text pin too (lookup translated: Gen hFileActionTarget; dispatch read structurally)
def fsHandlers : List (String × String) := [
]

-- re-read 2026-09-26 after fix 4477cb4: each validator first answers False when the request carries fewer options than it
-- reads (the model's operations always carry them, so the modelled behaviour is unchanged)
def validators : List (String × String) := [
]

-- re-read 2026-09-26 after a79d153 (restore countdown loaded with max(duration, 1)); round 7: seven methods left for the translated tie
def methods : List (String × String) := [
]

end Primaite.FileSystem.Snapshot
