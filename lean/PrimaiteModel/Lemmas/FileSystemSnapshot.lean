/-
Snapshot of the source text the model `Model/FileSystem.lean` was transcribed from (branch fix-C15): the request
trees, handler functions, validator bodies and the cleaned bodies of the transcribed methods, exactly as the extractor
`harness/extract/filesystem.py` prints them.  `Props/C15.lean` proves `Gen.FileSystem.* = Snapshot.*`, so any change
to one of these methods breaks a proof obligation and forces the model to be re-read against the new text.
Hand-maintained: refresh it (from Gen/FileSystem.lean) only together with the model.
-/
namespace Primaite.FileSystem.Snapshot

def fsTree : List (String × String × String × String) := [
  ("self._delete_manager", "file", "lambda request, context: RequestResponse.from_bool(self.delete_file(folder_name=request[0], file_name=request[1]))", "self._file_exists"),
  ("self._delete_manager", "folder", "lambda request, context: RequestResponse.from_bool(self.delete_folder(folder_name=request[0]))", "self._folder_exists"),
  ("rm", "delete", "self._delete_manager", ""),
  ("self._create_manager", "file", "_create_file_action", ""),
  ("self._create_manager", "folder", "_create_folder_action", ""),
  ("rm", "create", "self._create_manager", ""),
  ("rm", "access", "_access_file_action", ""),
  ("self._restore_manager", "file", "lambda request, context: RequestResponse.from_bool(self.restore_file(folder_name=request[0], file_name=request[1]))", ""),
  ("self._restore_manager", "folder", "lambda request, context: RequestResponse.from_bool(self.restore_folder(folder_name=request[0]))", ""),
  ("rm", "restore", "self._restore_manager", ""),
  ("rm", "folder", "self._folder_request_manager", "self._folder_exists + self._folder_not_deleted"),
  ("rm", "file", "_file_action", "self._file_exists")
]

def folderTree : List (String × String × String × String) := [
  ("rm", "delete", "lambda request, context: RequestResponse.from_bool(self.remove_file_by_name(file_name=request[0]))", ""),
  ("rm", "file", "self._file_request_manager", "self._file_exists + self._file_not_deleted")
]

def fsHandlers : List (String × String) := [
  ("_create_file_action", "def _create_file_action(request, context):\n    if not request[2] and self.get_file(folder_name=request[0] or 'root', file_name=request[1]):\n        return RequestResponse.from_bool(False)\n    file = self.create_file(folder_name=request[0], file_name=request[1], force=request[2])\n    if not file:\n        return RequestResponse.from_bool(False)\n    return RequestResponse(status='success', data={'file_name': file.name, 'folder_name': file.folder_name, 'file_type': file.file_type.name, 'file_size': file.size})"),
  ("_create_folder_action", "def _create_folder_action(request, context):\n    folder = self.create_folder(folder_name=request[0])\n    if not folder:\n        return RequestResponse.from_bool(False)\n    return RequestResponse(status='success', data={'folder_name': folder.name})"),
  ("_access_file_action", "def _access_file_action(request, context):\n    file = self.get_file(folder_name=request[0], file_name=request[1])\n    if not file:\n        return RequestResponse.from_bool(False)\n    if self.access_file(folder_name=request[0], file_name=request[1]):\n        return RequestResponse(status='success', data={'file_name': file.name, 'folder_name': file.folder_name, 'file_type': file.file_type.name, 'file_size': file.size, 'file_status': file.health_status.name})\n    return RequestResponse.from_bool(False)"),
  ("_file_action", "def _file_action(request, context):\n    file = self.get_file(folder_name=request[0], file_name=request[1])\n    return file._request_manager(request[2:], context)")
]

-- re-read 2026-09-26 after fix 4477cb4: each validator first answers False when the request carries fewer options than it
-- reads (the model's operations always carry them, so the modelled behaviour is unchanged)
def validators : List (String × String) := [
  ("FileSystem._FolderExistsValidator", "if len(request) < 1:\n    return False; return self.file_system.get_folder(folder_name=request[0]) is not None"),
  ("FileSystem._FolderNotDeletedValidator", "if len(request) < 1:\n    return False; folder = self.file_system.get_folder(folder_name=request[0], include_deleted=True); return folder is not None and (not folder.deleted)"),
  ("FileSystem._FileExistsValidator", "if len(request) < 2:\n    return False; return self.file_system.get_file(folder_name=request[0], file_name=request[1]) is not None"),
  ("Folder._FileExistsValidator", "if len(request) < 1:\n    return False; return self.folder.get_file(file_name=request[0]) is not None"),
  ("Folder._FileNotDeletedValidator", "if len(request) < 1:\n    return False; file = self.folder.get_file(file_name=request[0]); return file is not None and (not file.deleted)")
]

-- re-read 2026-09-26 after a79d153 (restore countdown loaded with max(duration, 1)); round 7: seven methods left for the translated tie
def methods : List (String × String) := [
]

end Primaite.FileSystem.Snapshot
