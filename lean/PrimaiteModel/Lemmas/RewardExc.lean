/-
The pipeline with component exceptions (`calcCompE`, `updateCompsE`, `updOneE`, `gameStepE`: what the driver runs and the
implementation is compared with) against the total pipeline the algebraic development is about:

* soundness: whenever the `E` version succeeds, the total version succeeds with the same result;
* progress: a component raises only on a leaf of the wrong shape — `compOK s it c` (decidable, independent of the
  component's memory, sticky flag and of the other agents' rewards); when every configured component is `compOK` on the
  post-step state and its agent's new item, `gameStepE` IS `gameStep`.
-/
import PrimaiteModel.Lemmas.RewardConfig
namespace Primaite.Reward
open Primaite.RewardGraph

/-! ### soundness -/

theorem calcCompE_sound {s : SimState} {it : Item} {cur : Name → Val} {c : Comp} {r : Val × Comp}
    (h : calcCompE s it cur c = .ok r) : calcComp s it cur c = r := by
  cases c with
  | dummy => simp [calcCompE] at h; simp [calcComp, h]
  | fileIntegrity n fo fi =>
    simp only [calcCompE] at h
    cases hc : calcFileE s n fo fi with
    | error e => rw [hc] at h; cases h
    | ok v => rw [hc] at h; cases h; simp [calcComp, calcFile, hc]
  | web404 n sv st m =>
    simp only [calcCompE] at h
    cases hc : calcWeb404E s n sv st m with
    | error e => rw [hc] at h; cases h
    | ok v => rw [hc] at h; cases h; simp [calcComp, calcWeb404, hc]
  | webpage n st m =>
    simp only [calcCompE] at h
    cases hc : calcWebpageE s it n st m with
    | error e => rw [hc] at h; cases h
    | ok v => rw [hc] at h; cases h; simp [calcComp, calcWebpage, hc]
  | greenDb n st m => simp [calcCompE] at h; simp [calcComp, h]
  | shared a => simp [calcCompE] at h; simp [calcComp, h]
  | actionPenalty ap dn => simp [calcCompE] at h; simp [calcComp, h]

theorem updateCompsE_sound (s : SimState) (it : Item) (cur : Name → Val) (comps : List (Comp × Val)) :
    ∀ (acc : Val) (r : Val × List (Comp × Val)), updateCompsE s it cur acc comps = .ok r →
      updateComps s it cur acc comps = r := by
  induction comps with
  | nil => intro acc r h; simp [updateCompsE] at h; simp [updateComps, h]
  | cons cw rest ih =>
    obtain ⟨c, w⟩ := cw
    intro acc r h
    simp only [updateCompsE] at h
    cases hc : calcCompE s it cur c with
    | error e => rw [hc] at h; cases h
    | ok rc =>
      rw [hc] at h
      simp only at h
      cases ht : updateCompsE s it cur (acc + w * rc.1) rest with
      | error e => rw [ht] at h; cases h
      | ok t =>
        rw [ht] at h
        cases h
        have h1 := calcCompE_sound hc
        have h2 := ih _ _ ht
        simp only [updateComps, h1, h2]

theorem updOneE_sound {s : SimState} {g g' : Game} {n : Name} (h : updOneE s g n = .ok g') : updOne s g n = .ok g' := by
  unfold updOneE at h
  unfold updOne
  cases hl : g.agents.lookup n with
  | none => rw [hl] at h; cases h
  | some a =>
    rw [hl] at h
    simp only at h ⊢
    by_cases hpos : g.stepCounter > 0
    · simp only [hpos, if_true] at h ⊢
      cases hh : a.hist with
      | nil => rw [hh] at h; cases h
      | cons e older =>
        obtain ⟨it, rw'⟩ := e
        rw [hh] at h
        simp only at h ⊢
        by_cases hall : (sharedNames a.comps).all (fun v => decide (v ∈ agentKeys g.agents)) = true
        · simp only [hall, if_true] at h ⊢
          cases hu : updateCompsE s it (curOf g.agents) 0 a.comps with
          | error e => rw [hu] at h; cases h
          | ok r =>
            rw [hu] at h
            have := updateCompsE_sound s it (curOf g.agents) a.comps 0 r hu
            rw [this]
            exact h
        · simp only [hall, Bool.false_eq_true, if_false] at h
          cases h
    · simp only [hpos, if_false] at h ⊢
      exact h

theorem foldE_updOneE_sound (s : SimState) (l : List Name) :
    ∀ g g', foldE (updOneE s) g l = .ok g' → foldE (updOne s) g l = .ok g' := by
  induction l with
  | nil => intro g g' h; exact h
  | cons n l ih =>
    intro g g' h
    simp only [foldE] at h ⊢
    cases h1 : updOneE s g n with
    | error e => rw [h1] at h; cases h
    | ok g1 =>
      rw [h1] at h
      rw [updOneE_sound h1]
      exact ih _ _ h

/-- whenever the step with exceptions succeeds, the total step gives the same game -/
theorem gameStepE_sound {g g' : Game} {items : Name → Item} {s : SimState} (h : gameStepE g items s = .ok g') :
    gameStep g items s = .ok g' :=
  foldE_updOneE_sound s _ _ _ h

/-! ### progress -/

/-- `calculate` of this component does not raise on state `s` and item `it` (the memory, the sticky flag and the other agents'
rewards play no role in that) -/
def compOK (s : SimState) (it : Item) : Comp → Bool
  | .fileIntegrity n fo fi => (calcFileE s n fo fi).isOk
  | .web404 n sv _ _ => (calcWeb404E s n sv true 0).isOk
  | .webpage n _ _ => (calcWebpageE s it n true 0).isOk
  | _ => true

theorem calcWeb404E_isOk (s : SimState) (n sv : Name) (st st' : Bool) (m m' : Val) :
    (calcWeb404E s n sv st m).isOk = (calcWeb404E s n sv st' m').isOk := by
  unfold calcWeb404E
  cases PyVal.access s (web404Loc n sv) with
  | error e => rfl
  | ok leaf =>
    simp only
    by_cases hnp : leaf.isNotPresent = true
    · simp [hnp, Except.isOk, Except.toBool]
    · simp only [hnp, Bool.false_eq_true, if_false]
      cases leaf.get "response_codes_this_timestep" with
      | error e => rfl
      | ok codes =>
        simp only
        by_cases ht : codes.truthy = true
        · simp only [ht, if_true]
        · simp only [ht, Bool.false_eq_true, if_false]
          cases st <;> cases st' <;> simp [Except.isOk, Except.toBool]

theorem calcWebpageE_isOk (s : SimState) (it : Item) (n : Name) (st st' : Bool) (m m' : Val) :
    (calcWebpageE s it n st m).isOk = (calcWebpageE s it n st' m').isOk := by
  unfold calcWebpageE
  cases PyVal.access s (webpageLoc n) with
  | error e => rfl
  | ok leaf =>
    simp only
    by_cases hr : it.requestIs (browserRequest n) = true
    · simp only [hr, Bool.not_true, Bool.false_eq_true, if_false]
    · simp [hr, Except.isOk, Except.toBool]

theorem isOk_eq_true {ε α} {x : Except ε α} (h : x.isOk = true) : ∃ v, x = .ok v := by
  cases x with
  | error e => simp [Except.isOk, Except.toBool] at h
  | ok v => exact ⟨v, rfl⟩

theorem calcCompE_of_ok {s : SimState} {it : Item} (cur : Name → Val) {c : Comp} (h : compOK s it c = true) :
    calcCompE s it cur c = .ok (calcComp s it cur c) := by
  cases c with
  | dummy => rfl
  | fileIntegrity n fo fi =>
    obtain ⟨v, hv⟩ := isOk_eq_true (by simpa [compOK] using h)
    simp [calcCompE, calcComp, calcFile, hv, Except.map]
  | web404 n sv st m =>
    have h' : (calcWeb404E s n sv st m).isOk = true := by
      rw [calcWeb404E_isOk s n sv st true m 0]; simpa [compOK] using h
    obtain ⟨v, hv⟩ := isOk_eq_true h'
    simp [calcCompE, calcComp, calcWeb404, hv, Except.map]
  | webpage n st m =>
    have h' : (calcWebpageE s it n st m).isOk = true := by
      rw [calcWebpageE_isOk s it n st true m 0]; simpa [compOK] using h
    obtain ⟨v, hv⟩ := isOk_eq_true h'
    simp [calcCompE, calcComp, calcWebpage, hv, Except.map]
  | greenDb n st m => rfl
  | shared a => rfl
  | actionPenalty ap dn => rfl

theorem compOK_calc (s : SimState) (it it' : Item) (cur : Name → Val) (c : Comp) :
    compOK s it (calcComp s it' cur c).2 = compOK s it c := by
  cases c <;> simp [calcComp, compOK]

theorem updateCompsE_of_ok (s : SimState) (it : Item) (cur : Name → Val) (comps : List (Comp × Val)) :
    ∀ acc, (∀ cw ∈ comps, compOK s it cw.1 = true) →
      updateCompsE s it cur acc comps = .ok (updateComps s it cur acc comps) := by
  induction comps with
  | nil => intro acc _; rfl
  | cons cw rest ih =>
    obtain ⟨c, w⟩ := cw
    intro acc h
    simp only [updateCompsE, updateComps]
    rw [calcCompE_of_ok cur (h (c, w) (by simp))]
    simp only
    rw [ih _ (fun cw hcw => h cw (List.mem_cons_of_mem _ hcw))]

/-- every component of the agent accepts the state and the agent's newest history item -/
def AgentOK (s : SimState) (a : Agent) : Prop :=
  match a.hist with
  | [] => True
  | (it, _) :: _ => ∀ cw ∈ a.comps, compOK s it cw.1 = true

def AllOK (s : SimState) (g : Game) : Prop := ∀ n a, g.agents.lookup n = some a → AgentOK s a

theorem updOneE_eq {s : SimState} {g : Game} (hok : AllOK s g) (n : Name) : updOneE s g n = updOne s g n := by
  unfold updOneE updOne
  cases hl : g.agents.lookup n with
  | none => rfl
  | some a =>
    simp only
    by_cases hpos : g.stepCounter > 0
    · simp only [hpos, if_true]
      cases hh : a.hist with
      | nil => rfl
      | cons e older =>
        obtain ⟨it, rw'⟩ := e
        simp only
        by_cases hall : (sharedNames a.comps).all (fun v => decide (v ∈ agentKeys g.agents)) = true
        · simp only [hall, if_true]
          have ha := hok n a hl
          unfold AgentOK at ha
          rw [hh] at ha
          rw [updateCompsE_of_ok s it (curOf g.agents) a.comps 0 ha]
        · simp only [hall, Bool.false_eq_true, if_false]
    · simp only [hpos, if_false]

theorem AllOK_updOne {s : SimState} {g g' : Game} {n : Name} (hok : AllOK s g) (h : updOne s g n = .ok g') :
    AllOK s g' := by
  unfold updOne at h
  cases hl : g.agents.lookup n with
  | none => rw [hl] at h; cases h
  | some a =>
    rw [hl] at h
    simp only at h
    have ha := hok n a hl
    by_cases hpos : g.stepCounter > 0
    · simp only [hpos, if_true] at h
      cases hh : a.hist with
      | nil => rw [hh] at h; cases h
      | cons e older =>
        obtain ⟨it, rw'⟩ := e
        rw [hh] at h
        simp only at h
        by_cases hall : (sharedNames a.comps).all (fun v => decide (v ∈ agentKeys g.agents)) = true
        · simp only [hall, if_true] at h
          cases h
          intro m b hb
          simp only at hb
          rw [lookup_setAgent] at hb
          by_cases hmn : m = n
          · subst hmn
            simp only [if_true, hl, Option.map_some] at hb
            cases hb
            unfold AgentOK at ha ⊢
            rw [hh] at ha
            simp only
            intro cw hcw
            rw [updateComps_snd] at hcw
            obtain ⟨cw0, hcw0, rfl⟩ := List.mem_map.mp hcw
            simp only
            rw [compOK_calc]
            exact ha cw0 hcw0
          · simp only [hmn, if_false] at hb
            exact hok m b hb
        · simp only [hall, Bool.false_eq_true, if_false] at h
          cases h
    · simp only [hpos, if_false] at h
      cases h
      intro m b hb
      simp only at hb
      rw [lookup_setAgent] at hb
      by_cases hmn : m = n
      · subst hmn
        simp only [if_true, hl, Option.map_some] at hb
        cases hb
        exact ha
      · simp only [hmn, if_false] at hb
        exact hok m b hb

theorem foldE_updOneE_eq (s : SimState) (l : List Name) :
    ∀ g, AllOK s g → foldE (updOneE s) g l = foldE (updOne s) g l := by
  induction l with
  | nil => intro g _; rfl
  | cons n l ih =>
    intro g hok
    simp only [foldE]
    rw [updOneE_eq hok n]
    cases h1 : updOne s g n with
    | error e => rfl
    | ok g1 => exact ih g1 (AllOK_updOne hok h1)

/-- when every configured component accepts the post-step state and its agent's new item, the step with exceptions is the
total step -/
theorem gameStepE_eq (g : Game) (items : Name → Item) (s : SimState)
    (hok : ∀ n a, g.agents.lookup n = some a → ∀ cw ∈ a.comps, compOK s (items n) cw.1 = true) :
    gameStepE g items s = gameStep g items s := by
  unfold gameStepE gameStep updateAgentsE updateAgents
  apply foldE_updOneE_eq
  intro n a ha
  have hl := lookup_act items g n
  simp only [advance] at ha
  rw [hl] at ha
  cases hg : g.agents.lookup n with
  | none => rw [hg] at ha; cases ha
  | some a0 =>
    rw [hg] at ha
    simp only [Option.map_some] at ha
    cases ha
    unfold AgentOK pushItem
    simp only
    exact hok n a0 hg

/-- a run of steps with exceptions (what the driver executes between two `load` / `envreset` commands) -/
def runE : Game → List ((Name → Item) × SimState) → Except Err Game
  | g, [] => .ok g
  | g, (items, s) :: rest =>
    match gameStepE g items s with
    | .ok g' => runE g' rest
    | .error e => .error e

theorem runE_sound (steps : List ((Name → Item) × SimState)) :
    ∀ g g', runE g steps = .ok g' → run g steps = .ok g' := by
  induction steps with
  | nil => intro g g' h; exact h
  | cons st rest ih =>
    obtain ⟨items, s⟩ := st
    intro g g' h
    simp only [runE] at h
    simp only [run]
    cases h1 : gameStepE g items s with
    | error e => rw [h1] at h; cases h
    | ok g1 =>
      rw [h1] at h
      rw [gameStepE_sound h1]
      exact ih _ _ h

theorem run_append (xs ys : List ((Name → Item) × SimState)) :
    ∀ g, run g (xs ++ ys) = match run g xs with
      | .ok g' => run g' ys
      | .error e => .error e := by
  induction xs with
  | nil => intro g; rfl
  | cons st rest ih =>
    obtain ⟨items, s⟩ := st
    intro g
    simp only [List.cons_append, run]
    cases gameStep g items s with
    | error e => rfl
    | ok g1 => exact ih g1

end Primaite.Reward
