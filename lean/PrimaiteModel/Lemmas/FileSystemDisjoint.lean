/-
Cross-folder disjointness of file uuids (`XDisj`): no file uuid sits — live or deleted — in two different folders.
`Inv` does not record it; it is preserved by every request, tick and API operation (given `Inv`), and it is what
`move_file` needs (`MoveFresh`).  The proof goes through a backward provenance relation `From n k s s'`: every folder of
`s'` comes from a folder of `s` with the same uuid, and each of its file uuids was already in that folder — except for
the one uuid `n`, which may have been added to the folder with uuid `k` only.
-/
import PrimaiteModel.Lemmas.FileSystemApi
import PrimaiteModel.Lemmas.FileSystemKeeps
namespace Primaite.FileSystem

/-- every file uuid of `g'` is a file uuid of `g` -/
def FolderSub (g g' : Folder) : Prop :=
  ∀ f', f' ∈ g'.files ∨ f' ∈ g'.deletedFiles → ∃ f, (f ∈ g.files ∨ f ∈ g.deletedFiles) ∧ f.id = f'.id

/-- every file uuid of `g'` is a file uuid of `g`, or is `n` -/
def FolderFrom (n : Nat) (g g' : Folder) : Prop :=
  ∀ f', f' ∈ g'.files ∨ f' ∈ g'.deletedFiles → (∃ f, (f ∈ g.files ∨ f ∈ g.deletedFiles) ∧ f.id = f'.id) ∨ f'.id = n

theorem FolderSub.refl (g : Folder) : FolderSub g g := fun f hf => ⟨f, hf, rfl⟩

theorem FolderSub.trans {a b c : Folder} (h1 : FolderSub a b) (h2 : FolderSub b c) : FolderSub a c := by
  intro f hf
  obtain ⟨f1, hf1, e1⟩ := h2 f hf
  obtain ⟨f0, hf0, e0⟩ := h1 f1 hf1
  exact ⟨f0, hf0, e0.trans e1⟩

theorem FolderSub.of_eq {g g' : Folder} (h1 : g'.files = g.files) (h2 : g'.deletedFiles = g.deletedFiles) : FolderSub g g' := by
  intro f hf; exact ⟨f, by rw [← h1, ← h2]; exact hf, rfl⟩

theorem FolderSub.from (n : Nat) {g g' : Folder} (h : FolderSub g g') : FolderFrom n g g' := fun f hf => Or.inl (h f hf)

theorem FolderFrom.after_sub {n : Nat} {a b c : Folder} (h1 : FolderSub a b) (h2 : FolderFrom n b c) : FolderFrom n a c := by
  intro f hf
  rcases h2 f hf with ⟨f1, hf1, e1⟩ | e
  · obtain ⟨f0, hf0, e0⟩ := h1 f1 hf1
    exact Or.inl ⟨f0, hf0, e0.trans e1⟩
  · exact Or.inr e

theorem folderFrom_addFile (g : Folder) (f : File) : FolderFrom f.id g (g.addFile f) := by
  intro y hy
  unfold Folder.addFile at hy
  rcases hy with hy | hy
  · rcases (mem_dictSet File.id).mp hy with rfl | ⟨hy, _⟩
    · exact Or.inr rfl
    · exact Or.inl ⟨y, Or.inl hy, rfl⟩
  · exact Or.inl ⟨y, Or.inr hy, rfl⟩

/-- re-adding a file that is already live adds no uuid -/
theorem folderSub_addFile_existing (g : Folder) {f : File} (hf : f ∈ g.files) : FolderSub g (g.addFile f) := by
  intro y hy
  rcases folderFrom_addFile g f y hy with h | h
  · exact h
  · exact ⟨f, Or.inl hf, h.symm⟩

theorem folderSub_removeFile (g : Folder) (f : File) : FolderSub g (g.removeFile f) := by
  intro y hy
  unfold Folder.removeFile at hy
  split at hy
  · rename_i hany
    rcases hy with hy | hy
    · exact ⟨y, Or.inl ((mem_dictPop File.id).mp hy).1, rfl⟩
    · rcases (mem_dictSet File.id).mp hy with rfl | ⟨hy, _⟩
      · simp only [List.any_eq_true, beq_iff_eq] at hany
        obtain ⟨z, hz, hzid⟩ := hany
        exact ⟨z, Or.inl hz, hzid⟩
      · exact ⟨y, Or.inr hy, rfl⟩
  · exact ⟨y, hy, rfl⟩

theorem folderSub_removeAllFiles (g : Folder) : FolderSub g g.removeAllFiles := by
  intro y hy
  unfold Folder.removeAllFiles at hy
  simp only at hy
  rcases hy with hy | hy
  · cases hy
  · rcases mem_foldl_delete hy with hy | ⟨f, hf, rfl⟩
    · exact ⟨y, Or.inr hy, rfl⟩
    · exact ⟨f, Or.inl hf, rfl⟩

theorem folderSub_restoreFile (g : Folder) (x : Name) : FolderSub g (g.restoreFile x).1 := by
  unfold Folder.restoreFile
  split
  · exact FolderSub.refl g
  · rename_i f hf
    obtain ⟨_, hcase⟩ := getFile_incl hf
    have hfm : f ∈ g.files ∨ f ∈ g.deletedFiles := hcase.imp id (fun h => h.1)
    intro y hy
    simp only at hy
    rcases hy with hy | hy
    · rcases (mem_dictSet File.id).mp hy with rfl | ⟨hy, _⟩
      · exact ⟨f, hfm, rfl⟩
      · exact ⟨y, Or.inl hy, rfl⟩
    · exact ⟨y, Or.inr ((mem_dictPop File.id).mp hy).1, rfl⟩

theorem folderSub_foldl_restoreFile (fs : List File) (g : Folder) :
    FolderSub g (fs.foldl (fun (a : Folder) (f : File) => (a.restoreFile f.name).1) g) := by
  induction fs generalizing g with
  | nil => exact FolderSub.refl g
  | cons c t ih =>
    simp only [List.foldl_cons]
    exact (folderSub_restoreFile g c.name).trans (ih _)

theorem folderSub_restoringTimestep (g : Folder) : FolderSub g g.restoringTimestep := by
  unfold Folder.restoringTimestep
  split
  · simp only
    split
    · have k0 : FolderSub g { g with restoreCountdown := g.restoreCountdown - 1 } := FolderSub.of_eq rfl rfl
      have k1 := folderSub_foldl_restoreFile g.files { g with restoreCountdown := g.restoreCountdown - 1 }
      have k2 := folderSub_foldl_restoreFile
        (g.files.foldl (fun (a : Folder) (f : File) => (a.restoreFile f.name).1)
          { g with restoreCountdown := g.restoreCountdown - 1 }).deletedFiles
        (g.files.foldl (fun (a : Folder) (f : File) => (a.restoreFile f.name).1)
          { g with restoreCountdown := g.restoreCountdown - 1 })
      exact ((k0.trans k1).trans k2).trans (FolderSub.of_eq rfl rfl)
    · exact FolderSub.of_eq rfl rfl
  · exact FolderSub.refl g

theorem folderFrom_addFileForced (g : Folder) (f : File) : FolderFrom f.id g (g.addFileForced f) := by
  unfold Folder.addFileForced
  split
  · split
    · exact FolderFrom.after_sub (folderSub_removeFile g _) (folderFrom_addFile _ f)
    · exact folderFrom_addFile g f
  · exact folderFrom_addFile g f

theorem folderSub_popLive (g : Folder) (k : Nat) : FolderSub g { g with files := dictPop File.id g.files k } := by
  intro y hy
  rcases hy with hy | hy
  · exact ⟨y, Or.inl ((mem_dictPop File.id).mp hy).1, rfl⟩
  · exact ⟨y, Or.inr hy, rfl⟩

/-! ### state level -/

/-- Every folder of `s'` comes from the folder of `s` with the same uuid and holds no file uuid that folder did not hold,
except that the folder with uuid `k` may hold `n`; a folder without origin (just created) holds nothing but, possibly, `n`
(and then it is folder `k`). -/
def From (n k : Nat) (s s' : State) : Prop :=
  ∀ g', g' ∈ s'.folders ∨ g' ∈ s'.deletedFolders →
    (∀ f', f' ∈ g'.files ∨ f' ∈ g'.deletedFiles → f'.id = n ∧ g'.id = k) ∨
    ∃ g, (g ∈ s.folders ∨ g ∈ s.deletedFolders) ∧ g.id = g'.id ∧
      ∀ f', f' ∈ g'.files ∨ f' ∈ g'.deletedFiles →
        (∃ f, (f ∈ g.files ∨ f ∈ g.deletedFiles) ∧ f.id = f'.id) ∨ (f'.id = n ∧ g'.id = k)

theorem From.refl (n k : Nat) (s : State) : From n k s s :=
  fun g hg => Or.inr ⟨g, hg, rfl, fun f hf => Or.inl ⟨f, hf, rfl⟩⟩

theorem From.trans {n k : Nat} {a b c : State} (h1 : From n k a b) (h2 : From n k b c) : From n k a c := by
  intro g2 hg2
  rcases h2 g2 hg2 with hnew | ⟨g1, hg1, e1, hf1⟩
  · exact Or.inl hnew
  · rcases h1 g1 hg1 with hnew | ⟨g0, hg0, e0, hf0⟩
    · left
      intro f hf
      rcases hf1 f hf with ⟨f1, hf1m, ef1⟩ | e
      · have := hnew f1 hf1m
        exact ⟨ef1.symm.trans this.1, e1.symm.trans this.2⟩
      · exact e
    · right
      refine ⟨g0, hg0, e0.trans e1, ?_⟩
      intro f hf
      rcases hf1 f hf with ⟨f1, hf1m, ef1⟩ | e
      · rcases hf0 f1 hf1m with ⟨f0, hf0m, ef0⟩ | e
        · exact Or.inl ⟨f0, hf0m, ef0.trans ef1⟩
        · exact Or.inr ⟨ef1.symm.trans e.1, e1.symm.trans e.2⟩
      · exact Or.inr e

/-- No file uuid sits in two different folders. -/
def XDisj (s : State) : Prop :=
  ∀ g1 g2, (g1 ∈ s.folders ∨ g1 ∈ s.deletedFolders) → (g2 ∈ s.folders ∨ g2 ∈ s.deletedFolders) → g1.id ≠ g2.id →
    ∀ f1 f2, (f1 ∈ g1.files ∨ f1 ∈ g1.deletedFiles) → (f2 ∈ g2.files ∨ f2 ∈ g2.deletedFiles) → f1.id ≠ f2.id

/-- Provenance carries disjointness over, when the one possibly new uuid `n` was nowhere before. -/
theorem xdisj_of_from {s s' : State} {n k : Nat} (h : XDisj s)
    (hn : ∀ g, g ∈ s.folders ∨ g ∈ s.deletedFolders → ∀ f, f ∈ g.files ∨ f ∈ g.deletedFiles → f.id ≠ n)
    (hfrom : From n k s s') : XDisj s' := by
  intro g1 g2 hg1 hg2 hne f1 f2 hf1 hf2 he
  rcases hfrom g1 hg1 with hnew1 | ⟨o1, ho1, e1, hfr1⟩
  · have a1 := hnew1 f1 hf1
    rcases hfrom g2 hg2 with hnew2 | ⟨o2, ho2, e2, hfr2⟩
    · exact hne (a1.2.trans (hnew2 f2 hf2).2.symm)
    · rcases hfr2 f2 hf2 with ⟨z2, hz2, ez2⟩ | b2
      · exact hn o2 ho2 z2 hz2 (ez2.trans (he.symm.trans a1.1))
      · exact hne (a1.2.trans b2.2.symm)
  · rcases hfrom g2 hg2 with hnew2 | ⟨o2, ho2, e2, hfr2⟩
    · have a2 := hnew2 f2 hf2
      rcases hfr1 f1 hf1 with ⟨z1, hz1, ez1⟩ | b1
      · exact hn o1 ho1 z1 hz1 (ez1.trans (he.trans a2.1))
      · exact hne (b1.2.trans a2.2.symm)
    · rcases hfr1 f1 hf1 with ⟨z1, hz1, ez1⟩ | b1
      · rcases hfr2 f2 hf2 with ⟨z2, hz2, ez2⟩ | b2
        · exact h o1 o2 ho1 ho2 (by rw [e1, e2]; exact hne) z1 z2 hz1 hz2 (ez1.trans (he.trans ez2.symm))
        · exact hn o1 ho1 z1 hz1 (ez1.trans (he.trans b2.1))
      · rcases hfr2 f2 hf2 with ⟨z2, hz2, ez2⟩ | b2
        · exact hn o2 ho2 z2 hz2 (ez2.trans (he.symm.trans b1.1))
        · exact hne (b1.2.trans b2.2.symm)

/-- Under `Inv` every file uuid is below the allocation counter: a uuid at or above it is nowhere. -/
theorem fresh_nowhere {s : State} (h : Inv s) {n : Nat} (hn : s.next ≤ n) :
    ∀ g, g ∈ s.folders ∨ g ∈ s.deletedFolders → ∀ f, f ∈ g.files ∨ f ∈ g.deletedFiles → f.id ≠ n :=
  fun g hg f hf => Nat.ne_of_lt (Nat.lt_of_lt_of_le ((h.folder g hg).2.1 f hf) hn)

theorem mem_updFolder {s s' : State} {i : Nat} {t : Folder → Folder}
    (hf : s'.folders = (updFolder s i t).folders) (hd : s'.deletedFolders = (updFolder s i t).deletedFolders)
    {g' : Folder} (hg' : g' ∈ s'.folders ∨ g' ∈ s'.deletedFolders) :
    ∃ g, (g ∈ s.folders ∨ g ∈ s.deletedFolders) ∧ g' = (if g.id == i then t g else g) := by
  rcases hg' with hg' | hg'
  · rw [hf] at hg'
    obtain ⟨g, hg, e⟩ := List.mem_map.mp hg'
    exact ⟨g, Or.inl hg, e.symm⟩
  · rw [hd] at hg'
    obtain ⟨g, hg, e⟩ := List.mem_map.mp hg'
    exact ⟨g, Or.inr hg, e.symm⟩

/-- In-place mutation of the folder with uuid `i` that may add the uuid `n` to it. -/
theorem from_updFolder {s s' : State} (n i : Nat) (t : Folder → Folder)
    (hf : s'.folders = (updFolder s i t).folders) (hd : s'.deletedFolders = (updFolder s i t).deletedFolders)
    (ht : ∀ g, g ∈ s.folders ∨ g ∈ s.deletedFolders → g.id = i → (t g).id = g.id ∧ FolderFrom n g (t g)) :
    From n i s s' := by
  intro g' hg'
  obtain ⟨g, hg, rfl⟩ := mem_updFolder hf hd hg'
  right
  by_cases hi : g.id = i
  · obtain ⟨hid, hfrom⟩ := ht g hg hi
    simp only [hi, beq_self_eq_true, if_true]
    refine ⟨g, hg, hid.symm, ?_⟩
    intro f' hf'
    rcases hfrom f' hf' with h1 | h2
    · exact Or.inl h1
    · exact Or.inr ⟨h2, hid.trans hi⟩
  · have hb : (g.id == i) = false := by simpa using hi
    simp only [hb]
    exact ⟨g, hg, rfl, fun f hf => Or.inl ⟨f, hf, rfl⟩⟩

/-- In-place mutation of the folder with uuid `i` that adds no uuid. -/
theorem from_updFolder_same {s s' : State} (n k i : Nat) (t : Folder → Folder)
    (hf : s'.folders = (updFolder s i t).folders) (hd : s'.deletedFolders = (updFolder s i t).deletedFolders)
    (ht : ∀ g, g ∈ s.folders ∨ g ∈ s.deletedFolders → g.id = i → (t g).id = g.id ∧ FolderSub g (t g)) :
    From n k s s' := by
  intro g' hg'
  obtain ⟨g, hg, rfl⟩ := mem_updFolder hf hd hg'
  right
  by_cases hi : g.id = i
  · obtain ⟨hid, hall⟩ := ht g hg hi
    simp only [hi, beq_self_eq_true, if_true]
    exact ⟨g, hg, hid.symm, fun f' hf' => Or.inl (hall f' hf')⟩
  · have hb : (g.id == i) = false := by simpa using hi
    simp only [hb]
    exact ⟨g, hg, rfl, fun f hf => Or.inl ⟨f, hf, rfl⟩⟩

theorem from_maps {s s' : State} (n k : Nat) (t1 t2 : Folder → Folder)
    (hf : s'.folders = s.folders.map t1) (hd : s'.deletedFolders = s.deletedFolders.map t2)
    (h1 : ∀ g ∈ s.folders, (t1 g).id = g.id ∧ FolderSub g (t1 g))
    (h2 : ∀ g ∈ s.deletedFolders, (t2 g).id = g.id ∧ FolderSub g (t2 g)) : From n k s s' := by
  intro g' hg'
  right
  rcases hg' with hg' | hg'
  · rw [hf] at hg'
    obtain ⟨g, hg, rfl⟩ := List.mem_map.mp hg'
    exact ⟨g, Or.inl hg, (h1 g hg).1.symm, fun f hf => Or.inl ((h1 g hg).2 f hf)⟩
  · rw [hd] at hg'
    obtain ⟨g, hg, rfl⟩ := List.mem_map.mp hg'
    exact ⟨g, Or.inr hg, (h2 g hg).1.symm, fun f hf => Or.inl ((h2 g hg).2 f hf)⟩

/-- An operation that adds no file uuid keeps disjointness. -/
theorem xdisj_of_from_same {s s' : State} (h : Inv s) (hx : XDisj s) (hfrom : From s.next 0 s s') : XDisj s' :=
  xdisj_of_from hx (fresh_nowhere h (Nat.le_refl _)) hfrom

theorem from_createFolder (s : State) (n k : Nat) (F : Name) : From n k s (createFolder s F).1 := by
  rw [createFolder_eq]
  cases hg : getFolder s F with
  | some g0 =>
    simp only
    obtain ⟨hgm, _⟩ := getFolder_live hg
    obtain ⟨f1, _, _, f4, f5, _, _⟩ := setDur_fields s g0
    intro g' hg'
    right
    rcases hg' with hl | hd
    · rcases (mem_dictSet Folder.id).mp hl with rfl | ⟨hl, _⟩
      · exact ⟨g0, Or.inl hgm, f1.symm, fun f hf => Or.inl ⟨f, by rw [← f4, ← f5]; exact hf, rfl⟩⟩
      · exact ⟨g', Or.inl hl, rfl, fun f hf => Or.inl ⟨f, hf, rfl⟩⟩
    · exact ⟨g', Or.inr hd, rfl, fun f hf => Or.inl ⟨f, hf, rfl⟩⟩
  | none =>
    simp only
    obtain ⟨_, _, _, f4, f5, _, _⟩ := setDur_fields s { id := s.next, name := F }
    intro g' hg'
    rcases hg' with hl | hd
    · rcases (mem_dictSet Folder.id).mp hl with rfl | ⟨hl, _⟩
      · left
        intro f hf
        rw [f4, f5] at hf
        rcases hf with hf | hf <;> cases hf
      · exact Or.inr ⟨g', Or.inl hl, rfl, fun f hf => Or.inl ⟨f, hf, rfl⟩⟩
    · exact Or.inr ⟨g', Or.inr hd, rfl, fun f hf => Or.inl ⟨f, hf, rfl⟩⟩

theorem xdisj_createFolder {s : State} (h : Inv s) (hx : XDisj s) (F : Name) : XDisj (createFolder s F).1 :=
  xdisj_of_from_same h hx (from_createFolder s _ _ F)

theorem xdisj_createFileIn {s1 : State} (h1 : Inv s1) (hx : XDisj s1) {g : Folder} (hg : g ∈ s1.folders) (x : Name) :
    XDisj (createFileIn s1 g x).1 := by
  unfold createFileIn
  cases hf : g.getFile x with
  | some f =>
    simp only
    obtain ⟨hfm, _⟩ := getFile_live hf
    apply xdisj_of_from_same h1 hx
    apply from_updFolder_same _ _ g.id (fun g => g.addFile f) rfl rfl
    intro g0 hg0 hid
    have := folder_eq_of_id h1 hg hg0 hid
    subst this
    exact ⟨rfl, folderSub_addFile_existing g0 hfm⟩
  | none =>
    simp only
    apply xdisj_of_from hx (fresh_nowhere h1 (Nat.le_refl _)) (n := s1.next) (k := g.id)
    apply from_updFolder s1.next g.id (fun g => g.addFile { id := s1.next, name := x }) rfl rfl
    intro g0 _ _
    exact ⟨rfl, folderFrom_addFile g0 _⟩

theorem xdisj_createFileTarget {s : State} (h : Inv s) (hx : XDisj s) (F : Name) : XDisj (createFileTarget s F).1 := by
  unfold createFileTarget
  split
  · cases getFolder s F with
    | some g => exact hx
    | none => exact xdisj_createFolder h hx F
  · exact hx

theorem xdisj_createFile {s : State} (h : Inv s) (hx : XDisj s) (F x : Name) (force : Bool) :
    XDisj (createFile s F x force).1 := by
  unfold createFile
  by_cases hc : (!force && (getFile s (if F = "" then "root" else F) x).isSome) = true
  · rw [if_pos hc]; exact hx
  · rw [if_neg hc]
    have ht := createFileTarget_spec h F
    have hxt := xdisj_createFileTarget h hx F
    cases heq : createFileTarget s F with
    | mk s1 og =>
      rw [heq] at ht hxt
      cases og with
      | none => exact hxt
      | some g => exact xdisj_createFileIn ht.1 hxt (ht.2 g rfl) x

theorem xdisj_apiCreateFile {s : State} (h : Inv s) (hx : XDisj s) (F x : Name) (force : Bool) :
    XDisj (apiCreateFile s F x force).1 := by
  unfold apiCreateFile
  have ht := createFileTarget_spec h F
  have hxt := xdisj_createFileTarget h hx F
  cases heq : createFileTarget s F with
  | mk s1 og =>
    rw [heq] at ht hxt
    cases og with
    | none => exact hxt
    | some g =>
      simp only
      split
      · exact hxt
      · exact xdisj_createFileIn ht.1 hxt (ht.2 g rfl) x

/-- In-place mutation of one folder that adds no uuid. -/
theorem xdisj_updFolder_sub {s s' : State} (h : Inv s) (hx : XDisj s) (i : Nat) (t : Folder → Folder)
    (hf : s'.folders = (updFolder s i t).folders) (hd : s'.deletedFolders = (updFolder s i t).deletedFolders)
    (ht : ∀ g, g ∈ s.folders ∨ g ∈ s.deletedFolders → g.id = i → (t g).id = g.id ∧ FolderSub g (t g)) : XDisj s' :=
  xdisj_of_from_same h hx (from_updFolder_same _ _ i t hf hd ht)

theorem xdisj_deleteFile {s : State} (h : Inv s) (hx : XDisj s) (F x : Name) : XDisj (deleteFile s F x).1 := by
  unfold deleteFile
  split
  · exact hx
  · cases getFolder s F with
    | none => exact hx
    | some g =>
      simp only
      cases g.getFile x with
      | none => exact hx
      | some f =>
        exact xdisj_updFolder_sub h hx g.id (fun g => g.removeFile f) rfl rfl
          (fun g0 _ _ => ⟨removeFile_id g0 f, folderSub_removeFile g0 f⟩)

theorem xdisj_deleteFolder {s : State} (h : Inv s) (hx : XDisj s) (F : Name) : XDisj (deleteFolder s F).1 := by
  unfold deleteFolder
  cases hg : getFolder s F with
  | none => exact hx
  | some g =>
    simp only
    split
    · exact hx
    · obtain ⟨hgm, _⟩ := getFolder_live hg
      apply xdisj_of_from_same h hx
      intro g' hg'
      right
      simp only at hg'
      rcases hg' with hl | hd
      · exact ⟨g', Or.inl ((mem_dictPop Folder.id).mp hl).1, rfl, fun f hf => Or.inl ⟨f, hf, rfl⟩⟩
      · rcases (mem_dictSet Folder.id).mp hd with rfl | ⟨hd, _⟩
        · refine ⟨g, Or.inl hgm, rfl, fun f hf => Or.inl ?_⟩
          exact ((FolderSub.of_eq (g := g) (g' := { g with deleted := true }) rfl rfl).trans (folderSub_removeAllFiles _)) f hf
        · exact ⟨g', Or.inr hd, rfl, fun f hf => Or.inl ⟨f, hf, rfl⟩⟩

theorem xdisj_restoreFolder {s : State} (h : Inv s) (hx : XDisj s) (F : Name) : XDisj (restoreFolder s F).1 := by
  unfold restoreFolder
  cases hg : getFolder s F true with
  | none => exact hx
  | some g =>
    simp only
    obtain ⟨_, hcase⟩ := getFolder_incl hg
    have hgmem : g ∈ s.folders ∨ g ∈ s.deletedFolders := hcase.imp id (fun x => x.1)
    apply xdisj_of_from_same h hx
    intro g' hg'
    right
    simp only at hg'
    rcases hg' with hl | hd
    · rcases (mem_dictSet Folder.id).mp hl with rfl | ⟨hl, _⟩
      · exact ⟨g, hgmem, rfl, fun f hf => Or.inl ⟨f, hf, rfl⟩⟩
      · exact ⟨g', Or.inl hl, rfl, fun f hf => Or.inl ⟨f, hf, rfl⟩⟩
    · exact ⟨g', Or.inr ((mem_dictPop Folder.id).mp hd).1, rfl, fun f hf => Or.inl ⟨f, hf, rfl⟩⟩

theorem xdisj_restoreFile {s : State} (h : Inv s) (hx : XDisj s) (F x : Name) : XDisj (restoreFile s F x).1 := by
  unfold restoreFile
  cases getFolder s F with
  | none => exact hx
  | some g =>
    simp only
    cases g.getFile x true with
    | none => exact hx
    | some f =>
      exact xdisj_updFolder_sub h hx g.id (fun g => (g.restoreFile x).1) rfl rfl
        (fun g0 _ _ => ⟨(restoreFile_meta g0 x).1, folderSub_restoreFile g0 x⟩)

theorem xdisj_viaFolder {s : State} (h : Inv s) (hx : XDisj s) (F : Name) (k : Folder → Option (Folder × Out))
    (hk : ∀ g g' o, g ∈ s.folders → k g = some (g', o) → g'.id = g.id ∧ FolderSub g g') :
    XDisj (viaFolder s F k).1 := by
  rcases viaFolder_out h F k with ⟨_, e⟩ | ⟨g, hgm, _, ⟨_, e⟩ | ⟨g', o, hkg, e⟩⟩
  · rw [e]; exact hx
  · rw [e]; exact hx
  · rw [e]
    refine xdisj_updFolder_sub h hx g.id (fun _ => g') rfl rfl ?_
    intro g0 hg0 hid
    have := folder_eq_of_id h hgm hg0 hid
    subst this
    exact hk g0 g' o hgm hkg

/-- Every request and both halves of a tick keep disjointness. -/
theorem xdisj_step {s : State} (h : Inv s) (hx : XDisj s) (op : Op) : XDisj (step s op).1 := by
  cases op with
  | createFile F x force => exact xdisj_createFile h hx F x force
  | createFolder F => exact xdisj_createFolder h hx F
  | deleteFile F x => exact xdisj_deleteFile h hx F x
  | deleteFolder F => exact xdisj_deleteFolder h hx F
  | restoreFile F x => exact xdisj_restoreFile h hx F x
  | restoreFolder F => exact xdisj_restoreFolder h hx F
  | access F x => exact hx
  | folderVerb F v =>
    simp only [step]
    apply xdisj_viaFolder h hx
    intro g g' o _ hk
    cases v <;> simp [Folder.verb] at hk <;> rw [← hk.1]
    case restore => exact ⟨rfl, FolderSub.of_eq rfl rfl⟩
    all_goals exact ⟨rfl, FolderSub.refl g⟩
  | folderDelete F x =>
    simp only [step]
    apply xdisj_viaFolder h hx
    intro g g' o _ hk
    rcases removeFileByName_spec (g := g) (n := x) with ⟨f, _, _, he⟩ | ⟨_, he⟩
    · rw [he] at hk; simp only [Option.some.injEq, Prod.mk.injEq] at hk
      rw [← hk.1]; exact ⟨removeFile_id g f, folderSub_removeFile g f⟩
    · rw [he] at hk; simp only [Option.some.injEq, Prod.mk.injEq] at hk
      rw [← hk.1]; exact ⟨rfl, FolderSub.refl g⟩
  | fileVerb F x v =>
    simp only [step]
    apply xdisj_viaFolder h hx
    intro g g' o hgm hk
    simp only [Option.some.injEq] at hk
    have e := fileRequest_state (h.folder g (Or.inl hgm)).1 x v
    rw [hk] at e
    simp only at e
    rw [e]; exact ⟨rfl, FolderSub.refl g⟩
  | fsFileVerb F x v => simp only [step]; rw [fsFileVerb_state h]; exact hx
  | preTick => exact hx
  | tick =>
    simp only [step]
    apply xdisj_of_from_same h hx
    apply from_maps _ _ Folder.restoringTimestep id rfl (by simp)
    · intro g hg
      have gi := h.folder g (Or.inl hg)
      exact ⟨(restoringTimestep_spec gi.1 gi.2.1).2.2.1, folderSub_restoringTimestep g⟩
    · intro g _; exact ⟨rfl, FolderSub.refl g⟩

/-! ### the API operations -/

theorem xdisj_getOrCreateFolder {s : State} (h : Inv s) (hx : XDisj s) (G : Name) : XDisj (getOrCreateFolder s G).1 := by
  unfold getOrCreateFolder
  split
  · exact hx
  · exact xdisj_createFolder h hx G

theorem xdisj_apiCopyFile {s : State} (h : Inv s) (hx : XDisj s) (F x G : Name) : XDisj (apiCopyFile s F x G).1 := by
  unfold apiCopyFile
  cases getFile s F x with
  | none => exact hx
  | some f =>
    simp only
    obtain ⟨h1, _, _, _⟩ := getOrCreateFolder_spec h G
    have hx1 := xdisj_getOrCreateFolder h hx G
    generalize getOrCreateFolder s G = r at h1 hx1 ⊢
    apply xdisj_of_from hx1 (fresh_nowhere h1 (Nat.le_refl _)) (n := r.1.next) (k := r.2.id)
    apply from_updFolder r.1.next r.2.id (fun g => g.addFileForced { f with id := r.1.next }) rfl rfl
    intro g0 _ _
    exact ⟨(addFileForced_meta g0 _).1, folderFrom_addFileForced g0 { f with id := r.1.next }⟩

theorem xdisj_apiAddFile {s : State} (h : Inv s) (hx : XDisj s) (F x : Name) (force : Bool) :
    XDisj (apiAddFile s F x force).1 := by
  unfold apiAddFile
  cases getFolder s F with
  | none => exact hx
  | some g =>
    simp only
    split
    · exact hx
    · apply xdisj_of_from hx (fresh_nowhere h (Nat.le_refl _)) (n := s.next) (k := g.id)
      apply from_updFolder s.next g.id (fun g => g.addFileForced { id := s.next, name := x }) rfl rfl
      intro g0 _ _
      exact ⟨(addFileForced_meta g0 _).1, folderFrom_addFileForced g0 { id := s.next, name := x }⟩

theorem xdisj_apiDeleteFileById {s : State} (h : Inv s) (hx : XDisj s) (i j : Nat) : XDisj (apiDeleteFileById s i j).1 := by
  unfold apiDeleteFileById
  split
  · exact hx
  · split
    · exact hx
    · exact xdisj_deleteFile h hx _ _

theorem xdisj_apiDeleteFolderById {s : State} (h : Inv s) (hx : XDisj s) (i : Nat) : XDisj (apiDeleteFolderById s i).1 := by
  unfold apiDeleteFolderById
  split
  · exact hx
  · exact xdisj_deleteFolder h hx _

theorem xdisj_apiRemoveFileById {s : State} (h : Inv s) (hx : XDisj s) (i j : Nat) : XDisj (apiRemoveFileById s i j).1 := by
  unfold apiRemoveFileById
  split
  · exact hx
  · rename_i g _
    split
    · exact hx
    · rename_i f _
      exact xdisj_updFolder_sub h hx g.id (fun g => g.removeFile f) rfl rfl
        (fun g0 _ _ => ⟨removeFile_id g0 f, folderSub_removeFile g0 f⟩)

/-- With disjointness, the side condition of `move_file` holds by itself: the file that moves is not in the destination. -/
theorem moveFresh_of_xdisj {s : State} (h : Inv s) (hx : XDisj s) (F x G : Name) : MoveFresh s F x G := by
  intro f hf hnone a ha
  unfold getFile at hf
  cases hsrc : getFolder s F with
  | none => rw [hsrc] at hf; simp at hf
  | some src =>
    rw [hsrc] at hf
    simp only at hf
    obtain ⟨hsm, _⟩ := getFolder_live hsrc
    obtain ⟨hfm, _⟩ := getFile_live hf
    obtain ⟨h1, hm, _, _⟩ := getOrCreateFolder_spec h G
    have hx1 := xdisj_getOrCreateFolder h hx G
    -- the source folder is still live after get-or-create
    have hsm1 : src ∈ (getOrCreateFolder s G).1.folders := by
      unfold getOrCreateFolder
      cases hg : getFolder s G with
      | some g => exact hsm
      | none =>
        rw [createFolder_eq, hg]
        simp only
        refine (mem_dictSet Folder.id).mpr (Or.inr ⟨hsm, ?_⟩)
        obtain ⟨f1, _⟩ := setDur_fields s { id := s.next, name := G }
        rw [f1]
        exact Nat.ne_of_lt (h.folder src (Or.inl hsm)).2.2
    generalize getOrCreateFolder s G = r at h1 hm hx1 hsm1 hnone ha
    have hne : r.2.id ≠ src.id := by
      intro e
      have := folder_eq_of_id h1 hsm1 (Or.inl hm) e
      rw [this] at hnone
      exact getFile_none hnone f hfm rfl
    exact hx1 r.2 src (Or.inl hm) (Or.inl hsm1) hne a f ha (Or.inl hfm)

theorem xdisj_apiMoveFile {s : State} (h : Inv s) (hx : XDisj s) (F x G : Name) : XDisj (apiMoveFile s F x G).1 := by
  have hfresh := moveFresh_of_xdisj h hx F x G
  unfold apiMoveFile
  cases hsrc : getFolder s F with
  | none => exact hx
  | some src =>
    simp only
    cases hf : src.getFile x with
    | none => exact hx
    | some f =>
      simp only
      have hgf : getFile s F x = some f := by unfold getFile; rw [hsrc]; exact hf
      have hfr := hfresh f hgf
      obtain ⟨hsm, _⟩ := getFolder_live hsrc
      obtain ⟨hfm, _⟩ := getFile_live hf
      obtain ⟨h1, hm, _, _⟩ := getOrCreateFolder_spec h G
      have hx1 := xdisj_getOrCreateFolder h hx G
      have hsm1 : src ∈ (getOrCreateFolder s G).1.folders := by
        unfold getOrCreateFolder
        cases hg : getFolder s G with
        | some g => exact hsm
        | none =>
          rw [createFolder_eq, hg]
          simp only
          refine (mem_dictSet Folder.id).mpr (Or.inr ⟨hsm, ?_⟩)
          obtain ⟨f1, _⟩ := setDur_fields s { id := s.next, name := G }
          rw [f1]
          exact Nat.ne_of_lt (h.folder src (Or.inl hsm)).2.2
      generalize getOrCreateFolder s G = r at h1 hm hx1 hsm1 hfr ⊢
      split
      · exact hx1
      · rename_i hnone
        have hnone' : r.2.getFile f.name = none := by
          cases hq : r.2.getFile f.name with
          | none => rfl
          | some _ => rw [hq] at hnone; simp at hnone
        have si := h1.folder src (Or.inl hsm1)
        have hne : r.2.id ≠ src.id := by
          intro e
          have := folder_eq_of_id h1 hsm1 (Or.inl hm) e
          rw [this] at hnone'
          exact getFile_none hnone' f hfm rfl
        -- step 1: the file leaves the source (no uuid added anywhere)
        have hfrom1 : From r.1.next 0 r.1 (updFolder r.1 src.id (fun g => { g with files := dictPop File.id g.files f.id })) :=
          from_updFolder_same _ _ src.id _ rfl rfl (fun g0 _ _ => ⟨rfl, folderSub_popLive g0 f.id⟩)
        have hx2 := xdisj_of_from_same h1 hx1 hfrom1
        -- after step 1 the uuid is nowhere
        have hnowhere : ∀ g, g ∈ (updFolder r.1 src.id (fun g => { g with files := dictPop File.id g.files f.id })).folders ∨
            g ∈ (updFolder r.1 src.id (fun g => { g with files := dictPop File.id g.files f.id })).deletedFolders →
            ∀ y, y ∈ g.files ∨ y ∈ g.deletedFiles → y.id ≠ f.id := by
          intro g hg y hy
          obtain ⟨g0, hg0, rfl⟩ := mem_updFolder (s := r.1) rfl rfl hg
          by_cases hi : g0.id = src.id
          · have := folder_eq_of_id h1 hsm1 hg0 hi
            subst this
            simp only [beq_self_eq_true, if_true] at hy
            rcases hy with hy | hy
            · exact ((mem_dictPop File.id).mp hy).2
            · exact fun e => si.1.disjoint f hfm y hy e.symm
          · have hb : (g0.id == src.id) = false := by simpa using hi
            simp only [hb] at hy
            exact hx1 g0 src hg0 (Or.inl hsm1) hi y f hy (Or.inl hfm)
        -- step 2: it arrives in the destination
        have hfrom2 := from_updFolder (s := updFolder r.1 src.id (fun g => { g with files := dictPop File.id g.files f.id }))
          (s' := updFolder (updFolder r.1 src.id (fun g => { g with files := dictPop File.id g.files f.id })) r.2.id (fun g => g.addFile f))
          f.id r.2.id (fun g => g.addFile f) rfl rfl (fun g0 _ _ => ⟨rfl, folderFrom_addFile g0 f⟩)
        exact xdisj_of_from hx2 hnowhere hfrom2

/-- Every API operation keeps disjointness — `move_file` included, with no side condition. -/
theorem xdisj_stepApi {s : State} (h : Inv s) (hx : XDisj s) (op : ApiOp) : XDisj (stepApi s op).1 := by
  cases op with
  | createFile F x force => exact xdisj_apiCreateFile h hx F x force
  | copyFile F x G => exact xdisj_apiCopyFile h hx F x G
  | moveFile F x G => exact xdisj_apiMoveFile h hx F x G
  | addFile F x force => exact xdisj_apiAddFile h hx F x force
  | deleteFileById i j => exact xdisj_apiDeleteFileById h hx i j
  | deleteFolderById i => exact xdisj_apiDeleteFolderById h hx i
  | removeFileById i j => exact xdisj_apiRemoveFileById h hx i j

theorem xdisj_init (d : Option Int) : XDisj (init d) := by
  intro g1 g2 hg1 hg2 hne
  simp only [init, List.mem_singleton, List.not_mem_nil, or_false] at hg1 hg2
  subst hg1; subst hg2
  exact absurd rfl hne

end Primaite.FileSystem
