/-
`Inv` is preserved by every operation of `Model/FileSystem.lean` (one lemma per operation).
-/
import PrimaiteModel.Lemmas.FileSystemState
namespace Primaite.FileSystem

/-! ### create_file -/

/-- The last stage of `create_file`: add (or re-add) the file `x` to the live folder `g`. -/
theorem inv_createFileIn {s1 : State} (h : Inv s1) {g : Folder} (hg : g ∈ s1.folders) (x : Name) :
    Inv (createFileIn s1 g x).1 := by
  have gi := h.folder g (Or.inl hg)
  unfold createFileIn
  cases hf : g.getFile x with
  | some f =>
    simp only
    obtain ⟨hfm, _⟩ := getFile_live hf
    refine inv_updFolder h g.id (fun g => g.addFile f) rfl rfl rfl (Nat.le_refl _) ?_
    intro g0 hg0 hid
    have := folder_eq_of_id h hg hg0 hid
    subst this
    exact ⟨rfl, rfl, rfl, folderInv_addFile_existing gi.1 hfm, folderBelow_addFile gi.2.1 (gi.2.1 f (Or.inl hfm))⟩
  | none =>
    simp only
    have hno := getFile_none hf
    refine inv_updFolder h g.id (fun g => g.addFile { id := s1.next, name := x }) rfl rfl rfl (Nat.le_succ _) ?_
    intro g0 hg0 hid
    have := folder_eq_of_id h hg hg0 hid
    subst this
    refine ⟨rfl, rfl, rfl, folderInv_addFile_new gi.1 ?_ (fun a ha => hno a ha) rfl,
      folderBelow_addFile (gi.2.1.mono (Nat.le_succ _)) (Nat.lt_succ_self _)⟩
    intro a ha
    exact Nat.ne_of_lt (gi.2.1 a ha)

/-- The folder `create_file` writes to is live afterwards, and `Inv` holds once it exists. -/
theorem createFileTarget_spec {s : State} (h : Inv s) (F : Name) :
    Inv (createFileTarget s F).1 ∧ ∀ g, (createFileTarget s F).2 = some g → g ∈ (createFileTarget s F).1.folders := by
  unfold createFileTarget
  by_cases hF : F = ""
  · simp only [hF, ne_eq, not_true_eq_false, if_false]
    exact ⟨h, fun g hg => (getFolder_live hg).1⟩
  · simp only [ne_eq, hF, not_false_eq_true, if_true]
    cases hg : getFolder s F with
    | some g => exact ⟨h, fun g' hg' => by cases hg'; exact (getFolder_live hg).1⟩
    | none =>
      have cs := createFolder_spec h F
      exact ⟨cs.1, fun g' hg' => by cases hg'; exact cs.2.1⟩

theorem inv_createFile {s : State} (h : Inv s) (F x : Name) (force : Bool) : Inv (createFile s F x force).1 := by
  unfold createFile
  by_cases hc : (!force && (getFile s (if F = "" then "root" else F) x).isSome) = true
  · rw [if_pos hc]; exact h
  · rw [if_neg hc]
    have ts := createFileTarget_spec h F
    cases heq : createFileTarget s F with
    | mk s1 og =>
      rw [heq] at ts
      cases og with
      | none => exact ts.1
      | some g => exact inv_createFileIn ts.1 (ts.2 g rfl) x

/-! ### delete_file -/

theorem inv_deleteFile {s : State} (h : Inv s) (F x : Name) : Inv (deleteFile s F x).1 := by
  unfold deleteFile
  split
  · exact h
  · cases hg : getFolder s F with
    | none => exact h
    | some g =>
      simp only
      obtain ⟨hgm, _⟩ := getFolder_live hg
      have gi := h.folder g (Or.inl hgm)
      cases hf : g.getFile x with
      | none => exact h
      | some f =>
        simp only
        obtain ⟨hfm, _⟩ := getFile_live hf
        refine inv_updFolder h g.id (fun g => g.removeFile f) rfl rfl rfl (Nat.le_refl _) ?_
        intro g0 hg0 hid
        have := folder_eq_of_id h hgm hg0 hid
        subst this
        refine ⟨?_, ?_, ?_, folderInv_removeFile gi.1 f, folderBelow_removeFile gi.2.1 hfm⟩ <;>
          (unfold Folder.removeFile; split <;> rfl)

/-! ### delete_folder -/

theorem inv_deleteFolder {s : State} (h : Inv s) (F : Name) : Inv (deleteFolder s F).1 := by
  unfold deleteFolder
  cases hg : getFolder s F with
  | none => exact h
  | some g =>
    simp only
    split
    · exact h
    · rename_i hroot
      obtain ⟨hgm, hgn⟩ := getFolder_live hg
      have gi := h.folder g (Or.inl hgm)
      have hg'Inv : FolderInv ({ g with deleted := true }.removeAllFiles) :=
        folderInv_removeAllFiles (gi.1.congr rfl rfl rfl)
      have hg'Below : FolderBelow s.next ({ g with deleted := true }.removeAllFiles) :=
        folderBelow_removeAllFiles (gi.2.1.congr rfl rfl)
      have hg'id : ({ g with deleted := true }.removeAllFiles).id = g.id := rfl
      constructor
      · intro a ha
        simp only at ha
        rcases ha with ha | ha
        · exact h.folder a (Or.inl ((mem_dictPop Folder.id).mp ha).1)
        · rcases (mem_dictSet Folder.id).mp ha with rfl | ⟨ha, _⟩
          · exact ⟨hg'Inv, hg'Below, gi.2.2⟩
          · exact h.folder a (Or.inr ha)
      · exact nodup_dictPop _ h.liveIds
      · exact nodup_dictSet _ h.delIds
      · intro a ha b hb
        simp only at ha hb
        obtain ⟨ha, hane⟩ := (mem_dictPop Folder.id).mp ha
        rcases (mem_dictSet Folder.id).mp hb with rfl | ⟨hb, _⟩
        · exact hane
        · exact h.disjoint a ha b hb
      · intro a ha
        exact h.liveFlag a ((mem_dictPop Folder.id).mp ha).1
      · intro b hb
        simp only at hb
        rcases (mem_dictSet Folder.id).mp hb with rfl | ⟨hb, _⟩
        · rfl
        · exact h.delFlag b hb
      · intro a ha b hb
        exact h.uniqueNames a ((mem_dictPop Folder.id).mp ha).1 b ((mem_dictPop Folder.id).mp hb).1
      · intro a ha
        exact h.routes a ((mem_dictPop Folder.id).mp ha).1
      · obtain ⟨r, hr, hrn⟩ := h.root
        refine ⟨r, (mem_dictPop Folder.id).mpr ⟨hr, ?_⟩, hrn⟩
        intro e
        have := eq_of_key_eq Folder.id h.liveIds hr hgm e
        subst this
        exact hroot (hgn.symm.trans hrn)

/-! ### restore_folder -/

theorem restore_fields (g : Folder) :
    g.restore.id = g.id ∧ g.restore.name = g.name ∧ g.restore.deleted = false ∧ g.restore.files = g.files ∧
    g.restore.deletedFiles = g.deletedFiles ∧ g.restore.fileRoutes = g.fileRoutes := by
  simp [Folder.restore]

theorem inv_restoreFolder {s : State} (h : Inv s) (F : Name) : Inv (restoreFolder s F).1 := by
  unfold restoreFolder
  cases hg : getFolder s F true with
  | none => exact h
  | some g =>
    simp only
    obtain ⟨hgn, hcase⟩ := getFolder_incl hg
    obtain ⟨r1, r2, r3, r4, r5, r6⟩ := restore_fields g
    have hgmem : g ∈ s.folders ∨ g ∈ s.deletedFolders := hcase.imp id (fun x => x.1)
    have gi := h.folder g hgmem
    -- a live folder other than g never carries g's name
    have hother : ∀ a ∈ s.folders, a.id ≠ g.id → a.name ≠ g.name := by
      intro a ha hne hn
      rcases hcase with hl | ⟨_, hno⟩
      · exact hne (h.uniqueNames a ha g hl hn)
      · exact hno a ha (hn.trans hgn)
    constructor
    · intro a ha
      simp only at ha
      rcases ha with ha | ha
      · rcases (mem_dictSet Folder.id).mp ha with rfl | ⟨ha, _⟩
        · exact ⟨gi.1.congr r4 r5 r6, gi.2.1.congr r4 r5, by rw [r1]; exact gi.2.2⟩
        · exact h.folder a (Or.inl ha)
      · exact h.folder a (Or.inr ((mem_dictPop Folder.id).mp ha).1)
    · exact nodup_dictSet _ h.liveIds
    · exact nodup_dictPop _ h.delIds
    · intro a ha b hb
      simp only at ha hb
      obtain ⟨hb, hbne⟩ := (mem_dictPop Folder.id).mp hb
      rcases (mem_dictSet Folder.id).mp ha with rfl | ⟨ha, _⟩
      · rw [r1]; exact fun e => hbne e.symm
      · exact h.disjoint a ha b hb
    · intro a ha
      simp only at ha
      rcases (mem_dictSet Folder.id).mp ha with rfl | ⟨ha, _⟩
      · exact r3
      · exact h.liveFlag a ha
    · intro b hb
      exact h.delFlag b ((mem_dictPop Folder.id).mp hb).1
    · intro a ha b hb hn
      simp only at ha hb
      rcases (mem_dictSet Folder.id).mp ha with ea | ⟨ha', hane⟩ <;>
        rcases (mem_dictSet Folder.id).mp hb with eb | ⟨hb', hbne⟩
      · rw [ea, eb]
      · rw [ea, r2] at hn; rw [r1] at hbne; exact absurd hn.symm (hother b hb' hbne)
      · rw [eb, r2] at hn; rw [r1] at hane; exact absurd hn (hother a ha' hane)
      · exact h.uniqueNames a ha' b hb' hn
    · intro a ha
      simp only at ha ⊢
      rw [lookupRoute_cons]
      rcases (mem_dictSet Folder.id).mp ha with rfl | ⟨ha, hane⟩
      · rw [r2, r1]; simp
      · rw [r1] at hane
        rw [if_neg (fun e => hother a ha hane e.symm)]
        exact h.routes a ha
    · obtain ⟨r, hr, hrn⟩ := h.root
      simp only
      by_cases e : r.id = g.id
      · refine ⟨g.restore, (mem_dictSet Folder.id).mpr (Or.inl rfl), ?_⟩
        rw [r2]
        rcases hcase with hl | ⟨hd, _⟩
        · rw [← eq_of_key_eq Folder.id h.liveIds hr hl e]; exact hrn
        · exact absurd e (h.disjoint r hr g hd)
      · exact ⟨r, (mem_dictSet Folder.id).mpr (Or.inr ⟨hr, by rw [r1]; exact e⟩), hrn⟩

/-! ### restore_file -/

theorem inv_restoreFile {s : State} (h : Inv s) (F x : Name) : Inv (restoreFile s F x).1 := by
  unfold restoreFile
  cases hg : getFolder s F with
  | none => exact h
  | some g =>
    simp only
    obtain ⟨hgm, _⟩ := getFolder_live hg
    have gi := h.folder g (Or.inl hgm)
    cases hf : g.getFile x true with
    | none => exact h
    | some f =>
      simp only
      refine inv_updFolder h g.id (fun g => (g.restoreFile x).1) rfl rfl rfl (Nat.le_refl _) ?_
      intro g0 hg0 hid
      have := folder_eq_of_id h hgm hg0 hid
      subst this
      obtain ⟨m1, m2, m3, _, _⟩ := restoreFile_meta g0 x
      exact ⟨m1, m2, m3, folderInv_restoreFile gi.1 x, folderBelow_restoreFile gi.2.1 x⟩

/-! ### the `folder` route -/

/-- What a passing folder guard gives under `Inv`: the route leads to the live folder of that name. -/
theorem folderGuard_spec {s : State} (h : Inv s) {F : Name} (hguard : folderGuard s F = true) :
    ∃ g, g ∈ s.folders ∧ g.name = F ∧ getFolder s F = some g ∧ lookupRoute s.folderRoutes F = some g.id ∧
      findFolderById s g.id = some g := by
  unfold folderGuard at hguard
  cases hg : getFolder s F with
  | none => simp [hg] at hguard
  | some g =>
    obtain ⟨hgm, hgn⟩ := getFolder_live hg
    refine ⟨g, hgm, hgn, rfl, by rw [← hgn]; exact h.routes g hgm, ?_⟩
    unfold findFolderById
    cases hf : (s.folders ++ s.deletedFolders).find? (fun y => y.id == g.id) with
    | none =>
      have := List.find?_eq_none.mp hf g (List.mem_append.mpr (Or.inl hgm))
      simp at this
    | some g0 =>
      have hid : g0.id = g.id := by simpa using List.find?_some hf
      have hm := List.mem_append.mp (List.mem_of_find?_eq_some hf)
      rw [folder_eq_of_id h hgm hm hid]

theorem folderGuard_false_of_no_live {s : State} {F : Name} (h : ∀ a ∈ s.folders, a.name ≠ F) :
    folderGuard s F = false := by
  unfold folderGuard
  rw [getFolder_none_of h]; rfl

/-- `["folder",F,…]` with a continuation that keeps the routed folder's identity and invariants keeps `Inv`. -/
theorem inv_viaFolder {s : State} (h : Inv s) (F : Name) (k : Folder → Option (Folder × Out))
    (hk : ∀ g g' o, g ∈ s.folders → k g = some (g', o) →
      g'.id = g.id ∧ g'.name = g.name ∧ g'.deleted = g.deleted ∧ FolderInv g' ∧ FolderBelow s.next g') :
    Inv (viaFolder s F k).1 := by
  unfold viaFolder
  split
  · exact h
  · rename_i hguard
    have hguard' : folderGuard s F = true := by simpa using hguard
    obtain ⟨g, hgm, hgn, _, hroute, hfind⟩ := folderGuard_spec h hguard'
    rw [hroute]
    simp only [hfind]
    cases hkg : k g with
    | none => exact h
    | some p =>
      obtain ⟨g', o⟩ := p
      simp only
      refine inv_updFolder h g.id (fun _ => g') rfl rfl rfl (Nat.le_refl _) ?_
      intro g0 hg0 hid
      have := folder_eq_of_id h hgm hg0 hid
      subst this
      exact hk g0 g' o hgm hkg

theorem inv_folderVerb {s : State} (h : Inv s) (F : Name) (v : Verb) :
    Inv (viaFolder s F (fun g => (g.verb v).map (fun (g', b) => (g', ofBool b)))).1 := by
  apply inv_viaFolder h
  intro g g' o hgm hk
  have gi := h.folder g (Or.inl hgm)
  have hlive := h.liveFlag g hgm
  cases v <;> simp [Folder.verb] at hk
  case restore =>
    obtain ⟨r1, r2, r3, r4, r5, r6⟩ := restore_fields g
    rw [← hk.1]
    exact ⟨r1, r2, by rw [r3, hlive], gi.1.congr r4 r5 r6, gi.2.1.congr r4 r5⟩
  all_goals (rw [← hk.1]; exact ⟨rfl, rfl, rfl, gi.1, gi.2.1⟩)

theorem inv_folderDelete {s : State} (h : Inv s) (F x : Name) :
    Inv (viaFolder s F (fun g => let (g', b) := g.removeFileByName x; some (g', ofBool b))).1 := by
  apply inv_viaFolder h
  intro g g' o hgm hk
  have gi := h.folder g (Or.inl hgm)
  rcases removeFileByName_spec (g := g) (n := x) with ⟨f, hfm, _, he⟩ | ⟨_, he⟩
  · rw [he] at hk
    simp only [Option.some.injEq, Prod.mk.injEq] at hk
    rw [← hk.1]
    refine ⟨?_, ?_, ?_, folderInv_removeFile gi.1 f, folderBelow_removeFile gi.2.1 hfm⟩ <;>
      (unfold Folder.removeFile; split <;> rfl)
  · rw [he] at hk
    simp only [Option.some.injEq, Prod.mk.injEq] at hk
    rw [← hk.1]
    exact ⟨rfl, rfl, rfl, gi.1, gi.2.1⟩

theorem inv_fileVerb {s : State} (h : Inv s) (F x : Name) (v : Verb) :
    Inv (viaFolder s F (fun g => some (g.fileRequest x v))).1 := by
  apply inv_viaFolder h
  intro g g' o hgm hk
  have gi := h.folder g (Or.inl hgm)
  simp only [Option.some.injEq] at hk
  have : g' = g := by
    have := fileRequest_state gi.1 x v
    rw [hk] at this
    exact this
  subst this
  exact ⟨rfl, rfl, rfl, gi.1, gi.2.1⟩

/-! ### the `file` route -/

/-- Under `Inv` the fs-level file request never changes the state (it reaches a live file). -/
theorem fsFileVerb_state {s : State} (h : Inv s) (F x : Name) (v : Verb) : (fsFileVerb s F x v).1 = s := by
  unfold fsFileVerb
  cases hg : getFolder s F with
  | none => rfl
  | some g =>
    simp only
    obtain ⟨hgm, _⟩ := getFolder_live hg
    have gi := h.folder g (Or.inl hgm)
    cases hf : g.getFile x with
    | none => rfl
    | some f =>
      simp only
      obtain ⟨hfm, _⟩ := getFile_live hf
      have hfl := gi.1.liveFlag f hfm
      cases hv : f.verb v with
      | none => rfl
      | some p =>
        obtain ⟨f', b⟩ := p
        simp only
        have hf' : f' = f := by
          cases v <;> simp [File.verb] at hv <;> try exact hv.1.symm
          · rw [File.restore_of_live hfl] at hv; exact hv.1.symm
        subst hf'
        have e1 : ∀ g0 : Folder, g0 ∈ s.folders ∨ g0 ∈ s.deletedFolders → g0.id = g.id →
            { g0 with files := g0.files.map (fun y => if y.id == f'.id then f' else y) } = g0 := by
          intro g0 hg0 hid
          have := folder_eq_of_id h hgm hg0 hid
          subst this
          rw [map_replace_self File.id gi.1.liveIds hfm]
        have e2 : s.folders.map (fun g0 => if g0.id == g.id then
            { g0 with files := g0.files.map (fun y => if y.id == f'.id then f' else y) } else g0) = s.folders := by
          conv => rhs; rw [← List.map_id s.folders]
          apply List.map_congr_left
          intro a ha
          by_cases hk : a.id = g.id
          · simp only [hk, beq_self_eq_true, if_true, id]
            rw [← hk]; exact e1 a (Or.inl ha) hk
          · simp [hk]
        have e3 : s.deletedFolders.map (fun g0 => if g0.id == g.id then
            { g0 with files := g0.files.map (fun y => if y.id == f'.id then f' else y) } else g0) = s.deletedFolders := by
          conv => rhs; rw [← List.map_id s.deletedFolders]
          apply List.map_congr_left
          intro a ha
          by_cases hk : a.id = g.id
          · simp only [hk, beq_self_eq_true, if_true, id]
            rw [← hk]; exact e1 a (Or.inr ha) hk
          · simp [hk]
        unfold updFolder
        simp only [e2, e3]

/-! ### ticks -/

theorem inv_tick {s : State} (h : Inv s) : Inv { s with folders := s.folders.map Folder.restoringTimestep } := by
  refine inv_of_maps h Folder.restoringTimestep id rfl (by simp) rfl (Nat.le_refl _) ?_ ?_
  · intro g hg
    have gi := h.folder g (Or.inl hg)
    obtain ⟨a, b, c, d, e⟩ := restoringTimestep_spec gi.1 gi.2.1
    exact ⟨c, d, e (h.liveFlag g hg), a, b⟩
  · intro g hg
    have gi := h.folder g (Or.inr hg)
    exact ⟨rfl, h.delFlag g hg, gi.1, gi.2.1⟩

end Primaite.FileSystem
