/-
C03 — the COMMITTED discharge table of the nondeterminism inventory.

`Gen/Nondet.lean` is regenerated from the source tree on every run (harness/extract/nondet.py): the list of SITES and, per
site, a FACT the extractor established mechanically (generator family and evaluation time of a draw, constant argument of
`secrets.token_urlsafe`, the sinks a clock reading flows to, the keyword a set display is passed as, the module being
outside the import closure of the runtime, the iteration sites of a declared set name, int-valued elements, `hash()`
being the body of `__hash__`).  This file is written by hand: it names, for every site, WHY the site cannot make two runs
differ.  Three bases (`Discharge.basis`):

  * `lemma`       the reason is a statement about the model, proved below (`Discharge.Justified`);
  * `mechanical`  the reason has a premise ABOUT THE CODE that is a Gen fact (`Discharge.supportedBy`, checked by
                  `C03_facts_support_discharges` in Props/C03.lean) plus a lemma for the KIND of discharge;
  * `trusted`     as `mechanical`, but the conclusion additionally rests on a runtime fact outside this development (CPython
                  hashes an int to itself; pydantic only tests membership in `exclude=`; Python calls `__hash__` only to place
                  a key); those are exercised by the probe / cross-process rigs.

`Props/C03.lean` proves `Gen.Nondet.sites = table.map (·.1)`, so a site that is new, moved, renamed or gone is an undischarged
obligation until this table is edited — deliberately, after looking at the new site
(python -m harness.extract.nondet --skeleton prints the current sites).
-/
import PrimaiteModel.Gen.Nondet
import PrimaiteModel.Gen.NondetSeeding
import PrimaiteModel.Lemmas.Noninterf
import PrimaiteModel.Lemmas.NoninterfSites
import PrimaiteModel.Lemmas.NoninterfTopo
import PrimaiteModel.Lemmas.NoninterfOwnState
import PrimaiteModel.Props.C10

namespace Primaite.Noninterf
open Primaite.Gen.Nondet

inductive Discharge
  /-- uuid4 string / generated MAC address: an opaque token, used as dictionary key and compared for equality, printed
  with a fixed width. Lemma: the interpreter answers `idEq` identically under every injective naming, and the canonical
  trajectory is invariant under injective renaming. (That no identifier is ORDERED or SLICED is the absence of `idOrder` /
  unexplained `idText` sites in the inventory.) -/
  | idToken
  /-- `secrets.token_urlsafe(n)` with a CONSTANT n (Gen fact): the text has the fixed width ⌈4n/3⌉, so it cannot make two
  frames differ in size; it is carried as an opaque ICMP payload. -/
  | fixedLenSecret
  /-- an unseeded reading whose TEXT reaches `Frame.size` (clock stamps of a frame, the time inside an NTP reply, the generated ICMP
  identifier). Finding F-9, REPAIRED: the text has a constant width (Gen facts: the reading is stored in a datetime field whose
  model serialises it with `isoformat(timespec='microseconds')`; the identifier is drawn from 10000..65535 = five digits), so
  `StampLenAgree` holds for every pair of environments. -/
  | fixedWidthReading
  /-- a clock reading whose value flows only into a directory name, a `show()` table or a log call (Gen fact: the sinks of
  a forward data-flow); it never reaches a frame size. -/
  | clockNotRead
  /-- a draw, made when a function is CALLED (not at import), from a generator family that `set_random_seed` seeds, or from
  a Generator derived from such a draw (Gen facts): the stream is a function of the seed, it is not part of `ρ`. -/
  | seededRng
  /-- the seeding call itself, with the argument `seed` (Gen fact) -/
  | seeding
  /-- `getstate` / `setstate` of a process-wide generator inside the decorator `own_generator_state` (Gen fact `stateAccess … inWrapper`;
  the decorator's shape - restore both generators before the wrapped operation, save both afterwards under the same key, applied to
  `__init__` / `reset` / `step` - is the Gen obligation `C03_gen_own_generator_state`): not a draw. The state read is the one the
  environment's own operation just left, the state written is the one its own last operation left: INSTANCE-LOCAL by construction.
  Lemma (`runOwned_eq_runOps`): with these accesses around every operation, whatever else uses the process-wide generators in between
  cannot move a draw - the run IS the run of the environment's operations alone. -/
  | ownGeneratorState
  /-- a draw from an unseeded generator inside `if generate_seed_value:` (Gen fact): executed only when the configuration
  asks for a generated seed — outside the property's hypothesis "same configured seed"; with `generate_seed_value = False`
  `set_random_seed` never seeds from entropy (lemma over the regenerated shape). -/
  | unseededByConfig
  /-- `hash(self.uuid)` is the body of a `__hash__` method (Gen fact): Python uses it to place the object in a dict / set;
  dict iteration is insertion-ordered, and every iteration of a set is an inventory site of its own. -/
  | hashNotIterated
  /-- `hash(x)` as an expression statement inside `try … except TypeError` (Gen fact `valueDiscarded`): the value is thrown away; only
  whether the call raises — hashability, a property of the argument's TYPE, not of PYTHONHASHSEED — reaches the program -/
  | hashValueDiscarded
  /-- a module outside the import closure of session/environment.py, session/ray_envs.py and game/game.py (Gen fact) -/
  | offline
  /-- `sorted(s)` (Gen fact `sortedConsumer`: the set is the argument of the built-in sort): the result is a function of the
  ELEMENTS, not of the iteration order (lemma `sortedIter_invariant`) -/
  | setSorted
  /-- set → loop → list → `set(...)` (the loop is TRANSLATED from the source: Gen/NondetLoops.lean, `C03_gen_loops_order_free`) -/
  | setToSet
  /-- the loop body has no effect -/
  | setNoEffect
  /-- only `len()` of the result is used -/
  | setLengthOnly
  /-- a dict is built from the set and only read by key -/
  | setDictByKey
  /-- the literal `set()` handed to a call (Gen fact `emptySetLiteral`), or: the set is never written (Gen fact `neverWritten`: no assignment, mutator call or constructor keyword of that
  attribute name in the tree): always empty -/
  | setEmpty
  /-- a set display with one constant element (Gen fact `singletonDisplay`) -/
  | setSingleton
  /-- the set display is the `exclude=` keyword of pydantic's `model_dump` (Gen fact): membership tests only -/
  | setMembershipOnly
  /-- a set whose element annotation resolves to `int` (`Port`; Gen fact): CPython hashes an int to itself, so the
  iteration order is a function of the inserted values and their order, not of PYTHONHASHSEED (TRUSTED CPython fact; checked
  by the probe rig in three interpreters) -/
  | setIntHash
  /-- neighbour order of the reward-sharing graph in `topological_sort`: every dependencies-first order computes the same
  rewards (lemma below); the result IS dependencies-first for every neighbour order (C10_graph_order_irrelevant). The order is
  consumed ONLY by the reward loop (Gen obligation `C03_gen_order_consumers` over the regenerated `orderUses`). -/
  | setTopo
  /-- neighbour order in `graph_has_cycle`: two graphs with the same arcs are both cyclic or both acyclic
  (C10_graph_order_irrelevant) -/
  | setCycleCheck
  /-- declaration of a set-valued name; the Gen fact lists every iteration / escape of the name, and each of them is a site
  with a discharge of its own (`C03_decl_uses_discharged`) -/
  | setDeclCovered
  /-- the lower-cased text of a MAC address is only compared for equality with another address (Gen fact `cmpEqOnly`) -/
  | idTextEqOnly
  deriving DecidableEq, Repr

inductive Basis | lemma | mechanical | trusted | openFinding
  deriving DecidableEq, Repr

def Discharge.basis : Discharge → Basis
  | .fixedWidthReading | .fixedLenSecret | .clockNotRead | .seededRng | .seeding | .unseededByConfig | .offline | .setDeclCovered | .setEmpty
  | .setSingleton | .hashValueDiscarded | .setSorted
  -- since round 7 the premise "the code's loop IS this consumer" is a Gen fact too: the loop is translated from the source and checked
  -- well-formed with the matching use (`C03_gen_loops_order_free`, Props/C03Loops.lean); a set DECLARATION with `setLengthOnly` must
  -- have no iteration / escape site at all (`declUses []`)
  | .setToSet | .setNoEffect | .setLengthOnly | .setDictByKey | .ownGeneratorState => .mechanical
  | .hashNotIterated | .setMembershipOnly | .setIntHash | .idTextEqOnly => .trusted
  | _ => .lemma

/-- kept for the evidence: reasons that rest on anything but a lemma or a mechanical fact -/
def Discharge.byReading (d : Discharge) : Bool := d.basis == .trusted

/-- the datetime fields that are part of a Frame's JSON (the frame's own stamps, and the time inside an NTP reply it carries) -/
def frameDatetimeFields : List String := ["sent_timestamp", "received_timestamp", "ntp_datetime"]

/-- does every model field of that name have the fixed-width serialiser (regenerated table `datetimeFields`)? -/
def serialisedFixedWidth (field : String) : Bool :=
  (datetimeFields.any fun d => d.2.2.1 == field) && (datetimeFields.all fun d => d.2.2.1 != field || d.2.2.2)

/-- The premise about the CODE that a reason needs, as a test on the regenerated fact of its site. -/
def Discharge.supportedBy : Discharge → Fact → Bool
  | .fixedWidthReading, .storedIn fs =>
    -- the reading is stored in (at least) one datetime field of a frame, and every such field it may be stored in is serialised with
    -- a constant width
    (fs.any fun f => frameDatetimeFields.contains f) && (fs.all fun f => !frameDatetimeFields.contains f || serialisedFixedWidth f)
  | .fixedWidthReading, .boundedSecret lo hi => lo == 10000 && hi == 65535
  | .fixedWidthReading, _ => false
  | .fixedLenSecret, .constSecret n => tokenUrlsafeLen n == 32      -- the ICMP payload: 24 bytes, 32 characters
  | .fixedLenSecret, _ => false
  | .clockNotRead, .sinks l => l.all fun s => s == "path" || s == "show" || s == "log"
  | .clockNotRead, _ => false
  | .seededRng, .draw fam atCall guarded => atCall && !guarded && (fam == .py || fam == .np || fam == .derivedNp || fam == .torch)
  | .seededRng, _ => false
  | .seeding, .seedCall _ arg atCall => arg == "seed" && atCall
  | .seeding, _ => false
  | .ownGeneratorState, .stateAccess fam _ atCall inWrapper => atCall && inWrapper && (fam == .py || fam == .np)
  | .ownGeneratorState, _ => false
  | .unseededByConfig, .draw fam _ guarded => fam == .entropy && guarded
  | .unseededByConfig, _ => false
  | .hashNotIterated, .hashDunder _ => true
  | .hashNotIterated, _ => false
  | .hashValueDiscarded, .valueDiscarded => true
  | .hashValueDiscarded, _ => false
  | .offline, .offlineModule => true
  | .offline, _ => false
  | .setMembershipOnly, .kwarg callee kw => callee == "model_dump" && kw == "exclude"
  | .setMembershipOnly, _ => false
  | .setIntHash, .intSet _ => true
  | .setIntHash, _ => false
  | .setDeclCovered, .declUses _ => true
  | .setDeclCovered, _ => false
  | .idTextEqOnly, .cmpEqOnly => true
  | .idTextEqOnly, _ => false
  | .setSingleton, .singletonDisplay => true
  | .setSingleton, _ => false
  | .setSorted, .sortedConsumer => true
  | .setSorted, _ => false
  | .setEmpty, .neverWritten => true
  | .setEmpty, .emptySetLiteral => true
  | .setEmpty, .declUses _ => true      -- the declaration; its iteration carries `neverWritten`
  | .setEmpty, _ => false
  | .setLengthOnly, .declUses idx => idx.isEmpty   -- a declared set that is only ever `len()`-ed: no iteration / escape site names it
  | _, _ => true

/-- The statement behind each reason. -/
def Discharge.Justified : Discharge → Prop
  | .idToken =>
    (∀ (ι ι' : Type) [DecidableEq ι] [DecidableEq ι'] (g : Fixed) (ρ : Rho ι) (ρ' : Rho ι'), ρ.Valid → ρ'.Valid →
      ∀ (a b : Nat) (k : Bool → Prog Nat) (w : World), (∀ r, (k r).Safe g.seeds (StampLenAgree g ρ ρ')) →
        interp g ρ (.idEq a b k) w = interp g ρ' (.idEq a b k) w) ∧
    (∀ (f : Nat → Nat), (∀ a b, f a = f b → a = b) → ∀ ls : List (List (Tok Nat)),
      canonRun [] (ls.map fun l => l.map (Tok.map f)) = canonRun [] ls)
  | .fixedWidthReading =>
    -- a fixed-width text makes the side condition true of ALL environments, and a frame sized from readings independent of them;
    -- five-digit identifiers have a text of width 5
    (∀ (g : Fixed), g.FixedWidth → ∀ (ι ι' : Type) (ρ : Rho ι) (ρ' : Rho ι'), StampLenAgree g ρ ρ') ∧
    (∀ (ι ι' : Type) [DecidableEq ι] [DecidableEq ι'] (g : Fixed) (ρ : Rho ι) (ρ' : Rho ι'), ρ.Valid → ρ'.Valid → g.FixedWidth →
      ∀ (base : Nat) (hs : List Nat) (k : Nat → Prog Nat) (w : World), (∀ n, (k n).Safe g.seeds True) →
        interp g ρ (.frameSize base hs k) w = interp g ρ' (.frameSize base hs k) w) ∧
    (∀ n : Nat, 10000 ≤ n → n ≤ 65535 → decimalLen n = 5)
  | .fixedLenSecret =>
    -- readings whose text has a fixed width satisfy the side condition whatever the environments
    ∀ (g : Fixed) (width : Nat), (∀ t, g.textLen t = width) →
      ∀ (ι ι' : Type) (ρ : Rho ι) (ρ' : Rho ι'), StampLenAgree g ρ ρ'
  | .clockNotRead =>
    -- a program that never sizes a frame from a reading does not depend on the clock at all
    ∀ (ι ι' : Type) [DecidableEq ι] [DecidableEq ι'] (g : Fixed) (ρ : Rho ι) (ρ' : Rho ι'), ρ.Valid → ρ'.Valid →
      ∀ (p : Prog Nat) (w : World), p.Safe g.seeds False → interp g ρ p w = interp g ρ' p w
  | .seededRng =>
    ∀ (ι ι' : Type) [DecidableEq ι] [DecidableEq ι'] (g : Fixed) (ρ : Rho ι) (ρ' : Rho ι'), ρ.Valid → ρ'.Valid →
      ∀ (f : Fam) (n : Nat) (k : Nat → Prog Nat) (w : World), g.seeds f = true → (∀ r, (k r).Safe g.seeds (StampLenAgree g ρ ρ')) →
        interp g ρ (.rand f n k) w = interp g ρ' (.rand f n k) w
  | .seeding =>
    -- after `set_random_seed(s)` the generators do not depend on where they were
    ∀ (g : Fixed) (s : Nat) (w w' : World), resetRng g (some s) w = resetRng g (some s) w'
  | .ownGeneratorState =>
    -- operations wrapped in restore-own / save-own: foreign draws (any family, any number, anywhere) are dead, and so is the
    -- process-wide state the environment finds
    (∀ (ι Cfg σ Act : Type) [DecidableEq ι] (g : Fixed) (ρ : Rho ι) (sim : Sim Cfg σ Act) (sched : Nat → Cfg) (ops : List (Op Act))
        (q : OProc σ), runOwned g ρ sim sched q ops = runOps g ρ sim sched q.install (dropForeign ops)) ∧
    (∀ (ι Cfg σ Act : Type) [DecidableEq ι] (g : Fixed) (ρ : Rho ι) (sim : Sim Cfg σ Act) (sched : Nat → Cfg) (q : OProc σ)
        (r : Fam → Nat) (ops : List (Op Act)),
        runOwned g ρ sim sched { q with p := { q.p with w := { q.p.w with rng := r } } } ops = runOwned g ρ sim sched q ops)
  | .unseededByConfig =>
    -- without `generate_seed_value`, neither `set_random_seed` nor `reset` ever seeds from entropy
    ∀ x : Option Int, codeShape.setRandomSeed x false ≠ .fromEntropy ∧ codeShape.resetAct x false ≠ .fromEntropy
  | .setSorted => Invariant sortedIter
  | .setToSet => ∀ lookup, Invariant (listenPorts lookup)
  | .setNoEffect => Invariant noEffect
  | .setLengthOnly => Invariant lengthOnly
  | .setDictByKey => ∀ f keys, Invariant (dictByKey f keys)
  | .setEmpty => ∀ (ι : Type) (ρ : Rho ι), ρ.Valid → ∀ (c : List Nat → List Nat) (k : Nat), c (ρ.perm k []) = c []
  | .setSingleton => ∀ (ι : Type) (ρ : Rho ι), ρ.Valid → ∀ (c : List Nat → List Nat) (k a : Nat), c (ρ.perm k [a]) = c [a]
  | .setTopo =>
    (∀ (g : Graph) (own cur : Nat → Int) (l₁ l₂ : List Nat), l₁.Nodup → l₂.Nodup → l₁.Perm l₂ →
      DepsFirstFrom g [] l₁ → DepsFirstFrom g [] l₂ → evalRewards g own l₁ cur = evalRewards g own l₂ cur) ∧
    (∀ (g g' : RewardGraph.Graph Name), (∀ u v, v ∈ RewardGraph.nbrs g u ↔ v ∈ RewardGraph.nbrs g' u) →
      RewardGraph.hasCycle g = false → RewardGraph.DepsFirst g' (RewardGraph.topoSort g))
  | .setCycleCheck =>
    ∀ (g g' : RewardGraph.Graph Name), (∀ u v, v ∈ RewardGraph.nbrs g u ↔ v ∈ RewardGraph.nbrs g' u) →
      RewardGraph.hasCycle g = RewardGraph.hasCycle g'
  | _ => True

theorem setRandomSeed_no_entropy (x : Option Int) :
    codeShape.setRandomSeed x false ≠ .fromEntropy ∧ codeShape.resetAct x false ≠ .fromEntropy := by
  cases x with
  | none => simp [codeShape, SeedShape.setRandomSeed, SeedShape.resetAct, SeedTest.eval]
  | some n =>
    by_cases h1 : n = -1
    · subst h1; simp [codeShape, SeedShape.setRandomSeed, SeedShape.resetAct, SeedTest.eval]
    · by_cases h2 : n < -1
      · simp [codeShape, SeedShape.setRandomSeed, SeedShape.resetAct, SeedTest.eval, h1, h2]
      · by_cases h3 : n.toNat < 4294967296
        · simp [codeShape, SeedShape.setRandomSeed, SeedShape.resetAct, SeedTest.eval, h1, h2, h3]
        · simp [codeShape, SeedShape.setRandomSeed, SeedShape.resetAct, SeedTest.eval, h1, h2, h3]

theorem Discharge.justified : ∀ d : Discharge, d.Justified := by
  intro d
  cases d <;> simp only [Discharge.Justified] <;> try trivial
  case idToken =>
    refine ⟨?_, ?_⟩
    · intro ι ι' _ _ g ρ ρ' hv hv' a b k w hk
      exact interp_indep g hv hv' _ w hk
    · intro f hf ls
      simpa using canonRun_map_inj f hf ls []
  case fixedWidthReading =>
    refine ⟨fun g hw ι ι' ρ ρ' k k' => hw _ _, ?_, ?_⟩
    · intro ι ι' _ _ g ρ ρ' hv hv' hw base hs k w hk
      have hl : StampLenAgree g ρ ρ' := fun k k' => hw _ _
      exact interp_indep g hv hv' _ w ⟨.inr hl, fun n => Prog.Safe.mono (fun _ => hl) (hk n)⟩
    · intro n h1 h2
      unfold decimalLen
      have a1 : ¬ n < 10 := by omega
      have a2 : ¬ n < 100 := by omega
      have a3 : ¬ n < 1000 := by omega
      have a4 : ¬ n < 10000 := by omega
      have a5 : n < 100000 := by omega
      simp [a1, a2, a3, a4, a5]
  case fixedLenSecret =>
    intro g width hw ι ι' ρ ρ' k k'
    rw [hw, hw]
  case clockNotRead =>
    intro ι ι' _ _ g ρ ρ' hv hv' p w hp
    exact interp_indep g hv hv' p w (Prog.Safe.mono False.elim hp)
  case seededRng =>
    intro ι ι' _ _ g ρ ρ' hv hv' f n k w hf hk
    exact interp_indep g hv hv' _ w ⟨hf, hk⟩
  case seeding => intro g s w w'; rfl
  case ownGeneratorState =>
    exact ⟨fun ι Cfg σ Act _ g ρ sim sched ops q => runOwned_eq_runOps g ρ sim sched ops q,
           fun ι Cfg σ Act _ g ρ sim sched q r ops => runOwned_process_state_irrelevant g ρ sim sched q r ops⟩
  case unseededByConfig => exact setRandomSeed_no_entropy
  case setSorted => exact sortedIter_invariant
  case setToSet => exact listenPorts_invariant
  case setNoEffect => exact noEffect_invariant
  case setLengthOnly => exact lengthOnly_invariant
  case setDictByKey => exact dictByKey_invariant
  case setEmpty => exact fun ι ρ hv c k => empty_set_any_consumer hv c k
  case setSingleton => exact fun ι ρ hv c k a => singleton_set_any_consumer hv c k a
  case setTopo =>
    exact ⟨evalRewards_order_indep, fun g g' h hb => (Reward.C10_graph_order_irrelevant g g' h).2 hb⟩
  case setCycleCheck => exact fun g g' h => (Reward.C10_graph_order_irrelevant g g' h).1

/-- site ↦ reason, in the order of the regenerated inventory -/
def table : List (Site × Discharge) := [
  (⟨"__init__.py", "_PrimaitePaths.generate_episode_log_file_path", .clock, "datetime.datetime.now()", 0⟩, .clockNotRead),
  (⟨"game/agent/scripted_agents/TAP001.py", "TAP001._select_target_ip", .pyRandom, "random.choice(self.config.agent_settings.target_ips)", 0⟩, .seededRng),
  (⟨"game/agent/scripted_agents/TAP001.py", "TAP001._update_next_scan_target", .pyRandom, "random.randint(0, len(self.config.agent_settings.kill_chain.PROPAGATE.network_addresses...", 0⟩, .seededRng),
  (⟨"game/agent/scripted_agents/TAP003.py", "TAP003.AgentSettingsSchema.check_network_knowledge_covers_targets", .setEscape, "call get <- set()", 0⟩, .setEmpty),
  (⟨"game/agent/scripted_agents/TAP003.py", "TAP003.AgentSettingsSchema.check_network_knowledge_covers_targets", .setEscape, "call get <- set()", 1⟩, .setEmpty),
  (⟨"game/agent/scripted_agents/TAP003.py", "TAP003.AgentSettingsSchema.check_network_knowledge_covers_targets", .setIter, "sorted <- keys - set(credentials.get(host, {}))", 0⟩, .setSorted),
  (⟨"game/agent/scripted_agents/TAP003.py", "TAP003.AgentSettingsSchema.check_network_knowledge_covers_targets", .setIter, "sorted <- start_nodes", 0⟩, .setSorted),
  (⟨"game/agent/scripted_agents/abstract_tap.py", "AbstractTAP._select_start_node", .pyRandom, "random.choice(self.config.agent_settings.starting_nodes)", 0⟩, .seededRng),
  (⟨"game/agent/scripted_agents/abstract_tap.py", "AbstractTAP._set_next_execution_timestep", .pyRandom, "random.randint(-self.config.agent_settings.variance, self.config.agent_settings.variance)", 0⟩, .seededRng),
  (⟨"game/agent/scripted_agents/probabilistic_agent.py", "ProbabilisticAgent", .npRandom, "np.random.default_rng(np.random.randint(0, 65535))", 0⟩, .seededRng),
  (⟨"game/agent/scripted_agents/probabilistic_agent.py", "ProbabilisticAgent", .npRandom, "np.random.randint(0, 65535)", 0⟩, .seededRng),
  (⟨"game/agent/scripted_agents/probabilistic_agent.py", "ProbabilisticAgent.get_action", .rngMethod, "self.rng.choice(len(self.action_manager.action_map), p=self.probabilities)", 0⟩, .seededRng),
  (⟨"game/agent/scripted_agents/random_agent.py", "PeriodicAgent._set_next_execution_timestep", .pyRandom, "random.randint(-variance, variance)", 0⟩, .seededRng),
  (⟨"game/agent/scripted_agents/random_agent.py", "PeriodicAgent.start_node", .pyRandom, "random.choice(self.config.agent_settings.possible_start_nodes)", 0⟩, .seededRng),
  (⟨"game/agent/scripted_agents/random_agent.py", "RandomAgent", .npRandom, "np.random.default_rng(np.random.randint(0, 65535))", 0⟩, .seededRng),
  (⟨"game/agent/scripted_agents/random_agent.py", "RandomAgent", .npRandom, "np.random.randint(0, 65535)", 0⟩, .seededRng),
  (⟨"game/agent/scripted_agents/random_agent.py", "RandomAgent.get_action", .rngMethod, "self.rng.integers(0, 65535)", 0⟩, .seededRng),
  (⟨"game/agent/scripted_agents/random_agent.py", "RandomAgent.get_action", .spaceSample, "space.sample()", 0⟩, .seededRng),
  (⟨"game/game.py", "PrimaiteGame.from_config._set_software_listen_on_ports", .setDecl, "software.listen_on_ports : set(listen_on_ports)", 0⟩, .setDeclCovered),
  (⟨"game/game.py", "PrimaiteGame.from_config._set_software_listen_on_ports", .setIter, "for <- set(software_cfg.get('options', {}).get('listen_on_ports', []))", 0⟩, .setToSet),
  (⟨"game/science.py", "graph_has_cycle", .setDecl, "parameter graph receives a container of sets", 0⟩, .setDeclCovered),
  (⟨"game/science.py", "graph_has_cycle.depth_first_search", .setIter, "for <- graph.get(node, [])", 0⟩, .setCycleCheck),
  (⟨"game/science.py", "simulate_trial", .pyRandom, "random()", 0⟩, .seededRng),
  (⟨"game/science.py", "topological_sort", .setDecl, "parameter graph receives a container of sets", 0⟩, .setDeclCovered),
  (⟨"game/science.py", "topological_sort.dfs", .setIter, "for <- graph.get(node, [])", 0⟩, .setTopo),
  (⟨"session/environment.py", "own_generator_state.wrapper", .npRandom, "np.random.get_state()", 0⟩, .ownGeneratorState),
  (⟨"session/environment.py", "own_generator_state.wrapper", .npRandom, "np.random.set_state(own[1])", 0⟩, .ownGeneratorState),
  (⟨"session/environment.py", "own_generator_state.wrapper", .pyRandom, "random.getstate()", 0⟩, .ownGeneratorState),
  (⟨"session/environment.py", "own_generator_state.wrapper", .pyRandom, "random.setstate(own[0])", 0⟩, .ownGeneratorState),
  (⟨"session/environment.py", "set_random_seed", .npRandom, "np.random.default_rng()", 0⟩, .unseededByConfig),
  (⟨"session/environment.py", "set_random_seed", .npRandom, "np.random.seed(seed)", 0⟩, .seeding),
  (⟨"session/environment.py", "set_random_seed", .pyRandom, "random.seed(seed)", 0⟩, .seeding),
  (⟨"session/environment.py", "set_random_seed", .rngMethod, "rng.integers(low=0, high=2 ** 32 - 1)", 0⟩, .unseededByConfig),
  (⟨"session/environment.py", "set_random_seed", .torchRandom, "th.manual_seed(seed)", 0⟩, .seeding),
  (⟨"session/episode_schedule.py", "build_scheduler", .setIter, "dictcomp <- files_to_load", 0⟩, .setDictByKey),
  (⟨"session/ray_envs.py", "PrimaiteRayMARLEnv.__init__", .setDecl, "self.terminateds : set()", 0⟩, .setLengthOnly),
  (⟨"session/ray_envs.py", "PrimaiteRayMARLEnv.__init__", .setDecl, "self.truncateds : set()", 0⟩, .setLengthOnly),
  (⟨"setup/reset_demo_notebooks.py", "run", .fsOrder, "primaite_root.glob('**/*.ipynb')", 0⟩, .offline),
  (⟨"setup/reset_example_configs.py", "run", .fsOrder, "os.walk(configs_package_data_root)", 0⟩, .offline),
  (⟨"simulator/__init__.py", "_SimOutput.__init__", .clock, "datetime.now()", 0⟩, .clockNotRead),
  (⟨"simulator/__init__.py", "_SimOutput.__init__", .clock, "datetime.now()", 1⟩, .clockNotRead),
  (⟨"simulator/core.py", "SimComponent", .uuid, "uuid4()", 0⟩, .idToken),
  (⟨"simulator/core.py", "_is_hashable", .hashBuiltin, "hash(request_key)", 0⟩, .hashValueDiscarded),
  (⟨"simulator/file_system/file_system.py", "FileSystem.copy_file", .setEscape, "call model_dump <- {'uuid', 'folder_id', 'folder_name', 'sim_path'}", 0⟩, .setMembershipOnly),
  (⟨"simulator/file_system/file_type.py", "FileType.random", .pyRandom, "choice(list(FileType))", 0⟩, .seededRng),
  (⟨"simulator/network/hardware/base.py", "NetworkInterface.__hash__", .hashBuiltin, "hash(self.uuid)", 0⟩, .hashNotIterated),
  (⟨"simulator/network/hardware/base.py", "generate_mac_address", .secrets, "secrets.randbits(8)", 0⟩, .idToken),
  (⟨"simulator/network/hardware/nodes/network/router.py", "ACLRule.__str__", .setEscape, "call model_dump <- {'uuid', 'request_manager'}", 0⟩, .setMembershipOnly),
  (⟨"simulator/network/hardware/nodes/network/router.py", "RouteTable.add_route", .setIter, "for <- {address, subnet_mask, next_hop_ip_address}", 0⟩, .setNoEffect),
  (⟨"simulator/network/hardware/nodes/network/router.py", "RouterICMP._process_icmp_echo_request", .secrets, "secrets.token_urlsafe(int(32 / 1.3))", 0⟩, .fixedLenSecret),
  (⟨"simulator/network/hardware/nodes/network/switch.py", "Switch.receive_frame", .idText, "dst_mac.lower()", 0⟩, .idTextEqOnly),
  (⟨"simulator/network/protocols/icmp.py", "ICMPPacket.__init__", .secrets, "secrets.randbelow(55536)", 0⟩, .fixedWidthReading),
  (⟨"simulator/network/transmission/data_link_layer.py", "Frame.is_broadcast", .idText, "self.ethernet.dst_mac_addr.lower()", 0⟩, .idTextEqOnly),
  (⟨"simulator/network/transmission/data_link_layer.py", "Frame.set_received_timestamp", .clock, "datetime.now()", 0⟩, .fixedWidthReading),
  (⟨"simulator/network/transmission/data_link_layer.py", "Frame.set_sent_timestamp", .clock, "datetime.now()", 0⟩, .fixedWidthReading),
  (⟨"simulator/system/applications/application.py", "Application", .setDecl, "groups : Set[str]", 0⟩, .setEmpty),
  (⟨"simulator/system/applications/application.py", "Application.describe_state", .setIter, "list <- self.groups", 0⟩, .setEmpty),
  (⟨"simulator/system/applications/database_client.py", "DatabaseClient._query", .uuid, "uuid4()", 0⟩, .idToken),
  (⟨"simulator/system/applications/database_client.py", "DatabaseClient.get_new_connection", .uuid, "uuid4()", 0⟩, .idToken),
  (⟨"simulator/system/applications/database_client.py", "DatabaseClient.query", .uuid, "uuid4()", 0⟩, .idToken),
  (⟨"simulator/system/applications/nmap.py", "NMAP.ping_scan", .setIter, "sorted <- ip_addresses", 0⟩, .setSorted),
  (⟨"simulator/system/applications/nmap.py", "NMAP.port_scan", .setIter, "for <- set(target_port)", 0⟩, .setIntHash),
  (⟨"simulator/system/applications/nmap.py", "NMAP.port_scan", .setIter, "list <- ip_addresses", 0⟩, .setLengthOnly),
  (⟨"simulator/system/applications/nmap.py", "NMAP.port_scan", .setIter, "sorted <- ip_addresses", 0⟩, .setSorted),
  (⟨"simulator/system/applications/red_applications/c2/abstract_c2.py", "AbstractC2.ConfigSchema", .setDecl, "listen_on_ports : Set[Port]", 0⟩, .setDeclCovered),
  (⟨"simulator/system/applications/red_applications/c2/c2_beacon.py", "C2Beacon._init_request_manager._configure", .setEscape, "call RequestResponse <- {'No C2 Server IP given to C2 beacon. Unable to configure C2 Beacon'}", 0⟩, .setSingleton),
  (⟨"simulator/system/core/software_manager.py", "SoftwareManager.get_open_ports", .setIter, "list <- software.listen_on_ports", 0⟩, .setIntHash),
  (⟨"simulator/system/services/database/database_service.py", "DatabaseService._generate_connection_id", .uuid, "uuid4()", 0⟩, .idToken),
  (⟨"simulator/system/services/icmp/icmp.py", "ICMP._process_icmp_echo_request", .secrets, "secrets.token_urlsafe(int(32 / 1.3))", 0⟩, .fixedLenSecret),
  (⟨"simulator/system/services/icmp/icmp.py", "ICMP._send_icmp_echo_request", .secrets, "secrets.token_urlsafe(int(32 / 1.3))", 0⟩, .fixedLenSecret),
  (⟨"simulator/system/services/ntp/ntp_server.py", "NTPServer.receive", .clock, "datetime.now()", 0⟩, .fixedWidthReading),
  (⟨"simulator/system/services/terminal/terminal.py", "Terminal._create_local_connection", .clock, "datetime.now()", 0⟩, .clockNotRead),
  (⟨"simulator/system/services/terminal/terminal.py", "Terminal._create_remote_connection", .clock, "datetime.now()", 0⟩, .clockNotRead),
  (⟨"simulator/system/services/terminal/terminal.py", "Terminal._send_remote_login", .uuid, "uuid4()", 0⟩, .idToken),
  (⟨"simulator/system/software.py", "IOSoftware", .setDecl, "listen_on_ports : Set[Port]", 0⟩, .setDeclCovered),
  (⟨"simulator/system/software.py", "IOSoftware.ConfigSchema", .setDecl, "listen_on_ports : Set[Port]", 0⟩, .setDeclCovered),
  (⟨"simulator/system/software.py", "IOSoftware.__init__", .setDecl, "self.listen_on_ports : self.config.listen_on_ports", 0⟩, .setDeclCovered),
  (⟨"simulator/system/software.py", "IOSoftware.add_connection", .clock, "datetime.now()", 0⟩, .clockNotRead)
]

end Primaite.Noninterf
