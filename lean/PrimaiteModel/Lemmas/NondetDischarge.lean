/-
C03 — the COMMITTED discharge table of the nondeterminism inventory.

`Gen/Nondet.lean` is regenerated from the source tree on every run (harness/extract/nondet.py).  This file is written by
hand: it names, for every site of the inventory, WHY the site cannot make two runs differ.  `Discharge.Justified` maps
each reason to the statement of the lemma that carries it (proved below from Lemmas/Noninterf*.lean), or to `True` for the
reasons that are established by reading the code only (`Discharge.byReading`; they are counted separately in the
evidence and exercised by the cross-process rig).  `Props/C03.lean` proves `Gen.Nondet.sites = table.map (·.1)`, so a
site that is new, moved, renamed or gone is an undischarged obligation until this table is edited — deliberately, after
looking at the new site (python -m harness.extract.nondet --skeleton prints the current sites).
-/
import PrimaiteModel.Gen.Nondet
import PrimaiteModel.Lemmas.Noninterf
import PrimaiteModel.Lemmas.NoninterfSites
import PrimaiteModel.Lemmas.NoninterfTopo

namespace Primaite.Noninterf
open Primaite.Gen.Nondet

inductive Discharge
  /-- uuid4 string / generated MAC address: an opaque token, used as dictionary key and compared for equality, printed
  with a fixed width. Lemma: the interpreter answers `idEq` identically under every injective naming, and the canonical
  trajectory is invariant under injective renaming. -/
  | idToken
  /-- `secrets.token_urlsafe(24)`: always 32 characters, carried as an opaque ICMP payload, never inspected (by reading). -/
  | fixedLenSecret
  /-- an unseeded reading whose TEXT LENGTH reaches `Frame.size` (clock stamp with/without microseconds; ICMP identifier of
  1..5 digits; NTP reply time): OPEN FINDING F-9. The theorems carry the hypothesis `StampLenAgree`. -/
  | readingLenF9
  /-- clock reading used for a log/session directory name or stored in a connection record that only `show()` prints (by reading). -/
  | clockNotRead
  /-- a draw from Python's / numpy's global generator or from a generator derived from it: the stream is a function of the
  seed (`Fixed.next`, `Fixed.seed`), it is not part of `ρ`. -/
  | seededRng
  /-- the seeding call itself -/
  | seeding
  /-- `np.random.default_rng()` without a seed: executed only when the configuration has no seed and asks for a generated
  one — outside the property's hypothesis "same configured seed" (by reading `set_random_seed`). -/
  | unseededByConfig
  /-- `__hash__` from the uuid: network interfaces are only used as dictionary keys / in membership tests, no set of them is
  iterated (by reading; dict iteration is insertion-ordered whatever the hash). -/
  | hashNotIterated
  /-- `hash(x)` called inside `try/except TypeError` only to test whether `x` is hashable; the value is discarded, the function
  returns a `bool` that depends on the TYPE of `x` alone (by reading `simulator/core.py:_is_hashable`). -/
  | hashValueDiscarded
  /-- package set-up scripts that copy example files; not reachable from an environment run (by reading). -/
  | offline
  /-- `for x in sorted(s)` -/
  | setSorted
  /-- set → loop → list → `set(...)` -/
  | setToSet
  /-- the loop body has no effect -/
  | setNoEffect
  /-- only `len()` of the result is used -/
  | setLengthOnly
  /-- a dict is built from the set and only read by key -/
  | setDictByKey
  /-- the set is never written: always empty -/
  | setEmpty
  /-- a set display with one element -/
  | setSingleton
  /-- the set is handed to pydantic's `exclude=` : membership tests only (by reading) -/
  | setMembershipOnly
  /-- a set of small `int`s (ports): CPython hashes an int to itself, so the iteration order is a function of the
  inserted values and their order, not of PYTHONHASHSEED (TRUSTED CPython fact; checked by the cross-process rig) -/
  | setIntHash
  /-- neighbour order of the reward-sharing graph in `topological_sort`: every dependencies-first order computes the same
  rewards (lemma below); that the result IS dependencies-first for every neighbour order is C10's theorem -/
  | setTopo
  /-- neighbour order in `graph_has_cycle`: the answer is "a cycle is reachable", whatever the visiting order (C10's
  `hasCycle_iff`; here by reading) -/
  | setCycleCheck
  /-- declaration of a set-valued name; every iteration of it is a listed `setIter` site of its own -/
  | setDeclCovered
  deriving DecidableEq, Repr

/-- Reasons that rest on reading the code / a trusted runtime fact, not on a lemma of this development. -/
def Discharge.byReading : Discharge → Bool
  | .fixedLenSecret | .clockNotRead | .unseededByConfig | .hashNotIterated | .hashValueDiscarded | .offline | .setMembershipOnly
  | .setIntHash | .setCycleCheck | .setDeclCovered | .seeding => true
  | _ => false

/-- The statement behind each reason. -/
def Discharge.Justified : Discharge → Prop
  | .idToken =>
    (∀ (ι ι' : Type) [DecidableEq ι] [DecidableEq ι'] (g : Fixed) (ρ : Rho ι) (ρ' : Rho ι'), ρ.Valid → ρ'.Valid →
      ∀ (a b : Nat) (k : Bool → Prog Nat) (w : World), (∀ r, (k r).Safe (StampLenAgree g ρ ρ')) →
        interp g ρ (.idEq a b k) w = interp g ρ' (.idEq a b k) w) ∧
    (∀ (f : Nat → Nat), (∀ a b, f a = f b → a = b) → ∀ ls : List (List (Tok Nat)),
      canonRun [] (ls.map fun l => l.map (Tok.map f)) = canonRun [] ls)
  | .readingLenF9 =>
    ∀ (ι ι' : Type) [DecidableEq ι] [DecidableEq ι'] (g : Fixed) (ρ : Rho ι) (ρ' : Rho ι'), ρ.Valid → ρ'.Valid →
      StampLenAgree g ρ ρ' → ∀ (base : Nat) (hs : List Nat) (k : Nat → Prog Nat) (w : World),
        (∀ n, (k n).Safe (StampLenAgree g ρ ρ')) →
        interp g ρ (.frameSize base hs k) w = interp g ρ' (.frameSize base hs k) w
  | .seededRng =>
    ∀ (ι ι' : Type) [DecidableEq ι] [DecidableEq ι'] (g : Fixed) (ρ : Rho ι) (ρ' : Rho ι'), ρ.Valid → ρ'.Valid →
      ∀ (n : Nat) (k : Nat → Prog Nat) (w : World), (∀ r, (k r).Safe (StampLenAgree g ρ ρ')) →
        interp g ρ (.rand n k) w = interp g ρ' (.rand n k) w
  | .setSorted => Invariant sortedIter
  | .setToSet => ∀ lookup, Invariant (listenPorts lookup)
  | .setNoEffect => Invariant noEffect
  | .setLengthOnly => Invariant lengthOnly
  | .setDictByKey => ∀ f keys, Invariant (dictByKey f keys)
  | .setEmpty => ∀ (ι : Type) (ρ : Rho ι), ρ.Valid → ∀ (c : List Nat → List Nat) (k : Nat), c (ρ.perm k []) = c []
  | .setSingleton => ∀ (ι : Type) (ρ : Rho ι), ρ.Valid → ∀ (c : List Nat → List Nat) (k a : Nat), c (ρ.perm k [a]) = c [a]
  | .setTopo =>
    ∀ (g : Graph) (own cur : Nat → Int) (l₁ l₂ : List Nat), l₁.Nodup → l₂.Nodup → l₁.Perm l₂ →
      DepsFirstFrom g [] l₁ → DepsFirstFrom g [] l₂ → evalRewards g own l₁ cur = evalRewards g own l₂ cur
  | _ => True

theorem Discharge.justified : ∀ d : Discharge, d.Justified := by
  intro d
  cases d <;> simp only [Discharge.Justified] <;> try trivial
  case idToken =>
    refine ⟨?_, ?_⟩
    · intro ι ι' _ _ g ρ ρ' hv hv' a b k w hk
      exact interp_indep g hv hv' _ w hk
    · intro f hf ls
      simpa using canonRun_map_inj f hf ls []
  case readingLenF9 =>
    intro ι ι' _ _ g ρ ρ' hv hv' hl base hs k w hk
    exact interp_indep g hv hv' _ w ⟨.inr hl, hk⟩
  case seededRng =>
    intro ι ι' _ _ g ρ ρ' hv hv' n k w hk
    exact interp_indep g hv hv' _ w hk
  case setSorted => exact sortedIter_invariant
  case setToSet => exact listenPorts_invariant
  case setNoEffect => exact noEffect_invariant
  case setLengthOnly => exact lengthOnly_invariant
  case setDictByKey => exact dictByKey_invariant
  case setEmpty => exact fun ι ρ hv c k => empty_set_any_consumer hv c k
  case setSingleton => exact fun ι ρ hv c k a => singleton_set_any_consumer hv c k a
  case setTopo => exact evalRewards_order_indep

/-- site ↦ reason, in the order of the regenerated inventory -/
def table : List (Site × Discharge) := [
  (⟨"__init__.py", "_PrimaitePaths.generate_episode_log_file_path", .clock, "datetime.datetime.now()", 0⟩, .clockNotRead),
  (⟨"game/agent/scripted_agents/TAP001.py", "TAP001._select_target_ip", .pyRandom, "random.choice(self.config.agent_settings.target_ips)", 0⟩, .seededRng),
  (⟨"game/agent/scripted_agents/TAP001.py", "TAP001._update_next_scan_target", .pyRandom, "random.randint(0, len(self.config.agent_settings.kill_chain.PROPAGATE.network_addresses...", 0⟩, .seededRng),
  (⟨"game/agent/scripted_agents/abstract_tap.py", "AbstractTAP._select_start_node", .pyRandom, "random.choice(self.config.agent_settings.starting_nodes)", 0⟩, .seededRng),
  (⟨"game/agent/scripted_agents/abstract_tap.py", "AbstractTAP._set_next_execution_timestep", .pyRandom, "random.randint(-self.config.agent_settings.variance, self.config.agent_settings.variance)", 0⟩, .seededRng),
  (⟨"game/agent/scripted_agents/probabilistic_agent.py", "ProbabilisticAgent", .npRandom, "np.random.default_rng(np.random.randint(0, 65535))", 0⟩, .seededRng),
  (⟨"game/agent/scripted_agents/probabilistic_agent.py", "ProbabilisticAgent", .npRandom, "np.random.randint(0, 65535)", 0⟩, .seededRng),
  (⟨"game/agent/scripted_agents/probabilistic_agent.py", "ProbabilisticAgent.get_action", .rngMethod, "self.rng.choice(len(self.action_manager.action_map), p=self.probabilities)", 0⟩, .seededRng),
  (⟨"game/agent/scripted_agents/random_agent.py", "PeriodicAgent._set_next_execution_timestep", .pyRandom, "random.randint(-variance, variance)", 0⟩, .seededRng),
  (⟨"game/agent/scripted_agents/random_agent.py", "PeriodicAgent.start_node", .pyRandom, "random.choice(self.config.agent_settings.possible_start_nodes)", 0⟩, .seededRng),
  (⟨"game/game.py", "PrimaiteGame.from_config._set_software_listen_on_ports", .setDecl, "software.listen_on_ports : set(listen_on_ports)", 0⟩, .setDeclCovered),
  (⟨"game/game.py", "PrimaiteGame.from_config._set_software_listen_on_ports", .setIter, "for <- set(software_cfg.get('options', {}).get('listen_on_ports', []))", 0⟩, .setToSet),
  (⟨"game/science.py", "graph_has_cycle", .setDecl, "parameter graph receives a container of sets", 0⟩, .setDeclCovered),
  (⟨"game/science.py", "graph_has_cycle.depth_first_search", .setIter, "for <- graph.get(node, [])", 0⟩, .setCycleCheck),
  (⟨"game/science.py", "simulate_trial", .pyRandom, "random()", 0⟩, .seededRng),
  (⟨"game/science.py", "topological_sort", .setDecl, "parameter graph receives a container of sets", 0⟩, .setDeclCovered),
  (⟨"game/science.py", "topological_sort.dfs", .setIter, "for <- graph.get(node, [])", 0⟩, .setTopo),
  (⟨"session/environment.py", "set_random_seed", .npRandom, "np.random.default_rng()", 0⟩, .unseededByConfig),
  (⟨"session/environment.py", "set_random_seed", .npRandom, "np.random.seed(seed)", 0⟩, .seeding),
  (⟨"session/environment.py", "set_random_seed", .pyRandom, "random.seed(seed)", 0⟩, .seeding),
  (⟨"session/environment.py", "set_random_seed", .rngMethod, "rng.integers(low=0, high=2 ** 32 - 1)", 0⟩, .unseededByConfig),
  (⟨"session/episode_schedule.py", "build_scheduler", .setIter, "dictcomp <- files_to_load", 0⟩, .setDictByKey),
  (⟨"session/ray_envs.py", "PrimaiteRayMARLEnv.__init__", .setDecl, "self.terminateds : set()", 0⟩, .setLengthOnly),
  (⟨"session/ray_envs.py", "PrimaiteRayMARLEnv.__init__", .setDecl, "self.truncateds : set()", 0⟩, .setLengthOnly),
  (⟨"setup/reset_demo_notebooks.py", "run", .fsOrder, "primaite_root.glob('**/*.ipynb')", 0⟩, .offline),
  (⟨"setup/reset_example_configs.py", "run", .fsOrder, "os.walk(configs_package_data_root)", 0⟩, .offline),
  (⟨"simulator/__init__.py", "_SimOutput.__init__", .clock, "datetime.now()", 0⟩, .clockNotRead),
  (⟨"simulator/__init__.py", "_SimOutput.__init__", .clock, "datetime.now()", 1⟩, .clockNotRead),
  (⟨"simulator/core.py", "SimComponent", .uuid, "uuid4()", 0⟩, .idToken),
  (⟨"simulator/core.py", "_is_hashable", .hashBuiltin, "hash(request_key)", 0⟩, .hashValueDiscarded),
  (⟨"simulator/file_system/file_system.py", "FileSystem.copy_file", .setEscape, "call model_dump <- {'uuid', 'folder_id', 'folder_name', 'sim_path'}", 0⟩, .setMembershipOnly),
  (⟨"simulator/file_system/file_type.py", "FileType.random", .pyRandom, "choice(list(FileType))", 0⟩, .seededRng),
  (⟨"simulator/network/hardware/base.py", "NetworkInterface.__hash__", .hashBuiltin, "hash(self.uuid)", 0⟩, .hashNotIterated),
  (⟨"simulator/network/hardware/base.py", "generate_mac_address", .secrets, "secrets.randbits(8)", 0⟩, .idToken),
  (⟨"simulator/network/hardware/nodes/network/router.py", "ACLRule.__str__", .setEscape, "call model_dump <- {'uuid', 'request_manager'}", 0⟩, .setMembershipOnly),
  (⟨"simulator/network/hardware/nodes/network/router.py", "RouteTable.add_route", .setIter, "for <- {address, subnet_mask, next_hop_ip_address}", 0⟩, .setNoEffect),
  (⟨"simulator/network/hardware/nodes/network/router.py", "RouterICMP._process_icmp_echo_request", .secrets, "secrets.token_urlsafe(int(32 / 1.3))", 0⟩, .fixedLenSecret),
  (⟨"simulator/network/protocols/icmp.py", "ICMPPacket.__init__", .secrets, "secrets.randbits(16)", 0⟩, .readingLenF9),
  (⟨"simulator/network/transmission/data_link_layer.py", "Frame.set_received_timestamp", .clock, "datetime.now()", 0⟩, .readingLenF9),
  (⟨"simulator/network/transmission/data_link_layer.py", "Frame.set_sent_timestamp", .clock, "datetime.now()", 0⟩, .readingLenF9),
  (⟨"simulator/system/applications/application.py", "Application", .setDecl, "groups : Set[str]", 0⟩, .setEmpty),
  (⟨"simulator/system/applications/application.py", "Application.describe_state", .setIter, "list <- self.groups", 0⟩, .setEmpty),
  (⟨"simulator/system/applications/database_client.py", "DatabaseClient._query", .uuid, "uuid4()", 0⟩, .idToken),
  (⟨"simulator/system/applications/database_client.py", "DatabaseClient.get_new_connection", .uuid, "uuid4()", 0⟩, .idToken),
  (⟨"simulator/system/applications/database_client.py", "DatabaseClient.query", .uuid, "uuid4()", 0⟩, .idToken),
  (⟨"simulator/system/applications/nmap.py", "NMAP.ping_scan", .setIter, "sorted <- ip_addresses", 0⟩, .setSorted),
  (⟨"simulator/system/applications/nmap.py", "NMAP.port_scan", .setIter, "for <- set(target_port)", 0⟩, .setIntHash),
  (⟨"simulator/system/applications/nmap.py", "NMAP.port_scan", .setIter, "list <- ip_addresses", 0⟩, .setLengthOnly),
  (⟨"simulator/system/applications/nmap.py", "NMAP.port_scan", .setIter, "sorted <- ip_addresses", 0⟩, .setSorted),
  (⟨"simulator/system/applications/red_applications/c2/abstract_c2.py", "AbstractC2.ConfigSchema", .setDecl, "listen_on_ports : Set[Port]", 0⟩, .setDeclCovered),
  (⟨"simulator/system/applications/red_applications/c2/c2_beacon.py", "C2Beacon._init_request_manager._configure", .setEscape, "call RequestResponse <- {'No C2 Server IP given to C2 beacon. Unable to configure C2 Beacon'}", 0⟩, .setSingleton),
  (⟨"simulator/system/core/software_manager.py", "SoftwareManager.get_open_ports", .setIter, "list <- software.listen_on_ports", 0⟩, .setIntHash),
  (⟨"simulator/system/services/database/database_service.py", "DatabaseService._generate_connection_id", .uuid, "uuid4()", 0⟩, .idToken),
  (⟨"simulator/system/services/icmp/icmp.py", "ICMP._process_icmp_echo_request", .secrets, "secrets.token_urlsafe(int(32 / 1.3))", 0⟩, .fixedLenSecret),
  (⟨"simulator/system/services/icmp/icmp.py", "ICMP._send_icmp_echo_request", .secrets, "secrets.token_urlsafe(int(32 / 1.3))", 0⟩, .fixedLenSecret),
  (⟨"simulator/system/services/ntp/ntp_server.py", "NTPServer.receive", .clock, "datetime.now()", 0⟩, .readingLenF9),
  (⟨"simulator/system/services/terminal/terminal.py", "Terminal._create_local_connection", .clock, "datetime.now()", 0⟩, .clockNotRead),
  (⟨"simulator/system/services/terminal/terminal.py", "Terminal._create_remote_connection", .clock, "datetime.now()", 0⟩, .clockNotRead),
  (⟨"simulator/system/services/terminal/terminal.py", "Terminal._send_remote_login", .uuid, "uuid4()", 0⟩, .idToken),
  (⟨"simulator/system/software.py", "IOSoftware", .setDecl, "listen_on_ports : Set[Port]", 0⟩, .setDeclCovered),
  (⟨"simulator/system/software.py", "IOSoftware.ConfigSchema", .setDecl, "listen_on_ports : Set[Port]", 0⟩, .setDeclCovered),
  (⟨"simulator/system/software.py", "IOSoftware.__init__", .setDecl, "self.listen_on_ports : self.config.listen_on_ports", 0⟩, .setDeclCovered),
  (⟨"simulator/system/software.py", "IOSoftware.add_connection", .clock, "datetime.now()", 0⟩, .clockNotRead)
]

end Primaite.Noninterf
