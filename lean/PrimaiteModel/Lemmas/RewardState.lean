/-
Facts about the Python-value primitives of Model/RewardState.lean:
`access` on a state projected on a set of key paths (`restrict`) equals `access` on the whole state, for every path of the set.
-/
import PrimaiteModel.Model.RewardState
namespace Primaite.Reward
namespace PyVal

theorem mem_subPaths {paths : List (List String)} {k : String} {ks : List String} (h : (k :: ks) ∈ paths) :
    ks ∈ subPaths paths k := by
  unfold subPaths
  rw [List.mem_filterMap]
  exact ⟨k :: ks, h, by simp⟩

theorem lookup_restrictKvs (kvs : List (PyKey × PyVal)) (paths : List (List String)) (k : String) :
    (restrictKvs kvs paths).lookup (.str k) =
      if (subPaths paths k).isEmpty then Option.none
      else (kvs.lookup (.str k)).map (fun v => restrict v (subPaths paths k)) := by
  induction kvs with
  | nil => simp [restrictKvs]
  | cons kv r ih =>
    obtain ⟨key, v⟩ := kv
    cases key with
    | str s =>
      simp only [restrictKvs]
      by_cases hs : s = k
      · subst hs
        by_cases he : (subPaths paths s).isEmpty = true
        · simp only [he, if_true, ih]
        · simp only [he, Bool.false_eq_true, if_false, List.lookup_cons_self, Option.map_some]
      · have hne : (PyKey.str k == PyKey.str s) = false := by
          simp [Ne.symm hs]
        by_cases he : (subPaths paths s).isEmpty = true
        · simp only [he, if_true]
          rw [ih, List.lookup_cons, hne]
        · simp only [he, Bool.false_eq_true, if_false]
          rw [List.lookup_cons, hne, ih, List.lookup_cons, hne]
    | int i =>
      simp only [restrictKvs]
      rw [ih, List.lookup_cons]
      have : (PyKey.str k == PyKey.int i) = false := by simp
      rw [this]
    | other o =>
      simp only [restrictKvs]
      rw [ih, List.lookup_cons]
      have : (PyKey.str k == PyKey.other o) = false := by simp
      rw [this]

/-- **Projection is invisible to `access_from_nested_dict`.** For every path of the set the projected state answers exactly
as the whole state (value, `NOT_PRESENT_IN_STATE`, or the same exception). -/
theorem access_restrict (p : List String) : ∀ (v : PyVal) (paths : List (List String)), p ∈ paths →
    access (restrict v paths) p = access v p := by
  induction p with
  | nil =>
    intro v paths h
    have hany : paths.any List.isEmpty = true := List.any_eq_true.mpr ⟨[], h, rfl⟩
    cases v <;> simp [restrict, hany]
  | cons k ks ih =>
    intro v paths h
    cases v with
    | dict kvs =>
      simp only [restrict]
      split
      · rfl
      · simp only [access]
        rw [lookup_restrictKvs]
        have hm := mem_subPaths h
        have hne : (subPaths paths k).isEmpty = false := by
          cases hsp : subPaths paths k with
          | nil => rw [hsp] at hm; cases hm
          | cons _ _ => rfl
        simp only [hne, Bool.false_eq_true, if_false]
        cases hl : List.lookup (PyKey.str k) kvs with
        | none => rfl
        | some v' => exact ih v' _ hm
    | _ => simp [restrict]

end PyVal
end Primaite.Reward
