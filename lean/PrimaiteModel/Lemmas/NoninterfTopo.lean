/-
C03, reward-sharing graph site: the dependency sets of the reward-sharing graph are Python `set`s of agent names, so the
order in which `topological_sort` visits an agent's neighbours — and with it the evaluation order of the rewards — may
differ between processes.  Lemma: EVERY duplicate-free dependencies-first order over the same agents computes the same
reward table.  (That `topological_sort` returns such an order for every neighbour order is C10's theorem.)
-/
import PrimaiteModel.Model.Noninterf

namespace Primaite.Noninterf

/-- Every agent's dependencies were evaluated strictly earlier (or are in `done`). -/
def DepsFirstFrom (g : Graph) (done l : List Nat) : Prop :=
  ∀ l₁ u l₂, l = l₁ ++ u :: l₂ → ∀ v ∈ nbrs g u, v ∈ done ∨ v ∈ l₁

theorem DepsFirstFrom.head {g : Graph} {done t : List Nat} {a : Nat} (h : DepsFirstFrom g done (a :: t)) :
    ∀ v ∈ nbrs g a, v ∈ done := by
  intro v hv
  rcases h [] a t rfl v hv with h | h
  · exact h
  · simp at h

theorem DepsFirstFrom.tail {g : Graph} {done t : List Nat} {a : Nat} (h : DepsFirstFrom g done (a :: t)) :
    DepsFirstFrom g (a :: done) t := by
  intro l₁ u l₂ e v hv
  rcases h (a :: l₁) u l₂ (by simp [e]) v hv with h | h
  · exact .inl (List.mem_cons_of_mem _ h)
  · rcases List.mem_cons.mp h with rfl | h
    · exact .inl (by simp)
    · exact .inr h

def upd (tbl : Nat → Int) (a : Nat) (v : Int) : Nat → Int := fun x => if x = a then v else tbl x

theorem evalRewards_cons (g : Graph) (own : Nat → Int) (a : Nat) (t : List Nat) (cur : Nat → Int) :
    evalRewards g own (a :: t) cur = evalRewards g own t (upd cur a (own a + ((nbrs g a).map cur).sum)) := rfl

/-- After the loop: agents outside the order keep their value; every agent in the order satisfies its equation
`reward a = own a + Σ reward (shared-from agents)` with the FINAL values. -/
theorem evalRewards_spec (g : Graph) (own : Nat → Int) :
    ∀ (l done : List Nat) (cur : Nat → Int), (∀ a ∈ l, a ∉ done) → l.Nodup → DepsFirstFrom g done l →
      (∀ x, x ∉ l → evalRewards g own l cur x = cur x) ∧
      (∀ a ∈ l, evalRewards g own l cur a = own a + ((nbrs g a).map (evalRewards g own l cur)).sum)
  | [], _, _, _, _, _ => ⟨fun _ _ => rfl, fun _ h => by simp at h⟩
  | a :: t, done, cur, hd, hn, hdf => by
    have hat : a ∉ t := (List.nodup_cons.mp hn).1
    obtain ⟨ih1, ih2⟩ := evalRewards_spec g own t (a :: done) (upd cur a (own a + ((nbrs g a).map cur).sum))
      (by
        intro b hb hmem
        rcases List.mem_cons.mp hmem with rfl | h
        · exact hat hb
        · exact hd b (List.mem_cons_of_mem _ hb) h)
      (List.nodup_cons.mp hn).2 hdf.tail
    rw [evalRewards_cons]
    refine ⟨?_, ?_⟩
    · intro x hx
      have hxa : x ≠ a := fun e => hx (by simp [e])
      have hxt : x ∉ t := fun h => hx (List.mem_cons_of_mem _ h)
      rw [ih1 x hxt]
      simp [upd, hxa]
    · intro b hb
      rcases List.mem_cons.mp hb with rfl | hb
      · rw [ih1 b hat]
        have hu : upd cur b (own b + ((nbrs g b).map cur).sum) b = own b + ((nbrs g b).map cur).sum := by simp [upd]
        rw [hu]
        congr 1
        congr 1
        apply List.map_congr_left
        intro d hdm
        have hdd : d ∈ done := hdf.head d hdm
        have hda : d ≠ b := fun e => hd b (by simp) (e ▸ hdd)
        have hdt : d ∉ t := fun h => hd d (List.mem_cons_of_mem _ h) hdd
        rw [ih1 d hdt]
        simp [upd, hda]
      · exact ih2 b hb

/-- Two tables that satisfy the equations on `l`, and agree on `done`, agree on `l`. -/
theorem equations_unique (g : Graph) (own : Nat → Int) (T₁ T₂ : Nat → Int) :
    ∀ (l done : List Nat), DepsFirstFrom g done l → (∀ x ∈ done, T₁ x = T₂ x) →
      (∀ a ∈ l, T₁ a = own a + ((nbrs g a).map T₁).sum) → (∀ a ∈ l, T₂ a = own a + ((nbrs g a).map T₂).sum) →
      ∀ a ∈ l, T₁ a = T₂ a
  | [], _, _, _, _, _ => fun _ h => by simp at h
  | b :: t, done, hdf, hdone, h1, h2 => by
    have hb : T₁ b = T₂ b := by
      rw [h1 b (by simp), h2 b (by simp)]
      congr 1
      congr 1
      exact List.map_congr_left (fun d hd => hdone d (hdf.head d hd))
    have ih := equations_unique g own T₁ T₂ t (b :: done) hdf.tail
      (by
        intro x hx
        rcases List.mem_cons.mp hx with rfl | hx
        · exact hb
        · exact hdone x hx)
      (fun a ha => h1 a (List.mem_cons_of_mem _ ha)) (fun a ha => h2 a (List.mem_cons_of_mem _ ha))
    intro a ha
    rcases List.mem_cons.mp ha with rfl | ha
    · exact hb
    · exact ih a ha

/-- **The reward table does not depend on which dependencies-first order is used.** -/
theorem evalRewards_order_indep (g : Graph) (own cur : Nat → Int) (l₁ l₂ : List Nat)
    (hn₁ : l₁.Nodup) (hn₂ : l₂.Nodup) (hp : l₁.Perm l₂)
    (hd₁ : DepsFirstFrom g [] l₁) (hd₂ : DepsFirstFrom g [] l₂) :
    evalRewards g own l₁ cur = evalRewards g own l₂ cur := by
  obtain ⟨a1, a2⟩ := evalRewards_spec g own l₁ [] cur (by simp) hn₁ hd₁
  obtain ⟨b1, b2⟩ := evalRewards_spec g own l₂ [] cur (by simp) hn₂ hd₂
  funext x
  by_cases hx : x ∈ l₁
  · exact equations_unique g own _ _ l₁ [] hd₁ (by simp) a2 (fun a ha => b2 a ((hp.mem_iff).mp ha)) x hx
  · rw [a1 x hx, b1 x (fun h => hx ((hp.mem_iff).mpr h))]

end Primaite.Noninterf
