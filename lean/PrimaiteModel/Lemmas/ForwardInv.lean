/-
Invariant machinery for C08's run-level addressee theorem: static configuration, sound ARP caches, sound frames.
Core Lean only.
-/
import PrimaiteModel.Model.Forward
import PrimaiteModel.Props.C08
namespace Primaite.Forward
open Primaite.Route (findBestRoute Table)

/-- what the interpreter never changes. -/
structure NodeCfg where
  kind : Kind
  ifaces : List Iface
  gateway : Option Ip
  routes : Table

def Node.cfg (nd : Node) : NodeCfg := ⟨nd.kind, nd.ifaces, nd.gateway, nd.routes⟩
def cfgOf (st : St) : List NodeCfg := st.nodes.map Node.cfg

/-- `mac` is the MAC of an interface that carries `ip`, or of some router interface. -/
def SoundPair (c : List NodeCfg) (ip : Ip) (mac : Mac) : Prop :=
  ∃ (m j : Nat) (b : Iface) (nc : NodeCfg), c[m]? = some nc ∧ nc.ifaces[j]? = some b ∧ b.mac = mac ∧
    (b.ip = ip ∨ nc.kind = .router)

/-- node `m` has an interface with address `ip`. -/
def Owns (c : List NodeCfg) (m : Nat) (ip : Ip) : Prop :=
  ∃ (nc : NodeCfg) (b : Iface), c[m]? = some nc ∧ b ∈ nc.ifaces ∧ b.ip = ip

def IsRouter (c : List NodeCfg) (n : Nat) : Prop := ∃ nc, c[n]? = some nc ∧ nc.kind = .router

/-- `t` is a next hop that node configuration `nc` may hand a frame to. -/
def IsNextHop (nc : NodeCfg) (t : Ip) : Prop :=
  nc.gateway = some t ∨ nc.routes.default = some t ∨ ∃ r ∈ nc.routes.routes, r.nextHop = t

structure GoodCfg (c : List NodeCfg) : Prop where
  uniqueMacs : ∀ (n m i j : Nat) (nc mc : NodeCfg) (a b : Iface), c[n]? = some nc → nc.ifaces[i]? = some a →
    c[m]? = some mc → mc.ifaces[j]? = some b → a.mac = b.mac → n = m ∧ i = j
  realMacs : ∀ (n i : Nat) (nc : NodeCfg) (a : Iface), c[n]? = some nc → nc.ifaces[i]? = some a → a.mac ≠ noMac
  hopsAreRouters : ∀ (n : Nat) (nc : NodeCfg) (t : Ip), c[n]? = some nc → IsNextHop nc t →
    ∀ (m j : Nat) (mc : NodeCfg) (b : Iface), c[m]? = some mc → mc.ifaces[j]? = some b → b.ip = t → mc.kind = .router

/-! ### state access -/

theorem node?_cfg {st : St} {c : List NodeCfg} (hc : cfgOf st = c) {n : Nat} {nd : Node} (h : st.node? n = some nd) :
    c[n]? = some nd.cfg := by
  subst hc
  simp only [cfgOf, List.getElem?_map]
  unfold St.node? at h
  rw [h]; rfl

theorem iface?_cfg {st : St} {c : List NodeCfg} (hc : cfgOf st = c) {n i : Nat} {ifc : Iface}
    (h : st.iface? n i = some ifc) : ∃ nc, c[n]? = some nc ∧ nc.ifaces[i]? = some ifc := by
  unfold St.iface? at h
  cases hn : st.nodes[n]? with
  | none => simp [hn] at h
  | some nd =>
    simp only [hn, Option.bind_some] at h
    exact ⟨nd.cfg, node?_cfg hc (by unfold St.node?; exact hn), h⟩

theorem node?_modNode (st : St) (n k : Nat) (f : Node → Node) :
    (st.modNode n f).node? k = if n = k then (st.node? k).map f else st.node? k := by
  unfold St.modNode St.node?
  simp only [List.getElem?_modify]
  split <;> simp

theorem cfgOf_modNode (st : St) (n : Nat) (f : Node → Node) (hf : ∀ nd, (f nd).cfg = nd.cfg) :
    cfgOf (st.modNode n f) = cfgOf st := by
  unfold cfgOf St.modNode
  apply List.ext_getElem?
  intro k
  simp only [List.getElem?_map, List.getElem?_modify]
  split
  · cases st.nodes[k]? with
    | none => rfl
    | some nd => simp [hf]
  · simp

@[simp] theorem cfgOf_emit (st : St) (e : Ev) : cfgOf (st.emit e) = cfgOf st := rfl
@[simp] theorem cfgOf_out (st : St) : cfgOf st.out = cfgOf st := rfl
@[simp] theorem node?_emit (st : St) (e : Ev) (k : Nat) : (st.emit e).node? k = st.node? k := rfl
@[simp] theorem node?_out (st : St) (k : Nat) : st.out.node? k = st.node? k := rfl
@[simp] theorem iface?_emit (st : St) (e : Ev) (n i : Nat) : (st.emit e).iface? n i = st.iface? n i := rfl


/-! ### the state invariant -/

structure G (c : List NodeCfg) (S : Ip → Mac → Prop) (st : St) : Prop where
  cfg : cfgOf st = c
  arp : ∀ (k : Nat) (nd : Node) (e : ArpEntry), st.node? k = some nd → e ∈ nd.arp → S e.ip e.mac
  log : ∀ (m fid : Nat) (ip : Ip), Ev.sw m fid ip false ∈ st.log → Owns c m ip

theorem G.out {c : List NodeCfg} {S : Ip → Mac → Prop} {st : St} (h : G c S st) : G c S st.out := ⟨h.cfg, h.arp, h.log⟩

theorem G.nextId {c : List NodeCfg} {S : Ip → Mac → Prop} {st : St} (h : G c S st) (k : Nat) : G c S { st with nextId := k } :=
  ⟨h.cfg, h.arp, h.log⟩

theorem G.emit_rx {c : List NodeCfg} {S : Ip → Mac → Prop} {st : St} (h : G c S st) (n i fid : Nat) (t : Int) : G c S (st.emit (.rx n i fid t)) :=
  ⟨h.cfg, h.arp, by intro m fid' ip hm; simp only [St.emit, List.mem_cons, reduceCtorEq, false_or] at hm; exact h.log m fid' ip hm⟩

theorem G.emit_hop {c : List NodeCfg} {S : Ip → Mac → Prop} {st : St} (h : G c S st) (n fid : Nat) (t : Int) : G c S (st.emit (.hop n fid t)) :=
  ⟨h.cfg, h.arp, by intro m fid' ip hm; simp only [St.emit, List.mem_cons, reduceCtorEq, false_or] at hm; exact h.log m fid' ip hm⟩

theorem G.emit_raised {c : List NodeCfg} {S : Ip → Mac → Prop} {st : St} (h : G c S st) (n : Nat) : G c S (st.emit (.raised n)) :=
  ⟨h.cfg, h.arp, by intro m fid' ip hm; simp only [St.emit, List.mem_cons, reduceCtorEq, false_or] at hm; exact h.log m fid' ip hm⟩

theorem G.emit_sw {c : List NodeCfg} {S : Ip → Mac → Prop} {st : St} (h : G c S st) (n fid : Nat) (ip : Ip) (bc : Bool)
    (ho : bc = false → Owns c n ip) : G c S (st.emit (.sw n fid ip bc)) := by
  refine ⟨h.cfg, h.arp, ?_⟩
  intro m fid' ip' hm
  simp only [St.emit, List.mem_cons] at hm
  rcases hm with hm | hm
  · simp only [Ev.sw.injEq] at hm
    obtain ⟨rfl, rfl, rfl, hb⟩ := hm
    exact ho hb.symm
  · exact h.log m fid' ip' hm

theorem addArp_cfg (nd : Node) (ip : Ip) (mac : Mac) (i : Nat) : (nd.addArp ip mac i).cfg = nd.cfg := by
  unfold Node.addArp; split
  · rfl
  · split <;> rfl

theorem mem_addArp (nd : Node) (ip : Ip) (mac : Mac) (i : Nat) (e : ArpEntry) (h : e ∈ (nd.addArp ip mac i).arp) :
    e ∈ nd.arp ∨ (e.ip = ip ∧ e.mac = mac) := by
  unfold Node.addArp at h
  split at h
  · exact Or.inl h
  · split at h
    · exact Or.inl h
    · simp only [List.mem_append, List.mem_singleton] at h
      rcases h with h | h
      · exact Or.inl h
      · right; subst h; exact ⟨rfl, rfl⟩

theorem G.addArp {c : List NodeCfg} {S : Ip → Mac → Prop} {st : St} (h : G c S st) (n i : Nat) (ip : Ip) (mac : Mac) (hs : S ip mac) :
    G c S (st.modNode n (fun nd => nd.addArp ip mac i)) := by
  refine ⟨?_, ?_, h.log⟩
  · rw [cfgOf_modNode st n _ (fun nd => addArp_cfg nd ip mac i)]; exact h.cfg
  · intro k nd e hk he
    rw [node?_modNode] at hk
    split at hk
    · cases hn : st.node? k with
      | none => simp [hn] at hk
      | some nd0 =>
        simp only [hn, Option.map_some, Option.some.injEq] at hk
        subst hk
        rcases mem_addArp nd0 ip mac i e he with h1 | ⟨h1, h2⟩
        · exact h.arp k nd0 e hn h1
        · rw [h1, h2]; exact hs
    · exact h.arp k nd e hk he

/-- any change of a node that leaves its configuration and its ARP cache alone. -/
theorem G.modOther {c : List NodeCfg} {S : Ip → Mac → Prop} {st : St} (h : G c S st) (n : Nat) (f : Node → Node)
    (hc : ∀ nd, (f nd).cfg = nd.cfg) (ha : ∀ nd, (f nd).arp = nd.arp) : G c S (st.modNode n f) := by
  refine ⟨?_, ?_, h.log⟩
  · rw [cfgOf_modNode st n f hc]; exact h.cfg
  · intro k nd e hk he
    rw [node?_modNode] at hk
    split at hk
    · cases hn : st.node? k with
      | none => simp [hn] at hk
      | some nd0 =>
        simp only [hn, Option.map_some, Option.some.injEq] at hk
        subst hk
        rw [ha] at he
        exact h.arp k nd0 e hn he
    · exact h.arp k nd e hk he

theorem learnMac_cfg (nd : Node) (m : Mac) (p : Nat) : (nd.learnMac m p).cfg = nd.cfg ∧ (nd.learnMac m p).arp = nd.arp := by
  unfold Node.learnMac
  split
  · exact ⟨rfl, rfl⟩
  · split <;> exact ⟨rfl, rfl⟩

theorem G.learnMac {c : List NodeCfg} {S : Ip → Mac → Prop} {st : St} (h : G c S st) (n p : Nat) (m : Mac) :
    G c S (st.modNode n (fun nd => nd.learnMac m p)) :=
  h.modOther n _ (fun nd => (learnMac_cfg nd m p).1) (fun nd => (learnMac_cfg nd m p).2)

theorem G.bump {c : List NodeCfg} {S : Ip → Mac → Prop} {st : St} (h : G c S st) (n ident : Nat) :
    G c S (st.modNode n (fun nd => { nd with replies := bumpReply nd.replies ident })) :=
  h.modOther n _ (fun _ => rfl) (fun _ => rfl)

/-! ### sound frames -/

def PlOk (S : Ip → Mac → Prop) : Pl → Prop
  | .arpReq sIp sMac _ => S sIp sMac
  | .arpRep sIp sMac tIp tMac => S sIp sMac ∧ S tIp tMac
  | _ => True

structure FrameOk (S : Ip → Mac → Prop) (f : Frame) : Prop where
  src : S f.srcIp f.srcMac
  dst : f.dstMac = bcastMac ∨ f.dstMac = noMac ∨ S f.dstIp f.dstMac
  pl : PlOk S f.pl

theorem FrameOk.dec {S : Ip → Mac → Prop} {f : Frame} (h : FrameOk S f) : FrameOk S f.dec := ⟨h.src, h.dst, h.pl⟩

/-- what the induction needs from the soundness predicate. -/
structure Spec (c : List NodeCfg) (S : Ip → Mac → Prop) : Prop where
  own : ∀ {st : St} {n i : Nat} {ifc : Iface}, cfgOf st = c → st.iface? n i = some ifc → S ifc.ip ifc.mac
  router : ∀ {st : St} {n i : Nat} {ifc : Iface}, cfgOf st = c → st.iface? n i = some ifc → IsRouter c n → ∀ ip, S ip ifc.mac
  via_hop : ∀ {n : Nat} {nc : NodeCfg}, c[n]? = some nc → ∀ {t : Ip}, IsNextHop nc t → ∀ {mac : Mac}, S t mac → ∀ ip, S ip mac

theorem sound_own {c : List NodeCfg} {st : St} (hc : cfgOf st = c) {n i : Nat} {ifc : Iface}
    (h : st.iface? n i = some ifc) : SoundPair c ifc.ip ifc.mac := by
  obtain ⟨nc, h1, h2⟩ := iface?_cfg hc h
  exact ⟨n, i, ifc, nc, h1, h2, rfl, Or.inl rfl⟩

theorem sound_router {c : List NodeCfg} {st : St} (hc : cfgOf st = c) {n i : Nat} {ifc : Iface}
    (h : st.iface? n i = some ifc) (hr : IsRouter c n) (ip : Ip) : SoundPair c ip ifc.mac := by
  obtain ⟨nc, h1, h2⟩ := iface?_cfg hc h
  obtain ⟨nc', h1', hk⟩ := hr
  rw [h1] at h1'
  have : nc' = nc := by simpa using h1'.symm
  subst this
  exact ⟨n, i, ifc, nc', h1, h2, rfl, Or.inr hk⟩

/-- a pair sound for a next hop is sound for every destination: the next hop is a router. -/
theorem sound_via_hop {c : List NodeCfg} (hg : GoodCfg c) {n : Nat} {nc : NodeCfg} (hn : c[n]? = some nc) {t : Ip}
    (ht : IsNextHop nc t) {mac : Mac} (hs : SoundPair c t mac) (ip : Ip) : SoundPair c ip mac := by
  obtain ⟨m, j, b, mc, h1, h2, h3, h4⟩ := hs
  refine ⟨m, j, b, mc, h1, h2, h3, Or.inr ?_⟩
  rcases h4 with h4 | h4
  · exact hg.hopsAreRouters n nc t hn ht m j mc b h1 h2 h4
  · exact h4

/-- the stamped frame of `process_frame` / `route_frame`. -/
theorem FrameOk.stamp {c : List NodeCfg} {S : Ip → Mac → Prop} (hs : Spec c S) {st : St} {f : Frame} (h : FrameOk S f)
    (hc : cfgOf st = c) {n o : Nat} {oif : Iface}
    (ho : st.iface? n o = some oif) (hr : IsRouter c n) (tm : Mac) (ht : tm = noMac ∨ S f.dstIp tm) :
    FrameOk S (f.dec.stamp oif.mac tm) :=
  ⟨hs.router hc ho hr _, Or.inr ht, h.pl⟩

theorem own_of_ifaceWithIp {c : List NodeCfg} {st : St} (hc : cfgOf st = c) {n : Nat} {nd : Node}
    (hn : st.node? n = some nd) {ip : Ip} {own : Iface} (h : ifaceWithIp nd.ifaces ip = some own) : Owns c n ip := by
  unfold ifaceWithIp at h
  have h1 := List.find?_some h
  have h2 := List.mem_of_find?_eq_some h
  exact ⟨nd.cfg, own, node?_cfg hc hn, h2, by simpa using h1⟩


/-- a host NIC (repaired code) accepts a unicast frame only if the node owns the destination address. -/
theorem accept_owner {c : List NodeCfg} {st : St} (hc : cfgOf st = c) {n : Nat} {nd : Node} {ifc : Iface}
    (hn : st.node? n = some nd) {f : Frame} (hacc : hostAccepts nd ifc f = true) :
    f.dstMac = bcastMac ∨ Owns c n f.dstIp := by
  by_cases hb : f.dstMac = bcastMac
  · exact Or.inl hb
  · right
    unfold hostAccepts at hacc
    have hne : (f.dstMac == bcastMac) = false := by simpa using hb
    simp only [hne, Bool.false_eq_true, if_false, Bool.and_eq_true] at hacc
    cases hw : ifaceWithIp nd.ifaces f.dstIp with
    | none => rw [hw] at hacc; simp at hacc
    | some own => exact own_of_ifaceWithIp hc hn hw

/-! ### ARP look-ups only ever move on to a next hop -/

theorem hostArpNext_target (nd : Node) (ip t : Ip) (re gw re' gw' : Bool)
    (h : hostArpNext nd ip re gw = .go t re' gw') : t = ip ∨ IsNextHop nd.cfg t := by
  unfold hostArpNext at h
  simp only at h
  split at h
  · simp only [ArpNext.go.injEq] at h; exact Or.inl h.1.symm
  · split at h
    · rename_i g hg
      split at h
      · simp only [ArpNext.go.injEq] at h
        right; left; rw [← h.1]; exact hg
      · cases h
    · cases h

theorem routerArpNext_target (nd : Node) (ip t : Ip) (re gw b re' gw' : Bool)
    (h : routerArpNext nd ip re gw b = .go t re' gw') : t = ip ∨ IsNextHop nd.cfg t := by
  unfold routerArpNext at h
  split at h
  · split at h
    · simp only [ArpNext.go.injEq] at h; exact Or.inl h.1.symm
    · split at h
      · rename_i i r hr
        simp only [ArpNext.go.injEq] at h
        right; right; right
        exact ⟨r, Route.mem_of_getElem? (Route.C08_best_matches nd.routes ip i r hr).1, h.1⟩
      · rename_i nh hr
        simp only [ArpNext.go.injEq] at h
        right; right; left
        rw [← h.1]; exact ((Route.C08_default_iff nd.routes ip nh).1 hr).2.2
      · cases h
      · cases h
  · split at h
    · rename_i nh hd
      split at h
      · simp only [ArpNext.go.injEq] at h
        right; right; left; rw [← h.1]; exact hd
      · cases h
    · cases h

theorem arpNext_target (nd : Node) (ip t : Ip) (re gw b re' gw' : Bool)
    (h : arpNext nd ip re gw b = .go t re' gw') : t = ip ∨ IsNextHop nd.cfg t := by
  unfold arpNext at h
  split at h
  · exact hostArpNext_target nd ip t re gw re' gw' h
  · exact routerArpNext_target nd ip t re gw b re' gw' h
  · cases h

theorem nextHop_isNextHop (nd : Node) (dst nh : Ip) (h : (findBestRoute nd.routes dst).nextHop? = some nh) :
    IsNextHop nd.cfg nh := by
  cases hres : findBestRoute nd.routes dst with
  | route i r =>
    rw [hres] at h
    simp only [Route.Result.nextHop?, Option.some.injEq] at h
    right; right
    exact ⟨r, Route.mem_of_getElem? (Route.C08_best_matches nd.routes dst i r hres).1, h⟩
  | default d =>
    rw [hres] at h
    simp only [Route.Result.nextHop?, Option.some.injEq] at h
    right; left
    rw [← h]; exact ((Route.C08_default_iff nd.routes dst d).1 hres).2.2
  | raised => rw [hres] at h; simp [Route.Result.nextHop?] at h
  | noRoute => rw [hres] at h; simp [Route.Result.nextHop?] at h

def DstOk (S : Ip → Mac → Prop) (pl : Pl) (dstIp : Ip) : Prop := plDstMac pl = bcastMac ∨ S dstIp (plDstMac pl)

/-- the invariant statement for every function of the interpreter at one fuel level. -/
structure GAt (c : List NodeCfg) (S : Ip → Mac → Prop) (fuel : Nat) : Prop where
  send : ∀ st n i f, G c S st → FrameOk S f → G c S (sendFrame fuel st n i f).1 ∧ FrameOk S (sendFrame fuel st n i f).2
  recv : ∀ st n i f, G c S st → FrameOk S f → G c S (ifaceRecv fuel st n i f).1 ∧ FrameOk S (ifaceRecv fuel st n i f).2
  sw : ∀ st n i f, G c S st → FrameOk S f → G c S (switchRecv fuel st n i f).1 ∧ FrameOk S (switchRecv fuel st n i f).2
  flood : ∀ st n i f ports, G c S st → FrameOk S f →
    G c S (floodPorts fuel st n i f ports).1 ∧ FrameOk S (floodPorts fuel st n i f ports).2
  host : ∀ st n i f, G c S st → FrameOk S f → (f.dstMac = bcastMac ∨ Owns c n f.dstIp) →
    G c S (hostRecv fuel st n i f).1 ∧ FrameOk S (hostRecv fuel st n i f).2
  router : ∀ st n i f, G c S st → FrameOk S f → IsRouter c n →
    G c S (routerRecv fuel st n i f).1 ∧ FrameOk S (routerRecv fuel st n i f).2
  process : ∀ st n i f, G c S st → FrameOk S f → IsRouter c n →
    G c S (routerProcess fuel st n i f).1 ∧ FrameOk S (routerProcess fuel st n i f).2
  arpReply : ∀ st n pl, G c S st → PlOk S pl → (∀ t, targetOf pl = some t → DstOk S pl t) → G c S (sendArpReply fuel st n pl)
  arpPkt : ∀ st n pl dstIp, G c S st → PlOk S pl → DstOk S pl dstIp → G c S (sendArpPkt fuel st n pl dstIp)
  icmp : ∀ st n dst pl, G c S st → PlOk S pl → G c S (sendIcmp fuel st n dst pl)
  details : ∀ st n dst, G c S st →
    G c S (resolveDetails fuel st n dst).1 ∧ ∀ m, (resolveDetails fuel st n dst).2.1 = some m → S dst m
  out : ∀ st n dst, G c S st → G c S (resolveOut fuel st n dst).1
  mac : ∀ st n ip re gw, G c S st → G c S (arpMac fuel st n ip re gw).1 ∧ ∀ m, (arpMac fuel st n ip re gw).2 = some m → S ip m
  ifc : ∀ st n ip re gw, G c S st → G c S (arpIfc fuel st n ip re gw).1
  req : ∀ st n t, G c S st → G c S (sendArpReq fuel st n t)

theorem gAt_zero (c : List NodeCfg) (S : Ip → Mac → Prop) : GAt c S 0 := by
  constructor
  all_goals intros
  all_goals simp only [sendFrame, ifaceRecv, switchRecv, floodPorts, hostRecv, routerRecv, routerProcess, sendArpReply,
    sendArpPkt, sendIcmp, resolveDetails, resolveOut, arpMac, arpIfc, sendArpReq]
  all_goals first
    | exact ⟨G.out ‹_›, ‹_›⟩
    | exact G.out ‹_›
    | exact ⟨G.out ‹_›, by intro m hm; cases hm⟩


section succ
variable {c : List NodeCfg} {S : Ip → Mac → Prop} (hs : Spec c S) {fuel : Nat} (ih : GAt c S fuel)
include ih hs

theorem s_send (st : St) (n i : Nat) (f : Frame) (hG : G c S st) (hF : FrameOk S f) :
    G c S (sendFrame (fuel + 1) st n i f).1 ∧ FrameOk S (sendFrame (fuel + 1) st n i f).2 := by
  simp only [sendFrame]
  repeat' split
  all_goals first | exact ⟨hG, hF⟩ | exact ih.recv _ _ _ _ hG hF

theorem s_flood (st : St) (n i : Nat) (f : Frame) (ports : List Nat) (hG : G c S st) (hF : FrameOk S f) :
    G c S (floodPorts (fuel + 1) st n i f ports).1 ∧ FrameOk S (floodPorts (fuel + 1) st n i f ports).2 := by
  simp only [floodPorts]
  induction ports generalizing st f with
  | nil => exact ⟨hG, hF⟩
  | cons p ps ihp =>
    simp only [List.foldl_cons]
    split
    · split
      · have h := ih.send st n p f hG hF
        generalize sendFrame fuel st n p f = r at h ⊢
        obtain ⟨st', f'⟩ := r
        exact ihp st' f' h.1 h.2
      · exact ihp st f hG hF
    · exact ihp st f hG hF

theorem s_sw (st : St) (n i : Nat) (f : Frame) (hG : G c S st) (hF : FrameOk S f) :
    G c S (switchRecv (fuel + 1) st n i f).1 ∧ FrameOk S (switchRecv (fuel + 1) st n i f).2 := by
  simp only [switchRecv]
  have hG' := hG.learnMac n i f.srcMac
  repeat' split
  all_goals first
    | exact ⟨hG', hF⟩
    | exact ih.send _ _ _ _ hG' hF
    | exact ih.flood _ _ _ _ _ hG' hF

theorem s_recv (st : St) (n i : Nat) (f : Frame) (hG : G c S st) (hF : FrameOk S f) :
    G c S (ifaceRecv (fuel + 1) st n i f).1 ∧ FrameOk S (ifaceRecv (fuel + 1) st n i f).2 := by
  simp only [ifaceRecv]
  split
  · rename_i nd ifc hn hi
    have hG' := hG.emit_rx n i f.id f.ttl
    split
    · exact ⟨hG', hF.dec⟩
    · split
      · rename_i hk
        split
        · rename_i hacc
          exact ih.host _ _ _ _ hG' hF.dec
            (accept_owner (st := st.emit (.rx n i f.id f.ttl)) hG'.cfg hn hacc)
        · exact ⟨hG', hF.dec⟩
      · rename_i hk
        split
        · exact ih.router _ _ _ _ hG' hF.dec ⟨nd.cfg, node?_cfg hG.cfg hn, hk⟩
        · exact ⟨hG', hF.dec⟩
      · exact ih.sw _ _ _ _ hG' hF.dec
  · exact ⟨hG, hF⟩

theorem s_out (st : St) (n : Nat) (dst : Ip) (hG : G c S st) : G c S (resolveOut (fuel + 1) st n dst).1 := by
  simp only [resolveOut]
  repeat' split
  all_goals first | exact hG | exact ih.ifc _ _ _ _ _ hG

theorem s_ifc (st : St) (n : Nat) (ip : Ip) (re gw : Bool) (hG : G c S st) : G c S (arpIfc (fuel + 1) st n ip re gw).1 := by
  simp only [arpIfc]
  repeat' split
  all_goals first | exact hG | exact hG.emit_raised _ | exact ih.ifc _ _ _ _ _ (ih.req _ _ _ hG)

theorem s_mac (st : St) (n : Nat) (ip : Ip) (re gw : Bool) (hG : G c S st) :
    G c S (arpMac (fuel + 1) st n ip re gw).1 ∧ ∀ m, (arpMac (fuel + 1) st n ip re gw).2 = some m → S ip m := by
  simp only [arpMac]
  split
  · exact ⟨hG, by intro m hm; cases hm⟩
  · rename_i nd hn
    split
    · rename_i e he
      refine ⟨hG, ?_⟩
      intro m hm
      simp only [Option.some.injEq] at hm
      subst hm
      unfold Node.arpGet at he
      have h1 := List.find?_some he
      have h2 := List.mem_of_find?_eq_some he
      have h3 := hG.arp n nd e hn h2
      have h4 : e.ip = ip := by simpa using h1
      rw [h4] at h3; exact h3
    · split
      · exact ⟨hG, by intro m hm; cases hm⟩
      · exact ⟨hG.emit_raised _, by intro m hm; cases hm⟩
      · rename_i t re' gw' hnext
        have hr := ih.mac (sendArpReq fuel st n t) n t re' gw' (ih.req _ _ _ hG)
        refine ⟨hr.1, ?_⟩
        intro m hm
        have hsm := hr.2 m hm
        rcases arpNext_target nd ip t re gw true re' gw' hnext with h | h
        · rw [h] at hsm; exact hsm
        · exact hs.via_hop (node?_cfg hG.cfg hn) h hsm ip

theorem s_arpPkt (st : St) (n : Nat) (pl : Pl) (dstIp : Ip) (hG : G c S st) (hP : PlOk S pl) (hD : DstOk S pl dstIp) :
    G c S (sendArpPkt (fuel + 1) st n pl dstIp) := by
  simp only [sendArpPkt]
  split
  · exact hG
  · rename_i t _
    have hG1 := ih.out st n t hG
    split
    · exact hG1
    · split
      · exact hG1
      · rename_i o _ oif ho
        refine (ih.send _ _ _ _ (hG1.nextId _) ⟨hs.own hG1.cfg ho, ?_, hP⟩).1
        rcases hD with h | h
        · exact Or.inl h
        · exact Or.inr (Or.inr h)

theorem s_arpReply (st : St) (n : Nat) (pl : Pl) (hG : G c S st) (hP : PlOk S pl)
    (hD : ∀ t, targetOf pl = some t → DstOk S pl t) : G c S (sendArpReply (fuel + 1) st n pl) := by
  simp only [sendArpReply]
  split
  · exact hG
  · rename_i t ht
    split
    · exact ih.out _ _ _ hG
    · exact ih.arpPkt _ _ _ _ (ih.out _ _ _ hG) hP (hD t ht)

theorem s_req (st : St) (n : Nat) (target : Ip) (hG : G c S st) : G c S (sendArpReq (fuel + 1) st n target) := by
  simp only [sendArpReq]
  split
  · exact hG
  · split
    · exact hG
    · split
      · exact hG
      · rename_i t _
        have hG1 := ih.out st n t hG
        split
        · exact hG1
        · split
          · exact hG1
          · rename_i o _ oif ho
            split
            · exact hG1
            · exact ih.arpPkt _ _ _ _ hG1 (hs.own hG1.cfg ho) (Or.inl rfl)

theorem s_icmp (st : St) (n : Nat) (dst : Ip) (pl : Pl) (hG : G c S st) (hP : PlOk S pl) :
    G c S (sendIcmp (fuel + 1) st n dst pl) := by
  simp only [sendIcmp]
  have hd := ih.details st n dst hG
  split
  · rename_i o m ho hm
    split
    · exact hd.1
    · rename_i oif hi
      exact (ih.send _ _ _ _ (hd.1.nextId _) ⟨hs.own hd.1.cfg hi, Or.inr (Or.inr (hd.2 m hm)), hP⟩).1
  · exact hd.1

/-- the part of `resolveDetails` after the on-link attempt failed, from any state `X`. -/
theorem s_details_tail (nd : Node) (n : Nat) (dst : Ip) (hn : c[n]? = some nd.cfg) (X : St) (hX : G c S X)
    (r : St × Option Mac × Option Nat)
    (hr : r = (match nd.kind with
      | .host =>
        match nd.gateway with
        | none => (X, none, none)
        | some g =>
          match (arpMac fuel X n g false false).1.node? n with
          | none => ((arpMac fuel X n g false false).1, (arpMac fuel X n g false false).2, none)
          | some nd' =>
            if nd'.ifaces.any (·.enabled) then
              ((arpIfc fuel (arpMac fuel X n g false false).1 n g false false).1, (arpMac fuel X n g false false).2,
                (arpIfc fuel (arpMac fuel X n g false false).1 n g false false).2)
            else ((arpMac fuel X n g false false).1, (arpMac fuel X n g false false).2, none)
      | .router =>
        match (findBestRoute nd.routes dst).nextHop? with
        | none => (X.emit (.raised n), none, none)
        | some nh =>
          ((arpIfc fuel (arpMac fuel X n nh false false).1 n nh false false).1, (arpMac fuel X n nh false false).2,
            (arpIfc fuel (arpMac fuel X n nh false false).1 n nh false false).2)
      | .switch => (X, none, none))) :
    G c S r.1 ∧ ∀ m, r.2.1 = some m → S dst m := by
  subst hr
  split
  · split
    · exact ⟨hX, by intro m hm; cases hm⟩
    · rename_i g hgw
      have hm := ih.mac X n g false false hX
      have hsound : ∀ m, (arpMac fuel X n g false false).2 = some m → S dst m := fun m h =>
        hs.via_hop hn (Or.inl hgw) (hm.2 m h) dst
      split
      · exact ⟨hm.1, hsound⟩
      · split
        · exact ⟨ih.ifc _ _ _ _ _ hm.1, hsound⟩
        · exact ⟨hm.1, hsound⟩
  · split
    · exact ⟨hX.emit_raised _, by intro m hm; cases hm⟩
    · rename_i nh hnh
      have hm := ih.mac X n nh false false hX
      exact ⟨ih.ifc _ _ _ _ _ hm.1, fun m h => hs.via_hop hn (nextHop_isNextHop nd dst nh hnh) (hm.2 m h) dst⟩
  · exact ⟨hX, by intro m hm; cases hm⟩

theorem s_details (st : St) (n : Nat) (dst : Ip) (hG : G c S st) :
    G c S (resolveDetails (fuel + 1) st n dst).1 ∧ ∀ m, (resolveDetails (fuel + 1) st n dst).2.1 = some m → S dst m := by
  simp only [resolveDetails]
  split
  · exact ⟨hG, by intro m hm; cases hm⟩
  · rename_i nd hn
    have hnc := node?_cfg hG.cfg hn
    cases hfe : firstEnabledIn nd.ifaces dst 0 with
    | none =>
      simp only []
      exact s_details_tail hs ih nd n dst hnc st hG _ rfl
    | some k =>
      simp only []
      have hm := ih.mac st n dst false false hG
      split
      · rename_i m hmm
        exact ⟨ih.ifc _ _ _ _ _ hm.1, by intro m' h'; simp only [Option.some.injEq] at h'; subst h'; exact hm.2 m hmm⟩
      · exact s_details_tail hs ih nd n dst hnc _ hm.1 _ rfl

theorem s_host (st : St) (n i : Nat) (f : Frame) (hG : G c S st) (hF : FrameOk S f)
    (hAcc : f.dstMac = bcastMac ∨ Owns c n f.dstIp) :
    G c S (hostRecv (fuel + 1) st n i f).1 ∧ FrameOk S (hostRecv (fuel + 1) st n i f).2 := by
  simp only [hostRecv]
  split
  · rename_i nd ifc hn hi
    have hsw : ∀ X : St, G c S X → G c S (X.emit (.sw n f.id f.dstIp (f.dstMac == bcastMac))) := fun X hX =>
      hX.emit_sw _ _ _ _ (fun hb => hAcc.resolve_left (by simpa using hb))
    by_cases hon : nd.on = true
    · simp only [hon, if_true, Bool.not_true, Bool.false_eq_true, if_false]
      have hG2 := hsw _ (hG.addArp n i f.srcIp f.srcMac hF.src)
      split
      · exact ⟨hG.addArp n i f.srcIp f.srcMac hF.src, hF⟩
      split
      · rename_i sIp sMac tIp hpl
        have hp := hF.pl
        rw [hpl] at hp
        split
        · exact ⟨hG2, hF⟩
        · rename_i hne
          have hip : tIp = ifc.ip := by simpa using hne
          refine ⟨ih.arpReply _ _ _ hG2 ⟨hip ▸ hs.own hG.cfg hi, hp⟩ ?_, hF⟩
          intro t ht
          simp only [targetOf, Option.some.injEq] at ht
          subst ht
          exact Or.inr hp
      · rename_i sIp sMac tIp tMac hpl
        have hp := hF.pl
        rw [hpl] at hp
        exact ⟨hG2.addArp n i sIp sMac hp.1, hF⟩
      · split
        · exact ⟨hG2, hF⟩
        · split
          · exact ⟨ih.out _ _ _ hG2, hF⟩
          · exact ⟨ih.icmp _ _ _ _ (ih.out _ _ _ hG2) trivial, hF⟩
      · exact ⟨hG2.bump n _, hF⟩
      · split
        · exact ⟨ih.icmp _ _ _ _ hG2 trivial, hF⟩
        · exact ⟨hG2.emit_raised _, hF⟩
      · split
        · exact ⟨hG2.emit_raised _, hF⟩
        · exact ⟨hG2.modOther n _ (fun _ => rfl) (fun _ => rfl), hF⟩
      · split
        · split
          · exact ⟨ih.icmp _ _ _ _ (hG2.modOther n _ (fun _ => rfl) (fun _ => rfl)) trivial, hF⟩
          · exact ⟨hG2.modOther n _ (fun _ => rfl) (fun _ => rfl), hF⟩
        · exact ⟨hG2, hF⟩
      · exact ⟨hG2.modOther n _ (fun _ => rfl) (fun _ => rfl), hF⟩
    · have hoff : nd.on = false := by simpa using hon
      simp only [hoff, Bool.false_eq_true, if_false, Bool.not_false, if_true]
      have hG2 := hsw _ hG
      split
      · exact ⟨hG, hF⟩
      split
      · exact ⟨hG2, hF⟩
      · exact ⟨hG2, hF⟩
      · split
        · exact ⟨hG2, hF⟩
        · split
          · exact ⟨ih.out _ _ _ hG2, hF⟩
          · exact ⟨ih.icmp _ _ _ _ (ih.out _ _ _ hG2) trivial, hF⟩
      · exact ⟨hG2.bump n _, hF⟩
      · split
        · exact ⟨ih.icmp _ _ _ _ hG2 trivial, hF⟩
        · exact ⟨hG2.emit_raised _, hF⟩
      · split
        · exact ⟨hG2.emit_raised _, hF⟩
        · exact ⟨hG2.modOther n _ (fun _ => rfl) (fun _ => rfl), hF⟩
      · split
        · split
          · exact ⟨ih.icmp _ _ _ _ (hG2.modOther n _ (fun _ => rfl) (fun _ => rfl)) trivial, hF⟩
          · exact ⟨hG2.modOther n _ (fun _ => rfl) (fun _ => rfl), hF⟩
        · exact ⟨hG2, hF⟩
      · exact ⟨hG2.modOther n _ (fun _ => rfl) (fun _ => rfl), hF⟩
  · exact ⟨hG, hF⟩

theorem s_router (st : St) (n i : Nat) (f : Frame) (hG : G c S st) (hF : FrameOk S f) (hR : IsRouter c n) :
    G c S (routerRecv (fuel + 1) st n i f).1 ∧ FrameOk S (routerRecv (fuel + 1) st n i f).2 := by
  simp only [routerRecv]
  split
  · rename_i nd ifc hn hi
    split
    · exact ⟨hG, hF⟩
    · split
      · exact ⟨hG, hF⟩
      · have hG1 := hG.addArp n i f.srcIp f.srcMac hF.src
        split
        · rename_i own hown
          split
          · exact ⟨hG1, hF⟩
          · have hG2 := hG1.emit_sw n f.id f.dstIp (f.dstMac == bcastMac) (fun _ => own_of_ifaceWithIp hG.cfg hn hown)
            split
            · rename_i sIp sMac tIp hpl
              have hp := hF.pl
              rw [hpl] at hp
              split
              · rename_i hc
                have hip : ifc.ip = tIp := by
                  simp only [Bool.and_eq_true, beq_iff_eq] at hc; exact hc.2
                refine ⟨ih.arpReply _ _ _ hG2 ⟨by rw [← hip]; exact hs.own hG.cfg hi, hp⟩ ?_, hF⟩
                intro t ht
                simp only [targetOf, Option.some.injEq] at ht
                subst ht
                exact Or.inr hp
              · exact ⟨hG2, hF⟩
            · rename_i sIp sMac tIp tMac hpl
              have hp := hF.pl
              rw [hpl] at hp
              split
              · exact ⟨hG2.addArp n i sIp sMac hp.1, hF⟩
              · exact ⟨hG2, hF⟩
            · split
              · exact ⟨hG2, hF⟩
              · split
                · exact ⟨ih.out _ _ _ hG2, hF⟩
                · exact ⟨ih.icmp _ _ _ _ (ih.out _ _ _ hG2) trivial, hF⟩
            · split
              · exact ⟨hG2, hF⟩
              · exact ⟨hG2.bump n _, hF⟩
            · exact ⟨hG2, hF⟩
            · exact ⟨hG2, hF⟩
            · exact ⟨hG2, hF⟩
            · exact ⟨hG2, hF⟩
        · split
          · exact ih.process _ _ _ _ hG1 hF hR
          · rename_i acl _
            split
            · -- `_process_dmz_outbound_frame`: broadcast guard, two look-ups, then the second verdict
              split
              · exact ⟨hG1, hF⟩
              have h1 := ih.ifc _ n f.dstIp false false hG1
              have hr2 : ∀ r2 : St × Option Nat, G c S r2.1 →
                  G c S (match r2.2.bind dmzSecondList with
                    | some l => if fwPermits acl l f.pl then routerProcess fuel r2.1 n i f else (r2.1, f)
                    | none => (r2.1, f)).1 ∧
                  FrameOk S (match r2.2.bind dmzSecondList with
                    | some l => if fwPermits acl l f.pl then routerProcess fuel r2.1 n i f else (r2.1, f)
                    | none => (r2.1, f)).2 := by
                intro r2 hr
                split
                · split
                  · exact ih.process _ _ _ _ hr hF hR
                  · exact ⟨hr, hF⟩
                · exact ⟨hr, hF⟩
              apply hr2
              split
              · exact h1
              · split
                · exact h1.emit_raised _
                · split
                  · exact ih.ifc _ _ _ _ _ h1
                  · exact h1
            · split
              · exact ih.process _ _ _ _ hG1 hF hR
              · exact ⟨hG1, hF⟩
  · exact ⟨hG, hF⟩

theorem s_process (st : St) (n i : Nat) (f : Frame) (hG : G c S st) (hF : FrameOk S f) (hR : IsRouter c n) :
    G c S (routerProcess (fuel + 1) st n i f).1 ∧ FrameOk S (routerProcess (fuel + 1) st n i f).2 := by
  simp only [routerProcess]
  split
  · exact ⟨hG, hF⟩
  · have h1 := ih.ifc st n f.dstIp false false hG
    have h2 := ih.mac _ n f.dstIp false false h1
    split
    · rename_i tm o htm ho
      split
      · exact ⟨h2.1, hF⟩
      · rename_i oif hoif
        split
        · exact ⟨h2.1, hF⟩
        · split
          · split
            · exact ⟨h2.1.emit_hop _ _ _, hF.dec⟩
            · exact ih.send _ _ _ _ (h2.1.emit_hop _ _ _) (hF.stamp hs h2.1.cfg hoif hR tm (Or.inr (h2.2 tm htm)))
          · split
            · exact ⟨h2.1, hF⟩
            · rename_i nd hnd
              split
              · exact ⟨h2.1.emit_raised _, hF⟩
              · split
                · exact ⟨h2.1, hF⟩
                · rename_i nh hnh
                  have h3 := ih.ifc _ n nh false false h2.1
                  have h4 := ih.mac _ n nh false false h3
                  split
                  · exact ⟨h4.1, hF⟩
                  · split
                    · exact ⟨h4.1, hF⟩
                    · rename_i oif2 hoif2
                      split
                      · exact ⟨h4.1, hF⟩
                      · split
                        · exact ⟨h4.1.emit_hop _ _ _, hF.dec⟩
                        · refine ih.send _ _ _ _ (h4.1.emit_hop _ _ _) (hF.stamp hs h4.1.cfg hoif2 hR _ ?_)
                          split
                          · rename_i m hm
                            exact Or.inr (hs.via_hop (node?_cfg h2.1.cfg hnd) (nextHop_isNextHop nd f.dstIp nh hnh)
                              (h4.2 m hm) f.dstIp)
                          · exact Or.inl rfl
    · exact ⟨h2.1, hF⟩

end succ


theorem gAt_succ {c : List NodeCfg} {S : Ip → Mac → Prop} (hs : Spec c S) (fuel : Nat) (ih : GAt c S fuel) :
    GAt c S (fuel + 1) :=
  ⟨s_send hs ih, s_recv hs ih, s_sw hs ih, s_flood hs ih, s_host hs ih, s_router hs ih, s_process hs ih, s_arpReply hs ih,
    s_arpPkt hs ih, s_icmp hs ih, s_details hs ih, s_out hs ih, s_mac hs ih, s_ifc hs ih, s_req hs ih⟩

theorem gAt {c : List NodeCfg} {S : Ip → Mac → Prop} (hs : Spec c S) (fuel : Nat) : GAt c S fuel := by
  induction fuel with
  | zero => exact gAt_zero c S
  | succ k ih => exact gAt_succ hs k ih

theorem foldl_inv {α β : Type} (P : α → Prop) (g : α → β → α) (hgf : ∀ a x, P a → P (g a x)) (l : List β) :
    ∀ a, P a → P (l.foldl g a) := by
  induction l with
  | nil => intro a h; exact h
  | cons x xs ih => intro a h; exact ih (g a x) (hgf a x h)

theorem G_ping {c : List NodeCfg} {S : Ip → Mac → Prop} (hs : Spec c S) (fuel : Nat) (st : St) (n : Nat) (target : Ip) (pings : Nat)
    (hG : G c S st) : G c S (ping fuel st n target pings).1 := by
  have ih := gAt hs fuel
  unfold ping
  split
  · exact hG
  · split
    · exact hG
    · split
      · exact hG
      · simp only
        have hfold := foldl_inv (fun (acc : St × Bool) => G c S acc.1)
          (fun (acc : St × Bool) (_ : Nat) =>
            if !acc.2 then acc else
            match (resolveOut fuel acc.1 n target).2 with
            | none => ((resolveOut fuel acc.1 n target).1, false)
            | some _ => (sendIcmp fuel (resolveOut fuel acc.1 n target).1 n target (.echoReq st.nextId), true))
          (by
            intro a _ ha
            split
            · exact ha
            · split
              · exact ih.out _ _ _ ha
              · exact ih.icmp _ _ _ _ (ih.out _ _ _ ha) trivial)
          (List.range pings) ({ st with nextId := st.nextId + 1 }, true) (hG.nextId _)
        split
        · exact hfold
        · exact hfold


/-- with a good configuration, `SoundPair` is a soundness predicate the induction accepts. -/
theorem spec_sound {c : List NodeCfg} (hg : GoodCfg c) : Spec c (SoundPair c) :=
  ⟨fun hc h => sound_own hc h, fun hc h hr ip => sound_router hc h hr ip, fun hn _ ht _ hs ip => sound_via_hop hg hn ht hs ip⟩

/-- the trivial predicate: nothing is assumed about caches or frames. -/
theorem spec_true (c : List NodeCfg) : Spec c (fun _ _ => True) :=
  ⟨fun _ _ => trivial, fun _ _ _ _ => trivial, fun _ _ _ _ _ _ => trivial⟩

end Primaite.Forward
