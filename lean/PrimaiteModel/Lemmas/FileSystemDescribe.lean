/-
`pyDict` (a dict built by a comprehension) — the facts `describe_state` needs.
-/
import PrimaiteModel.Lemmas.FileSystemAnswers
namespace Primaite.FileSystem

variable {β : Type}

/-- one step of the comprehension -/
def pyDictStep (acc : List (Name × β)) (p : Name × β) : List (Name × β) :=
  if acc.any (fun q => q.1 == p.1) then acc.map (fun q => if q.1 == p.1 then p else q) else acc ++ [p]

theorem pyDict_eq (l : List (Name × β)) : pyDict l = l.foldl pyDictStep [] := rfl

theorem pyDictStep_keys_mem (acc : List (Name × β)) (p : Name × β) (k : Name) :
    k ∈ (pyDictStep acc p).map (·.1) ↔ k ∈ acc.map (·.1) ∨ k = p.1 := by
  unfold pyDictStep
  split
  · rename_i hany
    have hkeys : (acc.map (fun q => if q.1 == p.1 then p else q)).map (·.1) = acc.map (·.1) := by
      rw [List.map_map]
      apply List.map_congr_left
      intro q _
      by_cases hq : q.1 = p.1 <;> simp [hq]
    rw [hkeys]
    constructor
    · exact Or.inl
    · rintro (h | rfl)
      · exact h
      · simp only [List.any_eq_true, beq_iff_eq] at hany
        obtain ⟨q, hq, hqk⟩ := hany
        exact List.mem_map.mpr ⟨q, hq, hqk⟩
  · simp [List.mem_append]

theorem pyDictStep_mem (acc : List (Name × β)) (p q : Name × β) (h : q ∈ pyDictStep acc p) : q ∈ acc ∨ q = p := by
  unfold pyDictStep at h
  split at h
  · obtain ⟨r, hr, rfl⟩ := List.mem_map.mp h
    by_cases hk : r.1 = p.1 <;> simp [hk, hr]
  · simpa [List.mem_append] using h

theorem foldl_pyDictStep_keys_mem (l acc : List (Name × β)) (k : Name) :
    k ∈ (l.foldl pyDictStep acc).map (·.1) ↔ k ∈ acc.map (·.1) ∨ k ∈ l.map (·.1) := by
  induction l generalizing acc with
  | nil => simp
  | cons p t ih =>
    simp only [List.foldl_cons, List.map_cons, List.mem_cons]
    rw [ih, pyDictStep_keys_mem]
    constructor
    · rintro ((h | h) | h)
      · exact Or.inl h
      · exact Or.inr (Or.inl h)
      · exact Or.inr (Or.inr h)
    · rintro (h | h | h)
      · exact Or.inl (Or.inl h)
      · exact Or.inl (Or.inr h)
      · exact Or.inr h

theorem foldl_pyDictStep_mem (l acc : List (Name × β)) (q : Name × β) (h : q ∈ l.foldl pyDictStep acc) :
    q ∈ acc ∨ q ∈ l := by
  induction l generalizing acc with
  | nil => exact Or.inl h
  | cons p t ih =>
    simp only [List.foldl_cons] at h
    rcases ih _ h with h' | h'
    · rcases pyDictStep_mem acc p q h' with h'' | rfl
      · exact Or.inl h''
      · exact Or.inr (List.mem_cons_self ..)
    · exact Or.inr (List.mem_cons_of_mem _ h')

theorem foldl_pyDictStep_nodup (l acc : List (Name × β)) (h : ((acc ++ l).map (·.1)).Nodup) :
    l.foldl pyDictStep acc = acc ++ l := by
  induction l generalizing acc with
  | nil => simp
  | cons p t ih =>
    simp only [List.foldl_cons]
    have hnot : acc.any (fun q => q.1 == p.1) = false := by
      rw [List.map_append, List.nodup_append] at h
      apply Bool.eq_false_iff.mpr
      intro hany
      simp only [List.any_eq_true, beq_iff_eq] at hany
      obtain ⟨q, hq, hqk⟩ := hany
      exact h.2.2 q.1 (List.mem_map.mpr ⟨q, hq, rfl⟩) p.1 (by simp) hqk
    have hstep : pyDictStep acc p = acc ++ [p] := by unfold pyDictStep; simp [hnot]
    rw [hstep, ih (acc ++ [p]) (by simpa [List.append_assoc] using h)]
    simp [List.append_assoc]

/-- Distinct keys: the dict lists every pair, once, in order. -/
theorem pyDict_of_nodup (l : List (Name × β)) (h : (l.map (·.1)).Nodup) : pyDict l = l := by
  rw [pyDict_eq, foldl_pyDictStep_nodup l [] (by simpa using h)]; simp

/-- In general: the dict's keys are exactly the keys offered, and every entry is one of the pairs offered. -/
theorem pyDict_keys_mem (l : List (Name × β)) (k : Name) : k ∈ (pyDict l).map (·.1) ↔ k ∈ l.map (·.1) := by
  rw [pyDict_eq, foldl_pyDictStep_keys_mem]; simp

theorem pyDict_mem (l : List (Name × β)) (q : Name × β) (h : q ∈ pyDict l) : q ∈ l := by
  rw [pyDict_eq] at h
  rcases foldl_pyDictStep_mem l [] q h with h' | h'
  · cases h'
  · exact h'

end Primaite.FileSystem
