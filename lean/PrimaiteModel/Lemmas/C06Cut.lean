/-
Generic cut theorem for re-entrant nodes (used by Props/C06.lean) and the closure lemmas that discharge
`SafeAct` for the script combinators of `Model/Cut.lean`.
-/
import PrimaiteModel.Model.Cut
namespace Primaite.Cut
set_option linter.unusedSectionVars false

variable {N Port F S : Type} [DecidableEq N]
variable (sys : Sys N Port F S) (side : N → Bool) (K : N → Port → F → Prop) (I : N → S → Prop)

theorem good_refl (σ : St N S) (h : ∀ n, side n = true → I n (σ n)) : Good side I σ σ :=
  ⟨h, fun _ _ => rfl⟩

theorem good_trans {σ₀ σ₁ σ₂ : St N S} (h₁ : Good side I σ₀ σ₁) (h₂ : Good side I σ₁ σ₂) : Good side I σ₀ σ₂ :=
  ⟨h₂.1, fun t ht => by rw [h₂.2 t ht, h₁.2 t ht]⟩

/-- Running a safe script of a `side`-node, with a nested delivery function that is itself good on
admissible arrivals, is good. -/
theorem runAct_good (dlv : St N S → N → Port → F → St N S)
    (hdlv : ∀ (σ : St N S) m r g, (∀ n, side n = true → I n (σ n)) → side m = true → K m r g →
      Good side I σ (dlv σ m r g))
    (n : N) (hn : side n = true) :
    ∀ (a : Act S Port F) (σ0 : St N S), SafeAct sys side K I n a →
      (∀ n, side n = true → I n (σ0 n)) → Good side I σ0 (runAct dlv sys.wire n σ0 a) := by
  intro a
  induction a with
  | done s =>
    intro σ0 hs hI0
    cases hs with
    | done hi =>
      refine ⟨?_, ?_⟩
      · intro m hm
        by_cases hmn : m = n
        · subst hmn; simp [runAct, upd]; exact hi
        · simp [runAct, upd, hmn]; exact hI0 m hm
      · intro t ht
        have : t ≠ n := by intro h; subst h; simp [ht] at hn
        simp [runAct, upd, this]
  | send s q g k ihk =>
    intro σ0 hs hI0
    cases hs with
    | send hi hw hk =>
      simp only [runAct]
      have hI1 : ∀ m, side m = true → I m (upd σ0 n s m) := by
        intro m hm
        by_cases hmn : m = n
        · subst hmn; simp [upd]; exact hi
        · simp [upd, hmn]; exact hI0 m hm
      have hT1 : ∀ t, side t = false → upd σ0 n s t = σ0 t := by
        intro t ht
        have : t ≠ n := by intro h; subst h; simp [ht] at hn
        simp [upd, this]
      have hnest : Good side I (upd σ0 n s)
          (match sys.wire n q with
            | none => upd σ0 n s
            | some (m, r) => dlv (upd σ0 n s) m r g) := by
        cases hwq : sys.wire n q with
        | none => exact ⟨hI1, fun _ _ => rfl⟩
        | some mr =>
          obtain ⟨m, r⟩ := mr
          have := hw m r hwq
          exact hdlv (upd σ0 n s) m r g hI1 this.1 this.2
      obtain ⟨hI2, hT2⟩ := hnest
      obtain ⟨hI3, hT3⟩ := ihk _ _ (hk _ (hI2 n hn)) hI2
      exact ⟨hI3, fun t ht => (hT3 t ht).trans ((hT2 t ht).trans (hT1 t ht))⟩

/-- **Cut theorem, delivery.** If the system is a cut, delivering an admissible frame to an attacker-side
node — with everything that this triggers, to any nesting depth, re-entrance included — leaves every protected
node's state exactly as it was, and re-establishes the attacker-side invariants. -/
theorem deliver_good (cut : IsCut sys side K I) :
    ∀ (fuel : Nat) (σ : St N S) (n : N) (p : Port) (f : F),
      (∀ n, side n = true → I n (σ n)) → side n = true → K n p f →
      Good side I σ (deliver sys fuel σ n p f) := by
  intro fuel
  induction fuel with
  | zero => intro σ n p f hI _ _; exact ⟨hI, fun _ _ => rfl⟩
  | succ fuel ih =>
    intro σ n p f hI hn hK
    simp only [deliver]
    exact runAct_good sys side K I (deliver sys fuel) (fun σ m r g h1 h2 h3 => ih σ m r g h1 h2 h3) n hn _ σ
      (cut.closed n (σ n) p f hn (hI n hn) hK) hI

/-- An operation is admissible when it runs on an attacker-side node and its script is safe from every
state satisfying that node's invariant. -/
def SafeOp (o : Op N Port F S) : Prop :=
  side o.node = true ∧ ∀ s, I o.node s → SafeAct sys side K I o.node (o.script s)

theorem runOp_good (cut : IsCut sys side K I) (fuel : Nat) (σ : St N S) (o : Op N Port F S)
    (ho : SafeOp sys side K I o) (hI : ∀ n, side n = true → I n (σ n)) :
    Good side I σ (runOp sys fuel σ o) := by
  unfold runOp
  exact runAct_good sys side K I (deliver sys fuel)
    (fun σ m r g h1 h2 h3 => deliver_good sys side K I cut fuel σ m r g h1 h2 h3) o.node ho.1 _ σ
    (ho.2 _ (hI _ ho.1)) hI

/-- **Cut theorem, operation sequences.** Any sequence of admissible local operations on attacker-side
nodes leaves every protected node's state unchanged. -/
theorem runOps_good (cut : IsCut sys side K I) :
    ∀ (ops : List (Nat × Op N Port F S)) (σ : St N S),
      (∀ o ∈ ops, SafeOp sys side K I o.2) → (∀ n, side n = true → I n (σ n)) →
      Good side I σ (runOps sys σ ops) := by
  intro ops
  induction ops with
  | nil => intro σ _ hI; exact good_refl side I σ hI
  | cons x rest ih =>
    intro σ hops hI
    obtain ⟨fuel, o⟩ := x
    simp only [runOps]
    have h1 := runOp_good sys side K I cut fuel σ o (hops (fuel, o) (by simp)) hI
    have h2 := ih (runOp sys fuel σ o) (fun o' ho' => hops o' (by simp [ho'])) h1.1
    exact good_trans side I h1 h2

/-! ### closure lemmas for the script combinators -/

theorem safe_bind (n : N) :
    ∀ (a : Act S Port F) (k : S → Act S Port F), SafeAct sys side K I n a →
      (∀ s, I n s → SafeAct sys side K I n (k s)) → SafeAct sys side K I n (a.bind k) := by
  intro a
  induction a with
  | done s =>
    intro k ha hk
    cases ha with
    | done hi => exact hk s hi
  | send s q g k' ih =>
    intro k ha hk
    cases ha with
    | send hi hw hk' =>
      exact SafeAct.send hi hw (fun s' hs' => ih s' k (hk' s' hs') hk)

/-- A node all of whose wires lead to attacker-side nodes is safe whatever it does (class `K` holds of whatever\ntravels over its wires). -/
theorem safe_of_interior (n : N) (hK : ∀ q m r g, sys.wire n q = some (m, r) → K m r g) (hI : ∀ s, I n s)
    (hw : ∀ q m r, sys.wire n q = some (m, r) → side m = true) :
    ∀ a : Act S Port F, SafeAct sys side K I n a := by
  intro a
  induction a with
  | done s => exact SafeAct.done (hI s)
  | send s q g k ih =>
    exact SafeAct.send (hI s) (fun m r h => ⟨hw q m r h, hK q m r g h⟩) (fun s' _ => ih s')

/-- A script that only writes `P`-states stays so under the interface-send layer. -/
theorem pres_guard (P : S → Prop) (en : S → Port → Bool) :
    ∀ a : Act S Port F, Pres P a → Pres P (guardSends en a) := by
  intro a
  induction a with
  | done s => intro h; cases h with | done hp => exact Pres.done hp
  | send s q g k ih =>
    intro h
    cases h with
    | send hp hk =>
      simp only [guardSends]
      split
      · exact Pres.send hp (fun s' hs' => ih s' (hk s' hs'))
      · exact ih s (hk s hp)

theorem pres_bind (P : S → Prop) :
    ∀ (a : Act S Port F) (k : S → Act S Port F), Pres P a → (∀ s, P s → Pres P (k s)) → Pres P (a.bind k) := by
  intro a
  induction a with
  | done s => intro k ha hk; cases ha with | done hp => exact hk s hp
  | send s q g k' ih =>
    intro k ha hk
    cases ha with
    | send hp hk' => exact Pres.send hp (fun s' hs' => ih s' k (hk' s' hs') hk)

/-- **Disabled interfaces are inert on the send side.** A node whose scripts go through the interface-send
layer and only write states in which every port that leaves the attacker side is disabled, is safe. -/
theorem safe_of_guard (n : N) (en : S → Port → Bool) (hK : ∀ q m r g, sys.wire n q = some (m, r) → K m r g)
    (hw : ∀ s q m r, I n s → en s q = true → sys.wire n q = some (m, r) → side m = true) :
    ∀ a : Act S Port F, Pres (I n) a → SafeAct sys side K I n (guardSends en a) := by
  intro a
  induction a with
  | done s => intro h; cases h with | done hp => exact SafeAct.done hp
  | send s q g k ih =>
    intro h
    cases h with
    | send hp hk =>
      simp only [guardSends]
      split
      · rename_i hen
        exact SafeAct.send hp (fun m r hwq => ⟨hw s q m r hp hen hwq, hK q m r g hwq⟩) (fun s' hs' => ih s' (hk s' hs'))
      · exact ih s (hk s hp)

/-- A script without emissions. -/
theorem safe_done (n : N) (s : S) (h : I n s) : SafeAct sys side K I n (.done s : Act S Port F) := SafeAct.done h

/-! ### what delivery does when the handler finishes at once -/

theorem runAct_done (dlv : St N S → N → Port → F → St N S) (wire : N → Port → Option (N × Port)) (n : N)
    (σ : St N S) (s : S) : runAct dlv wire n σ (.done s : Act S Port F) = upd σ n s := rfl

end Primaite.Cut
