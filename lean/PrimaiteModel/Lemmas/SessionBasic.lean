/-
Helper lemmas for C16: list-of-nodes plumbing and the "only shrinks" relation satisfied by everything that
tears sessions and connections down (`_disconnect`, the disconnect message, logout, time-out).
-/
import PrimaiteModel.Model.Session
namespace Primaite.Session

/-! ### `updAt` / `Net.upd` -/

theorem updAt_length (l : List Node) (i : Nat) (f : Node → Node) : (updAt l i f).length = l.length := by
  induction l generalizing i with
  | nil => simp [updAt]
  | cons a t ih => cases i <;> simp [updAt, ih]

theorem updAt_get (l : List Node) (i j : Nat) (f : Node → Node) :
    (updAt l i f)[j]? = if i = j then l[j]?.map f else l[j]? := by
  induction l generalizing i j with
  | nil => simp [updAt]
  | cons a t ih =>
    cases i with
    | zero => cases j <;> simp [updAt]
    | succ i =>
      cases j with
      | zero => simp [updAt]
      | succ j => simp [updAt, ih]

@[simp] theorem node_upd (n : Net) (i j : Nat) (f : Node → Node) :
    (n.upd i f).node j = if i = j then (n.node j).map f else n.node j := by
  simp [Net.upd, Net.node, updAt_get]

theorem node_upd_same (n : Net) (i : Nat) (f : Node → Node) : (n.upd i f).node i = (n.node i).map f := by simp

theorem node_upd_ne (n : Net) {i j : Nat} (f : Node → Node) (h : i ≠ j) : (n.upd i f).node j = n.node j := by simp [h]

@[simp] theorem upd_time (n : Net) (i : Nat) (f : Node → Node) : (n.upd i f).time = n.time := rfl
@[simp] theorem upd_nextId (n : Net) (i : Nat) (f : Node → Node) : (n.upd i f).nextId = n.nextId := rfl
@[simp] theorem upd_blocked (n : Net) (i : Nat) (f : Node → Node) : (n.upd i f).blocked = n.blocked := rfl
@[simp] theorem upd_open (n : Net) (i : Nat) (f : Node → Node) (x y : Nat) : (n.upd i f).open x y = n.open x y := rfl
@[simp] theorem upd_length (n : Net) (i : Nat) (f : Node → Node) : (n.upd i f).nodes.length = n.nodes.length := by
  simp [Net.upd, updAt_length]

theorem node_some_lt {n : Net} {j : Nat} {a : Node} (h : n.node j = some a) : j < n.nodes.length := by
  unfold Net.node at h
  exact (List.getElem?_eq_some_iff.mp h).1

/-! ### the part of a node that tearing down sessions never touches -/

/-- everything except local session, remote sessions and terminal connections -/
def Node.core (nd : Node) : Node := { nd with loc := none, rem := [], conns := [] }

/-- `b` is `a` with some sessions / connections removed and possibly the local session ended -/
structure Node.Shr (a b : Node) : Prop where
  core : b.core = a.core
  rem : b.rem.Sublist a.rem
  conns : b.conns.Sublist a.conns
  loc : b.loc = a.loc ∨ b.loc = none

theorem Node.Shr.refl (a : Node) : a.Shr a := ⟨rfl, List.Sublist.refl _, List.Sublist.refl _, Or.inl rfl⟩

theorem Node.Shr.trans {a b c : Node} (h1 : a.Shr b) (h2 : b.Shr c) : a.Shr c :=
  ⟨h2.core.trans h1.core, h2.rem.trans h1.rem, h2.conns.trans h1.conns, by
    rcases h2.loc with h | h
    · rcases h1.loc with g | g
      · exact Or.inl (h.trans g)
      · exact Or.inr (h.trans g)
    · exact Or.inr h⟩

theorem Node.Shr.files {a b : Node} (h : a.Shr b) : b.files = a.files := by have := congrArg Node.files h.core; exact this
theorem Node.Shr.users {a b : Node} (h : a.Shr b) : b.users = a.users := by have := congrArg Node.users h.core; exact this
theorem Node.Shr.power {a b : Node} (h : a.Shr b) : b.power = a.power := by have := congrArg Node.power h.core; exact this
theorem Node.Shr.nic {a b : Node} (h : a.Shr b) : b.nic = a.nic := by have := congrArg Node.nic h.core; exact this
theorem Node.Shr.term {a b : Node} (h : a.Shr b) : b.term = a.term := by have := congrArg Node.term h.core; exact this
theorem Node.Shr.um {a b : Node} (h : a.Shr b) : b.um = a.um := by have := congrArg Node.um h.core; exact this
theorem Node.Shr.usm {a b : Node} (h : a.Shr b) : b.usm = a.usm := by have := congrArg Node.usm h.core; exact this
theorem Node.Shr.maxRemote {a b : Node} (h : a.Shr b) : b.maxRemote = a.maxRemote := by have := congrArg Node.maxRemote h.core; exact this
theorem Node.Shr.remoteTimeout {a b : Node} (h : a.Shr b) : b.remoteTimeout = a.remoteTimeout := by have := congrArg Node.remoteTimeout h.core; exact this
theorem Node.Shr.localTimeout {a b : Node} (h : a.Shr b) : b.localTimeout = a.localTimeout := by have := congrArg Node.localTimeout h.core; exact this

theorem Node.Shr.isOn {a b : Node} (h : a.Shr b) : b.isOn = a.isOn := by simp [Node.isOn, h.power]
theorem Node.Shr.canUsm {a b : Node} (h : a.Shr b) : b.canUsm = a.canUsm := by simp [Node.canUsm, h.isOn, h.usm]
theorem Node.Shr.canUm {a b : Node} (h : a.Shr b) : b.canUm = a.canUm := by simp [Node.canUm, h.isOn, h.um]

theorem shr_dropConn (cid : Nat) (a : Node) : a.Shr (a.dropConn cid) :=
  ⟨rfl, List.Sublist.refl _, List.filter_sublist, Or.inl rfl⟩

theorem shr_dropSession (cid : Nat) (a : Node) : a.Shr (a.dropSession cid) :=
  ⟨rfl, List.filter_sublist, List.Sublist.refl _, Or.inl rfl⟩

theorem shr_localLogout (a : Node) : a.Shr a.localLogout := by
  unfold Node.localLogout
  split
  · exact ⟨rfl, List.Sublist.refl _, List.Sublist.refl _, Or.inr rfl⟩
  · exact Node.Shr.refl a

theorem shr_clearLoc (a : Node) : a.Shr a.clearLoc :=
  ⟨rfl, List.Sublist.refl _, List.Sublist.refl _, Or.inr rfl⟩

theorem shr_endLocalOf (u : String) (a : Node) : a.Shr (a.endLocalOf u) := by
  unfold Node.endLocalOf
  split
  · split
    · exact shr_clearLoc a
    · exact Node.Shr.refl a
  · exact Node.Shr.refl a

/-- network level -/
structure Net.Shr (n m : Net) : Prop where
  time : m.time = n.time
  nextId : m.nextId = n.nextId
  len : m.nodes.length = n.nodes.length
  blocked : m.blocked = n.blocked
  hairpin : m.hairpin = n.hairpin
  node : ∀ j a, n.node j = some a → ∃ b, m.node j = some b ∧ a.Shr b

theorem Net.Shr.refl (n : Net) : n.Shr n := ⟨rfl, rfl, rfl, rfl, rfl, fun _ a h => ⟨a, h, Node.Shr.refl a⟩⟩

theorem Net.Shr.trans {n m k : Net} (h1 : n.Shr m) (h2 : m.Shr k) : n.Shr k :=
  ⟨h2.time.trans h1.time, h2.nextId.trans h1.nextId, h2.len.trans h1.len, h2.blocked.trans h1.blocked, h2.hairpin.trans h1.hairpin, fun j a h => by
    obtain ⟨b, hb, hab⟩ := h1.node j a h
    obtain ⟨c, hc, hbc⟩ := h2.node j b hb
    exact ⟨c, hc, hab.trans hbc⟩⟩

theorem Net.Shr.none {n m : Net} (h : n.Shr m) {j : Nat} (hj : n.node j = none) : m.node j = none := by
  unfold Net.node at *
  rw [List.getElem?_eq_none_iff] at *
  have := h.len
  omega

theorem Net.Shr.back {n m : Net} (h : n.Shr m) {j : Nat} {b : Node} (hb : m.node j = some b) :
    ∃ a, n.node j = some a ∧ a.Shr b := by
  cases ha : n.node j with
  | none => rw [h.none ha] at hb; cases hb
  | some a =>
    obtain ⟨b', hb', hab⟩ := h.node j a ha
    rw [hb] at hb'; cases hb'
    exact ⟨a, rfl, hab⟩

theorem shr_upd (n : Net) (i : Nat) (f : Node → Node) (hf : ∀ a : Node, a.Shr (f a)) : n.Shr (n.upd i f) :=
  ⟨rfl, rfl, by simp, rfl, rfl, fun j a h => by
    by_cases hij : i = j
    · subst hij; exact ⟨f a, by simp [h], hf a⟩
    · exact ⟨a, by simp [hij, h], Node.Shr.refl a⟩⟩

theorem shr_stuck (n : Net) : n.Shr { n with stuck := true } :=
  ⟨rfl, rfl, rfl, rfl, rfl, fun _ a h => ⟨a, h, Node.Shr.refl a⟩⟩

theorem canDeliver_shr {n m : Net} (h : n.Shr m) (x y : Nat) : canDeliver m x y = canDeliver n x y := by
  unfold canDeliver
  cases hx : n.node x with
  | none => simp [h.none hx]
  | some a =>
    obtain ⟨a', ha', haa⟩ := h.node x a hx
    cases hy : n.node y with
    | none => simp [h.none hy, ha']
    | some b =>
      obtain ⟨b', hb', hbb⟩ := h.node y b hy
      simp [ha', hb', haa.nic, hbb.nic, hbb.term, Net.open, h.blocked, h.hairpin]

/-! ### the disconnect chain only shrinks -/

theorem shr_chain (f : Nat) : ∀ (h : Hop) (n : Net) (i cid : Nat), n.Shr (chain f h n i cid) := by
  induction f with
  | zero => intro h n i cid; unfold chain; exact shr_stuck n
  | succ f ih =>
    intro h n i cid
    cases h with
    | disconnect =>
      unfold chain
      split
      · exact Net.Shr.refl n
      · split
        · exact Net.Shr.refl n
        · have h1 : n.Shr (n.upd i (Node.dropConn cid)) := shr_upd n i _ (shr_dropConn cid)
          split
          · exact h1.trans (shr_upd _ i _ shr_localLogout)
          · split
            · exact h1.trans (ih _ _ _ _)
            · exact h1
    | onDisconnect =>
      unfold chain
      split
      · exact Net.Shr.refl n
      · split
        · split
          · exact (ih .disconnect n i cid).trans (ih _ _ _ _)
          · exact Net.Shr.refl n
        · exact ih .disconnect n i cid
    | remoteLogout =>
      unfold chain
      split
      · exact Net.Shr.refl n
      · split
        · exact (ih .disconnect n i cid).trans (shr_upd _ i _ (shr_dropSession cid))
        · exact Net.Shr.refl n

theorem shr_disconnect (f : Nat) (n : Net) (i cid : Nat) : n.Shr (disconnect f n i cid) := shr_chain f .disconnect n i cid

theorem shr_forceLogout (n : Net) (j cid : Nat) : n.Shr (forceLogout n j cid) :=
  (shr_disconnect _ n j cid).trans (shr_upd _ j _ (shr_dropSession cid))

theorem shr_foldl {α : Type} (g : Net → α → Net) (hg : ∀ (m : Net) (a : α), m.Shr (g m a)) (l : List α) (n : Net) : n.Shr (l.foldl g n) := by
  induction l generalizing n with
  | nil => exact Net.Shr.refl n
  | cons a t ih => exact (hg n a).trans (ih _)

theorem shr_logoutUser (n : Net) (j : Nat) (u : String) : n.Shr (logoutUser n j u) := by
  unfold logoutUser
  split
  · exact Net.Shr.refl n
  · exact (shr_foldl _ (fun m cid => shr_forceLogout m j cid) _ n).trans (shr_upd _ j _ (shr_endLocalOf u))

theorem shr_timeoutRemote (n : Net) (y : Nat) (s : RSession) : n.Shr (timeoutRemote n y s) := by
  unfold timeoutRemote
  have h1 : n.Shr (n.upd y (fun nd => (nd.dropSession s.id).dropConn s.id)) :=
    shr_upd n y _ (fun a => (shr_dropSession s.id a).trans (shr_dropConn s.id _))
  simp only []
  split
  · exact h1.trans (shr_upd _ _ _ (shr_dropConn s.id))
  · exact h1

theorem shr_preTimestepNode (n : Net) (y : Nat) : n.Shr (preTimestepNode n y) := by
  unfold preTimestepNode
  split
  · exact Net.Shr.refl n
  · simp only []
    refine Net.Shr.trans ?_ (shr_foldl _ (fun m s => shr_timeoutRemote m y s) _ _)
    split
    · exact shr_upd n y _ shr_clearLoc
    · exact Net.Shr.refl n



/-! ### a generic node-wise relation between two networks -/

/-- every node of `n` is still there in `m` and related by `R` (indexed by the node's position) -/
structure Net.Rel (R : Nat → Node → Node → Prop) (n m : Net) : Prop where
  len : m.nodes.length = n.nodes.length
  node : ∀ j a, n.node j = some a → ∃ b, m.node j = some b ∧ R j a b

theorem Net.Rel.refl {R : Nat → Node → Node → Prop} (hR : ∀ j a, R j a a) (n : Net) : Net.Rel R n n :=
  ⟨rfl, fun j a h => ⟨a, h, hR j a⟩⟩

theorem Net.Rel.trans {R S T : Nat → Node → Node → Prop} (hT : ∀ j a b c, R j a b → S j b c → T j a c) {n m k : Net}
    (h1 : Net.Rel R n m) (h2 : Net.Rel S m k) : Net.Rel T n k :=
  ⟨h2.len.trans h1.len, fun j a h => by
    obtain ⟨b, hb, hab⟩ := h1.node j a h
    obtain ⟨c, hc, hbc⟩ := h2.node j b hb
    exact ⟨c, hc, hT j a b c hab hbc⟩⟩

theorem Net.Rel.mono {R S : Nat → Node → Node → Prop} (h : ∀ j a b, R j a b → S j a b) {n m : Net} (h1 : Net.Rel R n m) :
    Net.Rel S n m := ⟨h1.len, fun j a ha => by obtain ⟨b, hb, hab⟩ := h1.node j a ha; exact ⟨b, hb, h j a b hab⟩⟩

theorem Net.Shr.rel {n m : Net} (h : n.Shr m) : Net.Rel (fun _ a b => a.Shr b) n m := ⟨h.len, h.node⟩

theorem rel_upd {R : Nat → Node → Node → Prop} (n : Net) (i : Nat) (f : Node → Node) (hR : ∀ j a, R j a a)
    (hf : ∀ a, n.node i = some a → R i a (f a)) : Net.Rel R n (n.upd i f) :=
  ⟨by simp, fun j a h => by
    by_cases hij : i = j
    · subst hij; exact ⟨f a, by simp [h], hf a h⟩
    · exact ⟨a, by simp [hij, h], hR j a⟩⟩

theorem rel_map {R : Nat → Node → Node → Prop} (n : Net) (g : Node → Node) (t : Nat) (hg : ∀ j a, R j a (g a)) :
    Net.Rel R n { n with time := t, nodes := n.nodes.map g } :=
  ⟨by simp, fun j a h => ⟨g a, by simp [Net.node] at h ⊢; simp [h], hg j a⟩⟩

theorem rel_bump {R : Nat → Node → Node → Prop} {n m : Net} (h : Net.Rel R n m) (k : Nat) :
    Net.Rel R n (m.bump k) := ⟨h.len, h.node⟩

@[simp] theorem node_bump (n : Net) (k j : Nat) : (n.bump k).node j = n.node j := rfl
@[simp] theorem bump_time (n : Net) (k : Nat) : (n.bump k).time = n.time := rfl
@[simp] theorem bump_nextId (n : Net) (k : Nat) : (n.bump k).nextId = k := rfl
@[simp] theorem bump_blocked (n : Net) (k : Nat) : (n.bump k).blocked = n.blocked := rfl
@[simp] theorem bump_hairpin (n : Net) (k : Nat) : (n.bump k).hairpin = n.hairpin := rfl
@[simp] theorem upd_hairpin (n : Net) (i : Nat) (f : Node → Node) : (n.upd i f).hairpin = n.hairpin := rfl

/-- a reflexive, transitive node relation -/
structure Pre (R : Nat → Node → Node → Prop) : Prop where
  refl : ∀ j a, R j a a
  trans : ∀ j a b c, R j a b → R j b c → R j a c

theorem Pre.rel_refl {R : Nat → Node → Node → Prop} (hR : Pre R) (n : Net) : Net.Rel R n n := Net.Rel.refl hR.refl n

theorem Pre.rel_trans {R : Nat → Node → Node → Prop} (hR : Pre R) {n m k : Net} (h1 : Net.Rel R n m) (h2 : Net.Rel R m k) :
    Net.Rel R n k := Net.Rel.trans hR.trans h1 h2

/-- one more node edit on the right -/
theorem Pre.rel_upd {R : Nat → Node → Node → Prop} (hR : Pre R) {n m : Net} (h : Net.Rel R n m) (i : Nat) (f : Node → Node)
    (hf : ∀ a, R i a (f a)) : Net.Rel R n (m.upd i f) :=
  hR.rel_trans h (_root_.Primaite.Session.rel_upd m i f hR.refl (fun a _ => hf a))

theorem Pre.rel_shr {R : Nat → Node → Node → Prop} (hR : Pre R) (hS : ∀ j a b, Node.Shr a b → R j a b) {n m k : Net}
    (h : Net.Rel R n m) (h2 : m.Shr k) : Net.Rel R n k := hR.rel_trans h (h2.rel.mono hS)

theorem Pre.rel_tick {R : Nat → Node → Node → Prop} (hR : Pre R) (hS : ∀ j a b, Node.Shr a b → R j a b)
    (hA : ∀ j a, R j a a.applyTimestep) (n : Net) : Net.Rel R n (tick n) := by
  unfold tick
  exact hR.rel_shr hS (rel_map n _ (n.time + 1) hA) (shr_foldl _ shr_preTimestepNode _ _)

/-! ### what the power / service machinery never touches -/

def Node.data (nd : Node) : List User × Option LSession × List RSession × List Conn × List Nat × Nat × Nat × Nat :=
  (nd.users, nd.loc, nd.rem, nd.conns, nd.files, nd.maxRemote, nd.localTimeout, nd.remoteTimeout)

theorem startUpActions_data (a : Node) : a.startUpActions.data = a.data := rfl
theorem shutDownActions_data (a : Node) : a.shutDownActions.data = a.data := rfl

theorem powerOn_data (a : Node) : a.powerOn.1.data = a.data := by
  unfold Node.powerOn; split
  · rfl
  · split <;> rfl

theorem powerOff_data (a : Node) : a.powerOff.1.data = a.data := by
  unfold Node.powerOff; split
  · dsimp only
    split
    · exact powerOn_data _
    · rfl
  · split <;> rfl

theorem bootPhase_data (a : Node) : a.bootPhase.data = a.data := by
  unfold Node.bootPhase; split
  · rfl
  · split <;> rfl

theorem shutPhase_data (a : Node) : a.shutPhase.data = a.data := by
  unfold Node.shutPhase; split
  · rfl
  · split
    · dsimp only
      split
      · exact powerOn_data _
      · rfl
    · rfl

theorem svcPhase_data (a : Node) : a.svcPhase.data = a.data := by
  unfold Node.svcPhase; split <;> rfl

theorem applyTimestep_data (a : Node) : a.applyTimestep.data = a.data := by
  unfold Node.applyTimestep
  rw [svcPhase_data, shutPhase_data, bootPhase_data]

theorem setSvc_data (a : Node) (w : SvcName) (s : Service) : (a.setSvc w s).data = a.data := by
  cases w <;> rfl

theorem data_files {a b : Node} (h : b.data = a.data) : b.files = a.files := by
  have := congrArg (fun d => d.2.2.2.2.1) h; exact this
theorem data_users {a b : Node} (h : b.data = a.data) : b.users = a.users := by
  have := congrArg (fun d => d.1) h; exact this
theorem data_loc {a b : Node} (h : b.data = a.data) : b.loc = a.loc := by
  have := congrArg (fun d => d.2.1) h; exact this
theorem data_rem {a b : Node} (h : b.data = a.data) : b.rem = a.rem := by
  have := congrArg (fun d => d.2.2.1) h; exact this
theorem data_conns {a b : Node} (h : b.data = a.data) : b.conns = a.conns := by
  have := congrArg (fun d => d.2.2.2.1) h; exact this
theorem data_maxRemote {a b : Node} (h : b.data = a.data) : b.maxRemote = a.maxRemote := by
  have := congrArg (fun d => d.2.2.2.2.2.1) h; exact this
theorem data_localTimeout {a b : Node} (h : b.data = a.data) : b.localTimeout = a.localTimeout := by
  have := congrArg (fun d => d.2.2.2.2.2.2.1) h; exact this
theorem data_remoteTimeout {a b : Node} (h : b.data = a.data) : b.remoteTimeout = a.remoteTimeout := by
  have := congrArg (fun d => d.2.2.2.2.2.2.2) h; exact this

theorem Node.Shr.data_of_eq {a b : Node} (h : a.Shr b) :
    b.files = a.files ∧ b.users = a.users ∧ b.maxRemote = a.maxRemote ∧ b.localTimeout = a.localTimeout ∧
    b.remoteTimeout = a.remoteTimeout := ⟨h.files, h.users, h.maxRemote, h.localTimeout, h.remoteTimeout⟩

end Primaite.Session
