/-
Proof development for the loading side (Model/Reward.lean `fromConfig`): the agent dictionary built from the
configuration, acceptance/rejection, well-formedness of the loaded game, runs of steps, totals, and independence from
the declaration order and from the iteration order of the neighbour sets.
-/
import PrimaiteModel.Lemmas.RewardGame
namespace Primaite.Reward
open Primaite.RewardGraph

/-- a set-iteration oracle returns exactly the inserted elements, in some order (duplicates allowed) -/
def SetLike (σ : List Name → List Name) : Prop := ∀ l x, x ∈ σ l ↔ x ∈ l

/-- freshly built agents: nothing accumulated yet -/
def Fresh (as : List (Name × Agent)) : Prop := ∀ p ∈ as, p.2.current = 0 ∧ p.2.total = 0 ∧ p.2.hist = []

theorem mem_setAgent {n : Name} {a : Agent} {as : List (Name × Agent)} {p : Name × Agent}
    (h : p ∈ setAgent n a as) : p ∈ as ∨ p.2 = a := by
  unfold setAgent at h
  obtain ⟨q, hq, rfl⟩ := List.mem_map.mp h
  by_cases hqn : q.1 = n
  · simp [hqn]
  · simp [hqn, hq]

theorem insertAgent_keysNodup (as : List (Name × Agent)) (n : Name) (a : Agent) (h : (agentKeys as).Nodup) :
    (agentKeys (insertAgent as n a)).Nodup := by
  unfold insertAgent
  by_cases hn : n ∈ agentKeys as
  · rw [if_pos hn, agentKeys_setAgent]; exact h
  · rw [if_neg hn]
    have : agentKeys (as ++ [(n, a)]) = agentKeys as ++ [n] := by simp [agentKeys]
    rw [this]
    exact List.nodup_append.mpr ⟨h, by simp, by
      intro x hx y hy; simp at hy; subst hy; intro hxy; subst hxy; exact hn hx⟩

theorem buildAgents_inv (cfgs : List AgentCfg) :
    (agentKeys (buildAgents cfgs)).Nodup ∧ Fresh (buildAgents cfgs) := by
  unfold buildAgents
  have key : ∀ (cs : List AgentCfg) (acc : List (Name × Agent)), (agentKeys acc).Nodup → Fresh acc →
      (agentKeys (cs.foldl (fun acc c => insertAgent acc c.ref { comps := c.comps }) acc)).Nodup ∧
      Fresh (cs.foldl (fun acc c => insertAgent acc c.ref { comps := c.comps }) acc) := by
    intro cs
    induction cs with
    | nil => intro acc h1 h2; exact ⟨h1, h2⟩
    | cons c cs ih =>
      intro acc h1 h2
      simp only [List.foldl_cons]
      apply ih _ (insertAgent_keysNodup acc c.ref _ h1)
      intro p hp
      unfold insertAgent at hp
      by_cases hn : c.ref ∈ agentKeys acc
      · rw [if_pos hn] at hp
        rcases mem_setAgent hp with h | h
        · exact h2 p h
        · rw [h]; exact ⟨rfl, rfl, rfl⟩
      · rw [if_neg hn] at hp
        simp only [List.mem_append, List.mem_singleton] at hp
        rcases hp with h | h
        · exact h2 p h
        · rw [h]; exact ⟨rfl, rfl, rfl⟩
  exact key cfgs [] (by simp [agentKeys]) (by intro p hp; simp at hp)

theorem mem_of_lookup_agents {as : List (Name × Agent)} {n : Name} {a : Agent} (h : as.lookup n = some a) :
    (n, a) ∈ as := by
  induction as with
  | nil => simp at h
  | cons p t ih =>
    obtain ⟨k, v⟩ := p
    simp only [List.lookup] at h
    by_cases hk : n = k
    · subst hk; simp at h; subst h; simp
    · have : (n == k) = false := by simp [hk]
      simp only [this] at h
      exact List.mem_cons_of_mem _ (ih h)

theorem lookup_of_mem_agents {as : List (Name × Agent)} (hk : (agentKeys as).Nodup) {n : Name} {a : Agent}
    (h : (n, a) ∈ as) : as.lookup n = some a := by
  induction as with
  | nil => simp at h
  | cons p t ih =>
    obtain ⟨k, v⟩ := p
    simp only [agentKeys, List.map_cons, List.nodup_cons] at hk
    simp only [List.lookup]
    rcases List.mem_cons.mp h with h' | h'
    · cases h'; simp
    · have hne : n ≠ k := by
        intro he; subst he
        exact hk.1 (List.mem_map.mpr ⟨(n, a), h', rfl⟩)
      have : (n == k) = false := by simp [hne]
      simp only [this]; exact ih hk.2 h'

theorem setAgent_self {as : List (Name × Agent)} (hk : (agentKeys as).Nodup) {n : Name} {a : Agent}
    (h : as.lookup n = some a) : setAgent n a as = as := by
  unfold setAgent
  conv => rhs; rw [← List.map_id as]
  apply List.map_congr_left
  intro p hp
  by_cases hpn : p.1 = n
  · have : as.lookup n = some p.2 := lookup_of_mem_agents hk (by rw [← hpn]; exact hp)
    rw [h] at this; cases this
    simp [hpn]; rw [← hpn]
  · simp [hpn]

/-- `update_agents` inside `from_config` (`step_counter == 0`) on fresh agents: nothing changes -/
theorem updateAgents_step0 (s : SimState) (as : List (Name × Agent)) (order : List Name)
    (hk : (agentKeys as).Nodup) (hf : Fresh as) (hm : ∀ n ∈ order, n ∈ agentKeys as) :
    updateAgents s { agents := as, order := order, stepCounter := 0 } =
      .ok { agents := as, order := order, stepCounter := 0 } := by
  unfold updateAgents
  simp only
  have key : ∀ (l : List Name), (∀ n ∈ l, n ∈ agentKeys as) →
      foldE (updOne s) { agents := as, order := order, stepCounter := 0 } l =
        .ok { agents := as, order := order, stepCounter := 0 } := by
    intro l
    induction l with
    | nil => intro _; rfl
    | cons n l ih =>
      intro hl
      obtain ⟨a, ha⟩ := mem_keys_lookup (hl n (by simp))
      obtain ⟨hc, ht, _⟩ := hf (n, a) (mem_of_lookup_agents ha)
      simp only at hc ht
      have hone : updOne s { agents := as, order := order, stepCounter := 0 } n =
          .ok { agents := as, order := order, stepCounter := 0 } := by
        unfold updOne
        simp only [ha, Nat.lt_irrefl, if_false]
        have : ({ a with total := a.total + a.current } : Agent) = a := by
          rw [hc, ht]; cases a; simp_all [Rat.add_zero]
        rw [this, setAgent_self hk ha]
      simp only [foldE, hone]
      exact ih (fun m hm' => hl m (by simp [hm']))
  exact key order hm

/-- every name an agent shares from is an agent (the sharing graph is "over the agents") -/
def Closed (as : List (Name × Agent)) : Prop :=
  ∀ n a, as.lookup n = some a → ∀ v ∈ sharedNames a.comps, v ∈ agentKeys as

theorem univ_sharingGraph_sub (σ : List Name → List Name) (hσ : SetLike σ) (as : List (Name × Agent))
    (hk : (agentKeys as).Nodup) (hc : Closed as) : ∀ x ∈ univ (sharingGraph σ as), x ∈ agentKeys as := by
  intro x hx
  unfold univ at hx
  rcases List.mem_append.mp hx with h | h
  · have := keys_sharingGraph σ as
    unfold keys at this; rw [this] at h; exact h
  · simp only [List.mem_flatMap] at h
    obtain ⟨⟨k, l⟩, hmem, hxl⟩ := h
    unfold sharingGraph at hmem
    obtain ⟨p, hp, hpe⟩ := List.mem_map.mp hmem
    cases hpe
    have hl := lookup_of_mem_agents hk (show (p.1, p.2) ∈ as from hp)
    exact hc p.1 p.2 hl x ((hσ _ x).mp hxl)

theorem sharingGraph_nbrs_iff (σ : List Name → List Name) (hσ : SetLike σ) (as : List (Name × Agent)) (u v : Name) :
    v ∈ nbrs (sharingGraph σ as) u ↔ v ∈ nbrs (depGraph as) u := by
  rw [nbrs_sharingGraph, nbrs_depGraph]
  cases as.lookup u with
  | none => simp
  | some a => exact hσ _ v

/-- **Loading.** A cyclic sharing graph is rejected; an acyclic one over the agents is accepted, the agents are as
configured, and the loaded game is well-formed (evaluation order: every agent once, dependencies first). -/
theorem fromConfig_spec (σ : List Name → List Name) (hσ : SetLike σ) (cfgs : List AgentCfg) :
    (hasCycle (sharingGraph σ (buildAgents cfgs)) = true → fromConfig σ cfgs = .error .cycle) ∧
    (hasCycle (sharingGraph σ (buildAgents cfgs)) = false → Closed (buildAgents cfgs) →
      let g : Game := { agents := buildAgents cfgs, order := topoSort (sharingGraph σ (buildAgents cfgs)), stepCounter := 0 }
      fromConfig σ cfgs = .ok g ∧ WF g) := by
  obtain ⟨hk, hfresh⟩ := buildAgents_inv cfgs
  constructor
  · intro h; unfold fromConfig; simp only [h, if_true]
  · intro h hc
    have hac : Acyclic (sharingGraph σ (buildAgents cfgs)) := (hasCycle_false_iff _).mp h
    have hgk : (keys (sharingGraph σ (buildAgents cfgs))).Nodup := by rw [keys_sharingGraph]; exact hk
    have hmem : ∀ n, n ∈ topoSort (sharingGraph σ (buildAgents cfgs)) ↔ n ∈ agentKeys (buildAgents cfgs) := by
      intro n
      rw [topoSort_mem_iff _ hac hgk]
      constructor
      · exact univ_sharingGraph_sub σ hσ _ hk hc n
      · intro hn; apply keys_sub_univ; rw [keys_sharingGraph]; exact hn
    constructor
    · unfold fromConfig
      simp only [h, Bool.false_eq_true, if_false]
      exact updateAgents_step0 _ _ _ hk hfresh (fun n hn => (hmem n).mp hn)
    · refine ⟨hk, (topoSort_nodup _).1, hmem, ?_⟩
      apply DepsFirst_of_nbrs_sub _ (topoSort_depsFirst' _ hac).1
      intro u v hv
      exact (sharingGraph_nbrs_iff σ hσ _ u v).mpr hv


/-! ### runs of steps; totals -/

/-- a run: the reward-relevant part of consecutive `step`s, each with the agents' items and the post-step state -/
def run : Game → List ((Name → Item) × SimState) → Except Err Game
  | g, [] => .ok g
  | g, (items, s) :: rest =>
    match gameStep g items s with
    | .ok g' => run g' rest
    | .error e => .error e

/-- the `reward` fields stored in an agent's history, newest first -/
def histRewards (a : Agent) : List Val := a.hist.filterMap (·.2)

/-- the bookkeeping invariant of one agent: every history item carries its step reward, the newest one is
`current_reward`, and `total_reward` is their sum -/
structure Booked (a : Agent) : Prop where
  allSaved : ∀ e ∈ a.hist, e.2 ≠ none
  total : a.total = (histRewards a).sum
  current : a.hist ≠ [] → (histRewards a).head? = some a.current

theorem updAgent_pushItem (s : SimState) (cur : Name → Val) (it : Item) (a : Agent) :
    updAgent s cur (pushItem it a) =
      { comps := (updateComps s it cur 0 a.comps).2, current := (updateComps s it cur 0 a.comps).1,
        total := a.total + (updateComps s it cur 0 a.comps).1,
        hist := (it, some (updateComps s it cur 0 a.comps).1) :: a.hist } := rfl

theorem Booked_step (s : SimState) (cur : Name → Val) (it : Item) (a : Agent) (h : Booked a) :
    Booked (updAgent s cur (pushItem it a)) ∧
    (updAgent s cur (pushItem it a)).hist.length = a.hist.length + 1 := by
  rw [updAgent_pushItem]
  refine ⟨⟨?_, ?_, ?_⟩, by simp⟩
  · intro e he
    simp only [List.mem_cons] at he
    rcases he with rfl | he
    · simp
    · exact h.allSaved e he
  · have := h.total
    simp only [histRewards] at this ⊢
    rw [this, Rat.add_comm]
    simp [List.filterMap_cons]
  · intro _; simp [histRewards]

theorem run_spec (steps : List ((Name → Item) × SimState)) :
    ∀ (g : Game), WF g → (∀ n a, g.agents.lookup n = some a → Booked a) →
    ∃ g', run g steps = .ok g' ∧ WF g' ∧ g'.stepCounter = g.stepCounter + steps.length ∧ g'.order = g.order ∧
      ∀ n a, g.agents.lookup n = some a →
        ∃ a', g'.agents.lookup n = some a' ∧ Booked a' ∧ a'.hist.length = a.hist.length + steps.length := by
  induction steps with
  | nil => intro g wf hb; exact ⟨g, rfl, wf, rfl, rfl, fun n a h => ⟨a, h, hb n a h, rfl⟩⟩
  | cons st rest ih =>
    intro g wf hb
    obtain ⟨items, s⟩ := st
    obtain ⟨g1, hok, wf1, ho1, hs1, hk1, hf1⟩ := gameStep_spec g wf items s
    have hb1 : ∀ n a, g1.agents.lookup n = some a → Booked a := by
      intro n a ha
      obtain ⟨a0, ha0⟩ := mem_keys_lookup (by rw [← hk1]; exact lookup_some_mem_keys ha)
      have := hf1 n a0 ha0
      rw [ha] at this; cases this
      exact (Booked_step s _ _ a0 (hb n a0 ha0)).1
    obtain ⟨g', hrun, wf', hs', ho', hf'⟩ := ih g1 wf1 hb1
    refine ⟨g', by simp only [run, hok]; exact hrun, wf', by rw [hs', hs1]; simp; omega, by rw [ho', ho1], ?_⟩
    intro n a ha
    obtain ⟨a', ha', hb', hl'⟩ := hf' n _ (hf1 n a ha)
    refine ⟨a', ha', hb', ?_⟩
    rw [hl', (Booked_step s _ _ a (hb n a ha)).2]; simp; omega

/-! ### the declaration order and the set iteration order do not matter -/

theorem gameStep_same (g1 g2 : Game) (wf1 : WF g1) (wf2 : WF g2) (same : SameAgents g1 g2)
    (items : Name → Item) (s : SimState) :
    ∃ g1' g2', gameStep g1 items s = .ok g1' ∧ gameStep g2 items s = .ok g2' ∧ WF g1' ∧ WF g2' ∧ SameAgents g1' g2' := by
  obtain ⟨g1', h1, w1, _, _, hk1, hf1⟩ := gameStep_spec g1 wf1 items s
  obtain ⟨g2', h2, w2, _, _, hk2, hf2⟩ := gameStep_spec g2 wf2 items s
  refine ⟨g1', g2', h1, h2, w1, w2, ?_⟩
  -- both results solve the fixed-point equations of the game `advance (act items g1)`
  have wfm := WF_advance_act items g1 wf1
  have hbase : ∀ n a, (advance (act items g1)).agents.lookup n = some a →
      ∃ a0, g1.agents.lookup n = some a0 ∧ a = pushItem (items n) a0 := by
    intro n a h
    have h' : (act items g1).agents.lookup n = some a := h
    rw [lookup_act] at h'
    cases h0 : g1.agents.lookup n with
    | none => rw [h0] at h'; simp at h'
    | some a0 => rw [h0] at h'; simp at h'; exact ⟨a0, rfl, h'.symm⟩
  intro n
  by_cases hn : n ∈ agentKeys g1.agents
  · apply fixpoint_unique s (advance (act items g1)) wfm g1'.agents g2'.agents
    · intro m a h
      obtain ⟨a0, ha0, rfl⟩ := hbase m a h
      exact hf1 m a0 ha0
    · intro m a h
      obtain ⟨a0, ha0, rfl⟩ := hbase m a h
      exact hf2 m a0 (by rw [← same m]; exact ha0)
    · show n ∈ agentKeys (act items g1).agents
      rw [agentKeys_act]; exact hn
  · have hn2 : n ∉ agentKeys g2.agents := by
      intro h'
      obtain ⟨a, ha⟩ := mem_keys_lookup h'
      rw [← same n] at ha
      exact hn (lookup_some_mem_keys ha)
    rw [(lookup_none_iff _ n).mpr (by rw [hk1]; exact hn), (lookup_none_iff _ n).mpr (by rw [hk2]; exact hn2)]

theorem run_same (steps : List ((Name → Item) × SimState)) :
    ∀ (g1 g2 : Game), WF g1 → WF g2 → SameAgents g1 g2 →
      ∃ g1' g2', run g1 steps = .ok g1' ∧ run g2 steps = .ok g2' ∧ SameAgents g1' g2' := by
  induction steps with
  | nil => intro g1 g2 _ _ same; exact ⟨g1, g2, rfl, rfl, same⟩
  | cons st rest ih =>
    intro g1 g2 wf1 wf2 same
    obtain ⟨items, s⟩ := st
    obtain ⟨h1, h2, e1, e2, w1, w2, same'⟩ := gameStep_same g1 g2 wf1 wf2 same items s
    obtain ⟨k1, k2, r1, r2, sm⟩ := ih h1 h2 w1 w2 same'
    exact ⟨k1, k2, by simp only [run, e1]; exact r1, by simp only [run, e2]; exact r2, sm⟩

theorem Path_congr {g g' : Graph Name} (h : ∀ u v, v ∈ nbrs g u → v ∈ nbrs g' u) {u w : Name} (p : Path g u w) :
    Path g' u w := by
  induction p with
  | single h1 => exact .single (h _ _ h1)
  | cons h1 _ ih => exact .cons (h _ _ h1) ih

theorem Acyclic_congr {g g' : Graph Name} (h : ∀ u v, v ∈ nbrs g u ↔ v ∈ nbrs g' u) : Acyclic g ↔ Acyclic g' :=
  ⟨fun ha u p => ha u (Path_congr (fun u v hv => (h u v).mpr hv) p),
   fun ha u p => ha u (Path_congr (fun u v hv => (h u v).mp hv) p)⟩

theorem lookup_perm {l l' : List (Name × Agent)} (hp : l.Perm l') (hk : (agentKeys l).Nodup) (n : Name) :
    l.lookup n = l'.lookup n := by
  have hk' : (agentKeys l').Nodup := (List.Perm.nodup_iff (hp.map _)).mp hk
  cases h : l.lookup n with
  | some a => exact (lookup_of_mem_agents hk' (hp.mem_iff.mp (mem_of_lookup_agents h))).symm
  | none =>
    have hn : n ∉ agentKeys l := (lookup_none_iff l n).mp h
    have hn' : n ∉ agentKeys l' := fun h' => hn ((hp.map _).mem_iff.mpr h')
    exact ((lookup_none_iff l' n).mpr hn').symm

theorem buildAgents_nodup (cfgs : List AgentCfg) (h : (cfgs.map (·.ref)).Nodup) :
    buildAgents cfgs = cfgs.map (fun c => (c.ref, ({ comps := c.comps } : Agent))) := by
  unfold buildAgents
  have key : ∀ (cs : List AgentCfg) (acc : List (Name × Agent)), (agentKeys acc ++ cs.map (·.ref)).Nodup →
      cs.foldl (fun acc c => insertAgent acc c.ref { comps := c.comps }) acc =
        acc ++ cs.map (fun c => (c.ref, ({ comps := c.comps } : Agent))) := by
    intro cs
    induction cs with
    | nil => intro acc _; simp
    | cons c cs ih =>
      intro acc hnd
      have hc : c.ref ∉ agentKeys acc := by
        intro hm
        exact (List.nodup_append.mp hnd).2.2 _ hm _ (by simp) rfl
      have hins : insertAgent acc c.ref { comps := c.comps } = acc ++ [(c.ref, { comps := c.comps })] := by
        unfold insertAgent; rw [if_neg hc]
      simp only [List.foldl_cons, hins]
      rw [ih]
      · simp
      · have : agentKeys (acc ++ [(c.ref, ({ comps := c.comps } : Agent))]) = agentKeys acc ++ [c.ref] := by
          simp [agentKeys]
        rw [this]
        simpa using hnd
  simpa using key cfgs [] (by simpa [agentKeys] using h)

theorem buildAgents_perm {cfgs cfgs' : List AgentCfg} (hp : cfgs.Perm cfgs') (h : (cfgs.map (·.ref)).Nodup) (n : Name) :
    (buildAgents cfgs).lookup n = (buildAgents cfgs').lookup n := by
  have h' : (cfgs'.map (·.ref)).Nodup := (List.Perm.nodup_iff (hp.map _)).mp h
  rw [buildAgents_nodup cfgs h, buildAgents_nodup cfgs' h']
  apply lookup_perm (hp.map _)
  rw [← buildAgents_nodup cfgs h]
  exact (buildAgents_inv cfgs).1

theorem sharingGraph_same (σ σ' : List Name → List Name) (hσ : SetLike σ) (hσ' : SetLike σ')
    (as as' : List (Name × Agent)) (same : ∀ n, as.lookup n = as'.lookup n) (u v : Name) :
    v ∈ nbrs (sharingGraph σ as) u ↔ v ∈ nbrs (sharingGraph σ' as') u := by
  rw [sharingGraph_nbrs_iff σ hσ, sharingGraph_nbrs_iff σ' hσ', nbrs_depGraph, nbrs_depGraph, same u]

theorem Closed_same {as as' : List (Name × Agent)} (same : ∀ n, as.lookup n = as'.lookup n) (hc : Closed as) :
    Closed as' := by
  intro n a ha v hv
  have := hc n a (by rw [same n]; exact ha) v hv
  obtain ⟨b, hb⟩ := mem_keys_lookup this
  rw [same v] at hb
  exact lookup_some_mem_keys hb

/-- **Declaration order and set order are irrelevant.** For two configurations that list the same agents in any two
orders, and any two iteration orders of the neighbour sets: both are rejected as cyclic or both load, and then every
run of steps leaves the same agents (rewards, totals, histories, memories) in both. -/
theorem fromConfig_order_irrelevant (σ σ' : List Name → List Name) (hσ : SetLike σ) (hσ' : SetLike σ')
    (cfgs cfgs' : List AgentCfg) (hp : cfgs.Perm cfgs') (hn : (cfgs.map (·.ref)).Nodup)
    (hc : Closed (buildAgents cfgs)) :
    (fromConfig σ cfgs = .error .cycle ∧ fromConfig σ' cfgs' = .error .cycle) ∨
    (∃ g g', fromConfig σ cfgs = .ok g ∧ fromConfig σ' cfgs' = .ok g' ∧ WF g ∧ WF g' ∧
      ∀ steps, ∃ h h', run g steps = .ok h ∧ run g' steps = .ok h' ∧ SameAgents h h') := by
  have same := buildAgents_perm hp hn
  have hc' : Closed (buildAgents cfgs') := Closed_same same hc
  have hac := Acyclic_congr (sharingGraph_same σ σ' hσ hσ' _ _ same)
  obtain ⟨hcyc, hok⟩ := fromConfig_spec σ hσ cfgs
  obtain ⟨hcyc', hok'⟩ := fromConfig_spec σ' hσ' cfgs'
  cases hb : hasCycle (sharingGraph σ (buildAgents cfgs)) with
  | true =>
    have hb' : hasCycle (sharingGraph σ' (buildAgents cfgs')) = true := by
      rw [hasCycle_iff_not_acyclic] at hb ⊢
      exact fun h => hb (hac.mpr h)
    exact Or.inl ⟨hcyc hb, hcyc' hb'⟩
  | false =>
    have hb' : hasCycle (sharingGraph σ' (buildAgents cfgs')) = false := by
      rw [hasCycle_false_iff] at hb ⊢
      exact hac.mp hb
    obtain ⟨e1, w1⟩ := hok hb hc
    obtain ⟨e2, w2⟩ := hok' hb' hc'
    refine Or.inr ⟨_, _, e1, e2, w1, w2, ?_⟩
    intro steps
    exact run_same steps _ _ w1 w2 same


/-! ### a shared-reward component naming an agent that does not exist -/

theorem foldE_step0_keyError (s : SimState) (as : List (Name × Agent)) (order : List Name)
    (hk : (agentKeys as).Nodup) (hf : Fresh as) :
    ∀ (l : List Name), (∃ x ∈ l, x ∉ agentKeys as) →
      foldE (updOne s) { agents := as, order := order, stepCounter := 0 } l = .error .keyError := by
  intro l
  induction l with
  | nil => intro ⟨x, hx, _⟩; simp at hx
  | cons n l ih =>
    intro hex
    by_cases hn : n ∈ agentKeys as
    · obtain ⟨a, ha⟩ := mem_keys_lookup hn
      obtain ⟨hc, ht, _⟩ := hf (n, a) (mem_of_lookup_agents ha)
      simp only at hc ht
      have hone : updOne s { agents := as, order := order, stepCounter := 0 } n =
          .ok { agents := as, order := order, stepCounter := 0 } := by
        unfold updOne
        simp only [ha, Nat.lt_irrefl, if_false]
        have : ({ a with total := a.total + a.current } : Agent) = a := by
          rw [hc, ht]; cases a; simp_all [Rat.add_zero]
        rw [this, setAgent_self hk ha]
      simp only [foldE, hone]
      apply ih
      obtain ⟨x, hx, hxk⟩ := hex
      rcases List.mem_cons.mp hx with rfl | hx
      · exact absurd hn hxk
      · exact ⟨x, hx, hxk⟩
    · have hl : as.lookup n = none := (lookup_none_iff as n).mpr hn
      simp only [foldE, updOne, hl]

/-- An acyclic configuration in which some agent shares from a name that is not an agent does not load: the evaluation
order contains that name and the first `update_agents` raises `KeyError`. -/
theorem fromConfig_dangling (σ : List Name → List Name) (hσ : SetLike σ) (cfgs : List AgentCfg)
    (hb : hasCycle (sharingGraph σ (buildAgents cfgs)) = false) (hnc : ¬ Closed (buildAgents cfgs)) :
    fromConfig σ cfgs = .error .keyError := by
  obtain ⟨hk, hfresh⟩ := buildAgents_inv cfgs
  have hac : Acyclic (sharingGraph σ (buildAgents cfgs)) := (hasCycle_false_iff _).mp hb
  have hgk : (keys (sharingGraph σ (buildAgents cfgs))).Nodup := by rw [keys_sharingGraph]; exact hk
  have hex : ∃ n a v, (buildAgents cfgs).lookup n = some a ∧ v ∈ sharedNames a.comps ∧
      v ∉ agentKeys (buildAgents cfgs) := by
    apply Classical.byContradiction
    intro h
    apply hnc
    intro n a ha v hv
    apply Classical.byContradiction
    intro hvk
    exact h ⟨n, a, v, ha, hv, hvk⟩
  obtain ⟨n, a, v, ha, hv, hvk⟩ := hex
  have hvu : v ∈ univ (sharingGraph σ (buildAgents cfgs)) := by
    unfold univ
    apply List.mem_append_right
    simp only [List.mem_flatMap]
    refine ⟨(n, σ (sharedNames a.comps)), ?_, (hσ _ v).mpr hv⟩
    unfold sharingGraph
    exact List.mem_map.mpr ⟨(n, a), mem_of_lookup_agents ha, rfl⟩
  have hvo : v ∈ topoSort (sharingGraph σ (buildAgents cfgs)) := (topoSort_mem_iff _ hac hgk v).mpr hvu
  unfold fromConfig
  simp only [hb, Bool.false_eq_true, if_false]
  unfold updateAgents
  exact foldE_step0_keyError _ _ _ hk hfresh _ ⟨v, hvo, hvk⟩

end Primaite.Reward
