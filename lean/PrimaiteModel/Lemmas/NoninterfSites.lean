/-
Per-site lemmas of C03: each modelled consumer of a hash-ordered set is permutation-invariant (or, for the raw
iteration that nmap used before the F-8 repair, is not).
-/
import PrimaiteModel.Model.Noninterf

namespace Primaite.Noninterf

theorem insertSorted_perm (a : Nat) : ∀ l : List Nat, (insertSorted a l).Perm (a :: l)
  | [] => List.Perm.refl _
  | b :: t => by
    unfold insertSorted
    by_cases h : a ≤ b
    · simp [h]
    · simp only [h, if_false]
      exact ((insertSorted_perm a t).cons b).trans (List.Perm.swap a b t)

theorem insertSorted_sorted (a : Nat) : ∀ l : List Nat, l.Pairwise (· ≤ ·) → (insertSorted a l).Pairwise (· ≤ ·)
  | [], _ => by simp [insertSorted]
  | b :: t, h => by
    unfold insertSorted
    by_cases hab : a ≤ b
    · simp only [hab, if_true]
      refine List.Pairwise.cons ?_ h
      intro x hx
      rcases List.mem_cons.mp hx with rfl | hx
      · exact hab
      · exact Nat.le_trans hab ((List.pairwise_cons.mp h).1 x hx)
    · simp only [hab, if_false]
      refine List.Pairwise.cons ?_ (insertSorted_sorted a t (List.pairwise_cons.mp h).2)
      intro x hx
      rcases List.mem_cons.mp (((insertSorted_perm a t).mem_iff).mp hx) with rfl | hx
      · omega
      · exact (List.pairwise_cons.mp h).1 x hx

theorem sortedIter_perm : ∀ l : List Nat, (sortedIter l).Perm l
  | [] => List.Perm.refl _
  | a :: t => (insertSorted_perm a (sortedIter t)).trans ((sortedIter_perm t).cons a)

theorem sortedIter_sorted : ∀ l : List Nat, (sortedIter l).Pairwise (· ≤ ·)
  | [] => List.Pairwise.nil
  | a :: t => insertSorted_sorted a (sortedIter t) (sortedIter_sorted t)

/-- `sorted(s)` does not depend on the order in which `s` hands out its elements. -/
theorem sortedIter_invariant : Invariant sortedIter := by
  intro l l' h
  refine List.Perm.eq_of_pairwise (le := (· ≤ ·)) ?_ (sortedIter_sorted l) (sortedIter_sorted l')
    ((sortedIter_perm l).trans (h.trans (sortedIter_perm l').symm))
  intro a b _ _ h1 h2
  omega

theorem canonSet_invariant : Invariant canonSet := by
  intro l l' h
  unfold canonSet
  rw [sortedIter_invariant l l' h]

/-- `_set_software_listen_on_ports`: set → loop → list → set. -/
theorem listenPorts_invariant (lookup : Nat → Option Nat) : Invariant (listenPorts lookup) := by
  intro l l' h
  unfold listenPorts
  exact canonSet_invariant _ _ (h.filterMap lookup)

theorem noEffect_invariant : Invariant noEffect := fun _ _ _ => rfl

theorem lengthOnly_invariant : Invariant lengthOnly := by
  intro l l' h
  unfold lengthOnly
  rw [h.length_eq]

theorem lookup_graph (f : Nat → Nat) (k : Nat) :
    ∀ l : List Nat, (l.map fun x => (x, f x)).lookup k = if k ∈ l then some (f k) else none
  | [] => rfl
  | a :: t => by
    simp only [List.map_cons, List.lookup_cons, lookup_graph f k t, List.mem_cons]
    by_cases h : k = a
    · subst h; simp
    · have : (k == a) = false := by simpa using h
      simp [this, h]

/-- a dict keyed by the set's elements, read only by key: the answers do not depend on the insertion order -/
theorem dictByKey_invariant (f : Nat → Nat) (keys : List Nat) : Invariant (dictByKey f keys) := by
  intro l l' h
  unfold dictByKey
  apply List.map_congr_left
  intro k _
  simp only [lookup_graph]
  by_cases hk : k ∈ l
  · simp [hk, (h.mem_iff).mp hk]
  · have : k ∉ l' := fun h' => hk ((h.mem_iff).mpr h')
    simp [hk, this]

/-- A set that is always empty (`Application.groups`) gives every consumer the same input. -/
theorem empty_set_any_consumer {ι : Type} {ρ : Rho ι} (hv : ρ.Valid) (c : List Nat → List Nat) (k : Nat) :
    c (ρ.perm k []) = c [] := by
  rw [(hv.isPerm k []).eq_nil]

/-- A one-element set (`{'message'}`) likewise. -/
theorem singleton_set_any_consumer {ι : Type} {ρ : Rho ι} (hv : ρ.Valid) (c : List Nat → List Nat) (k a : Nat) :
    c (ρ.perm k [a]) = c [a] := by
  have h := hv.isPerm k [a]
  have hl := h.length_eq
  match hp : ρ.perm k [a], hl with
  | [b], _ =>
    have : b ∈ [a] := (h.mem_iff).mp (by simp [hp])
    simp at this
    rw [this]

/-- Iterating the set directly (nmap before the repair) is NOT invariant. -/
theorem rawIter_not_invariant : ¬ Invariant rawIter := by
  intro h
  have := h [1, 2] [2, 1] (List.Perm.swap 2 1 [])
  simp [rawIter] at this

end Primaite.Noninterf
