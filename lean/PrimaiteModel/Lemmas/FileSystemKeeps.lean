/-
No item is ever lost: every folder uuid and every file uuid present before an operation is present afterwards
(in one of the two dictionaries of the same owner).
-/
import PrimaiteModel.Lemmas.FileSystemAnswers
namespace Primaite.FileSystem

/-- every file uuid of `g` is still a file uuid of `g'` -/
def FolderKeeps (g g' : Folder) : Prop :=
  ∀ f, f ∈ g.files ∨ f ∈ g.deletedFiles → ∃ f', (f' ∈ g'.files ∨ f' ∈ g'.deletedFiles) ∧ f'.id = f.id

/-- every folder uuid of `s` is still a folder uuid of `s'`, and that folder keeps its file uuids -/
def Keeps (s s' : State) : Prop :=
  ∀ g, g ∈ s.folders ∨ g ∈ s.deletedFolders →
    ∃ g', (g' ∈ s'.folders ∨ g' ∈ s'.deletedFolders) ∧ g'.id = g.id ∧ FolderKeeps g g'

theorem FolderKeeps.refl (g : Folder) : FolderKeeps g g := fun f hf => ⟨f, hf, rfl⟩

theorem FolderKeeps.trans {a b c : Folder} (h1 : FolderKeeps a b) (h2 : FolderKeeps b c) : FolderKeeps a c := by
  intro f hf
  obtain ⟨f', hf', e'⟩ := h1 f hf
  obtain ⟨f'', hf'', e''⟩ := h2 f' hf'
  exact ⟨f'', hf'', e''.trans e'⟩

theorem FolderKeeps.of_eq {g g' : Folder} (h1 : g'.files = g.files) (h2 : g'.deletedFiles = g.deletedFiles) :
    FolderKeeps g g' := by
  intro f hf; exact ⟨f, by rw [h1, h2]; exact hf, rfl⟩

theorem Keeps.refl (s : State) : Keeps s s := fun g hg => ⟨g, hg, rfl, FolderKeeps.refl g⟩

theorem Keeps.trans {a b c : State} (h1 : Keeps a b) (h2 : Keeps b c) : Keeps a c := by
  intro g hg
  obtain ⟨g', hg', e', k'⟩ := h1 g hg
  obtain ⟨g'', hg'', e'', k''⟩ := h2 g' hg'
  exact ⟨g'', hg'', e''.trans e', k'.trans k''⟩

/-- `d[key x] = x` never drops a key. -/
theorem dictSet_keeps {α : Type} (key : α → Nat) {l : List α} (x : α) {y : α} (hy : y ∈ l) :
    ∃ y' ∈ dictSet key l x, key y' = key y := by
  by_cases hk : key y = key x
  · exact ⟨x, (mem_dictSet key).mpr (Or.inl rfl), hk.symm⟩
  · exact ⟨y, (mem_dictSet key).mpr (Or.inr ⟨hy, hk⟩), rfl⟩

theorem folderKeeps_addFile (g : Folder) (f : File) : FolderKeeps g (g.addFile f) := by
  intro y hy
  unfold Folder.addFile
  rcases hy with hy | hy
  · obtain ⟨y', hy', e⟩ := dictSet_keeps File.id f hy
    exact ⟨y', Or.inl hy', e⟩
  · exact ⟨y, Or.inr hy, rfl⟩

theorem folderKeeps_removeFile (g : Folder) (f : File) : FolderKeeps g (g.removeFile f) := by
  intro y hy
  unfold Folder.removeFile
  split
  · rcases hy with hy | hy
    · by_cases hk : y.id = f.id
      · exact ⟨f.delete, Or.inr ((mem_dictSet File.id).mpr (Or.inl rfl)), hk.symm⟩
      · exact ⟨y, Or.inl ((mem_dictPop File.id).mpr ⟨hy, hk⟩), rfl⟩
    · obtain ⟨y', hy', e⟩ := dictSet_keeps File.id f.delete hy
      exact ⟨y', Or.inr hy', e⟩
  · exact ⟨y, hy, rfl⟩

theorem foldl_delete_keeps (fs d : List File) (i : Nat) (hi : (∃ y ∈ d, y.id = i) ∨ (∃ y ∈ fs, y.id = i)) :
    ∃ y ∈ fs.foldl (fun d f => dictSet File.id d f.delete) d, y.id = i := by
  induction fs generalizing d with
  | nil =>
    rcases hi with hi | ⟨y, hy, _⟩
    · exact hi
    · cases hy
  | cons c t ih =>
    simp only [List.foldl_cons]
    apply ih
    rcases hi with ⟨y, hy, hyi⟩ | ⟨y, hy, hyi⟩
    · by_cases hk : y.id = c.id
      · exact Or.inl ⟨c.delete, (mem_dictSet File.id).mpr (Or.inl rfl), by rw [← hyi, hk]; rfl⟩
      · exact Or.inl ⟨y, (mem_dictSet File.id).mpr (Or.inr ⟨hy, hk⟩), hyi⟩
    · rcases List.mem_cons.mp hy with rfl | hy
      · exact Or.inl ⟨y.delete, (mem_dictSet File.id).mpr (Or.inl rfl), hyi⟩
      · exact Or.inr ⟨y, hy, hyi⟩

theorem folderKeeps_removeAllFiles (g : Folder) : FolderKeeps g g.removeAllFiles := by
  intro y hy
  unfold Folder.removeAllFiles
  simp only
  rcases hy with hy | hy
  · obtain ⟨y', hy', e⟩ := foldl_delete_keeps g.files g.deletedFiles y.id (Or.inr ⟨y, hy, rfl⟩)
    exact ⟨y', Or.inr hy', e⟩
  · obtain ⟨y', hy', e⟩ := foldl_delete_keeps g.files g.deletedFiles y.id (Or.inl ⟨y, hy, rfl⟩)
    exact ⟨y', Or.inr hy', e⟩

theorem folderKeeps_restoreFile (g : Folder) (n : Name) : FolderKeeps g (g.restoreFile n).1 := by
  unfold Folder.restoreFile
  split
  · exact FolderKeeps.refl g
  · rename_i f _
    intro y hy
    simp only
    rcases hy with hy | hy
    · obtain ⟨y', hy', e⟩ := dictSet_keeps File.id f.restore hy
      exact ⟨y', Or.inl hy', e⟩
    · by_cases hk : y.id = f.id
      · exact ⟨f.restore, Or.inl ((mem_dictSet File.id).mpr (Or.inl rfl)), hk.symm⟩
      · exact ⟨y, Or.inr ((mem_dictPop File.id).mpr ⟨hy, hk⟩), rfl⟩

theorem folderKeeps_foldl_restoreFile (fs : List File) (g : Folder) :
    FolderKeeps g (fs.foldl (fun (a : Folder) (f : File) => (a.restoreFile f.name).1) g) := by
  induction fs generalizing g with
  | nil => exact FolderKeeps.refl g
  | cons c t ih =>
    simp only [List.foldl_cons]
    exact (folderKeeps_restoreFile g c.name).trans (ih _)

theorem folderKeeps_restoringTimestep (g : Folder) : FolderKeeps g g.restoringTimestep := by
  unfold Folder.restoringTimestep
  split
  · simp only
    split
    · have k0 : FolderKeeps g { g with restoreCountdown := g.restoreCountdown - 1 } := FolderKeeps.of_eq rfl rfl
      have k1 := folderKeeps_foldl_restoreFile g.files { g with restoreCountdown := g.restoreCountdown - 1 }
      have k2 := folderKeeps_foldl_restoreFile
        (g.files.foldl (fun (a : Folder) (f : File) => (a.restoreFile f.name).1)
          { g with restoreCountdown := g.restoreCountdown - 1 }).deletedFiles
        (g.files.foldl (fun (a : Folder) (f : File) => (a.restoreFile f.name).1)
          { g with restoreCountdown := g.restoreCountdown - 1 })
      exact ((k0.trans k1).trans k2).trans (FolderKeeps.of_eq rfl rfl)
    · exact FolderKeeps.of_eq rfl rfl
  · exact FolderKeeps.refl g

/-! ### state level -/

/-- In-place mutation of the folder with uuid `i` by a function that keeps uuid and file uuids. -/
theorem keeps_updFolder {s s' : State} (i : Nat) (t : Folder → Folder)
    (hf : s'.folders = (updFolder s i t).folders) (hd : s'.deletedFolders = (updFolder s i t).deletedFolders)
    (ht : ∀ g, g ∈ s.folders ∨ g ∈ s.deletedFolders → g.id = i → (t g).id = g.id ∧ FolderKeeps g (t g)) :
    Keeps s s' := by
  intro g hg
  by_cases hi : g.id = i
  · refine ⟨t g, ?_, (ht g hg hi).1, (ht g hg hi).2⟩
    rcases hg with hg | hg
    · exact Or.inl (by rw [hf]; exact List.mem_map.mpr ⟨g, hg, by simp [hi]⟩)
    · exact Or.inr (by rw [hd]; exact List.mem_map.mpr ⟨g, hg, by simp [hi]⟩)
  · refine ⟨g, ?_, rfl, FolderKeeps.refl g⟩
    rcases hg with hg | hg
    · exact Or.inl (by rw [hf]; exact List.mem_map.mpr ⟨g, hg, by simp [hi]⟩)
    · exact Or.inr (by rw [hd]; exact List.mem_map.mpr ⟨g, hg, by simp [hi]⟩)

theorem keeps_createFolder {s : State} (h : Inv s) (n : Name) : Keeps s (createFolder s n).1 := by
  rw [createFolder_eq]
  cases hg : getFolder s n with
  | some g0 =>
    simp only
    obtain ⟨hgm, _⟩ := getFolder_live hg
    obtain ⟨f1, _, _, f4, f5, _, _⟩ := setDur_fields s g0
    intro g hgm'
    rcases hgm' with hl | hd
    · by_cases hk : g.id = g0.id
      · have := eq_of_key_eq Folder.id h.liveIds hl hgm hk
        subst this
        exact ⟨setDur s g, Or.inl ((mem_dictSet Folder.id).mpr (Or.inl rfl)), f1, FolderKeeps.of_eq f4 f5⟩
      · exact ⟨g, Or.inl ((mem_dictSet Folder.id).mpr (Or.inr ⟨hl, by rw [f1]; exact hk⟩)), rfl, FolderKeeps.refl g⟩
    · exact ⟨g, Or.inr hd, rfl, FolderKeeps.refl g⟩
  | none =>
    simp only
    obtain ⟨f1, _, _, _, _, _, _⟩ := setDur_fields s { id := s.next, name := n }
    intro g hgm'
    rcases hgm' with hl | hd
    · refine ⟨g, Or.inl ((mem_dictSet Folder.id).mpr (Or.inr ⟨hl, ?_⟩)), rfl, FolderKeeps.refl g⟩
      rw [f1]; exact Nat.ne_of_lt (h.folder g (Or.inl hl)).2.2
    · exact ⟨g, Or.inr hd, rfl, FolderKeeps.refl g⟩

theorem keeps_createFile {s : State} (h : Inv s) (F x : Name) (force : Bool) : Keeps s (createFile s F x force).1 := by
  unfold createFile
  by_cases hc : (!force && (getFile s (if F = "" then "root" else F) x).isSome) = true
  · rw [if_pos hc]; exact Keeps.refl s
  · rw [if_neg hc]
    have kt : Keeps s (createFileTarget s F).1 := by
      unfold createFileTarget
      split
      · cases getFolder s F with
        | some g => exact Keeps.refl s
        | none => exact keeps_createFolder h F
      · exact Keeps.refl s
    cases heq : createFileTarget s F with
    | mk s1 og =>
      rw [heq] at kt
      cases og with
      | none => exact kt
      | some g =>
        simp only
        refine kt.trans ?_
        unfold createFileIn
        cases g.getFile x with
        | some f =>
          exact keeps_updFolder g.id (fun g => g.addFile f) rfl rfl (fun g0 _ _ => ⟨rfl, folderKeeps_addFile g0 f⟩)
        | none =>
          exact keeps_updFolder g.id (fun g => g.addFile { id := s1.next, name := x }) rfl rfl
            (fun g0 _ _ => ⟨rfl, folderKeeps_addFile g0 _⟩)

theorem removeFile_id (g : Folder) (f : File) : (g.removeFile f).id = g.id := by
  unfold Folder.removeFile; split <;> rfl

theorem keeps_viaFolder {s : State} (h : Inv s) (F : Name) (k : Folder → Option (Folder × Out))
    (hk : ∀ g g' o, g ∈ s.folders → k g = some (g', o) → g'.id = g.id ∧ FolderKeeps g g') :
    Keeps s (viaFolder s F k).1 := by
  rcases viaFolder_out h F k with ⟨_, e⟩ | ⟨g, hgm, _, ⟨_, e⟩ | ⟨g', o, hkg, e⟩⟩
  · rw [e]; exact Keeps.refl s
  · rw [e]; exact Keeps.refl s
  · rw [e]
    refine keeps_updFolder g.id (fun _ => g') rfl rfl ?_
    intro g0 hg0 hid
    have := folder_eq_of_id h hgm hg0 hid
    subst this
    exact hk g0 g' o hgm hkg

/-- Every operation keeps every folder uuid and every file uuid. -/
theorem keeps_step {s : State} (h : Inv s) (op : Op) : Keeps s (step s op).1 := by
  cases op with
  | createFile F x force => exact keeps_createFile h F x force
  | createFolder F => exact keeps_createFolder h F
  | deleteFile F x =>
    simp only [step]; unfold deleteFile
    split
    · exact Keeps.refl s
    · cases getFolder s F with
      | none => exact Keeps.refl s
      | some g =>
        simp only
        cases g.getFile x with
        | none => exact Keeps.refl s
        | some f =>
          exact keeps_updFolder g.id (fun g => g.removeFile f) rfl rfl
            (fun g0 _ _ => ⟨removeFile_id g0 f, folderKeeps_removeFile g0 f⟩)
  | deleteFolder F =>
    simp only [step]; unfold deleteFolder
    cases hg : getFolder s F with
    | none => exact Keeps.refl s
    | some g =>
      simp only
      split
      · exact Keeps.refl s
      · obtain ⟨hgm, _⟩ := getFolder_live hg
        intro a ha
        simp only
        rcases ha with hl | hd
        · by_cases hk : a.id = g.id
          · have := eq_of_key_eq Folder.id h.liveIds hl hgm hk
            subst this
            exact ⟨_, Or.inr ((mem_dictSet Folder.id).mpr (Or.inl rfl)), rfl,
              (FolderKeeps.of_eq (g' := { a with deleted := true }) rfl rfl).trans (folderKeeps_removeAllFiles _)⟩
          · exact ⟨a, Or.inl ((mem_dictPop Folder.id).mpr ⟨hl, hk⟩), rfl, FolderKeeps.refl a⟩
        · exact ⟨a, Or.inr ((mem_dictSet Folder.id).mpr (Or.inr ⟨hd, fun e => h.disjoint g hgm a hd e.symm⟩)), rfl,
            FolderKeeps.refl a⟩
  | restoreFile F x =>
    simp only [step]; unfold restoreFile
    cases getFolder s F with
    | none => exact Keeps.refl s
    | some g =>
      simp only
      cases g.getFile x true with
      | none => exact Keeps.refl s
      | some f =>
        exact keeps_updFolder g.id (fun g => (g.restoreFile x).1) rfl rfl
          (fun g0 _ _ => ⟨(restoreFile_meta g0 x).1, folderKeeps_restoreFile g0 x⟩)
  | restoreFolder F =>
    simp only [step]; unfold restoreFolder
    cases hg : getFolder s F true with
    | none => exact Keeps.refl s
    | some g =>
      simp only
      obtain ⟨_, hcase⟩ := getFolder_incl hg
      have hgmem : g ∈ s.folders ∨ g ∈ s.deletedFolders := hcase.imp id (fun x => x.1)
      intro a ha
      by_cases hk : a.id = g.id
      · exact ⟨g.restore, Or.inl ((mem_dictSet Folder.id).mpr (Or.inl rfl)), hk.symm, by
          have : a = g := by
            rcases hgmem with hl | hd
            · exact folder_eq_of_id h hl ha hk
            · rcases ha with ha | ha
              · exact absurd hk (h.disjoint a ha g hd)
              · exact eq_of_key_eq Folder.id h.delIds ha hd hk
          subst this
          exact FolderKeeps.of_eq rfl rfl⟩
      · rcases ha with hl | hd
        · exact ⟨a, Or.inl ((mem_dictSet Folder.id).mpr (Or.inr ⟨hl, hk⟩)), rfl, FolderKeeps.refl a⟩
        · exact ⟨a, Or.inr ((mem_dictPop Folder.id).mpr ⟨hd, hk⟩), rfl, FolderKeeps.refl a⟩
  | access F x => exact Keeps.refl s
  | folderVerb F v =>
    simp only [step]
    apply keeps_viaFolder h
    intro g g' o _ hk
    cases v <;> simp [Folder.verb] at hk <;> rw [← hk.1]
    case restore => exact ⟨rfl, FolderKeeps.of_eq rfl rfl⟩
    all_goals exact ⟨rfl, FolderKeeps.refl g⟩
  | folderDelete F x =>
    simp only [step]
    apply keeps_viaFolder h
    intro g g' o _ hk
    rcases removeFileByName_spec (g := g) (n := x) with ⟨f, _, _, he⟩ | ⟨_, he⟩
    · rw [he] at hk; simp only [Option.some.injEq, Prod.mk.injEq] at hk
      rw [← hk.1]; exact ⟨removeFile_id g f, folderKeeps_removeFile g f⟩
    · rw [he] at hk; simp only [Option.some.injEq, Prod.mk.injEq] at hk
      rw [← hk.1]; exact ⟨rfl, FolderKeeps.refl g⟩
  | fileVerb F x v =>
    simp only [step]
    apply keeps_viaFolder h
    intro g g' o hgm hk
    simp only [Option.some.injEq] at hk
    have e := fileRequest_state (h.folder g (Or.inl hgm)).1 x v
    rw [hk] at e
    simp only at e
    rw [e]; exact ⟨rfl, FolderKeeps.refl g⟩
  | fsFileVerb F x v => simp only [step]; rw [fsFileVerb_state h]; exact Keeps.refl s
  | preTick => exact fun g hg => ⟨g, hg, rfl, FolderKeeps.refl g⟩
  | tick =>
    intro g hg
    simp only [step]
    rcases hg with hl | hd
    · have gi := h.folder g (Or.inl hl)
      exact ⟨g.restoringTimestep, Or.inl (List.mem_map.mpr ⟨g, hl, rfl⟩),
        (restoringTimestep_spec gi.1 gi.2.1).2.2.1, folderKeeps_restoringTimestep g⟩
    · exact ⟨g, Or.inr hd, rfl, FolderKeeps.refl g⟩

end Primaite.FileSystem
