/-
Fuel-free top-level facts about `hasCycle` / `topoSort` (Model/RewardGraph.lean), derived from the fuel-indexed
developments in RewardGraphTopo / RewardGraphCycle.
-/
import PrimaiteModel.Lemmas.RewardGraphCycle
namespace Primaite.RewardGraph

variable {α : Type} [DecidableEq α]

theorem unvis_nil (u : List α) : unvis u [] = u.length := by
  unfold unvis
  induction u with
  | nil => rfl
  | cons a t ih => simp at ih ⊢

theorem mu_lt_fuelFor (g : Graph α) : mu g [] < fuelFor g := by
  unfold mu fuelFor
  rw [unvis_nil]; omega

/-- `graph_has_cycle` answers `True` exactly on the graphs that have a cycle. -/
theorem hasCycle_iff_not_acyclic (g : Graph α) : hasCycle g = true ↔ ¬ Acyclic g :=
  hasCycle_iff g _ (mu_lt_fuelFor g)

theorem hasCycle_false_iff (g : Graph α) : hasCycle g = false ↔ Acyclic g := by
  have := hasCycle_iff_not_acyclic g
  cases h : hasCycle g with
  | true => simp [h] at this; simp; exact this
  | false =>
    simp [h] at this; simp
    exact this

theorem topoSort_depsFirst' (g : Graph α) (hac : Acyclic g) :
    DepsFirst g (topoSort g) ∧ ∀ k ∈ keys g, k ∈ topoSort g :=
  topoSort_depsFirst g hac _ (mu_lt_fuelFor g)

/-- No node is listed twice, and only nodes of the graph are listed — for every graph, cyclic or not. -/
theorem topoSort_nodup (g : Graph α) : (topoSort g).Nodup ∧ ∀ x ∈ topoSort g, x ∈ univ g := by
  unfold topoSort topoSortF
  have key : ∀ (ms : List α) (st : List α × List α), (∀ m ∈ ms, m ∈ univ g) →
      (∀ x ∈ st.2, x ∈ st.1) → st.2.Nodup → (∀ x ∈ st.2, x ∈ univ g) →
      let r := ms.foldl (fun st n => tdfs g (fuelFor g) st n) st
      r.2.Nodup ∧ ∀ x ∈ r.2, x ∈ univ g := by
    intro ms
    induction ms with
    | nil => intro st _ _ hn hu; exact ⟨hn, hu⟩
    | cons m ms ih =>
      intro st hms hs hn hu
      obtain ⟨v, s⟩ := st
      simp only [List.foldl_cons]
      have p := tdfs_nd g (fuelFor g) v s m (hms m (by simp)) hs hn
      exact ih _ (fun x hx => hms x (by simp [hx])) p.sub p.nodup
        (fun x hx => (p.inUniv x hx).elim (hu x) id)
  exact key (keys g) ([], []) (keys_sub_univ g) (by simp) (by simp) (by simp)

/-- every dependency of a listed node is listed (strictly earlier) -/
theorem DepsFirst.nbr_mem {g : Graph α} {l : List α} (h : DepsFirst g l) {u v : α}
    (hu : u ∈ l) (hv : v ∈ nbrs g u) : v ∈ l := by
  obtain ⟨a, b, hab⟩ := List.append_of_mem hu
  rw [hab]; exact List.mem_append_left _ (h a u b hab v hv)

theorem mem_of_lookup {g : Graph α} {n : α} {l : List α} (hl : g.lookup n = some l) : (n, l) ∈ g := by
  induction g with
  | nil => simp [List.lookup] at hl
  | cons a t ih =>
    obtain ⟨k, v⟩ := a
    simp only [List.lookup] at hl
    by_cases hk : n == k
    · simp [hk] at hl; subst hl; simp at hk; subst hk; simp
    · simp [hk] at hl; exact List.mem_cons_of_mem _ (ih hl)

theorem lookup_of_mem_nodup {g : Graph α} (hk : (keys g).Nodup) {n : α} {l : List α} (h : (n, l) ∈ g) :
    g.lookup n = some l := by
  induction g with
  | nil => simp at h
  | cons a t ih =>
    obtain ⟨k, v⟩ := a
    simp only [keys, List.map_cons, List.nodup_cons] at hk
    simp only [List.lookup]
    rcases List.mem_cons.mp h with h' | h'
    · cases h'; simp
    · have hne : ¬ (n == k) = true := by
        intro he; simp at he; subst he
        exact hk.1 (List.mem_map.mpr ⟨(n, l), h', rfl⟩)
      simp [hne]; exact ih hk.2 h'

/-- With unique keys (a Python dict), the sorted list mentions exactly the nodes of the graph. -/
theorem topoSort_mem_iff (g : Graph α) (hac : Acyclic g) (hk : (keys g).Nodup) (x : α) :
    x ∈ topoSort g ↔ x ∈ univ g := by
  constructor
  · exact (topoSort_nodup g).2 x
  · intro hx
    obtain ⟨hd, hkeys⟩ := topoSort_depsFirst' g hac
    unfold univ at hx
    rcases List.mem_append.mp hx with hx | hx
    · exact hkeys x hx
    · simp only [List.mem_flatMap] at hx
      obtain ⟨⟨k, l⟩, hmem, hxl⟩ := hx
      have hlk := lookup_of_mem_nodup hk hmem
      have hkin : k ∈ topoSort g := hkeys k (List.mem_map.mpr ⟨(k, l), hmem, rfl⟩)
      exact hd.nbr_mem hkin (by unfold nbrs; simp [hlk]; exact hxl)

/-- Index form of dependencies-first: in a duplicate-free list, each dependency sits at a smaller index. -/
theorem DepsFirst.idx_lt {g : Graph α} {l : List α} (h : DepsFirst g l) {u v : α}
    (hu : u ∈ l) (hv : v ∈ nbrs g u) : l.idxOf v < l.idxOf u := by
  obtain ⟨a, b, hab, hna⟩ := List.eq_append_cons_of_mem hu
  have hva : v ∈ a := h a u b hab v hv
  have h1 : l.idxOf v < a.length := by
    rw [hab, List.idxOf_append, if_pos hva]; exact List.idxOf_lt_length_of_mem hva
  have h2 : l.idxOf u = a.length := by
    rw [hab, List.idxOf_append, if_neg hna]; simp
  omega

end Primaite.RewardGraph
