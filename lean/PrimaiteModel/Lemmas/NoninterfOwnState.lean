/-
C03 — the environment's OWN state of the process-wide generators (repair of F-11, decorator `own_generator_state` of
session/environment.py).

Before the repair the environment's operations drew from the process-wide generators wherever ANY user of the process had left
them: `Op.foreign` (another environment instance, the training loop) between two calls moved the episode
(`C03_foreign_draw_counterexample`), and "nothing else consumes the global generators" was a hypothesis of every C03 theorem.
Since the repair every operation of the environment first puts back the state ITS OWN last operation left and records the state
afterwards.  This file models exactly that (`OProc`, `ownedOpStep`) on top of the unchanged process model and proves that foreign
activity is dead: an owned run with ANY foreign activity interleaved is the plain run without it.
-/
import PrimaiteModel.Model.Noninterf

namespace Primaite.Noninterf

/-- the process (`p.w.rng` = the PROCESS-WIDE generators) and the environment's saved state (`self._generator_state`) -/
structure OProc (σ : Type) where
  p : Proc σ
  own : Fam → Nat

/-- the wrapper's prologue: `random.setstate(own[0]); np.random.set_state(own[1])` -/
def OProc.install {σ : Type} (q : OProc σ) : Proc σ := { q.p with w := { q.p.w with rng := q.own } }

def Op.isForeign {Act : Type} : Op Act → Bool
  | .foreign _ => true
  | _ => false

/-- one event of the process: a foreign draw moves the process-wide generators only; an operation of the environment runs on the
installed own state and records the state afterwards (`finally`) -/
def ownedOpStep {ι Cfg σ Act : Type} [DecidableEq ι] (g : Fixed) (ρ : Rho ι) (sim : Sim Cfg σ Act) (sched : Nat → Cfg)
    (q : OProc σ) : Op Act → OProc σ × Option (List (Tok ι))
  | .foreign f => ({ q with p := doForeign g q.p f }, none)
  | o =>
    let r := opStep g ρ sim sched q.install o
    ({ p := r.1, own := r.1.w.rng }, some r.2)

/-- what the environment's caller sees: one record per operation of the environment (foreign activity returns nothing to it) -/
def runOwned {ι Cfg σ Act : Type} [DecidableEq ι] (g : Fixed) (ρ : Rho ι) (sim : Sim Cfg σ Act) (sched : Nat → Cfg)
    : OProc σ → List (Op Act) → List (List (Tok ι))
  | _, [] => []
  | q, o :: os =>
    let r := ownedOpStep g ρ sim sched q o
    match r.2 with
    | some out => out :: runOwned g ρ sim sched r.1 os
    | none => runOwned g ρ sim sched r.1 os

/-- the operations of the environment alone -/
def dropForeign {Act : Type} (ops : List (Op Act)) : List (Op Act) := ops.filter fun o => !o.isForeign

theorem install_foreign {σ : Type} (g : Fixed) (q : OProc σ) (f : Fam) :
    ({ q with p := doForeign g q.p f } : OProc σ).install = q.install := by
  simp [OProc.install, doForeign, World.draw]

theorem install_after {σ : Type} (p : Proc σ) : ({ p := p, own := p.w.rng } : OProc σ).install = p := by
  cases p with
  | mk episode st w baseId baseSt basePerm baseEnt =>
    cases w
    rfl

/-- **Foreign use of the process-wide generators cannot move a draw.** For every simulator, schedule, environment `ρ`, start state
and EVERY list of events - operations of the environment with any foreign draws (of any family, any number) anywhere in between -
what the environment returns is what `runOps` returns for its operations alone, started on the installed own state. -/
theorem runOwned_eq_runOps {ι Cfg σ Act : Type} [DecidableEq ι] (g : Fixed) (ρ : Rho ι) (sim : Sim Cfg σ Act) (sched : Nat → Cfg) :
    ∀ (ops : List (Op Act)) (q : OProc σ),
      runOwned g ρ sim sched q ops = runOps g ρ sim sched q.install (dropForeign ops) := by
  intro ops
  induction ops with
  | nil => intro q; rfl
  | cons o os ih =>
    intro q
    cases o with
    | foreign f =>
      simp only [runOwned, ownedOpStep, dropForeign, List.filter_cons, Op.isForeign, Bool.not_true, Bool.false_eq_true, if_false]
      rw [ih, install_foreign]
      rfl
    | step a =>
      simp only [runOwned, ownedOpStep, dropForeign, List.filter_cons, Op.isForeign, Bool.not_false, if_true, runOps]
      rw [ih, install_after]
      rfl
    | reset s =>
      simp only [runOwned, ownedOpStep, dropForeign, List.filter_cons, Op.isForeign, Bool.not_false, if_true, runOps]
      rw [ih, install_after]
      rfl

/-- hence two event lists with the same operations of the environment (and ARBITRARY, different foreign activity) give the same
trajectory -/
theorem runOwned_foreign_irrelevant {ι Cfg σ Act : Type} [DecidableEq ι] (g : Fixed) (ρ : Rho ι) (sim : Sim Cfg σ Act)
    (sched : Nat → Cfg) (q : OProc σ) (ops ops' : List (Op Act)) (h : dropForeign ops = dropForeign ops') :
    runOwned g ρ sim sched q ops = runOwned g ρ sim sched q ops' := by
  rw [runOwned_eq_runOps, runOwned_eq_runOps, h]

/-- and the process-wide state the environment finds does not matter at all: two processes that differ ONLY in where somebody left
the process-wide generators behave alike -/
theorem runOwned_process_state_irrelevant {ι Cfg σ Act : Type} [DecidableEq ι] (g : Fixed) (ρ : Rho ι) (sim : Sim Cfg σ Act)
    (sched : Nat → Cfg) (q : OProc σ) (r : Fam → Nat) (ops : List (Op Act)) :
    runOwned g ρ sim sched { q with p := { q.p with w := { q.p.w with rng := r } } } ops = runOwned g ρ sim sched q ops := by
  rw [runOwned_eq_runOps, runOwned_eq_runOps]
  rfl

/-- `PrimaiteGymEnv(cfg)` with the configured seed, as the code has it now: a new object has no saved state, `__init__` seeds, builds,
and records the state -/
def startOwned {ι Cfg σ Act : Type} [DecidableEq ι] (g : Fixed) (ρ : Rho ι) (sim : Sim Cfg σ Act) (sched : Nat → Cfg)
    (seed : Nat) : OProc σ :=
  let p := start g ρ sim sched seed
  { p := p, own := p.w.rng }

/-- the whole run of the code as it is now: construct, then ANY events; canonical trajectory -/
def runOwnedFrom {ι Cfg σ Act : Type} [DecidableEq ι] (g : Fixed) (sim : Sim Cfg σ Act) (sched : Nat → Cfg) (seed : Nat)
    (ops : List (Op Act)) (ρ : Rho ι) : List (List (Tok Nat)) :=
  canonRun [] (runOwned g ρ sim sched (startOwned g ρ sim sched seed) ops)

/-- the owned run with foreign activity IS the plain run of the environment's operations alone -/
theorem runOwnedFrom_eq_run {ι Cfg σ Act : Type} [DecidableEq ι] (g : Fixed) (sim : Sim Cfg σ Act) (sched : Nat → Cfg) (seed : Nat)
    (ops : List (Op Act)) (ρ : Rho ι) :
    runOwnedFrom g sim sched seed ops ρ = run g sim sched seed (dropForeign ops) ρ := by
  simp only [runOwnedFrom, run, runOwned_eq_runOps, startOwned, install_after]

end Primaite.Noninterf
