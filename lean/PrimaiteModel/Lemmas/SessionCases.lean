/-
C16 helper: for every operation of Model.Session, the resulting network in a small closed form together with the
guards that were passed ("cases lemmas").  Every property theorem starts from these instead of unfolding `step`.
-/
import PrimaiteModel.Lemmas.SessionBasic
namespace Primaite.Session

theorem opAddUser_cases (n : Net) (y : Nat) (u p : String) (adm : Bool) :
    (opAddUser n y u p adm).1 = n ∨
    ∃ nd, n.node y = some nd ∧ nd.isOn = true ∧ nd.canUm = true ∧ nd.findUser u = none ∧
      (opAddUser n y u p adm).1 = n.upd y (Node.addUser { name := u, password := p, admin := adm }) := by
  unfold opAddUser
  split
  · exact Or.inl rfl
  · rename_i nd hnd
    split
    · exact Or.inl rfl
    · split
      · rename_i h1 h2
        simp only [Bool.and_eq_true, Option.isNone_iff_eq_none] at h2
        exact Or.inr ⟨nd, hnd, by simpa using h1, h2.1, h2.2, rfl⟩
      · exact Or.inl rfl

/-- `_is_last_admin` for user `w` of node `nd` -/
def Node.isLastAdmin (nd : Node) (w : User) : Bool :=
  w.admin && (nd.users.filter (fun v => v.admin && !v.disabled)).length == 1

theorem opDisableUser_cases (n : Net) (y : Nat) (u : String) :
    (opDisableUser n y u).1 = n ∨
    ∃ nd w, n.node y = some nd ∧ nd.isOn = true ∧ nd.canUm = true ∧ nd.findUser u = some w ∧ w.disabled = false ∧
      nd.isLastAdmin w = false ∧ (opDisableUser n y u).1 = n.upd y (Node.setDisabled u) := by
  unfold opDisableUser
  split
  · exact Or.inl rfl
  · rename_i nd hnd
    split
    · exact Or.inl rfl
    · rename_i h1
      split
      · exact Or.inl rfl
      · rename_i h2
        split
        · exact Or.inl rfl
        · rename_i w hw
          split
          · exact Or.inl rfl
          · rename_i h3
            split
            · exact Or.inl rfl
            · rename_i h4
              refine Or.inr ⟨nd, w, hnd, by simpa using h1, by simpa using h2, hw, by simpa using h3, ?_, rfl⟩
              simpa [Node.isLastAdmin] using h4

theorem opChangePassword_cases (n : Net) (y : Nat) (u old new : String) :
    ((opChangePassword n y u old new).1 = n ∧ (opChangePassword n y u old new).2 ≠ .success) ∨
    ∃ nd w, n.node y = some nd ∧ nd.isOn = true ∧ nd.canUm = true ∧ nd.findUser u = some w ∧ w.password = old ∧
      (opChangePassword n y u old new).1 = logoutUser (n.upd y (Node.setPassword u new)) y u ∧
      (opChangePassword n y u old new).2 = .success := by
  unfold opChangePassword
  split
  · exact Or.inl ⟨rfl, by simp⟩
  · rename_i nd hnd
    split
    · exact Or.inl ⟨rfl, by simp⟩
    · rename_i h1
      split
      · exact Or.inl ⟨rfl, by simp⟩
      · rename_i h2
        split
        · exact Or.inl ⟨rfl, by simp⟩
        · rename_i w hw
          split
          · rename_i h3
            exact Or.inr ⟨nd, w, hnd, by simpa using h1, by simpa using h2, hw, by simpa using h3, rfl, rfl⟩
          · exact Or.inl ⟨rfl, by simp⟩

theorem localLoginCore_fst (nd : Node) (u : String) (t i : Nat) :
    ((nd.localLoginCore u t i).1 = nd ∧ (nd.localLoginCore u t i).2.2 = false ∧
        ∃ l, nd.loc = some l ∧ l.user = u ∧ (nd.localLoginCore u t i).2.1 = l.id) ∨
    ((nd.localLoginCore u t i).1 = nd.setLoc ⟨i, u, t⟩ ∧ (nd.localLoginCore u t i).2.2 = true ∧
        (nd.localLoginCore u t i).2.1 = i ∧ ∀ l, nd.loc = some l → l.user ≠ u) := by
  unfold Node.localLoginCore
  split
  · rename_i l hl
    split
    · rename_i h; exact Or.inl ⟨rfl, rfl, l, hl, by simpa using h, rfl⟩
    · rename_i h
      refine Or.inr ⟨rfl, rfl, rfl, ?_⟩
      intro l' hl'; rw [hl] at hl'; cases hl'; simpa using h
  · rename_i hl
    exact Or.inr ⟨rfl, rfl, rfl, fun l' hl' => by rw [hl] at hl'; cases hl'⟩

theorem localLogin_cases (n : Net) (y : Nat) (u p : String) :
    localLogin n y u p = (n, none) ∨
    ∃ nd, n.node y = some nd ∧ nd.loginOk u p = true ∧
      localLogin n y u p =
        ((n.upd y (fun nd => (nd.localLoginCore u n.time n.nextId).1)).bump
            (if (nd.localLoginCore u n.time n.nextId).2.2 then n.nextId + 1 else n.nextId),
          some (nd.localLoginCore u n.time n.nextId).2.1) := by
  unfold localLogin
  split
  · exact Or.inl rfl
  · rename_i nd hnd
    split
    · rename_i h; exact Or.inr ⟨nd, hnd, h, rfl⟩
    · exact Or.inl rfl

theorem opLocalLogin_fst (n : Net) (y : Nat) (u p : String) : (opLocalLogin n y u p).1 = (localLogin n y u p).1 := by
  unfold opLocalLogin
  split
  · rename_i h; simp [localLogin, h]
  · rfl

theorem opLocalLogout_cases (n : Net) (y : Nat) :
    (opLocalLogout n y).1 = n ∨ (opLocalLogout n y).1 = n.upd y Node.localLogout := by
  unfold opLocalLogout
  split
  · exact Or.inl rfl
  · split
    · exact Or.inr rfl
    · exact Or.inl rfl

theorem opLocalCmdK_cases (K : Net → Net × Out) (n : Net) (y : Nat) (u p : String) :
    (opLocalCmdK K n y u p).1 = n ∨
    ∃ nd, n.node y = some nd ∧ nd.isOn = true ∧
      (((localLogin n y u p).2 = none ∧ (opLocalCmdK K n y u p).1 = (localLogin n y u p).1) ∨
       ∃ id, (localLogin n y u p).2 = some id ∧
         ((nd.term.running = false ∧
            (opLocalCmdK K n y u p).1 = (localLogin n y u p).1.upd y (Node.addConn ⟨id, none⟩)) ∨
          (nd.term.running = true ∧
            (opLocalCmdK K n y u p).1 = (K ((localLogin n y u p).1.upd y (Node.addConn ⟨id, none⟩))).1))) := by
  unfold opLocalCmdK
  split
  · exact Or.inl rfl
  · rename_i nd hnd
    split
    · exact Or.inl rfl
    · rename_i h1
      split
      · rename_i id hid
        split
        · rename_i hr
          exact Or.inr ⟨nd, hnd, by simpa using h1, Or.inr ⟨id, hid, Or.inr ⟨hr, rfl⟩⟩⟩
        · rename_i hr
          exact Or.inr ⟨nd, hnd, by simpa using h1, Or.inr ⟨id, hid, Or.inl ⟨by simpa using hr, rfl⟩⟩⟩
      · rename_i hid
        exact Or.inr ⟨nd, hnd, by simpa using h1, Or.inl ⟨hid, rfl⟩⟩

theorem opFile_cases (n : Net) (y k : Nat) :
    (opFile n y k).1 = n ∨ ∃ nd, n.node y = some nd ∧ nd.isOn = true ∧ (opFile n y k).1 = n.upd y (Node.addFile k) := by
  unfold opFile
  split
  · exact Or.inl rfl
  · rename_i nd hnd
    split
    · exact Or.inl rfl
    · rename_i h1; exact Or.inr ⟨nd, hnd, by simpa using h1, rfl⟩

theorem opEnableUser_cases (n : Net) (y : Nat) (u : String) :
    (opEnableUser n y u).1 = n ∨ (opEnableUser n y u).1 = n.upd y (Node.setEnabled u) := by
  unfold opEnableUser
  split
  · exact Or.inl rfl
  · split
    · exact Or.inl rfl
    · split
      · exact Or.inr rfl
      · exact Or.inl rfl

theorem opAddUserBypass_cases (n : Net) (y : Nat) (u p : String) (adm : Bool) :
    (opAddUserBypass n y u p adm).1 = n ∨
    ∃ nd, n.node y = some nd ∧ nd.findUser u = none ∧
      (opAddUserBypass n y u p adm).1 = n.upd y (Node.addUser { name := u, password := p, admin := adm }) := by
  unfold opAddUserBypass
  split
  · exact Or.inl rfl
  · rename_i nd hnd
    split
    · rename_i h; exact Or.inr ⟨nd, hnd, by simpa using h, rfl⟩
    · exact Or.inl rfl

theorem opUsmLogin_cases (n : Net) (y : Nat) (u p : String) (peer : Nat) :
    ((opUsmLogin n y u p peer).1 = n ∧ (opUsmLogin n y u p peer).2 ≠ .success) ∨
    ∃ b, n.node y = some b ∧ b.isOn = true ∧ b.loginOk u p = true ∧ b.rem.length < b.maxRemote ∧
      (opUsmLogin n y u p peer).1 = (n.upd y (Node.addSession ⟨n.nextId, u, n.time, peer⟩)).bump (n.nextId + 1) ∧
      (opUsmLogin n y u p peer).2 = .success := by
  unfold opUsmLogin
  split
  · exact Or.inl ⟨rfl, by simp⟩
  · rename_i b hb
    split
    · exact Or.inl ⟨rfl, by simp⟩
    · rename_i h1
      split
      · rename_i h3
        simp only [Bool.and_eq_true, decide_eq_true_eq] at h3
        exact Or.inr ⟨b, hb, by simpa using h1, h3.1, h3.2, rfl, rfl⟩
      · exact Or.inl ⟨rfl, by simp⟩

theorem opUsmLogout_cases (n : Net) (y i : Nat) :
    ((opUsmLogout n y i).1 = n ∧ (opUsmLogout n y i).2 ≠ .success) ∨
    ∃ nd s, n.node y = some nd ∧ nd.canUsm = true ∧ nd.rem[i]? = some s ∧
      (opUsmLogout n y i).1 = (disconnect n.fuel n y s.id).upd y (Node.dropSession s.id) := by
  unfold opUsmLogout
  split
  · exact Or.inl ⟨rfl, by simp⟩
  · rename_i nd hnd
    split
    · exact Or.inl ⟨rfl, by simp⟩
    · split
      · exact Or.inl ⟨rfl, by simp⟩
      · rename_i h2
        split
        · exact Or.inl ⟨rfl, by simp⟩
        · rename_i s hs
          exact Or.inr ⟨nd, s, hnd, by simpa using h2, hs, rfl⟩

/-- the network right after the target accepted a remote login -/
def afterLogin (n : Net) (x y : Nat) (u : String) : Net :=
  (n.upd y (fun b => (b.addSession ⟨n.nextId, u, n.time, x⟩).addConn ⟨n.nextId, some x⟩)).bump (n.nextId + 1)

theorem opRemoteLogin_cases (n : Net) (x y : Nat) (u p : String) :
    ((opRemoteLogin n x y u p).1 = n ∧ (opRemoteLogin n x y u p).2 ≠ .success) ∨
    ∃ a b, n.node x = some a ∧ a.isOn = true ∧ canDeliver n x y = true ∧ n.node y = some b ∧ b.loginOk u p = true ∧
      b.rem.length < b.maxRemote ∧
      (((opRemoteLogin n x y u p).1 = afterLogin n x y u ∧ canDeliver (afterLogin n x y u) y x = false ∧
          (opRemoteLogin n x y u p).2 = .failure) ∨
       ((opRemoteLogin n x y u p).1 = (afterLogin n x y u).upd x (Node.addConn ⟨n.nextId, some y⟩) ∧
          canDeliver (afterLogin n x y u) y x = true ∧ (opRemoteLogin n x y u p).2 = .success)) := by
  unfold opRemoteLogin
  split
  · exact Or.inl ⟨rfl, by simp⟩
  · rename_i a ha
    split
    · exact Or.inl ⟨rfl, by simp⟩
    · rename_i h1
      split
      · exact Or.inl ⟨rfl, by simp⟩
      · rename_i h2
        split
        · exact Or.inl ⟨rfl, by simp⟩
        · rename_i b hb
          split
          · rename_i h3
            simp only [Bool.and_eq_true, decide_eq_true_eq] at h3
            dsimp only
            refine Or.inr ⟨a, b, ha, by simpa using h1, by simpa using h2, hb, h3.1, h3.2, ?_⟩
            split
            · rename_i h4; exact Or.inr ⟨rfl, h4, rfl⟩
            · rename_i h4; exact Or.inl ⟨rfl, by simpa [afterLogin] using h4, rfl⟩
          · exact Or.inl ⟨rfl, by simp⟩

/-- the guards under which a remote command from `x` reaches the terminal of `y` carrying connection `c` -/
structure CmdArrives (n : Net) (x y : Nat) (a b : Node) (c : Conn) : Prop where
  src : n.node x = some a
  srcOn : a.isOn = true
  conn : a.conns.find? (fun c => c.peer == some y) = some c
  srcTerm : a.term.running = true
  path : canDeliver n x y = true
  dst : n.node y = some b

theorem opRemoteCmdK_cases (K : Net → Net × Out) (n : Net) (x y : Nat) :
    ((opRemoteCmdK K n x y).1 = n ∧ (opRemoteCmdK K n x y).2 ≠ .success) ∨
    ∃ a b c, CmdArrives n x y a b c ∧
      ((b.hasSession c.id = true ∧ b.hasConn c.id = true ∧
          (opRemoteCmdK K n x y).1 = (K (n.upd y (Node.touch c.id n.time))).1 ∧
          ((opRemoteCmdK K n x y).2 = .success → (K (n.upd y (Node.touch c.id n.time))).2 = .success)) ∨
       (b.hasSession c.id = false ∧ (opRemoteCmdK K n x y).1 = disconnect n.fuel n y c.id ∧
          (opRemoteCmdK K n x y).2 = .failure)) := by
  unfold opRemoteCmdK
  split
  · exact Or.inl ⟨rfl, by simp⟩
  · rename_i a ha
    split
    · exact Or.inl ⟨rfl, by simp⟩
    · rename_i h1
      split
      · exact Or.inl ⟨rfl, by simp⟩
      · rename_i c hc
        split
        · exact Or.inl ⟨rfl, by simp⟩
        · rename_i h2
          split
          · exact Or.inl ⟨rfl, by simp⟩
          · rename_i h3
            split
            · exact Or.inl ⟨rfl, by simp⟩
            · rename_i b hb
              have arr : CmdArrives n x y a b c := ⟨ha, by simpa using h1, hc, by simpa using h2, by simpa using h3, hb⟩
              split
              · rename_i h4
                split
                · rename_i h5
                  refine Or.inr ⟨a, b, c, arr, Or.inl ⟨h4, h5, rfl, ?_⟩⟩
                  dsimp only
                  split
                  · exact id
                  · intro h; cases h
                · exact Or.inl ⟨rfl, by simp⟩
              · rename_i h4
                exact Or.inr ⟨a, b, c, arr, Or.inr ⟨by simpa using h4, rfl, rfl⟩⟩

theorem opRemoteLogoff_cases (n : Net) (x y : Nat) :
    (opRemoteLogoff n x y).1 = n ∨
    ∃ a c, n.node x = some a ∧ a.isOn = true ∧ a.conns.find? (fun c => c.peer == some y) = some c ∧
      (opRemoteLogoff n x y).1 = disconnect n.fuel n x c.id ∧ (opRemoteLogoff n x y).2 = .success := by
  unfold opRemoteLogoff
  split
  · exact Or.inl rfl
  · rename_i a ha
    split
    · exact Or.inl rfl
    · rename_i h1
      split
      · exact Or.inl rfl
      · rename_i c hc; exact Or.inr ⟨a, c, ha, by simpa using h1, hc, rfl, rfl⟩

/-- service verbs and node power requests only touch power / NIC / service fields -/
theorem opSvc_cases (n : Net) (y : Nat) (w : SvcName) (v : Verb) :
    (opSvc n y w v).1 = n ∨ ∃ f : Node → Node, (∀ a, (f a).data = a.data) ∧ (opSvc n y w v).1 = n.upd y f := by
  unfold opSvc
  split
  · exact Or.inl rfl
  · split
    · exact Or.inl rfl
    · split
      · exact Or.inr ⟨_, fun a => setSvc_data a _ _, rfl⟩
      · exact Or.inl rfl

theorem opShutdown_cases (n : Net) (y : Nat) :
    (opShutdown n y).1 = n ∨ ∃ f : Node → Node, (∀ a, (f a).data = a.data) ∧ (opShutdown n y).1 = n.upd y f := by
  unfold opShutdown
  split
  · exact Or.inl rfl
  · split
    · exact Or.inl rfl
    · exact Or.inr ⟨_, fun a => powerOff_data a, rfl⟩

theorem opStartup_cases (n : Net) (y : Nat) :
    (opStartup n y).1 = n ∨ ∃ f : Node → Node, (∀ a, (f a).data = a.data) ∧ (opStartup n y).1 = n.upd y f := by
  unfold opStartup
  split
  · exact Or.inl rfl
  · split
    · exact Or.inr ⟨_, fun a => powerOn_data a, rfl⟩
    · exact Or.inl rfl

theorem opReset_cases (n : Net) (y : Nat) :
    (opReset n y).1 = n ∨ ∃ f : Node → Node, (∀ a, (f a).data = a.data) ∧ (opReset n y).1 = n.upd y f := by
  unfold opReset
  split
  · exact Or.inl rfl
  · split
    · exact Or.inl rfl
    · exact Or.inr ⟨Node.resetOff, fun a => powerOff_data _, rfl⟩

end Primaite.Session

namespace Primaite.Session

/-! ### lifting a node relation through each operation -/

/-- a preorder on nodes that tolerates tearing sessions down and the power / service machinery -/
structure Frame (R : Nat → Node → Node → Prop) : Prop extends Pre R where
  shr : ∀ j a b, Node.Shr a b → R j a b
  data : ∀ j a b, b.data = a.data → R j a b

variable {R : Nat → Node → Node → Prop}

theorem Frame.tick (F : Frame R) (n : Net) : Net.Rel R n (tick n) :=
  F.toPre.rel_tick F.shr (fun j a => F.data j a _ (applyTimestep_data a)) n

theorem Pre.addUser (F : Pre R) (n : Net) (y : Nat) (u p : String) (adm : Bool)
    (h : ∀ a w, R y a (a.addUser w)) : Net.Rel R n (opAddUser n y u p adm).1 := by
  rcases opAddUser_cases n y u p adm with h0 | ⟨nd, _, _, _, _, h0⟩ <;> rw [h0]
  · exact F.rel_refl n
  · exact F.rel_upd (F.rel_refl n) y _ (fun a => h a _)

theorem Pre.localLogin (F : Pre R) (n : Net) (y : Nat) (u p : String)
    (h : ∀ a l, R y a (a.setLoc l)) : Net.Rel R n (localLogin n y u p).1 := by
  rcases localLogin_cases n y u p with h0 | ⟨nd, _, _, h0⟩ <;> rw [h0]
  · exact F.rel_refl n
  · refine rel_bump (F.rel_upd (F.rel_refl n) y _ (fun a => ?_)) _
    rcases localLoginCore_fst a u n.time n.nextId with ⟨h1, _⟩ | ⟨h1, _⟩ <;> rw [h1]
    · exact F.refl y a
    · exact h a _

theorem Frame.localLogout (F : Frame R) (n : Net) (y : Nat) : Net.Rel R n (opLocalLogout n y).1 := by
  rcases opLocalLogout_cases n y with h0 | h0 <;> rw [h0]
  · exact F.rel_refl n
  · exact F.rel_upd (F.rel_refl n) y _ (fun a => F.shr y a _ (shr_localLogout a))

theorem Pre.localCmdK (F : Pre R) (K : Net → Net × Out) (n : Net) (y : Nat) (u p : String)
    (h1 : ∀ a l, R y a (a.setLoc l)) (h2 : ∀ a c, R y a (a.addConn c)) (hK : ∀ m, Net.Rel R m (K m).1) :
    Net.Rel R n (opLocalCmdK K n y u p).1 := by
  rcases opLocalCmdK_cases K n y u p with h0 | ⟨nd, _, _, ⟨_, h0⟩ | ⟨id, _, ⟨_, h0⟩ | ⟨_, h0⟩⟩⟩ <;> rw [h0]
  · exact F.rel_refl n
  · exact F.localLogin n y u p h1
  · exact F.rel_upd (F.localLogin n y u p h1) y _ (fun a => h2 a _)
  · exact F.rel_trans (F.rel_upd (F.localLogin n y u p h1) y _ (fun a => h2 a _)) (hK _)

theorem Pre.file (F : Pre R) (n : Net) (y k : Nat) (h : ∀ a, R y a (a.addFile k)) : Net.Rel R n (opFile n y k).1 := by
  rcases opFile_cases n y k with h0 | ⟨nd, _, _, h0⟩ <;> rw [h0]
  · exact F.rel_refl n
  · exact F.rel_upd (F.rel_refl n) y _ h

theorem Pre.enableUser (F : Pre R) (n : Net) (y : Nat) (u : String) (h : ∀ a, R y a (a.setEnabled u)) :
    Net.Rel R n (opEnableUser n y u).1 := by
  rcases opEnableUser_cases n y u with h0 | h0 <;> rw [h0]
  · exact F.rel_refl n
  · exact F.rel_upd (F.rel_refl n) y _ h

theorem Pre.addUserBypass (F : Pre R) (n : Net) (y : Nat) (u p : String) (adm : Bool)
    (h : ∀ a w, R y a (a.addUser w)) : Net.Rel R n (opAddUserBypass n y u p adm).1 := by
  rcases opAddUserBypass_cases n y u p adm with h0 | ⟨nd, _, _, h0⟩ <;> rw [h0]
  · exact F.rel_refl n
  · exact F.rel_upd (F.rel_refl n) y _ (fun a => h a _)

theorem Pre.usmLogin (F : Pre R) (n : Net) (y : Nat) (u p : String) (peer : Nat) (h : ∀ a s, R y a (a.addSession s)) :
    Net.Rel R n (opUsmLogin n y u p peer).1 := by
  rcases opUsmLogin_cases n y u p peer with ⟨h0, _⟩ | ⟨b, _, _, _, _, h0, _⟩ <;> rw [h0]
  · exact F.rel_refl n
  · exact rel_bump (F.rel_upd (F.rel_refl n) y _ (fun a => h a _)) _

theorem Pre.afterLogin (F : Pre R) (n : Net) (x y : Nat) (u : String)
    (h1 : ∀ a s, R y a (a.addSession s)) (h2 : ∀ a c, R y a (a.addConn c)) : Net.Rel R n (afterLogin n x y u) :=
  rel_bump (F.rel_upd (F.rel_refl n) y _ (fun a => F.trans y _ _ _ (h1 a _) (h2 _ _))) _

theorem Pre.remoteLogin (F : Pre R) (n : Net) (x y : Nat) (u p : String)
    (h1 : ∀ a s, R y a (a.addSession s)) (h2 : ∀ j a c, R j a (a.addConn c)) : Net.Rel R n (opRemoteLogin n x y u p).1 := by
  rcases opRemoteLogin_cases n x y u p with ⟨h0, _⟩ | ⟨a, b, _, _, _, _, _, _, ⟨h0, _⟩ | ⟨h0, _⟩⟩ <;> rw [h0]
  · exact F.rel_refl n
  · exact F.afterLogin n x y u h1 (h2 y)
  · exact F.rel_upd (F.afterLogin n x y u h1 (h2 y)) x _ (fun a => h2 x a _)

theorem Frame.remoteCmdK (F : Frame R) (K : Net → Net × Out) (n : Net) (x y : Nat)
    (h : ∀ a cid t, R y a (a.touch cid t)) (hK : ∀ m, Net.Rel R m (K m).1) : Net.Rel R n (opRemoteCmdK K n x y).1 := by
  rcases opRemoteCmdK_cases K n x y with ⟨h0, _⟩ | ⟨a, b, c, _, ⟨_, _, h0, _⟩ | ⟨_, h0, _⟩⟩ <;> rw [h0]
  · exact F.rel_refl n
  · exact F.rel_trans (F.rel_upd (F.rel_refl n) y _ (fun a => h a _ _)) (hK _)
  · exact F.rel_shr F.shr (F.rel_refl n) (shr_disconnect _ _ _ _)

theorem Frame.usmLogout (F : Frame R) (n : Net) (y i : Nat) : Net.Rel R n (opUsmLogout n y i).1 := by
  rcases opUsmLogout_cases n y i with ⟨h0, _⟩ | ⟨nd, s, _, _, _, h0⟩ <;> rw [h0]
  · exact F.rel_refl n
  · exact F.rel_shr F.shr (F.rel_refl n) ((shr_disconnect _ _ _ _).trans (shr_upd _ _ _ (shr_dropSession s.id)))

theorem Frame.remoteLogoff (F : Frame R) (n : Net) (x y : Nat) : Net.Rel R n (opRemoteLogoff n x y).1 := by
  rcases opRemoteLogoff_cases n x y with h0 | ⟨a, c, _, _, _, h0, _⟩ <;> rw [h0]
  · exact F.rel_refl n
  · exact F.rel_shr F.shr (F.rel_refl n) (shr_disconnect _ _ _ _)

theorem Pre.disableUser (F : Pre R) (n : Net) (y : Nat) (u : String)
    (h : ∀ a, R y a (a.setDisabled u)) : Net.Rel R n (opDisableUser n y u).1 := by
  rcases opDisableUser_cases n y u with h0 | ⟨nd, w, _, _, _, _, _, _, h0⟩ <;> rw [h0]
  · exact F.rel_refl n
  · exact F.rel_upd (F.rel_refl n) y _ h

theorem Frame.changePassword (F : Frame R) (n : Net) (y : Nat) (u old new : String)
    (h : ∀ a, R y a (a.setPassword u new)) : Net.Rel R n (opChangePassword n y u old new).1 := by
  rcases opChangePassword_cases n y u old new with ⟨h0, _⟩ | ⟨nd, w, _, _, _, _, _, h0, _⟩ <;> rw [h0]
  · exact F.rel_refl n
  · exact F.rel_shr F.shr (F.rel_upd (F.rel_refl n) y _ h) (shr_logoutUser _ _ _)

theorem Frame.ofData (F : Frame R) (n m : Net) (y : Nat)
    (h : m = n ∨ ∃ f : Node → Node, (∀ a, (f a).data = a.data) ∧ m = n.upd y f) : Net.Rel R n m := by
  rcases h with h0 | ⟨f, hf, h0⟩ <;> rw [h0]
  · exact F.rel_refl n
  · exact F.rel_upd (F.rel_refl n) y f (fun a => F.data y a _ (hf a))

/-- a command that is not a terminal command carrying another command -/
def Cmd.atomic : Cmd → Bool
  | .localCmd _ _ _ | .remoteCmd _ _ => false
  | _ => true

/-- no remote login (through the terminal or directly at the session manager) anywhere in the command -/
def Cmd.noLogin : Cmd → Bool
  | .remoteLogin _ _ _ | .usmLogin _ _ _ => false
  | .localCmd _ _ c | .remoteCmd _ c => c.noLogin
  | _ => true

/-- no file command anywhere in the command -/
def Cmd.noFile : Cmd → Bool
  | .file _ => false
  | .localCmd _ _ c | .remoteCmd _ c => c.noFile
  | _ => true

/-- no local terminal command anywhere in the command -/
def Cmd.noLocal : Cmd → Bool
  | .localCmd _ _ _ => false
  | .remoteCmd _ c => c.noLocal
  | _ => true

def Op.noLogin : Op → Bool
  | .req _ c => c.noLogin
  | _ => true

def Op.noFile : Op → Bool
  | .req _ c => c.noFile
  | _ => true

/-- the edits a relation has to tolerate so that every request keeps it -/
structure Edits (R : Nat → Node → Node → Prop) : Prop where
  addUser : ∀ j a w, R j a (a.addUser w)
  setPassword : ∀ j a u p, R j a (a.setPassword u p)
  addConn : ∀ j a c, R j a (a.addConn c)
  touch : ∀ j a cid t, R j a (a.touch cid t)

/-- every request (`Node.apply_request`, commands nested to any depth), for a relation that tolerates the edits of the model;
`disable_user` and the local login are given at the level of the operation because several relations hold for them only
under the operation's guards; a new session / a new file has to be tolerated only if the command contains a login / a file
command -/
theorem Frame.exec (F : Frame R) (E : Edits R)
    (hD : ∀ n y u, Net.Rel R n (opDisableUser n y u).1) :
    ∀ (c : Cmd), (c.noLocal = false → ∀ n y u p, Net.Rel R n (localLogin n y u p).1) → (c.noLogin = false → ∀ j a s, R j a (a.addSession s)) → (c.noFile = false → ∀ j a k, R j a (a.addFile k)) →
      ∀ (n : Net) (y : Nat), Net.Rel R n (execCmd c n y).1 := by
  intro c
  induction c with
  | file k => intro _ _ hF n y; exact F.toPre.file n y k (fun a => hF rfl y a k)
  | addUser u p adm => intro _ _ _ n y; exact F.toPre.addUser n y u p adm (E.addUser y)
  | disableUser u => intro _ _ _ n y; exact hD n y u
  | changePassword u o nw => intro _ _ _ n y; exact F.changePassword n y u o nw (fun a => E.setPassword y a u nw)
  | localCmd u p c ih =>
    intro hL hS hF n y
    have hL' := hL rfl
    rcases opLocalCmdK_cases (fun m => execCmd c m y) n y u p with h0 | ⟨nd, _, _, ⟨_, h0⟩ | ⟨id, _, ⟨_, h0⟩ | ⟨_, h0⟩⟩⟩ <;>
      simp only [execCmd] <;> rw [h0]
    · exact F.rel_refl n
    · exact hL' n y u p
    · exact F.rel_upd (hL' n y u p) y _ (fun a => E.addConn y a _)
    · exact F.rel_trans (F.rel_upd (hL' n y u p) y _ (fun a => E.addConn y a _)) (ih (fun _ => hL') hS hF _ _)
  | remoteLogin z u p => intro _ hS _ n y; exact F.toPre.remoteLogin n y z u p (hS rfl z) E.addConn
  | remoteCmd z c ih => intro hL hS hF n y; exact F.remoteCmdK _ n y z (E.touch z) (fun m => ih hL hS hF m z)
  | remoteLogoff z => intro _ _ _ n y; exact F.remoteLogoff n y z
  | usmLogin u p peer => intro _ hS _ n y; exact F.toPre.usmLogin n y u p peer (hS rfl y)
  | usmLogout i => intro _ _ _ n y; exact F.usmLogout n y i
  | svc w v => intro _ _ _ n y; exact F.ofData n _ _ (opSvc_cases n _ _ _)
  | shutdown => intro _ _ _ n y; exact F.ofData n _ _ (opShutdown_cases n _)
  | startup => intro _ _ _ n y; exact F.ofData n _ _ (opStartup_cases n _)
  | reset => intro _ _ _ n y; exact F.ofData n _ _ (opReset_cases n _)

/-- the ACL edit touches no node -/
theorem rel_setBlock (hR : ∀ j a, R j a a) (n : Net) (x y : Nat) (on : Bool) : Net.Rel R n (opSetBlock n x y on).1 :=
  ⟨rfl, fun j a h => ⟨a, h, hR j a⟩⟩

@[simp] theorem setBlock_node (n : Net) (x y : Nat) (on : Bool) (j : Nat) : (opSetBlock n x y on).1.node j = n.node j := rfl
@[simp] theorem setBlock_nextId (n : Net) (x y : Nat) (on : Bool) : (opSetBlock n x y on).1.nextId = n.nextId := rfl
@[simp] theorem setBlock_time (n : Net) (x y : Nat) (on : Bool) : (opSetBlock n x y on).1.time = n.time := rfl
@[simp] theorem setBlock_stuck (n : Net) (x y : Nat) (on : Bool) : (opSetBlock n x y on).1.stuck = n.stuck := rfl

/-- every operation -/
theorem Frame.step (F : Frame R) (E : Edits R)
    (hD : ∀ n y u, Net.Rel R n (opDisableUser n y u).1) (hL : ∀ n y u p, Net.Rel R n (localLogin n y u p).1)
    (hEn : ∀ j a u, R j a (a.setEnabled u)) (n : Net) (op : Op)
    (hS : op.noLogin = false → ∀ j a s, R j a (a.addSession s)) (hF : op.noFile = false → ∀ j a k, R j a (a.addFile k)) :
    Net.Rel R n (Primaite.Session.step n op).1 := by
  cases op with
  | req y c => exact F.exec E hD c (fun _ => hL) hS hF n y
  | enableUser y u => exact F.toPre.enableUser n y u (fun a => hEn y a u)
  | addUserBypass y u p adm => exact F.toPre.addUserBypass n y u p adm (E.addUser y)
  | localLogin y u p => simp only [Primaite.Session.step]; rw [opLocalLogin_fst]; exact hL n y u p
  | localLogout y => exact F.localLogout n y
  | tick => exact F.tick n
  | setBlock x y on => exact rel_setBlock F.refl n x y on

/-- the common case: the relation tolerates `disabled := true` and a new local session unconditionally -/
theorem Frame.step' (F : Frame R) (E : Edits R) (hD : ∀ j a u, R j a (a.setDisabled u)) (hL : ∀ j a l, R j a (a.setLoc l))
    (hEn : ∀ j a u, R j a (a.setEnabled u)) (n : Net) (op : Op)
    (hS : op.noLogin = false → ∀ j a s, R j a (a.addSession s)) (hF : op.noFile = false → ∀ j a k, R j a (a.addFile k)) :
    Net.Rel R n (Primaite.Session.step n op).1 :=
  F.step E (fun n y u => F.toPre.disableUser n y u (fun a => hD y a u)) (fun n y u p => F.toPre.localLogin n y u p (hL y)) hEn n op
    hS hF

/-! ### induction over nested commands for any transitive relation between networks -/

/-- If a reflexive, transitive relation `P` between networks holds across every command that carries no further command,
across everything that only tears sessions / connections down, across the bookkeeping of an accepted terminal command
(`last_active_step`, the local login and its connection), then it holds across every request, nested to any depth. -/
theorem exec_induction_now (P : Net → Net → Prop) (refl : ∀ n, P n n) (trans : ∀ a b c, P a b → P b c → P a c)
    (hAtomic : ∀ c, c.atomic = true → ∀ n y, P n (execCmd c n y).1)
    (hDisc : ∀ n y cid, P n (disconnect n.fuel n y cid))
    (hTouch : ∀ n y cid, P n (n.upd y (Node.touch cid n.time)))
    (hLogin : ∀ n y u p, P n (localLogin n y u p).1)
    (hLocal : ∀ n y u p id, (localLogin n y u p).2 = some id →
      P n ((localLogin n y u p).1.upd y (Node.addConn ⟨id, none⟩))) :
    ∀ (c : Cmd) (n : Net) (y : Nat), P n (execCmd c n y).1 := by
  intro c
  induction c with
  | localCmd u p c ih =>
    intro n y
    rcases opLocalCmdK_cases (fun m => execCmd c m y) n y u p with h0 | ⟨nd, _, _, ⟨_, h0⟩ | ⟨id, hid, ⟨_, h0⟩ | ⟨_, h0⟩⟩⟩ <;>
      simp only [execCmd] <;> rw [h0]
    · exact refl n
    · exact hLogin n y u p
    · exact hLocal n y u p id hid
    · exact trans _ _ _ (hLocal n y u p id hid) (ih _ _)
  | remoteCmd z c ih =>
    intro n y
    rcases opRemoteCmdK_cases (fun m => execCmd c m z) n y z with ⟨h0, _⟩ | ⟨a, b, cn, _, ⟨_, _, h0, _⟩ | ⟨_, h0, _⟩⟩ <;>
      simp only [execCmd] <;> rw [h0]
    · exact refl n
    · exact trans _ _ _ (hTouch _ _ _) (ih _ _)
    · exact hDisc _ _ _
  | file k => exact hAtomic _ rfl
  | addUser u p adm => exact hAtomic _ rfl
  | disableUser u => exact hAtomic _ rfl
  | changePassword u o nw => exact hAtomic _ rfl
  | remoteLogin z u p => exact hAtomic _ rfl
  | remoteLogoff z => exact hAtomic _ rfl
  | usmLogin u p peer => exact hAtomic _ rfl
  | usmLogout i => exact hAtomic _ rfl
  | svc w v => exact hAtomic _ rfl
  | shutdown => exact hAtomic _ rfl
  | startup => exact hAtomic _ rfl
  | reset => exact hAtomic _ rfl

/-- the same with the session's clock set to an arbitrary value (for relations that do not look at clocks) -/
theorem exec_induction'' (P : Net → Net → Prop) (refl : ∀ n, P n n) (trans : ∀ a b c, P a b → P b c → P a c)
    (hAtomic : ∀ c, c.atomic = true → ∀ n y, P n (execCmd c n y).1)
    (hDisc : ∀ n y cid, P n (disconnect n.fuel n y cid))
    (hTouch : ∀ n y cid t, P n (n.upd y (Node.touch cid t)))
    (hLogin : ∀ n y u p, P n (localLogin n y u p).1)
    (hLocal : ∀ n y u p id, (localLogin n y u p).2 = some id →
      P n ((localLogin n y u p).1.upd y (Node.addConn ⟨id, none⟩))) :
    ∀ (c : Cmd) (n : Net) (y : Nat), P n (execCmd c n y).1 :=
  exec_induction_now P refl trans hAtomic hDisc (fun n y cid => hTouch n y cid n.time) hLogin hLocal

theorem exec_induction' (P : Net → Net → Prop) (refl : ∀ n, P n n) (trans : ∀ a b c, P a b → P b c → P a c)
    (hAtomic : ∀ c, c.atomic = true → ∀ n y, P n (execCmd c n y).1)
    (hDisc : ∀ n y cid, P n (disconnect n.fuel n y cid))
    (hTouch : ∀ n y cid t, P n (n.upd y (Node.touch cid t)))
    (hLogin : ∀ n y u p, P n (localLogin n y u p).1)
    (hConn : ∀ n y c, P n (n.upd y (Node.addConn c))) :
    ∀ (c : Cmd) (n : Net) (y : Nat), P n (execCmd c n y).1 :=
  exec_induction'' P refl trans hAtomic hDisc hTouch hLogin (fun n y u p id _ => trans _ _ _ (hLogin n y u p) (hConn _ _ _))

theorem exec_induction (P : Net → Net → Prop) (refl : ∀ n, P n n) (trans : ∀ a b c, P a b → P b c → P a c)
    (hAtomic : ∀ c, c.atomic = true → ∀ n y, P n (execCmd c n y).1)
    (hShr : ∀ n m, n.Shr m → P n m)
    (hTouch : ∀ n y cid t, P n (n.upd y (Node.touch cid t)))
    (hLogin : ∀ n y u p, P n (localLogin n y u p).1)
    (hConn : ∀ n y c, P n (n.upd y (Node.addConn c))) :
    ∀ (c : Cmd) (n : Net) (y : Nat), P n (execCmd c n y).1 :=
  exec_induction' P refl trans hAtomic (fun n y cid => hShr _ _ (shr_disconnect _ _ _ _)) hTouch hLogin hConn

theorem Net.Rel.none {n m : Net} (h : Net.Rel R n m) {j : Nat} (hj : n.node j = none) : m.node j = none := by
  unfold Net.node at *
  rw [List.getElem?_eq_none_iff] at *
  have := h.len
  omega

/-- NIC and terminal untouched: the network path is the same -/
def KeepPath : Nat → Node → Node → Prop := fun _ a b => b.nic = a.nic ∧ b.term = a.term

theorem keepPath_pre : Pre KeepPath :=
  { refl := fun _ _ => ⟨rfl, rfl⟩, trans := fun _ _ _ _ h1 h2 => ⟨h2.1.trans h1.1, h2.2.trans h1.2⟩ }

theorem canDeliver_of_keepPath {n m : Net} (h : Net.Rel KeepPath n m) (hbl : m.blocked = n.blocked) (hhp : m.hairpin = n.hairpin)
    (x y : Nat) :
    canDeliver m x y = canDeliver n x y := by
  unfold canDeliver
  cases hx : n.node x with
  | none => simp [h.none hx]
  | some a =>
    obtain ⟨a', ha', haa⟩ := h.node x a hx
    cases hy : n.node y with
    | none => simp [h.none hy, ha']
    | some b =>
      obtain ⟨b', hb', hbb⟩ := h.node y b hy
      simp [ha', hb', haa.1, hbb.1, hbb.2, Net.open, hbl, hhp]

theorem canDeliver_afterLogin (n : Net) (x y : Nat) (u : String) (i j : Nat) :
    canDeliver (afterLogin n x y u) i j = canDeliver n i j :=
  canDeliver_of_keepPath (keepPath_pre.afterLogin n x y u (fun _ _ => ⟨rfl, rfl⟩) (fun _ _ => ⟨rfl, rfl⟩)) rfl rfl i j


theorem Net.Rel.back_of_len {n m : Net} (h : Net.Rel R n m) {j : Nat} {b : Node} (hb : m.node j = some b) :
    ∃ a, n.node j = some a ∧ R j a b := by
  cases ha : n.node j with
  | none => rw [h.none ha] at hb; cases hb
  | some a =>
    obtain ⟨b', hb', hab⟩ := h.node j a ha
    rw [hb] at hb'; cases hb'
    exact ⟨a, rfl, hab⟩


end Primaite.Session
