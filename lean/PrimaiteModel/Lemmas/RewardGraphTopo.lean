/-
Proof development for `topological_sort` (Model/RewardGraph.lean): paths, acyclicity, the fuel measure, the
dependencies-first invariant of the post-order stack, and absence of duplicates.
-/
import PrimaiteModel.Model.RewardGraph
namespace Primaite.RewardGraph

variable {α : Type} [DecidableEq α]

inductive Path (g : Graph α) : α → α → Prop
  | single {u v} : v ∈ nbrs g u → Path g u v
  | cons {u v w} : v ∈ nbrs g u → Path g v w → Path g u w

theorem Path.snoc {g : Graph α} {u v w : α} (h : Path g u v) (hw : w ∈ nbrs g v) : Path g u w := by
  induction h with
  | single h1 => exact .cons h1 (.single hw)
  | cons h1 _ ih => exact .cons h1 (ih hw)

def Acyclic (g : Graph α) : Prop := ∀ u, ¬ Path g u u

theorem nbrs_sub_univ (g : Graph α) (n m : α) (h : m ∈ nbrs g n) : m ∈ univ g := by
  unfold nbrs at h
  cases hl : g.lookup n with
  | none => simp [hl] at h
  | some l =>
    simp [hl] at h
    have : (n, l) ∈ g := by
      induction g with
      | nil => simp [List.lookup] at hl
      | cons a t ih =>
        obtain ⟨k, v⟩ := a
        simp only [List.lookup] at hl
        by_cases hk : n == k
        · simp [hk] at hl; subst hl; simp at hk; subst hk; simp
        · simp [hk] at hl; exact List.mem_cons_of_mem _ (ih hl)
    unfold univ
    apply List.mem_append_right
    simp only [List.mem_flatMap]
    exact ⟨(n, l), this, h⟩

def unvis (u vis : List α) : Nat := (u.filter (fun x => !decide (x ∈ vis))).length

theorem unvis_anti (u vis vis' : List α) (h : ∀ x ∈ vis, x ∈ vis') : unvis u vis' ≤ unvis u vis := by
  unfold unvis
  induction u with
  | nil => simp
  | cons a t ih =>
    simp only [List.filter_cons]
    by_cases h1 : a ∈ vis
    · have h2 := h a h1
      simp only [h1, h2, decide_true, Bool.not_true]
      simpa using ih
    · by_cases h2 : a ∈ vis'
      · simp only [h1, h2, decide_true, decide_false, Bool.not_true, Bool.not_false]
        simp only [Bool.false_eq_true, if_false, if_true, List.length_cons]
        omega
      · simp only [h1, h2, decide_false, Bool.not_false, if_true, List.length_cons]
        omega

theorem unvis_lt (u vis : List α) (n : α) (hn : n ∈ u) (hv : n ∉ vis) :
    unvis u (n :: vis) < unvis u vis := by
  induction u with
  | nil => simp at hn
  | cons a t ih =>
    have hanti := unvis_anti t vis (n :: vis) (by intro x hx; simp [hx])
    unfold unvis at *
    simp only [List.filter_cons]
    by_cases ha : a = n
    · subst ha
      have h2 : a ∈ a :: vis := by simp
      simp only [hv, h2, decide_true, decide_false, Bool.not_true, Bool.not_false,
        Bool.false_eq_true, if_false, if_true, List.length_cons]
      omega
    · have hn' : n ∈ t := by
        rcases List.mem_cons.mp hn with h | h
        · exact absurd h.symm ha
        · exact h
      have := ih hn'
      by_cases h1 : a ∈ vis
      · have h2 : a ∈ n :: vis := by simp [h1]
        simp only [h1, h2, decide_true, Bool.not_true, Bool.false_eq_true, if_false]
        exact this
      · have h2 : a ∉ n :: vis := by simp [ha, h1]
        simp only [h1, h2, decide_false, Bool.not_false, if_true, List.length_cons]
        omega

def mu (g : Graph α) (vis : List α) : Nat := unvis (univ g) vis

theorem mu_anti (g : Graph α) (vis vis' : List α) (h : ∀ x ∈ vis, x ∈ vis') : mu g vis' ≤ mu g vis :=
  unvis_anti _ _ _ h

theorem mu_lt (g : Graph α) (vis : List α) (n : α) (hn : n ∈ univ g) (hv : n ∉ vis) :
    mu g (n :: vis) < mu g vis := unvis_lt _ _ _ hn hv

/-- every node's dependencies occur strictly earlier in the list -/
def DepsFirst (g : Graph α) (l : List α) : Prop :=
  ∀ l₁ u l₂, l = l₁ ++ u :: l₂ → ∀ v ∈ nbrs g u, v ∈ l₁

theorem DepsFirst.snoc {g : Graph α} {l : List α} {n : α} (h : DepsFirst g l)
    (hn : ∀ v ∈ nbrs g n, v ∈ l) : DepsFirst g (l ++ [n]) := by
  intro l₁ u l₂ heq v hv
  -- either the split point is inside l, or it is the last element
  rcases List.eq_nil_or_concat l₂ with rfl | ⟨l₂', x, rfl⟩
  · -- l ++ [n] = l₁ ++ [u]
    have := List.append_inj' heq (by simp)
    obtain ⟨h1, h2⟩ := this
    simp at h2; subst h2; subst h1
    exact hn v hv
  · -- l ++ [n] = l₁ ++ u :: (l₂' ++ [x])
    have heq' : l ++ [n] = (l₁ ++ u :: l₂') ++ [x] := by simp [heq]
    have := List.append_inj' heq' (by simp)
    exact h l₁ u l₂' this.1 v hv

structure Post (g : Graph α) (A : List α) (vis stk : List α) (r : List α × List α) : Prop where
  deps : DepsFirst g r.2
  sub : ∀ x ∈ r.2, x ∈ r.1
  visMono : ∀ x ∈ vis, x ∈ r.1
  stkMono : ∀ x ∈ stk, x ∈ r.2
  grey : ∀ x ∈ r.1, x ∉ r.2 → x ∈ A

theorem tdfs_spec (g : Graph α) (hac : Acyclic g) :
    ∀ (fuel : Nat) (vis stk : List α) (n : α) (A : List α),
      mu g vis < fuel → n ∈ univ g →
      DepsFirst g stk → (∀ x ∈ stk, x ∈ vis) → (∀ x ∈ vis, x ∉ stk → x ∈ A) → (∀ a ∈ A, Path g a n) →
      Post g A vis stk (tdfs g fuel (vis, stk) n) ∧ n ∈ (tdfs g fuel (vis, stk) n).2 := by
  intro fuel
  induction fuel with
  | zero => intro vis stk n A h; omega
  | succ fuel ih =>
    intro vis stk n A hmu hn hdeps hsub hgrey hA
    unfold tdfs
    by_cases hv : n ∈ vis
    · -- already visited: must be finished, otherwise it is an ancestor and there is a cycle
      simp only [hv, if_true]
      have hfin : n ∈ stk := by
        apply Classical.byContradiction
        intro hns
        exact hac n (hA n (hgrey n hv hns))
      exact ⟨⟨hdeps, hsub, fun x hx => hx, fun x hx => hx, hgrey⟩, hfin⟩
    · simp only [hv, if_false]
      -- fold over the neighbours with ancestors n :: A
      have key : ∀ (ms : List α) (st : List α × List α),
          (∀ m ∈ ms, m ∈ nbrs g n) →
          mu g st.1 < fuel → DepsFirst g st.2 → (∀ x ∈ st.2, x ∈ st.1) →
          (∀ x ∈ st.1, x ∉ st.2 → x ∈ n :: A) →
          let r := ms.foldl (fun st m => tdfs g fuel st m) st
          Post g (n :: A) st.1 st.2 r ∧ ∀ m ∈ ms, m ∈ r.2 := by
        intro ms
        induction ms with
        | nil =>
          intro st _ _ hd hs hg
          exact ⟨⟨hd, hs, fun x hx => hx, fun x hx => hx, hg⟩, by simp⟩
        | cons m ms ihms =>
          intro st hms hmu' hd hs hg
          simp only [List.foldl_cons]
          obtain ⟨v1, s1⟩ := st
          have hm : m ∈ nbrs g n := hms m (by simp)
          have hpath : ∀ a ∈ n :: A, Path g a m := by
            intro a ha
            rcases List.mem_cons.mp ha with rfl | ha
            · exact .single hm
            · exact (hA a ha).snoc hm
          obtain ⟨p1, hm1⟩ := ih v1 s1 m (n :: A) hmu' (nbrs_sub_univ g n m hm) hd hs hg hpath
          have hmu2 : mu g (tdfs g fuel (v1, s1) m).1 < fuel :=
            Nat.lt_of_le_of_lt (mu_anti g v1 _ p1.visMono) hmu'
          obtain ⟨p2, hall⟩ := ihms (tdfs g fuel (v1, s1) m) (fun x hx => hms x (by simp [hx]))
            hmu2 p1.deps p1.sub p1.grey
          refine ⟨⟨p2.deps, p2.sub, fun x hx => p2.visMono x (p1.visMono x hx),
            fun x hx => p2.stkMono x (p1.stkMono x hx), p2.grey⟩, ?_⟩
          intro x hx
          rcases List.mem_cons.mp hx with rfl | hx
          · exact p2.stkMono _ hm1
          · exact hall x hx
      have hmu0 : mu g (n :: vis) < fuel := by
        have := mu_lt g vis n hn hv; omega
      have hg0 : ∀ x ∈ n :: vis, x ∉ stk → x ∈ n :: A := by
        intro x hx hxs
        rcases List.mem_cons.mp hx with rfl | hx
        · simp
        · exact List.mem_cons_of_mem _ (hgrey x hx hxs)
      obtain ⟨p, hall⟩ := key (nbrs g n) (n :: vis, stk) (fun m hm => hm) hmu0 hdeps
        (fun x hx => List.mem_cons_of_mem _ (hsub x hx)) hg0
      simp only at p hall ⊢
      refine ⟨⟨p.deps.snoc hall, ?_, ?_, ?_, ?_⟩, by simp⟩
      · intro x hx
        rcases List.mem_append.mp hx with hx | hx
        · exact p.sub x hx
        · simp at hx; subst hx; exact p.visMono _ (by simp)
      · intro x hx; exact p.visMono x (List.mem_cons_of_mem _ hx)
      · intro x hx; exact List.mem_append_left _ (p.stkMono x hx)
      · intro x hx hxs
        have hxs' : x ∉ _ := fun h => hxs (List.mem_append_left _ h)
        have := p.grey x hx hxs'
        rcases List.mem_cons.mp this with rfl | h
        · exact absurd (List.mem_append_right _ (by simp)) hxs
        · exact h



/-! ### No duplicates (needs neither acyclicity nor fuel) -/

structure ND (g : Graph α) (vis stk : List α) (r : List α × List α) : Prop where
  nodup : r.2.Nodup
  sub : ∀ x ∈ r.2, x ∈ r.1
  visMono : ∀ x ∈ vis, x ∈ r.1
  fresh : ∀ x ∈ r.2, x ∈ stk ∨ x ∉ vis
  inUniv : ∀ x ∈ r.2, x ∈ stk ∨ x ∈ univ g

theorem tdfs_nd (g : Graph α) :
    ∀ (fuel : Nat) (vis stk : List α) (n : α), n ∈ univ g →
      (∀ x ∈ stk, x ∈ vis) → stk.Nodup → ND g vis stk (tdfs g fuel (vis, stk) n) := by
  intro fuel
  induction fuel with
  | zero =>
    intro vis stk n _ hsub hnd
    exact ⟨hnd, hsub, fun x hx => hx, fun x hx => Or.inl hx, fun x hx => Or.inl hx⟩
  | succ fuel ih =>
    intro vis stk n hn hsub hnd
    unfold tdfs
    by_cases hv : n ∈ vis
    · simp only [hv, if_true]
      exact ⟨hnd, hsub, fun x hx => hx, fun x hx => Or.inl hx, fun x hx => Or.inl hx⟩
    · simp only [hv, if_false]
      have key : ∀ (ms : List α) (st : List α × List α), (∀ m ∈ ms, m ∈ univ g) →
          (∀ x ∈ st.2, x ∈ st.1) → st.2.Nodup →
          ND g st.1 st.2 (ms.foldl (fun st m => tdfs g fuel st m) st) := by
        intro ms
        induction ms with
        | nil =>
          intro st _ hs hn
          exact ⟨hn, hs, fun x hx => hx, fun x hx => Or.inl hx, fun x hx => Or.inl hx⟩
        | cons m ms ihms =>
          intro st hms hs hn
          obtain ⟨v1, s1⟩ := st
          simp only [List.foldl_cons]
          have p1 := ih v1 s1 m (hms m (by simp)) hs hn
          have p2 := ihms (tdfs g fuel (v1, s1) m) (fun x hx => hms x (by simp [hx])) p1.sub p1.nodup
          refine ⟨p2.nodup, p2.sub, fun x hx => p2.visMono x (p1.visMono x hx), ?_, ?_⟩
          · intro x hx
            rcases p2.fresh x hx with h | h
            · exact p1.fresh x h
            · exact Or.inr (fun hxv => h (p1.visMono x hxv))
          · intro x hx
            rcases p2.inUniv x hx with h | h
            · exact p1.inUniv x h
            · exact Or.inr h
      have p := key (nbrs g n) (n :: vis, stk) (fun m hm => nbrs_sub_univ g n m hm)
        (fun x hx => List.mem_cons_of_mem _ (hsub x hx)) hnd
      simp only at p
      have hnstk : n ∉ ((nbrs g n).foldl (fun st m => tdfs g fuel st m) (n :: vis, stk)).2 := by
        intro h
        rcases p.fresh n h with h' | h'
        · exact hv (hsub n h')
        · exact h' (by simp)
      refine ⟨?_, ?_, ?_, ?_, ?_⟩
      · exact List.nodup_append.mpr ⟨p.nodup, by simp, by
          intro a ha b hb; simp at hb; subst hb; intro hab; subst hab; exact hnstk ha⟩
      · intro x hx
        rcases List.mem_append.mp hx with hx | hx
        · exact p.sub x hx
        · simp at hx; subst hx; exact p.visMono _ (by simp)
      · intro x hx; exact p.visMono x (List.mem_cons_of_mem _ hx)
      · intro x hx
        rcases List.mem_append.mp hx with hx | hx
        · rcases p.fresh x hx with h | h
          · exact Or.inl h
          · exact Or.inr (fun hxv => h (List.mem_cons_of_mem _ hxv))
        · simp at hx; subst hx; exact Or.inr hv
      · intro x hx
        rcases List.mem_append.mp hx with hx | hx
        · exact p.inUniv x hx
        · simp at hx; subst hx; exact Or.inr hn

end Primaite.RewardGraph
