/-
C14 helper lemmas: every operation of `Model.Health` acts item-wise —
`(n.apply op).sws = n.sws.map (swEff n op)`, `(n.apply op).folders = n.folders.map (folderEff n op)` —
and field-preservation facts of the primitive item functions.
-/
import PrimaiteModel.Model.Health
namespace Primaite.Health
set_option linter.unusedSimpArgs false

/-! ### primitive software functions: what they leave alone -/

section sw
variable (x : Sw)

@[simp] theorem Sw.setHealth_visible (h) : (x.setHealth h).visible = x.visible := rfl
@[simp] theorem Sw.setHealth_name (h) : (x.setHealth h).name = x.name := rfl
@[simp] theorem Sw.setHealth_isApp (h) : (x.setHealth h).isApp = x.isApp := rfl
@[simp] theorem Sw.setHealth_actual (h) : (x.setHealth h).actual = h := rfl
@[simp] theorem Sw.setHealth_op (h) : (x.setHealth h).op = x.op := rfl
@[simp] theorem Sw.setHealth_fixCd (h) : (x.setHealth h).fixCd = x.fixCd := rfl
@[simp] theorem Sw.setHealth_fixDur (h) : (x.setHealth h).fixDur = x.fixDur := rfl
@[simp] theorem Sw.setHealth_auxCd (h) : (x.setHealth h).auxCd = x.auxCd := rfl

@[simp] theorem Sw.scan_visible : x.scan.visible = x.actual := rfl
@[simp] theorem Sw.scan_actual : x.scan.actual = x.actual := rfl
@[simp] theorem Sw.scan_name : x.scan.name = x.name := rfl
@[simp] theorem Sw.scan_isApp : x.scan.isApp = x.isApp := rfl
@[simp] theorem Sw.scan_op : x.scan.op = x.op := rfl
@[simp] theorem Sw.scan_fixCd : x.scan.fixCd = x.fixCd := rfl
@[simp] theorem Sw.scan_fixDur : x.scan.fixDur = x.fixDur := rfl
@[simp] theorem Sw.scan_auxCd : x.scan.auxCd = x.auxCd := rfl

/-- the fields no operation other than `scan` touches, and the identity fields nothing touches -/
structure Sw.Same (y x : Sw) : Prop where
  name : y.name = x.name
  isApp : y.isApp = x.isApp
  visible : y.visible = x.visible
  fixDur : y.fixDur = x.fixDur

theorem Sw.Same.refl : Sw.Same x x := ⟨rfl, rfl, rfl, rfl⟩
theorem Sw.Same.trans {a b c : Sw} (h1 : Sw.Same a b) (h2 : Sw.Same b c) : Sw.Same a c :=
  ⟨h1.name.trans h2.name, h1.isApp.trans h2.isApp, h1.visible.trans h2.visible, h1.fixDur.trans h2.fixDur⟩

theorem Sw.fix_same : Sw.Same x.fix x := by
  unfold Sw.fix; split <;> exact ⟨rfl, rfl, rfl, rfl⟩
theorem Sw.updateFix_same : Sw.Same x.updateFix x := by
  unfold Sw.updateFix; split
  · split <;> exact ⟨rfl, rfl, rfl, rfl⟩
  · exact ⟨rfl, rfl, rfl, rfl⟩
theorem Sw.fixTick_same : Sw.Same x.fixTick x := by
  unfold Sw.fixTick; split
  · exact x.updateFix_same
  · exact .refl x
theorem Sw.auxTick_same : Sw.Same x.auxTick x := by
  unfold Sw.auxTick
  repeat' split
  all_goals exact ⟨rfl, rfl, rfl, rfl⟩
theorem Sw.tick_same : Sw.Same x.tick x := (x.fixTick.auxTick_same).trans x.fixTick_same
theorem Sw.wake_same : Sw.Same x.wake x := by
  unfold Sw.wake; split <;> exact ⟨rfl, rfl, rfl, rfl⟩
theorem Sw.startUp_same : Sw.Same x.startUp x := by
  have := x.wake_same
  unfold Sw.startUp
  repeat' split
  all_goals first | exact .refl x | exact ⟨this.name, this.isApp, this.visible, this.fixDur⟩
theorem Sw.shutDown_same : Sw.Same x.shutDown x := by
  unfold Sw.shutDown
  repeat' split
  all_goals exact ⟨rfl, rfl, rfl, rfl⟩
theorem Sw.install_same : Sw.Same x.install x := by
  unfold Sw.install; split <;> exact ⟨rfl, rfl, rfl, rfl⟩
theorem Sw.handle_same (r : SwReq) (hr : r ≠ .scan) : Sw.Same (x.handle r).1 x := by
  have hw := x.wake_same
  have hf := x.fix_same
  cases r <;> simp only [Sw.handle] <;> (try exact absurd rfl hr) <;> (repeat' split)
  all_goals first | exact .refl x | exact hf | exact ⟨rfl, rfl, rfl, rfl⟩ | exact ⟨hw.name, hw.isApp, hw.visible, hw.fixDur⟩

end sw

/-! ### item-wise effect on software -/

/-- effect of the boot half of the power phase on one item -/
def bootEff (n : Node) (x : Sw) : Sw :=
  if n.startCd > 0 then x else if n.power = .booting then x.startUp else x

/-- effect of `power_on` on one item -/
def powerOnEff (n : Node) (x : Sw) : Sw := if n.startDur ≤ 0 then x.startUp else x

/-- effect of the shut-down half (on a node whose boot half is done) -/
def shutEff (n : Node) (x : Sw) : Sw :=
  if n.shutCd > 0 then x
  else if n.power = .shuttingDown then (if n.resetting then powerOnEff n x.shutDown else x.shutDown) else x

/-- effect of the whole power phase of a tick on one item -/
def powerEff (n : Node) (x : Sw) : Sw := shutEff n.bootPhase (bootEff n x)

@[simp] theorem mapSws_sws (n : Node) (g) : (n.mapSws g).sws = n.sws.map g := rfl
@[simp] theorem mapSws_folders (n : Node) (g) : (n.mapSws g).folders = n.folders := rfl
@[simp] theorem mapSws_power (n : Node) (g) : (n.mapSws g).power = n.power := rfl
@[simp] theorem mapSws_scanCd (n : Node) (g) : (n.mapSws g).scanCd = n.scanCd := rfl
@[simp] theorem mapSws_resetting (n : Node) (g) : (n.mapSws g).resetting = n.resetting := rfl
@[simp] theorem mapSws_startDur (n : Node) (g) : (n.mapSws g).startDur = n.startDur := rfl
@[simp] theorem mapSws_startCd (n : Node) (g) : (n.mapSws g).startCd = n.startCd := rfl
@[simp] theorem mapSws_shutDur (n : Node) (g) : (n.mapSws g).shutDur = n.shutDur := rfl
@[simp] theorem mapSws_shutCd (n : Node) (g) : (n.mapSws g).shutCd = n.shutCd := rfl
@[simp] theorem mapSws_scanDur (n : Node) (g) : (n.mapSws g).scanDur = n.scanDur := rfl
@[simp] theorem mapFolders_sws (n : Node) (g) : (n.mapFolders g).sws = n.sws := rfl
@[simp] theorem mapFolders_folders (n : Node) (g) : (n.mapFolders g).folders = n.folders.map g := rfl
@[simp] theorem mapFolders_power (n : Node) (g) : (n.mapFolders g).power = n.power := rfl
@[simp] theorem mapFolders_scanCd (n : Node) (g) : (n.mapFolders g).scanCd = n.scanCd := rfl

theorem powerOn_sws (n : Node) : n.powerOn.sws = n.sws.map (powerOnEff n) := by
  unfold Node.powerOn powerOnEff
  split
  · simp
  · split <;> simp
theorem powerOn_folders (n : Node) : n.powerOn.folders = n.folders := by
  unfold Node.powerOn; repeat' split
  all_goals rfl

theorem bootPhase_sws (n : Node) : n.bootPhase.sws = n.sws.map (bootEff n) := by
  unfold Node.bootPhase bootEff
  split
  · simp
  · split <;> simp
theorem bootPhase_folders (n : Node) : n.bootPhase.folders = n.folders := by
  unfold Node.bootPhase; repeat' split
  all_goals rfl

theorem shutPhase_sws (n : Node) : n.shutPhase.sws = n.sws.map (shutEff n) := by
  unfold Node.shutPhase shutEff
  split
  · simp
  · split
    · simp only []
      split
      · rename_i h; simp only [mapSws_resetting] at h
        rw [powerOn_sws]; simp [powerOnEff, List.map_map, Function.comp_def, h]
      · rename_i h; simp only [mapSws_resetting] at h
        simp [h]
    · simp
theorem shutPhase_folders (n : Node) : n.shutPhase.folders = n.folders := by
  unfold Node.shutPhase
  split
  · rfl
  · split
    · simp only []
      split
      · rw [powerOn_folders]; rfl
      · rfl
    · rfl

theorem powerPhase_sws (n : Node) : n.powerPhase.sws = n.sws.map (powerEff n) := by
  unfold Node.powerPhase powerEff
  rw [shutPhase_sws, bootPhase_sws, List.map_map]; rfl
theorem powerPhase_folders (n : Node) : n.powerPhase.folders = n.folders := by
  unfold Node.powerPhase; rw [shutPhase_folders, bootPhase_folders]


theorem powerOff_sws (n : Node) : n.powerOff.sws = n.sws.map (fun x => if n.shutDur ≤ 0 then x.shutDown else x) := by
  unfold Node.powerOff
  split
  · simp
  · split <;> simp
theorem powerOff_folders (n : Node) : n.powerOff.folders = n.folders := by
  unfold Node.powerOff; repeat' split
  all_goals rfl

/-- the whole-node scan fans out in this tick (`m` = state after the power phase) -/
theorem scanPhase_sws (m : Node) : m.scanPhase.sws = m.sws.map (fun x => if m.scanCd = 1 then x.scan else x) := by
  unfold Node.scanPhase
  split
  · simp only []
    split
    · have : m.scanCd = 1 := by omega
      simp [this]
    · have : ¬ m.scanCd = 1 := by omega
      simp [this]
  · have : ¬ m.scanCd = 1 := by omega
    simp [this]
theorem scanPhase_folders (m : Node) :
    m.scanPhase.folders = m.folders.map (fun G => if m.scanCd = 1 then G.instantScan else G) := by
  unfold Node.scanPhase
  split
  · simp only []
    split
    · have : m.scanCd = 1 := by omega
      simp [this]
    · have : ¬ m.scanCd = 1 := by omega
      simp [this]
  · have : ¬ m.scanCd = 1 := by omega
    simp [this]

/-- effect of a tick on one software item -/
def tickEff (n : Node) (x : Sw) : Sw :=
  if n.powerPhase.power = .on then (if n.powerPhase.scanCd = 1 then (powerEff n x).scan else powerEff n x).tick
  else powerEff n x

theorem tick_sws (n : Node) : n.tick.sws = n.sws.map (tickEff n) := by
  unfold Node.tick tickEff
  simp only []
  split
  · simp only [Node.itemPhase, mapFolders_sws, mapSws_sws, scanPhase_sws, powerPhase_sws, List.map_map]
    apply List.map_congr_left
    intro x _
    simp only [Function.comp_def]
  · rw [powerPhase_sws]

/-- effect of a tick on one folder -/
def folderTickEff (n : Node) (G : Folder) : Folder :=
  if n.powerPhase.power = .on then
    (fun G1 : Folder => if G1.deleted then G1 else G1.tick) (if n.powerPhase.scanCd = 1 then G.instantScan else G)
  else G

theorem tick_folders (n : Node) : n.tick.folders = n.folders.map (folderTickEff n) := by
  unfold Node.tick folderTickEff
  simp only []
  split
  · simp only [Node.itemPhase, mapFolders_folders, mapSws_folders, scanPhase_folders, powerPhase_folders, List.map_map]
    apply List.map_congr_left
    intro x _
    simp only [Function.comp_def]
  · rw [powerPhase_folders]; simp

/-- effect of any operation on one software item -/
def swEff (n : Node) : Op → Sw → Sw
  | .tick => tickEff n
  | .shutdown | .reset => fun x => if n.power = .on then (if n.shutDur ≤ 0 then x.shutDown else x) else x
  | .startup => fun x => if n.power = .off then powerOnEff n x else x
  | .sw isApp name r => fun x => if n.power = .on then x.request isApp name r else x
  | .swSet name h => fun x => if x.name = name then x.setHealth h.toSwH else x
  | .appInstall name => fun x => if x.name = name then x.install else x
  | .appRun name => fun x => if n.power = .on then (if x.name = name ∧ x.isApp = true then x.startUp else x) else x
  | _ => fun x => x

theorem apply_sws (n : Node) (op : Op) : (n.apply op).sws = n.sws.map (swEff n op) := by
  cases op <;> simp only [Node.apply, swEff]
  case tick => exact tick_sws n
  case shutdown => split <;> simp [powerOff_sws]
  case startup => split <;> simp [powerOn_sws]
  case reset =>
    split
    · rw [powerOff_sws]
    · simp
  case osScan => split <;> simp
  case sw => split <;> simp
  case swSet => simp
  case appInstall => simp
  case appRun => split <;> simp
  all_goals (first | (split <;> simp [Node.mapLiveFolder, Node.mapFolder]) | simp [Node.mapLiveFolder, Node.mapFolder])

/-- effect of any operation on one folder -/
def folderEff (n : Node) : Op → Folder → Folder
  | .tick => folderTickEff n
  | .folder F r => fun G => if n.power = .on then (if G.name = F ∧ G.deleted = false then (G.handle r).1 else G) else G
  | .folderDelete F f | .fsDeleteFile F f =>
    fun G => if n.power = .on then (if G.name = F ∧ G.deleted = false then G.mapLiveFile f File.delete else G) else G
  | .file F f r =>
    fun G => if n.power = .on then
      (if G.name = F ∧ G.deleted = false then G.mapLiveFile f (fun x => (x.handle r).1) else G) else G
  | .fsDeleteFolder F =>
    fun G => if n.power = .on ∧ F ≠ "root" then (if G.name = F ∧ G.deleted = false then G.delete else G) else G
  | .fsRestoreFile F f =>
    fun G => if n.power = .on then (if G.name = F ∧ G.deleted = false then G.mapFile f File.restore else G) else G
  | .fsRestoreFolder F => fun G => if n.power = .on then (if G.name = F then G.restore else G) else G
  | .fileSet F f h => fun G => if G.name = F then G.mapFile f (fun x => { x with actual := h }) else G
  | _ => fun G => G

theorem apply_folders (n : Node) (op : Op) : (n.apply op).folders = n.folders.map (folderEff n op) := by
  cases op <;> simp only [Node.apply, folderEff]
  case tick => exact tick_folders n
  case shutdown => split <;> simp [powerOff_folders]
  case startup => split <;> simp [powerOn_folders]
  case reset =>
    split
    · rw [powerOff_folders]; simp
    · simp
  all_goals (first | (split <;> simp [Node.mapLiveFolder, Node.mapFolder]) | simp [Node.mapLiveFolder, Node.mapFolder])

end Primaite.Health
