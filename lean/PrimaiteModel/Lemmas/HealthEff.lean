/-
C14 helper lemmas: every operation of `Model.Health` acts item-wise —
`(n.apply op).sws = n.sws.map (swEff n op)`, `(n.apply op).folders = n.folders.map (folderEff n op)` —
and field-preservation facts of the primitive item functions.
-/
import PrimaiteModel.Model.Health
namespace Primaite.Health
set_option linter.unusedSimpArgs false

/-! ### primitive software functions: what they leave alone -/

section sw
variable (x : Sw)

@[simp] theorem Sw.setHealth_visible (h) : (x.setHealth h).visible = x.visible := rfl
@[simp] theorem Sw.setHealth_name (h) : (x.setHealth h).name = x.name := rfl
@[simp] theorem Sw.setHealth_isApp (h) : (x.setHealth h).isApp = x.isApp := rfl
@[simp] theorem Sw.setHealth_actual (h) : (x.setHealth h).actual = h := rfl
@[simp] theorem Sw.setHealth_op (h) : (x.setHealth h).op = x.op := rfl
@[simp] theorem Sw.setHealth_fixCd (h) : (x.setHealth h).fixCd = x.fixCd := rfl
@[simp] theorem Sw.setHealth_fixDur (h) : (x.setHealth h).fixDur = x.fixDur := rfl
@[simp] theorem Sw.setHealth_auxCd (h) : (x.setHealth h).auxCd = x.auxCd := rfl

@[simp] theorem Sw.scan_visible : x.scan.visible = x.actual := rfl
@[simp] theorem Sw.scan_actual : x.scan.actual = x.actual := rfl
@[simp] theorem Sw.scan_name : x.scan.name = x.name := rfl
@[simp] theorem Sw.scan_isApp : x.scan.isApp = x.isApp := rfl
@[simp] theorem Sw.scan_op : x.scan.op = x.op := rfl
@[simp] theorem Sw.scan_fixCd : x.scan.fixCd = x.fixCd := rfl
@[simp] theorem Sw.scan_fixDur : x.scan.fixDur = x.fixDur := rfl
@[simp] theorem Sw.scan_auxCd : x.scan.auxCd = x.auxCd := rfl

/-- the fields no operation other than `scan` touches, and the identity fields nothing touches -/
structure Sw.Same (y x : Sw) : Prop where
  name : y.name = x.name
  isApp : y.isApp = x.isApp
  visible : y.visible = x.visible
  fixDur : y.fixDur = x.fixDur

theorem Sw.Same.refl : Sw.Same x x := ⟨rfl, rfl, rfl, rfl⟩
theorem Sw.Same.trans {a b c : Sw} (h1 : Sw.Same a b) (h2 : Sw.Same b c) : Sw.Same a c :=
  ⟨h1.name.trans h2.name, h1.isApp.trans h2.isApp, h1.visible.trans h2.visible, h1.fixDur.trans h2.fixDur⟩

theorem Sw.fix_same : Sw.Same x.fix x := by
  unfold Sw.fix; split <;> exact ⟨rfl, rfl, rfl, rfl⟩
theorem Sw.updateFix_same : Sw.Same x.updateFix x := by
  unfold Sw.updateFix; split
  · split <;> exact ⟨rfl, rfl, rfl, rfl⟩
  · exact ⟨rfl, rfl, rfl, rfl⟩
theorem Sw.fixTick_same : Sw.Same x.fixTick x := by
  unfold Sw.fixTick; split
  · exact x.updateFix_same
  · exact .refl x
theorem Sw.auxTick_same : Sw.Same x.auxTick x := by
  unfold Sw.auxTick
  repeat' split
  all_goals exact ⟨rfl, rfl, rfl, rfl⟩
theorem Sw.tick_same : Sw.Same x.tick x := (x.fixTick.auxTick_same).trans x.fixTick_same
theorem Sw.wake_same : Sw.Same x.wake x := by
  unfold Sw.wake; split <;> exact ⟨rfl, rfl, rfl, rfl⟩
theorem Sw.startUp_same : Sw.Same x.startUp x := by
  have := x.wake_same
  unfold Sw.startUp
  repeat' split
  all_goals first | exact .refl x | exact ⟨this.name, this.isApp, this.visible, this.fixDur⟩
theorem Sw.shutDown_same : Sw.Same x.shutDown x := by
  unfold Sw.shutDown
  repeat' split
  all_goals exact ⟨rfl, rfl, rfl, rfl⟩
theorem Sw.install_same : Sw.Same x.install x := by
  unfold Sw.install; split <;> exact ⟨rfl, rfl, rfl, rfl⟩
theorem Sw.handle_same (r : SwReq) (hr : r ≠ .scan) : Sw.Same (x.handle r).1 x := by
  have hw := x.wake_same
  have hf := x.fix_same
  cases r <;> simp only [Sw.handle] <;> (try exact absurd rfl hr) <;> (repeat' split)
  all_goals first | exact .refl x | exact hf | exact ⟨rfl, rfl, rfl, rfl⟩ | exact ⟨hw.name, hw.isApp, hw.visible, hw.fixDur⟩

end sw

/-! ### item-wise effect on software -/

/-- effect of the boot half of the power phase on one item -/
def bootEff (n : Node) (x : Sw) : Sw :=
  if n.startCd > 0 then x else if n.power = .booting then x.startUp else x

/-- effect of `power_on` on one item -/
def powerOnEff (n : Node) (x : Sw) : Sw := if n.startDur ≤ 0 then x.startUp else x

/-- effect of `Node.offNow` (shut-down actions; immediate `power_on` when resetting) on one item -/
def offNowEff (n : Node) (x : Sw) : Sw := if n.resetting then powerOnEff n x.shutDown else x.shutDown

/-- effect of the shut-down half (on a node whose boot half is done) -/
def shutEff (n : Node) (x : Sw) : Sw :=
  if n.shutCd > 0 then x
  else if n.power = .shuttingDown then offNowEff n x else x

/-- effect of the whole power phase of a tick on one item -/
def powerEff (n : Node) (x : Sw) : Sw := shutEff n.bootPhase (bootEff n x)

@[simp] theorem mapSws_sws (n : Node) (g) : (n.mapSws g).sws = n.sws.map g := rfl
@[simp] theorem mapSws_folders (n : Node) (g) : (n.mapSws g).folders = n.folders := rfl
@[simp] theorem mapSws_power (n : Node) (g) : (n.mapSws g).power = n.power := rfl
@[simp] theorem mapSws_scanCd (n : Node) (g) : (n.mapSws g).scanCd = n.scanCd := rfl
@[simp] theorem mapSws_resetting (n : Node) (g) : (n.mapSws g).resetting = n.resetting := rfl
@[simp] theorem mapSws_startDur (n : Node) (g) : (n.mapSws g).startDur = n.startDur := rfl
@[simp] theorem mapSws_startCd (n : Node) (g) : (n.mapSws g).startCd = n.startCd := rfl
@[simp] theorem mapSws_shutDur (n : Node) (g) : (n.mapSws g).shutDur = n.shutDur := rfl
@[simp] theorem mapSws_shutCd (n : Node) (g) : (n.mapSws g).shutCd = n.shutCd := rfl
@[simp] theorem mapSws_scanDur (n : Node) (g) : (n.mapSws g).scanDur = n.scanDur := rfl
@[simp] theorem mapFolders_sws (n : Node) (g) : (n.mapFolders g).sws = n.sws := rfl
@[simp] theorem mapFolders_folders (n : Node) (g) : (n.mapFolders g).folders = n.folders.map g := rfl
@[simp] theorem mapFolders_power (n : Node) (g) : (n.mapFolders g).power = n.power := rfl
@[simp] theorem mapFolders_scanCd (n : Node) (g) : (n.mapFolders g).scanCd = n.scanCd := rfl

theorem powerOn_sws (n : Node) : n.powerOn.sws = n.sws.map (powerOnEff n) := by
  unfold Node.powerOn powerOnEff
  split
  · simp
  · split <;> simp
theorem powerOn_folders (n : Node) : n.powerOn.folders = n.folders := by
  unfold Node.powerOn; (repeat' split) <;> rfl

theorem bootPhase_sws (n : Node) : n.bootPhase.sws = n.sws.map (bootEff n) := by
  unfold Node.bootPhase bootEff
  split
  · simp
  · split <;> simp
theorem bootPhase_folders (n : Node) : n.bootPhase.folders = n.folders := by
  unfold Node.bootPhase; (repeat' split) <;> rfl

theorem offNow_sws (n : Node) : n.offNow.sws = n.sws.map (offNowEff n) := by
  unfold Node.offNow offNowEff
  simp only []
  split
  · rename_i h; simp only [mapSws_resetting] at h
    rw [powerOn_sws]; simp [powerOnEff, List.map_map, Function.comp_def, h]
  · rename_i h; simp only [mapSws_resetting] at h
    simp [h]
theorem offNow_folders (n : Node) : n.offNow.folders = n.folders := by
  unfold Node.offNow
  simp only []
  split
  · rw [powerOn_folders]; rfl
  · rfl

theorem shutPhase_sws (n : Node) : n.shutPhase.sws = n.sws.map (shutEff n) := by
  unfold Node.shutPhase shutEff
  split
  · simp
  · split
    · exact offNow_sws n
    · simp
theorem shutPhase_folders (n : Node) : n.shutPhase.folders = n.folders := by
  unfold Node.shutPhase
  split
  · rfl
  · split
    · exact offNow_folders n
    · rfl

theorem powerPhase_sws (n : Node) : n.powerPhase.sws = n.sws.map (powerEff n) := by
  unfold Node.powerPhase powerEff
  rw [shutPhase_sws, bootPhase_sws, List.map_map]; rfl
theorem powerPhase_folders (n : Node) : n.powerPhase.folders = n.folders := by
  unfold Node.powerPhase; rw [shutPhase_folders, bootPhase_folders]


theorem powerOff_sws (n : Node) : n.powerOff.sws = n.sws.map (fun x => if n.shutDur ≤ 0 then offNowEff n x else x) := by
  unfold Node.powerOff
  split
  · rw [offNow_sws]
  · split <;> simp
theorem powerOff_folders (n : Node) : n.powerOff.folders = n.folders := by
  unfold Node.powerOff
  split
  · exact offNow_folders n
  · split <;> rfl

/-- the whole-node scan fans out in this tick (`m` = state after the power phase) -/
theorem scanPhase_sws (m : Node) : m.scanPhase.sws = m.sws.map (fun x => if m.scanCd = 1 then x.scan else x) := by
  unfold Node.scanPhase
  split
  · simp only []
    split
    · have : m.scanCd = 1 := by omega
      simp [this]
    · have : ¬ m.scanCd = 1 := by omega
      simp [this]
  · have : ¬ m.scanCd = 1 := by omega
    simp [this]
theorem scanPhase_folders (m : Node) :
    m.scanPhase.folders = m.folders.map (fun G => if m.scanCd = 1 then G.instantScan else G) := by
  unfold Node.scanPhase
  split
  · simp only []
    split
    · have : m.scanCd = 1 := by omega
      simp [this]
    · have : ¬ m.scanCd = 1 := by omega
      simp [this]
  · have : ¬ m.scanCd = 1 := by omega
    simp [this]

@[simp] theorem redPhase_sws (m : Node) : m.redPhase.sws = m.sws := by unfold Node.redPhase; split <;> rfl
@[simp] theorem redPhase_folders (m : Node) : m.redPhase.folders = m.folders := by unfold Node.redPhase; split <;> rfl
@[simp] theorem redPhase_scanCd (m : Node) : m.redPhase.scanCd = m.scanCd := by unfold Node.redPhase; split <;> rfl
@[simp] theorem redPhase_power (m : Node) : m.redPhase.power = m.power := by unfold Node.redPhase; split <;> rfl

/-- effect of a tick on one software item -/
def tickEff (n : Node) (x : Sw) : Sw :=
  if n.powerPhase.power = .on then (if n.powerPhase.scanCd = 1 then (powerEff n x).scan else powerEff n x).tick
  else powerEff n x

theorem tick_sws (n : Node) : n.tick.sws = n.sws.map (tickEff n) := by
  unfold Node.tick tickEff
  simp only []
  split
  · simp only [Node.itemPhase, mapFolders_sws, mapSws_sws, redPhase_sws, scanPhase_sws, powerPhase_sws, List.map_map]
    apply List.map_congr_left
    intro x _
    simp only [Function.comp_def]
  · rw [powerPhase_sws]

/-- effect of a tick on one folder -/
def folderTickEff (n : Node) (G : Folder) : Folder :=
  if n.powerPhase.power = .on then
    (fun G1 : Folder => if G1.deleted then G1 else G1.tick) (if n.powerPhase.scanCd = 1 then G.instantScan else G)
  else G

theorem tick_folders (n : Node) : n.tick.folders = n.folders.map (folderTickEff n) := by
  unfold Node.tick folderTickEff
  simp only []
  split
  · simp only [Node.itemPhase, mapFolders_folders, mapSws_folders, redPhase_folders, scanPhase_folders, powerPhase_folders, List.map_map]
    apply List.map_congr_left
    intro x _
    simp only [Function.comp_def]
  · rw [powerPhase_folders]; simp

/-- effect of any operation on one software item -/
def swEff (n : Node) : Op → Sw → Sw
  | .tick => tickEff n
  | .shutdown => fun x => if n.power = .on then (if n.shutDur ≤ 0 then offNowEff n x else x) else x
  | .reset => fun x => if n.power = .on then (if n.shutDur ≤ 0 then powerOnEff n x.shutDown else x) else x
  | .startup => fun x => if n.power = .off then powerOnEff n x else x
  | .sw isApp name r => fun x => if n.power = .on then x.request isApp name r else x
  | .swSet name h => fun x => if x.name = name then x.setHealth h.toSwH else x
  | .appInstall name => fun x => if x.name = name then x.install else x
  | .appRun name => fun x => if n.power = .on then (if x.name = name ∧ x.isApp = true then x.startUp else x) else x
  | _ => fun x => x

theorem apply_sws (n : Node) (op : Op) : (n.apply op).sws = n.sws.map (swEff n op) := by
  cases op <;> simp only [Node.apply, swEff]
  case tick => exact tick_sws n
  case shutdown => split <;> simp [powerOff_sws]
  case startup => split <;> simp [powerOn_sws]
  case reset =>
    split
    · rw [powerOff_sws]; rfl
    · simp
  case osScan => split <;> simp
  case sw => split <;> simp
  case swSet => simp
  case appInstall => simp
  case appRun => split <;> simp
  all_goals (first | (split <;> simp [Node.mapLiveFolder, Node.mapFolder]) | simp [Node.mapLiveFolder, Node.mapFolder])

/-- effect of any operation on one folder -/
def folderEff (n : Node) : Op → Folder → Folder
  | .tick => folderTickEff n
  | .folder F r => fun G => if n.power = .on then (if G.name = F ∧ G.deleted = false then (G.handle r).1 else G) else G
  | .folderDelete F f | .fsDeleteFile F f =>
    fun G => if n.power = .on then (if G.name = F ∧ G.deleted = false then G.delLive f else G) else G
  | .file F f r =>
    fun G => if n.power = .on then
      (if G.name = F ∧ G.deleted = false then G.mapLiveFile f (fun x => (x.handle r).1) else G) else G
  | .fsDeleteFolder F =>
    fun G => if n.power = .on ∧ F ≠ "root" then (if G.name = F ∧ G.deleted = false then G.deleteAt (n.fdelCtr + 1) else G) else G
  | .fsRestoreFile F f =>
    fun G => if n.power = .on then (if G.name = F ∧ G.deleted = false then G.mapFile f (File.restoreIn G.files) else G) else G
  | .fsRestoreFolder F => fun G => if n.power = .on then (if G.name = F then Folder.restoreIn n.folders G else G) else G
  | .fileSet F f h => fun G => if G.name = F then G.mapFile f (fun x => { x with actual := h }) else G
  | _ => fun G => G

theorem apply_folders (n : Node) (op : Op) : (n.apply op).folders = n.folders.map (folderEff n op) := by
  cases op <;> simp only [Node.apply, folderEff]
  case tick => exact tick_folders n
  case shutdown => split <;> simp [powerOff_folders]
  case startup => split <;> simp [powerOn_folders]
  case reset =>
    split
    · rw [powerOff_folders]; simp
    · simp
  all_goals (first | (split <;> simp [Node.mapLiveFolder, Node.mapFolder]) | simp [Node.mapLiveFolder, Node.mapFolder])


/-! ### folders and files -/

section file
variable (f : File)
@[simp] theorem File.scan_name : f.scan.name = f.name := by unfold File.scan; split <;> rfl
@[simp] theorem File.scan_actual : f.scan.actual = f.actual := by unfold File.scan; split <;> rfl
@[simp] theorem File.scan_deleted : f.scan.deleted = f.deleted := by unfold File.scan; split <;> rfl
theorem File.scan_visible : f.scan.visible = if f.deleted then f.visible else f.actual := by
  unfold File.scan; split <;> rfl
@[simp] theorem File.repair_name : f.repair.name = f.name := by unfold File.repair; (repeat' split) <;> rfl
@[simp] theorem File.repair_visible : f.repair.visible = f.visible := by unfold File.repair; (repeat' split) <;> rfl
@[simp] theorem File.repair_deleted : f.repair.deleted = f.deleted := by unfold File.repair; (repeat' split) <;> rfl
@[simp] theorem File.corrupt_name : f.corrupt.name = f.name := by unfold File.corrupt; (repeat' split) <;> rfl
@[simp] theorem File.corrupt_visible : f.corrupt.visible = f.visible := by unfold File.corrupt; (repeat' split) <;> rfl
@[simp] theorem File.corrupt_deleted : f.corrupt.deleted = f.deleted := by unfold File.corrupt; (repeat' split) <;> rfl
@[simp] theorem File.restore_name : f.restore.name = f.name := by unfold File.restore; (repeat' split) <;> rfl
@[simp] theorem File.restore_visible : f.restore.visible = f.visible := by unfold File.restore; (repeat' split) <;> rfl
@[simp] theorem File.restore_deleted : f.restore.deleted = false := by
  unfold File.restore
  split
  · rfl
  · rename_i h; split <;> simpa using h
@[simp] theorem File.deleteAt_name (s : Nat) : (f.deleteAt s).name = f.name := by unfold File.deleteAt; split <;> rfl
@[simp] theorem File.deleteAt_visible (s : Nat) : (f.deleteAt s).visible = f.visible := by unfold File.deleteAt; split <;> rfl
@[simp] theorem File.deleteAt_actual (s : Nat) : (f.deleteAt s).actual = f.actual := by unfold File.deleteAt; split <;> rfl
@[simp] theorem File.deleteAt_deleted (s : Nat) : (f.deleteAt s).deleted = true := by
  unfold File.deleteAt; split
  · assumption
  · rfl
@[simp] theorem File.scan_delSeq : f.scan.delSeq = f.delSeq := by unfold File.scan; split <;> rfl
theorem File.handle_name (r) : (f.handle r).1.name = f.name := by cases r <;> simp [File.handle]
theorem File.handle_visible (r) (hr : r ≠ .scan) : (f.handle r).1.visible = f.visible := by
  cases r <;> first | exact absurd rfl hr | simp [File.handle]
end file

section folder
variable (G : Folder)

theorem Folder.instantScan_files : G.instantScan.files = if G.deleted then G.files else G.files.map File.scan := by
  unfold Folder.instantScan; split <;> rfl
@[simp] theorem Folder.instantScan_deleted : G.instantScan.deleted = G.deleted := by
  unfold Folder.instantScan; split <;> rfl
@[simp] theorem Folder.instantScan_name : G.instantScan.name = G.name := by
  unfold Folder.instantScan; split <;> rfl
@[simp] theorem Folder.instantScan_scanCd : G.instantScan.scanCd = G.scanCd := by
  unfold Folder.instantScan; split <;> rfl
@[simp] theorem Folder.instantScan_restoreCd : G.instantScan.restoreCd = G.restoreCd := by
  unfold Folder.instantScan; split <;> rfl
@[simp] theorem Folder.instantScan_actual : G.instantScan.actual = G.actual := by
  unfold Folder.instantScan; split <;> rfl
@[simp] theorem Folder.instantScan_durs :
    G.instantScan.scanDur = G.scanDur ∧ G.instantScan.restoreDur = G.restoreDur := by
  unfold Folder.instantScan; split <;> exact ⟨rfl, rfl⟩
theorem Folder.instantScan_visible :
    G.instantScan.visible = if G.deleted = false ∧ anyLiveCorrupt G.files = true then .corrupt else G.visible := by
  unfold Folder.instantScan
  cases hd : G.deleted <;> simp

theorem Folder.scanTick_files : G.scanTick.files = if G.scanCd = 1 then G.files.map File.scan else G.files := by
  unfold Folder.scanTick
  split
  · split
    · have : G.scanCd = 1 := by omega
      simp [this]
    · have : ¬ G.scanCd = 1 := by omega
      simp [this]
  · have : ¬ G.scanCd = 1 := by omega
    simp [this]
theorem Folder.scanTick_scanCd : G.scanTick.scanCd = if G.scanCd ≥ 0 then G.scanCd - 1 else G.scanCd := by
  unfold Folder.scanTick
  split
  · split
    · simp only []; omega
    · rfl
  · rfl
theorem Folder.scanTick_visible : G.scanTick.visible = if G.scanCd = 1 then worstLive G.files else G.visible := by
  unfold Folder.scanTick
  split
  · split
    · have : G.scanCd = 1 := by omega
      simp [this]
    · have : ¬ G.scanCd = 1 := by omega
      simp [this]
  · have : ¬ G.scanCd = 1 := by omega
    simp [this]
theorem Folder.scanTick_actual : G.scanTick.actual = if G.scanCd = 1 then worstLive G.files else G.actual := by
  unfold Folder.scanTick
  split
  · split
    · have : G.scanCd = 1 := by omega
      simp [this]
    · have : ¬ G.scanCd = 1 := by omega
      simp [this]
  · have : ¬ G.scanCd = 1 := by omega
    simp [this]
theorem Folder.scanTick_rest :
    G.scanTick.name = G.name ∧ G.scanTick.deleted = G.deleted ∧ G.scanTick.restoreCd = G.restoreCd ∧
    G.scanTick.scanDur = G.scanDur ∧ G.scanTick.restoreDur = G.restoreDur := by
  unfold Folder.scanTick; repeat' split
  all_goals exact ⟨rfl, rfl, rfl, rfl, rfl⟩

theorem Folder.restoreFinish_rest :
    G.restoreFinish.name = G.name ∧ G.restoreFinish.visible = G.visible ∧ G.restoreFinish.scanCd = G.scanCd ∧
    G.restoreFinish.scanDur = G.scanDur ∧ G.restoreFinish.restoreDur = G.restoreDur ∧
    G.restoreFinish.restoreCd = G.restoreCd ∧ G.restoreFinish.files = G.files := by
  unfold Folder.restoreFinish; (repeat' split) <;> exact ⟨rfl, rfl, rfl, rfl, rfl, rfl, rfl⟩
theorem Folder.restoreFinish_deleted : G.restoreFinish.deleted = false := by
  unfold Folder.restoreFinish
  split
  · rfl
  · rename_i h; split <;> simpa using h
theorem Folder.restoreFinish_actual :
    G.restoreFinish.actual =
      if G.deleted = false ∧ (G.actual = .corrupt ∨ G.actual = .restoring) then .good else G.actual := by
  unfold Folder.restoreFinish
  cases hd : G.deleted
  · simp only [Bool.false_eq_true, if_false, true_and]
    split <;> rfl
  · simp

theorem Folder.restoreTick_files :
    G.restoreTick.files = if G.restoreCd = 1 then G.files.map (File.restoreAll G.files) else G.files := by
  unfold Folder.restoreTick
  split
  · split
    · have : G.restoreCd = 1 := by omega
      rw [(Folder.restoreFinish_rest _).2.2.2.2.2.2]; simp [this]
    · have : ¬ G.restoreCd = 1 := by omega
      simp [this]
  · have : ¬ G.restoreCd = 1 := by omega
    simp [this]
theorem Folder.restoreTick_restoreCd :
    G.restoreTick.restoreCd = if G.restoreCd ≥ 0 then G.restoreCd - 1 else G.restoreCd := by
  unfold Folder.restoreTick
  split
  · split
    · rw [(Folder.restoreFinish_rest _).2.2.2.2.2.1]; simp only []; omega
    · rfl
  · rfl
theorem Folder.restoreTick_rest :
    G.restoreTick.name = G.name ∧ G.restoreTick.visible = G.visible ∧ G.restoreTick.scanCd = G.scanCd ∧
    G.restoreTick.scanDur = G.scanDur ∧ G.restoreTick.restoreDur = G.restoreDur := by
  unfold Folder.restoreTick
  split
  · split
    · have h := Folder.restoreFinish_rest { G with restoreCd := 0, files := G.files.map (File.restoreAll G.files) }
      exact ⟨h.1, h.2.1, h.2.2.1, h.2.2.2.1, h.2.2.2.2.1⟩
    · exact ⟨rfl, rfl, rfl, rfl, rfl⟩
  · exact ⟨rfl, rfl, rfl, rfl, rfl⟩
/-- a live folder stays live through its restore tick -/
theorem Folder.restoreTick_deleted (h : G.deleted = false) : G.restoreTick.deleted = false := by
  unfold Folder.restoreTick
  split
  · split
    · exact Folder.restoreFinish_deleted _
    · exact h
  · exact h
theorem Folder.restoreTick_actual :
    G.restoreTick.actual =
      if G.restoreCd = 1 ∧ G.deleted = false ∧ (G.actual = .corrupt ∨ G.actual = .restoring) then .good else G.actual := by
  unfold Folder.restoreTick
  split
  · split
    · have h1 : G.restoreCd = 1 := by omega
      rw [Folder.restoreFinish_actual]; simp [h1]
    · have : ¬ G.restoreCd = 1 := by omega
      simp [this]
  · have : ¬ G.restoreCd = 1 := by omega
    simp [this]

theorem worstLive_map_scan (fs : List File) : worstLive (fs.map File.scan) = worstLive fs := by
  induction fs with
  | nil => rfl
  | cons f fs ih => simp [worstLive, ih]

theorem anyLiveCorrupt_map_scan (fs : List File) : anyLiveCorrupt (fs.map File.scan) = anyLiveCorrupt fs := by
  simp [anyLiveCorrupt, List.any_map, Function.comp_def]

end folder


theorem Folder.restoreIn_cases (fo : List Folder) (G : Folder) :
    Folder.restoreIn fo G = G ∨ Folder.restoreIn fo G = G.restore := by
  unfold Folder.restoreIn; (repeat' split) <;> first | exact Or.inl rfl | exact Or.inr rfl

/-! ### item-wise effect on files -/

/-- effect of any operation on one file `f` of folder `G` -/
def fileEff (n : Node) (op : Op) (G : Folder) : File → File :=
  match op with
  | .tick => fun f =>
    if n.powerPhase.power = .on ∧ G.deleted = false then
      (fun f2 : File => if G.restoreCd = 1 then File.restoreAll G.files f2 else f2)
        ((fun f1 : File => if G.scanCd = 1 then f1.scan else f1) (if n.powerPhase.scanCd = 1 then f.scan else f))
    else f
  | .folder F r => fun f =>
    if n.power = .on ∧ G.name = F ∧ G.deleted = false then
      (match r with
       | .repair => f.repair
       | .corrupt => f.corrupt
       | _ => f)
    else f
  | .folderDelete F nm | .fsDeleteFile F nm => fun f =>
    if n.power = .on ∧ G.name = F ∧ G.deleted = false ∧ f.name = nm ∧ f.deleted = false then f.deleteAt (G.delCtr + 1) else f
  | .file F nm r => fun f =>
    if n.power = .on ∧ G.name = F ∧ G.deleted = false ∧ f.name = nm ∧ f.deleted = false then (f.handle r).1 else f
  | .fsDeleteFolder F => fun f => if n.power = .on ∧ F ≠ "root" ∧ G.name = F ∧ G.deleted = false then f.deleteAt (G.delCtr + 1) else f
  | .fsRestoreFile F nm => fun f =>
    if n.power = .on ∧ G.name = F ∧ G.deleted = false ∧ f.name = nm then File.restoreIn G.files f else f
  | .fileSet F nm h => fun f => if G.name = F ∧ f.name = nm then { f with actual := h } else f
  | _ => fun f => f

theorem hasLive_map (name : String) (fs : List File) (g : File → File)
    (hg : ∀ x, (g x).name = x.name ∧ (g x).deleted = x.deleted) : hasLive name (fs.map g) = hasLive name fs := by
  unfold hasLive
  rw [List.any_map]
  congr 1
  funext x
  simp only [Function.comp, (hg x).1, (hg x).2]

theorem firstDeleted_map (fs : List File) (g : File → File) (x : File)
    (hg : ∀ y, (g y).name = y.name ∧ (g y).deleted = y.deleted ∧ (g y).delSeq = y.delSeq) :
    firstDeleted (fs.map g) x = firstDeleted fs x := by
  unfold firstDeleted
  rw [List.all_map]
  congr 1
  funext y
  simp only [Function.comp, (hg y).1, (hg y).2.1, (hg y).2.2]

theorem deadTwin_map (fs : List File) (g : File → File) (x : File)
    (hg : ∀ y, (g y).name = y.name ∧ (g y).deleted = y.deleted) : deadTwin (fs.map g) x = deadTwin fs x := by
  unfold deadTwin
  rw [List.filter_map, List.length_map]
  have : ((fun y : File => decide (y.name = x.name) && y.deleted) ∘ g) = (fun y : File => decide (y.name = x.name) && y.deleted) := by
    funext y
    simp only [Function.comp, (hg y).1, (hg y).2]
  rw [this]

@[simp] theorem File.restoreIn_name (fs : List File) (x : File) : (File.restoreIn fs x).name = x.name := by
  unfold File.restoreIn; (repeat' split) <;> simp
@[simp] theorem File.restoreIn_visible (fs : List File) (x : File) : (File.restoreIn fs x).visible = x.visible := by
  unfold File.restoreIn; (repeat' split) <;> simp
@[simp] theorem File.restoreAll_name (fs : List File) (x : File) : (File.restoreAll fs x).name = x.name := by
  unfold File.restoreAll; (repeat' split) <;> simp
@[simp] theorem File.restoreAll_visible (fs : List File) (x : File) : (File.restoreAll fs x).visible = x.visible := by
  unfold File.restoreAll; (repeat' split) <;> simp
theorem File.restoreIn_live (fs : List File) (x : File) (h : x.deleted = false) : File.restoreIn fs x = x.restore := by
  unfold File.restoreIn; simp [h]
theorem File.restoreAll_live (fs : List File) (x : File) (h : x.deleted = false) : File.restoreAll fs x = x.restore := by
  unfold File.restoreAll; simp [h]
/-- scanning the files (the node scan / the folder's own scan earlier in the same timestep) does not change which file a restore by
name reaches -/
theorem File.restoreAll_scan (fs : List File) (x : File) : File.restoreAll (fs.map File.scan) x = File.restoreAll fs x := by
  unfold File.restoreAll
  rw [hasLive_map x.name fs File.scan (fun y => ⟨y.scan_name, y.scan_deleted⟩),
    firstDeleted_map fs File.scan x (fun y => ⟨y.scan_name, y.scan_deleted, y.scan_delSeq⟩),
    deadTwin_map fs File.scan x (fun y => ⟨y.scan_name, y.scan_deleted⟩)]

theorem Folder.tick_files (G : Folder) :
    G.tick.files = G.files.map (fun f => (fun f2 : File => if G.restoreCd = 1 then File.restoreAll G.files f2 else f2)
      (if G.scanCd = 1 then f.scan else f)) := by
  unfold Folder.tick
  rw [Folder.restoreTick_files, (Folder.scanTick_rest G).2.2.1, Folder.scanTick_files]
  by_cases h1 : G.restoreCd = 1 <;> by_cases h2 : G.scanCd = 1 <;> simp only [h1, h2, if_true, if_false, List.map_map]
  · apply List.map_congr_left
    intro f _
    exact File.restoreAll_scan _ _
  · simp

theorem folderEff_files (n : Node) (op : Op) (G : Folder) :
    (folderEff n op G).files = G.files.map (fileEff n op G) := by
  cases op <;> simp only [folderEff, fileEff]
  case tick =>
    unfold folderTickEff
    by_cases hon : n.powerPhase.power = .on
    · by_cases hd : G.deleted = true
      · have hd' : ¬ G.deleted = false := by simp [hd]
        by_cases hs : n.powerPhase.scanCd = 1
        · simp [hon, hs, hd, Folder.instantScan_files]
        · simp [hon, hs, hd]
      · have hd' : G.deleted = false := by simpa using hd
        by_cases hs : n.powerPhase.scanCd = 1
        · simp only [hon, hs, if_true, Folder.instantScan_deleted, hd', Bool.false_eq_true, if_false, true_and]
          rw [Folder.tick_files, Folder.instantScan_files]
          simp [hd']
          intro a _
          rw [File.restoreAll_scan]
        · simp only [hon, hs, if_true, if_false, hd', Bool.false_eq_true, true_and]
          rw [Folder.tick_files]
    · simp [hon]
  case folder F r =>
    by_cases h : n.power = .on
    · by_cases h2 : G.name = F ∧ G.deleted = false
      · simp only [h, h2, and_self, if_true]
        cases r <;> simp [Folder.handle, Folder.scan, Folder.repair, Folder.restore, Folder.corrupt, h2.2]
        · split <;> rfl
        · split <;> rfl
      · have : ¬ (n.power = .on ∧ G.name = F ∧ G.deleted = false) := fun h3 => h2 h3.2
        simp [h, h2, this]
    · simp [h]
  case folderDelete F nm =>
    by_cases h : n.power = .on <;> by_cases hn : G.name = F <;> by_cases hd : G.deleted = false <;>
      simp [h, hn, hd, Folder.mapLiveFile, Folder.delLive]
  case fsDeleteFile F nm =>
    by_cases h : n.power = .on <;> by_cases hn : G.name = F <;> by_cases hd : G.deleted = false <;>
      simp [h, hn, hd, Folder.mapLiveFile, Folder.delLive]
  case file F nm r =>
    by_cases h : n.power = .on <;> by_cases hn : G.name = F <;> by_cases hd : G.deleted = false <;>
      simp [h, hn, hd, Folder.mapLiveFile]
  case fsDeleteFolder F =>
    by_cases h : n.power = .on <;> by_cases hn : G.name = F <;> by_cases hd : G.deleted = false <;>
      by_cases hr : F = "root" <;> simp [h, hn, hd, hr, Folder.delete, Folder.deleteAt]
  case fsRestoreFile F nm =>
    by_cases h : n.power = .on <;> by_cases hn : G.name = F <;> by_cases hd : G.deleted = false <;>
      simp [h, hn, hd, Folder.mapFile, mapNamed]
  case fsRestoreFolder F =>
    by_cases h : n.power = .on <;> by_cases hn : G.name = F <;> simp [h, hn]
    rcases Folder.restoreIn_cases n.folders G with e | e <;> rw [e]
    unfold Folder.restore; split <;> rfl
  case fileSet F nm hh =>
    by_cases hn : G.name = F <;> simp [hn, Folder.mapFile, mapNamed]
  all_goals simp


/-! ### what the power phase can do to a software item -/

/-- start-up / shut-down actions only move the operating state between RUNNING and STOPPED/CLOSED (never into or out
of INSTALLING / RESTARTING bookkeeping) and can only turn UNUSED into GOOD. -/
structure Sw.PowerRel (y x : Sw) : Prop where
  same : Sw.Same y x
  fixCd : y.fixCd = x.fixCd
  auxCd : y.auxCd = x.auxCd
  auxDur : y.auxDur = x.auxDur
  installing : y.op = .installing ↔ x.op = .installing
  actual : y.actual = x.actual ∨ (x.actual = .unused ∧ y.actual = .good)

theorem Sw.PowerRel.refl (x : Sw) : Sw.PowerRel x x := ⟨.refl x, rfl, rfl, rfl, Iff.rfl, Or.inl rfl⟩
theorem Sw.PowerRel.trans {a b c : Sw} (h1 : Sw.PowerRel a b) (h2 : Sw.PowerRel b c) : Sw.PowerRel a c := by
  refine ⟨h1.same.trans h2.same, h1.fixCd.trans h2.fixCd, h1.auxCd.trans h2.auxCd, h1.auxDur.trans h2.auxDur,
    h1.installing.trans h2.installing, ?_⟩
  rcases h2.actual with e2 | ⟨u2, g2⟩
  · rcases h1.actual with e1 | ⟨u1, g1⟩
    · exact Or.inl (e1.trans e2)
    · exact Or.inr ⟨e2 ▸ u1, g1⟩
  · rcases h1.actual with e1 | ⟨u1, _⟩
    · exact Or.inr ⟨u2, e1.trans g2⟩
    · rw [g2] at u1; cases u1

theorem Sw.wake_rel (x : Sw) : Sw.PowerRel x.wake x := by
  unfold Sw.wake
  split
  · rename_i h; exact ⟨⟨rfl, rfl, rfl, rfl⟩, rfl, rfl, rfl, Iff.rfl, Or.inr ⟨h, rfl⟩⟩
  · exact .refl x

theorem Sw.startUp_rel (x : Sw) : Sw.PowerRel x.startUp x := by
  have hw := x.wake_rel
  unfold Sw.startUp
  split
  · split
    · rename_i h
      exact ⟨⟨hw.same.name, hw.same.isApp, hw.same.visible, hw.same.fixDur⟩, hw.fixCd, hw.auxCd, hw.auxDur,
        Iff.intro (fun h' => by simp at h') (fun h' => by simp [h] at h'), hw.actual⟩
    · exact .refl x
  · split
    · rename_i h
      exact ⟨⟨hw.same.name, hw.same.isApp, hw.same.visible, hw.same.fixDur⟩, hw.fixCd, hw.auxCd, hw.auxDur,
        Iff.intro (fun h' => by simp at h') (fun h' => by simp [h] at h'), hw.actual⟩
    · exact .refl x

theorem Sw.shutDown_rel (x : Sw) : Sw.PowerRel x.shutDown x := by
  unfold Sw.shutDown
  split
  · split
    · rename_i h
      exact ⟨⟨rfl, rfl, rfl, rfl⟩, rfl, rfl, rfl, Iff.intro (fun h' => by simp at h') (fun h' => by simp [h] at h'), Or.inl rfl⟩
    · exact .refl x
  · split
    · rename_i h
      refine ⟨⟨rfl, rfl, rfl, rfl⟩, rfl, rfl, rfl, Iff.intro (fun h' => by simp at h') (fun h' => ?_), Or.inl rfl⟩
      rcases h with h | h <;> simp [h] at h'
    · exact .refl x

theorem powerOnEff_rel (n : Node) (x : Sw) : Sw.PowerRel (powerOnEff n x) x := by
  unfold powerOnEff; split
  · exact x.startUp_rel
  · exact .refl x

theorem offNowEff_rel (n : Node) (x : Sw) : Sw.PowerRel (offNowEff n x) x := by
  unfold offNowEff; split
  · exact (powerOnEff_rel n x.shutDown).trans x.shutDown_rel
  · exact x.shutDown_rel

theorem powerEff_rel (n : Node) (x : Sw) : Sw.PowerRel (powerEff n x) x := by
  have hb : Sw.PowerRel (bootEff n x) x := by
    unfold bootEff
    split
    · exact .refl x
    · split
      · exact x.startUp_rel
      · exact .refl x
  have hs : ∀ (m : Node) (y : Sw), Sw.PowerRel (shutEff m y) y := by
    intro m y
    unfold shutEff
    split
    · exact .refl y
    · split
      · exact offNowEff_rel m y
      · exact .refl y
  exact (hs _ _).trans hb

end Primaite.Health
