/-
C09 — which option governs which leaf: ConfigSchema defaults, the push-down of every `from_config`, and the theorem that the
EFFECTIVE option of a leaf is the host-level value if the scenario gives one, else the nodes-level value, else the documented default.
Model: `Model/ObsConfig.lean`; source tables: `Gen/ObsCfgTables.lean` (regenerated on every run).
-/
import PrimaiteModel.Props.C09
import PrimaiteModel.Props.C02Cfg
namespace Primaite.Obs
open Primaite.Gen

/-! ### translator tie: ConfigSchema defaults -/

/-- rendering of a model default as the Python literal of the schema -/
def pyOptBool : Option Bool → String
  | none => "None"
  | some true => "True"
  | some false => "False"

def schemaDefault (tbl : List (String × String × String)) (field : String) : Option String :=
  (tbl.find? (fun r => r.1 == field)).map (fun r => r.2.2)

/-- fields of a schema table whose default is not `None` (required fields, validators and `model_config` left out) -/
def nonNoneDefaults (tbl : List (String × String × String)) : List (String × String) :=
  (tbl.filter (fun r => r.2.2 != "None" && r.2.2 != "<required>" && r.2.1 != "<validator>" && r.1 != "model_config")).map (fun r => (r.1, r.2.2))

/-- **every default the model applies is the one the source declares today**: the three nodes-level scan switches default to
`True` and are not Optional; `include_users` defaults to `True` at nodes level and to `None` on hosts, routers and firewalls (so
the nodes-level value reaches them); every other option of every observation schema defaults to `None` (list-valued fields to `[]`,
`thresholds` to `{}`), i.e. "not given here — ask the parent". -/
theorem C09_gen_schema_defaults :
    schemaDefault ObsCfgTables.NodesObservation_schema "file_system_requires_scan" = some (pyOptBool (some nodesScanDefault)) ∧
    schemaDefault ObsCfgTables.NodesObservation_schema "services_requires_scan" = some (pyOptBool (some nodesScanDefault)) ∧
    schemaDefault ObsCfgTables.NodesObservation_schema "applications_requires_scan" = some (pyOptBool (some nodesScanDefault)) ∧
    schemaDefault ObsCfgTables.NodesObservation_schema "include_users" = some (pyOptBool nodesUsersDefault) ∧
    schemaDefault ObsCfgTables.HostObservation_schema "include_users" = some (pyOptBool hostUsersDefault) ∧
    schemaDefault ObsCfgTables.RouterObservation_schema "include_users" = some (pyOptBool (noDefault : Option Bool)) ∧
    schemaDefault ObsCfgTables.FirewallObservation_schema "include_users" = some (pyOptBool (noDefault : Option Bool)) ∧
    nonNoneDefaults ObsCfgTables.NodesObservation_schema =
      [("hosts", "[]"), ("routers", "[]"), ("firewalls", "[]"), ("file_system_requires_scan", "True"), ("services_requires_scan", "True"),
       ("applications_requires_scan", "True"), ("include_users", "True")] ∧
    nonNoneDefaults ObsCfgTables.HostObservation_schema =
      [("services", "[]"), ("applications", "[]"), ("folders", "[]"), ("network_interfaces", "[]")] ∧
    nonNoneDefaults ObsCfgTables.RouterObservation_schema = [] ∧ nonNoneDefaults ObsCfgTables.FirewallObservation_schema = [] ∧
    nonNoneDefaults ObsCfgTables.ACLObservation_schema = [] ∧ nonNoneDefaults ObsCfgTables.ServiceObservation_schema = [] ∧
    nonNoneDefaults ObsCfgTables.ApplicationObservation_schema = [] ∧ nonNoneDefaults ObsCfgTables.FileObservation_schema = [] ∧
    nonNoneDefaults ObsCfgTables.FolderObservation_schema = [("files", "[]")] ∧ nonNoneDefaults ObsCfgTables.NICObservation_schema = [] ∧
    nonNoneDefaults ObsCfgTables.AbstractObservation_schema = [("thresholds", "{}")] ∧
    (ObsCfgTables.NodesObservation_schema.filter (fun r => r.2.1 == "bool")).map (fun r => r.1) =
      ["file_system_requires_scan", "services_requires_scan", "applications_requires_scan"] := by
  decide

/-- the field lists of the schemas the model follows (a new option would have to be modelled) -/
theorem C09_gen_schema_fields :
    ObsCfgTables.HostObservation_schema.map (fun r => r.1) =
      ["hostname", "services", "applications", "folders", "network_interfaces", "num_services", "num_applications", "num_folders", "num_files",
       "num_nics", "include_nmne", "monitored_traffic", "include_num_access", "file_system_requires_scan", "services_requires_scan",
       "applications_requires_scan", "include_users"] ∧
    ObsCfgTables.NodesObservation_schema.map (fun r => r.1) =
      ["hosts", "routers", "firewalls", "num_services", "num_applications", "num_folders", "num_files", "num_nics", "include_nmne",
       "monitored_traffic", "include_num_access", "file_system_requires_scan", "services_requires_scan", "applications_requires_scan",
       "include_users", "num_ports", "ip_list", "wildcard_list", "port_list", "protocol_list", "num_rules", "force_optional_fields"] ∧
    ObsCfgTables.RouterObservation_schema.map (fun r => r.1) =
      ["hostname", "ports", "num_ports", "acl", "ip_list", "wildcard_list", "port_list", "protocol_list", "num_rules", "include_users"] ∧
    ObsCfgTables.FirewallObservation_schema.map (fun r => r.1) =
      ["hostname", "ip_list", "wildcard_list", "port_list", "protocol_list", "num_rules", "include_users"] ∧
    ObsCfgTables.ACLObservation_schema.map (fun r => r.1) = ["ip_list", "wildcard_list", "port_list", "protocol_list", "num_rules"] ∧
    ObsCfgTables.FolderObservation_schema.map (fun r => r.1) = ["folder_name", "files", "num_files", "include_num_access", "file_system_requires_scan"] ∧
    ObsCfgTables.FileObservation_schema.map (fun r => r.1) = ["file_name", "include_num_access", "file_system_requires_scan"] ∧
    ObsCfgTables.NICObservation_schema.map (fun r => r.1) = ["nic_num", "include_nmne", "monitored_traffic"] ∧
    ObsCfgTables.ServiceObservation_schema.map (fun r => r.1) = ["service_name", "services_requires_scan"] ∧
    ObsCfgTables.ApplicationObservation_schema.map (fun r => r.1) = ["application_name", "applications_requires_scan"] := by
  decide

/-! ### translator tie: every push-down statement of every `from_config` -/

/-- rows `(child group, child field, mode, parent field)` in source order, other statements dropped -/
def pushRows (tbl : List (String × String × String × String)) : List (String × String × String × String) :=
  tbl.filter (fun r => r.1 != "<stmt>")

/-- `NodesObservation.from_config`: every shared option reaches a host / router / firewall ONLY IF the node's own value is `None`
(`thresholds`: only if falsy) — this is `inherit` / `inheritThr` in `HostCfg.eff`, `RouterCfg.eff`, `FirewallCfg.build`. -/
theorem C09_gen_pushdown_nodes :
    pushRows ObsCfgTables.NodesObservation_pushdown =
      [("hosts", "num_services", "if-none", "num_services"), ("hosts", "num_applications", "if-none", "num_applications"),
       ("hosts", "num_folders", "if-none", "num_folders"), ("hosts", "num_files", "if-none", "num_files"),
       ("hosts", "num_nics", "if-none", "num_nics"), ("hosts", "include_nmne", "if-none", "include_nmne"),
       ("hosts", "monitored_traffic", "if-none", "monitored_traffic"), ("hosts", "include_num_access", "if-none", "include_num_access"),
       ("hosts", "file_system_requires_scan", "if-none", "file_system_requires_scan"),
       ("hosts", "services_requires_scan", "if-none", "services_requires_scan"),
       ("hosts", "applications_requires_scan", "if-none", "applications_requires_scan"),
       ("hosts", "include_users", "if-none", "include_users"), ("hosts", "thresholds", "if-falsy", "thresholds"),
       ("routers", "num_ports", "if-none", "num_ports"), ("routers", "ip_list", "if-none", "ip_list"),
       ("routers", "wildcard_list", "if-none", "wildcard_list"), ("routers", "port_list", "if-none", "port_list"),
       ("routers", "protocol_list", "if-none", "protocol_list"), ("routers", "num_rules", "if-none", "num_rules"),
       ("routers", "include_users", "if-none", "include_users"), ("routers", "thresholds", "if-falsy", "thresholds"),
       ("firewalls", "ip_list", "if-none", "ip_list"), ("firewalls", "wildcard_list", "if-none", "wildcard_list"),
       ("firewalls", "port_list", "if-none", "port_list"), ("firewalls", "protocol_list", "if-none", "protocol_list"),
       ("firewalls", "num_rules", "if-none", "num_rules"), ("firewalls", "include_users", "if-none", "include_users"),
       ("firewalls", "thresholds", "if-falsy", "thresholds")] := by
  decide

/-- `HostObservation.from_config` / `FolderObservation.from_config` OVERWRITE the children's own options (mode `always`) — the only
option of a configured child that survives is a network interface's own `monitored_traffic`; `RouterObservation.from_config` fills
the `acl:` sub-configuration only where it is `None` and numbers the ports 1 … `num_ports` when `ports` is not given. -/
theorem C09_gen_pushdown_children :
    pushRows ObsCfgTables.HostObservation_pushdown =
      [("folders", "include_num_access", "always", "include_num_access"), ("folders", "num_files", "always", "num_files"),
       ("folders", "file_system_requires_scan", "always", "file_system_requires_scan"), ("folders", "thresholds", "always", "thresholds"),
       ("network_interfaces", "include_nmne", "always", "include_nmne"), ("network_interfaces", "thresholds", "always", "thresholds"),
       ("services", "services_requires_scan", "always", "services_requires_scan"),
       ("applications", "applications_requires_scan", "always", "applications_requires_scan"), ("applications", "thresholds", "always", "thresholds")] ∧
    pushRows ObsCfgTables.FolderObservation_pushdown =
      [("files", "include_num_access", "always", "include_num_access"), ("files", "file_system_requires_scan", "always", "file_system_requires_scan"),
       ("files", "thresholds", "always", "thresholds")] ∧
    pushRows ObsCfgTables.RouterObservation_pushdown =
      [("<self>", "acl", "if-none:=", "ACLObservation.ConfigSchema()"), ("acl", "num_rules", "if-none", "num_rules"),
       ("acl", "ip_list", "if-none", "ip_list"), ("acl", "wildcard_list", "if-none", "wildcard_list"), ("acl", "port_list", "if-none", "port_list"),
       ("acl", "protocol_list", "if-none", "protocol_list"),
       ("<self>", "ports", "if-none:=", "[PortObservation.ConfigSchema(port_id=i + 1) for i in range(config.num_ports)]")] ∧
    pushRows ObsCfgTables.FirewallObservation_pushdown = [] ∧ pushRows ObsCfgTables.ServiceObservation_pushdown = [] ∧
    pushRows ObsCfgTables.ApplicationObservation_pushdown = [] ∧ pushRows ObsCfgTables.FileObservation_pushdown = [] ∧
    pushRows ObsCfgTables.NICObservation_pushdown = [] ∧ pushRows ObsCfgTables.PortObservation_pushdown = [] ∧
    pushRows ObsCfgTables.ACLObservation_pushdown = [] := by
  decide

/-- every constructor receives each option from the configuration field OF THE SAME NAME (no crossed wires), and every padding object
is built with the constructor's own arguments of the same name -/
def sameName (args : List (String × String)) (skip : List String) : Bool :=
  args.all (fun a => skip.contains a.1 || a.2 == "config." ++ a.1)

theorem C09_gen_ctor_args :
    sameName ObsCfgTables.HostObservation_ctorArgs ["where", "services", "applications", "folders", "network_interfaces"] = true ∧
    (ObsCfgTables.HostObservation_ctorArgs.filter (fun a => ["services", "applications", "folders", "network_interfaces"].contains a.1)) =
      [("services", "services"), ("applications", "applications"), ("folders", "folders"), ("network_interfaces", "nics")] ∧
    sameName ObsCfgTables.FolderObservation_ctorArgs ["where", "files"] = true ∧
    sameName ObsCfgTables.RouterObservation_ctorArgs ["where", "ports", "acl"] = true ∧
    sameName ObsCfgTables.FirewallObservation_ctorArgs ["where"] = true ∧ sameName ObsCfgTables.ServiceObservation_ctorArgs ["where"] = true ∧
    sameName ObsCfgTables.ApplicationObservation_ctorArgs ["where"] = true ∧ sameName ObsCfgTables.FileObservation_ctorArgs ["where"] = true ∧
    sameName ObsCfgTables.NICObservation_ctorArgs ["where"] = true ∧ sameName ObsCfgTables.ACLObservation_ctorArgs ["where"] = true ∧
    ObsCfgTables.HostObservation_padCalls =
      [("services", [("<class>", "ServiceObservation"), ("where", "None"), ("services_requires_scan", "services_requires_scan")]),
       ("applications", [("<class>", "ApplicationObservation"), ("where", "None"), ("applications_requires_scan", "applications_requires_scan")]),
       ("folders", [("<class>", "FolderObservation"), ("where", "None"), ("files", "[]"), ("num_files", "num_files"),
                    ("include_num_access", "include_num_access"), ("file_system_requires_scan", "file_system_requires_scan")]),
       ("nics", [("<class>", "NICObservation"), ("where", "None"), ("include_nmne", "include_nmne"), ("monitored_traffic", "monitored_traffic")])] ∧
    ObsCfgTables.FolderObservation_padCalls =
      [("files", [("<class>", "FileObservation"), ("where", "None"), ("include_num_access", "include_num_access"),
                  ("file_system_requires_scan", "self.file_system_requires_scan"), ("thresholds", "thresholds")])] ∧
    ObsCfgTables.RouterObservation_padCalls = [("ports", [("<class>", "PortObservation"), ("where", "None")])] := by
  decide

/-! ### the effective option of a leaf -/

/-- what the scenario says at one level: a value, or nothing (`null` and "not mentioned" are the same to the push-down) -/
def given {α} (f : Fld α) : Option α := fld noDefault f

/-- host-level value if given, else nodes-level value if given, else the documented default -/
def effective {α} (own : Fld α) (parent : Fld α) (dflt : Option α) : Option α :=
  match given own with
  | some v => some v
  | none => match parent with
    | none => dflt
    | some v => v

theorem effective_eq {α} (own parent : Fld α) (dflt : Option α) :
    inherit (fld noDefault own) (fld dflt parent) = effective own parent dflt := by
  unfold effective given inherit
  cases h : fld noDefault own <;> cases parent <;> simp [fld]

/-- a `bool = True` nodes-level switch: host-level value if given, else the nodes-level value, else `True` -/
def effectiveScan (own : Fld Bool) (parent : Option Bool) : Bool :=
  match given own with
  | some v => v
  | none => scanOf parent

theorem effectiveScan_eq (own : Fld Bool) (parent : Option Bool) :
    pyTruthy (inherit (fld noDefault own) (some (scanOf parent))) = effectiveScan own parent := by
  unfold effectiveScan given inherit pyTruthy
  cases h : fld noDefault own <;> simp

/-- the statement for EVERY inheritable option of a host, as the brief words it -/
def C09_FullInheritance : Prop :=
  ∀ (thr : ThrCfg) (c : NodesCfg) (h : HostCfg),
    (h.eff thr c).svcScan = some (effectiveScan h.svcScan c.svcScan) ∧
    (h.eff thr c).appScan = some (effectiveScan h.appScan c.appScan) ∧
    (h.eff thr c).fsScan = some (effectiveScan h.fsScan c.fsScan) ∧
    (h.eff thr c).users = effective h.users c.users nodesUsersDefault ∧
    (h.eff thr c).includeNmne = effective h.includeNmne c.includeNmne none ∧
    (h.eff thr c).numAccess = effective h.numAccess c.numAccess none ∧
    (h.eff thr c).traffic = effective h.traffic c.traffic none ∧
    (h.eff thr c).numServices = effective h.numServices c.numServices none ∧
    (h.eff thr c).numApps = effective h.numApps c.numApps none ∧
    (h.eff thr c).numFolders = effective h.numFolders c.numFolders none ∧
    (h.eff thr c).numFiles = effective h.numFiles c.numFiles none ∧
    (h.eff thr c).numNics = effective h.numNics c.numNics none

/-- **option inheritance, full strength** (since the F-C09-3 repair: with `HostObservation.ConfigSchema.include_users = True` the
`users` line was false — see `C09_inheritance_counterexample_before_fix`) -/
theorem C09_effective_options : C09_FullInheritance := by
  intro thr c h
  unfold HostCfg.eff
  refine ⟨?_, ?_, ?_, ?_, ?_, ?_, ?_, ?_, ?_, ?_, ?_, ?_⟩
  · simp only []; unfold effectiveScan given inherit; cases fld noDefault h.svcScan <;> rfl
  · simp only []; unfold effectiveScan given inherit; cases fld noDefault h.appScan <;> rfl
  · simp only []; unfold effectiveScan given inherit; cases fld noDefault h.fsScan <;> rfl
  · exact effective_eq h.users c.users nodesUsersDefault
  · exact effective_eq h.includeNmne c.includeNmne none
  · exact effective_eq h.numAccess c.numAccess none
  · exact effective_eq h.traffic c.traffic none
  · exact effective_eq h.numServices c.numServices none
  · exact effective_eq h.numApps c.numApps none
  · exact effective_eq h.numFolders c.numFolders none
  · exact effective_eq h.numFiles c.numFiles none
  · exact effective_eq h.numNics c.numNics none

/-- why the schema default matters: had the host schema defaulted `include_users` to `True` (the code before F-C09-3, and the shape of
seeded change C09-b for `applications_requires_scan`), a nodes-level `false` would never reach a host that does not repeat it -/
theorem C09_inheritance_counterexample_before_fix :
    inherit (fld (some true) (none : Fld Bool)) (fld nodesUsersDefault (some (some false))) ≠
      effective (none : Fld Bool) (some (some false)) nodesUsersDefault := by
  decide

/-- routers and firewalls: `include_users` and every ACL option, router-level if given else nodes-level; the `acl:` sub-configuration
of a router wins over both -/
theorem C09_effective_router_options (c : NodesCfg) (r : RouterCfg) :
    (r.eff c).users = effective r.users c.users nodesUsersDefault ∧
    (r.eff c).numPorts = effective r.numPorts c.numPorts none ∧
    (r.eff c).numRules = effective r.numRules c.numRules none ∧ (r.eff c).ips = effective r.ips c.ips none ∧
    (r.eff c).wcs = effective r.wcs c.wcs none ∧ (r.eff c).ports = effective r.ports c.ports none ∧
    (r.eff c).protos = effective r.protos c.protos none ∧
    ∀ a : AclCfg, fld noDefault r.acl = some a →
      (r.aclEff (r.eff c)).numRules = inherit (given a.numRules) (r.eff c).numRules ∧
      (r.aclEff (r.eff c)).ips = inherit (given a.ips) (r.eff c).ips := by
  unfold RouterCfg.eff
  refine ⟨effective_eq _ _ _, effective_eq _ _ _, effective_eq _ _ _, effective_eq _ _ _, effective_eq _ _ _, effective_eq _ _ _,
          effective_eq _ _ _, ?_⟩
  intro a ha
  simp [RouterCfg.aclEff, ha, given]

/-! ### from the effective option to the leaves of the built host -/

/-- **every health gate of a built host is the effective option of the scenario**: each service slot (configured or padding) is
gated by `services_requires_scan`, each application slot by `applications_requires_scan`, each folder and each file slot by
`file_system_requires_scan` — host-level value if given, else nodes-level, else `True`; a value written at the child's own level is
ignored (the host overwrites it); `include_num_access`, `include_nmne`, `include_users` likewise (Python truthiness of the result). -/
theorem C09_built_host_gates (thr : ThrCfg) (c : NodesCfg) (h : HostCfg) (o : HostObs) (hb : h.build thr c = some o) :
    (∀ s ∈ o.services, s.scan = effectiveScan h.svcScan c.svcScan) ∧
    (∀ a ∈ o.apps, a.scan = effectiveScan h.appScan c.appScan) ∧
    (∀ f ∈ o.folders, f.scan = effectiveScan h.fsScan c.fsScan ∧
       ∀ x ∈ f.files, x.scan = effectiveScan h.fsScan c.fsScan ∧ x.numAccess = pyTruthy (effective h.numAccess c.numAccess none)) ∧
    (∀ n ∈ o.nics, n.includeNmne = pyTruthy (effective h.includeNmne c.includeNmne none)) ∧
    o.numAccess = pyTruthy (effective h.numAccess c.numAccess none) ∧
    o.users = pyTruthy (effective h.users c.users nodesUsersDefault) := by
  obtain ⟨e1, e2, e3, e4, e5, e6, _⟩ := C09_effective_options thr c h
  unfold HostCfg.build at hb
  split at hb
  · injection hb with hb
    subst hb
    refine ⟨?_, ?_, ?_, ?_, ?_, ?_⟩
    · intro s hs
      simp only [HostCfg.obs] at hs
      rcases mem_padTo hs with rfl | hs'
      · simp [e1, pyTruthy]
      · obtain ⟨sc, _, rfl⟩ := List.mem_map.mp hs'
        simp [e1, pyTruthy]
    · intro a ha
      simp only [HostCfg.obs] at ha
      rcases mem_padTo ha with rfl | ha'
      · simp [e2, pyTruthy]
      · obtain ⟨ac, _, rfl⟩ := List.mem_map.mp ha'
        simp [e2, pyTruthy]
    · intro f hf
      simp only [HostCfg.obs] at hf
      rcases mem_padTo hf with rfl | hf'
      · refine ⟨by simp [padFolder, e3, pyTruthy], ?_⟩
        intro x hx
        simp only [padFolder] at hx
        have := List.eq_of_mem_replicate hx
        subst this
        simp [e3, e6, pyTruthy]
      · obtain ⟨fc, _, rfl⟩ := List.mem_map.mp hf'
        refine ⟨by simp [FolderCfg.obs, e3, pyTruthy], ?_⟩
        intro x hx
        simp only [FolderCfg.obs] at hx
        rcases mem_padTo hx with rfl | hx'
        · simp [e3, e6, pyTruthy]
        · obtain ⟨xc, _, rfl⟩ := List.mem_map.mp hx'
          simp [e3, e6, pyTruthy]
    · intro n hn
      simp only [HostCfg.obs] at hn
      rcases mem_padTo hn with rfl | hn'
      · simp [padNic, e5]
      · rcases List.mem_append.mp hn' with h1 | h2
        · obtain ⟨nc, _, rfl⟩ := List.mem_map.mp h1
          simp [NicCfg.obs, e5]
        · unfold autoNics at h2
          obtain ⟨i, _, rfl⟩ := List.mem_map.mp h2
          simp [e5]
    · simp [HostCfg.obs, e6]
    · simp [HostCfg.obs, e4]
  · exact absurd hb (by simp)

/-- the one asymmetry of the code, stated: a LISTED network interface monitors its OWN `monitored_traffic` only (the host / nodes value
is not pushed into it), an automatically numbered one monitors the host's effective value -/
theorem C09_built_nic_traffic (thr : ThrCfg) (c : NodesCfg) (h : HostCfg) (e : HostEff) (n : NicCfg) :
    (NicCfg.obs h.hostname e n).traffic = trafficOf (given n.traffic) ∧
    ∀ k, ∀ a ∈ autoNics h.hostname (h.eff thr c) k, a.traffic = trafficOf (effective h.traffic c.traffic none) := by
  refine ⟨rfl, ?_⟩
  intro k a ha
  unfold autoNics at ha
  obtain ⟨i, _, rfl⟩ := List.mem_map.mp ha
  simp [(C09_effective_options thr c h).2.2.2.2.2.2.1]

/-- **C09's gate read from the scenario**: the `health_status` leaf the code reports for a service slot of a host built from the
scenario is the last-scanned value exactly when the scenario's effective `services_requires_scan` is true, else the true value -/
theorem C09_service_gate_from_scenario (thr : ThrCfg) (c : NodesCfg) (hc : HostCfg) (o : HostObs) (hb : hc.build thr c = some o)
    (s : ServiceObs) (hs : s ∈ o.services) (t : Truth) (h name : String) (n : NodeT) (sv : SoftwareT)
    (hw : s.wh = some (h, name)) (hn : t.node h = some n) (hf : n.services.find? (fun x => x.name = name) = some sv) :
    lookupK (.s "health_status") (match s.val (describe t) with | .dict kvs => kvs | _ => []) =
      some (.int (if effectiveScan hc.svcScan c.svcScan then sv.healthVisible else sv.healthActual)) := by
  have := C09_scan_gating_service s t h name n sv hw hn hf
  rw [(C09_built_host_gates thr c hc o hb).1 s hs] at this
  exact this

theorem C09_application_gate_from_scenario (thr : ThrCfg) (c : NodesCfg) (hc : HostCfg) (o : HostObs) (hb : hc.build thr c = some o)
    (a : AppObs) (ha : a ∈ o.apps) (t : Truth) (h name : String) (n : NodeT) (sv : SoftwareT)
    (hw : a.wh = some (h, name)) (hn : t.node h = some n) (hf : n.apps.find? (fun x => x.name = name) = some sv) (ht : a.thr.Ok) :
    lookupK (.s "health_status") (match a.val (describe t) with | .dict kvs => kvs | _ => []) =
      some (.int (if effectiveScan hc.appScan c.appScan then sv.healthVisible else sv.healthActual)) := by
  have := C09_scan_gating_application a t h name n sv hw hn hf ht
  rw [(C09_built_host_gates thr c hc o hb).2.1 a ha] at this
  exact this

/-! #### non-vacuity: nodes-level `applications_requires_scan: false`, host silent → the application slot shows the TRUE health;
a host that overrides it shows the last-scanned one -/

example :
    effectiveScan none (some false) = false ∧ effectiveScan (some (some true)) (some false) = true ∧
    effectiveScan (some none) none = true ∧
    (∃ o, ({ hostname := "pc", apps := [{ name := "browser", scan := some (some true) }] } : HostCfg).build none
            { numServices := some (some 0), numApps := some (some 2), numFolders := some (some 0), numFiles := some (some 0),
              numNics := some (some 0), appScan := some false } = some o ∧
          o.apps.map (fun a => a.scan) = [false, false] ∧ o.users = true) := by
  refine ⟨by decide, by decide, by decide, _, rfl, by decide, by decide⟩

/-! ### objects with the same name

`describe_state()` builds Python dictionaries keyed by name, so of two LIVE components with one name the dictionary keeps the LAST;
the specification ("the component named X") and the model's association lists pick the FIRST.  What C09 says: a leaf shows THE live
component of that name — the statement presupposes that live names are distinct per container (`Truth.NamesDistinct`: true of the
repaired simulator — installing replaces a namesake (F-22), `add_file(force)` / `copy_file` no longer add a second live file
(fix dab3313); deleted items keep their names but live in separate lists that `describe` does not key).  Under that hypothesis the
model's first-match lookup IS the dictionary lookup, so every `C09_*_eq_spec` theorem speaks about the real dictionaries; the rig
counts how often a trajectory reaches a duplicate live name (evidence key `truth:steps-with-duplicate-live-names`). -/

/-- the value `{name(x): f(x) for x in l}[k]` holds: the LAST pair keyed `k` -/
def lookupLast {α} (k : String) : List (String × α) → Option α
  | [] => none
  | (k', v) :: rest =>
    match lookupLast k rest with
    | some w => some w
    | none => if k = k' then some v else none

theorem lookupLast_none_of_not_mem {α} (k : String) (l : List (String × α)) (h : k ∉ l.map Prod.fst) : lookupLast k l = none := by
  induction l with
  | nil => rfl
  | cons p rest ih =>
    obtain ⟨k', v⟩ := p
    simp only [List.map_cons, List.mem_cons, not_or] at h
    simp [lookupLast, ih h.2, h.1]

/-- with distinct keys, first match = what the Python dictionary holds -/
theorem C09_first_match_is_dict_lookup {α} (k : String) (l : List (String × α)) (h : (l.map Prod.fst).Nodup) :
    lookupS k l = lookupLast k l := by
  induction l with
  | nil => rfl
  | cons p rest ih =>
    obtain ⟨k', v⟩ := p
    simp only [List.map_cons, List.nodup_cons] at h
    by_cases hk : k = k'
    · subst hk
      simp [lookupS, lookupLast, lookupLast_none_of_not_mem k rest h.1]
    · simp [lookupS, lookupLast, hk, ih h.2]
      cases lookupLast k rest <;> rfl

/-- and with a repeated key they differ: why the hypothesis is needed -/
theorem C09_duplicate_names_counterexample :
    lookupS "a.txt" [("a.txt", 1), ("a.txt", 2)] ≠ lookupLast "a.txt" [("a.txt", 1), ("a.txt", 2)] := by decide

/-- live names are distinct per container -/
def Truth.NamesDistinct (t : Truth) : Prop :=
  (t.nodes.map (fun n => n.hostname)).Nodup ∧
  ∀ n ∈ t.nodes, (n.services.map (fun s => s.name)).Nodup ∧ (n.apps.map (fun s => s.name)).Nodup ∧
    (n.folders.map (fun f => f.name)).Nodup ∧ (n.nics.map (fun x => x.num)).Nodup ∧ ∀ f ∈ n.folders, (f.files.map (fun x => x.name)).Nodup

/-- under `NamesDistinct` every name-keyed dictionary of `describe` has distinct keys (so `lookupS` on it is the dictionary lookup) -/
theorem C09_describe_keys_distinct (t : Truth) (h : t.NamesDistinct) :
    ((describe t).nodes.map Prod.fst).Nodup ∧
    ∀ n ∈ t.nodes, (((describeNode n).2.services).map Prod.fst).Nodup ∧ (((describeNode n).2.apps).map Prod.fst).Nodup ∧
      (((describeNode n).2.folders).map Prod.fst).Nodup ∧
      ∀ f ∈ n.folders, (((describeFolder f).2.files).map Prod.fst).Nodup := by
  refine ⟨?_, ?_⟩
  · have := h.1
    simpa [describe, describeNode, List.map_map, Function.comp_def] using this
  · intro n hn
    obtain ⟨h1, h2, h3, _, h5⟩ := h.2 n hn
    refine ⟨?_, ?_, ?_, ?_⟩
    · simpa [describeNode, describeSoftware, List.map_map, Function.comp_def] using h1
    · simpa [describeNode, describeSoftware, List.map_map, Function.comp_def] using h2
    · simpa [describeNode, describeFolder, List.map_map, Function.comp_def] using h3
    · intro f hf
      simpa [describeFolder, describeFile, List.map_map, Function.comp_def] using h5 f hf

example : exTruth.NamesDistinct := by
  refine ⟨by decide, ?_⟩
  intro n hn
  simp only [exTruth, List.mem_singleton] at hn
  subst hn
  refine ⟨by decide, by decide, by decide, by decide, ?_⟩
  intro f hf
  simp only [List.mem_singleton] at hf
  subst hf
  decide

/-! ### the documentation's band tables (regenerated from the demonstration notebook) and the specification bands -/

/-- the tables the specification bands were written from, as the notebook words them today -/
theorem C09_gen_doc_tables :
    ObsCfgTables.docExecutionsTable = [("0", "0"), ("1", "1-5"), ("2", "6-10"), ("3", ">10")] ∧
    ObsCfgTables.docAccessTable = ObsCfgTables.docExecutionsTable ∧
    ObsCfgTables.docLinkTable =
      [("0", "exactly 0%"), ("1", "0-11%"), ("2", "11-22%"), ("3", "22-33%"), ("4", "33-44%"), ("5", "44-55%"), ("6", "55-66%"),
       ("7", "66-77%"), ("8", "77-88%"), ("9", "88-99%"), ("10", "exactly 100%")] ∧
    ObsCfgTables.docNicTrafficTable = ObsCfgTables.docLinkTable := by
  decide

/-- the counted-occurrences table, row by row, for the default thresholds: 0 ↦ 0, 1-5 ↦ 1, 6-10 ↦ 2, >10 ↦ 3 -/
theorem C09_specBand_rows (n : Int) :
    (n ≤ 0 → specBand {} n = 0) ∧ (1 ≤ n ∧ n ≤ 5 → specBand {} n = 1) ∧ (6 ≤ n ∧ n ≤ 10 → specBand {} n = 2) ∧ (10 < n → specBand {} n = 3) := by
  rw [C09_band_eq_code {} thrDefault_ok, C09_band_default_table]
  refine ⟨?_, ?_, ?_, ?_⟩ <;> intro h <;> (repeat' split) <;> omega

/-- the utilisation table, row by row, on a capacity of 900 units (one ninth = 100): 0 ↦ 0, [0,100) ↦ 1, [100,200) ↦ 2, …, [800,900) ↦ 9,
900 and above ↦ 10 -/
theorem C09_specUtil_rows :
    specUtil 0 900 = .int 0 ∧ specUtil 1 900 = .int 1 ∧ specUtil 99 900 = .int 1 ∧ specUtil 100 900 = .int 2 ∧ specUtil 450 900 = .int 5 ∧
    specUtil 799 900 = .int 8 ∧ specUtil 800 900 = .int 9 ∧ specUtil 899 900 = .int 9 ∧ specUtil 900 900 = .int 10 ∧ specUtil 5000 900 = .int 10 := by
  refine ⟨?_, ?_, ?_, ?_, ?_, ?_, ?_, ?_, ?_, ?_⟩ <;> rfl

end Primaite.Obs

/-! ## threshold validation: translated `_validate_thresholds`, the setters, and what a BUILT tree therefore satisfies -/

namespace Primaite.Obs
open Primaite.Gen

/-- the translated body of `AbstractObservation._validate_thresholds` accepts a triple exactly when the model's `Thr.valid` does
(for EVERY triple of integers) -/
theorem C09_gen_validate_thresholds (t : Thr) : ObsTables.validateThresholds [t.low, t.med, t.high] = t.valid := by
  simp only [ObsTables.validateThresholds, ObsTables.pyGetI, Thr.valid, List.length_cons, List.length_nil, List.range', List.all_cons,
    List.all_nil]
  by_cases h1 : t.low < t.med <;> by_cases h2 : t.med < t.high <;> simp [h1, h2] <;> omega

/-- `Thr.valid` is the decidable form of the construction invariant `Thr.Ok` that `C09_band_eq_code` needs -/
theorem Thr.valid_iff (t : Thr) : t.valid = true ↔ t.Ok := by
  simp [Thr.valid, Thr.Ok]

theorem thrDefault_valid : thrDefault.valid = true := by decide

theorem mem_padTo_c09 {α} {n : Nat} {d x : α} {xs : List α} (h : x ∈ padTo n d xs) : x = d ∨ x ∈ xs := by
  unfold padTo at h
  rcases List.mem_append.mp (List.mem_of_mem_take h) with h | h
  · exact Or.inr h
  · exact Or.inl (List.eq_of_mem_replicate h)

theorem padTo_zero_nil {α} (d : α) : padTo 0 d ([] : List α) = [] := by simp [padTo]

/-- a host whose constructors all passed the validation holds only strictly ascending triples (what it keeps after truncation is a
subset of what was constructed, its own padding slots carry the class defaults) -/
theorem C09_host_built_thr_valid (thr : ThrCfg) (c : NodesCfg) (h : HostCfg) (o : HostObs) (hb : h.build thr c = some o)
    (hv : h.ctorThrValid (h.eff thr c) = true) : o.thrValid = true := by
  unfold HostCfg.build at hb
  split at hb
  · next ns na nf nfi nn h1 h2 h3 h4 h5 =>
    injection hb with hb
    subst hb
    simp only [HostCfg.ctorThrValid, Bool.and_eq_true, Bool.or_eq_true, List.all_eq_true, h4, h5, Option.getD_some] at hv
    obtain ⟨⟨hva, hvf⟩, hvn⟩ := hv
    simp only [HostObs.thrValid, HostCfg.obs, Bool.and_eq_true, List.all_eq_true]
    refine ⟨⟨?_, ?_⟩, ?_⟩
    · intro a ha
      rcases mem_padTo_c09 ha with rfl | ha
      · exact thrDefault_valid
      · rcases hva with hva | hva
        · cases hl : h.apps with
          | nil => simp [hl] at ha
          | cons _ _ => simp [hl] at hva
        · obtain ⟨_, _, rfl⟩ := List.mem_map.mp ha
          exact hva
    · intro f hf x hx
      rcases mem_padTo_c09 hf with rfl | hf
      · simp only [padFolder] at hx
        rw [List.eq_of_mem_replicate hx]
        exact thrDefault_valid
      · obtain ⟨fc, hfc, rfl⟩ := List.mem_map.mp hf
        simp only [FolderCfg.obs] at hx
        rcases hvf fc hfc with hvf | hvf
        · simp only [Bool.and_eq_true, List.isEmpty_iff, beq_iff_eq] at hvf
          rw [hvf.1, hvf.2, List.map_nil, padTo_zero_nil] at hx
          cases hx
        · rcases mem_padTo_c09 hx with rfl | hx
          · exact hvf
          · obtain ⟨_, _, rfl⟩ := List.mem_map.mp hx
            exact hvf
    · intro n hn
      rcases mem_padTo_c09 hn with rfl | hn
      · exact thrDefault_valid
      · rcases hvn with hvn | hvn
        · simp only [Bool.and_eq_true, List.isEmpty_iff, beq_iff_eq] at hvn
          rw [hvn.1, hvn.2] at hn
          simp [autoNics, rangeFrom] at hn
        · rcases List.mem_append.mp hn with hn | hn
          · obtain ⟨_, _, rfl⟩ := List.mem_map.mp hn
            exact hvn
          · simp only [autoNics] at hn
            obtain ⟨_, _, rfl⟩ := List.mem_map.mp hn
            exact hvn
  · exact absurd hb (by simp)

theorem allSome_forall2 {α β} (f : α → Option β) : ∀ (xs : List α) (ys : List β), allSome f xs = some ys →
    ∀ y ∈ ys, ∃ x ∈ xs, f x = some y
  | [], ys, h => by simp [allSome] at h; subst h; simp
  | x :: xs, ys, h => by
    unfold allSome at h
    cases h1 : f x with
    | none => simp [h1] at h
    | some y0 =>
      cases h2 : allSome f xs with
      | none => simp [h1, h2] at h
      | some ys0 =>
        simp [h1, h2] at h
        subst h
        intro y hy
        rcases List.mem_cons.mp hy with rfl | hy
        · exact ⟨x, by simp, h1⟩
        · obtain ⟨x', hx', hfx⟩ := allSome_forall2 f xs ys0 h2 y hy
          exact ⟨x', by simp [hx'], hfx⟩

mutual
/-- **every threshold triple inside an object that `ObservationManager` built is strictly ascending** — the construction invariant
`Thr.Ok` that `C09_band_eq_code` and the `*_eq_spec` theorems carry is now a consequence of the (translated) validation -/
theorem C09_built_thr_valid (thr : ThrCfg) : ∀ (r : RawObs) (o : Obs), r.build thr = some o → r.ctorThrValid thr = true → o.thrValid = true
  | .null, o, hb, _ => by simp [RawObs.build] at hb; subst hb; rfl
  | .links refs, o, hb, _ => by simp [RawObs.build] at hb; subst hb; rfl
  | .nodes c, o, hb, hv => by
    simp only [RawObs.build, Option.map_eq_some_iff] at hb
    obtain ⟨n, hn, rfl⟩ := hb
    simp only [RawObs.ctorThrValid, NodesCfg.ctorThrValid, List.all_eq_true] at hv
    simp only [Obs.thrValid, List.all_eq_true]
    unfold NodesCfg.build at hn
    split at hn
    · split at hn
      · next hs rs fs hh _ _ =>
        injection hn with hn
        subst hn
        intro ho hho
        obtain ⟨hc, hhc, hbuild⟩ := allSome_forall2 _ _ _ hh ho hho
        exact C09_host_built_thr_valid thr c hc ho hbuild (hv hc hhc)
      · exact absurd hn (by simp)
    · exact absurd hn (by simp)
  | .nested cs, o, hb, hv => by
    simp only [RawObs.build, Option.map_eq_some_iff] at hb
    obtain ⟨os, hos, rfl⟩ := hb
    exact C09_built_thr_validL thr cs os hos hv
theorem C09_built_thr_validL (thr : ThrCfg) : ∀ (cs : List (String × RawObs)) (os : List (String × Obs)),
    RawObs.buildL thr cs = some os → RawObs.ctorThrValidL thr cs = true → Obs.thrValidL os = true
  | [], os, hb, _ => by simp [RawObs.buildL] at hb; subst hb; rfl
  | c :: cs, os, hb, hv => by
    unfold RawObs.buildL at hb
    simp only [RawObs.ctorThrValidL, Bool.and_eq_true] at hv
    cases h1 : c.2.build thr with
    | none => simp [h1] at hb
    | some o =>
      cases h2 : RawObs.buildL thr cs with
      | none => simp [h1, h2] at hb
      | some os0 =>
        simp [h1, h2] at hb
        subst hb
        simp only [Obs.thrValidL, Bool.and_eq_true]
        exact ⟨C09_built_thr_valid thr c.2 o h1 hv.1, C09_built_thr_validL thr cs os0 h2 hv.2⟩
end

/-- non-vacuity and the rejection: one listed application with `medium ≤ low` is refused even with `num_applications: 0` (it is
constructed, validated, then truncated away) — exactly what the real constructor does -/
example : (thrApp (some { app := some { low := 1, med := 1, high := 5 } })).valid = false := by decide

/-- the constructors hand `[low, medium, high]` of their own key to their setter, the setter validates exactly these three positions
and assigns low / med / high from positions 0 / 1 / 2 only under the validation; a missing key takes the class defaults -/
theorem C09_gen_threshold_setters :
    ObsTables.thresholdSetters = [
      ("ApplicationObservation", "app_executions", "class-defaults", ["low", "medium", "high"], [0, 1, 2], [("low", 0), ("med", 1), ("high", 2)]),
      ("FileObservation", "file_access", "class-defaults", ["low", "medium", "high"], [0, 1, 2], [("low", 0), ("med", 1), ("high", 2)]),
      ("NICObservation", "nmne", "class-defaults", ["low", "medium", "high"], [0, 1, 2], [("low", 0), ("med", 1), ("high", 2)])] := by
  rfl

end Primaite.Obs
