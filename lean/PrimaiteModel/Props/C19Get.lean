/-
C19, part 11 (round 7c): `get_action` of PeriodicAgent / ProbabilisticAgent and the construction of the probability vector
(`ProbabilisticAgent.probabilities`), TRANSLATED statement by statement from the sources (Gen/AgentsGet.lean,
regenerated on every run by harness/extract/agents_ctl.py), compute what the hand-written model computes — for EVERY
table / state / draw.

    ProbabilisticAgent.probabilities              = Table.vectorByKey          (C19_gen_prob_vector)
    ProbabilisticAgent.get_action                 = probAgentChoice .byKey     (C19_gen_prob_get_action)
    PeriodicAgent._set_next_execution_timestep,
    PeriodicAgent.get_action                      = periodicStep               (C19_gen_periodic_get_action)

The vector theorem is the one the seeded change C19-h refutes: a vector built from `action_probabilities.values()` is the
INSERTION-order vector (`C19_values_vector_is_insertion`), and that differs from the by-key vector on every table whose keys
are not written in ascending order and whose weights are not symmetric under the permutation
(`C19_insertion_vector_counter_model`: `{1: 1, 0: 3}`).
-/
import PrimaiteModel.Gen.AgentsGet
import PrimaiteModel.Model.Agents
set_option linter.unusedSimpArgs false
namespace Primaite.Agents
open Primaite.Gen.AgentsGet

/-- every part of Gen/AgentsGet.lean is a translation (no placeholder) -/
theorem C19_gen_get_translated : Gen.AgentsGet.untranslated = [] := by decide

/-- an append loop is a `mapM` -/
theorem forAppend_eq {α β} (f : α → Option β) : ∀ (xs : List α) (out : List β),
    forAppend xs f out = (xs.mapM f).map (out ++ ·) := by
  intro xs
  induction xs with
  | nil => intro out; simp [forAppend]
  | cons x r ih =>
    intro out
    unfold forAppend at ih ⊢
    rw [List.foldlM_cons, List.mapM_cons]
    cases hx : f x with
    | none => simp
    | some y =>
      simp only [Option.map_some, Option.bind_eq_bind, Option.bind_some, Option.pure_def]
      rw [ih]
      cases List.mapM f r <;> simp

theorem forAppend_nil {α β} (f : α → Option β) (xs : List α) : forAppend xs f [] = xs.mapM f := by
  rw [forAppend_eq]; cases List.mapM f xs <;> simp

theorem sub_eq_lookup (tb : Table) (k : Nat) : Dict.sub tb k = tb.lookup k := rfl

/-- **The probability vector is indexed by action number** — the translated `ProbabilisticAgent.probabilities`, on EVERY
table (covered or not, keys in any written order): entry `i` is the weight configured for key `i`, `KeyError` exactly when
the model says so. -/
theorem C19_gen_prob_vector (tb : Table) : probabilities tb = tb.vectorByKey := by
  simp [probabilities, Table.vectorByKey, sub_eq_lookup, rescale, forAppend_nil]
  try (split <;> simp_all)      -- a vector first bound to a local (`match … with | none => none | some v => some v`)

def optOf : ChoiceOut → Option Nat
  | .chose i => some i
  | .raised => none

/-- The translated `ProbabilisticAgent.get_action`, given numpy's `choice` as modelled, hands `action_manager.get_action`
the index the model says (`probAgentChoice` with the by-key vector). -/
theorem C19_gen_prob_get_action (tb : Table) (n : Nat) (u : Unif) :
    probGetAction (fun n p => optOf (choice n p u)) n tb = optOf (probAgentChoice .byKey tb n u) := by
  unfold probGetAction probAgentChoice Table.vector
  rw [C19_gen_prob_vector]
  cases tb.vectorByKey with
  | none => rfl
  | some ws => simp only []; cases choice n ws u <;> rfl

/-- What `…values()` gives is the model's insertion-order vector … -/
theorem C19_values_vector_is_insertion (tb : Table) : some (rescale (Dict.vals tb)) = tb.vector .insertion := rfl

/-- … and the insertion-order vector is NOT the by-key vector: a covered table whose keys are written in descending order
(the counter-model of the seeded change C19-h), with a draw that then selects an action of configured probability 0. -/
theorem C19_insertion_vector_counter_model :
    ∃ tb : Table, tb.covered = true ∧ tb.vector .insertion ≠ tb.vectorByKey ∧
      ∃ u : Unif, u.num < u.den ∧ ∃ i, probAgentChoice .insertion tb 2 u = .chose i ∧ tb.lookup i = some 0 :=
  ⟨[(1, 0), (0, 4)], by decide, by decide, ⟨1, 2⟩, by decide, 1, by decide, by decide⟩

def encP (s : PeriodicState) : Per := { next := s.next, numExec := s.numExec }

/-- The translated `PeriodicAgent.get_action` (with `_set_next_execution_timestep` translated as its callee) is the model's
`periodicStep`, on every state of a live agent whose start node can be selected: they raise together; otherwise the two
attributes agree, do-nothing / execute agree, and the parameters of the execute action are the pinned source expressions. -/
theorem C19_gen_periodic_get_action (c : PeriodicCfg) (s : PeriodicState) (t d : Int) (k : Nat) (hd : s.dead = false)
    (hk : s.startNode.isSome = true ∨ k < c.nStartNodes) :
    ((periodicGetAction c.maxExecutions c.frequency c.variance t d (encP s)).1.raised = true ↔ (periodicStep c s t d k).2 = .raised) ∧
    ((periodicGetAction c.maxExecutions c.frequency c.variance t d (encP s)).1.raised = false →
      (periodicGetAction c.maxExecutions c.frequency c.variance t d (encP s)).1.next = (periodicStep c s t d k).1.next ∧
      (periodicGetAction c.maxExecutions c.frequency c.variance t d (encP s)).1.numExec = (periodicStep c s t d k).1.numExec ∧
      (((periodicGetAction c.maxExecutions c.frequency c.variance t d (encP s)).2 = ("do-nothing", []) ∧ (periodicStep c s t d k).2 = .doNothing) ∨
       ((periodicGetAction c.maxExecutions c.frequency c.variance t d (encP s)).2 = ("node-application-execute", periodicActionParams) ∧
          ∃ n, (periodicStep c s t d k).2 = .execute n))) := by
  obtain ⟨nx, ne, sn, dead⟩ := s
  simp only at hd hk
  subst hd
  unfold periodicGetAction periodicStep periodicSetNext encP randintOk
  by_cases hg : t = nx ∧ ne < c.maxExecutions
  · by_cases hv : 0 ≤ c.variance
    · have hv' : -c.variance ≤ c.variance := by omega
      cases sn with
      | some n => simp [hg, hv, hv', periodicActionParams]
      | none =>
        have hk' : k < c.nStartNodes := by simpa using hk
        simp [hg, hv, hv', hk', periodicActionParams]
    · have hv' : ¬ (-c.variance ≤ c.variance) := by omega
      simp [hg, hv, hv']
  · have hg' : ((t == nx) && decide (ne < c.maxExecutions)) = false := by
      by_cases h1 : t = nx <;> by_cases h2 : ne < c.maxExecutions <;> simp_all
    simp [hg, hg']

/-- **`ScanSimOk` tie** (for `C19_tap1_validated_never_raises_sim`, Props/C19NoRaise1.lean).  Regenerated from nmap.py /
request.py / TAP001.py on every run: every SUCCESS response of the three NMAP request handlers carries either the dict literal
`{"live_hosts": results}` (ping scan) or the dictionary `results` the json-serialisable `port_scan` / `network_service_recon`
return (host ↦ protocol ↦ ports); every other site is `RequestResponse.from_bool(False)`, whose data is `{}`; each of the three
requests has a success site.  TAP001 touches the data of a response nowhere but in `_scan_handler` under
`previous_scan_response.status == "success"`, and `_scan_action_response_handler` uses it only through `.get("live_hosts")`,
`.get(target_ip, {}).items()`, iteration, comparison, or by passing it on — all total on the two shapes above (`ScanData.hosts`
/ `ScanData.ports`): a further use (a subscript, an attribute) or a further site breaks this theorem. -/
theorem C19_gen_scan_resp_sites :
    (∀ s ∈ nmapScanSites, s.2.2.1 = "success" →
        (s.1 = "ping_scan" ∧ s.2.2.2 = "{'live_hosts': results}" ∧ s.2.1 = "self.ping_scan/json") ∨
        (s.1 = "port_scan" ∧ s.2.2.2 = "results" ∧ s.2.1 = "self.port_scan/json") ∨
        (s.1 = "network_service_recon" ∧ s.2.2.2 = "results" ∧ s.2.1 = "self.network_service_recon/json")) ∧
    (∀ s ∈ nmapScanSites, s.2.2.1 ≠ "success" → s.2.2.2 = "{}") ∧ fromBoolData = ["{}"] ∧
    (∀ r ∈ ["ping_scan", "port_scan", "network_service_recon"], ∃ s ∈ nmapScanSites, s.1 = r ∧ s.2.2.1 = "success") ∧
    (∀ u ∈ tap1ScanUses, u ∈ ["for-in", "compare", "passed-on", ".get('live_hosts')",
        ".get(self.network_knowledge.get('target_ip'), {}).items()"]) ∧
    tap1ScanGuards = ["previous_scan_response.status == 'success'"] ∧ tap1OtherDataReaders = [] := by decide

end Primaite.Agents
