/-
C16 — closed forms over the whole nesting of terminal commands (the companions of `FileChain` / `C16_command_runs_only_live_closed`):

* `LoginChain`, `C16_remote_session_only_by_valid_login_closed`: a remote session that a node did not list before an operation was
  created by a login with valid credentials under the limit — sent directly, or carried through a chain of accepted terminal
  commands, every hop of which ran on a live session / with valid local credentials.
* `ClockChain`, `C16_clock_moved_closed`: if the inactivity clock of session `i` of node `y` was moved by an operation, then a remote
  command was accepted ON THAT VERY SESSION — by the operation itself or by a command nested inside it, each enclosing hop accepted
  too — and the clock now reads the current step.  This is "exactly which clock moved" as one statement.
-/
import PrimaiteModel.Props.C16Local
namespace Primaite.Session

/-! ### helpers: the bookkeeping of an accepted command leaves the session lists alone -/

theorem touch_node_ids (n : Net) (z cid t y : Nat) (b : Node) (hb : n.node y = some b) :
    ∃ b1, (n.upd z (Node.touch cid t)).node y = some b1 ∧ b1.rem.map (·.id) = b.rem.map (·.id) ∧
      (∀ s ∈ b.rem, (z ≠ y ∨ s.id ≠ cid) → s ∈ b1.rem) := by
  by_cases hz : z = y
  · subst hz
    refine ⟨b.touch cid t, by simp [hb], touch_ids b cid t, fun s hs h => ?_⟩
    rcases h with h | h
    · exact (h rfl).elim
    · exact (touch_exactly b cid t).1 s hs h
  · exact ⟨b, by simp [hz, hb], rfl, fun s hs _ => hs⟩

/-- remote sessions untouched -/
def KeepRem : Nat → Node → Node → Prop := fun _ a b => b.rem = a.rem

theorem keepRem_pre : Pre KeepRem := { refl := fun _ _ => rfl, trans := fun _ _ _ _ h1 h2 => h2.trans h1 }

theorem localBook_keepRem (n : Net) (x : Nat) (u p : String) (id : Nat) :
    Net.Rel KeepRem n ((localLogin n x u p).1.upd x (Node.addConn ⟨id, none⟩)) :=
  keepRem_pre.rel_upd (keepRem_pre.localLogin n x u p (fun _ _ => rfl)) x _ (fun _ => rfl)

theorem fresh_touch {n : Net} (hf : FreshIds n) (z cid t : Nat) : FreshIds (n.upd z (Node.touch cid t)) :=
  fresh_of_remShrink (remShrink_frame.rel_upd (remShrink_frame.rel_refl n) z _ (fun a => remShrink_edits.touch z a cid t))
    (Nat.le_refl _) hf

theorem fresh_localBook {n : Net} (hf : FreshIds n) (x : Nat) (u p : String) (id : Nat) :
    FreshIds ((localLogin n x u p).1.upd x (Node.addConn ⟨id, none⟩)) := by
  refine fresh_of_remShrink ?_ (localLogin_nextId n x u p) hf
  exact (localBook_keepRem n x u p id).mono (fun _ a b h => by unfold RemShrink; rw [h]; exact List.Sublist.refl _)

/-! ### sessions appear only by a valid login: closed form -/

/-- "Operation `op`, started in state `n`, makes node `y` list the new remote session `s`": a remote login towards `y` (sender ON,
request direction open, existing enabled account and its current password on `y`, `y` ON with both managers RUNNING, fewer than
`max_remote_sessions` sessions) whose session is `s`; or the direct `user-session-manager remote_login` request under the same
conditions on `y`; or an accepted remote / local terminal command whose carried command is again such a chain. -/
inductive LoginChain : Net → Op → Nat → RSession → Prop
  | login (n : Net) (x y : Nat) (u p : String) (b c : Node) (hb : n.node y = some b) (hauth : AuthOK b u p)
      (hlt : b.rem.length < b.maxRemote) (hpath : canDeliver n x y = true) (hx : n.node x = some c) (hon : c.isOn = true) :
      LoginChain n (.req x (.remoteLogin y u p)) y ⟨n.nextId, u, n.time, x⟩
  | direct (n : Net) (y : Nat) (u p : String) (peer : Nat) (b : Node) (hb : n.node y = some b) (hauth : AuthOK b u p)
      (hlt : b.rem.length < b.maxRemote) : LoginChain n (.req y (.usmLogin u p peer)) y ⟨n.nextId, u, n.time, peer⟩
  | remote (n : Net) (x z : Nat) (c : Cmd) (a' b' : Node) (cn : Conn) (y : Nat) (s : RSession) (arr : CmdArrives n x z a' b' cn)
      (hs : b'.hasSession cn.id = true) (hc : b'.hasConn cn.id = true)
      (rest : LoginChain (n.upd z (Node.touch cn.id n.time)) (.req z c) y s) : LoginChain n (.req x (.remoteCmd z c)) y s
  | local (n : Net) (x : Nat) (u p : String) (c : Cmd) (nd : Node) (id : Nat) (y : Nat) (s : RSession) (hnd : n.node x = some nd)
      (hon : nd.isOn = true) (hok : nd.loginOk u p = true) (hrun : nd.term.running = true)
      (hid : (localLogin n x u p).2 = some id)
      (rest : LoginChain ((localLogin n x u p).1.upd x (Node.addConn ⟨id, none⟩)) (.req x c) y s) :
      LoginChain n (.req x (.localCmd u p c)) y s

/-- **C16, logins (remote), closed form over the whole nesting.** If after any operation node `y` lists a remote session whose id
it did not list before, the operation is a `LoginChain` for that session: a login with the current password of an existing, enabled
account of `y`, under the limit, `y` ON with both managers RUNNING — and every terminal hop it travelled through was accepted on a
live session (or with valid local credentials).  No depth bound. -/
theorem C16_remote_session_only_by_valid_login_closed (n : Net) (op : Op) (y : Nat) (b a : Node) (hb : n.node y = some b)
    (ha : (step n op).1.node y = some a) (s : RSession) (hs : s ∈ a.rem) (hnew : s.id ∉ b.rem.map (·.id)) :
    LoginChain n op y s := by
  have quiet : ∀ {n : Net} {op : Op} {b a : Node}, op.noLogin = true → n.node y = some b → (step n op).1.node y = some a →
      s ∈ a.rem → s.id ∉ b.rem.map (·.id) → False :=
    fun h hb ha hs hnew => no_new_of_remShrink (step_remShrink _ _ h) hb ha hs hnew
  cases op with
  | req x c =>
    induction c generalizing n x b with
    | remoteCmd z c ih =>
      rcases C16_remote_session_only_by_valid_login n _ y b a hb ha s hs hnew with ⟨_, _, _, h, _⟩ | ⟨_, _, _, h, _⟩ | h
      · cases h
      · cases h
      · cases h with
        | «local» y' u p c' nd id hop => cases hop
        | remote x' z' c' a' b' cn hop arr hs' hc heq =>
          cases hop
          rw [heq] at ha
          obtain ⟨b1, hb1, hids, _⟩ := touch_node_ids n z cn.id n.time y b hb
          exact LoginChain.remote n x z c a' b' cn y s arr hs' hc (ih _ b1 hb1 (by rw [hids]; exact hnew) z ha)
    | localCmd u p c ih =>
      rcases C16_remote_session_only_by_valid_login n _ y b a hb ha s hs hnew with ⟨_, _, _, h, _⟩ | ⟨_, _, _, h, _⟩ | h
      · cases h
      · cases h
      · cases h with
        | remote x' z' c' a' b' cn hop => cases hop
        | «local» y' u' p' c' nd id hop hnd hon hok hrun hid heq =>
          cases hop
          rw [heq] at ha
          obtain ⟨b1, hb1, hrem⟩ := (localBook_keepRem n x u p id).node y b hb
          exact LoginChain.local n x u p c nd id y s hnd hon hok hrun hid (ih _ b1 hb1 (by rw [hrem]; exact hnew) x ha)
    | remoteLogin z u p =>
      rcases C16_remote_session_only_by_valid_login n _ y b a hb ha s hs hnew with
        ⟨x', u', p', h, hauth, hlt, hpath, ⟨c, hc, hon⟩, hseq, _⟩ | ⟨_, _, _, h, _⟩ | h
      · cases h; rw [hseq]; exact LoginChain.login n x y u p b c hb hauth hlt hpath hc hon
      · cases h
      · exact (not_carried_of_atomic rfl h).elim
    | usmLogin u p peer =>
      rcases C16_remote_session_only_by_valid_login n _ y b a hb ha s hs hnew with
        ⟨_, _, _, h, _⟩ | ⟨u', p', peer', h, hauth, hlt, hseq, _⟩ | h
      · cases h
      · cases h; rw [hseq]; exact LoginChain.direct n y u p peer b hb hauth hlt
      · exact (not_carried_of_atomic rfl h).elim
    | file k => exact (quiet rfl hb ha hs hnew).elim
    | addUser u p adm => exact (quiet rfl hb ha hs hnew).elim
    | disableUser u => exact (quiet rfl hb ha hs hnew).elim
    | changePassword u o nw => exact (quiet rfl hb ha hs hnew).elim
    | remoteLogoff z => exact (quiet rfl hb ha hs hnew).elim
    | usmLogout i => exact (quiet rfl hb ha hs hnew).elim
    | svc w v => exact (quiet rfl hb ha hs hnew).elim
    | shutdown => exact (quiet rfl hb ha hs hnew).elim
    | startup => exact (quiet rfl hb ha hs hnew).elim
    | reset => exact (quiet rfl hb ha hs hnew).elim
  | enableUser y' u => exact (quiet rfl hb ha hs hnew).elim
  | addUserBypass y' u p adm => exact (quiet rfl hb ha hs hnew).elim
  | localLogin y' u p => exact (quiet rfl hb ha hs hnew).elim
  | localLogout y' => exact (quiet rfl hb ha hs hnew).elim
  | tick => exact (quiet rfl hb ha hs hnew).elim
  | setBlock x' y' on => exact (quiet rfl hb ha hs hnew).elim

/-! ### exactly which clock moved: closed form -/

/-- "Operation `op`, started in state `n`, sets the inactivity clock of session `i` of node `y`": a remote command towards `y` that
arrived on a connection with id `i`, `i` being at that moment a remote session and a connection of `y` (`here`: this hop is the
activity of session `i`); or an accepted remote / local command (on whatever session) whose carried command is again such a chain. -/
inductive ClockChain : Net → Op → Nat → Nat → Prop
  | here (n : Net) (x y : Nat) (c : Cmd) (a' b' : Node) (cn : Conn) (arr : CmdArrives n x y a' b' cn)
      (hs : b'.hasSession cn.id = true) (hc : b'.hasConn cn.id = true) : ClockChain n (.req x (.remoteCmd y c)) y cn.id
  | remote (n : Net) (x z : Nat) (c : Cmd) (a' b' : Node) (cn : Conn) (y i : Nat) (arr : CmdArrives n x z a' b' cn)
      (hs : b'.hasSession cn.id = true) (hc : b'.hasConn cn.id = true)
      (rest : ClockChain (n.upd z (Node.touch cn.id n.time)) (.req z c) y i) : ClockChain n (.req x (.remoteCmd z c)) y i
  | local (n : Net) (x : Nat) (u p : String) (c : Cmd) (nd : Node) (id : Nat) (y i : Nat) (hnd : n.node x = some nd)
      (hon : nd.isOn = true) (hok : nd.loginOk u p = true) (hrun : nd.term.running = true)
      (hid : (localLogin n x u p).2 = some id)
      (rest : ClockChain ((localLogin n x u p).1.upd x (Node.addConn ⟨id, none⟩)) (.req x c) y i) :
      ClockChain n (.req x (.localCmd u p c)) y i

theorem clockChain_of_step (n : Net) (hf : FreshIds n) (op : Op) (y : Nat) (b a : Node) (hb : n.node y = some b)
    (ha : (step n op).1.node y = some a) (s s' : RSession) (hs : s ∈ b.rem) (hs' : s' ∈ a.rem) (hid : s'.id = s.id)
    (hne : s' ≠ s) : ClockChain n op y s.id := by
  cases op with
  | req x c =>
    induction c generalizing n x b with
    | remoteCmd z c ih =>
      have hcar := C16_clock_moves_only_by_accepted_command n hf _ y b a hb ha s s' hs hs' hid hne
      cases hcar with
      | «local» y' u p c' nd id hop => cases hop
      | remote x' z' c' a' b' cn hop arr hss hc heq =>
        cases hop
        by_cases hhere : z = y ∧ cn.id = s.id
        · obtain ⟨rfl, hcn⟩ := hhere
          rw [← hcn]
          exact ClockChain.here n x z c a' b' cn arr hss hc
        · rw [heq] at ha
          obtain ⟨b1, hb1, _, hkeep⟩ := touch_node_ids n z cn.id n.time y b hb
          have hs1 : s ∈ b1.rem := hkeep s hs (by
            by_cases hz : z = y
            · exact Or.inr (fun h => hhere ⟨hz, h.symm⟩)
            · exact Or.inl hz)
          exact ClockChain.remote n x z c a' b' cn y s.id arr hss hc
            (ih _ (fresh_touch hf z cn.id n.time) b1 hb1 hs1 z ha)
    | localCmd u p c ih =>
      have hcar := C16_clock_moves_only_by_accepted_command n hf _ y b a hb ha s s' hs hs' hid hne
      cases hcar with
      | remote x' z' c' a' b' cn hop => cases hop
      | «local» y' u' p' c' nd id hop hnd hon hok hrun hidl heq =>
        cases hop
        rw [heq] at ha
        obtain ⟨b1, hb1, hrem⟩ := (localBook_keepRem n x u p id).node y b hb
        exact ClockChain.local n x u p c nd id y s.id hnd hon hok hrun hidl
          (ih _ (fresh_localBook hf x u p id) b1 hb1 (by rw [hrem]; exact hs) x ha)
    | file k => exact (not_carried_of_atomic rfl (C16_clock_moves_only_by_accepted_command n hf _ y b a hb ha s s' hs hs' hid hne)).elim
    | addUser u p adm => exact (not_carried_of_atomic rfl (C16_clock_moves_only_by_accepted_command n hf _ y b a hb ha s s' hs hs' hid hne)).elim
    | disableUser u => exact (not_carried_of_atomic rfl (C16_clock_moves_only_by_accepted_command n hf _ y b a hb ha s s' hs hs' hid hne)).elim
    | changePassword u o nw => exact (not_carried_of_atomic rfl (C16_clock_moves_only_by_accepted_command n hf _ y b a hb ha s s' hs hs' hid hne)).elim
    | remoteLogin z u p => exact (not_carried_of_atomic rfl (C16_clock_moves_only_by_accepted_command n hf _ y b a hb ha s s' hs hs' hid hne)).elim
    | remoteLogoff z => exact (not_carried_of_atomic rfl (C16_clock_moves_only_by_accepted_command n hf _ y b a hb ha s s' hs hs' hid hne)).elim
    | usmLogin u p peer => exact (not_carried_of_atomic rfl (C16_clock_moves_only_by_accepted_command n hf _ y b a hb ha s s' hs hs' hid hne)).elim
    | usmLogout i => exact (not_carried_of_atomic rfl (C16_clock_moves_only_by_accepted_command n hf _ y b a hb ha s s' hs hs' hid hne)).elim
    | svc w v => exact (not_carried_of_atomic rfl (C16_clock_moves_only_by_accepted_command n hf _ y b a hb ha s s' hs hs' hid hne)).elim
    | shutdown => exact (not_carried_of_atomic rfl (C16_clock_moves_only_by_accepted_command n hf _ y b a hb ha s s' hs hs' hid hne)).elim
    | startup => exact (not_carried_of_atomic rfl (C16_clock_moves_only_by_accepted_command n hf _ y b a hb ha s s' hs hs' hid hne)).elim
    | reset => exact (not_carried_of_atomic rfl (C16_clock_moves_only_by_accepted_command n hf _ y b a hb ha s s' hs hs' hid hne)).elim
  | enableUser y' u =>
    cases C16_clock_moves_only_by_accepted_command n hf _ y b a hb ha s s' hs hs' hid hne with
    | remote x' z' c' a' b' cn hop => cases hop
    | «local» y'' u' p' c' nd id hop => cases hop
  | addUserBypass y' u p adm =>
    cases C16_clock_moves_only_by_accepted_command n hf _ y b a hb ha s s' hs hs' hid hne with
    | remote x' z' c' a' b' cn hop => cases hop
    | «local» y'' u' p' c' nd id hop => cases hop
  | localLogin y' u p =>
    cases C16_clock_moves_only_by_accepted_command n hf _ y b a hb ha s s' hs hs' hid hne with
    | remote x' z' c' a' b' cn hop => cases hop
    | «local» y'' u' p' c' nd id hop => cases hop
  | localLogout y' =>
    cases C16_clock_moves_only_by_accepted_command n hf _ y b a hb ha s s' hs hs' hid hne with
    | remote x' z' c' a' b' cn hop => cases hop
    | «local» y'' u' p' c' nd id hop => cases hop
  | tick =>
    cases C16_clock_moves_only_by_accepted_command n hf _ y b a hb ha s s' hs hs' hid hne with
    | remote x' z' c' a' b' cn hop => cases hop
    | «local» y'' u' p' c' nd id hop => cases hop
  | setBlock x' y' on =>
    cases C16_clock_moves_only_by_accepted_command n hf _ y b a hb ha s s' hs hs' hid hne with
    | remote x'' z' c' a' b' cn hop => cases hop
    | «local» y'' u' p' c' nd id hop => cases hop

/-- **C16, clock (exactly which clock moved), closed form over the whole nesting.** In a state with unique session ids: if after an
operation node `y` lists a session with the id of a session `s` it listed before but not the identical record, then somewhere in
the operation — at its top or nested inside accepted terminal commands — a remote command towards `y` was accepted on the connection
whose id is `s.id`, i.e. on THAT session (`ClockChain … y s.id`), and the session's clock now reads the current step.  A command
accepted on another session, on another node, or a refused one never moves this clock. -/
theorem C16_clock_moved_closed (n : Net) (hf : FreshIds n) (op : Op) (y : Nat) (b a : Node) (hb : n.node y = some b)
    (ha : (step n op).1.node y = some a) (s s' : RSession) (hs : s ∈ b.rem) (hs' : s' ∈ a.rem) (hid : s'.id = s.id)
    (hne : s' ≠ s) : ClockChain n op y s.id ∧ s'.last = n.time := by
  refine ⟨clockChain_of_step n hf op y b a hb ha s s' hs hs' hid hne, ?_⟩
  obtain ⟨a', ha', hab⟩ := (C16_clock_step n op).node y b hb
  rw [ha] at ha'; cases ha'
  rcases hab.rem s' hs' with h | h
  · exact (hne (eq_of_nodup_ids (hf y b hb).2 h hs hid)).elim
  · exact h

/-! ### non-vacuity -/

-- a nested command: 0 → 1 → 2.  The outer hop moves the clock of session 0 on node 1, the inner one that of session 1 on node 2
example : ((run demoNet [login01, cmd01 (.remoteLogin 2 "admin" "admin"), .tick]).node 1).map (·.rem.map (·.last)) = some [0] ∧
    ((run demoNet [login01, cmd01 (.remoteLogin 2 "admin" "admin"), .tick, cmd01 (.remoteCmd 2 (.file 9))]).node 1).map
      (·.rem.map (·.last)) = some [1] ∧
    ((run demoNet [login01, cmd01 (.remoteLogin 2 "admin" "admin"), .tick, cmd01 (.remoteCmd 2 (.file 9))]).node 2).map
      (·.rem.map (·.last)) = some [1] := by decide
-- a login carried through an accepted command creates the session on node 2 (hypotheses of the closed login form)
example : ((run demoNet [login01]).node 2).map (·.rem.length) = some 0 ∧
    ((run demoNet [login01, cmd01 (.remoteLogin 2 "admin" "admin")]).node 2).map (·.rem.length) = some 1 := by decide

end Primaite.Session
