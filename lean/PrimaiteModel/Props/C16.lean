/-
C16 — logins need valid credentials; remote commands need a live session.
Property theorems only; the model is `Model/Session.lean`.
-/
import PrimaiteModel.Lemmas.SessionFuel
import PrimaiteModel.Gen.Session
namespace Primaite.Session

/-! ### translator tie: what the model assumes about the source is what the source says now -/

def showSvcState : SvcState → String
  | .running => "RUNNING" | .stopped => "STOPPED" | .paused => "PAUSED" | .disabled => "DISABLED"
  | .installing => "INSTALLING" | .restarting => "RESTARTING"

def Verb.name : Verb → String
  | .stop => "stop" | .start => "start" | .pause => "pause" | .resume => "resume" | .restart => "restart"
  | .disable => "disable" | .enable => "enable"

def Verb.all : List Verb := [.stop, .start, .pause, .resume, .restart, .disable, .enable]

/-- defaults of `UserSessionManager` / `Service` are the defaults of the model's `Node` -/
theorem C16_gen_defaults :
    ({} : Node).localTimeout = Gen.Session.localTimeoutDefault ∧
    ({} : Node).remoteTimeout = Gen.Session.remoteTimeoutDefault ∧
    ({} : Node).maxRemote = Gen.Session.maxRemoteDefault ∧
    ({} : Node).restartDur = Gen.Session.restartDurationDefault := by decide

/-- comparison operators: time-out is `last + timeout ≤ t` (model: `Node.expired`, `Node.localExpired`),
the limit is `len ≥ max` (model: login needs `len < max`) -/
theorem C16_gen_comparisons :
    -- the time-out comparisons, `validate_remote_session_uuid` and the limit comparison are no longer textual pins: the methods are
    -- translated and proved equal to the model in Props/C16Tr.lean (`C16_gen_pre_timestep`, `C16_gen_session_validation`,
    -- `C16_gen_login_guards`); what stays here is the assignment `self.current_timestep = timestep`
    Gen.Session.preTimestepSetsCurrent = true := by decide

/-- guard shapes the model's `authenticate`, `loginOk`, `changePassword`, `disableUser`, `logoutUser` rely on -/
theorem C16_gen_guards :
    -- `authenticate_user`, `_login`, `disable_user` / `_is_last_admin` are no longer textual pins: they are translated statement by
    -- statement and proved equal to the model's tests in Props/C16Tr.lean (`C16_gen_login_guards`, `C16_gen_disable_user`)
    Gen.Session.chpwGuarded = true ∧
    Gen.Session.chpwTest = ["user", "user.password == current_password"] ∧
    Gen.Session.chpwSetsPasswordAndLogsOut = true ∧
    Gen.Session.logoutUserReturnsInsideLoop = false ∧
    Gen.Session.logoutUserIteratesSnapshotOfUsersSessions = true ∧
    Gen.Session.logoutUserForced = true ∧
    Gen.Session.logoutGuardSkippedOnlyWhenForced = true ∧
    Gen.Session.adminsExpr = "{k: v for k, v in self.users.items() if v.is_admin and (not v.disabled)}" ∧
    Gen.Session.userDeletions = [] ∧
    Gen.Session.timeoutToleratesMissingConnection = true := by decide

/-- terminal: a command is executed only under `_check_client_connection`, which is "live session and known connection";
`send_remote_command` answers from the response to *this* command only; closed ports drop frames -/
theorem C16_gen_terminal :
    Gen.Session.executeOnlyUnderValidConnection = true ∧
    Gen.Session.remoteCommandClearsLastResponse = true ∧
    Gen.Session.remoteCommandAnswersFailureWithoutResponse = true ∧
    Gen.Session.hostDropsFramesForClosedPorts = true := by decide

/-- the direct requests of the session manager (`opUsmLogin`, `opUsmLogout`), `enable_user` (`opEnableUser`: no guard, not a
request) and the zero-duration branches of `power_off` / `power_on` (`Node.powerOff`, `Node.powerOn`) are what the model says -/
theorem C16_gen_direct_requests :
    Gen.Session.usmLoginAnswersBool = true ∧ Gen.Session.usmLogoutHandler = true ∧
    Gen.Session.logoutPopTolerant = true ∧ Gen.Session.logoutDisconnectsThenPops = true ∧
    Gen.Session.userManagerRequests = ["add_user", "disable_user", "change_password"] ∧
    Gen.Session.enableUserShape = true ∧
    Gen.Session.powerOffZero = ["for: network_interface.disable()", "self._shut_down_actions()",
      "self.operating_state = NodeOperatingState.OFF",
      "if self.config.is_resetting: self.config.is_resetting = False; self.power_on()", "return True"] ∧
    Gen.Session.powerOnZero = ["self.operating_state = NodeOperatingState.ON", "self._start_up_actions()",
      "for: network_interface.enable()", "return True"] := by decide

/-- the service verbs of the model carry the validators of `Service._init_request_manager` -/
theorem C16_gen_service_verbs :
    ∀ v ∈ Verb.all, (v.name, s!"self.{v.name}()", (match v.needs with | some q => showSvcState q | none => "-"))
      ∈ Gen.Session.serviceVerbs := by decide

/-- the states each lifecycle method accepts, and the enum, are the model's -/
theorem C16_gen_service_methods :
    Gen.Session.methodStates =
      [("stop", ["PAUSED", "RUNNING"]), ("start", ["STOPPED"]), ("pause", ["RUNNING"]), ("resume", ["PAUSED"]),
       ("restart", ["PAUSED", "RUNNING"]), ("enable", ["DISABLED"]), ("disable", [])] ∧
    Gen.Session.restartFinishTest = "self.restart_countdown <= 0" ∧
    Gen.Session.svcStates = [("RUNNING", 1), ("STOPPED", 2), ("PAUSED", 3), ("DISABLED", 4), ("INSTALLING", 5), ("RESTARTING", 6)] := by
  decide

/-! ### terminal commands: what an accepted command is -/

/-- The operation is a terminal command that was *accepted*; what happens next is the execution of the carried command `c`
as a request of its own (`step … (.req z c)`, so every theorem of this file applies to it again, to any depth) in a state
that differs from `n` only by the bookkeeping of the acceptance.
* `remote`: sent by `x` (ON, terminal RUNNING) over an open path on its first connection to `z`, whose id is at that moment
  a remote session of `z` **and** a connection of `z`'s terminal; the bookkeeping is the session's `last_active_step`.
* `local`: credentials passing `_login` on `y` (existing enabled account, current password, node ON, both managers RUNNING)
  while the terminal is RUNNING; the bookkeeping is the local login and its `LocalTerminalConnection`. -/
inductive Carried (n : Net) (op : Op) : Prop
  | remote (x z : Nat) (c : Cmd) (a' b' : Node) (cn : Conn) (hop : op = .req x (.remoteCmd z c))
      (arr : CmdArrives n x z a' b' cn) (hs : b'.hasSession cn.id = true) (hc : b'.hasConn cn.id = true)
      (heq : (step n op).1 = (step (n.upd z (Node.touch cn.id n.time)) (.req z c)).1)
  | local (y : Nat) (u p : String) (c : Cmd) (nd : Node) (id : Nat) (hop : op = .req y (.localCmd u p c))
      (hnd : n.node y = some nd) (hon : nd.isOn = true) (hok : nd.loginOk u p = true) (hrun : nd.term.running = true)
      (hid : (localLogin n y u p).2 = some id)
      (heq : (step n op).1 = (step ((localLogin n y u p).1.upd y (Node.addConn ⟨id, none⟩)) (.req y c)).1)

/-- **C16, remote commands.** A remote terminal command (whatever it carries) has exactly three outcomes: nothing happens;
the target tears the connection down because its id is not a live session (only sessions / connections disappear); or the
command was accepted on a live session and the carried command is executed. -/
theorem C16_remote_command_outcomes (n : Net) (x z : Nat) (c : Cmd) :
    ((step n (.req x (.remoteCmd z c))).1 = n ∧ (step n (.req x (.remoteCmd z c))).2 ≠ .success) ∨
    (n.Shr (step n (.req x (.remoteCmd z c))).1 ∧ (step n (.req x (.remoteCmd z c))).2 = .failure) ∨
    Carried n (.req x (.remoteCmd z c)) := by
  rcases opRemoteCmdK_cases (fun m => execCmd c m z) n x z with ⟨h0, h1⟩ | ⟨a, b, cn, arr, ⟨hs, hc, h0, _⟩ | ⟨_, h0, h1⟩⟩
  · exact Or.inl ⟨h0, h1⟩
  · exact Or.inr (Or.inr (Carried.remote x z c a b cn rfl arr hs hc h0))
  · refine Or.inr (Or.inl ⟨?_, h1⟩)
    show n.Shr (opRemoteCmdK _ n x z).1
    rw [h0]; exact shr_disconnect _ _ _ _

theorem localLogin_some_ok {n : Net} {y : Nat} {u p : String} {id : Nat} {nd : Node} (hnd : n.node y = some nd)
    (hid : (localLogin n y u p).2 = some id) : nd.loginOk u p = true := by
  rcases localLogin_cases n y u p with h1 | ⟨nd', hnd', hok, _⟩
  · rw [h1] at hid; cases hid
  · rw [hnd] at hnd'; cases hnd'; exact hok

/-- **C16, local commands.** A local terminal command has four outcomes: nothing; a refused login; a login whose command is
not executed because the terminal is not RUNNING; or valid credentials, terminal RUNNING and the carried command executed. -/
theorem C16_local_command_outcomes (n : Net) (y : Nat) (u p : String) (c : Cmd) :
    (step n (.req y (.localCmd u p c))).1 = n ∨
    (step n (.req y (.localCmd u p c))).1 = (localLogin n y u p).1 ∨
    (∃ id, (step n (.req y (.localCmd u p c))).1 = (localLogin n y u p).1.upd y (Node.addConn ⟨id, none⟩)) ∨
    Carried n (.req y (.localCmd u p c)) := by
  rcases opLocalCmdK_cases (fun m => execCmd c m y) n y u p with h0 | ⟨nd, hnd, hon, ⟨_, h0⟩ | ⟨id, hid, ⟨_, h0⟩ | ⟨hr, h0⟩⟩⟩
  · exact Or.inl h0
  · exact Or.inr (Or.inl h0)
  · exact Or.inr (Or.inr (Or.inl ⟨id, h0⟩))
  · exact Or.inr (Or.inr (Or.inr (Carried.local y u p c nd id rfl hnd hon (localLogin_some_ok hnd hid) hr hid h0)))

theorem not_carried_of_atomic {n : Net} {y : Nat} {c : Cmd} (hc : c.atomic = true) : ¬ Carried n (.req y c) := by
  intro h
  cases h with
  | remote x z c' a' b' cn hop => cases hop; cases hc
  | «local» y' u p c' nd id hop => cases hop; cases hc

/-! ### commands are executed only on a live session (or with valid local credentials) -/

/-- files of every node untouched -/
def KeepFiles : Nat → Node → Node → Prop := fun _ a b => b.files = a.files

theorem keepFiles_frame : Frame KeepFiles :=
  { refl := fun _ _ => rfl, trans := fun _ _ _ _ h1 h2 => Eq.trans h2 h1,
    shr := fun _ _ _ h => h.files, data := fun _ _ _ h => data_files h }

theorem keepFiles_edits : Edits KeepFiles := ⟨fun _ _ _ => rfl, fun _ _ _ _ => rfl, fun _ _ _ => rfl, fun _ _ _ _ => rfl⟩

/-- a request without a file command anywhere inside leaves every file alone -/
theorem exec_keepFiles (c : Cmd) (hf : c.noFile = true) (n : Net) (y : Nat) : Net.Rel KeepFiles n (execCmd c n y).1 :=
  keepFiles_frame.exec keepFiles_edits (fun n y u => keepFiles_frame.toPre.disableUser n y u (fun _ => rfl)) c
    (fun _ n y u p => keepFiles_frame.toPre.localLogin n y u p (fun _ _ => rfl)) (fun _ _ _ _ => rfl)
    (fun h => by rw [hf] at h; cases h) n y

/-- **C16, commands.** Whatever the operation, the files of node `y` change only if
* the operation is the direct file request to `y` (the agent's own action; `y` is ON, exactly that file is added), or
* the operation is a terminal command that was accepted (`Carried`: live session and known connection at the target, or valid
  local credentials) — and then the change is made by the carried command, executed as a request of its own, to which this
  theorem applies again. -/
theorem C16_command_runs_only_live (n : Net) (op : Op) (y : Nat) (b a : Node)
    (hb : n.node y = some b) (ha : (step n op).1.node y = some a) (hne : a.files ≠ b.files) :
    (∃ k, op = .req y (.file k) ∧ b.isOn = true ∧ a.files = b.files ++ [k]) ∨ Carried n op := by
  have contra : Net.Rel KeepFiles n (step n op).1 → False := fun h => by
    obtain ⟨a', ha', hk⟩ := h.node y b hb
    rw [ha] at ha'; cases ha'; exact hne hk
  have F := keepFiles_frame
  cases op with
  | enableUser y' u => exact (contra (F.toPre.enableUser n y' u (fun _ => rfl))).elim
  | addUserBypass y' u p adm => exact (contra (F.toPre.addUserBypass n y' u p adm (fun _ _ => rfl))).elim
  | localLogin y' u p =>
    refine (contra ?_).elim
    simp only [step]; rw [opLocalLogin_fst]; exact F.toPre.localLogin n y' u p (fun _ _ => rfl)
  | localLogout y' => exact (contra (F.localLogout n y')).elim
  | tick => exact (contra (F.tick n)).elim
  | setBlock x' y' on => exact (contra (rel_setBlock F.refl n x' y' on)).elim
  | req y' c =>
    cases c with
    | file k =>
      simp only [step, execCmd] at ha contra
      rcases opFile_cases n y' k with h0 | ⟨nd, hnd, hon, h0⟩
      · rw [h0] at contra; exact (contra (F.rel_refl n)).elim
      · rw [h0] at ha
        by_cases hy : y' = y
        · subst hy
          rw [hb] at hnd; cases hnd
          simp only [node_upd, if_true, hb, Option.map_some, Option.some.injEq] at ha
          subst ha
          exact Or.inl ⟨k, rfl, hon, rfl⟩
        · simp only [node_upd, hy, if_false] at ha
          rw [hb] at ha; cases ha; exact (hne rfl).elim
    | remoteCmd z c =>
      rcases C16_remote_command_outcomes n y' z c with ⟨h0, _⟩ | ⟨h0, _⟩ | h0
      · rw [h0] at contra; exact (contra (F.rel_refl n)).elim
      · exact (contra (F.rel_shr F.shr (F.rel_refl n) h0)).elim
      · exact Or.inr h0
    | localCmd u p c =>
      have hl : Net.Rel KeepFiles n (localLogin n y' u p).1 := F.toPre.localLogin n y' u p (fun _ _ => rfl)
      rcases C16_local_command_outcomes n y' u p c with h0 | h0 | ⟨id, h0⟩ | h0
      · rw [h0] at contra; exact (contra (F.rel_refl n)).elim
      · rw [h0] at contra; exact (contra hl).elim
      · rw [h0] at contra; exact (contra (F.rel_upd hl y' _ (fun _ => rfl))).elim
      · exact Or.inr h0
    | addUser u p adm => exact (contra (exec_keepFiles _ rfl n y')).elim
    | disableUser u => exact (contra (exec_keepFiles _ rfl n y')).elim
    | changePassword u o nw => exact (contra (exec_keepFiles _ rfl n y')).elim
    | remoteLogin z u p => exact (contra (exec_keepFiles _ rfl n y')).elim
    | remoteLogoff z => exact (contra (exec_keepFiles _ rfl n y')).elim
    | usmLogin u p peer => exact (contra (exec_keepFiles _ rfl n y')).elim
    | usmLogout i => exact (contra (exec_keepFiles _ rfl n y')).elim
    | svc w v => exact (contra (exec_keepFiles _ rfl n y')).elim
    | shutdown => exact (contra (exec_keepFiles _ rfl n y')).elim
    | startup => exact (contra (exec_keepFiles _ rfl n y')).elim
    | reset => exact (contra (exec_keepFiles _ rfl n y')).elim

/-- The simplest instance spelt out: a file command sent through a remote terminal changes the files of the target `y` only
if it arrived (sender ON, its terminal RUNNING, path open) on a connection whose id is at that moment a remote session of `y`
and a connection of `y`'s terminal, `y` ON; exactly the commanded file is added. -/
theorem C16_remote_file_command (n : Net) (x y k : Nat) (b a : Node)
    (hb : n.node y = some b) (ha : (step n (.req x (.remoteCmd y (.file k)))).1.node y = some a) (hne : a.files ≠ b.files) :
    ∃ a' cn, CmdArrives n x y a' b cn ∧ b.hasSession cn.id = true ∧ b.hasConn cn.id = true ∧ b.isOn = true ∧
      a.files = b.files ++ [k] := by
  rcases C16_command_runs_only_live n _ y b a hb ha hne with ⟨_, h, _⟩ | h
  · cases h
  · cases h with
    | «local» y' u p c' nd id hop => cases hop
    | remote x' z c' a' b' cn hop arr hs hc heq =>
      cases hop
      have hbb : b' = b := by have := arr.dst; rw [hb] at this; cases this; rfl
      subst hbb
      rw [heq] at ha
      have hb1 : (n.upd y (Node.touch cn.id n.time)).node y = some (b'.touch cn.id n.time) := by simp [hb]
      rcases C16_command_runs_only_live _ _ y _ a hb1 ha hne with ⟨k', hop, hon, hf⟩ | h2
      · cases hop
        exact ⟨a', cn, arr, hs, hc, hon, hf⟩
      · exact (not_carried_of_atomic rfl h2).elim

/-! ### sessions appear only through a valid login -/

/-- what `_login` demands: node ON, both managers RUNNING, an existing enabled account and its current password -/
structure AuthOK (nd : Node) (u p : String) : Prop where
  on : nd.power = .on
  usm : nd.usm.st = .running
  um : nd.um.st = .running
  user : ∃ w, nd.findUser u = some w ∧ w.disabled = false ∧ w.password = p

theorem findUser_some {nd : Node} {u : String} {w : User} (h : nd.findUser u = some w) : w ∈ nd.users ∧ w.name = u := by
  unfold Node.findUser at h
  exact ⟨List.mem_of_find?_eq_some h, by simpa using List.find?_some h⟩

theorem loginOk_iff (nd : Node) (u p : String) : nd.loginOk u p = true ↔ AuthOK nd u p := by
  unfold Node.loginOk Node.authenticate Node.canUsm Node.canUm Node.isOn Service.running
  constructor
  · intro h
    simp only [Bool.and_eq_true, beq_iff_eq] at h
    obtain ⟨⟨h1, h2⟩, ⟨_, h3⟩, h4⟩ := h
    refine ⟨h1, h2, h3, ?_⟩
    cases hf : nd.findUser u with
    | none => simp [hf] at h4
    | some w =>
      simp only [hf, Bool.and_eq_true, Bool.not_eq_true', beq_iff_eq] at h4
      exact ⟨w, rfl, h4.1, h4.2⟩
  · rintro ⟨h1, h2, h3, w, hw, hd, hp⟩
    simp [h1, h2, h3, hw, hd, hp]

/-- remote session ids only shrink -/
def RemShrink : Nat → Node → Node → Prop := fun _ a b => (b.rem.map (·.id)).Sublist (a.rem.map (·.id))

theorem remShrink_frame : Frame RemShrink :=
  { refl := fun _ _ => List.Sublist.refl _, trans := fun _ _ _ _ h1 h2 => List.Sublist.trans h2 h1,
    shr := fun _ _ _ h => h.rem.map _, data := fun _ _ _ h => by unfold RemShrink; rw [data_rem h]; exact List.Sublist.refl _ }

theorem touch_ids (b : Node) (cid t : Nat) : (b.touch cid t).rem.map (·.id) = b.rem.map (·.id) := by
  unfold Node.touch
  simp only [List.map_map]
  apply List.map_congr_left
  intro s _
  simp only [Function.comp]
  split <;> rfl

theorem remShrink_edits : Edits RemShrink :=
  ⟨fun j a _ => remShrink_frame.refl j a, fun j a _ _ => remShrink_frame.refl j a, fun j a _ => remShrink_frame.refl j a,
   fun _ a cid t => by unfold RemShrink; rw [touch_ids]; exact List.Sublist.refl _⟩

/-- every operation without a remote login anywhere inside leaves the set of remote session ids of every node inside the old
one -/
theorem step_remShrink (n : Net) (op : Op) (hop : op.noLogin = true) : Net.Rel RemShrink n (step n op).1 :=
  remShrink_frame.step' remShrink_edits (fun j a _ => remShrink_frame.refl j a) (fun j a _ => remShrink_frame.refl j a)
    (fun j a _ => remShrink_frame.refl j a) n op (fun h => by rw [hop] at h; cases h) (fun _ j a _ => remShrink_frame.refl j a)

theorem no_new_of_remShrink {n m : Net} (h : Net.Rel RemShrink n m) {y : Nat} {b a : Node} (hb : n.node y = some b)
    (ha : m.node y = some a) {s : RSession} (hs : s ∈ a.rem) (hnew : s.id ∉ b.rem.map (·.id)) : False := by
  obtain ⟨a', ha', hsub⟩ := h.node y b hb
  rw [ha] at ha'; cases ha'
  exact hnew (hsub.subset (List.mem_map_of_mem hs))

theorem addConn_rem (c : Conn) (b : Node) : (b.addConn c).rem = b.rem := rfl

/-- the remote sessions of node `y` after a remote login towards `y'` that was accepted by the target -/
theorem opRemoteLogin_rem (n : Net) (x y' : Nat) (u p : String) (y : Nat) (b a : Node)
    (hb : n.node y = some b) (ha : (opRemoteLogin n x y' u p).1.node y = some a)
    (h0 : ((opRemoteLogin n x y' u p).1 = afterLogin n x y' u ∧ canDeliver (afterLogin n x y' u) y' x = false ∧
          (opRemoteLogin n x y' u p).2 = .failure) ∨
       ((opRemoteLogin n x y' u p).1 = (afterLogin n x y' u).upd x (Node.addConn ⟨n.nextId, some y'⟩) ∧
          canDeliver (afterLogin n x y' u) y' x = true ∧ (opRemoteLogin n x y' u p).2 = .success)) :
    a.rem = if y' = y then b.rem ++ [⟨n.nextId, u, n.time, x⟩] else b.rem := by
  rcases h0 with ⟨h0, _⟩ | ⟨h0, _⟩ <;> rw [h0] at ha
  · simp only [afterLogin, node_bump, node_upd] at ha
    split at ha
    · rename_i h; subst h; rw [hb] at ha; simp only [Option.map_some, Option.some.injEq] at ha
      subst ha; simp [Node.addConn, Node.addSession]
    · rename_i h; rw [hb] at ha; cases ha; simp [h]
  · simp only [afterLogin, node_bump, node_upd] at ha
    by_cases h : y' = y
    · subst h
      simp only [if_true, hb, Option.map_some] at ha
      split at ha
      · simp only [Option.some.injEq] at ha; subst ha; simp [Node.addConn, Node.addSession]
      · simp only [Option.some.injEq] at ha; subst ha; simp [Node.addConn, Node.addSession]
    · simp only [h, if_false, hb] at ha
      split at ha
      · simp only [Option.map_some, Option.some.injEq] at ha; subst ha; simp [Node.addConn, h]
      · simp only [Option.some.injEq] at ha; subst ha; simp [h]

/-- **C16, logins (remote), "only if".** If after any operation node `y` holds a remote session whose id it did not hold
before, then
* the operation was a remote login towards `y` from a powered-on node `x` over an open path, with the current password of an
  existing, enabled account of `y`, `y` ON with both managers RUNNING, and fewer than `max_remote_sessions` sessions open
  before; the new session is that login's, its id is the fresh one, and nothing else was added; or
* it was the direct `user-session-manager remote_login` request to `y` under the same conditions on `y`; or
* it was an accepted terminal command (`Carried`), and the session was created by the carried command, to which this theorem
  applies again. -/
theorem C16_remote_session_only_by_valid_login (n : Net) (op : Op) (y : Nat) (b a : Node)
    (hb : n.node y = some b) (ha : (step n op).1.node y = some a) (s : RSession) (hs : s ∈ a.rem)
    (hnew : s.id ∉ b.rem.map (·.id)) :
    (∃ x u p, op = .req x (.remoteLogin y u p) ∧ AuthOK b u p ∧ b.rem.length < b.maxRemote ∧ canDeliver n x y = true ∧
      (∃ c, n.node x = some c ∧ c.isOn = true) ∧ s = ⟨n.nextId, u, n.time, x⟩ ∧ a.rem = b.rem ++ [s]) ∨
    (∃ u p peer, op = .req y (.usmLogin u p peer) ∧ AuthOK b u p ∧ b.rem.length < b.maxRemote ∧
      s = ⟨n.nextId, u, n.time, peer⟩ ∧ a.rem = b.rem ++ [s]) ∨
    Carried n op := by
  have quiet : op.noLogin = true → False := fun h => no_new_of_remShrink (step_remShrink n op h) hb ha hs hnew
  have contra : Net.Rel RemShrink n (step n op).1 → False := fun h => no_new_of_remShrink h hb ha hs hnew
  have F := remShrink_frame
  cases op with
  | enableUser y' u => exact (quiet rfl).elim
  | addUserBypass y' u p adm => exact (quiet rfl).elim
  | localLogin y' u p => exact (quiet rfl).elim
  | localLogout y' => exact (quiet rfl).elim
  | tick => exact (quiet rfl).elim
  | setBlock x' y' on => exact (quiet rfl).elim
  | req x c =>
    cases c with
    | remoteLogin y' u p =>
      simp only [step, execCmd] at ha
      rcases opRemoteLogin_cases n x y' u p with ⟨h0, _⟩ | ⟨c, b', hc, hcon, hdel, hb', hok, hlt, h0⟩
      · rw [h0, hb] at ha; cases ha; exact (hnew (List.mem_map_of_mem hs)).elim
      · have hrem := opRemoteLogin_rem n x y' u p y b a hb ha h0
        by_cases h : y' = y
        · subst h
          rw [hb] at hb'; cases hb'
          simp only [if_true] at hrem
          rw [hrem, List.mem_append, List.mem_singleton] at hs
          rcases hs with hs | hs
          · exact (hnew (List.mem_map_of_mem hs)).elim
          · subst hs
            exact Or.inl ⟨x, u, p, rfl, (loginOk_iff _ _ _).mp hok, hlt, hdel, ⟨c, hc, hcon⟩, rfl, hrem⟩
        · simp only [h, if_false] at hrem
          rw [hrem] at hs
          exact (hnew (List.mem_map_of_mem hs)).elim
    | usmLogin u p peer =>
      simp only [step, execCmd] at ha
      rcases opUsmLogin_cases n x u p peer with ⟨h0, _⟩ | ⟨b', hb', _, hok, hlt, h0, _⟩
      · rw [h0, hb] at ha; cases ha; exact (hnew (List.mem_map_of_mem hs)).elim
      · rw [h0] at ha
        simp only [node_bump, node_upd] at ha
        by_cases h : x = y
        · subst h
          rw [hb] at hb'; cases hb'
          simp only [if_true, hb, Option.map_some, Option.some.injEq] at ha
          subst ha
          simp only [Node.addSession, List.mem_append, List.mem_singleton] at hs
          rcases hs with hs | hs
          · exact (hnew (List.mem_map_of_mem hs)).elim
          · subst hs
            exact Or.inr (Or.inl ⟨u, p, peer, rfl, (loginOk_iff _ _ _).mp hok, hlt, rfl, rfl⟩)
        · simp only [h, if_false] at ha
          rw [hb] at ha; cases ha
          exact (hnew (List.mem_map_of_mem hs)).elim
    | remoteCmd z c =>
      rcases C16_remote_command_outcomes n x z c with ⟨h0, _⟩ | ⟨h0, _⟩ | h0
      · rw [h0] at contra; exact (contra (F.rel_refl n)).elim
      · exact (contra (F.rel_shr F.shr (F.rel_refl n) h0)).elim
      · exact Or.inr (Or.inr h0)
    | localCmd u p c =>
      have hl : Net.Rel RemShrink n (localLogin n x u p).1 := F.toPre.localLogin n x u p (fun a _ => F.refl x a)
      rcases C16_local_command_outcomes n x u p c with h0 | h0 | ⟨id, h0⟩ | h0
      · rw [h0] at contra; exact (contra (F.rel_refl n)).elim
      · rw [h0] at contra; exact (contra hl).elim
      · rw [h0] at contra; exact (contra (F.rel_upd hl x _ (fun a => F.refl x a))).elim
      · exact Or.inr (Or.inr h0)
    | file k => exact (quiet rfl).elim
    | addUser u p adm => exact (quiet rfl).elim
    | disableUser u => exact (quiet rfl).elim
    | changePassword u o nw => exact (quiet rfl).elim
    | remoteLogoff z => exact (quiet rfl).elim
    | usmLogout i => exact (quiet rfl).elim
    | svc w v => exact (quiet rfl).elim
    | shutdown => exact (quiet rfl).elim
    | startup => exact (quiet rfl).elim
    | reset => exact (quiet rfl).elim

/-! ### ids are fresh: an ended session never becomes valid again -/

theorem Net.Rel.nextId_of_shr {n m : Net} (h : n.Shr m) : m.nextId = n.nextId := h.nextId

theorem tick_nextId (n : Net) : (tick n).nextId = n.nextId := by
  unfold tick
  exact (shr_foldl preTimestepNode shr_preTimestepNode _ _).nextId

theorem localLogin_nextId (n : Net) (y : Nat) (u p : String) : n.nextId ≤ (localLogin n y u p).1.nextId := by
  rcases localLogin_cases n y u p with h | ⟨nd, _, _, h⟩ <;> rw [h]
  · exact Nat.le_refl _
  · simp only [bump_nextId]; split <;> omega

theorem exec_nextId_mono (c : Cmd) (n : Net) (y : Nat) : n.nextId ≤ (execCmd c n y).1.nextId := by
  refine exec_induction (fun n m => n.nextId ≤ m.nextId) (fun _ => Nat.le_refl _) (fun _ _ _ h1 h2 => Nat.le_trans h1 h2) ?_
    (fun _ _ h => by rw [h.nextId]; exact Nat.le_refl _) (fun _ _ _ _ => Nat.le_refl _) (fun n y u p => localLogin_nextId n y u p)
    (fun _ _ _ => Nat.le_refl _) c n y
  intro c hc n y
  cases c with
  | localCmd u p c => cases hc
  | remoteCmd z c => cases hc
  | file k => rcases opFile_cases n y k with h | ⟨_, _, _, h⟩ <;> simp [execCmd, h]
  | addUser u p adm => rcases opAddUser_cases n y u p adm with h | ⟨_, _, _, _, _, h⟩ <;> simp [execCmd, h]
  | disableUser u => rcases opDisableUser_cases n y u with h | ⟨_, _, _, _, _, _, _, _, h⟩ <;> simp [execCmd, h]
  | changePassword u o nw =>
    rcases opChangePassword_cases n y u o nw with ⟨h, _⟩ | ⟨_, _, _, _, _, _, _, h, _⟩ <;> simp only [execCmd, h]
    · exact Nat.le_refl _
    · rw [(shr_logoutUser _ _ _).nextId]; exact Nat.le_refl _
  | remoteLogin z u p =>
    rcases opRemoteLogin_cases n y z u p with ⟨h, _⟩ | ⟨_, _, _, _, _, _, _, _, ⟨h, _⟩ | ⟨h, _⟩⟩ <;>
      simp [execCmd, h, afterLogin]
  | remoteLogoff z =>
    rcases opRemoteLogoff_cases n y z with h | ⟨_, _, _, _, _, h, _⟩ <;> simp only [execCmd, h]
    · exact Nat.le_refl _
    · rw [(shr_disconnect _ _ _ _).nextId]; exact Nat.le_refl _
  | usmLogin u p peer =>
    rcases opUsmLogin_cases n y u p peer with ⟨h, _⟩ | ⟨_, _, _, _, _, h, _⟩ <;> simp [execCmd, h]
  | usmLogout i =>
    rcases opUsmLogout_cases n y i with ⟨h, _⟩ | ⟨_, _, _, _, _, h⟩ <;> simp only [execCmd, h, upd_nextId]
    · exact Nat.le_refl _
    · rw [(shr_disconnect _ _ _ _).nextId]; exact Nat.le_refl _
  | svc w v => rcases opSvc_cases n y w v with h | ⟨_, _, h⟩ <;> simp [execCmd, h]
  | shutdown => rcases opShutdown_cases n y with h | ⟨_, _, h⟩ <;> simp [execCmd, h]
  | startup => rcases opStartup_cases n y with h | ⟨_, _, h⟩ <;> simp [execCmd, h]
  | reset => rcases opReset_cases n y with h | ⟨_, _, h⟩ <;> simp [execCmd, h]

/-- the id counter never goes back -/
theorem step_nextId_mono (n : Net) (op : Op) : n.nextId ≤ (step n op).1.nextId := by
  cases op with
  | req y c => exact exec_nextId_mono c n y
  | enableUser y u => rcases opEnableUser_cases n y u with h | h <;> simp [step, h]
  | addUserBypass y u p adm => rcases opAddUserBypass_cases n y u p adm with h | ⟨_, _, _, h⟩ <;> simp [step, h]
  | localLogin y u p => simp only [step]; rw [opLocalLogin_fst]; exact localLogin_nextId n y u p
  | localLogout y => rcases opLocalLogout_cases n y with h | h <;> simp [step, h]
  | tick => simp only [step, tick_nextId]; exact Nat.le_refl _
  | setBlock x y on => exact Nat.le_refl _

def TrueRel : Nat → Node → Node → Prop := fun _ _ _ => True

theorem trueRel_frame : Frame TrueRel :=
  { refl := fun _ _ => trivial, trans := fun _ _ _ _ _ _ => trivial, shr := fun _ _ _ _ => trivial, data := fun _ _ _ _ => trivial }

theorem step_trueRel (n : Net) (op : Op) : Net.Rel TrueRel n (step n op).1 :=
  trueRel_frame.step' ⟨fun _ _ _ => trivial, fun _ _ _ _ => trivial, fun _ _ _ => trivial, fun _ _ _ _ => trivial⟩
    (fun _ _ _ => trivial) (fun _ _ _ => trivial) (fun _ _ _ => trivial) n op (fun _ _ _ _ => trivial) (fun _ _ _ _ => trivial)

/-- nodes are never created or destroyed -/
theorem step_node_some (n : Net) (op : Op) (y : Nat) (b : Node) (hb : n.node y = some b) :
    ∃ a, (step n op).1.node y = some a := by
  obtain ⟨a, ha, _⟩ := (step_trueRel n op).node y b hb; exact ⟨a, ha⟩

theorem step_node_back (n : Net) (op : Op) (y : Nat) (a : Node) (ha : (step n op).1.node y = some a) :
    ∃ b, n.node y = some b := by
  obtain ⟨b, hb, _⟩ := Net.Rel.back_of_len (step_trueRel n op) ha; exact ⟨b, hb⟩

theorem hasSession_iff (b : Node) (cid : Nat) : b.hasSession cid = true ↔ cid ∈ b.rem.map (·.id) := by
  unfold Node.hasSession
  simp only [List.any_eq_true, beq_iff_eq, List.mem_map]

/-- `cid` has been handed out and is not a remote session of node `y` -/
def Dead (y cid : Nat) (n : Net) : Prop := cid < n.nextId ∧ ∀ b, n.node y = some b → b.hasSession cid = false

theorem dead_of_remShrink {y cid : Nat} {n m : Net} (h : Net.Rel RemShrink n m) (hid : n.nextId ≤ m.nextId) (hd : Dead y cid n) :
    Dead y cid m := by
  refine ⟨Nat.lt_of_lt_of_le hd.1 hid, fun a ha => ?_⟩
  obtain ⟨b, hb, hsub⟩ := Net.Rel.back_of_len h ha
  cases hs : a.hasSession cid with
  | false => rfl
  | true =>
    have := (hasSession_iff b cid).mpr (hsub.subset ((hasSession_iff a cid).mp hs))
    rw [hd.2 b hb] at this; cases this

/-- one step: an id below the counter that is not a session of `y` is not a session of `y` afterwards (nested commands
included: induction over the command) -/
theorem step_dead_stays_dead (n : Net) (op : Op) (y cid : Nat) (hd : Dead y cid n) : Dead y cid (step n op).1 := by
  have F := remShrink_frame
  have atomicStep : ∀ (n : Net) (op : Op), (¬ Carried n op) → Dead y cid n → Dead y cid (step n op).1 := by
    intro n op hnc hd
    refine ⟨Nat.lt_of_lt_of_le hd.1 (step_nextId_mono n op), fun a ha => ?_⟩
    obtain ⟨b, hb⟩ := step_node_back n op y a ha
    cases h : a.hasSession cid with
    | false => rfl
    | true =>
      obtain ⟨s, hs, hid⟩ := List.mem_map.mp ((hasSession_iff a cid).mp h)
      have hnew : s.id ∉ b.rem.map (·.id) := by
        rw [hid]; intro hm; have := hd.2 b hb; rw [(hasSession_iff b cid).mpr hm] at this; cases this
      have hlt := hd.1
      rcases C16_remote_session_only_by_valid_login n op y b a hb ha s hs hnew with
        ⟨_, _, _, _, _, _, _, _, hs', _⟩ | ⟨_, _, _, _, _, _, hs', _⟩ | hc
      · rw [hs'] at hid; simp only at hid; omega
      · rw [hs'] at hid; simp only at hid; omega
      · exact (hnc hc).elim
  cases op with
  | req y' c =>
    refine exec_induction (fun n m => Dead y cid n → Dead y cid m) (fun _ h => h) (fun _ _ _ h1 h2 h => h2 (h1 h)) ?_ ?_ ?_ ?_ ?_
      c n y' hd
    · intro c hc n y' hd; exact atomicStep n (.req y' c) (not_carried_of_atomic hc) hd
    · intro n m h hd
      exact dead_of_remShrink (F.rel_shr F.shr (F.rel_refl n) h) (by rw [h.nextId]; exact Nat.le_refl _) hd
    · intro n y' c t hd
      exact dead_of_remShrink (F.rel_upd (F.rel_refl n) y' _ (fun a => remShrink_edits.touch y' a c t)) (Nat.le_refl _) hd
    · intro n y' u p hd
      exact dead_of_remShrink (F.toPre.localLogin n y' u p (fun a _ => F.refl y' a)) (localLogin_nextId n y' u p) hd
    · intro n y' c hd
      exact dead_of_remShrink (F.rel_upd (F.rel_refl n) y' _ (fun a => F.refl y' a)) (Nat.le_refl _) hd
  | enableUser y' u => exact dead_of_remShrink (step_remShrink n _ rfl) (step_nextId_mono n _) hd
  | addUserBypass y' u p adm => exact dead_of_remShrink (step_remShrink n _ rfl) (step_nextId_mono n _) hd
  | localLogin y' u p => exact dead_of_remShrink (step_remShrink n _ rfl) (step_nextId_mono n _) hd
  | localLogout y' => exact dead_of_remShrink (step_remShrink n _ rfl) (step_nextId_mono n _) hd
  | tick => exact dead_of_remShrink (step_remShrink n _ rfl) (step_nextId_mono n _) hd
  | setBlock x' y' on => exact dead_of_remShrink (step_remShrink n _ rfl) (step_nextId_mono n _) hd

/-- **C16, ended stays ended.** Session ids are fresh: once an id that has already been handed out (`cid < nextId`) is
not (or no longer — after logoff, time-out or password change) a remote session of node `y`, it is never a remote session
of `y` again, whatever operations (nested commands included) follow. -/
theorem C16_ended_stays_ended (ops : List Op) (n : Net) (y cid : Nat) (hd : Dead y cid n) : Dead y cid (run n ops) := by
  induction ops generalizing n with
  | nil => exact hd
  | cons op ops ih => exact ih (step n op).1 (step_dead_stays_dead n op y cid hd)

/-- ... and a remote command — whatever it carries — sent on a connection carrying such an id is never accepted, at any later
time: nothing but sessions / connections being torn down happens anywhere, and the answer is not `success`. -/
theorem C16_command_on_ended_session_changes_nothing (ops : List Op) (n : Net) (y cid : Nat) (hd : Dead y cid n)
    (x : Nat) (c : Cmd) (a : Node) (cn : Conn) (hx : (run n ops).node x = some a)
    (hc : a.conns.find? (fun c => c.peer == some y) = some cn) (hcid : cn.id = cid) :
    (run n ops).Shr (step (run n ops) (.req x (.remoteCmd y c))).1 ∧ (step (run n ops) (.req x (.remoteCmd y c))).2 ≠ .success := by
  have hdead := C16_ended_stays_ended ops n y cid hd
  rcases C16_remote_command_outcomes (run n ops) x y c with ⟨h0, h1⟩ | ⟨h0, h1⟩ | h0
  · rw [h0]; exact ⟨Net.Shr.refl _, h1⟩
  · exact ⟨h0, by rw [h1]; simp⟩
  · cases h0 with
    | «local» y' u p c' nd id hop => cases hop
    | remote x' z c' a' b' cn' hop arr hs _ _ =>
      cases hop
      have := arr.src; rw [hx] at this; cases this
      have := arr.conn; rw [hc] at this; cases this
      rw [hcid, hdead.2 b' arr.dst] at hs; cases hs

/-! ### local sessions appear only through a valid local login -/

/-- the local session stays or ends -/
def LocShrink : Nat → Node → Node → Prop := fun _ a b => b.loc = a.loc ∨ b.loc = none

theorem locShrink_frame : Frame LocShrink :=
  { refl := fun _ _ => Or.inl rfl,
    trans := fun _ _ _ _ h1 h2 => by
      rcases h2 with h | h
      · rcases h1 with g | g
        · exact Or.inl (h.trans g)
        · exact Or.inr (h.trans g)
      · exact Or.inr h,
    shr := fun _ _ _ h => h.loc, data := fun _ _ _ h => Or.inl (data_loc h) }

theorem localLogin_loc (n : Net) (y' : Nat) (u p : String) (y : Nat) (b b1 : Node) (hb : n.node y = some b)
    (hb1 : (localLogin n y' u p).1.node y = some b1) :
    b1.loc = b.loc ∨ (y' = y ∧ b.loginOk u p = true ∧ b1.loc = some ⟨n.nextId, u, n.time⟩) := by
  rcases localLogin_cases n y' u p with h | ⟨nd, hnd, hok, h⟩ <;> rw [h] at hb1
  · rw [hb] at hb1; cases hb1; exact Or.inl rfl
  · simp only [node_bump, node_upd] at hb1
    by_cases hy : y' = y
    · subst hy
      rw [hb] at hnd; cases hnd
      simp only [if_true, hb, Option.map_some, Option.some.injEq] at hb1
      subst hb1
      rcases localLoginCore_fst b u n.time n.nextId with ⟨h1, _⟩ | ⟨h1, _⟩ <;> rw [h1]
      · exact Or.inl rfl
      · exact Or.inr ⟨rfl, hok, rfl⟩
    · simp only [hy, if_false] at hb1
      rw [hb] at hb1; cases hb1; exact Or.inl rfl

theorem locShrink_edits : Edits LocShrink :=
  ⟨fun _ _ _ => Or.inl rfl, fun _ _ _ _ => Or.inl rfl, fun _ _ _ => Or.inl rfl, fun _ _ _ _ => Or.inl rfl⟩

/-- a request without a local terminal command anywhere inside never opens a local session -/
theorem exec_locShrink (c : Cmd) (hl : c.noLocal = true) (n : Net) (y : Nat) : Net.Rel LocShrink n (execCmd c n y).1 :=
  locShrink_frame.exec locShrink_edits (fun n y u => locShrink_frame.toPre.disableUser n y u (fun _ => Or.inl rfl)) c
    (fun h => by rw [hl] at h; cases h) (fun _ _ _ _ => Or.inl rfl) (fun _ _ _ _ => Or.inl rfl) n y

/-- **C16, logins (local), "only if".** If after any operation node `y` holds a local session it did not hold before, then
the operation was a local login on `y` (`Node.local_login`, or the login inside `send_local_command`) with the current password
of an existing, enabled account, `y` ON and both managers RUNNING, the session is that user's and its id is fresh — or the
operation was an accepted terminal command and the session was opened by the carried command (to which this applies again). -/
theorem C16_local_session_only_by_valid_login (n : Net) (op : Op) (y : Nat) (b a : Node)
    (hb : n.node y = some b) (ha : (step n op).1.node y = some a) (l : LSession) (hl : a.loc = some l)
    (hnew : b.loc ≠ some l) :
    (∃ u p, (op = .localLogin y u p ∨ ∃ c, op = .req y (.localCmd u p c)) ∧ AuthOK b u p ∧ l = ⟨n.nextId, u, n.time⟩) ∨
    Carried n op := by
  have contra : Net.Rel LocShrink n (step n op).1 → False := fun h => by
    obtain ⟨a', ha', hk⟩ := h.node y b hb
    rw [ha] at ha'; cases ha'
    rcases hk with hk | hk
    · exact hnew (hk ▸ hl)
    · rw [hk] at hl; cases hl
  have F := locShrink_frame
  cases op with
  | enableUser y' u => exact (contra (F.toPre.enableUser n y' u (fun _ => Or.inl rfl))).elim
  | addUserBypass y' u p adm => exact (contra (F.toPre.addUserBypass n y' u p adm (fun _ _ => Or.inl rfl))).elim
  | localLogout y' => exact (contra (F.localLogout n y')).elim
  | tick => exact (contra (F.tick n)).elim
  | setBlock x' y' on => exact (contra (rel_setBlock F.refl n x' y' on)).elim
  | localLogin y' u p =>
    simp only [step] at ha
    rw [opLocalLogin_fst] at ha
    rcases localLogin_loc n y' u p y b a hb ha with h | ⟨rfl, hok, h⟩
    · exact (hnew (h ▸ hl)).elim
    · rw [hl] at h; cases h
      exact Or.inl ⟨u, p, Or.inl rfl, (loginOk_iff _ _ _).mp hok, rfl⟩
  | req y' c =>
    cases c with
    | localCmd u p c =>
      -- the state right after the login of the command
      have login : ∀ a1, (localLogin n y' u p).1.node y = some a1 → a1.loc = some l →
          ∃ u1 p1, (Op.req y' (.localCmd u p c) = .localLogin y u1 p1 ∨ ∃ c', Op.req y' (.localCmd u p c) = .req y (.localCmd u1 p1 c')) ∧
            AuthOK b u1 p1 ∧ l = ⟨n.nextId, u1, n.time⟩ := by
        intro a1 ha1 hl1
        rcases localLogin_loc n y' u p y b a1 hb ha1 with h | ⟨rfl, hok, h⟩
        · exact (hnew (h ▸ hl1)).elim
        · rw [hl1] at h; cases h
          exact ⟨u, p, Or.inr ⟨c, rfl⟩, (loginOk_iff _ _ _).mp hok, rfl⟩
      rcases C16_local_command_outcomes n y' u p c with h0 | h0 | ⟨id, h0⟩ | h0
      · rw [h0] at contra; exact (contra (F.rel_refl n)).elim
      · rw [h0] at ha; exact Or.inl (login a ha hl)
      · rw [h0] at ha
        obtain ⟨b1, hb1, _⟩ := (trueRel_frame.toPre.localLogin n y' u p (fun _ _ => trivial)).node y b hb
        have hloc : a.loc = b1.loc := by
          simp only [node_upd] at ha
          by_cases hy : y' = y
          · simp only [hy, if_true, hy ▸ hb1, Option.map_some, Option.some.injEq] at ha
            subst ha; rfl
          · simp only [hy, if_false] at ha
            rw [hb1] at ha; cases ha; rfl
        exact Or.inl (login b1 hb1 (hloc ▸ hl))
      · exact Or.inr h0
    | remoteCmd z c =>
      rcases C16_remote_command_outcomes n y' z c with ⟨h0, _⟩ | ⟨h0, _⟩ | h0
      · rw [h0] at contra; exact (contra (F.rel_refl n)).elim
      · exact (contra (F.rel_shr F.shr (F.rel_refl n) h0)).elim
      · exact Or.inr h0
    | file k => exact (contra (exec_locShrink _ rfl n y')).elim
    | addUser u p adm => exact (contra (exec_locShrink _ rfl n y')).elim
    | disableUser u => exact (contra (exec_locShrink _ rfl n y')).elim
    | changePassword u o nw => exact (contra (exec_locShrink _ rfl n y')).elim
    | remoteLogin z u p => exact (contra (exec_locShrink _ rfl n y')).elim
    | remoteLogoff z => exact (contra (exec_locShrink _ rfl n y')).elim
    | usmLogin u p peer => exact (contra (exec_locShrink _ rfl n y')).elim
    | usmLogout i => exact (contra (exec_locShrink _ rfl n y')).elim
    | svc w v => exact (contra (exec_locShrink _ rfl n y')).elim
    | shutdown => exact (contra (exec_locShrink _ rfl n y')).elim
    | startup => exact (contra (exec_locShrink _ rfl n y')).elim
    | reset => exact (contra (exec_locShrink _ rfl n y')).elim

/-! ### a login succeeds exactly when it should -/

/-- **C16, logins (remote), both directions.** The remote-login request of node `x` towards `y` is answered `success`
iff `x` is ON, frames pass in both directions (NICs enabled, both terminals RUNNING, neither direction blocked on the way,
`x ≠ y` unless the topology sends a host's frames to itself back through its gateway), `y` is ON with both managers
RUNNING, the account exists, is enabled, the password is its current one, and fewer than `max_remote_sessions` sessions are
open on `y`.  ("Only if" = no login without valid credentials; "if" = every such attempt on an unblocked path succeeds.) -/
theorem C16_remote_login_ok_iff (n : Net) (x y : Nat) (u p : String) :
    (step n (.req x (.remoteLogin y u p))).2 = .success ↔
      ∃ a b, n.node x = some a ∧ n.node y = some b ∧ a.isOn = true ∧ canDeliver n x y = true ∧ canDeliver n y x = true ∧
        AuthOK b u p ∧ b.rem.length < b.maxRemote := by
  simp only [step, execCmd]
  constructor
  · intro h
    rcases opRemoteLogin_cases n x y u p with ⟨_, h0⟩ | ⟨a, b, ha, hon, hdel, hb, hok, hlt, ⟨_, _, h0⟩ | ⟨_, hback, _⟩⟩
    · exact (h0 h).elim
    · rw [h0] at h; cases h
    · rw [canDeliver_afterLogin] at hback
      exact ⟨a, b, ha, hb, hon, hdel, hback, (loginOk_iff _ _ _).mp hok, hlt⟩
  · rintro ⟨a, b, ha, hb, hon, hdel, hback, hauth, hlt⟩
    have hok := (loginOk_iff _ _ _).mpr hauth
    rcases opRemoteLogin_cases n x y u p with ⟨h0, _⟩ | ⟨_, _, _, _, _, _, _, _, ⟨_, hno, _⟩ | ⟨_, _, h0⟩⟩
    · -- the operation cannot have been refused: unfold it under the hypotheses
      exfalso
      have : (opRemoteLogin n x y u p).1.nextId = n.nextId + 1 := by
        unfold opRemoteLogin
        simp only [ha, hb, hon, hdel, hok, hlt, Bool.not_true, Bool.false_eq_true, if_false, decide_true, Bool.and_self, if_true]
        split <;> simp
      rw [h0] at this; omega
    · rw [canDeliver_afterLogin, hback] at hno; cases hno
    · exact h0

/-- **C16, logins (local), both directions.** -/
theorem C16_local_login_ok_iff (n : Net) (y : Nat) (u p : String) :
    (step n (.localLogin y u p)).2 = .success ↔ ∃ b, n.node y = some b ∧ AuthOK b u p := by
  simp only [step, opLocalLogin]
  cases hb : n.node y with
  | none => simp
  | some b =>
    simp only [localLogin, hb]
    cases hok : b.loginOk u p with
    | true => simp [boolOut, (loginOk_iff b u p).mp hok]
    | false =>
      simp only [Bool.false_eq_true, if_false, Option.isSome_none, boolOut]
      constructor
      · intro h; cases h
      · rintro ⟨b', hb', hauth⟩; cases hb'; rw [(loginOk_iff _ _ _).mpr hauth] at hok; cases hok

/-- **C16, logins (direct request at the session manager), both directions.** -/
theorem C16_usm_login_ok_iff (n : Net) (y : Nat) (u p : String) (peer : Nat) :
    (step n (.req y (.usmLogin u p peer))).2 = .success ↔ ∃ b, n.node y = some b ∧ AuthOK b u p ∧ b.rem.length < b.maxRemote := by
  simp only [step, execCmd]
  constructor
  · intro h
    rcases opUsmLogin_cases n y u p peer with ⟨_, h0⟩ | ⟨b, hb, _, hok, hlt, _, _⟩
    · exact (h0 h).elim
    · exact ⟨b, hb, (loginOk_iff _ _ _).mp hok, hlt⟩
  · rintro ⟨b, hb, hauth, hlt⟩
    have hok := (loginOk_iff _ _ _).mpr hauth
    have hon : b.isOn = true := by simp [Node.isOn, hauth.on]
    unfold opUsmLogin
    simp [hb, hon, hok, hlt]

/-! ### the session limit -/

/-- session parameters are never changed by any operation -/
def KeepParams : Nat → Node → Node → Prop := fun _ a b =>
  b.maxRemote = a.maxRemote ∧ b.localTimeout = a.localTimeout ∧ b.remoteTimeout = a.remoteTimeout

theorem keepParams_frame : Frame KeepParams :=
  { refl := fun _ _ => ⟨rfl, rfl, rfl⟩,
    trans := fun _ _ _ _ h1 h2 => ⟨h2.1.trans h1.1, h2.2.1.trans h1.2.1, h2.2.2.trans h1.2.2⟩,
    shr := fun _ _ _ h => ⟨h.maxRemote, h.localTimeout, h.remoteTimeout⟩,
    data := fun _ _ _ h => ⟨data_maxRemote h, data_localTimeout h, data_remoteTimeout h⟩ }

theorem step_keepParams (n : Net) (op : Op) : Net.Rel KeepParams n (step n op).1 :=
  keepParams_frame.step' ⟨fun _ _ _ => ⟨rfl, rfl, rfl⟩, fun _ _ _ _ => ⟨rfl, rfl, rfl⟩, fun _ _ _ => ⟨rfl, rfl, rfl⟩,
    fun _ _ _ _ => ⟨rfl, rfl, rfl⟩⟩ (fun _ _ _ => ⟨rfl, rfl, rfl⟩) (fun _ _ _ => ⟨rfl, rfl, rfl⟩) (fun _ _ _ => ⟨rfl, rfl, rfl⟩) n op
    (fun _ _ _ _ => ⟨rfl, rfl, rfl⟩) (fun _ _ _ _ => ⟨rfl, rfl, rfl⟩)

/-- no node holds more remote sessions than its `max_remote_sessions` -/
def WithinLimit (n : Net) : Prop := ∀ y b, n.node y = some b → b.rem.length ≤ b.maxRemote

/-- not more sessions, same maximum -/
def LimRel : Nat → Node → Node → Prop := fun _ a b => b.rem.length ≤ a.rem.length ∧ b.maxRemote = a.maxRemote

theorem limRel_frame : Frame LimRel :=
  { refl := fun _ _ => ⟨Nat.le_refl _, rfl⟩, trans := fun _ _ _ _ h1 h2 => ⟨Nat.le_trans h2.1 h1.1, h2.2.trans h1.2⟩,
    shr := fun _ _ _ h => ⟨h.rem.length_le, h.maxRemote⟩,
    data := fun _ _ _ h => ⟨by rw [data_rem h]; exact Nat.le_refl _, data_maxRemote h⟩ }

theorem limRel_edits : Edits LimRel :=
  ⟨fun _ _ _ => ⟨Nat.le_refl _, rfl⟩, fun _ _ _ _ => ⟨Nat.le_refl _, rfl⟩, fun _ _ _ => ⟨Nat.le_refl _, rfl⟩,
   fun _ a cid t => ⟨by simp [Node.touch], rfl⟩⟩

theorem within_of_limRel {n m : Net} (h : Net.Rel LimRel n m) (hw : WithinLimit n) : WithinLimit m := by
  intro y a ha
  obtain ⟨b, hb, hab⟩ := Net.Rel.back_of_len h ha
  have := hw y b hb
  rw [hab.2]; exact Nat.le_trans hab.1 this

theorem step_limRel (n : Net) (op : Op) (hop : op.noLogin = true) : Net.Rel LimRel n (step n op).1 :=
  limRel_frame.step' limRel_edits (fun j a _ => limRel_frame.refl j a) (fun j a _ => limRel_frame.refl j a)
    (fun j a _ => limRel_frame.refl j a) n op (fun h => by rw [hop] at h; cases h) (fun _ j a _ => limRel_frame.refl j a)

/-- **C16, limit (invariant).** Nested commands included. -/
theorem C16_limit_step (n : Net) (op : Op) (h : WithinLimit n) : WithinLimit (step n op).1 := by
  have F := limRel_frame
  cases op with
  | enableUser y' u => exact within_of_limRel (step_limRel n _ rfl) h
  | addUserBypass y' u p adm => exact within_of_limRel (step_limRel n _ rfl) h
  | localLogin y' u p => exact within_of_limRel (step_limRel n _ rfl) h
  | localLogout y' => exact within_of_limRel (step_limRel n _ rfl) h
  | tick => exact within_of_limRel (step_limRel n _ rfl) h
  | setBlock x' y' on => exact within_of_limRel (step_limRel n _ rfl) h
  | req y' c =>
    refine exec_induction (fun n m => WithinLimit n → WithinLimit m) (fun _ h => h) (fun _ _ _ h1 h2 h => h2 (h1 h)) ?_
      (fun n m hs => within_of_limRel (F.rel_shr F.shr (F.rel_refl n) hs))
      (fun n y' c t => within_of_limRel (F.rel_upd (F.rel_refl n) y' _ (fun a => limRel_edits.touch y' a c t)))
      (fun n y' u p => within_of_limRel (F.toPre.localLogin n y' u p (fun a _ => F.refl y' a)))
      (fun n y' c => within_of_limRel (F.rel_upd (F.rel_refl n) y' _ (fun a => F.refl y' a))) c n y' h
    intro c hc n x h
    by_cases hl : c.noLogin = true
    · exact within_of_limRel (step_limRel n (.req x c) hl) h
    · intro y a ha
      obtain ⟨b, hb, hab⟩ := Net.Rel.back_of_len (step_keepParams n (.req x c)) ha
      have hmax : a.maxRemote = b.maxRemote := hab.1
      cases c with
      | remoteLogin y' u p =>
        simp only [step, execCmd] at ha
        rcases opRemoteLogin_cases n x y' u p with ⟨h0, _⟩ | ⟨_, b', _, _, _, hb', _, hlt, h0⟩
        · rw [h0, hb] at ha; cases ha; exact hmax ▸ h y _ hb
        · have hrem := opRemoteLogin_rem n x y' u p y b a hb ha h0
          by_cases hy : y' = y
          · subst hy; rw [hb] at hb'; cases hb'
            simp only [if_true] at hrem
            rw [hrem, List.length_append, List.length_singleton]; omega
          · simp only [hy, if_false] at hrem
            rw [hrem]; have := h y b hb; omega
      | usmLogin u p peer =>
        simp only [step, execCmd] at ha
        rcases opUsmLogin_cases n x u p peer with ⟨h0, _⟩ | ⟨b', hb', _, _, hlt, h0, _⟩
        · rw [h0, hb] at ha; cases ha; exact hmax ▸ h y _ hb
        · rw [h0] at ha
          simp only [node_bump, node_upd] at ha
          by_cases hy : x = y
          · subst hy; rw [hb] at hb'; cases hb'
            simp only [if_true, hb, Option.map_some, Option.some.injEq] at ha
            subst ha
            simp only [Node.addSession, List.length_append, List.length_singleton]; omega
          · simp only [hy, if_false] at ha
            rw [hb] at ha; cases ha; exact h y _ hb
      | localCmd u p c => cases hc
      | remoteCmd z c => cases hc
      | file k => exact (hl rfl).elim
      | addUser u p adm => exact (hl rfl).elim
      | disableUser u => exact (hl rfl).elim
      | changePassword u o nw => exact (hl rfl).elim
      | remoteLogoff z => exact (hl rfl).elim
      | usmLogout i => exact (hl rfl).elim
      | svc w v => exact (hl rfl).elim
      | shutdown => exact (hl rfl).elim
      | startup => exact (hl rfl).elim
      | reset => exact (hl rfl).elim

theorem C16_limit_run (ops : List Op) (n : Net) (h : WithinLimit n) : WithinLimit (run n ops) := by
  induction ops generalizing n with
  | nil => exact h
  | cons op ops ih => exact ih _ (C16_limit_step n op h)

/-- **C16, limit (boundary).** With `max_remote_sessions` sessions open on `y`, a further remote login towards `y` is
refused whatever the credentials, and changes nothing; by `C16_remote_login_ok_iff` it succeeds again as soon as one
session has ended (`rem.length < maxRemote`).  The same for the direct request. -/
theorem C16_limit_boundary (n : Net) (x y : Nat) (u p : String) (b : Node) (hb : n.node y = some b)
    (hfull : b.maxRemote ≤ b.rem.length) :
    (step n (.req x (.remoteLogin y u p))).2 ≠ .success ∧ (step n (.req x (.remoteLogin y u p))).1 = n ∧
    (∀ peer, (step n (.req y (.usmLogin u p peer))).2 ≠ .success ∧ (step n (.req y (.usmLogin u p peer))).1 = n) := by
  simp only [step, execCmd]
  refine ⟨?_, ?_, fun peer => ?_⟩
  · rcases opRemoteLogin_cases n x y u p with ⟨_, h1⟩ | ⟨_, b', _, _, _, hb', _, hlt, _⟩
    · exact h1
    · rw [hb] at hb'; cases hb'; omega
  · rcases opRemoteLogin_cases n x y u p with ⟨h0, _⟩ | ⟨_, b', _, _, _, hb', _, hlt, _⟩
    · exact h0
    · rw [hb] at hb'; cases hb'; omega
  · rcases opUsmLogin_cases n y u p peer with ⟨h0, h1⟩ | ⟨b', hb', _, _, hlt, _, _⟩
    · exact ⟨h1, h0⟩
    · rw [hb] at hb'; cases hb'; omega

/-! ### the last enabled administrator -/

def User.enabledAdmin (w : User) : Bool := w.admin && !w.disabled

/-- `len(self.admins)` -/
def adminCount (l : List User) : Nat := (l.filter (fun v => v.admin && !v.disabled)).length

theorem adminCount_cons (v : User) (t : List User) :
    adminCount (v :: t) = (if v.enabledAdmin then 1 else 0) + adminCount t := by
  unfold adminCount User.enabledAdmin
  rw [List.filter_cons]
  split
  · rw [List.length_cons]; omega
  · omega

theorem updUser_disable_count (l : List User) (u : String) (w : User) (h : l.find? (fun v => v.name == u) = some w) :
    adminCount (updUser l u (fun v => { v with disabled := true })) + (if w.enabledAdmin then 1 else 0) = adminCount l := by
  induction l with
  | nil => simp at h
  | cons v t ih =>
    unfold updUser
    by_cases hv : (v.name == u) = true
    · simp only [List.find?_cons, hv, Option.some.injEq] at h
      subst h
      rw [if_pos hv, adminCount_cons, adminCount_cons]
      have : ({ v with disabled := true } : User).enabledAdmin = false := by simp [User.enabledAdmin]
      rw [this]
      simp only [Bool.false_eq_true, if_false]
      omega
    · simp only [List.find?_cons, hv] at h
      have := ih h
      rw [if_neg hv, adminCount_cons, adminCount_cons]
      omega

theorem updUser_password_count (l : List User) (u new : String) :
    adminCount (updUser l u (fun v => { v with password := new })) = adminCount l := by
  induction l with
  | nil => rfl
  | cons v t ih =>
    unfold updUser
    split
    · rw [adminCount_cons, adminCount_cons]
      have : ({ v with password := new } : User).enabledAdmin = v.enabledAdmin := rfl
      rw [this]
    · rw [adminCount_cons, adminCount_cons, ih]

theorem updUser_enable_count (l : List User) (u : String) :
    adminCount l ≤ adminCount (updUser l u (fun v => { v with disabled := false })) := by
  induction l with
  | nil => exact Nat.le_refl _
  | cons v t ih =>
    unfold updUser
    split
    · rw [adminCount_cons, adminCount_cons]
      have : v.enabledAdmin = true → ({ v with disabled := false } : User).enabledAdmin = true := by
        unfold User.enabledAdmin; simp; intro h _; exact h
      cases hv : v.enabledAdmin with
      | false => simp only [Bool.false_eq_true, if_false]; omega
      | true => rw [this hv]; exact Nat.le_refl _
    · rw [adminCount_cons, adminCount_cons]; omega

/-- an enabled administrator remains if there was one -/
def AdminKept : Nat → Node → Node → Prop := fun _ a b => 0 < adminCount a.users → 0 < adminCount b.users

theorem adminKept_frame : Frame AdminKept :=
  { refl := fun _ _ h => h, trans := fun _ _ _ _ h1 h2 h => h2 (h1 h),
    shr := fun _ _ _ h => by unfold AdminKept; rw [h.users]; exact id,
    data := fun _ _ _ h => by unfold AdminKept; rw [data_users h]; exact id }

theorem adminKept_edits : Edits AdminKept :=
  ⟨fun _ a w h => by
      show 0 < adminCount (a.users ++ [w])
      unfold adminCount at h ⊢; rw [List.filter_append, List.length_append]; omega,
   fun _ a u p h => by
      show 0 < adminCount (updUser a.users u _)
      rw [updUser_password_count]; exact h,
   fun _ _ _ h => h, fun _ _ _ _ h => h⟩

theorem adminKept_disable (n : Net) (y : Nat) (u : String) : Net.Rel AdminKept n (opDisableUser n y u).1 := by
  rcases opDisableUser_cases n y u with h0 | ⟨nd, w, hnd, _, _, hw, hdis, hlast, h0⟩ <;> rw [h0]
  · exact adminKept_frame.rel_refl n
  · refine rel_upd n y _ adminKept_frame.refl (fun a ha hpos => ?_)
    rw [hnd] at ha; cases ha
    have hc := updUser_disable_count nd.users u w hw
    show 0 < adminCount (updUser nd.users u _)
    unfold Node.isLastAdmin at hlast
    by_cases hea : w.enabledAdmin = true
    · have hadm : w.admin = true := by unfold User.enabledAdmin at hea; simp at hea; exact hea.1
      simp only [hadm, Bool.true_and, beq_eq_false_iff_ne, ne_eq] at hlast
      simp only [hea, if_true] at hc
      unfold adminCount at hc hpos ⊢
      omega
    · simp only [hea, if_false, Bool.false_eq_true] at hc
      omega

/-- every node keeps at least one enabled administrator -/
def AdminRemains (n : Net) : Prop := ∀ y b, n.node y = some b → 0 < adminCount b.users

/-- **C16, last admin (one step).** Whatever the operation — `disable_user` sent directly, through a remote terminal command,
through a local terminal command, nested to any depth; `enable_user`; anything else. -/
theorem C16_last_admin_step (n : Net) (op : Op) (h : AdminRemains n) : AdminRemains (step n op).1 := by
  have key : Net.Rel AdminKept n (step n op).1 :=
    adminKept_frame.step adminKept_edits adminKept_disable
      (fun n y u p => adminKept_frame.toPre.localLogin n y u p (fun _ _ h => h))
      (fun _ a u h => Nat.lt_of_lt_of_le h (updUser_enable_count a.users u)) n op (fun _ _ _ _ h => h) (fun _ _ _ _ h => h)
  intro y a ha
  obtain ⟨b, hb, hab⟩ := Net.Rel.back_of_len key ha
  exact hab (h y b hb)

/-- **C16, last admin.** Over every operation sequence, every node keeps an enabled administrator account
(`disable_user` on the only enabled admin is refused, however it is sent; nothing else disables or removes accounts). -/
theorem C16_last_admin (ops : List Op) (n : Net) (h : AdminRemains n) : AdminRemains (run n ops) := by
  induction ops generalizing n with
  | nil => exact h
  | cons op ops ih => exact ih _ (C16_last_admin_step n op h)

/-- the refusal itself: disabling the only enabled admin changes nothing (other administrator accounts may exist, disabled) -/
theorem C16_last_admin_refused (n : Net) (y : Nat) (u : String) (b : Node) (w : User) (hb : n.node y = some b)
    (hw : b.findUser u = some w) (hadm : w.admin = true) (hone : adminCount b.users = 1) :
    (step n (.req y (.disableUser u))).1 = n := by
  simp only [step, execCmd]
  rcases opDisableUser_cases n y u with h0 | ⟨nd, w', hnd, _, _, hw', _, hlast, _⟩
  · exact h0
  · rw [hb] at hnd; cases hnd; rw [hw] at hw'; cases hw'
    unfold Node.isLastAdmin at hlast
    unfold adminCount at hone
    simp [hadm, hone] at hlast

/-! ### a password change ends every session of the user -/

theorem noSession_of_shr {a1 a : Node} (h : a1.Shr a) (cid : Nat) (h1 : a1.hasSession cid = false) : a.hasSession cid = false := by
  cases h2 : a.hasSession cid with
  | false => rfl
  | true =>
    have := (hasSession_iff a cid).mp h2
    have := (hasSession_iff a1 cid).mpr ((h.rem.map _).subset this)
    rw [this] at h1; cases h1

theorem dropSession_noSession (a : Node) (cid : Nat) : (a.dropSession cid).hasSession cid = false := by
  unfold Node.dropSession Node.hasSession
  simp only [List.any_eq_false, List.mem_filter, bne_iff_ne, ne_eq, beq_iff_eq, and_imp]
  intro s _ h; exact h

theorem forceLogout_noSession (m : Net) (y cid : Nat) (a : Node) (ha : (forceLogout m y cid).node y = some a) :
    a.hasSession cid = false := by
  unfold forceLogout at ha
  simp only [node_upd, if_true] at ha
  cases h : (disconnect m.fuel m y cid).node y with
  | none => rw [h] at ha; cases ha
  | some a0 => rw [h] at ha; simp only [Option.map_some, Option.some.injEq] at ha; subst ha; exact dropSession_noSession a0 cid

theorem foldl_forceLogout_noSession (ids : List Nat) (m : Net) (y : Nat) :
    ∀ cid ∈ ids, ∀ a, (ids.foldl (fun m cid => forceLogout m y cid) m).node y = some a → a.hasSession cid = false := by
  induction ids generalizing m with
  | nil => intro cid h; cases h
  | cons c t ih =>
    intro cid hc a ha
    simp only [List.foldl_cons] at ha
    rcases List.mem_cons.mp hc with rfl | hc
    · have hshr := shr_foldl (fun m cid => forceLogout m y cid) (fun m cid => shr_forceLogout m y cid) t (forceLogout m y cid)
      obtain ⟨a1, ha1, h1⟩ := hshr.back ha
      exact noSession_of_shr h1 cid (forceLogout_noSession m y cid a1 ha1)
    · exact ih _ cid hc a ha

/-- **C16, password change.** After a successful `change_password` for user `u` on node `y`, node `y` holds no remote session
and no local session of `u` — whatever the number of sessions and whatever the state of the session-manager service.
(On the unrepaired code only the first session ended: DESIGN F-27; and none while the service was stopped.) -/
theorem C16_password_change_ends_sessions (n : Net) (y : Nat) (u old new : String)
    (h : (step n (.req y (.changePassword u old new))).2 = .success) (a : Node)
    (ha : (step n (.req y (.changePassword u old new))).1.node y = some a) :
    (∀ s ∈ a.rem, s.user ≠ u) ∧ (∀ l, a.loc = some l → l.user ≠ u) := by
  simp only [step, execCmd] at h ha
  rcases opChangePassword_cases n y u old new with ⟨_, h0⟩ | ⟨nd, w, hnd, _, _, _, _, h0, _⟩
  · exact (h0 h).elim
  · rw [h0] at ha
    unfold logoutUser at ha
    have hn1 : (n.upd y (Node.setPassword u new)).node y = some (nd.setPassword u new) := by simp [hnd]
    simp only [hn1] at ha
    -- the network after the forced remote logouts
    generalize hm : List.foldl (fun m cid => forceLogout m y cid) (n.upd y (Node.setPassword u new))
      (List.map (fun x => x.id) (List.filter (fun s => s.user == u) (nd.setPassword u new).rem)) = m at ha
    have hshr : (n.upd y (Node.setPassword u new)).Shr m := by
      rw [← hm]; exact shr_foldl _ (fun m cid => shr_forceLogout m y cid) _ _
    obtain ⟨a1, ha1, h1⟩ := hshr.node y _ hn1
    simp only [node_upd, if_true, ha1, Option.map_some, Option.some.injEq] at ha
    subst ha
    constructor
    · intro s hs hu
      have hs1 : s ∈ a1.rem := by
        unfold Node.endLocalOf at hs
        split at hs
        · split at hs <;> exact hs
        · exact hs
      have hs0 : s ∈ (nd.setPassword u new).rem := h1.rem.subset hs1
      have hid : s.id ∈ List.map (fun x => x.id) (List.filter (fun s => s.user == u) (nd.setPassword u new).rem) :=
        List.mem_map_of_mem (List.mem_filter.mpr ⟨hs0, by simpa using hu⟩)
      have := foldl_forceLogout_noSession _ (n.upd y (Node.setPassword u new)) y s.id hid a1 (by rw [hm]; exact ha1)
      rw [(hasSession_iff a1 s.id).mpr (List.mem_map_of_mem hs1)] at this
      cases this
    · intro l hl
      unfold Node.endLocalOf at hl
      split at hl
      · rename_i l' hl'
        split at hl
        · simp [Node.clearLoc] at hl
        · rename_i hne
          rw [hl'] at hl; cases hl; simpa using hne
      · rename_i hnone; rw [hnone] at hl; cases hl


/-! ### inactivity time-out -/

theorem timeoutRemote_noSession (m : Net) (y : Nat) (s : RSession) (a : Node) (ha : (timeoutRemote m y s).node y = some a) :
    a.hasSession s.id = false := by
  have key : ∀ a1, (m.upd y (fun nd => (nd.dropSession s.id).dropConn s.id)).node y = some a1 → a1.hasSession s.id = false := by
    intro a1 h1
    simp only [node_upd, if_true] at h1
    cases h : m.node y with
    | none => rw [h] at h1; cases h1
    | some a0 =>
      rw [h] at h1; simp only [Option.map_some, Option.some.injEq] at h1; subst h1
      exact dropSession_noSession a0 s.id
  unfold timeoutRemote at ha
  dsimp only at ha
  split at ha
  · obtain ⟨a1, ha1, hs⟩ := (shr_upd _ s.peer _ (shr_dropConn s.id)).back ha
    exact noSession_of_shr hs _ (key a1 ha1)
  · exact key a ha

theorem foldl_timeout_noSession (l : List RSession) (m : Net) (y : Nat) :
    ∀ s ∈ l, ∀ a, (l.foldl (fun m s => timeoutRemote m y s) m).node y = some a → a.hasSession s.id = false := by
  induction l generalizing m with
  | nil => intro s h; cases h
  | cons c t ih =>
    intro s hs a ha
    simp only [List.foldl_cons] at ha
    rcases List.mem_cons.mp hs with rfl | hs
    · have hshr := shr_foldl (fun m s => timeoutRemote m y s) (fun m s => shr_timeoutRemote m y s) t (timeoutRemote m y s)
      obtain ⟨a1, ha1, h1⟩ := hshr.back ha
      exact noSession_of_shr h1 _ (timeoutRemote_noSession m y s a1 ha1)
    · exact ih _ s hs a ha

theorem preTimestepNode_expired (m : Net) (y : Nat) (bm : Node) (s : RSession) (hbm : m.node y = some bm) (hs : s ∈ bm.rem)
    (hexp : s.last + bm.remoteTimeout ≤ m.time) (a : Node) (ha : (preTimestepNode m y).node y = some a) :
    a.hasSession s.id = false := by
  unfold preTimestepNode at ha
  simp only [hbm] at ha
  exact foldl_timeout_noSession _ _ y s (List.mem_filter.mpr ⟨hs, by simpa using hexp⟩) a ha

theorem not_mem_of_noSession {a : Node} {s : RSession} (h : a.hasSession s.id = false) : s ∉ a.rem := by
  intro hs
  rw [(hasSession_iff a s.id).mpr (List.mem_map_of_mem hs)] at h; cases h

theorem foldl_pre_expired (l : List Nat) (y : Nat) (s : RSession) (T rt : Nat) (hexp : s.last + rt ≤ T) :
    ∀ m : Net, m.time = T → (∀ bm, m.node y = some bm → bm.remoteTimeout = rt) → y ∈ l →
      ∀ a, (l.foldl preTimestepNode m).node y = some a → s ∉ a.rem := by
  induction l with
  | nil => intro m _ _ h; cases h
  | cons j t ih =>
    intro m hT hrt hy a ha
    simp only [List.foldl_cons] at ha
    have hrest := shr_foldl preTimestepNode shr_preTimestepNode t (preTimestepNode m j)
    by_cases hj : j = y
    · subst hj
      obtain ⟨a1, ha1, h1⟩ := hrest.back ha
      obtain ⟨bm, hbm, h0⟩ := (shr_preTimestepNode m j).back ha1
      intro hs
      have hs1 : s ∈ a1.rem := h1.rem.subset hs
      have hsm : s ∈ bm.rem := h0.rem.subset hs1
      have := preTimestepNode_expired m j bm s hbm hsm (by rw [hrt bm hbm, hT]; exact hexp) a1 ha1
      exact not_mem_of_noSession this hs1
    · have hy' : y ∈ t := by
        rcases List.mem_cons.mp hy with h | h
        · exact (hj h.symm).elim
        · exact h
      refine ih (preTimestepNode m j) ((shr_preTimestepNode m j).time.trans hT) ?_ hy' a ha
      intro b1 hb1
      obtain ⟨bm, hbm, h0⟩ := (shr_preTimestepNode m j).back hb1
      rw [h0.remoteTimeout]; exact hrt bm hbm

/-- **C16, time-out (remote).** A remote session of `y` whose last activity `t₀` satisfies `t₀ + timeout ≤ t + 1` is gone
after the tick that makes the time `t + 1` (the `pre_timestep` of that tick) — in particular a session idle since `t₀`
does not survive the `pre_timestep` of tick `t₀ + timeout`. -/
theorem C16_timeout_expired_gone (n : Net) (y : Nat) (b : Node) (s : RSession) (hb : n.node y = some b) (_hs : s ∈ b.rem)
    (hexp : s.last + b.remoteTimeout ≤ n.time + 1) (a : Node) (ha : (tick n).node y = some a) : s ∉ a.rem := by
  unfold tick at ha
  dsimp only at ha
  refine foldl_pre_expired _ y s (n.time + 1) b.remoteTimeout hexp _ rfl ?_ ?_ a ha
  · intro bm hbm
    simp only [Net.node, List.getElem?_map] at hbm hb
    rw [hb] at hbm
    simp only [Option.map_some, Option.some.injEq] at hbm
    subst hbm
    exact data_remoteTimeout (applyTimestep_data b)
  · simp only [List.length_map, List.mem_range]
    exact node_some_lt hb


/-- a time-out on another node never touches the remote sessions of `y` -/
theorem timeoutRemote_rem_other (m : Net) (j y : Nat) (s : RSession) (hjy : j ≠ y) (b : Node) (hb : m.node y = some b) :
    ∃ a, (timeoutRemote m j s).node y = some a ∧ a.rem = b.rem ∧ a.remoteTimeout = b.remoteTimeout := by
  unfold timeoutRemote
  dsimp only
  split
  · by_cases hp : s.peer = y
    · exact ⟨b.dropConn s.id, by simp [hp, hjy, hb], rfl, rfl⟩
    · exact ⟨b, by simp [hp, hjy, hb], rfl, rfl⟩
  · exact ⟨b, by simp [hjy, hb], rfl, rfl⟩

theorem foldl_timeout_rem_other (l : List RSession) (m : Net) (j y : Nat) (hjy : j ≠ y) (b : Node) (hb : m.node y = some b) :
    ∃ a, (l.foldl (fun m s => timeoutRemote m j s) m).node y = some a ∧ a.rem = b.rem ∧ a.remoteTimeout = b.remoteTimeout := by
  induction l generalizing m b with
  | nil => exact ⟨b, hb, rfl, rfl⟩
  | cons c t ih =>
    obtain ⟨a1, ha1, h1, h1'⟩ := timeoutRemote_rem_other m j y c hjy b hb
    obtain ⟨a, ha, h2, h2'⟩ := ih (timeoutRemote m j c) a1 ha1
    exact ⟨a, ha, h2.trans h1, h2'.trans h1'⟩

theorem preTimestepNode_rem_other (m : Net) (j y : Nat) (hjy : j ≠ y) (b : Node) (hb : m.node y = some b) :
    ∃ a, (preTimestepNode m j).node y = some a ∧ a.rem = b.rem ∧ a.remoteTimeout = b.remoteTimeout := by
  unfold preTimestepNode
  split
  · exact ⟨b, hb, rfl, rfl⟩
  · dsimp only
    apply foldl_timeout_rem_other _ _ j y hjy b
    split
    · simp [hjy, hb]
    · exact hb

theorem timeoutRemote_keeps (m : Net) (y : Nat) (s' s : RSession) (hne : s'.id ≠ s.id) (b : Node) (hb : m.node y = some b)
    (hs : s ∈ b.rem) :
    ∃ a, (timeoutRemote m y s').node y = some a ∧ s ∈ a.rem ∧ a.rem.Sublist b.rem ∧ a.remoteTimeout = b.remoteTimeout := by
  have hmem : s ∈ ((b.dropSession s'.id).dropConn s'.id).rem := by
    simp only [Node.dropConn, Node.dropSession]
    exact List.mem_filter.mpr ⟨hs, by simpa using fun h => hne h.symm⟩
  have hsub : ((b.dropSession s'.id).dropConn s'.id).rem.Sublist b.rem := by
    simp only [Node.dropConn, Node.dropSession]; exact List.filter_sublist
  unfold timeoutRemote
  dsimp only
  split
  · by_cases hp : s'.peer = y
    · exact ⟨((b.dropSession s'.id).dropConn s'.id).dropConn s'.id, by simp [hp, hb], hmem, hsub, rfl⟩
    · exact ⟨(b.dropSession s'.id).dropConn s'.id, by simp [hp, hb], hmem, hsub, rfl⟩
  · exact ⟨(b.dropSession s'.id).dropConn s'.id, by simp [hb], hmem, hsub, rfl⟩

theorem foldl_timeout_keeps (l : List RSession) (m : Net) (y : Nat) (s : RSession) (hne : ∀ s' ∈ l, s'.id ≠ s.id) (b : Node)
    (hb : m.node y = some b) (hs : s ∈ b.rem) :
    ∃ a, (l.foldl (fun m s => timeoutRemote m y s) m).node y = some a ∧ s ∈ a.rem ∧ a.rem.Sublist b.rem ∧
      a.remoteTimeout = b.remoteTimeout := by
  induction l generalizing m b with
  | nil => exact ⟨b, hb, hs, List.Sublist.refl _, rfl⟩
  | cons c t ih =>
    obtain ⟨a1, ha1, hs1, hsub1, hrt1⟩ := timeoutRemote_keeps m y c s (hne c (List.mem_cons_self ..)) b hb hs
    obtain ⟨a, ha, hs2, hsub2, hrt2⟩ := ih (timeoutRemote m y c) (fun s' h => hne s' (List.mem_cons_of_mem _ h)) a1 ha1 hs1
    exact ⟨a, ha, hs2, hsub2.trans hsub1, hrt2.trans hrt1⟩

theorem foldl_pre_keeps (l : List Nat) (y : Nat) (s : RSession) (T rt : Nat) (b0 : Node)
    (hne : ∀ s' ∈ b0.rem, s'.last + rt ≤ T → s'.id ≠ s.id) :
    ∀ (m : Net) (b : Node), m.time = T → m.node y = some b → b.remoteTimeout = rt → b.rem.Sublist b0.rem → s ∈ b.rem →
      ∃ a, (l.foldl preTimestepNode m).node y = some a ∧ s ∈ a.rem := by
  induction l with
  | nil => intro m b _ hb _ _ hs; exact ⟨b, hb, hs⟩
  | cons j t ih =>
    intro m b hT hb hrt hsub hs
    simp only [List.foldl_cons]
    have hT' : (preTimestepNode m j).time = T := (shr_preTimestepNode m j).time.trans hT
    by_cases hj : j = y
    · subst hj
      have : ∃ a, (preTimestepNode m j).node j = some a ∧ s ∈ a.rem ∧ a.rem.Sublist b.rem ∧ a.remoteTimeout = b.remoteTimeout := by
        unfold preTimestepNode
        simp only [hb]
        have hne' : ∀ s' ∈ b.expired m.time, s'.id ≠ s.id := by
          intro s' hs'
          obtain ⟨hm, he⟩ := List.mem_filter.mp hs'
          exact hne s' (hsub.subset hm) (by rw [← hrt, ← hT]; simpa using he)
        split
        · exact foldl_timeout_keeps _ _ j s hne' b.clearLoc (by simp [hb]) hs
        · exact foldl_timeout_keeps _ _ j s hne' b hb hs
      obtain ⟨a1, ha1, hs1, hsub1, hrt1⟩ := this
      exact ih _ a1 hT' ha1 (hrt1.trans hrt) (hsub1.trans hsub) hs1
    · obtain ⟨a1, ha1, hr1, hrt1⟩ := preTimestepNode_rem_other m j y hj b hb
      exact ih _ a1 hT' ha1 (hrt1.trans hrt) (hr1 ▸ hsub) (hr1 ▸ hs)

/-- **C16, time-out is exact (not earlier).** A remote session of `y` with `t₀ + timeout > t + 1` survives the tick that
makes the time `t + 1`, provided no *expired* session of `y` carries the same id (ids are unique in every reachable state:
they are fresh, `C16_remote_session_only_by_valid_login`).  With `C16_timeout_expired_gone`: a session idle since `t₀`
ends exactly at the `pre_timestep` of tick `t₀ + timeout`. -/
theorem C16_timeout_not_earlier (n : Net) (y : Nat) (b : Node) (s : RSession) (hb : n.node y = some b) (hs : s ∈ b.rem)
    (_hlive : n.time + 1 < s.last + b.remoteTimeout)
    (hne : ∀ s' ∈ b.rem, s'.last + b.remoteTimeout ≤ n.time + 1 → s'.id ≠ s.id) :
    ∃ a, (tick n).node y = some a ∧ s ∈ a.rem := by
  unfold tick
  dsimp only
  have hb1 : ({ n with time := n.time + 1, nodes := n.nodes.map Node.applyTimestep } : Net).node y = some b.applyTimestep := by
    simp only [Net.node, List.getElem?_map] at hb ⊢
    rw [hb]; rfl
  have hd := applyTimestep_data b
  refine foldl_pre_keeps _ y s (n.time + 1) b.remoteTimeout b hne _ b.applyTimestep rfl hb1 (data_remoteTimeout hd) ?_ ?_
  · rw [data_rem hd]; exact List.Sublist.refl _
  · rw [data_rem hd]; exact hs


/-! ### non-vacuity: concrete states meeting the hypotheses, and the repaired behaviours on the witnesses of the findings -/

/-- three default nodes (admin/admin, everything running), short time-outs -/
def demoNet : Net :=
  { nodes := [{ remoteTimeout := 2, maxRemote := 2 }, { remoteTimeout := 2, maxRemote := 2 }, { remoteTimeout := 2, maxRemote := 2 }] }

def login01 : Op := .req 0 (.remoteLogin 1 "admin" "admin")
def cmd01 (c : Cmd) : Op := .req 0 (.remoteCmd 1 c)
def chpw1 : Op := .req 1 (.changePassword "admin" "admin" "pw1")

-- a valid login succeeds, a wrong password does not (C16_remote_login_ok_iff is not vacuous in either direction)
example : (step demoNet login01).2 = .success := by decide
example : (step demoNet (.req 0 (.remoteLogin 1 "admin" "nope"))).2 = .failure := by decide
-- hypotheses of C16_command_runs_only_live: a command over the live session changes the target's files
example : ((run demoNet [login01, cmd01 (.file 7)]).node 1).map (·.files) = some [7] := by decide
-- nested: 0 makes 1 log in to 2, then sends a file command through 1 to 2 (two accepted hops: `Carried` twice)
example : ((run demoNet [login01, cmd01 (.remoteLogin 2 "admin" "admin"), cmd01 (.remoteCmd 2 (.file 9))]).node 2).map (·.files)
    = some [9] := by decide
-- ... and without the second session nothing happens on 2
example : ((run demoNet [login01, cmd01 (.remoteCmd 2 (.file 9))]).node 2).map (·.files) = some [] := by decide
-- the initial state satisfies the invariants' hypotheses
example : WithinLimit demoNet := by
  intro y b hb
  match y, hb with
  | 0, hb => cases hb; decide
  | 1, hb => cases hb; decide
  | 2, hb => cases hb; decide
example : AdminRemains demoNet := by
  intro y b hb
  match y, hb with
  | 0, hb => cases hb; decide
  | 1, hb => cases hb; decide
  | 2, hb => cases hb; decide
-- F-27 witness on the model of the repaired code: two sessions, password change, no session left, commands refused
example : ((run demoNet [login01, login01, chpw1]).node 1).map (·.rem) = some [] := by decide
example : (step (run demoNet [login01, login01, chpw1]) (cmd01 (.file 9))).2 = .failure := by decide
-- ... also while the session manager of the target is stopped
example : ((run demoNet [login01, .req 1 (.svc .sessionManager .stop), chpw1]).node 1).map (·.rem) = some [] := by decide
-- hypotheses of C16_ended_stays_ended: after logoff, id 0 has been handed out and is not a session of node 1
example : (run demoNet [login01, .req 0 (.remoteLogoff 1)]).nextId = 1 ∧
    ((run demoNet [login01, .req 0 (.remoteLogoff 1)]).node 1).map (·.hasSession 0) = some false := by decide
-- limit boundary: third login refused at maxRemote = 2, accepted again after a logoff; the direct request counts too
example : (step (run demoNet [login01, login01]) login01).2 = .failure := by decide
example : (step (run demoNet [login01, login01, .req 0 (.remoteLogoff 1)]) login01).2 = .success := by decide
example : (step (run demoNet [login01, .req 1 (.usmLogin "admin" "admin" 2)]) login01).2 = .failure := by decide
example : (step (run demoNet [login01, .req 1 (.usmLogin "admin" "admin" 2), .req 1 (.usmLogout 1)]) login01).2 = .success := by decide
-- time-out: alive after 1 tick, gone after 2 (remoteTimeout = 2)
example : ((run demoNet [login01, .tick]).node 1).map (·.rem.length) = some 1 := by decide
example : ((run demoNet [login01, .tick, .tick]).node 1).map (·.rem.length) = some 0 := by decide
-- F-2 witness: target shut down, the command is answered `failure`, not the earlier success
example : (step (run demoNet [login01, cmd01 (.file 1), .req 1 .shutdown]) (cmd01 (.file 2))).2 = .failure := by decide
-- last admin: disabling the only enabled admin is refused — also when a second, disabled administrator exists, and also when
-- the request comes through a remote terminal command (the situation of seeded change C16-b)
example : (step demoNet (.req 1 (.disableUser "admin"))).2 = .failure := by decide
example : (step (run demoNet [.req 1 (.addUser "adm2" "pw2" true), .req 1 (.disableUser "adm2")]) (.req 1 (.disableUser "admin"))).2
    = .failure := by decide
example : ((run demoNet [.req 1 (.addUser "adm2" "pw2" true), .req 1 (.disableUser "adm2"), login01,
    cmd01 (.disableUser "admin")]).node 1).map (fun nd => nd.users.map (·.disabled)) = some [false, true] := by decide
-- the fuel bound was enough on all of these
example : (run demoNet [login01, login01, chpw1, .req 0 (.remoteLogoff 1), .tick, .tick]).stuck = false := by decide

/-! ### session ids are unique and below the counter (reachable-state invariant) -/

/-- every remote session id is below the fresh-id counter and no two sessions of a node share an id -/
def FreshIds (n : Net) : Prop :=
  ∀ y b, n.node y = some b → (∀ s ∈ b.rem, s.id < n.nextId) ∧ (b.rem.map (·.id)).Nodup

theorem fresh_of_remShrink {n m : Net} (h : Net.Rel RemShrink n m) (hid : n.nextId ≤ m.nextId) (hf : FreshIds n) : FreshIds m := by
  intro y a ha
  obtain ⟨b, hb, hsub⟩ := Net.Rel.back_of_len h ha
  obtain ⟨hlt, hnd⟩ := hf y b hb
  refine ⟨fun s hs => ?_, hsub.nodup hnd⟩
  obtain ⟨s', hs', hid'⟩ := List.mem_map.mp (hsub.subset (List.mem_map_of_mem hs))
  have := hlt s' hs'
  omega

theorem fresh_append {n : Net} {b : Node} {s : RSession} (hlt : ∀ s ∈ b.rem, s.id < n.nextId) (hnd : (b.rem.map (·.id)).Nodup)
    (hs : s.id = n.nextId) :
    (∀ t ∈ b.rem ++ [s], t.id < n.nextId + 1) ∧ ((b.rem ++ [s]).map (·.id)).Nodup := by
  refine ⟨fun t ht => ?_, ?_⟩
  · rcases List.mem_append.mp ht with ht | ht
    · have := hlt t ht; omega
    · simp only [List.mem_singleton] at ht; subst ht; omega
  · rw [List.map_append, List.nodup_append]
    refine ⟨hnd, by simp, ?_⟩
    intro i hi j hj
    simp only [List.map_cons, List.map_nil, List.mem_singleton] at hj
    obtain ⟨s', hs', hid⟩ := List.mem_map.mp hi
    have := hlt s' hs'
    omega

theorem C16_fresh_ids_step (n : Net) (op : Op) (h : FreshIds n) : FreshIds (step n op).1 := by
  have F := remShrink_frame
  cases op with
  | enableUser y' u => exact fresh_of_remShrink (step_remShrink n _ rfl) (step_nextId_mono n _) h
  | addUserBypass y' u p adm => exact fresh_of_remShrink (step_remShrink n _ rfl) (step_nextId_mono n _) h
  | localLogin y' u p => exact fresh_of_remShrink (step_remShrink n _ rfl) (step_nextId_mono n _) h
  | localLogout y' => exact fresh_of_remShrink (step_remShrink n _ rfl) (step_nextId_mono n _) h
  | tick => exact fresh_of_remShrink (step_remShrink n _ rfl) (step_nextId_mono n _) h
  | setBlock x' y' on => exact fresh_of_remShrink (step_remShrink n _ rfl) (step_nextId_mono n _) h
  | req y' c =>
    refine exec_induction (fun n m => FreshIds n → FreshIds m) (fun _ h => h) (fun _ _ _ h1 h2 h => h2 (h1 h)) ?_
      (fun n m hs => fresh_of_remShrink (F.rel_shr F.shr (F.rel_refl n) hs) (by rw [hs.nextId]; exact Nat.le_refl _))
      (fun n y' c t => fresh_of_remShrink (F.rel_upd (F.rel_refl n) y' _ (fun a => remShrink_edits.touch y' a c t)) (Nat.le_refl _))
      (fun n y' u p => fresh_of_remShrink (F.toPre.localLogin n y' u p (fun a _ => F.refl y' a)) (localLogin_nextId n y' u p))
      (fun n y' c => fresh_of_remShrink (F.rel_upd (F.rel_refl n) y' _ (fun a => F.refl y' a)) (Nat.le_refl _)) c n y' h
    intro c hc n x h
    by_cases hl : c.noLogin = true
    · exact fresh_of_remShrink (step_remShrink n (.req x c) hl) (step_nextId_mono n (.req x c)) h
    · intro y a ha
      cases c with
      | remoteLogin y' u p =>
        rcases opRemoteLogin_cases n x y' u p with ⟨h0, _⟩ | ⟨_, b', _, _, _, hb', _, _, h0⟩
        · simp only [execCmd] at ha ⊢; rw [h0] at ha ⊢; exact h y a ha
        · obtain ⟨b, hb⟩ := step_node_back n (.req x (.remoteLogin y' u p)) y a ha
          obtain ⟨hlt, hnd⟩ := h y b hb
          simp only [execCmd] at ha ⊢
          have hrem := opRemoteLogin_rem n x y' u p y b a hb ha h0
          have hnext : (opRemoteLogin n x y' u p).1.nextId = n.nextId + 1 := by
            rcases h0 with ⟨h0, _⟩ | ⟨h0, _⟩ <;> rw [h0] <;> simp [afterLogin]
          by_cases hy : y' = y
          · simp only [hy, if_true] at hrem
            rw [hrem, hnext]
            exact fresh_append hlt hnd rfl
          · simp only [hy, if_false] at hrem
            rw [hrem, hnext]
            exact ⟨fun s hs => by have := hlt s hs; omega, hnd⟩
      | usmLogin u p peer =>
        simp only [execCmd] at ha ⊢
        rcases opUsmLogin_cases n x u p peer with ⟨h0, _⟩ | ⟨b', hb', _, _, _, h0, _⟩
        · rw [h0] at ha ⊢; exact h y a ha
        · rw [h0] at ha ⊢
          simp only [node_bump, node_upd, bump_nextId] at ha ⊢
          by_cases hy : x = y
          · subst hy
            simp only [if_true, hb', Option.map_some, Option.some.injEq] at ha
            subst ha
            obtain ⟨hlt, hnd⟩ := h x b' hb'
            exact fresh_append hlt hnd rfl
          · simp only [hy, if_false] at ha
            obtain ⟨hlt, hnd⟩ := h y a ha
            exact ⟨fun s hs => by have := hlt s hs; omega, hnd⟩
      | localCmd u p c => cases hc
      | remoteCmd z c => cases hc
      | file k => exact (hl rfl).elim
      | addUser u p adm => exact (hl rfl).elim
      | disableUser u => exact (hl rfl).elim
      | changePassword u o nw => exact (hl rfl).elim
      | remoteLogoff z => exact (hl rfl).elim
      | usmLogout i => exact (hl rfl).elim
      | svc w v => exact (hl rfl).elim
      | shutdown => exact (hl rfl).elim
      | startup => exact (hl rfl).elim
      | reset => exact (hl rfl).elim

theorem C16_fresh_ids_run (ops : List Op) (n : Net) (h : FreshIds n) : FreshIds (run n ops) := by
  induction ops generalizing n with
  | nil => exact h
  | cons op ops ih => exact ih _ (C16_fresh_ids_step n op h)

theorem eq_of_nodup_ids {l : List RSession} (h : (l.map (·.id)).Nodup) {s s' : RSession} (hs : s ∈ l) (hs' : s' ∈ l)
    (hid : s.id = s'.id) : s = s' := by
  induction l with
  | nil => cases hs
  | cons a t ih =>
    simp only [List.map_cons, List.nodup_cons] at h
    rcases List.mem_cons.mp hs with h1 | h1 <;> rcases List.mem_cons.mp hs' with h2 | h2
    · rw [h1, h2]
    · subst h1; exact (h.1 (hid ▸ List.mem_map_of_mem h2)).elim
    · subst h2; exact (h.1 (hid ▸ List.mem_map_of_mem h1)).elim
    · exact ih h.2 h1 h2

/-- **C16, time-out is exact.** In a state with unique ids (every state reachable from a fresh network,
`C16_fresh_ids_run`), after the tick that makes the time `t + 1` the remote sessions of `y` are exactly those with
`last + timeout > t + 1`: a session idle since `t₀` ends at the `pre_timestep` of tick `t₀ + timeout`, not earlier, not later. -/
theorem C16_timeout_exact (n : Net) (hf : FreshIds n) (y : Nat) (b : Node) (hb : n.node y = some b) (s : RSession)
    (hs : s ∈ b.rem) :
    ∃ a, (tick n).node y = some a ∧ (s ∈ a.rem ↔ n.time + 1 < s.last + b.remoteTimeout) := by
  by_cases hlive : n.time + 1 < s.last + b.remoteTimeout
  · have hne : ∀ s' ∈ b.rem, s'.last + b.remoteTimeout ≤ n.time + 1 → s'.id ≠ s.id := by
      intro s' hs' hexp hid
      have := eq_of_nodup_ids (hf y b hb).2 hs' hs hid
      subst this; omega
    obtain ⟨a, ha, hsa⟩ := C16_timeout_not_earlier n y b s hb hs hlive hne
    exact ⟨a, ha, ⟨fun _ => hlive, fun _ => hsa⟩⟩
  · obtain ⟨a, ha⟩ : ∃ a, (tick n).node y = some a := by
      have := step_node_some n .tick y b hb
      simpa [step] using this
    refine ⟨a, ha, ⟨fun hsa => ?_, fun h => (hlive h).elim⟩⟩
    exact (C16_timeout_expired_gone n y b s hb hs (by omega) a ha hsa).elim

example : FreshIds demoNet := by
  intro y b hb
  match y, hb with
  | 0, hb => cases hb; exact ⟨fun s hs => (by simp at hs), (by decide)⟩
  | 1, hb => cases hb; exact ⟨fun s hs => (by simp at hs), (by decide)⟩
  | 2, hb => cases hb; exact ⟨fun s hs => (by simp at hs), (by decide)⟩

/-! ### the fuel of the disconnect recursion always suffices -/

/-- **C16, fuel (the recursion itself).** `Terminal._disconnect` and the "disconnect" messages it triggers form a recursion
through the terminals and session managers of several nodes.  The model runs it with fuel `3·(number of terminal connections in
the network) + 4`; in EVERY state (reachable or not) that is enough: the run ends without exhausting the fuel, and never adds a
connection.  (Every `_disconnect` that goes on has first removed a connection.) -/
theorem C16_fuel_disconnect (n : Net) (i cid : Nat) :
    (disconnect n.fuel n i cid).stuck = n.stuck ∧ (disconnect n.fuel n i cid).totalConns ≤ n.totalConns :=
  chain_ok n.fuel .disconnect n i cid (by simp only [need, Net.fuel]; omega)

theorem exec_not_stuck (c : Cmd) (n : Net) (y : Nat) : (execCmd c n y).1.stuck = n.stuck := by
  refine exec_induction' (fun n m => m.stuck = n.stuck) (fun _ => rfl) (fun _ _ _ h1 h2 => h2.trans h1) ?_
    (fun n y cid => disconnect_not_stuck n y cid) (fun _ _ _ _ => rfl) (fun n y u p => localLogin_not_stuck n y u p)
    (fun _ _ _ => rfl) c n y
  intro c hc n y
  cases c with
  | localCmd u p c => cases hc
  | remoteCmd z c => cases hc
  | file k => rcases opFile_cases n y k with h | ⟨_, _, _, h⟩ <;> simp [execCmd, h]
  | addUser u p adm => rcases opAddUser_cases n y u p adm with h | ⟨_, _, _, _, _, h⟩ <;> simp [execCmd, h]
  | disableUser u => rcases opDisableUser_cases n y u with h | ⟨_, _, _, _, _, _, _, _, h⟩ <;> simp [execCmd, h]
  | changePassword u o nw =>
    rcases opChangePassword_cases n y u o nw with ⟨h, _⟩ | ⟨_, _, _, _, _, _, _, h, _⟩ <;> simp only [execCmd, h]
    rw [logoutUser_not_stuck]; rfl
  | remoteLogin z u p =>
    rcases opRemoteLogin_cases n y z u p with ⟨h, _⟩ | ⟨_, _, _, _, _, _, _, _, ⟨h, _⟩ | ⟨h, _⟩⟩ <;>
      simp [execCmd, h, afterLogin]
  | remoteLogoff z =>
    rcases opRemoteLogoff_cases n y z with h | ⟨_, _, _, _, _, h, _⟩ <;> simp only [execCmd, h]
    exact disconnect_not_stuck _ _ _
  | usmLogin u p peer =>
    rcases opUsmLogin_cases n y u p peer with ⟨h, _⟩ | ⟨_, _, _, _, _, h, _⟩ <;> simp [execCmd, h]
  | usmLogout i =>
    rcases opUsmLogout_cases n y i with ⟨h, _⟩ | ⟨_, _, _, _, _, h⟩ <;> simp only [execCmd, h, upd_stuck]
    exact disconnect_not_stuck _ _ _
  | svc w v => rcases opSvc_cases n y w v with h | ⟨_, _, h⟩ <;> simp [execCmd, h]
  | shutdown => rcases opShutdown_cases n y with h | ⟨_, _, h⟩ <;> simp [execCmd, h]
  | startup => rcases opStartup_cases n y with h | ⟨_, _, h⟩ <;> simp [execCmd, h]
  | reset => rcases opReset_cases n y with h | ⟨_, _, h⟩ <;> simp [execCmd, h]

/-- **C16, fuel (every operation).** No operation — password change with its forced logouts, logoff, rejected command, direct
logout, nested commands — ever exhausts the fuel: the `stuck` flag of the model is never set, from any state. -/
theorem C16_fuel_suffices (n : Net) (op : Op) : (step n op).1.stuck = n.stuck := by
  cases op with
  | req y c => exact exec_not_stuck c n y
  | enableUser y u => rcases opEnableUser_cases n y u with h | h <;> simp [step, h]
  | addUserBypass y u p adm => rcases opAddUserBypass_cases n y u p adm with h | ⟨_, _, _, h⟩ <;> simp [step, h]
  | localLogin y u p => simp only [step]; rw [opLocalLogin_fst]; exact localLogin_not_stuck n y u p
  | localLogout y => rcases opLocalLogout_cases n y with h | h <;> simp [step, h]
  | tick => exact tick_not_stuck n
  | setBlock x y on => rfl

theorem C16_fuel_suffices_run (ops : List Op) (n : Net) : (run n ops).stuck = n.stuck := by
  induction ops generalizing n with
  | nil => rfl
  | cons op ops ih => exact (ih _).trans (C16_fuel_suffices n op)

end Primaite.Session
