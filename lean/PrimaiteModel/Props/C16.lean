/-
C16 — logins need valid credentials; remote commands need a live session.
Property theorems only; the model is `Model/Session.lean`.
-/
import PrimaiteModel.Model.Session
import PrimaiteModel.Gen.Session
namespace Primaite.Session

/-! ### translator tie: what the model assumes about the source is what the source says now -/

def showSvcState : SvcState → String
  | .running => "RUNNING" | .stopped => "STOPPED" | .paused => "PAUSED" | .disabled => "DISABLED"
  | .installing => "INSTALLING" | .restarting => "RESTARTING"

def Verb.name : Verb → String
  | .stop => "stop" | .start => "start" | .pause => "pause" | .resume => "resume" | .restart => "restart"
  | .disable => "disable" | .enable => "enable"

def Verb.all : List Verb := [.stop, .start, .pause, .resume, .restart, .disable, .enable]

/-- defaults of `UserSessionManager` / `Service` are the defaults of the model's `Node` -/
theorem C16_gen_defaults :
    ({} : Node).localTimeout = Gen.Session.localTimeoutDefault ∧
    ({} : Node).remoteTimeout = Gen.Session.remoteTimeoutDefault ∧
    ({} : Node).maxRemote = Gen.Session.maxRemoteDefault ∧
    ({} : Node).restartDur = Gen.Session.restartDurationDefault := by decide

/-- comparison operators: time-out is `last + timeout ≤ t` (model: `Node.expired`, `Node.localExpired`),
the limit is `len ≥ max` (model: login needs `len < max`) -/
theorem C16_gen_comparisons :
    Gen.Session.localTimeoutCmp = "le" ∧ Gen.Session.remoteTimeoutCmp = "le" ∧ Gen.Session.limitCmp = "ge" ∧
    Gen.Session.preTimestepSetsCurrent = true ∧ Gen.Session.validateIsMembership = true := by decide

/-- guard shapes the model's `authenticate`, `loginOk`, `changePassword`, `disableUser`, `logoutUser` rely on -/
theorem C16_gen_guards :
    Gen.Session.authGuarded = true ∧
    Gen.Session.authTest = ["user", "not user.disabled", "user.password == password"] ∧
    Gen.Session.authReturnsUserElseNone = true ∧
    Gen.Session.chpwGuarded = true ∧
    Gen.Session.chpwTest = ["user", "user.password == current_password"] ∧
    Gen.Session.chpwSetsPasswordAndLogsOut = true ∧
    Gen.Session.logoutUserReturnsInsideLoop = false ∧
    Gen.Session.logoutUserIteratesSnapshotOfUsersSessions = true ∧
    Gen.Session.logoutUserForced = true ∧
    Gen.Session.logoutGuardSkippedOnlyWhenForced = true ∧
    Gen.Session.lastAdminTest = "username in self.admins and len(self.admins) == 1" ∧
    Gen.Session.adminsExpr = "{k: v for k, v in self.users.items() if v.is_admin and (not v.disabled)}" ∧
    Gen.Session.disableGuarded = true ∧
    Gen.Session.disableRefusesLastAdmin = true ∧
    Gen.Session.userDeletions = [] ∧
    Gen.Session.loginGuarded = true ∧ Gen.Session.loginAuthenticates = true ∧ Gen.Session.loginChecksLimit = true ∧
    Gen.Session.timeoutToleratesMissingConnection = true := by decide

/-- terminal: a command is executed only under `_check_client_connection`, which is "live session and known connection";
`send_remote_command` answers from the response to *this* command only; closed ports drop frames -/
theorem C16_gen_terminal :
    Gen.Session.executeOnlyUnderValidConnection = true ∧
    Gen.Session.checkClientConnectionShape = true ∧
    Gen.Session.remoteCommandClearsLastResponse = true ∧
    Gen.Session.remoteCommandAnswersFailureWithoutResponse = true ∧
    Gen.Session.hostDropsFramesForClosedPorts = true := by decide

/-- the service verbs of the model carry the validators of `Service._init_request_manager` -/
theorem C16_gen_service_verbs :
    ∀ v ∈ Verb.all, (v.name, s!"self.{v.name}()", (match v.needs with | some q => showSvcState q | none => "-"))
      ∈ Gen.Session.serviceVerbs := by decide

/-- the states each lifecycle method accepts, and the enum, are the model's -/
theorem C16_gen_service_methods :
    Gen.Session.methodStates =
      [("stop", ["PAUSED", "RUNNING"]), ("start", ["STOPPED"]), ("pause", ["RUNNING"]), ("resume", ["PAUSED"]),
       ("restart", ["PAUSED", "RUNNING"]), ("enable", ["DISABLED"]), ("disable", [])] ∧
    Gen.Session.restartFinishTest = "self.restart_countdown <= 0" ∧
    Gen.Session.svcStates = [("RUNNING", 1), ("STOPPED", 2), ("PAUSED", 3), ("DISABLED", 4), ("INSTALLING", 5), ("RESTARTING", 6)] := by
  decide

end Primaite.Session
