/-
C16 — logins need valid credentials; remote commands need a live session.
Property theorems only; the model is `Model/Session.lean`.
-/
import PrimaiteModel.Lemmas.SessionCases
import PrimaiteModel.Gen.Session
namespace Primaite.Session

/-! ### translator tie: what the model assumes about the source is what the source says now -/

def showSvcState : SvcState → String
  | .running => "RUNNING" | .stopped => "STOPPED" | .paused => "PAUSED" | .disabled => "DISABLED"
  | .installing => "INSTALLING" | .restarting => "RESTARTING"

def Verb.name : Verb → String
  | .stop => "stop" | .start => "start" | .pause => "pause" | .resume => "resume" | .restart => "restart"
  | .disable => "disable" | .enable => "enable"

def Verb.all : List Verb := [.stop, .start, .pause, .resume, .restart, .disable, .enable]

/-- defaults of `UserSessionManager` / `Service` are the defaults of the model's `Node` -/
theorem C16_gen_defaults :
    ({} : Node).localTimeout = Gen.Session.localTimeoutDefault ∧
    ({} : Node).remoteTimeout = Gen.Session.remoteTimeoutDefault ∧
    ({} : Node).maxRemote = Gen.Session.maxRemoteDefault ∧
    ({} : Node).restartDur = Gen.Session.restartDurationDefault := by decide

/-- comparison operators: time-out is `last + timeout ≤ t` (model: `Node.expired`, `Node.localExpired`),
the limit is `len ≥ max` (model: login needs `len < max`) -/
theorem C16_gen_comparisons :
    Gen.Session.localTimeoutCmp = "le" ∧ Gen.Session.remoteTimeoutCmp = "le" ∧ Gen.Session.limitCmp = "ge" ∧
    Gen.Session.preTimestepSetsCurrent = true ∧ Gen.Session.validateIsMembership = true := by decide

/-- guard shapes the model's `authenticate`, `loginOk`, `changePassword`, `disableUser`, `logoutUser` rely on -/
theorem C16_gen_guards :
    Gen.Session.authGuarded = true ∧
    Gen.Session.authTest = ["user", "not user.disabled", "user.password == password"] ∧
    Gen.Session.authReturnsUserElseNone = true ∧
    Gen.Session.chpwGuarded = true ∧
    Gen.Session.chpwTest = ["user", "user.password == current_password"] ∧
    Gen.Session.chpwSetsPasswordAndLogsOut = true ∧
    Gen.Session.logoutUserReturnsInsideLoop = false ∧
    Gen.Session.logoutUserIteratesSnapshotOfUsersSessions = true ∧
    Gen.Session.logoutUserForced = true ∧
    Gen.Session.logoutGuardSkippedOnlyWhenForced = true ∧
    Gen.Session.lastAdminTest = "username in self.admins and len(self.admins) == 1" ∧
    Gen.Session.adminsExpr = "{k: v for k, v in self.users.items() if v.is_admin and (not v.disabled)}" ∧
    Gen.Session.disableGuarded = true ∧
    Gen.Session.disableRefusesLastAdmin = true ∧
    Gen.Session.userDeletions = [] ∧
    Gen.Session.loginGuarded = true ∧ Gen.Session.loginAuthenticates = true ∧ Gen.Session.loginChecksLimit = true ∧
    Gen.Session.timeoutToleratesMissingConnection = true := by decide

/-- terminal: a command is executed only under `_check_client_connection`, which is "live session and known connection";
`send_remote_command` answers from the response to *this* command only; closed ports drop frames -/
theorem C16_gen_terminal :
    Gen.Session.executeOnlyUnderValidConnection = true ∧
    Gen.Session.checkClientConnectionShape = true ∧
    Gen.Session.remoteCommandClearsLastResponse = true ∧
    Gen.Session.remoteCommandAnswersFailureWithoutResponse = true ∧
    Gen.Session.hostDropsFramesForClosedPorts = true := by decide

/-- the service verbs of the model carry the validators of `Service._init_request_manager` -/
theorem C16_gen_service_verbs :
    ∀ v ∈ Verb.all, (v.name, s!"self.{v.name}()", (match v.needs with | some q => showSvcState q | none => "-"))
      ∈ Gen.Session.serviceVerbs := by decide

/-- the states each lifecycle method accepts, and the enum, are the model's -/
theorem C16_gen_service_methods :
    Gen.Session.methodStates =
      [("stop", ["PAUSED", "RUNNING"]), ("start", ["STOPPED"]), ("pause", ["RUNNING"]), ("resume", ["PAUSED"]),
       ("restart", ["PAUSED", "RUNNING"]), ("enable", ["DISABLED"]), ("disable", [])] ∧
    Gen.Session.restartFinishTest = "self.restart_countdown <= 0" ∧
    Gen.Session.svcStates = [("RUNNING", 1), ("STOPPED", 2), ("PAUSED", 3), ("DISABLED", 4), ("INSTALLING", 5), ("RESTARTING", 6)] := by
  decide

/-! ### commands are executed only on a live session (or with valid local credentials) -/

/-- files of every node untouched -/
def KeepFiles : Nat → Node → Node → Prop := fun _ a b => b.files = a.files

theorem keepFiles_frame : Frame KeepFiles :=
  { refl := fun _ _ => rfl, trans := fun _ _ _ _ h1 h2 => Eq.trans h2 h1,
    shr := fun _ _ _ h => h.files, data := fun _ _ _ h => data_files h }

/-- files, terminal state and power untouched (what a local login leaves alone) -/
def KeepExec : Nat → Node → Node → Prop := fun _ a b => b.files = a.files ∧ b.term = a.term ∧ b.power = a.power

theorem keepExec_pre : Pre KeepExec :=
  { refl := fun _ _ => ⟨rfl, rfl, rfl⟩,
    trans := fun _ _ _ _ h1 h2 => ⟨h2.1.trans h1.1, h2.2.1.trans h1.2.1, h2.2.2.trans h1.2.2⟩ }

theorem remoteExec_files (b : Node) (cid t k : Nat) :
    (b.remoteExec cid t k).files = if b.isOn then b.files ++ [k] else b.files := by
  unfold Node.remoteExec Node.exec Node.touch Node.isOn
  dsimp only
  split <;> rfl

theorem localExec_files (b : Node) (k : Nat) :
    (b.localExec k).files = if b.term.running && b.isOn then b.files ++ [k] else b.files := by
  unfold Node.localExec Node.exec
  cases h1 : b.term.running <;> cases h2 : b.isOn <;> simp [Node.addFile]

/-- **C16, commands.** Whatever the operation, the files of node `y` change only if
* the operation is a remote command from some `x` to `y` that arrived (sender ON, its terminal RUNNING, path open), the
  connection it was sent on (the sender's first connection to `y`) carries an id that is at that moment a remote session of
  `y` *and* a connection known to `y`'s terminal, and `y` is ON; or
* it is a local command on `y` whose credentials pass `_login` (existing enabled account, current password, node ON,
  both managers RUNNING) while the terminal is RUNNING.
In both cases exactly the commanded file is added. -/
theorem C16_command_runs_only_live (n : Net) (op : Op) (y : Nat) (b a : Node)
    (hb : n.node y = some b) (ha : (step n op).1.node y = some a) (hne : a.files ≠ b.files) :
    (∃ x k a' c, op = .remoteCmd x y k ∧ CmdArrives n x y a' b c ∧ b.hasSession c.id = true ∧ b.hasConn c.id = true ∧
        b.isOn = true ∧ a.files = b.files ++ [k]) ∨
    (∃ u p k, op = .localCmd y u p k ∧ b.isOn = true ∧ b.loginOk u p = true ∧ b.term.running = true ∧
        a.files = b.files ++ [k]) := by
  have contra : Net.Rel KeepFiles n (step n op).1 → False := fun h => by
    obtain ⟨a', ha', hk⟩ := h.node y b hb
    rw [ha] at ha'; cases ha'; exact hne hk
  have F := keepFiles_frame
  cases op with
  | addUser y' u p adm => exact (contra (F.toPre.addUser n y' u p adm (fun _ _ => rfl))).elim
  | disableUser y' u => exact (contra (F.toPre.disableUser n y' u (fun _ => rfl))).elim
  | changePassword y' u o nw => exact (contra (F.changePassword n y' u o nw (fun _ => rfl))).elim
  | localLogin y' u p =>
    refine (contra ?_).elim
    simp only [step]; rw [opLocalLogin_fst]; exact F.toPre.localLogin n y' u p (fun _ _ => rfl)
  | localLogout y' => exact (contra (F.quiet n _ trivial)).elim
  | remoteLogin x y' u p => exact (contra (F.toPre.remoteLogin n x y' u p (fun _ _ => rfl) (fun _ _ _ => rfl))).elim
  | remoteLogoff x y' => exact (contra (F.quiet n _ trivial)).elim
  | svc y' w v => exact (contra (F.quiet n _ trivial)).elim
  | shutdown y' => exact (contra (F.quiet n _ trivial)).elim
  | startup y' => exact (contra (F.quiet n _ trivial)).elim
  | reset y' => exact (contra (F.quiet n _ trivial)).elim
  | tick => exact (contra (F.quiet n _ trivial)).elim
  | remoteCmd x y' k =>
    simp only [step] at ha contra
    rcases opRemoteCmd_cases n x y' k with ⟨h0, _⟩ | ⟨a', b', c, arr, ⟨hs, hc, h0⟩ | ⟨_, h0, _⟩⟩
    · rw [h0] at contra; exact (contra (F.rel_refl n)).elim
    · rw [h0] at ha
      by_cases hy : y' = y
      · subst hy
        have hbb : b' = b := by have := arr.dst; rw [hb] at this; cases this; rfl
        subst hbb
        simp only [node_upd, if_true, hb, Option.map_some, Option.some.injEq] at ha
        subst ha
        rw [remoteExec_files] at hne ⊢
        cases hon : b'.isOn with
        | false => simp [hon] at hne
        | true => exact Or.inl ⟨x, k, a', c, rfl, arr, hs, hc, rfl, by simp⟩
      · simp only [node_upd, hy, if_false] at ha
        rw [hb] at ha; cases ha; exact (hne rfl).elim
    · rw [h0] at contra; exact (contra (F.rel_shr F.shr (F.rel_refl n) (shr_disconnect _ _ _ _))).elim
  | localCmd y' u p k =>
    simp only [step] at ha contra
    have hl : Net.Rel KeepExec n (localLogin n y' u p).1 := keepExec_pre.localLogin n y' u p (fun _ _ => ⟨rfl, rfl, rfl⟩)
    rcases opLocalCmd_cases n y' u p k with h0 | ⟨nd, hnd, hon, ⟨_, h0⟩ | ⟨id, hid, h0⟩⟩
    · rw [h0] at contra; exact (contra (F.rel_refl n)).elim
    · rw [h0] at contra; exact (contra (hl.mono (fun _ _ _ h => h.1))).elim
    · rw [h0] at ha
      obtain ⟨b1, hb1, hk1, ht1, hp1⟩ := hl.node y b hb
      by_cases hy : y' = y
      · subst hy
        rw [hb] at hnd; cases hnd
        simp only [node_upd, if_true, hb1, Option.map_some, Option.some.injEq] at ha
        subst ha
        have hlogin : b.loginOk u p = true := by
          rcases localLogin_cases n y' u p with h1 | ⟨nd', hnd', hok, _⟩
          · rw [h1] at hid; cases hid
          · rw [hb] at hnd'; cases hnd'; exact hok
        have hf : ((b1.addConn ⟨id, none⟩).localExec k).files =
            if b.term.running && b.isOn then b.files ++ [k] else b.files := by
          rw [localExec_files]
          simp only [Node.addConn, Node.isOn, ht1, hp1, hk1]
          rfl
        rw [hf] at hne ⊢
        cases hr : b.term.running with
        | false => simp [hr] at hne
        | true => exact Or.inr ⟨u, p, k, rfl, hon, hlogin, rfl, by simp [hon]⟩
      · simp only [node_upd, hy, if_false] at ha
        rw [hb1] at ha; cases ha; exact (hne hk1).elim


end Primaite.Session
