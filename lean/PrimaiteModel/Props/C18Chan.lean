/-
C18, continued — the budget of a wireless channel is the budget of the PHYSICAL channel (the frequency in hertz).

`AirSpace.transmit` hands a frame to the interfaces listed under the sender's `frequency_hz`: that is the channel the frame goes out
on.  Several frequency *names* may be registered for one hz (`AirSpace.register_frequency`; "they will share a bandwidth",
`AirSpaceFrequency`).  The model therefore has ONE load per hz (`Chan.load`) and one capacity per interface (`Chan.caps[i]` = the
capacity of the name interface `i` uses).  This file states the property for the physical channel whatever the number of names and
access points on it, shows what a budget kept per NAME does, and ties the index of the budget to the source.
-/
import PrimaiteModel.Props.C18

namespace Primaite.Link

theorem foldr_max_le (xs : List Nat) (C : Nat) (h : ∀ x ∈ xs, x ≤ C) : xs.foldr max 0 ≤ C := by
  induction xs with
  | nil => exact Nat.zero_le _
  | cons x xs ih =>
    simp only [List.foldr_cons]
    have h1 := h x (List.mem_cons_self ..)
    have h2 := ih (fun y hy => h y (List.mem_cons_of_mem _ hy))
    exact Nat.max_le.mpr ⟨h1, h2⟩

/-- **One physical channel, any number of names and access points.**  If every interface on the hz is admitted against a capacity of
at most `C` (names that alias one hz with the same data rate: all equal `C`), then in every tick — whatever the traffic: any number
of senders under any of the names, nested sends, interfaces toggled, joining and leaving — the data sent on the hz is within `C`. -/
theorem C18_physical_channel_le_capacity (n : Net) (evs : List Ev) (c C : Nat) (ch : Chan)
    (hc : n.chans[c]? = some ch) (hC : ∀ x ∈ ch.caps, x ≤ C) :
    carriedOn true c (runEvs (tick n) evs).2 ≤ C := by
  have h := (C18_air_carried_le_capacity n evs c).2
  have hcap : capOf n c ≤ C := by
    unfold capOf
    rw [hc]
    exact foldr_max_le ch.caps C hC
  omega

/-- three access points under two names of capacity 10 on one hz: 4 + 4 are sent, the third sender's 4 is dropped at the sender
(`full`) although its own name has sent nothing yet -/
example :
    let n : Net := { links := [], chans := [{ caps := [10, 10, 10], load := 3, en := [true, true, true] }] }
    let r := runEvs (tick n) [.wsend 0 0 4 [], .wsend 0 1 4 [], .wsend 0 2 4 []]
    r.2.map (·.verdict) = [.carried, .carried, .full] ∧ carriedOn true 0 r.2 = 8 := by decide

/-! ### A budget kept per frequency NAME (never in the repository): what it would do

`sendsPerName cap loads sends`: the accounting with one counter per name (`loads[name]`), every name of capacity `cap`, all names on
one hz; `sends` = (name, size) in order.  Returns what went out on the hz. -/

def sendsPerName (cap : Nat) : List Nat → List (Nat × Nat) → Nat
  | _, [] => 0
  | loads, (nm, s) :: rest =>
    match loads[nm]? with
    | none => sendsPerName cap loads rest
    | some l =>
      if l + s ≤ cap then s + sendsPerName cap (loads.set nm (l + s)) rest   -- admitted against the NAME's own counter
      else sendsPerName cap loads rest

/-- The property for a budget kept per name: the hz carries at most the capacity. -/
def C18_Full_budget_per_name : Prop :=
  ∀ (cap : Nat) (names : Nat) (sends : List (Nat × Nat)), sendsPerName cap (List.replicate names 0) sends ≤ cap

/-- It is false: two names on one hz of capacity 10, each sends 8: the channel carries 16 (N names: up to N times the capacity). -/
theorem C18_budget_per_name_counterexample : ¬ C18_Full_budget_per_name := by
  intro h
  have := h 10 2 [(0, 8), (1, 8)]
  revert this
  decide

/-- The same traffic in the model of the code (one counter per hz): the second 8 is dropped at the sender. -/
example :
    let n : Net := { links := [], chans := [{ caps := [10, 10], load := 0, en := [true, true] }] }
    carriedOn true 0 (runEvs (tick n) [.wsend 0 0 8 [], .wsend 0 1 8 []]).2 = 8 := by decide

/-! ### Tie to the source -/

/-- The budget the admission test reads, the budget `transmit` adds to and the list of receivers `transmit` walks are all indexed
by the sender's `frequency_hz` — the budget is that of the channel the frame goes out on. -/
theorem C18_gen_air_keys :
    Gen.Link.airKeys = [("can_transmit_frame:budget", "frequency_hz"), ("transmit:budget", "frequency_hz"),
                        ("transmit:receivers", "frequency_hz")] := by decide

end Primaite.Link
