/-
C17, round 4 — the FTP layer as far as the database's two transfers use it, TRANSLATED statement by statement from
ftp_client.py / ftp_server.py / ftp_service.py / software.py on every run (Gen/DatabaseFtpTr.lean,
harness/extract/database_ftp_tr.py), is proved equal to the model's `ftpSendFile` / `ftpRequestFile`.  The only hand-written
part left in between is the delivery of a frame from one host to the other (`netToServer` / `netToClient`, stated in the
generated file): path open ⇒ the other side's translated `receive` runs on the very packet object.
-/
import PrimaiteModel.Props.C17
import PrimaiteModel.Gen.DatabaseFtpTr
namespace Primaite.Database
open Primaite.Gen.DatabaseFtpTr

/-! ### the backup host's side -/

/-- PORT at the FTP server: OK iff it can act (and the port argument is valid) -/
theorem srv_port (w : FtpW) :
    serverReceive w { cmd := some .port, portArg := true } =
      if w.b.serves then (w, { cmd := some .port, portArg := true, status := some .ok }, true)
      else (w, { cmd := some .port, portArg := true }, false) := by
  unfold serverReceive processS FtpW.canAct
  cases w.b.serves <;> simp

theorem srv_quit (w : FtpW) :
    serverReceive w { cmd := some .quit } =
      if w.b.serves then (w, { cmd := some .quit, status := some .ok }, true) else (w, { cmd := some .quit }, false) := by
  unfold serverReceive processS FtpW.canAct
  cases w.b.serves <;> simp

/-- STOR of the database file at the FTP server: stored iff it can act and no copy is there yet -/
theorem srv_stor (w : FtpW) (h : FHealth) :
    serverReceive w { cmd := some .stor, dest := some .stored, health := some h } =
      if w.b.serves then
        (match w.b.stored with
         | some _ => (w, { cmd := some .stor, dest := some .stored, health := some h, status := some .error }, true)
         | none => ({ w with b := { w.b with stored := some h } },
                    { cmd := some .stor, dest := some .stored, health := some h, status := some .ok }, true))
      else (w, { cmd := some .stor, dest := some .stored, health := some h }, false) := by
  unfold serverReceive processS processAbcS storeDataS FtpW.canAct FtpW.createFile FtpW.setHealth FtpW.getFile
  cases w.b.serves <;> cases hs : w.b.stored <;> simp [hs]

/-! ### the database host's side: an incoming STOR (the answer to RETR) -/

theorem cli_stor (w : FtpW) (h : FHealth) :
    clientReceive w { cmd := some .stor, dest := some .downloads, health := some h, status := some .ok } =
      if w.s.ftpcAct then
        (match w.s.downloads with
         | some _ => (w, { cmd := some .stor, dest := some .downloads, health := some h, status := some .ok }, true)
         | none => ({ w with s := { w.s with downloads := some h, dlFolder := true } },
                    { cmd := some .stor, dest := some .downloads, health := some h, status := some .ok }, true))
      else (w, { cmd := some .stor, dest := some .downloads, health := some h, status := some .ok }, false) := by
  unfold clientReceive processC processAbcC storeDataC FtpW.canAct FtpW.createFile FtpW.setHealth FtpW.getFile
  cases w.s.ftpcAct <;> cases hs : w.s.downloads <;> simp [hs]

/-- RETR of the stored copy at the FTP server: answered OK as soon as the copy has been SENT (whether or not it arrives) -/
theorem srv_retr (w : FtpW) :
    serverReceive w { cmd := some .retr, src := some .stored, dest := some .downloads } =
      if w.b.serves then
        (match w.b.stored with
         | none => (w, { cmd := some .retr, src := some .stored, dest := some .downloads, status := some .error }, true)
         | some bh =>
           if !w.sendOk then (w, { cmd := some .retr, src := some .stored, dest := some .downloads, status := some .error }, true)
           else if w.pathResp && w.s.ftpcAct && w.s.downloads.isNone then
             ({ w with s := { w.s with downloads := some bh, dlFolder := true } },
              { cmd := some .retr, src := some .stored, dest := some .downloads, status := some .ok }, true)
           else (w, { cmd := some .retr, src := some .stored, dest := some .downloads, status := some .ok }, true))
      else (w, { cmd := some .retr, src := some .stored, dest := some .downloads }, false) := by
  unfold serverReceive processS processAbcS retrieveDataS sendDataS ftpSendS sendS netToClient
  simp only [FtpW.canAct, FtpW.getFile]
  cases hsv : w.b.serves
  · simp [hsv]
  · cases hs : w.b.stored with
    | none => simp [hsv, hs]
    | some bh =>
      cases hk : w.sendOk
      · simp [hsv, hs, hk]
      · cases hp : w.pathResp
        · simp [hsv, hs, hk, hp]
        · have hc := cli_stor w bh
          cases ha : w.s.ftpcAct <;> cases hd : w.s.downloads <;> simp [hsv, hs, hk, hp, hc, ha, hd]

/-! ### the database host's own calls -/

theorem connectC_eq (w : FtpW) :
    connectC w =
      if w.s.ftpcAct && w.pathReq && w.b.serves then ({ w with s := { w.s with ftpConn := true } }, true) else (w, false) := by
  unfold connectC connectRetryC ftpSendC sendC netToServer
  simp only [FtpW.canAct]
  cases ha : w.s.ftpcAct
  · simp [ha]
  · cases hp : w.pathReq
    · cases hl : w.lost <;> simp [ha, hp, hl]
    · have h1 := srv_port w
      cases hs : w.b.serves <;> simp [h1, hs, ha, hp]

theorem disconnectC_eq (w : FtpW) : disconnectC w = (w, w.pathReq && w.b.serves) := by
  unfold disconnectC netToServer
  cases hp : w.pathReq
  · simp [hp]
  · have h1 := srv_quit w
    cases hs : w.b.serves <;> simp [h1, hs, hp]

theorem sendDataC_eq (w : FtpW) :
    sendDataC w .dbFile .stored false =
      if w.s.ftpcAct && w.pathReq && w.big && w.b.serves then
        (match w.b.stored, w.s.file with
         | none, some fh => ({ w with b := { w.b with stored := some fh } }, true)
         | _, _ => (w, false))
      else (w, false) := by
  unfold sendDataC ftpSendC sendC netToServer
  simp only [FtpW.canAct, FtpW.getFile]
  by_cases ha : w.s.ftpcAct = true
  · by_cases hp : w.pathReq = true
    · by_cases hb : w.big = true
      · rcases Option.eq_none_or_eq_some w.s.file with hf | ⟨fh, hf⟩
        · -- no live file: the packet carries no health, `_store_data` fails on the missing key
          by_cases hs : w.b.serves = true <;> rcases Option.eq_none_or_eq_some w.b.stored with hst | ⟨x, hst⟩ <;>
            simp [hs, hst, ha, hp, hb, hf, serverReceive, processS, processAbcS, storeDataS, FtpW.canAct]
        · have h1 := srv_stor w fh
          by_cases hs : w.b.serves = true <;> rcases Option.eq_none_or_eq_some w.b.stored with hst | ⟨x, hst⟩ <;>
            simp [h1, hs, hst, ha, hp, hb, hf]
      · by_cases hl : w.lost = true <;> simp [ha, hp, hb, hl]
    · by_cases hl : w.lost = true <;> simp [ha, hp, hl]
  · simp [ha]

theorem serves_stored (b : Backup) (x : Option FHealth) : Backup.serves { b with stored := x } = b.serves := rfl

/-- **`FTPClient.send_file` as translated = the model's `ftpSendFile`** - for every database host, backup host, path and
saturation input, and whatever `send` reports for a lost frame: new database host, new backup host, result. -/
theorem C17_tr_ftp_send_file (s : Server) (b : Backup) (pq pr big k lost : Bool) :
    ((sendFile ⟨s, b, pq, pr, big, k, lost⟩ .dbFile .stored).1.s, (sendFile ⟨s, b, pq, pr, big, k, lost⟩ .dbFile .stored).1.b,
      (sendFile ⟨s, b, pq, pr, big, k, lost⟩ .dbFile .stored).2) = ftpSendFile s b pq big := by
  unfold sendFile ftpSendFile
  simp only [connectC_eq, sendDataC_eq, disconnectC_eq, FtpW.getFile, Server.ftpcAct]
  by_cases hact : (s.ftpc == some SvcState.running) = true <;> by_cases hpq : pq = true <;> by_cases hs : b.serves = true <;>
    by_cases hq : s.ftpConn = true <;> by_cases hb : big = true <;>
    rcases Option.eq_none_or_eq_some s.file with hf | ⟨fh, hf⟩ <;> rcases Option.eq_none_or_eq_some b.stored with hst | ⟨x, hst⟩ <;>
    simp [hf, hact, hs, hq, hst, hpq, hb, serves_stored] <;> (try (cases s; simp_all [Backup.serves]))

/-- **`FTPClient.request_file` as translated = the model's `ftpRequestFile`**; the backup host is left as it was. -/
theorem C17_tr_ftp_request_file (s : Server) (b : Backup) (pq pr big k lost : Bool) :
    ((requestFile ⟨s, b, pq, pr, big, k, lost⟩ .stored .downloads).1.s, (requestFile ⟨s, b, pq, pr, big, k, lost⟩ .stored .downloads).2)
      = ftpRequestFile s b pq pr k ∧
    (requestFile ⟨s, b, pq, pr, big, k, lost⟩ .stored .downloads).1.b = b := by
  unfold requestFile ftpRequestFile netToServer
  simp only [connectC_eq, srv_retr, Server.ftpcAct]
  by_cases hact : (s.ftpc == some SvcState.running) = true <;> by_cases hpq : pq = true <;> by_cases hs : b.serves = true <;>
    by_cases hq : s.ftpConn = true <;> simp [hact, hs, hq, hpq] <;>
    (try (rcases Option.eq_none_or_eq_some b.stored with hst | ⟨x, hst⟩ <;> by_cases hk : k = true <;> by_cases hpr : pr = true <;>
      rcases Option.eq_none_or_eq_some s.downloads with hd | ⟨y, hd⟩ <;> simp [hst, hd, hk, hpr])) <;>
    (try (cases s; simp_all))

end Primaite.Database

namespace Primaite.Database
open Primaite.Gen.DatabaseFtpTr

/-- **The stored copy, through the translated store path.**  `FTPClient.send_file` → `_send_data` → (delivery) →
`FTPServer.receive` → `_process_ftp_command` → `FTPServiceABC._store_data`, all as translated from the source: a transfer that
reports success found no copy on the backup host and leaves exactly the database file's health there; while a copy exists the
transfer reports failure and the backup host is untouched. -/
theorem C17_tr_stored_copy (s : Server) (b : Backup) (pq pr big k lost : Bool) :
    ((sendFile ⟨s, b, pq, pr, big, k, lost⟩ .dbFile .stored).2 = true →
      b.stored = none ∧ (sendFile ⟨s, b, pq, pr, big, k, lost⟩ .dbFile .stored).1.b.stored = s.file ∧ s.file.isSome) ∧
    (b.stored.isSome → (sendFile ⟨s, b, pq, pr, big, k, lost⟩ .dbFile .stored).2 = false ∧
      (sendFile ⟨s, b, pq, pr, big, k, lost⟩ .dbFile .stored).1.b = b) := by
  have h := C17_tr_ftp_send_file s b pq pr big k lost
  have h1 : (sendFile ⟨s, b, pq, pr, big, k, lost⟩ .dbFile .stored).1.b = (ftpSendFile s b pq big).2.1 := by
    have := congrArg (fun x => x.2.1) h; simpa using this
  have h2 : (sendFile ⟨s, b, pq, pr, big, k, lost⟩ .dbFile .stored).2 = (ftpSendFile s b pq big).2.2 := by
    have := congrArg (fun x => x.2.2) h; simpa using this
  rw [h1, h2]
  unfold ftpSendFile
  cases hf : s.file <;> cases hs : b.stored <;> dsimp only <;> (repeat' split) <;> simp_all

end Primaite.Database
