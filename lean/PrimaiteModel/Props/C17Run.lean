/-
C17, round 3 — run-level theorems added in the third round (the model is `Model/Database.lean`, the event refinement
`Lemmas/DatabaseReach.lean`, the server-level theorems `Props/C17.lean`):

* the number of live connections never exceeds `max_sessions` (every operation sequence), the boundary itself, a slot
  freed by a disconnect, a re-installed service;
* repeated backup / damage / restore cycles: whatever happens between a backup and a restore - damage, earlier restores,
  leftovers planted / corrupted / deleted under downloads/, power cycles, blocks, FTP-client restarts ... - a restore that
  reports success puts into place exactly what the backup host holds, which is exactly what the database file was when
  the backup was taken; and a restore without a complete path fails and keeps file, health and table;
* malformed payloads; re-installing the service.
-/
import PrimaiteModel.Props.C17
namespace Primaite.Database

/-! ## 1. The session limit along every run -/

/-- the table holds at most `max_sessions` connections -/
def Server.Bounded (s : Server) : Prop := s.conns.length ≤ s.maxSessions

theorem processConnect_maxSessions (s : Server) (owner : Nat) (pw : Option Nat) :
    (processConnect s owner pw).1.maxSessions = s.maxSessions := by
  unfold processConnect; (repeat' split) <;> rfl

theorem processSql_table (s : Server) (q : Sql) :
    (processSql s q).1.conns = s.conns ∧ (processSql s q).1.maxSessions = s.maxSessions := by
  unfold processSql
  cases s.file with
  | none => exact ⟨rfl, rfl⟩
  | some fh =>
    dsimp only
    split
    · exact ⟨rfl, rfl⟩
    · cases q <;> exact ⟨rfl, rfl⟩

theorem receive_bounded (s : Server) (src : Nat) (p : Payload) (h : s.Bounded) : (s.receive src p).1.Bounded := by
  unfold Server.Bounded at *
  cases p with
  | connect pw =>
    simp only [Server.receive]
    by_cases hc : s.canAct = true
    · simp only [hc, Bool.not_true, Bool.false_eq_true, if_false]
      rw [processConnect_maxSessions]
      by_cases h200 : (processConnect s src pw).2.1 = 200
      · have hk := (C17_connect_ok_iff s src pw).mp h200
        rw [((C17_connect_ok_adds_fresh s src pw).1 h200).1]
        simp only [List.length_append, List.length_cons, List.length_nil]
        omega
      · rw [((C17_connect_ok_adds_fresh s src pw).2 h200).1]; exact h
    · simp only [hc]; exact h
  | sql cid q =>
    simp only [Server.receive]
    (repeat' split) <;> first | exact h | (rw [(processSql_table s q).1, (processSql_table s q).2]; exact h)
  | disconnect cid =>
    simp only [Server.receive]
    (repeat' split) <;> first | exact h | exact Nat.le_trans (List.length_filter_le _ _) h
  | junk k =>
    simp only [Server.receive]
    split <;> exact h

/-- every event keeps the table within the session limit -/
theorem apply_bounded (s : Server) (e : SrvEv) (h : s.Bounded) : (e.apply s).Bounded := by
  by_cases hr : ∃ src p, e = .recv src p
  · obtain ⟨src, p, rfl⟩ := hr
    exact receive_bounded s src p h
  · by_cases h' : ∃ cfg, e = .reinstall cfg
    · obtain ⟨cfg, rfl⟩ := h'
      have hf := reinstall_frame s cfg
      by_cases hd : (s.reinstall cfg).2 = .done
      · show (s.reinstall cfg).1.conns.length ≤ _
        rw [(hf.2.1 hd).1]; exact Nat.zero_le _
      · show (s.reinstall cfg).1.Bounded
        rw [hf.1 hd]; exact h
    · have := apply_conns_nonrecv s e (fun src p hh => hr ⟨src, p, hh⟩) (fun cfg hc => h' ⟨cfg, hc⟩)
      unfold Server.Bounded
      rw [this.1, this.2.2]; exact h

/-- **The number of live connections never exceeds `max_sessions`** - for every state that respects the limit and EVERY
operation sequence (connects by any number of clients, disconnects, uninstalls, stop / start / restart / power cycles of
the service, a re-install, red applications, ticks ...). -/
theorem C17_sessions_bounded_run (st : State) (ops : List Op) (h : st.srv.Bounded) : (run st ops).srv.Bounded :=
  (run_reach st ops).invariant (I := Server.Bounded) (fun s e _ hs => apply_bounded s e hs) h

example : ({} : State).srv.Bounded := by unfold Server.Bounded; decide

/-- … and while the table is full no connect is admitted, whoever asks and whatever password is offered. -/
theorem C17_full_table_admits_nobody (s : Server) (src : Nat) (pw : Option Nat) (h : s.conns.length = s.maxSessions) :
    (s.receive src (.connect pw)).1.conns = s.conns ∧
    ∀ id, (s.receive src (.connect pw)).2 ≠ some (200, id) := by
  have hne : (processConnect s src pw).2.1 ≠ 200 := by
    intro h200
    have := ((C17_connect_ok_iff s src pw).mp h200).2.2.2
    omega
  simp only [Server.receive]
  by_cases hc : s.canAct = true
  · simp only [hc, Bool.not_true, Bool.false_eq_true, if_false]
    refine ⟨((C17_connect_ok_adds_fresh s src pw).2 hne).1, ?_⟩
    intro id hh
    simp only [Option.some.injEq, Prod.mk.injEq] at hh
    exact hne hh.1
  · simp [hc]

theorem filter_unique_length {l : List Conn} {id : Nat} (hnd : (l.map (·.id)).Nodup) (hm : ∃ c ∈ l, c.id = id) :
    (l.filter (fun c => !(c.id == id))).length + 1 = l.length := by
  induction l with
  | nil => obtain ⟨c, hc, _⟩ := hm; cases hc
  | cons a t ih =>
    simp only [List.map_cons, List.nodup_cons] at hnd
    by_cases ha : a.id = id
    · have hnone : ∀ c ∈ t, (!(c.id == id)) = true := by
        intro c hc
        have : c.id ≠ id := by
          intro hcid
          apply hnd.1
          rw [ha, ← hcid]
          exact List.mem_map.mpr ⟨c, hc, rfl⟩
        simp [this]
      have hf : t.filter (fun c => !(c.id == id)) = t := List.filter_eq_self.mpr hnone
      simp [ha, hf]
    · have hm' : ∃ c ∈ t, c.id = id := by
        obtain ⟨c, hc, hcid⟩ := hm
        rcases List.mem_cons.mp hc with rfl | hct
        · exact absurd hcid ha
        · exact ⟨c, hct, hcid⟩
      have := ih hnd.2 hm'
      simp [ha]
      omega

/-- **A disconnect frees exactly one slot.**  With the table full (and the ids distinct, which holds along every run:
`C17_table_wellformed_run`), a disconnect by the owner of a connection leaves `max_sessions - 1` connections, and the next
correctly authenticated connect - from any client - is admitted again (unless a connect too many has made the service
OVERWHELMED in the meantime: `C17_overwhelmed_refuses`) and fills the table up to the limit, not beyond. -/
theorem C17_slot_freed (s : Server) (src j id : Nat) (hwf : s.WF) (hc : s.canAct = true)
    (hh : healthAcceptsConnect s.health = true) (hfull : s.conns.length = s.maxSessions)
    (hown : ∃ c ∈ s.conns, c.id = id ∧ c.owner = src) :
    (s.receive src (.disconnect (some id))).1.conns.length + 1 = s.maxSessions ∧
    ((s.receive src (.disconnect (some id))).1.receive j (.connect s.password)).2 = some (200, some s.nextId) ∧
    ((s.receive src (.disconnect (some id))).1.receive j (.connect s.password)).1.conns.length = s.maxSessions := by
  have hany : s.conns.any (fun c => c.id == id && c.owner == src) = true := by
    obtain ⟨c, hcm, h1, h2⟩ := hown
    simp only [List.any_eq_true, Bool.and_eq_true, beq_iff_eq]
    exact ⟨c, hcm, h1, h2⟩
  have hs' : (s.receive src (.disconnect (some id))).1 = { s with conns := s.conns.filter (fun c => !(c.id == id)) } := by
    simp [Server.receive, hc, hany]
  have hlen : (s.conns.filter (fun c => !(c.id == id))).length + 1 = s.conns.length :=
    filter_unique_length hwf.2 (by obtain ⟨c, hcm, h1, _⟩ := hown; exact ⟨c, hcm, h1⟩)
  rw [hs']
  have hca : Server.canAct { s with conns := s.conns.filter (fun c => !(c.id == id)) } = true := hc
  have hrun := (C17_canAct_iff s).mp hc
  have hlt : ¬ s.maxSessions ≤ (s.conns.filter (fun c => !(c.id == id))).length := by omega
  refine ⟨by simp only; omega, ?_, ?_⟩
  · simp only [Server.receive, hca, Bool.not_true, Bool.false_eq_true, if_false]
    unfold processConnect
    simp [hrun.2, hh, hlt]
  · simp only [Server.receive, hca, Bool.not_true, Bool.false_eq_true, if_false]
    unfold processConnect
    simp [hrun.2, hh, hlt]
    omega

example :
    let s : Server := { maxSessions := 2, conns := [⟨0, 0⟩, ⟨1, 1⟩], nextId := 2 }
    (s.receive 0 (.connect none)).2 = some (500, none) ∧
    ((s.receive 1 (.disconnect (some 1))).1.receive 0 (.connect none)).2 = some (200, some 2) := by decide

/-! ## 2. Malformed payloads -/

/-- **Payloads the dispatcher does not recognise** (not a dict, no `type`, an unknown `type`) are answered with the default
500 while the service can act, are not answered at all otherwise, and never change the server. -/
theorem C17_junk_payload (s : Server) (src : Nat) (k : Junk) :
    (s.receive src (.junk k)).1 = s ∧
    (s.receive src (.junk k)).2 = if s.canAct then some (500, none) else none := by
  simp only [Server.receive]
  cases s.canAct <;> simp

/-- **The co-located client's own calls** (a database client installed on the database host, addressing its own host) never
change anything: they fail - or, in the one configuration in which the service owns port 5432 again (after a re-install),
can act, and the client is RUNNING, the real call does not return (the service answers its own answers; explicit outcome
`raised`, a totality defect outside C17's statement, reported in the design note). -/
theorem C17_colocated_client_no_effect (st : State) (k : Nat) :
    (step st (.co k)).1 = st ∧
    ((step st (.co k)).2.raised = true →
      st.srv.coClient = true ∧ st.srv.coApp = .running ∧ st.srv.listening = true ∧ st.srv.canAct = true) := by
  simp only [step]
  (repeat' split) <;> simp_all

/-! ## 3. Re-installing the database service at run time -/

/-- **Re-install.**  `software_manager.install(DatabaseService[, config])` at run time either changes nothing (refused
without a configuration while installed; the constructor raises while a live `database.db` exists), or replaces the
instance: then NO connection of the old instance survives (every id ever issued is refused from then on,
`C17_closed_stays_closed_run`), the password, the fixing duration and the starting health are the configured ones (UNUSED
becomes GOOD at once when the service starts, i.e. when the node is ON; FIXING starts with the full countdown), the session
limit is the default again, the database file is a fresh GOOD one, and the service owns port 5432 - whatever a co-located
client did to the port map. -/
theorem C17_reinstall (s : Server) (cfg : Option InstCfg) :
    ((s.reinstall cfg).2 ≠ .done → (s.reinstall cfg).1 = s) ∧
    ((s.reinstall cfg).2 = .done →
      s.file = none ∧ (s.installed = false ∨ cfg.isSome) ∧
      (s.reinstall cfg).1.conns = [] ∧ (∀ id, (s.reinstall cfg).1.hasConn id = false) ∧
      (s.reinstall cfg).1.password = (cfg.getD { bk := false }).pw ∧
      (s.reinstall cfg).1.fixDur = (cfg.getD { bk := false }).fixDur ∧
      (s.reinstall cfg).1.health =
        (if s.node.isOn && (cfg.getD { bk := false }).health == .unused then .good else (cfg.getD { bk := false }).health) ∧
      ((cfg.getD { bk := false }).health = .fixing → (s.reinstall cfg).1.fixCd = (cfg.getD { bk := false }).fixDur) ∧
      (s.reinstall cfg).1.maxSessions = 100 ∧ (s.reinstall cfg).1.file = some .good ∧
      (s.reinstall cfg).1.listening = true ∧ (s.reinstall cfg).1.nextId = s.nextId ∧
      (s.reinstall cfg).1.ftpc.isSome) := by
  refine ⟨(reinstall_frame s cfg).1, ?_⟩
  unfold Server.reinstall Server.listening Server.hasConn
  cases hi : s.installed <;> cases cfg <;> cases hf : s.file <;> cases hft : s.ftpc <;> simp <;> intro h <;> simp [h]

example : ((({ conns := [⟨0, 0⟩], nextId := 1, file := none } : Server).reinstall (some { pw := some 2 })).1.receive 0 (.sql (some 0) .select)).2
    = some (401, none) := by decide
example : (({} : Server).reinstall (some {})).2 = .raised := by decide
example : (({ file := none } : Server).reinstall (some { health := .fixing, fixDur := 3 })).1.fixCd = 3 := by decide
example : (({} : Server).reinstall none).2 = .refused := by decide

/-! ## 4. Backup / damage / restore cycles along every run

`bk.stored` (the copy the backup host holds for the current service instance) is written by a successful backup only
while it is empty, and removed only by deleting it on the backup host or by re-installing the service (new uuid).  No
other operation touches the backup host's copy: the lemmas below go through the composed functions once. -/

@[simp] theorem setClient_bk (st : State) (i : Nat) (c : Client) : (st.setClient i c).bk = st.bk := rfl

@[simp] theorem updClient_bk (st : State) (i : Nat) (f : Client → Client) : (st.updClient i f).bk = st.bk := by
  unfold State.updClient; split <;> rfl

theorem send_bk (st : State) (i : Nat) (p : Payload) : (st.send i p).1.bk = st.bk := by
  unfold State.send
  split
  · rfl
  · dsimp only; split <;> rfl

theorem getNewConnection_bk (st : State) (i : Nat) : (st.getNewConnection i).1.bk = st.bk := by
  unfold State.getNewConnection
  split
  · rfl
  · split
    · rfl
    · dsimp only
      split
      · simp [send_bk]
      · exact send_bk _ _ _

theorem rawQuery_bk (st : State) (i : Nat) (cid : Option Nat) (q : Sql) : (st.rawQuery i cid q).1.bk = st.bk := by
  unfold State.rawQuery; exact send_bk _ _ _

theorem handleQuery_bk (st : State) (h : Nat) (q : Sql) : (st.handleQuery h q).1.bk = st.bk := by
  unfold State.handleQuery
  split
  · rfl
  · split
    · exact rawQuery_bk _ _ _ _
    · rfl

theorem clientDisconnect_bk (st : State) (i id : Nat) : (st.clientDisconnect i id).1.bk = st.bk := by
  unfold State.clientDisconnect
  split
  · rfl
  · split
    · rfl
    · split
      · rfl
      · simp [send_bk]

theorem handleDisconnect_bk (st : State) (h : Nat) : (st.handleDisconnect h).1.bk = st.bk := by
  unfold State.handleDisconnect
  split
  · rfl
  · split
    · exact clientDisconnect_bk _ _ _
    · rfl

theorem nativeConnect_bk (st : State) (i : Nat) : (st.nativeConnect i).1.bk = st.bk := by
  unfold State.nativeConnect
  split
  · rfl
  · split
    · rfl
    · dsimp only
      split
      · simp [getNewConnection_bk]
      · exact getNewConnection_bk _ _

theorem nativeQuery_bk (st : State) (i : Nat) (q : Sql) : (st.nativeQuery i q).1.bk = st.bk := by
  unfold State.nativeQuery
  split
  · rfl
  · split
    · rfl
    · split
      · rfl
      · exact handleQuery_bk _ _ _

theorem nativeDisconnect_bk (st : State) (i : Nat) : (st.nativeDisconnect i).1.bk = st.bk := by
  unfold State.nativeDisconnect
  split
  · rfl
  · split
    · rfl
    · dsimp only
      simp only [updClient_bk]
      split
      · exact clientDisconnect_bk _ _ _
      · rfl

theorem ensureNative_bk (st : State) (i : Nat) (c : Client) : (st.ensureNative i c).1.bk = st.bk := by
  unfold State.ensureNative
  split
  · rfl
  · exact nativeConnect_bk st i

theorem execute_bk (st : State) (i : Nat) : (st.execute i).1.bk = st.bk := by
  unfold State.execute
  split
  · rfl
  · rename_i c _
    split
    · rfl
    · dsimp only
      split
      · exact ensureNative_bk _ _ _
      · split
        · exact ensureNative_bk _ _ _
        · rw [rawQuery_bk]; exact ensureNative_bk _ _ _

theorem uninstall_fold_bk (i : Nat) (ids : List Nat) (acc : State × List (Option Nat)) :
    (ids.foldl (uninstallStep i) acc).1.bk = acc.1.bk := by
  induction ids generalizing acc with
  | nil => rfl
  | cons id rest ih =>
    simp only [List.foldl_cons]
    rw [ih]
    exact clientDisconnect_bk _ _ _

theorem uninstall_bk (st : State) (i : Nat) : (st.uninstall i).1.bk = st.bk := by
  unfold State.uninstall
  split
  · rfl
  · split
    · rfl
    · dsimp only
      simp only [updClient_bk]
      exact uninstall_fold_bk i _ (st, [])

theorem ransomConnect_bk (st : State) (i : Nat) (c : Client) : (st.ransomConnect i c).1.bk = st.bk := by
  unfold State.ransomConnect
  split
  · rfl
  · dsimp only
    simp only [updClient_bk]
    exact getNewConnection_bk st i

theorem ransom_bk (st : State) (i : Nat) (q : Sql) : (st.ransom i q).1.bk = st.bk := by
  unfold State.ransom
  split
  · rfl
  · split
    · rfl
    · dsimp only
      split
      · rfl
      · split
        · rfl
        · split
          · rw [ransomConnect_bk]; rfl
          · rw [handleQuery_bk, ransomConnect_bk]; rfl

theorem dmConnect_bk (st : State) (i : Nat) (c : Client) : (st.dmConnect i c).1.bk = st.bk := by
  unfold State.dmConnect
  split
  · rfl
  · dsimp only
    simp only [updClient_bk]
    exact getNewConnection_bk st i

theorem dmAttack_bk (st : State) (i : Nat) (q : Sql) (scan atk : Bool) : (st.dmAttack i q scan atk).1.bk = st.bk := by
  unfold State.dmAttack
  split
  · rfl
  · split
    · rfl
    · dsimp only
      split
      · rfl
      · split
        · rfl
        · split
          · simp only [updClient_bk]; rfl
          · split
            · simp only [updClient_bk]; rw [dmConnect_bk]; rfl
            · simp only [updClient_bk]; rw [handleQuery_bk, dmConnect_bk]; rfl

/-- a backup never overwrites a stored copy -/
theorem backup_keeps_stored (s : Server) (b : Backup) (pq big : Bool) (x : FHealth) (h : b.stored = some x) :
    (backupDatabase s b pq big).2.1 = b := by
  have hb := C17_backup_stores s b pq big
  cases hr : (backupDatabase s b pq big).2.2 with
  | false => exact hb.2 hr
  | true => have := (hb.1 hr).1; rw [h] at this; cases this

theorem tickSvc_keeps_stored (s : Server) (b : Backup) (t : Nat) (pq pr big k : Bool) (x : FHealth) (h : b.stored = some x) :
    (s.tickSvc b t pq pr big k).2 = b := by
  unfold Server.tickSvc
  dsimp only
  split
  · rfl
  · split
    · exact backup_keeps_stored s b pq big x h
    · rfl

theorem serverTick_keeps_stored (s : Server) (b : Backup) (t : Nat) (pq pr big k : Bool) (x : FHealth) (h : b.stored = some x) :
    (serverTick s b t pq pr big k).2 = b := by
  unfold serverTick
  dsimp only
  split
  · rfl
  · split
    · exact tickSvc_keeps_stored _ b t pq pr big k x h
    · exact tickSvc_keeps_stored _ b t pq pr big k x h

theorem tick_keeps_stored (st : State) (big d k : Bool) (x : FHealth) (h : st.bk.stored = some x) :
    (st.tick big d k).bk.stored = some x := by
  unfold State.tick
  dsimp only
  rw [serverTick_keeps_stored _ st.bk _ _ _ big k x h]
  unfold backupTick
  dsimp only
  split <;> split <;> exact h

/-- **The backup host's copy is stable**: once a copy is stored, no operation but deleting it on the backup host, or
re-installing the service (whose new instance has no backup of its own), changes it. -/
theorem step_keeps_stored (st : State) (op : Op) (x : FHealth) (h : st.bk.stored = some x)
    (h1 : op ≠ .bkDelete) (h2 : ∀ cfg, op ≠ .svcInstall cfg) : (step st op).1.bk.stored = some x := by
  cases op with
  | bkDelete => exact absurd rfl h1
  | svcInstall cfg => exact absurd rfl (h2 cfg)
  | connect i => show (st.getNewConnection i).1.bk.stored = _; rw [getNewConnection_bk]; exact h
  | rawQuery i cid q => simp only [step]; split <;> simp [rawQuery_bk, h]
  | rawDisconnect i cid => simp only [step]; split <;> simp [send_bk, h]
  | rawJunk i k => simp only [step]; split <;> simp [send_bk, h]
  | hQuery hd q => simp only [step]; split <;> simp [handleQuery_bk, h]
  | hDisconnect hd => simp only [step]; split <;> simp [handleDisconnect_bk, h]
  | nConnect i => simp only [step]; split <;> simp [nativeConnect_bk, h]
  | nQuery i q => simp only [step]; split <;> simp [nativeQuery_bk, h]
  | nDisconnect i => simp only [step]; split <;> simp [nativeDisconnect_bk, h]
  | execute i =>
    simp only [step]; split
    · exact h
    · split
      · exact h
      · simp [execute_bk, h]
  | uninstall i => show (st.uninstall i).1.bk.stored = _; rw [uninstall_bk]; exact h
  | install i =>
    show (st.install i).bk.stored = _
    unfold State.install; split
    · exact h
    · split <;> exact h
  | appRun i => simp only [step]; (repeat' split) <;> exact h
  | appClose i => simp only [step]; (repeat' split) <;> exact h
  | clientPw i pw => simp only [step]; (repeat' split) <;> exact h
  | ransom i q => show (st.ransom i q).1.bk.stored = _; rw [ransom_bk]; exact h
  | svc r => exact h
  | setPw pw => exact h
  | backup big =>
    simp only [step]; split
    · exact h
    · dsimp only; rw [backup_keeps_stored _ _ _ _ x h]; exact h
  | restore d k => simp only [step]; split <;> exact h
  | folderDelete => exact h
  | admin a => exact h
  | dl a => exact h
  | fsr db a => exact h
  | co k => simp only [step]; (repeat' split) <;> exact h
  | dm i q scan atk via =>
    simp only [step]; split
    · exact h
    · split
      · exact h
      · split
        · exact h
        · simp [dmAttack_bk, h]
  | ransomReq i q =>
    simp only [step]; split
    · exact h
    · split
      · exact h
      · simp [ransom_bk, h]
  | fileDelete => exact h
  | fileCorrupt => exact h
  | fileRepair => exact h
  | power who on =>
    simp only [step]
    (repeat' split) <;> first | exact h | simp [h]
  | ftps b => simp only [step]; (repeat' split) <;> exact h
  | block w on => simp only [step]; (repeat' split) <;> exact h
  | tick big d k => exact tick_keeps_stored st big d k x h

theorem run_keeps_stored (st : State) (ops : List Op) (x : FHealth) (h : st.bk.stored = some x)
    (hops : ∀ op ∈ ops, op ≠ .bkDelete ∧ ∀ cfg, op ≠ .svcInstall cfg) : (run st ops).bk.stored = some x := by
  induction ops generalizing st with
  | nil => exact h
  | cons o os ih =>
    unfold run
    exact ih _ (step_keeps_stored st o x h (hops o List.mem_cons_self).1 (hops o List.mem_cons_self).2)
      (fun op hm => hops op (List.mem_cons_of_mem _ hm))

/-- **Backup, then anything, then restore.**  Take a backup (the call reports success) in ANY state; then let ANY
sequence of operations run that does not delete the copy on the backup host and does not re-install the service - damage
by DELETE / ENCRYPT / file-system operations, earlier restores (successful or not), leftovers planted, corrupted, repaired
or deleted under downloads/, deletion of downloads/ or of the database folder, power cycles of any host, path blocks,
FTP-server stops, FTP-client stop / restart / re-install, ticks (including a fix that completes and restores) ...; then
restore.  If that restore reports success, the database file has exactly the health it had WHEN THE BACKUP WAS TAKEN and
the service is GOOD.  Nothing is assumed about downloads/. -/
theorem C17_restore_roundtrip_run (st : State) (ops : List Op) (big d k : Bool)
    (hbk : (step st (.backup big)).2.res = some true)
    (hops : ∀ op ∈ ops, op ≠ .bkDelete ∧ ∀ cfg, op ≠ .svcInstall cfg)
    (hok : (step (run (step st (.backup big)).1 ops) (.restore d k)).2.res = some true) :
    (step (run (step st (.backup big)).1 ops) (.restore d k)).1.srv.file = st.srv.file ∧
    (step (run (step st (.backup big)).1 ops) (.restore d k)).1.srv.health = .good ∧
    st.srv.file.isSome := by
  -- the backup stored the file's health of that moment
  have hst : (step st (.backup big)).1.bk.stored = st.srv.file ∧ st.srv.file.isSome := by
    simp only [step] at hbk ⊢
    split at hbk
    · simp at hbk
    · rename_i hi
      simp only [hi]
      dsimp only at hbk ⊢
      have hb := (C17_backup_stores st.srv st.bk st.ftpReq big).1 (by simpa using hbk)
      exact ⟨hb.2.2.2.2.2.2.2.1, hb.2.2.2.2.2.2.2.2⟩
  obtain ⟨x, hx⟩ := Option.isSome_iff_exists.mp hst.2
  have hkeep := run_keeps_stored (step st (.backup big)).1 ops x (by rw [hst.1, hx]) hops
  generalize run (step st (.backup big)).1 ops = st2 at hkeep hok
  simp only [step] at hok ⊢
  split at hok
  · simp at hok
  · rename_i hi
    simp only [hi, Bool.false_eq_true, if_false]
    dsimp only at hok ⊢
    have hy := C17_restore_yields_backup st2.srv st2.bk st2.ftpReq (st2.ftpResp && d) k (by simpa using hok)
    exact ⟨by rw [hy.1, hkeep, hx], hy.2, hst.2⟩

/-- non-vacuity: backup while GOOD, DELETE, restore, a CORRUPT leftover, DELETE again, the backup host power-cycled,
restore: GOOD. -/
example :
    let st : State := { clients := [{}] }
    let ops : List Op := [.connect 0, .hQuery 0 .delete, .restore true true, .dl .corrupt, .hQuery 0 .delete,
                          .power 1 false, .tick true true true, .tick true true true, .power 1 true, .tick true true true,
                          .tick true true true]
    (step st (.backup true)).2.res = some true ∧
    (run (step st (.backup true)).1 ops).srv.file = some .compromised ∧
    (run (step st (.backup true)).1 ops).srv.downloads = some .corrupt ∧
    (step (run (step st (.backup true)).1 ops) (.restore true true)).2.res = some true ∧
    (step (run (step st (.backup true)).1 ops) (.restore true true)).1.srv.file = some .good := by decide

/-- **No path, no restore - in every state.**  Whatever happened before (any number of successful restores, any leftover
under downloads/), a restore issued while the request path to the backup host is closed (a block, either node not ON),
the backup host's FTP server is not running, the answer path is closed or a link on it refuses the file, or the FTP
client on the database host is not running, does NOT report success, and leaves the database file, the service health,
the connection table and the backup host exactly as they were. -/
theorem C17_restore_needs_path (st : State) (d k : Bool)
    (h : (st.ftpReq && st.bk.serves && (st.ftpResp && d) && k && st.srv.ftpcAct) = false) :
    (step st (.restore d k)).2.res ≠ some true ∧
    (step st (.restore d k)).1.srv.file = st.srv.file ∧ (step st (.restore d k)).1.srv.health = st.srv.health ∧
    (step st (.restore d k)).1.srv.conns = st.srv.conns ∧ (step st (.restore d k)).1.bk = st.bk := by
  simp only [step]
  split
  · exact ⟨by simp, rfl, rfl, rfl, rfl⟩
  · have hb := C17_blocked_restore st.srv st.bk st.ftpReq (st.ftpResp && d) k h
    dsimp only
    refine ⟨by rw [hb.1]; simp, hb.2.2.1, hb.2.2.2.1, hb.2.2.2.2, rfl⟩

/-- the same along any history -/
theorem C17_restore_needs_path_run (st : State) (ops : List Op) (d k : Bool)
    (h : ((run st ops).ftpReq && (run st ops).bk.serves && ((run st ops).ftpResp && d) && k && (run st ops).srv.ftpcAct) = false) :
    (step (run st ops) (.restore d k)).2.res ≠ some true ∧
    (step (run st ops) (.restore d k)).1.srv.file = (run st ops).srv.file :=
  ⟨(C17_restore_needs_path (run st ops) d k h).1, (C17_restore_needs_path (run st ops) d k h).2.1⟩

/-- non-vacuity: after a successful restore (a GOOD copy is lying under downloads/) the backup host is switched off: the
second restore fails and the data stays COMPROMISED (seeded change C17-c made it succeed from the leftover). -/
example :
    let st : State := { clients := [{}], bk := { node := { downDur := 0 } } }
    let ops : List Op := [.backup true, .connect 0, .hQuery 0 .delete, .restore true true, .hQuery 0 .delete, .power 1 false]
    (run st ops).srv.downloads = some .good ∧ (run st ops).bk.serves = false ∧
    (step (run st ops) (.restore true true)).2.res = some false ∧
    (step (run st ops) (.restore true true)).1.srv.file = some .compromised := by decide

end Primaite.Database

namespace Primaite.Database

end Primaite.Database

namespace Primaite.Database

/-! ## 5. No restore by a fix completion while the service cannot act (round 4)

`DatabaseService._update_fix_status` calls `restore_backup()` when the FIXING countdown ends, and `apply_timestep` calls
`backup_database()` at timestep 1.  Both are gated by the SERVICE's `_can_perform_action()` like the direct calls: a fix that
completes while the service is stopped / paused / disabled / restarting (or its node is not ON) makes the health GOOD but
does NOT fetch the backup.  (Seeded change C17-d asked the FTP client instead.) -/

theorem tickPower_downloads (s : Server) : s.tickPower.downloads = s.downloads ∧ s.tickPower.file = s.file ∧
    s.tickPower.conns = s.conns := by
  unfold Server.tickPower Server.startUp Server.shutDown
  dsimp only
  (repeat' split) <;> simp

/-- the service's own `apply_timestep` while it cannot act: neither the timestep-1 backup nor the restore of a completing fix
happens - for EVERY health / fix countdown / restart countdown / timestep -/
theorem tickSvc_cannot_act (s : Server) (b : Backup) (t : Nat) (pq pr big k : Bool) (h : s.canAct = false) :
    (s.tickSvc b t pq pr big k).2 = b ∧ (s.tickSvc b t pq pr big k).1.file = s.file ∧
    (s.tickSvc b t pq pr big k).1.downloads = s.downloads ∧ (s.tickSvc b t pq pr big k).1.conns = s.conns ∧
    (s.tickSvc b t pq pr big k).1.node = s.node := by
  have hb : ∀ s' : Server, s'.canAct = false → ∀ b pq big, backupDatabase s' b pq big = (s', b, false) :=
    fun s' h' b pq big => (C17_unavailable_backup_restore s' h' b pq true big true).1
  have hr : ∀ s' : Server, s'.canAct = false → ∀ b pq pr k, restoreBackup s' b pq pr k = (s', false) :=
    fun s' h' b pq pr k => (C17_unavailable_backup_restore s' h' b pq pr true k).2
  have hfix : ∀ s' : Server, s'.canAct = false → ∀ b, (s'.tickFix b pq pr k).file = s'.file ∧
      (s'.tickFix b pq pr k).downloads = s'.downloads ∧ (s'.tickFix b pq pr k).conns = s'.conns ∧
      (s'.tickFix b pq pr k).node = s'.node ∧ (s'.tickFix b pq pr k).op = s'.op ∧ (s'.tickFix b pq pr k).restartCd = s'.restartCd := by
    intro s' h' b
    unfold Server.tickFix
    split
    · split
      · have hc' : Server.canAct { s' with health := .good, fixCd := 0 } = false := h'
        rw [hr _ hc']
        exact ⟨rfl, rfl, rfl, rfl, rfl, rfl⟩
      · exact ⟨rfl, rfl, rfl, rfl, rfl, rfl⟩
    · exact ⟨rfl, rfl, rfl, rfl, rfl, rfl⟩
  have hrst : ∀ s' : Server, s'.tickRestart.file = s'.file ∧ s'.tickRestart.downloads = s'.downloads ∧
      s'.tickRestart.conns = s'.conns ∧ s'.tickRestart.node = s'.node := by
    intro s'; unfold Server.tickRestart; (repeat' split) <;> exact ⟨rfl, rfl, rfl, rfl⟩
  unfold Server.tickSvc
  split
  · exact ⟨rfl, rfl, rfl, rfl, rfl⟩
  · dsimp only
    split
    · rw [hb s h]
      dsimp only
      have := hfix s h b
      have h2 := hrst (s.tickFix b pq pr k)
      exact ⟨rfl, by rw [h2.1, this.1], by rw [h2.2.1, this.2.1], by rw [h2.2.2.1, this.2.2.1], by rw [h2.2.2.2, this.2.2.2.1]⟩
    · have := hfix s h b
      have h2 := hrst (s.tickFix b pq pr k)
      exact ⟨rfl, by rw [h2.1, this.1], by rw [h2.2.1, this.2.1], by rw [h2.2.2.1, this.2.2.1], by rw [h2.2.2.2, this.2.2.2.1]⟩

/-- **A tick restores (and backs up) only if the service can act.**  For every server state - every lifecycle state,
health, fix countdown, restart countdown, node state and countdowns - every backup host, timestep and path / saturation
input: if, after the node's own power step of this tick, the service cannot act (not RUNNING, or the node not ON), the tick
leaves the database file, downloads/, the connection table and the backup host's copy exactly as they were.  In particular a
FIXING countdown that ends in such a tick does not fetch the backup. -/
theorem C17_tick_restores_only_if_running (s : Server) (b : Backup) (t : Nat) (pq pr big k : Bool)
    (h : s.tickPower.canAct = false) :
    (serverTick s b t pq pr big k).2 = b ∧ (serverTick s b t pq pr big k).1.file = s.file ∧
    (serverTick s b t pq pr big k).1.downloads = s.downloads ∧ (serverTick s b t pq pr big k).1.conns = s.conns := by
  have hp := tickPower_downloads s
  unfold serverTick
  dsimp only
  split
  · exact ⟨rfl, hp.2.1, hp.1, hp.2.2⟩
  · have hf := tickFtpc_frame s.tickPower
    split
    · have hc : s.tickPower.tickFtpc.canAct = false := by
        unfold Server.canAct at h ⊢; rw [hf.2.2.2.2.2.2.2.1, hf.2.2.2.2.2.2.1]; exact h
      have := tickSvc_cannot_act s.tickPower.tickFtpc b t pq pr big k hc
      exact ⟨this.1, by rw [this.2.1, hf.2.2.1, hp.2.1], by rw [this.2.2.1, hf.2.2.2.2.2.2.2.2, hp.1],
             by rw [this.2.2.2.1, hf.1, hp.2.2]⟩
    · have := tickSvc_cannot_act s.tickPower b t pq pr big k h
      have hf2 := tickFtpc_frame (s.tickPower.tickSvc b t pq pr big k).1
      dsimp only
      exact ⟨this.1, by rw [hf2.2.2.1, this.2.1, hp.2.1], by rw [hf2.2.2.2.2.2.2.2.2, this.2.2.1, hp.1],
             by rw [hf2.1, this.2.2.2.1, hp.2.2]⟩

/-- non-vacuity: data COMPROMISED, fix requested, service stopped before the countdown ends: the completing tick makes the
health GOOD and leaves the file COMPROMISED (the seeded C17-d tree restored it) -/
example :
    let st : State := { clients := [{}] }
    let ops : List Op := [.backup true, .connect 0, .hQuery 0 .delete, .svc .fix, .svc .stop, .tick true true true, .tick true true true]
    (run st ops).srv.op = .stopped ∧ (run st ops).srv.health = .good ∧ (run st ops).srv.file = some .compromised ∧
    (run st (ops ++ [.svc .start, .restore true true])).srv.file = some .good := by decide

/-- a service that stays out of action by itself: PAUSED or DISABLED (never started by a boot), or STOPPED on a node that is
not booting -/
def Server.Halted (s : Server) : Prop :=
  s.op = .paused ∨ s.op = .disabled ∨ (s.op = .stopped ∧ s.node.st ≠ .booting)

theorem halted_cannot_act (s : Server) (h : s.Halted) : s.canAct = false := by
  unfold Server.canAct
  rcases h with h | h | ⟨h, _⟩ <;> simp [h]

theorem node_tick_facts (n : Node) :
    (n.tick.2.1 = true → n.st = .booting) ∧ (n.tick.2.2 = true → n.tick.1.st = .off) ∧
    (n.tick.1.st = .booting → n.st = .booting) := by
  unfold Node.tick
  dsimp only
  cases hst : n.st <;> (repeat' split) <;> simp_all

theorem startUp_op (s : Server) :
    s.startUp.node = s.node ∧ (s.op = .paused → s.startUp.op = .paused) ∧ (s.op = .disabled → s.startUp.op = .disabled) := by
  unfold Server.startUp svcStart
  dsimp only
  refine ⟨by split <;> rfl, ?_, ?_⟩ <;> intro h <;> split <;> simp [h]

theorem shutDown_op (s : Server) :
    s.shutDown.node = s.node ∧ (s.op = .paused → s.shutDown.op = .paused ∨ s.shutDown.op = .stopped) ∧
    (s.op = .disabled → s.shutDown.op = .disabled) ∧ (s.op = .stopped → s.shutDown.op = .stopped) := by
  unfold Server.shutDown svcStop
  dsimp only
  refine ⟨by split <;> rfl, ?_, ?_, ?_⟩ <;> intro h <;> split <;> simp [h]

theorem halted_tickPower (s : Server) (h : s.Halted) : s.tickPower.Halted := by
  have hn := node_tick_facts s.node
  unfold Server.Halted at h ⊢
  unfold Server.tickPower
  dsimp only
  generalize hs1 : ({ s with node := s.node.tick.1 } : Server) = s1
  have h1op : s1.op = s.op := by rw [← hs1]
  have h1node : s1.node = s.node.tick.1 := by rw [← hs1]
  by_cases hb : s.node.tick.2.1 = true
  · -- the node finished booting in this tick: `start()` of every service - which starts only a STOPPED one
    have hboot := hn.1 hb
    simp only [hb, if_true]
    have hsu := startUp_op s1
    rcases h with h | h | ⟨h, h'⟩
    · have e1 : s1.startUp.op = .paused := hsu.2.1 (by rw [h1op, h])
      by_cases hd : s.node.tick.2.2 = true
      · simp only [hd, if_true]
        have hsd := shutDown_op s1.startUp
        rcases hsd.2.1 e1 with e | e
        · exact Or.inl e
        · refine Or.inr (Or.inr ⟨e, ?_⟩)
          rw [hsd.1, hsu.1, h1node, hn.2.1 hd]; decide
      · simp only [hd, Bool.false_eq_true, if_false]; exact Or.inl e1
    · have e1 : s1.startUp.op = .disabled := hsu.2.2 (by rw [h1op, h])
      by_cases hd : s.node.tick.2.2 = true
      · simp only [hd, if_true]; exact Or.inr (Or.inl ((shutDown_op s1.startUp).2.2.1 e1))
      · simp only [hd, Bool.false_eq_true, if_false]; exact Or.inr (Or.inl e1)
    · exact absurd hboot h'
  · simp only [hb, Bool.false_eq_true, if_false]
    by_cases hd : s.node.tick.2.2 = true
    · simp only [hd, if_true]
      have hsd := shutDown_op s1
      have hoff : s1.shutDown.node.st ≠ .booting := by rw [hsd.1, h1node, hn.2.1 hd]; decide
      rcases h with h | h | ⟨h, h'⟩
      · rcases hsd.2.1 (by rw [h1op, h]) with e | e
        · exact Or.inl e
        · exact Or.inr (Or.inr ⟨e, hoff⟩)
      · exact Or.inr (Or.inl (hsd.2.2.1 (by rw [h1op, h])))
      · exact Or.inr (Or.inr ⟨hsd.2.2.2 (by rw [h1op, h]), hoff⟩)
    · simp only [hd, Bool.false_eq_true, if_false]
      rcases h with h | h | ⟨h, h'⟩
      · exact Or.inl (by rw [h1op, h])
      · exact Or.inr (Or.inl (by rw [h1op, h]))
      · refine Or.inr (Or.inr ⟨by rw [h1op, h], ?_⟩)
        rw [h1node]; intro hc; exact h' (hn.2.2 hc)

theorem halted_keep (s s' : Server) (h : s.Halted) (hop : s'.op = s.op) (hn : s'.node = s.node) : s'.Halted := by
  unfold Server.Halted at h ⊢; rw [hop, hn]; exact h

theorem halted_serverTick (s : Server) (b : Backup) (t : Nat) (pq pr big k : Bool) (h : s.Halted) :
    (serverTick s b t pq pr big k).1.Halted := by
  have hp := halted_tickPower s h
  have hsvc : ∀ s' : Server, s'.Halted → (s'.tickSvc b t pq pr big k).1.Halted := by
    intro s' h'
    have hc := halted_cannot_act s' h'
    have hnode := (tickSvc_cannot_act s' b t pq pr big k hc).2.2.2.2
    refine halted_keep s' _ h' ?_ hnode
    -- the operating state: only a RESTARTING service changes it in its tick
    have hb := (C17_unavailable_backup_restore s' hc b pq true big true).1
    unfold Server.tickSvc
    split
    · rfl
    · dsimp only
      have hnr : s'.op ≠ .restarting := by
        rcases h' with h1 | h1 | ⟨h1, _⟩ <;> rw [h1] <;> decide
      have hfixop : ∀ x : Server, x.canAct = false → (x.tickFix b pq pr k).op = x.op := by
        intro x hx
        unfold Server.tickFix
        split
        · split
          · have hc' : Server.canAct { x with health := .good, fixCd := 0 } = false := hx
            rw [(C17_unavailable_backup_restore _ hc' b pq pr true k).2]
          · rfl
        · rfl
      have hrs : ∀ x : Server, x.op ≠ .restarting → x.tickRestart.op = x.op := by
        intro x hx; unfold Server.tickRestart; simp [hx]
      split
      · rw [hb]; dsimp only
        rw [hrs _ (by rw [hfixop s' hc]; exact hnr), hfixop s' hc]
      · rw [hrs _ (by rw [hfixop s' hc]; exact hnr), hfixop s' hc]
  unfold serverTick
  dsimp only
  split
  · exact hp
  · split
    · have hf := tickFtpc_frame s.tickPower
      exact hsvc _ (halted_keep _ _ hp hf.2.2.2.2.2.2.1 hf.2.2.2.2.2.2.2.1)
    · have hf := tickFtpc_frame (s.tickPower.tickSvc b t pq pr big k).1
      exact halted_keep _ _ (hsvc _ hp) hf.2.2.2.2.2.2.1 hf.2.2.2.2.2.2.2.1

/-- the operations by which time passes and clients / red applications / backup / restore calls arrive - everything but an
administrator starting the service again -/
def Op.isTrafficOrTick : Op → Bool
  | .tick _ _ _ => true
  | op => op.isTraffic

/-- **While the service is halted, nobody restores - not even a completing fix.**  From any state in which the database
service is PAUSED, DISABLED, or STOPPED on a node that is not booting, along EVERY sequence of ticks (any number, with any
fix / restart countdown running out in any of them), connects, queries, disconnects, executes, uninstalls, red-application
attacks, `backup_database()` and `restore_backup()` calls: the service stays halted, and the database file, downloads/ and
the connection table are exactly what they were.  (Only the health may change: a fix completes to GOOD.) -/
theorem C17_halted_service_never_restores_run (st : State) (ops : List Op)
    (hops : ∀ op ∈ ops, op.isTrafficOrTick = true) (h : st.srv.Halted) :
    (run st ops).srv.Halted ∧ (run st ops).srv.file = st.srv.file ∧ (run st ops).srv.downloads = st.srv.downloads ∧
    (run st ops).srv.conns = st.srv.conns := by
  have := (run_reach st ops).invariant
    (I := fun s => s.Halted ∧ s.file = st.srv.file ∧ s.downloads = st.srv.downloads ∧ s.conns = st.srv.conns)
    (fun s e ⟨op, hm, ha⟩ hs => by
      have hop := hops op hm
      by_cases htick : ∃ g d k, op = .tick g d k
      · obtain ⟨g, d, k, rfl⟩ := htick
        obtain ⟨b, t, pq, pr, big, kk, rfl⟩ := ha
        have hh := halted_serverTick s b t pq pr big kk hs.1
        have hc : s.tickPower.canAct = false := halted_cannot_act _ (halted_tickPower s hs.1)
        have hk := C17_tick_restores_only_if_running s b t pq pr big kk hc
        exact ⟨hh, by rw [show (SrvEv.tick b t pq pr big kk).apply s = (serverTick s b t pq pr big kk).1 from rfl, hk.2.1]; exact hs.2.1,
               by rw [show (SrvEv.tick b t pq pr big kk).apply s = (serverTick s b t pq pr big kk).1 from rfl, hk.2.2.1]; exact hs.2.2.1,
               by rw [show (SrvEv.tick b t pq pr big kk).apply s = (serverTick s b t pq pr big kk).1 from rfl, hk.2.2.2]; exact hs.2.2.2⟩
      · have htr : op.isTraffic = true := by
          cases op <;> first | exact hop | (exfalso; exact htick ⟨_, _, _, rfl⟩)
        have := apply_unavailable s e (halted_cannot_act s hs.1) (traffic_events op htr e ha)
        rw [this]; exact hs)
    ⟨h, rfl, rfl, rfl⟩
  exact this

example : ({ op := .stopped } : Server).Halted := Or.inr (Or.inr ⟨rfl, by decide⟩)

end Primaite.Database

namespace Primaite.Database

/-! ## 6. What happens to the stored backup when it is deleted, or when the service is re-installed (round 4)

`C17_restore_roundtrip_run` excludes two operations by hypothesis; this is what they do. -/

/-- no copy stored for the current instance ⇒ a restore cannot succeed (whatever else is true of the state) -/
theorem C17_restore_without_backup (st : State) (d k : Bool) (h : st.bk.stored = none) :
    (step st (.restore d k)).2.res ≠ some true ∧ (step st (.restore d k)).1.srv.file = st.srv.file ∧
    (step st (.restore d k)).1.srv.health = st.srv.health := by
  simp only [step]
  split
  · exact ⟨by simp, rfl, rfl⟩
  · dsimp only
    have hf : (restoreBackup st.srv st.bk st.ftpReq (st.ftpResp && d) k).2 = false := by
      cases hr : (restoreBackup st.srv st.bk st.ftpReq (st.ftpResp && d) k).2 with
      | false => rfl
      | true =>
        obtain ⟨x, hx, _⟩ := C17_restore_result _ _ _ _ _ hr
        rw [h] at hx; cases hx
    have hc := (C17_failed_restore_changes_nothing _ _ _ _ _ hf).1
    refine ⟨by rw [hf]; simp, ?_, ?_⟩ <;> rw [hc]

/-- **Deleting the copy on the backup host** removes exactly the current instance's copy (orphans of earlier instances and
everything on the database host are untouched): from then on no restore succeeds (`C17_restore_without_backup`,
`C17_no_backup_stays_none_run`) until a NEW backup is taken - which stores the health the file has THEN
(`C17_backup_stores`), so a backup taken after the damage restores to damaged data. -/
theorem C17_backup_deleted (st : State) :
    (step st .bkDelete).1.bk.stored = none ∧ (step st .bkDelete).1.bk.orphans = st.bk.orphans ∧
    (step st .bkDelete).1.srv = st.srv ∧ ((step st .bkDelete).2.res = some true ↔ st.bk.stored.isSome) := by
  simp only [step]
  cases h : st.bk.stored <;> simp [h]

/-- **Re-installing the service orphans its backup.**  A re-install that goes through leaves the old instance's copy on the
backup host where it was - under the OLD uuid, as an orphan that nothing reads any more - and the new instance has no
backup: a restore fails until the new instance has taken its own. A refused or raising re-install changes nothing. -/
theorem C17_reinstall_orphans_backup (st : State) (cfg : Option InstCfg) :
    ((step st (.svcInstall cfg)).2.res = some true →
      (step st (.svcInstall cfg)).1.bk.stored = none ∧
      (step st (.svcInstall cfg)).1.bk.orphans = st.bk.orphans ++ st.bk.stored.toList ∧
      ∀ d k, (step (step st (.svcInstall cfg)).1 (.restore d k)).2.res ≠ some true) ∧
    ((step st (.svcInstall cfg)).2.res ≠ some true → (step st (.svcInstall cfg)).1 = st) := by
  have key : ∀ st' : State, st'.bk.stored = none → ∀ d k, (step st' (.restore d k)).2.res ≠ some true :=
    fun st' h d k => (C17_restore_without_backup st' d k h).1
  constructor
  · intro h
    have hst : (step st (.svcInstall cfg)).1.bk.stored = none ∧
        (step st (.svcInstall cfg)).1.bk.orphans = st.bk.orphans ++ st.bk.stored.toList := by
      simp only [step] at h ⊢
      split at h <;> simp_all
    exact ⟨hst.1, hst.2, key _ hst.1⟩
  · intro h
    simp only [step] at h ⊢
    split at h <;> simp_all

/-- orphans are never read: the outcome of backup and restore does not depend on them -/
theorem C17_orphans_irrelevant (s : Server) (b : Backup) (o : List FHealth) (pq pr k big : Bool) :
    restoreBackup s { b with orphans := o } pq pr k = restoreBackup s b pq pr k ∧
    (backupDatabase s { b with orphans := o } pq big).2.2 = (backupDatabase s b pq big).2.2 ∧
    (backupDatabase s { b with orphans := o } pq big).1 = (backupDatabase s b pq big).1 := by
  refine ⟨?_, ?_, ?_⟩
  · rw [restoreBackup_closed, restoreBackup_closed]; rfl
  · have e : Backup.serves { b with orphans := o } = b.serves := rfl
    unfold backupDatabase ftpSendFile
    simp only [e]
    cases hc : s.canAct <;> cases hbc : s.backupConfigured <;> cases hft : s.ftpc <;> cases hf : s.file <;> simp
    cases big <;> cases hs : b.stored <;> cases hq : s.ftpConn <;> cases ha : s.ftpcAct <;> cases pq <;> cases hbs : b.serves <;> simp
  · have e : Backup.serves { b with orphans := o } = b.serves := rfl
    unfold backupDatabase ftpSendFile
    simp only [e]
    cases hc : s.canAct <;> cases hbc : s.backupConfigured <;> cases hft : s.ftpc <;> cases hf : s.file <;> simp
    cases big <;> cases hs : b.stored <;> cases hq : s.ftpConn <;> cases ha : s.ftpcAct <;> cases pq <;> cases hbs : b.serves <;> simp

/-- the operations that can put a copy on the backup host: an explicit backup, a tick (the automatic backup at timestep 1) -/
def Op.mayStore : Op → Bool
  | .backup _ => true
  | .tick _ _ _ => true
  | _ => false

theorem step_keeps_none (st : State) (op : Op) (h : st.bk.stored = none) (hop : op.mayStore = false) :
    (step st op).1.bk.stored = none := by
  cases op with
  | backup big => simp [Op.mayStore] at hop
  | tick big d k => simp [Op.mayStore] at hop
  | bkDelete => simp only [step]; rw [h]; exact h
  | svcInstall cfg => simp only [step]; split <;> first | rfl | exact h
  | connect i => show (st.getNewConnection i).1.bk.stored = _; rw [getNewConnection_bk]; exact h
  | rawQuery i cid q => simp only [step]; split <;> simp [rawQuery_bk, h]
  | rawDisconnect i cid => simp only [step]; split <;> simp [send_bk, h]
  | rawJunk i k => simp only [step]; split <;> simp [send_bk, h]
  | hQuery hd q => simp only [step]; split <;> simp [handleQuery_bk, h]
  | hDisconnect hd => simp only [step]; split <;> simp [handleDisconnect_bk, h]
  | nConnect i => simp only [step]; split <;> simp [nativeConnect_bk, h]
  | nQuery i q => simp only [step]; split <;> simp [nativeQuery_bk, h]
  | nDisconnect i => simp only [step]; split <;> simp [nativeDisconnect_bk, h]
  | execute i =>
    simp only [step]; split
    · exact h
    · split
      · exact h
      · simp [execute_bk, h]
  | uninstall i => show (st.uninstall i).1.bk.stored = _; rw [uninstall_bk]; exact h
  | install i =>
    show (st.install i).bk.stored = _
    unfold State.install; split
    · exact h
    · split <;> exact h
  | appRun i => simp only [step]; (repeat' split) <;> exact h
  | appClose i => simp only [step]; (repeat' split) <;> exact h
  | clientPw i pw => simp only [step]; (repeat' split) <;> exact h
  | ransom i q => show (st.ransom i q).1.bk.stored = _; rw [ransom_bk]; exact h
  | svc r => exact h
  | setPw pw => exact h
  | restore d k => simp only [step]; split <;> exact h
  | folderDelete => exact h
  | admin a => exact h
  | dl a => exact h
  | fsr db a => exact h
  | co k => simp only [step]; (repeat' split) <;> exact h
  | dm i q scan atk via =>
    simp only [step]; split
    · exact h
    · split
      · exact h
      · split
        · exact h
        · simp [dmAttack_bk, h]
  | ransomReq i q =>
    simp only [step]; split
    · exact h
    · split
      · exact h
      · simp [ransom_bk, h]
  | fileDelete => exact h
  | fileCorrupt => exact h
  | fileRepair => exact h
  | power who on =>
    simp only [step]
    (repeat' split) <;> first | exact h | simp [h]
  | ftps b => simp only [step]; (repeat' split) <;> exact h
  | block w on => simp only [step]; (repeat' split) <;> exact h

/-- **No backup, no restore - along every run.**  Once the backup host holds no copy for the current instance (it was
deleted there, the service was re-installed, or none was ever taken), then along EVERY sequence of operations that contains
neither an explicit backup nor a tick, it holds none, and every restore fails leaving the file as it is. -/
theorem C17_no_backup_stays_none_run (st : State) (ops : List Op) (h : st.bk.stored = none)
    (hops : ∀ op ∈ ops, op.mayStore = false) :
    (run st ops).bk.stored = none ∧
    ∀ d k, (step (run st ops) (.restore d k)).2.res ≠ some true ∧
      (step (run st ops) (.restore d k)).1.srv.file = (run st ops).srv.file := by
  have hn : (run st ops).bk.stored = none := by
    induction ops generalizing st with
    | nil => exact h
    | cons o os ih =>
      unfold run
      exact ih _ (step_keeps_none st o h (hops o List.mem_cons_self)) (fun op hm => hops op (List.mem_cons_of_mem _ hm))
  exact ⟨hn, fun d k => ⟨(C17_restore_without_backup _ d k hn).1, (C17_restore_without_backup _ d k hn).2.1⟩⟩

/-- non-vacuity: backup GOOD, DELETE, the copy deleted on the backup host: restore fails; a new backup stores the COMPROMISED
data, and the restore that then succeeds brings back compromised data -/
example :
    let st : State := { clients := [{}] }
    let ops : List Op := [.backup true, .connect 0, .hQuery 0 .delete, .bkDelete]
    (run st ops).bk.stored = none ∧ (step (run st ops) (.restore true true)).2.res = some false ∧
    (run st (ops ++ [.backup true])).bk.stored = some .compromised ∧
    (run st (ops ++ [.backup true, .restore true true])).srv.file = some .compromised := by decide

end Primaite.Database

namespace Primaite.Database

/-! ## 7. File-system requests on database/ and downloads/, the FTP client's health (round 4) -/

/-- **File-system requests** (`['file_system', …]` on the database host: corrupt / repair / restore / scan / delete of
`database.db`, restore of a deleted copy, corrupt / repair / delete of the folder) on `database/` or `downloads/` change
nothing but that folder's live file, its deleted copies and its existence - not the service, its table, its health, the
FTP client; a request on `downloads/` never touches the database file; all of them need the node ON. What they leave behind
is covered by the restore theorems for EVERY state: a restore that succeeds yields the backup
(`C17_restore_roundtrip_run` allows any of these requests between backup and restore), one without a path fails. -/
theorem C17_fs_requests (s : Server) (db : Bool) (a : FsAct) :
    (s.fsr db a).1 = { s with file := (s.fsr db a).1.file, folder := (s.fsr db a).1.folder, fileDeleted := (s.fsr db a).1.fileDeleted,
                              downloads := (s.fsr db a).1.downloads, dlFolder := (s.fsr db a).1.dlFolder,
                              dlDeleted := (s.fsr db a).1.dlDeleted } ∧
    (db = false → (s.fsr db a).1.file = s.file ∧ (s.fsr db a).1.fileDeleted = s.fileDeleted) ∧
    (db = true → (s.fsr db a).1.downloads = s.downloads ∧ (s.fsr db a).1.dlDeleted = s.dlDeleted) ∧
    (s.node.isOn = false → s.fsr db a = (s, none)) := by
  refine ⟨(fsr_frame s db a).1, ?_, ?_, ?_⟩
  · intro h; subst h; unfold Server.fsr; split <;> exact ⟨rfl, rfl⟩
  · intro h; subst h; unfold Server.fsr; split <;> exact ⟨rfl, rfl⟩
  · intro h; unfold Server.fsr; simp [h]

/-- `restore file`: a live file is restored in place (CORRUPT → GOOD, anything else kept); with no live file the OLDEST
deleted copy comes back with the health it was deleted with - so un-deleting a COMPROMISED database file yields
COMPROMISED data again (and a backup taken then stores exactly that, `C17_backup_stores`). -/
theorem C17_fs_restore_file (f : Fold) :
    (f.present = false → f.act .fundelete = (f, some false)) ∧
    (f.present = true → ∀ h, f.live = some h →
        f.act .fundelete = ({ f with live := some (if h = .corrupt then .good else h) }, some true)) ∧
    (f.present = true → f.live = none → ∀ h rest, f.deleted = h :: rest →
        f.act .fundelete = ({ f with live := some h, deleted := rest }, some true)) ∧
    (f.present = true → f.live = none → f.deleted = [] → f.act .fundelete = (f, some false)) := by
  unfold Fold.act
  refine ⟨?_, ?_, ?_, ?_⟩
  · intro h; simp [h]
  · intro hp h hl; simp [hp, hl]
  · intro hp hl h rest hd; simp [hp, hl, hd]
  · intro hp hl hd; simp [hp, hl, hd]

example :
    let st : State := { clients := [{}] }
    let ops : List Op := [.backup true, .connect 0, .hQuery 0 .delete, .fsr true .fdelete, .restore true true,
                          .fsr true .fdelete, .fsr true .fundelete]
    (run st ops).srv.file = some .compromised ∧ (run st ops).srv.fileDeleted = [.good] := by decide

/-- **The FTP client's health does not matter** (`compromise` / `fix` requests on it): backup and restore give the same
result whatever it is - only its operating state counts (`C17_ftp_client_needed`). -/
theorem C17_ftpc_health_irrelevant (s : Server) (b : Backup) (pq pr k big : Bool) (c : Bool) (fx : Option Nat) :
    (restoreBackup { s with ftpcComp := c, ftpcFix := fx } b pq pr k).2 = (restoreBackup s b pq pr k).2 ∧
    (restoreBackup { s with ftpcComp := c, ftpcFix := fx } b pq pr k).1.file = (restoreBackup s b pq pr k).1.file ∧
    (backupDatabase { s with ftpcComp := c, ftpcFix := fx } b pq big).2 = (backupDatabase s b pq big).2 := by
  have e1 : Server.canAct { s with ftpcComp := c, ftpcFix := fx } = s.canAct := rfl
  have e2 : Server.ftpcAct { s with ftpcComp := c, ftpcFix := fx } = s.ftpcAct := rfl
  refine ⟨?_, ?_, ?_⟩
  · rw [restoreBackup_closed, restoreBackup_closed]; simp only [e1, e2]
    cases hg : (!s.canAct || !s.backupConfigured || s.ftpc.isNone)
    · cases hs : b.stored with
      | none => simp
      | some bh => cases hx : (pq && b.serves && k && pr && s.ftpcAct) <;> simp
    · simp
  · rw [restoreBackup_closed, restoreBackup_closed]; simp only [e1, e2]
    cases hg : (!s.canAct || !s.backupConfigured || s.ftpc.isNone)
    · cases hs : b.stored with
      | none => simp
      | some bh => cases hx : (pq && b.serves && k && pr && s.ftpcAct) <;> simp
    · simp
  · unfold backupDatabase ftpSendFile
    simp only [e1, e2]
    cases hc : s.canAct <;> cases hbc : s.backupConfigured <;> cases hft : s.ftpc <;> cases hf : s.file <;> simp
    cases big <;> cases hs : b.stored <;> cases hq : s.ftpConn <;> cases ha : s.ftpcAct <;> cases pq <;> cases hbs : b.serves <;> simp

end Primaite.Database

namespace Primaite.Database

/-! ## 8. Repeated backups (round 6)

What the unchanged code does: the FTP server's `_store_data` creates the file and RAISES (swallowed: the STOR is answered with
an error) when a file of that name exists, so a backup is stored only while the backup host holds no copy for this instance;
a further `backup_database()` reports FAILURE and leaves the stored copy - with the health of the backup that was taken -
untouched.  (Seeded change C17-e made the second backup report success while keeping the first backup's health.)  The store
path itself is the translated `_store_data` (`srv_stor`, `C17_tr_ftp_send_file`, `C17_tr_backup`, `C17_tr_stored_copy`). -/

theorem backup_orphans (s : Server) (b : Backup) (pq big : Bool) : (backupDatabase s b pq big).2.1.orphans = b.orphans := by
  have hb := C17_backup_stores s b pq big
  cases hr : (backupDatabase s b pq big).2.2 with
  | false => rw [hb.2 hr]
  | true =>
    unfold backupDatabase ftpSendFile at hr ⊢
    cases hc : s.canAct <;> cases hbc : s.backupConfigured <;> cases hft : s.ftpc <;> cases hf : s.file <;> simp [hc, hbc, hft, hf] at hr ⊢
    cases big <;> cases hs : b.stored <;> cases hq : s.ftpConn <;> cases ha : s.ftpcAct <;> cases pq <;> cases hbs : b.serves <;>
      simp [hs, hq, ha, hbs] at hr ⊢

/-- **One backup call, any state.**  A backup that reports success found no copy on the backup host and leaves exactly the
health the database file has AT THAT MOMENT there (the database host's file untouched); a backup that does not report success
leaves the backup host exactly as it was; and while a copy exists every backup is refused. -/
theorem C17_backup_outcome (st : State) (big : Bool) :
    ((step st (.backup big)).2.res = some true →
      st.bk.stored = none ∧ (step st (.backup big)).1.bk.stored = st.srv.file ∧ st.srv.file.isSome ∧
      (step st (.backup big)).1.srv.file = st.srv.file ∧ (step st (.backup big)).1.bk.orphans = st.bk.orphans) ∧
    ((step st (.backup big)).2.res ≠ some true → (step st (.backup big)).1.bk = st.bk) ∧
    (st.bk.stored.isSome → (step st (.backup big)).2.res ≠ some true) := by
  have hb := C17_backup_stores st.srv st.bk st.ftpReq big
  have hfr := backup_frame st.srv st.bk st.ftpReq big
  simp only [step]
  split
  · exact ⟨by simp, fun _ => rfl, fun _ => by simp⟩
  · dsimp only
    cases hr : (backupDatabase st.srv st.bk st.ftpReq big).2.2 with
    | true =>
      have h1 := hb.1 hr
      refine ⟨fun _ => ⟨h1.1, h1.2.2.2.2.2.2.2.1, h1.2.2.2.2.2.2.2.2, hfr.2.2.1, backup_orphans _ _ _ _⟩, fun h => absurd rfl h, ?_⟩
      intro hs; rw [h1.1] at hs; cases hs
    | false =>
      refine ⟨?_, fun _ => hb.2 hr, ?_⟩
      · intro h; cases h
      · intro _ h; cases h

theorem tick_stored (st : State) (big d k : Bool) :
    (st.tick big d k).bk.stored = st.bk.stored ∨
    (st.bk.stored = none ∧ (st.tick big d k).bk.stored = st.srv.file ∧ st.srv.file.isSome) := by
  cases hs : st.bk.stored with
  | some x => exact Or.inl (by rw [tick_keeps_stored st big d k x hs])
  | none =>
    -- the only writer inside a tick is the automatic backup (timestep 1), which runs on the file as the node's power step left it
    have hp := tickPower_downloads st.srv
    have key : ∀ (s : Server) (b : Backup) (t : Nat) (pq pr : Bool), b.stored = none → s.file = st.srv.file →
        (s.tickSvc b t pq pr big k).2.stored = none ∨
        ((s.tickSvc b t pq pr big k).2.stored = st.srv.file ∧ st.srv.file.isSome) := by
      intro s b t pq pr hbn hf
      unfold Server.tickSvc
      dsimp only
      split
      · exact Or.inl hbn
      · split
        · have hb := C17_backup_stores s b pq big
          cases hr : (backupDatabase s b pq big).2.2 with
          | true => have h1 := hb.1 hr; exact Or.inr ⟨by rw [h1.2.2.2.2.2.2.2.1, hf], by rw [← hf]; exact h1.2.2.2.2.2.2.2.2⟩
          | false => left; rw [hb.2 hr]; exact hbn
        · exact Or.inl hbn
    have hst : (st.tick big d k).bk.stored =
        (serverTick st.srv st.bk (st.t + 1) (st.bk.node.isOn && !st.blockFtpReq) (st.bk.node.isOn && !st.blockFtpResp && d) big k).2.stored := by
      unfold State.tick backupTick
      dsimp only
      split <;> split <;> rfl
    rw [hst]
    unfold serverTick
    dsimp only
    split
    · exact Or.inl hs
    · split
      · have hf := tickFtpc_frame st.srv.tickPower
        rcases key st.srv.tickPower.tickFtpc st.bk (st.t + 1) _ _ hs (by rw [hf.2.2.1, hp.2.1]) with h | h
        · exact Or.inl h
        · exact Or.inr ⟨rfl, h.1, h.2⟩
      · rcases key st.srv.tickPower st.bk (st.t + 1) _ _ hs hp.2.1 with h | h
        · exact Or.inl h
        · exact Or.inr ⟨rfl, h.1, h.2⟩

/-- **Who writes the backup host's copy.**  For EVERY operation in EVERY state: the copy stays as it is; or it disappears
(deleted on the backup host / the service re-installed); or there was none and a backup - explicit, or the automatic one of
timestep 1 inside a tick - stored exactly the health the database file had when that operation began. Nothing else, and never
over an existing copy. -/
theorem C17_stored_written_only_by_backup (st : State) (op : Op) :
    (step st op).1.bk.stored = st.bk.stored ∨
    ((step st op).1.bk.stored = none ∧ (op = .bkDelete ∨ ∃ cfg, op = .svcInstall cfg)) ∨
    (st.bk.stored = none ∧ (step st op).1.bk.stored = st.srv.file ∧ st.srv.file.isSome ∧
      ((∃ big, op = .backup big) ∨ ∃ b d k, op = .tick b d k)) := by
  by_cases hdel : op = .bkDelete
  · subst hdel
    exact Or.inr (Or.inl ⟨(C17_backup_deleted st).1, Or.inl rfl⟩)
  by_cases hin : ∃ cfg, op = .svcInstall cfg
  · obtain ⟨cfg, rfl⟩ := hin
    by_cases hr : (step st (.svcInstall cfg)).2.res = some true
    · exact Or.inr (Or.inl ⟨((C17_reinstall_orphans_backup st cfg).1 hr).1, Or.inr ⟨cfg, rfl⟩⟩)
    · left; rw [(C17_reinstall_orphans_backup st cfg).2 hr]
  cases hs : st.bk.stored with
  | some x => left; rw [step_keeps_stored st op x hs hdel (fun cfg h => hin ⟨cfg, h⟩)]
  | none =>
    by_cases hm : op.mayStore = true
    · cases op with
      | backup big =>
        have ho := C17_backup_outcome st big
        by_cases hr : (step st (.backup big)).2.res = some true
        · have h1 := ho.1 hr
          exact Or.inr (Or.inr ⟨rfl, h1.2.1, h1.2.2.1, Or.inl ⟨big, rfl⟩⟩)
        · left; rw [ho.2.1 hr, hs]
      | tick big d k =>
        rcases tick_stored st big d k with h | h
        · left; show (st.tick big d k).bk.stored = _; rw [h, hs]
        · exact Or.inr (Or.inr ⟨rfl, h.2.1, h.2.2, Or.inr ⟨big, d, k, rfl⟩⟩)
      | _ => simp [Op.mayStore] at hm
    · have hm' : op.mayStore = false := by simpa using hm
      left; rw [step_keeps_none st op hs hm']

/-- **Repeated backups, every run.**  After a backup that reported success, along EVERY operation sequence that neither
deletes the copy on the backup host nor re-installs the service - further backups in whatever health the file then has,
damage, repairs, restores, ticks ... - every further `backup_database()` reports FAILURE, and the backup host's copy is still
the health the database file had AT THE BACKUP THAT SUCCEEDED. (So "a backup reporting success" and "the copy has the health
of that backup" never come apart; the unchanged code refuses, it does not overwrite.) -/
theorem C17_repeated_backups_run (st : State) (ops : List Op) (big big' : Bool)
    (hbk : (step st (.backup big)).2.res = some true)
    (hops : ∀ op ∈ ops, op ≠ .bkDelete ∧ ∀ cfg, op ≠ .svcInstall cfg) :
    (run (step st (.backup big)).1 ops).bk.stored = st.srv.file ∧ st.srv.file.isSome ∧
    (step (run (step st (.backup big)).1 ops) (.backup big')).2.res ≠ some true ∧
    (step (run (step st (.backup big)).1 ops) (.backup big')).1.bk.stored = st.srv.file := by
  have h1 := (C17_backup_outcome st big).1 hbk
  obtain ⟨x, hx⟩ := Option.isSome_iff_exists.mp h1.2.2.1
  have hkeep := run_keeps_stored (step st (.backup big)).1 ops x (by rw [h1.2.1, hx]) hops
  have ho := C17_backup_outcome (run (step st (.backup big)).1 ops) big'
  have hrej := ho.2.2 (by rw [hkeep]; rfl)
  exact ⟨by rw [hkeep, hx], h1.2.2.1, hrej, by rw [ho.2.1 hrej, hkeep, hx]⟩

/-- non-vacuity: backup while CORRUPT, repair, a second backup while GOOD is REFUSED and the copy stays CORRUPT (the seeded C17-e
tree answered True and kept CORRUPT); after deleting the copy a new backup stores GOOD -/
example :
    let st : State := { srv := { file := some .corrupt }, clients := [{}] }
    (step st (.backup true)).2.res = some true ∧
    (step (run (step st (.backup true)).1 [.fileRepair]) (.backup true)).2.res = some false ∧
    (step (run (step st (.backup true)).1 [.fileRepair]) (.backup true)).1.bk.stored = some .corrupt ∧
    (run st [.backup true, .fileRepair, .bkDelete, .backup true]).bk.stored = some .good := by decide

end Primaite.Database
