/-
C17, round 7 second shift — the step from the TRANSLATED application loops of the two red applications
(Gen/DatabaseBotTr.lean) to the model's State-threaded `State.dmAttack` / `State.ransom`, as a theorem for every state.

`State.dmAttackTr` / `State.ransomTr` below contain NO decision of their own: they run the translated loop on the bot's record read
off the host's `Client`, feed it the outcomes of the calls it makes (`get_new_connection()`, the query over the bot's connection)
computed in the state in which the code makes them, and apply the writes the loop's result flags (`pwSet`, `conn`, `queried`,
`stage`).  The theorems prove them EQUAL to the hand-written model functions.
-/
import PrimaiteModel.Props.C17Bot
set_option linter.unusedSimpArgs false
set_option linter.unusedVariables false
namespace Primaite.Database
open Primaite.Gen

/-- the data-manipulation bot's own record, read off the host's `Client` (the model's bot is always configured) -/
def Client.dmView (c : Client) : BotW :=
  { stage := c.dmStage, conn := c.dmConn, hasClient := c.installed, rep := c.dmRepeat }

/-- the ransomware script's record -/
def Client.rsView (c : Client) : BotW := { conn := c.rsConn, hasClient := c.installed }

/-- "the loop calls `get_new_connection()`": it holds no connection and would hold one if the call gave one -/
def dmAsks (w : BotW) (canAct scan atk : Bool) : Bool :=
  w.conn.isNone && (DatabaseBotTr.applicationLoop w canAct scan atk (some 0) false).1.conn.isSome

def rsAsks (w : BotW) (canAct : Bool) : Bool :=
  w.conn.isNone && (DatabaseBotTr.rsApplicationLoop w canAct false false (some 0) false).1.conn.isSome

/-- `run()` + `attack()` of the data-manipulation bot: the TRANSLATED loop, its calls answered by the state -/
def State.dmAttackTr (st : State) (i : Nat) (q : Sql) (scan atk : Bool) : State × List (Option Nat) × Bool :=
  match st.client? i with
  | none => (st, [], false)
  | some c =>
    if !c.dmInstalled then (st, [], false)
    else
      let c1 := { c with dmApp := appRun c.node.isOn c.dmApp }
      let st0 := st.setClient i c1
      let canAct := c1.node.isOn && c1.dmApp == .running
      let w := c1.dmView
      -- the stage written by `_logon` ; `_perform_port_scan`
      let stage := (DatabaseBotTr.performPortScan (DatabaseBotTr.logon w canAct scan atk none false) canAct scan atk none false).stage
      let st1 := st0.setClient i { c1 with serverPw := c1.dmPw, dmStage := stage }
      -- call 1: `get_new_connection()` in the state after the overwrite of the host client's password
      let g := st1.getNewConnection i
      let asked := dmAsks w canAct scan atk
      let sC := if asked then g.1.updClient i (fun c' => { c' with dmConn := g.2.2 }) else st1
      -- call 2: the query over the connection the bot then holds
      let conn := (DatabaseBotTr.applicationLoop w canAct scan atk g.2.2 false).1.conn
      let hq := sC.handleQuery (conn.getD 0) q
      let out := DatabaseBotTr.applicationLoop w canAct scan atk g.2.2 hq.2.2
      if !out.2 then (st0, [], false)
      else if !out.1.pwSet then (st0.setClient i { c1 with dmStage := out.1.stage }, [], true)
      else
        let base := if out.1.queried then hq.1 else sC
        let sts := (if asked then [g.2.1] else []) ++ (if out.1.queried then [hq.2.1] else [])
        (base.updClient i (fun c' => { c' with dmStage := out.1.stage }), sts, true)

/-- `run()` + `attack()` of the ransomware script: the TRANSLATED loop, its calls answered by the state -/
def State.ransomTr (st : State) (i : Nat) (q : Sql) : State × List (Option Nat) × Bool :=
  match st.client? i with
  | none => (st, [], false)
  | some c =>
    if !c.rsInstalled then (st, [], false)
    else
      let c1 := { c with rsApp := appRun c.node.isOn c.rsApp }
      let st0 := st.setClient i c1
      let canAct := c1.node.isOn && c1.rsApp == .running
      let w := c1.rsView
      let st1 := st0.setClient i { c1 with serverPw := c1.rsPw }
      let g := st1.getNewConnection i
      let asked := rsAsks w canAct
      let sC := if asked then g.1.updClient i (fun c' => { c' with rsConn := g.2.2 }) else st1
      let conn := (DatabaseBotTr.rsApplicationLoop w canAct false false g.2.2 false).1.conn
      let hq := sC.handleQuery (conn.getD 0) q
      let out := DatabaseBotTr.rsApplicationLoop w canAct false false g.2.2 hq.2.2
      if !out.1.pwSet then (st0, [], false)
      else
        let base := if out.1.queried then hq.1 else sC
        let sts := (if asked then [g.2.1] else []) ++ (if out.1.queried then [hq.2.1] else [])
        (base, sts, out.2)

/-! ### frame lemmas -/

theorem client?_setClient (st : State) (i : Nat) (c c' : Client) (h : st.client? i = some c) :
    (st.setClient i c').client? i = some c' := by
  unfold State.client? State.setClient at *
  have hi : i < st.clients.length := by
    rcases Nat.lt_or_ge i st.clients.length with h' | h'
    · exact h'
    · rw [List.getElem?_eq_none h'] at h; cases h
  simp [hi]

theorem client?_updClient (st : State) (i : Nat) (f : Client → Client) :
    (st.updClient i f).client? i = (st.client? i).map f := by
  unfold State.updClient
  cases h : st.client? i with
  | none => simp [h]
  | some c => simp [client?_setClient st i c (f c) h]

theorem client?_send (st : State) (i j : Nat) (p : Payload) : (st.send i p).1.client? j = st.client? j := by
  unfold State.send
  split
  · rfl
  · simp only
    cases (st.srv.receive i p).2 <;> rfl

theorem client?_getNewConnection_isSome (st : State) (i : Nat) (c : Client) (h : st.client? i = some c) :
    ((st.getNewConnection i).1.client? i).isSome = true := by
  unfold State.getNewConnection
  rw [h]
  simp only
  split
  · simp [h]
  · have hs : ∀ p, ((st.send i p).1.client? i) = some c := fun p => by rw [client?_send, h]
    split
    · rw [client?_updClient]
      show (Option.map _ (State.client? { (st.send i _).1 with handles := _ } i)).isSome = true
      have : State.client? { (st.send i (.connect c.serverPw)).1 with
          handles := (st.send i (.connect c.serverPw)).1.handles ++ [({ id := ‹Nat›, host := i } : Handle)] } i
          = (st.send i (.connect c.serverPw)).1.client? i := rfl
      rw [this, hs]; rfl
    · rw [hs]; rfl

theorem client?_getNewConnection_bind (st : State) (i : Nat) (c : Client) (h : st.client? i = some c) (f : Client → Client) :
    (((st.getNewConnection i).1.updClient i f).client? i) = ((st.getNewConnection i).1.client? i).map f :=
  client?_updClient _ _ _

/-- after `_establish_db_connection` the bot holds what `get_new_connection()` returned -/
theorem dmConn_after_connect (st : State) (i : Nat) (c : Client) (h : st.client? i = some c) (v : Option Nat) :
    (((st.getNewConnection i).1.updClient i (fun c' => { c' with dmConn := v })).client? i).bind (·.dmConn) = v := by
  rw [client?_updClient]
  have := client?_getNewConnection_isSome st i c h
  cases hx : (st.getNewConnection i).1.client? i with
  | none => rw [hx] at this; cases this
  | some c' => rfl

theorem rsConn_after_connect (st : State) (i : Nat) (c : Client) (h : st.client? i = some c) (v : Option Nat) :
    (((st.getNewConnection i).1.updClient i (fun c' => { c' with rsConn := v })).client? i).bind (·.rsConn) = v := by
  rw [client?_updClient]
  have := client?_getNewConnection_isSome st i c h
  cases hx : (st.getNewConnection i).1.client? i with
  | none => rw [hx] at this; cases this
  | some c' => rfl

/-- **The model's data-manipulation attack IS the translated loop run against the state**, for every state, host, payload and
outcome of the two trials. -/
theorem C17_tr_dm_attack_is_model (st : State) (i : Nat) (q : Sql) (scan atk : Bool) :
    st.dmAttack i q scan atk = st.dmAttackTr i q scan atk := by
  unfold State.dmAttack State.dmAttackTr
  cases hc : st.client? i with
  | none => rfl
  | some c =>
    have hc2 : ∀ c1 c2 : Client, ((st.setClient i c1).setClient i c2).client? i = some c2 :=
      fun c1 c2 => client?_setClient _ i c1 c2 (client?_setClient st i c c1 hc)
    cases hi : c.dmInstalled with
    | false => simp [hi]
    | true =>
      simp only [hi, Bool.not_true, Bool.false_eq_true, if_false, C17_tr_dm_loop, C17_tr_dm_advance, dmAsks, Client.dmView,
        Bool.and_true]
      cases hact : (c.node.isOn && appRun c.node.isOn c.dmApp == AppState.running) with
      | false => simp
      | true =>
        simp only [Bool.not_true, Bool.false_eq_true, if_false, if_true, dmLoopSpec]
        cases hinst : c.installed with
        | false => simp
        | true =>
          simp only [Bool.not_true, Bool.false_eq_true, if_false]
          generalize dmAdvance c.dmStage scan = stage
          by_cases hs : stage = 2 ∧ atk = true
          · simp only [hs, and_self, decide_true, Bool.not_true, Bool.false_eq_true, not_true_eq_false, if_false, State.dmConnect]
            cases hcn : c.dmConn with
            | some h0 => simp [hc2, hcn]
            | none =>
              simp only [dmConn_after_connect _ i _ (hc2 _ _)]
              generalize State.getNewConnection _ i = g
              obtain ⟨g1, g2, g3⟩ := g
              cases g3 <;> simp
          · cases hcn : c.dmConn <;> simp [hs, hcn]

/-- **The model's ransomware attack IS the translated loop run against the state**, for every state, host and payload. -/
theorem C17_tr_ransom_is_model (st : State) (i : Nat) (q : Sql) :
    st.ransom i q = st.ransomTr i q := by
  unfold State.ransom State.ransomTr
  cases hc : st.client? i with
  | none => rfl
  | some c =>
    have hc2 : ∀ c1 c2 : Client, ((st.setClient i c1).setClient i c2).client? i = some c2 :=
      fun c1 c2 => client?_setClient _ i c1 c2 (client?_setClient st i c c1 hc)
    cases hi : c.rsInstalled with
    | false => simp [hi]
    | true =>
      simp only [hi, Bool.not_true, Bool.false_eq_true, if_false, C17_tr_rs_loop, rsAsks, Client.rsView, rsLoopSpec, Bool.and_true]
      cases hact : (c.node.isOn && appRun c.node.isOn c.rsApp == AppState.running) with
      | false => simp
      | true =>
        simp only [Bool.not_true, Bool.false_eq_true, if_false, if_true]
        cases hinst : c.installed with
        | false => simp
        | true =>
          simp only [Bool.not_true, Bool.false_eq_true, if_false, State.ransomConnect]
          cases hcn : c.rsConn with
          | some h0 => simp [hc2, hcn]
          | none =>
            simp only [rsConn_after_connect _ i _ (hc2 _ _)]
            generalize State.getNewConnection _ i = g
            obtain ⟨g1, g2, g3⟩ := g
            cases g3 <;> simp

end Primaite.Database
