/-
C19 — scripted green/red agents act only when and how their settings allow.
Property theorems; the models are `Model/Agents.lean` and `Model/AgentsTap.lean`.
-/
import PrimaiteModel.Model.AgentsTap
namespace Primaite.Agents

/-! ## 1. The inverse-CDF sampler (numpy `Generator.choice(n, p=…)` as used by ProbabilisticAgent) -/

/-- What `scan` returns is a position of the list, relative to `base`. -/
theorem scan_spec (u : Unif) (total : Nat) :
    ∀ (ws : List Nat) (acc base i : Nat), scan u total acc base ws = some i →
      base ≤ i ∧ i - base < ws.length ∧
      u.num * total < u.den * (acc + (ws.take (i - base + 1)).sum) ∧
      ∀ j, j < i - base → ¬ u.num * total < u.den * (acc + (ws.take (j + 1)).sum) := by
  intro ws
  induction ws with
  | nil => intro acc base i h; simp [scan] at h
  | cons w ws ih =>
    intro acc base i h
    unfold scan at h
    split at h
    · rename_i hlt
      cases h
      simp only [Nat.sub_self, Nat.zero_add, List.take_succ_cons, List.take_zero, List.sum_cons, List.sum_nil,
        Nat.add_zero, List.length_cons, Nat.zero_lt_succ, Nat.le_refl, true_and]
      exact ⟨hlt, fun j hj => absurd hj (Nat.not_lt_zero j)⟩
    · rename_i hnlt
      obtain ⟨hb, hl, hu, hmin⟩ := ih (acc + w) (base + 1) i h
      have e : i - base = (i - (base + 1)) + 1 := by omega
      refine ⟨by omega, ?_, ?_, ?_⟩
      · simp only [List.length_cons]; omega
      · rw [e, List.take_succ_cons, List.sum_cons]
        simpa [Nat.add_assoc] using hu
      · intro j hj
        cases j with
        | zero => simpa using hnlt
        | succ j =>
          have := hmin j (by omega)
          rw [List.take_succ_cons, List.sum_cons]
          simpa [Nat.add_assoc] using this

/-- The weight at the position `scan` returns is not zero: the running sum must strictly increase there. -/
theorem scan_weight_pos (u : Unif) (total : Nat) :
    ∀ (ws : List Nat) (acc base i : Nat), ¬ u.num * total < u.den * acc →
      scan u total acc base ws = some i → ∃ w, ws[i - base]? = some w ∧ 0 < w := by
  intro ws
  induction ws with
  | nil => intro acc base i _ h; simp [scan] at h
  | cons w ws ih =>
    intro acc base i hacc h
    unfold scan at h
    split at h
    · rename_i hlt
      cases h
      refine ⟨w, by simp, ?_⟩
      cases w with
      | zero => simp at hlt; exact absurd hlt hacc
      | succ n => exact Nat.succ_pos n
    · rename_i hnlt
      obtain ⟨w', hw', hpos⟩ := ih (acc + w) (base + 1) i hnlt h
      have hb := (scan_spec u total ws (acc + w) (base + 1) i h).1
      have e : i - base = (i - (base + 1)) + 1 := by omega
      exact ⟨w', by rw [e, List.getElem?_cons_succ]; exact hw', hpos⟩

/-- `scan` finds an index as soon as `u · total` lies below the final running sum. -/
theorem scan_finds (u : Unif) (total : Nat) :
    ∀ (ws : List Nat) (acc base : Nat), ¬ u.num * total < u.den * acc →
      u.num * total < u.den * (acc + ws.sum) → ∃ i, scan u total acc base ws = some i := by
  intro ws
  induction ws with
  | nil => intro acc base h1 h2; simp at h2; exact absurd h2 h1
  | cons w ws ih =>
    intro acc base h1 h2
    unfold scan
    split
    · exact ⟨base, rfl⟩
    · rename_i hnlt
      exact ih (acc + w) (base + 1) hnlt (by simpa [List.sum_cons, Nat.add_assoc] using h2)

/-- Running sums (numpy `cumsum`): `cdf ws i = w₀ + … + wᵢ`. -/
def cdf (ws : List Nat) (i : Nat) : Nat := (ws.take (i + 1)).sum

/-- `u < cdf i / total`, on integers. -/
def Below (u : Unif) (ws : List Nat) (i : Nat) : Prop := u.num * ws.sum < u.den * cdf ws i

/-- **Sampler specification.** For every weight vector of the right length with positive total and every
`u ∈ [0,1)`, `choice` returns the least index whose cumulative probability exceeds `u`. -/
theorem C19_choice_is_least_cdf_index (n : Nat) (ws : List Nat) (u : Unif)
    (hlen : ws.length = n) (hsum : 0 < ws.sum) (hu : u.num < u.den) :
    ∃ i, choice n ws u = .chose i ∧ i < n ∧ Below u ws i ∧ ∀ j, j < i → ¬ Below u ws j := by
  have hfind := scan_finds u ws.sum ws 0 0 (by simp)
    (by simpa using Nat.mul_lt_mul_of_pos_right hu hsum)
  obtain ⟨i, hi⟩ := hfind
  obtain ⟨_, hl, hb, hmin⟩ := scan_spec u ws.sum ws 0 0 i hi
  refine ⟨i, ?_, by simpa [hlen] using hl, by simpa [Below, cdf] using hb, ?_⟩
  · unfold choice
    rw [if_neg (by simp [hlen]; omega), hi]
  · intro j hj
    simpa [Below, cdf] using hmin j (by simpa using hj)

/-- **never_zero.** Whatever `u` is, an index whose weight is zero is never returned. -/
theorem C19_never_zero (n : Nat) (ws : List Nat) (u : Unif) (i : Nat)
    (h : choice n ws u = .chose i) : ∃ w, ws[i]? = some w ∧ 0 < w := by
  unfold choice at h
  split at h
  · cases h
  · split at h
    · rename_i k hk
      cases h
      simpa using scan_weight_pos u ws.sum ws 0 0 i (by simp) hk
    · cases h

/-- `choice` answers inside the action range or raises. -/
theorem C19_choice_in_range (n : Nat) (ws : List Nat) (u : Unif) (i : Nat)
    (h : choice n ws u = .chose i) : i < n := by
  unfold choice at h
  split at h
  · cases h
  · rename_i hc
    split at h
    · rename_i k hk
      cases h
      have := (scan_spec u ws.sum ws 0 0 i hk).2.1
      have hl : ws.length = n := by
        rcases Nat.decEq ws.length n with hne | he
        · exact absurd (Or.inl hne) hc
        · exact he
      omega
    · cases h

end Primaite.Agents
