/-
C19 — scripted green/red agents act only when and how their settings allow.
Property theorems; the models are `Model/Agents.lean` and `Model/AgentsTap.lean`.
-/
import PrimaiteModel.Model.AgentsTap
import PrimaiteModel.Gen.Agents
namespace Primaite.Agents

/-! ## 1. The inverse-CDF sampler (numpy `Generator.choice(n, p=…)` as used by ProbabilisticAgent) -/

/-- What `scan` returns is a position of the list, relative to `base`. -/
theorem scan_spec (u : Unif) (total : Nat) :
    ∀ (ws : List Nat) (acc base i : Nat), scan u total acc base ws = some i →
      base ≤ i ∧ i - base < ws.length ∧
      u.num * total < u.den * (acc + (ws.take (i - base + 1)).sum) ∧
      ∀ j, j < i - base → ¬ u.num * total < u.den * (acc + (ws.take (j + 1)).sum) := by
  intro ws
  induction ws with
  | nil => intro acc base i h; simp [scan] at h
  | cons w ws ih =>
    intro acc base i h
    unfold scan at h
    split at h
    · rename_i hlt
      cases h
      simp only [Nat.sub_self, Nat.zero_add, List.take_succ_cons, List.take_zero, List.sum_cons, List.sum_nil,
        Nat.add_zero, List.length_cons, Nat.zero_lt_succ, Nat.le_refl, true_and]
      exact ⟨hlt, fun j hj => absurd hj (Nat.not_lt_zero j)⟩
    · rename_i hnlt
      obtain ⟨hb, hl, hu, hmin⟩ := ih (acc + w) (base + 1) i h
      have e : i - base = (i - (base + 1)) + 1 := by omega
      refine ⟨by omega, ?_, ?_, ?_⟩
      · simp only [List.length_cons]; omega
      · rw [e, List.take_succ_cons, List.sum_cons]
        simpa [Nat.add_assoc] using hu
      · intro j hj
        cases j with
        | zero => simpa using hnlt
        | succ j =>
          have := hmin j (by omega)
          rw [List.take_succ_cons, List.sum_cons]
          simpa [Nat.add_assoc] using this

/-- The weight at the position `scan` returns is not zero: the running sum must strictly increase there. -/
theorem scan_weight_pos (u : Unif) (total : Nat) :
    ∀ (ws : List Nat) (acc base i : Nat), ¬ u.num * total < u.den * acc →
      scan u total acc base ws = some i → ∃ w, ws[i - base]? = some w ∧ 0 < w := by
  intro ws
  induction ws with
  | nil => intro acc base i _ h; simp [scan] at h
  | cons w ws ih =>
    intro acc base i hacc h
    unfold scan at h
    split at h
    · rename_i hlt
      cases h
      refine ⟨w, by simp, ?_⟩
      cases w with
      | zero => simp at hlt; exact absurd hlt hacc
      | succ n => exact Nat.succ_pos n
    · rename_i hnlt
      obtain ⟨w', hw', hpos⟩ := ih (acc + w) (base + 1) i hnlt h
      have hb := (scan_spec u total ws (acc + w) (base + 1) i h).1
      have e : i - base = (i - (base + 1)) + 1 := by omega
      exact ⟨w', by rw [e, List.getElem?_cons_succ]; exact hw', hpos⟩

/-- `scan` finds an index as soon as `u · total` lies below the final running sum. -/
theorem scan_finds (u : Unif) (total : Nat) :
    ∀ (ws : List Nat) (acc base : Nat), ¬ u.num * total < u.den * acc →
      u.num * total < u.den * (acc + ws.sum) → ∃ i, scan u total acc base ws = some i := by
  intro ws
  induction ws with
  | nil => intro acc base h1 h2; simp at h2; exact absurd h2 h1
  | cons w ws ih =>
    intro acc base h1 h2
    unfold scan
    split
    · exact ⟨base, rfl⟩
    · rename_i hnlt
      exact ih (acc + w) (base + 1) hnlt (by simpa [List.sum_cons, Nat.add_assoc] using h2)

/-- Running sums (numpy `cumsum`): `cdf ws i = w₀ + … + wᵢ`. -/
def cdf (ws : List Nat) (i : Nat) : Nat := (ws.take (i + 1)).sum

/-- `u < cdf i / total`, on integers. -/
def Below (u : Unif) (ws : List Nat) (i : Nat) : Prop := u.num * ws.sum < u.den * cdf ws i

/-- **Sampler specification.** For every weight vector of the right length with positive total and every
`u ∈ [0,1)`, `choice` returns the least index whose cumulative probability exceeds `u`. -/
theorem C19_choice_is_least_cdf_index (n : Nat) (ws : List Nat) (u : Unif)
    (hlen : ws.length = n) (hsum : 0 < ws.sum) (hu : u.num < u.den) :
    ∃ i, choice n ws u = .chose i ∧ i < n ∧ Below u ws i ∧ ∀ j, j < i → ¬ Below u ws j := by
  have hfind := scan_finds u ws.sum ws 0 0 (by simp)
    (by simpa using Nat.mul_lt_mul_of_pos_right hu hsum)
  obtain ⟨i, hi⟩ := hfind
  obtain ⟨_, hl, hb, hmin⟩ := scan_spec u ws.sum ws 0 0 i hi
  refine ⟨i, ?_, by simpa [hlen] using hl, by simpa [Below, cdf] using hb, ?_⟩
  · unfold choice
    rw [if_neg (by simp [hlen]; omega), hi]
  · intro j hj
    simpa [Below, cdf] using hmin j (by simpa using hj)

/-- **never_zero.** Whatever `u` is, an index whose weight is zero is never returned. -/
theorem C19_never_zero (n : Nat) (ws : List Nat) (u : Unif) (i : Nat)
    (h : choice n ws u = .chose i) : ∃ w, ws[i]? = some w ∧ 0 < w := by
  unfold choice at h
  split at h
  · cases h
  · split at h
    · rename_i k hk
      cases h
      simpa using scan_weight_pos u ws.sum ws 0 0 i (by simp) hk
    · cases h

/-- `choice` answers inside the action range or raises. -/
theorem C19_choice_in_range (n : Nat) (ws : List Nat) (u : Unif) (i : Nat)
    (h : choice n ws u = .chose i) : i < n := by
  unfold choice at h
  split at h
  · cases h
  · rename_i hc
    split at h
    · rename_i k hk
      cases h
      have := (scan_spec u ws.sum ws 0 0 i hk).2.1
      have hl : ws.length = n := by
        rcases Nat.decEq ws.length n with hne | he
        · exact absurd (Or.inl hne) hc
        · exact he
      omega
    · cases h

/-! ## 2. ProbabilisticAgent: the vector handed to numpy is indexed by action number (F-29 repaired) -/

theorem mapM_some_spec {α β} (f : α → Option β) :
    ∀ (l : List α) (v : List β), l.mapM f = some v →
      v.length = l.length ∧ ∀ i (h : i < l.length), v[i]? = f l[i] := by
  intro l
  induction l with
  | nil => intro v h; simp at h; subst h; simp
  | cons a l ih =>
    intro v h
    simp only [List.mapM_cons] at h
    cases hfa : f a with
    | none => simp [hfa] at h
    | some b =>
      cases hl : l.mapM f with
      | none => simp [hfa, hl] at h
      | some bs =>
        simp [hfa, hl] at h
        subst h
        obtain ⟨hlen, hget⟩ := ih bs hl
        refine ⟨by simp [hlen], ?_⟩
        intro i hi
        cases i with
        | zero => simp [hfa]
        | succ i => simpa using hget i (by simpa using hi)

theorem mapM_some_of_all {α β} (f : α → Option β) :
    ∀ (l : List α), (∀ a ∈ l, (f a).isSome) → ∃ v, l.mapM f = some v := by
  intro l
  induction l with
  | nil => intro _; exact ⟨[], by simp⟩
  | cons a l ih =>
    intro h
    obtain ⟨v, hv⟩ := ih (fun x hx => h x (List.mem_cons_of_mem a hx))
    have ha := h a (List.mem_cons_self)
    cases hfa : f a with
    | none => simp [hfa] at ha
    | some b => exact ⟨b :: v, by simp [List.mapM_cons, hfa, hv]⟩

/-- **vector_aligned.** For every table the validator accepts, the vector the (repaired) code builds has one entry
per key and entry `i` is the probability configured for action `i`. -/
theorem C19_vector_aligned (tb : Table) (h : tb.covered = true) :
    ∃ v, tb.vector .byKey = some v ∧ v.length = tb.length ∧ ∀ i, i < tb.length → v[i]? = tb.lookup i := by
  have hall : ∀ a ∈ List.range tb.length, (tb.lookup a).isSome := by
    simpa [Table.covered, List.all_eq_true] using h
  obtain ⟨v, hv⟩ := mapM_some_of_all tb.lookup _ hall
  obtain ⟨hlen, hget⟩ := mapM_some_spec tb.lookup _ v hv
  refine ⟨v, hv, by simpa using hlen, ?_⟩
  intro i hi
  have := hget i (by simpa using hi)
  rw [List.getElem_range] at this
  exact this

/-- Without the validator's guarantee the by-key vector is a `KeyError`, never a misaligned vector. -/
theorem C19_vector_by_key_aligned_or_raises (tb : Table) (v : List Nat) (h : tb.vector .byKey = some v) :
    v.length = tb.length ∧ ∀ i, i < tb.length → v[i]? = tb.lookup i := by
  obtain ⟨hlen, hget⟩ := mapM_some_spec tb.lookup _ v h
  refine ⟨by simpa using hlen, fun i hi => ?_⟩
  have := hget i (by simpa using hi)
  rw [List.getElem_range] at this
  exact this

/-- **The probabilistic agent never selects an action configured with probability zero** — for every table, every
number of actions and every uniform draw; the selected index also lies inside the action map. -/
theorem C19_prob_agent_never_selects_zero (tb : Table) (n : Nat) (u : Unif) (i : Nat)
    (h : probAgentChoice .byKey tb n u = .chose i) :
    i < n ∧ ∃ w, tb.lookup i = some w ∧ 0 < w := by
  unfold probAgentChoice at h
  split at h
  · cases h
  · rename_i ws hws
    obtain ⟨hlen, hget⟩ := C19_vector_by_key_aligned_or_raises tb ws hws
    have hin := C19_choice_in_range n ws u i h
    obtain ⟨w, hw, hpos⟩ := C19_never_zero n ws u i h
    have hi : i < tb.length := by
      have : i < ws.length := by
        rcases Nat.lt_or_ge i ws.length with hlt | hge
        · exact hlt
        · rw [List.getElem?_eq_none hge] at hw; cases hw
      omega
    exact ⟨hin, w, by rw [← hget i hi]; exact hw, hpos⟩

/-- The statement the unrepaired code (vector in insertion order) would have to satisfy … -/
def C19_InsertionOrderNeverSelectsZero : Prop :=
  ∀ (tb : Table) (n : Nat) (u : Unif) (i : Nat), tb.covered = true → u.num < u.den →
    probAgentChoice .insertion tb n u = .chose i → ∃ w, tb.lookup i = some w ∧ 0 < w

/-- … and its refutation: the table written `{1: 0.0, 0: 1.0}` selects action 1 for every draw (finding F-29). -/
theorem C19_insertion_order_counterexample : ¬ C19_InsertionOrderNeverSelectsZero := by
  intro h
  have := h [(1, 0), (0, 1)] 2 ⟨0, 1⟩ 1 (by decide) (by decide) (by decide)
  obtain ⟨w, hw, hpos⟩ := this
  have : w = 0 := by
    have e : Table.lookup [(1, 0), (0, 1)] 1 = some 0 := by decide
    rw [e] at hw; cases hw; rfl
  omega

/-- In that table *every* draw selects the zero-probability action. -/
example (u : Unif) (hu : u.num < u.den) : probAgentChoice .insertion [(1, 0), (0, 1)] 2 u = .chose 1 := by
  simp [probAgentChoice, Table.vector, Table.vectorInsertion, choice, scan, hu]

/-- Non-vacuity of `C19_prob_agent_never_selects_zero`: a shuffled table with a zero entry does select something. -/
example : probAgentChoice .byKey [(1, 0), (0, 1)] 2 ⟨1, 2⟩ = .chose 0 := by decide

/-! ## 3. PeriodicAgent: first action, gaps, count, action -/

/-- One call of `PeriodicAgent.get_action` idles, executes, or raises — with exactly these side conditions. -/
theorem periodicStep_tri (c : PeriodicCfg) (s : PeriodicState) (t d : Int) (k : Nat) :
    let r := periodicStep c s t d k
    (r.2 = .doNothing ∧ r.1 = s ∧ s.dead = false ∧ ¬ (t = s.next ∧ s.numExec < c.maxExecutions)) ∨
    (∃ n, r.2 = .execute n ∧ s.dead = false ∧ t = s.next ∧ s.numExec < c.maxExecutions ∧
        r.1.next = t + c.frequency + d ∧ r.1.numExec = s.numExec + 1 ∧ r.1.dead = false ∧ r.1.startNode = some n ∧
        (s.startNode = some n ∨ (s.startNode = none ∧ n = k ∧ k < c.nStartNodes)) ∧ 0 ≤ c.variance) ∨
    (r.2 = .raised ∧ r.1.dead = true) := by
  intro r
  cases hd : s.dead with
  | true => right; right; simp [r, periodicStep, hd]
  | false =>
    by_cases hc : t = s.next ∧ s.numExec < c.maxExecutions
    · by_cases hv : randintOk c.variance = true
      · have hv' : 0 ≤ c.variance := by simpa [randintOk] using hv
        cases hn : s.startNode with
        | some n =>
          right; left
          exact ⟨n, by simp [r, periodicStep, hd, hc, hv, hn], rfl, hc.1, hc.2, by simp [r, periodicStep, hd, hc, hv, hn],
            by simp [r, periodicStep, hd, hc, hv, hn], by simp [r, periodicStep, hd, hc, hv, hn],
            by simp [r, periodicStep, hd, hc, hv, hn], Or.inl rfl, hv'⟩
        | none =>
          by_cases hk : k < c.nStartNodes
          · right; left
            exact ⟨k, by simp [r, periodicStep, hd, hc, hv, hn, hk], rfl, hc.1, hc.2, by simp [r, periodicStep, hd, hc, hv, hn, hk],
              by simp [r, periodicStep, hd, hc, hv, hn, hk], by simp [r, periodicStep, hd, hc, hv, hn, hk],
              by simp [r, periodicStep, hd, hc, hv, hn, hk], Or.inr ⟨rfl, rfl, hk⟩, hv'⟩
          · right; right
            simp [r, periodicStep, hd, hc, hv, hn, hk]
      · right; right
        simp [r, periodicStep, hd, hc, hv]
    · left
      simp [r, periodicStep, hd, hc]

/-- A dead agent never executes again. -/
theorem periodic_dead_run (c : PeriodicCfg) :
    ∀ (ins : List PIn) (s : PeriodicState) (t : Int), s.dead = true →
      execTimes t (runFrom (periodicStep c) s t ins) = [] := by
  intro ins
  induction ins with
  | nil => intro s t _; rfl
  | cons i is ih =>
    intro s t hd
    have : periodicStep c s t i.d i.k = (s, .raised) := by simp [periodicStep, hd]
    simp only [runFrom, this, execTimes]
    exact ih s (t + 1) hd

/-- Draws lie in the range the code asks `randint` for. -/
def DrawsIn (v : Int) (ins : List PIn) : Prop := ∀ i ∈ ins, -v ≤ i.d ∧ i.d ≤ v

/-- Invariant-carrying form of the schedule theorem, from an arbitrary state and timestep. -/
theorem periodic_run_from (c : PeriodicCfg) :
    ∀ (ins : List PIn) (s : PeriodicState) (t : Int), DrawsIn c.variance ins →
      let L := execTimes t (runFrom (periodicStep c) s t ins)
      (∀ x ∈ L, t ≤ x) ∧ (L = [] ∨ ∃ rest, L = s.next :: rest) ∧
      GapsIn (c.frequency - c.variance) (c.frequency + c.variance) L ∧
      ((L.length : Int) ≤ max 0 (c.maxExecutions - s.numExec)) := by
  intro ins
  induction ins with
  | nil => intro s t _; simp [runFrom, execTimes, GapsIn]; omega
  | cons i is ih =>
    intro s t hdr
    have hdr' : DrawsIn c.variance is := fun j hj => hdr j (List.mem_cons_of_mem i hj)
    have hi := hdr i List.mem_cons_self
    rcases periodicStep_tri c s t i.d i.k with ⟨he, hs, _, hnc⟩ | ⟨n, he, _, htn, hlt, hnext, hnum, _, _, _, _⟩ | ⟨he, hdead⟩
    · -- idle
      simp only [runFrom, he, hs, execTimes]
      obtain ⟨h1, h2, h3, h4⟩ := ih s (t + 1) hdr'
      refine ⟨fun x hx => by have := h1 x hx; omega, h2, h3, h4⟩
    · -- execute at t = s.next
      simp only [runFrom, he, execTimes]
      obtain ⟨h1, h2, h3, h4⟩ := ih (periodicStep c s t i.d i.k).1 (t + 1) hdr'
      refine ⟨?_, Or.inr ⟨_, by rw [htn]⟩, ?_, ?_⟩
      · intro x hx
        rcases List.mem_cons.mp hx with rfl | hx
        · exact Int.le_refl _
        · have := h1 x hx; omega
      · rcases h2 with hnil | ⟨rest, hrest⟩
        · rw [hnil]; simp [GapsIn]
        · rw [hrest] at h3 ⊢
          refine ⟨?_, h3⟩
          rw [hnext]; constructor <;> omega
      · simp only [List.length_cons]
        rw [hnum] at h4
        omega
    · -- raised
      simp only [runFrom, he, execTimes]
      rw [periodic_dead_run c is _ (t + 1) hdead]
      simp [GapsIn]
      omega

/-- **Schedule of the periodic agent**, for every configuration the validator accepts, every start draw in
`[-start_variance, start_variance]`, every sequence of later draws in `[-variance, variance]` and every run length:
nothing happens before `start_step − start_variance`; the first action, if any, is exactly at `start_step + d0`
(hence within `start_step ± start_variance`); consecutive actions are `frequency + d` apart, i.e. within
`frequency ± variance`; and there are at most `max_executions` of them. -/
theorem C19_periodic_schedule (c : PeriodicCfg) (d0 : Int) (s0 : PeriodicState) (ins : List PIn)
    (h0 : periodicInit c d0 = some s0)
    (hd0 : -c.startVariance ≤ d0 ∧ d0 ≤ c.startVariance) (hins : DrawsIn c.variance ins) :
    let L := execTimes 0 (runFrom (periodicStep c) s0 0 ins)
    (∀ x ∈ L, c.startStep - c.startVariance ≤ x) ∧
    (L = [] ∨ ∃ rest, L = (c.startStep + d0) :: rest) ∧
    (∀ x, L.head? = some x → c.startStep - c.startVariance ≤ x ∧ x ≤ c.startStep + c.startVariance) ∧
    GapsIn (c.frequency - c.variance) (c.frequency + c.variance) L ∧
    (L.length : Int) ≤ max 0 c.maxExecutions := by
  have hs : s0.next = c.startStep + d0 ∧ s0.numExec = 0 := by
    unfold periodicInit at h0
    split at h0
    · cases h0; exact ⟨rfl, rfl⟩
    · cases h0
  obtain ⟨h1, h2, h3, h4⟩ := periodic_run_from c ins s0 0 hins
  rw [hs.1] at h2
  rw [hs.2] at h4
  have hfirst : ∀ x, (execTimes 0 (runFrom (periodicStep c) s0 0 ins)).head? = some x → x = c.startStep + d0 := by
    intro x hx
    rcases h2 with hnil | ⟨rest, hrest⟩
    · rw [hnil] at hx; cases hx
    · rw [hrest] at hx; simp at hx; exact hx.symm
  refine ⟨?_, h2, ?_, h3, by simpa using h4⟩
  · -- every action time is ≥ the first one (gaps are positive because variance < frequency)
    have hpos : 0 < c.frequency - c.variance := by
      unfold periodicInit at h0
      split at h0
      · rename_i hv; have := hv.1; simp [PeriodicCfg.valid] at this; omega
      · cases h0
    rcases h2 with hnil | ⟨rest, hrest⟩
    · rw [hnil]; simp
    · rw [hrest] at h3 ⊢
      have : ∀ (l : List Int) (a : Int), GapsIn (c.frequency - c.variance) (c.frequency + c.variance) (a :: l) →
          ∀ x ∈ a :: l, a ≤ x := by
        intro l
        induction l with
        | nil => intro a _ x hx; simp at hx; omega
        | cons b l ihl =>
          intro a hg x hx
          rcases List.mem_cons.mp hx with rfl | hx
          · exact Int.le_refl _
          · have := ihl b hg.2 x hx
            have := hg.1.1
            omega
      intro x hx
      have := this rest _ h3 x hx
      omega
  · intro x hx
    have := hfirst x hx
    omega

/-- Non-vacuity: start 3, start variance 1 (draw −1), frequency 4, variance 2, at most 3 executions: the agent acts at
steps 2, 5, 7 and then never again. -/
example :
    let c : PeriodicCfg := { startStep := 3, startVariance := 1, frequency := 4, variance := 2, maxExecutions := 3, nodes := ["n0", "n1"] }
    ∃ s0, periodicInit c (-1) = some s0 ∧
      execTimes 0 (runFrom (periodicStep c) s0 0
        ((List.range 20).map fun j => ({ d := if j = 2 then -1 else if j = 5 then -2 else 0, k := 1 } : PIn))) = [2, 5, 7] := by
  refine ⟨_, rfl, ?_⟩
  decide

/-- What the action theorem needs from a step function (both `periodicStep` and `dmStep` provide it). -/
def NodeTri (c : PeriodicCfg) (step : PeriodicState → Int → Int → Nat → PeriodicState × PeriodicOut) : Prop :=
  (∀ s t d k, s.dead = true → step s t d k = (s, .raised)) ∧
  ∀ s t d k, let r := step s t d k
    (r.2 = .doNothing ∧ r.1 = s) ∨
    (∃ n, r.2 = .execute n ∧ r.1.startNode = some n ∧
      (s.startNode = some n ∨ (s.startNode = none ∧ n = k ∧ k < c.nStartNodes))) ∨
    (r.2 = .raised ∧ r.1.dead = true)

theorem nodeTri_periodic (c : PeriodicCfg) : NodeTri c (periodicStep c) := by
  refine ⟨fun s t d k hd => by simp [periodicStep, hd], fun s t d k => ?_⟩
  rcases periodicStep_tri c s t d k with ⟨he, hs, _, _⟩ | ⟨n, he, _, _, _, _, _, _, hsn, hfrom, _⟩ | ⟨he, hdead⟩
  · exact Or.inl ⟨he, hs⟩
  · exact Or.inr (Or.inl ⟨n, he, hsn, hfrom⟩)
  · exact Or.inr (Or.inr ⟨he, hdead⟩)

/-- Generic action theorem: every `execute` of a run names a node of `possible_start_nodes`, and always the same one. -/
theorem action_node_generic (c : PeriodicCfg) (step : PeriodicState → Int → Int → Nat → PeriodicState × PeriodicOut)
    (H : NodeTri c step) :
    ∀ (ins : List PIn) (s : PeriodicState) (t : Int),
      (∀ m, s.startNode = some m → m < c.nStartNodes) →
      ∀ n, .execute n ∈ runFrom step s t ins →
        n < c.nStartNodes ∧ (∀ m, s.startNode = some m → n = m) ∧
        ∀ n', .execute n' ∈ runFrom step s t ins → n' = n := by
  obtain ⟨Hdead, Htri⟩ := H
  have hnone : ∀ (js : List PIn) (s : PeriodicState) (t : Int), s.dead = true →
      ∀ x, PeriodicOut.execute x ∉ runFrom step s t js := by
    intro js
    induction js with
    | nil => intro s t _ x h; simp [runFrom] at h
    | cons j js ihj =>
      intro s t hd x h
      simp only [runFrom, Hdead s t j.d j.k hd, List.mem_cons, reduceCtorEq, false_or] at h
      exact ihj s (t + 1) hd x h
  intro ins
  induction ins with
  | nil => intro s t _ n h; simp [runFrom] at h
  | cons i is ih =>
    intro s t hwf n hmem
    rcases Htri s t i.d i.k with ⟨he, hs⟩ | ⟨n0, he, hsn, hfrom⟩ | ⟨he, hdead⟩
    · simp only [runFrom, he, hs, List.mem_cons, reduceCtorEq, false_or] at hmem ⊢
      exact ih s (t + 1) hwf n hmem
    · have hn0 : n0 < c.nStartNodes := by
        rcases hfrom with h | ⟨_, rfl, hk⟩
        · exact hwf n0 h
        · exact hk
      have hwf' : ∀ m, (step s t i.d i.k).1.startNode = some m → m < c.nStartNodes := by
        intro m hm; rw [hsn] at hm; cases hm; exact hn0
      have hall : ∀ x, .execute x ∈ runFrom step (step s t i.d i.k).1 (t + 1) is → x = n0 := by
        intro x hx
        exact ((ih _ (t + 1) hwf' x hx).2.1 n0 hsn)
      have hs_same : ∀ m, s.startNode = some m → n0 = m := by
        intro m hm
        rcases hfrom with h | ⟨hnone', _, _⟩
        · rw [h] at hm; cases hm; rfl
        · rw [hnone'] at hm; cases hm
      simp only [runFrom, he, List.mem_cons, PeriodicOut.execute.injEq] at hmem ⊢
      have hn : n = n0 := by
        rcases hmem with h | h
        · exact h
        · exact hall n h
      subst hn
      refine ⟨hn0, hs_same, ?_⟩
      intro n' hn'
      rcases hn' with h | h
      · exact h
      · exact hall n' h
    · simp only [runFrom, he, List.mem_cons, reduceCtorEq, false_or] at hmem
      exact absurd hmem (hnone is _ (t + 1) hdead n)

/-- **Action of the periodic agent**: every action is `node-application-execute` of the configured application
(the only non-idle output of the model) on a node of `possible_start_nodes`, and always the same node. -/
theorem C19_periodic_action_node (c : PeriodicCfg) (d0 : Int) (s0 : PeriodicState) (ins : List PIn)
    (h0 : periodicInit c d0 = some s0) (n : Nat) (h : .execute n ∈ runFrom (periodicStep c) s0 0 ins) :
    n < c.nStartNodes ∧ ∀ n', .execute n' ∈ runFrom (periodicStep c) s0 0 ins → n' = n := by
  have hs : s0.startNode = none := by
    unfold periodicInit at h0
    split at h0
    · cases h0; rfl
    · cases h0
  have := action_node_generic c _ (nodeTri_periodic c) ins s0 0 (by intro m hm; rw [hs] at hm; cases hm) n h
  exact ⟨this.1, this.2.2⟩

/-! ## 4. DataManipulationAgent: threshold schedule -/

theorem dmStep_tri (c : PeriodicCfg) (s : PeriodicState) (t d : Int) (k : Nat) :
    let r := dmStep c s t d k
    (r.2 = .doNothing ∧ r.1 = s ∧ s.dead = false ∧ t < s.next) ∨
    (∃ n, r.2 = .execute n ∧ s.dead = false ∧ s.next ≤ t ∧
        r.1.next = t + c.frequency + d ∧ r.1.dead = false ∧ r.1.startNode = some n ∧
        (s.startNode = some n ∨ (s.startNode = none ∧ n = k ∧ k < c.nStartNodes)) ∧ 0 ≤ c.variance) ∨
    (r.2 = .raised ∧ r.1.dead = true) := by
  intro r
  cases hd : s.dead with
  | true => right; right; simp [r, dmStep, hd]
  | false =>
    by_cases hc : t < s.next
    · left; simp [r, dmStep, hd, hc]
    · have hc' : s.next ≤ t := by omega
      by_cases hv : randintOk c.variance = true
      · have hv' : 0 ≤ c.variance := by simpa [randintOk] using hv
        cases hn : s.startNode with
        | some n =>
          right; left
          exact ⟨n, by simp [r, dmStep, hd, hc, hv, hn], rfl, hc', by simp [r, dmStep, hd, hc, hv, hn],
            by simp [r, dmStep, hd, hc, hv, hn], by simp [r, dmStep, hd, hc, hv, hn], Or.inl rfl, hv'⟩
        | none =>
          by_cases hk : k < c.nStartNodes
          · right; left
            exact ⟨k, by simp [r, dmStep, hd, hc, hv, hn, hk], rfl, hc', by simp [r, dmStep, hd, hc, hv, hn, hk],
              by simp [r, dmStep, hd, hc, hv, hn, hk], by simp [r, dmStep, hd, hc, hv, hn, hk], Or.inr ⟨rfl, rfl, hk⟩, hv'⟩
          · right; right
            simp [r, dmStep, hd, hc, hv, hn, hk]
      · right; right
        simp [r, dmStep, hd, hc, hv]

theorem nodeTri_dm (c : PeriodicCfg) : NodeTri c (dmStep c) := by
  refine ⟨fun s t d k hd => by simp [dmStep, hd], fun s t d k => ?_⟩
  rcases dmStep_tri c s t d k with ⟨he, hs, _, _⟩ | ⟨n, he, _, _, _, _, hsn, hfrom, _⟩ | ⟨he, hdead⟩
  · exact Or.inl ⟨he, hs⟩
  · exact Or.inr (Or.inl ⟨n, he, hsn, hfrom⟩)
  · exact Or.inr (Or.inr ⟨he, hdead⟩)

theorem dm_dead_run (c : PeriodicCfg) :
    ∀ (ins : List PIn) (s : PeriodicState) (t : Int), s.dead = true →
      execTimes t (runFrom (dmStep c) s t ins) = [] := by
  intro ins
  induction ins with
  | nil => intro s t _; rfl
  | cons i is ih =>
    intro s t hd
    have : dmStep c s t i.d i.k = (s, .raised) := by simp [dmStep, hd]
    simp only [runFrom, this, execTimes]
    exact ih s (t + 1) hd

theorem dm_run_from (c : PeriodicCfg) (hv : c.variance < c.frequency) :
    ∀ (ins : List PIn) (s : PeriodicState) (t : Int), DrawsIn c.variance ins →
      let L := execTimes t (runFrom (dmStep c) s t ins)
      (L = [] ∨ ∃ rest, L = max t s.next :: rest) ∧
      GapsIn (c.frequency - c.variance) (c.frequency + c.variance) L := by
  intro ins
  induction ins with
  | nil => intro s t _; simp [runFrom, execTimes, GapsIn]
  | cons i is ih =>
    intro s t hdr
    have hdr' : DrawsIn c.variance is := fun j hj => hdr j (List.mem_cons_of_mem i hj)
    have hi := hdr i List.mem_cons_self
    rcases dmStep_tri c s t i.d i.k with ⟨he, hs, _, hlt⟩ | ⟨n, he, _, hle, hnext, _, _, _, _⟩ | ⟨he, hdead⟩
    · simp only [runFrom, he, hs, execTimes]
      obtain ⟨h2, h3⟩ := ih s (t + 1) hdr'
      refine ⟨?_, h3⟩
      have e : max (t + 1) s.next = max t s.next := by omega
      rw [← e]; exact h2
    · simp only [runFrom, he, execTimes]
      obtain ⟨h2, h3⟩ := ih (dmStep c s t i.d i.k).1 (t + 1) hdr'
      have e : max t s.next = t := by omega
      refine ⟨Or.inr ⟨_, by rw [e]⟩, ?_⟩
      rcases h2 with hnil | ⟨rest, hrest⟩
      · rw [hnil]; simp [GapsIn]
      · rw [hrest] at h3 ⊢
        refine ⟨?_, h3⟩
        rw [hnext]
        have e2 : max (t + 1) (t + c.frequency + i.d) = t + c.frequency + i.d := by omega
        rw [e2]; constructor <;> omega
    · simp only [runFrom, he, execTimes]
      rw [dm_dead_run c is _ (t + 1) hdead]
      simp [GapsIn]

/-- **Schedule of the data-manipulation agent**: the first action is at `max 0 start_step` — exactly `start_step`,
the start variance is drawn and then discarded — and afterwards the gaps are `frequency + d ∈ frequency ± variance`.
(There is no count bound: this agent never reads `max_executions`.) -/
theorem C19_dm_schedule (c : PeriodicCfg) (s0 : PeriodicState) (ins : List PIn)
    (h0 : dmInit c = some s0) (hins : DrawsIn c.variance ins) :
    let L := execTimes 0 (runFrom (dmStep c) s0 0 ins)
    (L = [] ∨ ∃ rest, L = max 0 c.startStep :: rest) ∧
    (0 ≤ c.startStep → ∀ x, L.head? = some x →
        c.startStep - c.startVariance ≤ x ∧ x ≤ c.startStep + c.startVariance) ∧
    GapsIn (c.frequency - c.variance) (c.frequency + c.variance) L := by
  have hs : s0.next = c.startStep ∧ c.variance < c.frequency ∧ 0 ≤ c.startVariance := by
    unfold dmInit at h0
    split at h0
    · rename_i hv; cases h0
      refine ⟨rfl, by simpa [PeriodicCfg.valid] using hv.1, by simpa [randintOk] using hv.2⟩
    · cases h0
  obtain ⟨h2, h3⟩ := dm_run_from c hs.2.1 ins s0 0 hins
  rw [hs.1] at h2
  refine ⟨h2, ?_, h3⟩
  intro hstart x hx
  rcases h2 with hnil | ⟨rest, hrest⟩
  · rw [hnil] at hx; cases hx
  · rw [hrest] at hx
    simp at hx
    have := hs.2.2
    omega

/-- Every action of the data-manipulation agent is an execute of the configured application on one fixed node of
`possible_start_nodes`. -/
theorem C19_dm_action_node (c : PeriodicCfg) (s0 : PeriodicState) (ins : List PIn)
    (h0 : dmInit c = some s0) (n : Nat) (h : .execute n ∈ runFrom (dmStep c) s0 0 ins) :
    n < c.nStartNodes ∧ ∀ n', .execute n' ∈ runFrom (dmStep c) s0 0 ins → n' = n := by
  have hs : s0.startNode = none := by
    unfold dmInit at h0
    split at h0
    · cases h0; rfl
    · cases h0
  have := action_node_generic c _ (nodeTri_dm c) ins s0 0 (by intro m hm; rw [hs] at hm; cases hm) n h
  exact ⟨this.1, this.2.2⟩

/-- Non-vacuity: start 2 (start variance 3 ignored), frequency 3, variance 1. -/
example :
    let c : PeriodicCfg := { startStep := 2, startVariance := 3, frequency := 3, variance := 1, maxExecutions := 1, nodes := ["n0"] }
    ∃ s0, dmInit c = some s0 ∧
      execTimes 0 (runFrom (dmStep c) s0 0
        ((List.range 12).map fun j => ({ d := if j = 2 then 1 else -1, k := 0 } : PIn))) = [2, 6, 8, 10] := by
  refine ⟨_, rfl, ?_⟩
  decide

/-! ## 5. TAP001: the kill chain is walked in order -/
namespace Tap1

/-- Successor in the kill chain: `DOWNLOAD → INSTALL → ACTIVATE → PROPAGATE → COMMAND_AND_CONTROL → PAYLOAD → SUCCEEDED`,
`NOT_STARTED →` first stage, `SUCCEEDED → NOT_STARTED`. -/
def Stage.succ : Stage → Stage
  | .download => .install | .install => .activate | .activate => .propagate | .propagate => .c2
  | .c2 => .payload | .payload => .succeeded | .notStarted => .download | .succeeded => .notStarted | .failed => .failed

def Stage.chain : Stage → Bool
  | .download | .install | .activate | .propagate | .c2 | .payload => true
  | _ => false

/-- `next_kill_chain_stage` is the successor of `current_kill_chain_stage` (nothing is claimed once FAILED). -/
def Inv (s : St) : Prop := s.cur = .failed ∨ s.nxt = s.cur.succ

/-- What one tick may do to `current_kill_chain_stage`. -/
def Allowed (c : Cfg) (a b : Stage) : Prop :=
  b = a ∨ (a.chain = true ∧ b = a.succ) ∨ b = .failed ∨ (a = .notStarted ∧ b = .download) ∨
  (c.repeatKillChain = true ∧ (a = .succeeded ∨ a = .failed) ∧ (b = .notStarted ∨ b = .download)) ∨
  (c.repeatKillChain = true ∧ c.repeatStages = false ∧ b = .notStarted)

/-- Result of the body of stage `x`: stay, advance to the successor, or fail. -/
def Res (x : Stage) (s : St) : Prop :=
  (s.cur = x ∧ s.nxt = x.succ) ∨ (s.cur = x.succ ∧ s.nxt = x.succ.succ) ∨ s.cur = .failed

theorem progress_spec (s : St) (x : Stage) (hx : x.chain = true) (hn : s.nxt = x.succ)
    (hc : s.cur = x ∨ (s.cur = .failed ∧ x ≠ .c2)) :
    (progress s).cur = x.succ ∧ (progress s).nxt = x.succ.succ ∧ (progress s).err = s.err := by
  cases x <;> simp [Stage.chain] at hx <;> rcases hc with hc | ⟨hc, hne⟩ <;>
    simp_all [progress, Stage.succ, Stage.ofVal?, Stage.all, Stage.val]

/-- `f` leaves `nxt` alone and either leaves `cur` alone or sets it to FAILED. -/
def Soft (f : St → St) : Prop := ∀ s, ((f s).cur = s.cur ∨ (f s).cur = .failed) ∧ (f s).nxt = s.nxt

theorem Soft.comp {f g : St → St} (hf : Soft f) (hg : Soft g) : Soft (fun s => g (f s)) := by
  intro s
  obtain ⟨h1, h2⟩ := hf s
  obtain ⟨h3, h4⟩ := hg (f s)
  refine ⟨?_, by rw [h4, h2]⟩
  rcases h3 with h3 | h3
  · rcases h1 with h1 | h1
    · exact Or.inl (by rw [h3, h1])
    · exact Or.inr (by rw [h3, h1])
  · exact Or.inr h3

theorem soft_failStage (c : Cfg) : Soft (failStage c) := by
  intro s; unfold failStage; split <;> simp

theorem soft_setNext (c : Cfg) (b d : Int) : Soft (fun s => setNext c s b d) := by
  intro s; simp only [setNext, St.raise]; split <;> simp

theorem soft_payloadContinue : Soft payloadContinue := by
  intro s; unfold payloadContinue payloadHandler; repeat' split
  all_goals simp

theorem soft_payloadEnter (c : Cfg) (i : In) : Soft (payloadEnter c i) := by
  intro s; unfold payloadEnter
  split
  · split
    · simp
    · exact soft_failStage c _
  · simp

theorem soft_updateNextScanTarget (c : Cfg) (i : In) (e : Bool) : Soft (updateNextScanTarget c i e) := by
  intro s; unfold updateNextScanTarget; repeat' split
  all_goals simp

theorem soft_scanResponseHandler (c : Cfg) (i : In) (r : Resp) : Soft (scanResponseHandler c i r) := by
  intro s; unfold scanResponseHandler
  split
  · split <;> simp
  · split
    · simp
    · exact soft_updateNextScanTarget c i _ _

theorem soft_scanMark (prev : Hist) : Soft (scanMark prev) := by
  intro s; unfold scanMark; split <;> simp

theorem soft_scanAbsorb (c : Cfg) (i : In) (prev : Hist) : Soft (scanAbsorb c i prev) := by
  intro s; unfold scanAbsorb; split
  · exact soft_scanResponseHandler c i _ s
  · simp

theorem soft_scanLogic : Soft (fun s => (scanLogic s).1) := by
  intro s; simp only [scanLogic]; repeat' split
  all_goals simp

theorem soft_scanAction (ty : ScanType) : Soft (scanAction ty) := by
  intro s; unfold scanAction; split <;> simp

theorem soft_scanProgress : Soft (fun s => (scanProgress s).1) := by
  intro s; simp only [scanProgress]; repeat' split
  all_goals simp

theorem soft_scanDecide (c : Cfg) : Soft (fun s => (scanDecide c s).1) := by
  intro s
  simp only [scanDecide]
  split
  · exact soft_failStage c _
  · exact (Soft.comp soft_scanLogic (Soft.comp (soft_scanAction (scanLogic s).2) soft_scanProgress)) s

theorem soft_scanHandler (c : Cfg) (i : In) : Soft (fun s => (scanHandler c i s).1) := by
  intro s
  simp only [scanHandler]
  split
  · simp [St.raise]
  · split
    · simp [St.raise]
    · rename_i prev _
      have := (Soft.comp (soft_scanMark prev) (Soft.comp (soft_scanAbsorb c i prev) (soft_scanDecide c)))
        { s with lastScanTs := s.lastScanTs.dropLast ++ [s.curT] }
      simpa using this

theorem soft_propagatePrep (c : Cfg) : Soft (propagatePrep c) := by
  intro s; unfold propagatePrep propagateReset; repeat' split
  all_goals simp [St.raise]

theorem soft_propagateFirstScan : Soft propagateFirstScan := by
  intro s; simp [propagateFirstScan]

theorem soft_downloadAct : Soft downloadAct := by
  intro s; unfold downloadAct; repeat' split
  all_goals simp

/-- After a soft prefix, `progressIfFinished` yields a `Res`. -/
theorem res_of_soft (x : Stage) (hx : x.chain = true) (hne : x ≠ .c2) (s' s : St)
    (hs : (s'.cur = s.cur ∨ s'.cur = .failed) ∧ s'.nxt = s.nxt) (h : s.cur = x) (hn : s.nxt = x.succ) :
    Res x (progressIfFinished s') := by
  unfold progressIfFinished
  have hn' : s'.nxt = x.succ := by rw [hs.2, hn]
  split
  · have hc : s'.cur = x ∨ (s'.cur = .failed ∧ x ≠ .c2) := by
      rcases hs.1 with h1 | h1
      · exact Or.inl (by rw [h1, h])
      · exact Or.inr ⟨h1, hne⟩
    have := progress_spec s' x hx hn' hc
    exact Or.inr (Or.inl ⟨this.1, this.2.1⟩)
  · rcases hs.1 with h1 | h1
    · exact Or.inl ⟨by rw [h1, h], hn'⟩
    · exact Or.inr (Or.inr h1)

theorem res_of_soft_noprogress (x : Stage) (s' s : St)
    (hs : (s'.cur = s.cur ∨ s'.cur = .failed) ∧ s'.nxt = s.nxt) (h : s.cur = x) (hn : s.nxt = x.succ) :
    Res x s' := by
  rcases hs.1 with h1 | h1
  · exact Or.inl ⟨by rw [h1, h], by rw [hs.2, hn]⟩
  · exact Or.inr (Or.inr h1)

/-! skip / fire lemmas of the seven stage methods -/

theorem payload_skip (c : Cfg) (i : In) (s : St) (h : s.cur ≠ .payload) : payload c i s = s := by simp [payload, h]
theorem c2c_skip (c : Cfg) (i : In) (s : St) (h : s.cur ≠ .c2) : c2c c i s = s := by simp [c2c, h]
theorem propagate_skip (c : Cfg) (i : In) (s : St) (h : s.cur ≠ .propagate) : propagate c i s = s := by simp [propagate, h]
theorem activate_skip (s : St) (h : s.cur ≠ .activate) : activate s = s := by simp [activate, h]
theorem install_skip (s : St) (h : s.cur ≠ .install) : install s = s := by simp [install, h]
theorem download_skip (s : St) (h : s.cur ≠ .download) : download s = s := by simp [download, h]
theorem tapStart_skip (s : St) (h : s.cur ≠ .notStarted) : tapStart s = s := by simp [tapStart, h]

theorem payload_fire (c : Cfg) (i : In) (s : St) (h : s.cur = .payload) (hn : s.nxt = Stage.succ .payload) :
    Res .payload (payload c i s) := by
  unfold payload
  rw [if_neg (by simp [h])]
  exact res_of_soft .payload rfl (by decide) _ s
    ((Soft.comp soft_payloadContinue (soft_payloadEnter c i)) s) h hn

theorem c2c_fire (c : Cfg) (i : In) (s : St) (h : s.cur = .c2) (hn : s.nxt = Stage.succ .c2) :
    Res .c2 (c2c c i s) := by
  unfold c2c
  rw [if_neg (by simp [h])]
  split
  · split
    · exact Or.inl ⟨h, hn⟩
    · exact res_of_soft_noprogress .c2 _ s
        ((Soft.comp (fun s => by simp : Soft (fun s => { s with chosen := Act.nothing })) (soft_failStage c)) s) h hn
  · split
    · split
      · exact Or.inl ⟨h, hn⟩
      · have := progress_spec { s with chosen := { kind := .executeC2, node := s.host } } .c2 rfl hn (Or.inl h)
        exact Or.inr (Or.inl ⟨this.1, this.2.1⟩)
    · exact Or.inl ⟨h, hn⟩

theorem propagate_fire (c : Cfg) (i : In) (s : St) (h : s.cur = .propagate) (hn : s.nxt = Stage.succ .propagate) :
    Res .propagate (propagate c i s) := by
  unfold propagate
  rw [if_neg (by simp [h])]
  split
  · refine res_of_soft .propagate rfl (by decide) _ s ?_ h hn
    have := soft_scanHandler c i s
    simpa using this
  · split
    · exact res_of_soft_noprogress .propagate _ s ((Soft.comp (soft_propagatePrep c) soft_propagateFirstScan) s) h hn
    · exact res_of_soft_noprogress .propagate _ s
        ((Soft.comp (fun s => by simp : Soft (fun s => { s with chosen := Act.nothing })) (soft_failStage c)) s) h hn

theorem activate_fire (s : St) (h : s.cur = .activate) (hn : s.nxt = Stage.succ .activate) : Res .activate (activate s) := by
  unfold activate
  rw [if_neg (by simp [h])]
  have := progress_spec { s with host := s.startNode, prog := .finished, chosen := { kind := .installRansomware, node := s.startNode } }
    .activate rfl hn (Or.inl h)
  exact Or.inr (Or.inl ⟨this.1, this.2.1⟩)

theorem install_fire (s : St) (h : s.cur = .install) (hn : s.nxt = Stage.succ .install) : Res .install (install s) := by
  unfold install
  rw [if_neg (by simp [h])]
  have := progress_spec { s with host := s.startNode, chosen := { kind := .fileAccess, node := s.startNode } } .install rfl hn (Or.inl h)
  exact Or.inr (Or.inl ⟨this.1, this.2.1⟩)

theorem download_fire (s : St) (h : s.cur = .download) (hn : s.nxt = Stage.succ .download) : Res .download (download s) := by
  unfold download
  rw [if_neg (by simp [h])]
  exact res_of_soft .download rfl (by decide) _ s (soft_downloadAct s) h hn

theorem tapStart_fire (s : St) (h : s.cur = .notStarted) :
    (tapStart s).cur = .download ∧ (tapStart s).nxt = .install := by
  simp [tapStart, h, Stage.ofVal?, Stage.all, Stage.val]

/-! composition of the stage methods in the order `get_action` calls them -/

def rank : Stage → Nat
  | .notStarted => 0 | .download => 1 | .install => 2 | .activate => 3 | .propagate => 4 | .c2 => 5 | .payload => 6
  | .succeeded => 7 | .failed => 7

def bodyAt (c : Cfg) (i : In) : Nat → St → St
  | 0 => tapStart | 1 => download | 2 => install | 3 => activate | 4 => propagate c i | 5 => c2c c i | 6 => payload c i
  | _ => id

def applyDown (c : Cfg) (i : In) : Nat → St → St
  | 0, s => bodyAt c i 0 s
  | r + 1, s => applyDown c i r (bodyAt c i (r + 1) s)

/-- `get_action` calls the stage methods from the last stage down to `_tap_start`. -/
theorem bodies_eq (c : Cfg) (i : In) (s : St) : bodies c i s = applyDown c i 6 s := rfl

theorem bodyAt_skip (c : Cfg) (i : In) (r : Nat) (s : St) (h : rank s.cur ≠ r) : bodyAt c i r s = s := by
  match r with
  | 0 => exact tapStart_skip s (by intro hc; simp [hc, rank] at h)
  | 1 => exact download_skip s (by intro hc; simp [hc, rank] at h)
  | 2 => exact install_skip s (by intro hc; simp [hc, rank] at h)
  | 3 => exact activate_skip s (by intro hc; simp [hc, rank] at h)
  | 4 => exact propagate_skip c i s (by intro hc; simp [hc, rank] at h)
  | 5 => exact c2c_skip c i s (by intro hc; simp [hc, rank] at h)
  | 6 => exact payload_skip c i s (by intro hc; simp [hc, rank] at h)
  | _ + 7 => rfl

theorem applyDown_skip (c : Cfg) (i : In) : ∀ (r : Nat) (s : St), r < rank s.cur → applyDown c i r s = s := by
  intro r
  induction r with
  | zero => intro s h; exact bodyAt_skip c i 0 s (by omega)
  | succ r ih =>
    intro s h
    simp only [applyDown]
    rw [bodyAt_skip c i (r + 1) s (by omega)]
    exact ih s (by omega)

theorem applyDown_reach (c : Cfg) (i : In) (s : St) :
    ∀ (r : Nat), rank s.cur ≤ r → applyDown c i r s = applyDown c i (rank s.cur) s := by
  intro r
  induction r with
  | zero => intro h; have : rank s.cur = 0 := by omega
            rw [this]
  | succ r ih =>
    intro h
    rcases Nat.lt_or_ge (rank s.cur) (r + 1) with hlt | hge
    · simp only [applyDown]
      rw [bodyAt_skip c i (r + 1) s (by omega)]
      exact ih (by omega)
    · have : rank s.cur = r + 1 := by omega
      rw [this]

theorem bodyAt_fire (c : Cfg) (i : In) (x : Stage) (hx : x.chain = true) (s : St) (h : s.cur = x) (hn : s.nxt = x.succ) :
    Res x (bodyAt c i (rank x) s) := by
  cases x <;> simp [Stage.chain] at hx
  · exact download_fire s h hn
  · exact install_fire s h hn
  · exact activate_fire s h hn
  · exact propagate_fire c i s h hn
  · exact c2c_fire c i s h hn
  · exact payload_fire c i s h hn

theorem res_rank (x : Stage) (hx : x.chain = true) (s : St) (h : Res x s) : rank x ≤ rank s.cur := by
  rcases h with ⟨h, _⟩ | ⟨h, _⟩ | h <;> rw [h] <;> cases x <;> simp_all [Stage.chain, rank, Stage.succ]

/-- From a kill-chain stage `x` the stage methods together stay, advance to the successor of `x`, or fail. -/
theorem bodies_chain (c : Cfg) (i : In) (x : Stage) (hx : x.chain = true) (s : St) (h : s.cur = x) (hn : s.nxt = x.succ) :
    Res x (bodies c i s) := by
  have hr : 1 ≤ rank x ∧ rank x ≤ 6 := by cases x <;> simp_all [Stage.chain, rank]
  rw [bodies_eq, applyDown_reach c i s 6 (by rw [h]; exact hr.2), h]
  obtain ⟨k, hk⟩ : ∃ k, rank x = k + 1 := ⟨rank x - 1, by omega⟩
  have hfire := bodyAt_fire c i x hx s h hn
  have hrk := res_rank x hx _ hfire
  rw [hk] at hfire hrk ⊢
  simp only [applyDown]
  rw [applyDown_skip c i k _ (by omega)]
  exact hfire

theorem bodies_notStarted (c : Cfg) (i : In) (s : St) (h : s.cur = .notStarted) :
    (bodies c i s).cur = .download ∧ (bodies c i s).nxt = .install := by
  rw [bodies_eq, applyDown_reach c i s 6 (by rw [h]; simp [rank]), h]
  exact tapStart_fire s h

theorem bodies_terminal (c : Cfg) (i : In) (s : St) (h : s.cur = .succeeded ∨ s.cur = .failed) : bodies c i s = s := by
  rw [bodies_eq]
  exact applyDown_skip c i 6 s (by rcases h with h | h <;> rw [h] <;> simp [rank])

/-! the whole tick -/

theorem setNext_fields (c : Cfg) (s : St) (b d : Int) :
    (setNext c s b d).cur = s.cur ∧ (setNext c s b d).nxt = s.nxt ∧ (setNext c s b d).concluded = s.concluded := by
  simp only [setNext, St.raise]; split <;> simp

theorem setNext_chosen (c : Cfg) (s : St) (b d : Int) : (setNext c s b d).chosen = s.chosen := by
  simp only [setNext, St.raise]; split <;> rfl

theorem outcome_other (c : Cfg) (s : St) (h1 : s.cur ≠ .succeeded) (h2 : s.cur ≠ .failed) : outcomeHandler c s = s := by
  simp [outcomeHandler, h1, h2]

theorem outcome_terminal (c : Cfg) (s : St) (h : s.cur = .succeeded ∨ s.cur = .failed) (hc : s.concluded = false) :
    (c.repeatKillChain = true → (outcomeHandler c s).cur = .notStarted ∧ (outcomeHandler c s).nxt = .download ∧
        (outcomeHandler c s).concluded = false) ∧
    (c.repeatKillChain = false → (outcomeHandler c s).cur = s.cur ∧ (outcomeHandler c s).nxt = s.nxt ∧
        (outcomeHandler c s).concluded = true) := by
  unfold outcomeHandler
  rw [if_pos h]
  simp only [hc, Bool.false_eq_true, if_false]
  constructor
  · intro hr; simp [hr]
  · intro hr; simp [hr]

theorem passes_returnHandler (c : Cfg) (h : Hist) (s : St) (hp : passes c h (returnHandler c h s) = true)
    (_hs : s.cur ≠ .failed) : returnHandler c h s = s := by
  unfold returnHandler at hp ⊢
  split
  · rename_i hcond
    rw [if_pos hcond] at hp
    simp [passes, hcond.1] at hp
  · rfl

theorem returnHandler_soft (c : Cfg) (h : Hist) : Soft (returnHandler c h) := by
  intro s; unfold returnHandler; split <;> simp

theorem returnHandler_failed_iff (c : Cfg) (h : Hist) (s : St) (hne : (returnHandler c h s).cur ≠ s.cur) :
    (returnHandler c h s).cur = .failed ∧ c.repeatStages = false := by
  unfold returnHandler at hne ⊢
  split
  · rename_i hcond; exact ⟨rfl, by simpa using hcond.2⟩
  · rename_i hcond; rw [if_neg hcond] at hne; exact absurd rfl hne

theorem mainPath_stage (c : Cfg) (s : St) (t : Int) (i : In) (hinv : Inv s) (hcon : s.concluded = false) :
    Allowed c s.cur (mainPath c s t i).cur ∧ Inv (mainPath c s t i) := by
  unfold mainPath
  generalize hs2 : setNext c { s with curT := t } (t + c.frequency) i.d1 = s2
  have h2 : s2.cur = s.cur ∧ s2.nxt = s.nxt ∧ s2.concluded = false := by
    subst hs2
    have := setNext_fields c { s with curT := t } (t + c.frequency) i.d1
    simpa [hcon] using this
  by_cases hterm : s.cur = .succeeded ∨ s.cur = .failed
  · have ht2 : s2.cur = .succeeded ∨ s2.cur = .failed := by rw [h2.1]; exact hterm
    obtain ⟨hrep, hnorep⟩ := outcome_terminal c s2 ht2 h2.2.2
    cases hr : c.repeatKillChain with
    | true =>
      obtain ⟨hc, hn, _⟩ := hrep hr
      obtain ⟨hb1, hb2⟩ := bodies_notStarted c i _ hc
      refine ⟨?_, Or.inr (by rw [hb1, hb2]; rfl)⟩
      rw [hb1]
      exact Or.inr (Or.inr (Or.inr (Or.inr (Or.inl ⟨hr, hterm, Or.inr rfl⟩))))
    | false =>
      obtain ⟨hc, hn, _⟩ := hnorep hr
      have hterm3 : (outcomeHandler c s2).cur = .succeeded ∨ (outcomeHandler c s2).cur = .failed := by rw [hc]; exact ht2
      rw [bodies_terminal c i _ hterm3, hc, h2.1]
      refine ⟨Or.inl rfl, ?_⟩
      unfold Inv
      rw [hc, hn, h2.1, h2.2.1]
      exact hinv
  · have hns : s.cur ≠ .succeeded := fun h => hterm (Or.inl h)
    have hnf : s.cur ≠ .failed := fun h => hterm (Or.inr h)
    rw [outcome_other c s2 (by rw [h2.1]; exact hns) (by rw [h2.1]; exact hnf)]
    have hnx : s2.nxt = s2.cur.succ := by
      rcases hinv with h | h
      · exact absurd h hnf
      · rw [h2.1, h2.2.1]; exact h
    by_cases hch : s.cur.chain = true
    · have hres := bodies_chain c i s.cur hch s2 h2.1 (by rw [hnx, h2.1])
      rcases hres with ⟨hc, hn⟩ | ⟨hc, hn⟩ | hc
      · exact ⟨Or.inl hc, Or.inr (by rw [hc, hn])⟩
      · exact ⟨Or.inr (Or.inl ⟨hch, hc⟩), Or.inr (by rw [hc, hn])⟩
      · exact ⟨Or.inr (Or.inr (Or.inl hc)), Or.inl hc⟩
    · have hnst : s.cur = .notStarted := by
        cases hcur : s.cur <;> simp_all [Stage.chain]
      obtain ⟨hb1, hb2⟩ := bodies_notStarted c i s2 (by rw [h2.1]; exact hnst)
      refine ⟨?_, Or.inr (by rw [hb1, hb2]; rfl)⟩
      rw [hb1]
      exact Or.inr (Or.inr (Or.inr (Or.inl ⟨hnst, rfl⟩)))

theorem failPath_stage (c : Cfg) (h : Hist) (s : St) (t : Int) (i : In) (hinv : Inv s) (hcon : s.concluded = false) :
    Allowed c s.cur (failPath c (returnHandler c h s) t i).cur ∧ Inv (failPath c (returnHandler c h s) t i) := by
  unfold failPath
  generalize hs1 : returnHandler c h s = s1
  have h1 := returnHandler_soft c h s
  rw [hs1] at h1
  have h1c : s1.concluded = false := by
    subst hs1; unfold returnHandler; split <;> simp [hcon]
  generalize hs2 : setNext c s1 (t + c.frequency) i.d1 = s2
  have h2 : s2.cur = s1.cur ∧ s2.nxt = s1.nxt ∧ s2.concluded = false := by
    subst hs2
    have := setNext_fields c s1 (t + c.frequency) i.d1
    simpa [h1c] using this
  generalize hs3 : outcomeHandler c s2 = s3
  have hfin : ∀ (s4 : St), s4 = setNext c { s3 with curT := t } (t + c.frequency) i.d2 →
      s4.cur = s3.cur ∧ s4.nxt = s3.nxt := by
    intro s4 h4
    have := setNext_fields c { s3 with curT := t } (t + c.frequency) i.d2
    rw [h4]; exact ⟨this.1, this.2.1⟩
  obtain ⟨h4c, h4n⟩ := hfin _ rfl
  unfold Inv
  rw [h4c, h4n]
  by_cases hterm : s1.cur = .succeeded ∨ s1.cur = .failed
  · have ht2 : s2.cur = .succeeded ∨ s2.cur = .failed := by rw [h2.1]; exact hterm
    obtain ⟨hrep, hnorep⟩ := outcome_terminal c s2 ht2 h2.2.2
    rw [hs3] at hrep hnorep
    cases hr : c.repeatKillChain with
    | true =>
      obtain ⟨hc, hn, _⟩ := hrep hr
      rw [hc, hn]
      refine ⟨?_, Or.inr rfl⟩
      rcases h1.1 with he | hf
      · rw [he] at hterm
        exact Or.inr (Or.inr (Or.inr (Or.inr (Or.inl ⟨hr, hterm, Or.inl rfl⟩))))
      · by_cases hsame : s1.cur = s.cur
        · rw [hsame] at hterm
          exact Or.inr (Or.inr (Or.inr (Or.inr (Or.inl ⟨hr, hterm, Or.inl rfl⟩))))
        · have := returnHandler_failed_iff c h s (by rw [hs1]; exact hsame)
          exact Or.inr (Or.inr (Or.inr (Or.inr (Or.inr ⟨hr, this.2, rfl⟩))))
    | false =>
      obtain ⟨hc, hn, _⟩ := hnorep hr
      rw [hc, hn, h2.1, h2.2.1]
      rcases h1.1 with he | hf
      · refine ⟨Or.inl he, ?_⟩
        rw [he, h1.2]; exact hinv
      · exact ⟨Or.inr (Or.inr (Or.inl hf)), Or.inl hf⟩
  · have hns : s1.cur ≠ .succeeded := fun h => hterm (Or.inl h)
    have hnf : s1.cur ≠ .failed := fun h => hterm (Or.inr h)
    have : s3 = s2 := by rw [← hs3]; exact outcome_other c s2 (by rw [h2.1]; exact hns) (by rw [h2.1]; exact hnf)
    rw [this, h2.1, h2.2.1]
    rcases h1.1 with he | hf
    · refine ⟨Or.inl he, ?_⟩
      rw [he, h1.2]; exact hinv
    · exact absurd hf hnf

/-- **One call of `TAP001.get_action` moves the stage only as `Allowed` says, and keeps `next = successor of current`.** -/
theorem getAction_stage (c : Cfg) (s : St) (t : Int) (i : In) (hinv : Inv s) :
    Allowed c s.cur (getAction c s t i).1.cur ∧ Inv (getAction c s t i).1 := by
  unfold getAction
  split
  · exact ⟨Or.inl rfl, hinv⟩
  · rename_i hex
    have hcon : s.concluded = false := by
      simp [executes] at hex; exact hex.2
    split
    · exact ⟨Or.inl rfl, hinv⟩
    · rename_i h _
      split
      · rename_i hp
        by_cases hf : s.cur = .failed
        · -- a FAILED agent whose last response passes: the response was a success, the handler is the identity
          have : returnHandler c h s = s := by
            unfold returnHandler at hp ⊢
            split
            · rename_i hcond; rw [if_pos hcond] at hp; simp [passes, hcond.1] at hp
            · rfl
          simp only [this]
          exact mainPath_stage c s t i hinv hcon
        · simp only [passes_returnHandler c h s hp hf]
          exact mainPath_stage c s t i hinv hcon
      · exact failPath_stage c h s t i hinv hcon

theorem C19_tap1_stage_step (c : Cfg) (s : St) (t : Int) (i : In) (hinv : Inv s) :
    Allowed c s.cur (step c s t i).1.cur ∧ Inv (step c s t i).1 := by
  unfold step
  split
  · exact ⟨Or.inl rfl, hinv⟩
  · split
    · exact ⟨Or.inl rfl, hinv⟩
    · have := getAction_stage c s t i hinv
      exact ⟨this.1, this.2⟩

/-! runs: consecutive timesteps from 0, arbitrary draws and responses -/

/-- States after each tick of a run that feeds timesteps `t, t+1, …`. -/
def run (c : Cfg) : St → Int → List In → List St
  | _, _, [] => []
  | s, t, i :: is => (step c s t i).1 :: run c (step c s t i).1 (t + 1) is

/-- Every consecutive pair of sampled stages is related by `R`. -/
def Linked (R : Stage → Stage → Prop) : Stage → List St → Prop
  | _, [] => True
  | a, s :: rest => R a s.cur ∧ Linked R s.cur rest

theorem run_stage (c : Cfg) : ∀ (ins : List In) (s : St) (t : Int), Inv s →
    Linked (Allowed c) s.cur (run c s t ins) ∧ ∀ s' ∈ run c s t ins, Inv s' := by
  intro ins
  induction ins with
  | nil => intro s t _; exact ⟨trivial, by simp [run]⟩
  | cons i is ih =>
    intro s t hinv
    obtain ⟨ha, hi⟩ := C19_tap1_stage_step c s t i hinv
    obtain ⟨h1, h2⟩ := ih _ (t + 1) hi
    refine ⟨⟨ha, h1⟩, ?_⟩
    intro s' hs'
    simp only [run, List.mem_cons] at hs'
    rcases hs' with rfl | hs'
    · exact hi
    · exact h2 s' hs'

/-- **stage_monotone** (TAP001). For every configuration, every schedule/trial/scan draw and every sequence of
simulator responses, the stage sampled after each tick is related to the previous one by `Allowed`: it stays,
moves to the *next* stage of the chain (PAYLOAD's next is SUCCEEDED), becomes FAILED, leaves NOT_STARTED for
DOWNLOAD, or — only with `repeat_kill_chain` — restarts from SUCCEEDED/FAILED. -/
theorem C19_tap1_stage_monotone (c : Cfg) (d0 : Int) (k1 k2 : Nat) (s0 : St) (ins : List In) (h0 : init c d0 k1 k2 = some s0) :
    Linked (Allowed c) s0.cur (run c s0 0 ins) ∧ ∀ s ∈ run c s0 0 ins, Inv s := by
  have hinv : Inv s0 := by
    unfold init at h0
    split at h0
    · cases h0; exact Or.inr rfl
    · cases h0
  exact run_stage c ins s0 0 hinv

/-- **no_skip**: a stage other than the first is only ever entered from its predecessor. -/
theorem C19_tap1_no_skip (c : Cfg) (a b : Stage) (h : Allowed c a b) (hb : b.chain = true) (hne : b ≠ a)
    (hfirst : b ≠ .download) : a.chain = true ∧ b = a.succ := by
  rcases h with h | ⟨hc, h⟩ | h | ⟨_, h⟩ | ⟨_, _, h | h⟩ | ⟨_, _, h⟩
  · exact absurd h hne
  · exact ⟨hc, h⟩
  · rw [h] at hb; simp [Stage.chain] at hb
  · exact absurd h hfirst
  · rw [h] at hb; simp [Stage.chain] at hb
  · exact absurd h hfirst
  · rw [h] at hb; simp [Stage.chain] at hb

/-- SUCCEEDED is entered only from PAYLOAD. -/
theorem C19_tap1_succeeded_only_from_payload (c : Cfg) (a : Stage) (h : Allowed c a .succeeded) (hne : a ≠ .succeeded) :
    a = .payload := by
  revert h hne
  cases a <;> simp [Allowed, Stage.succ, Stage.chain]

/-- Non-vacuity: with every response successful the agent walks DOWNLOAD … PAYLOAD, SUCCEEDED and concludes. -/
def exCfg : Cfg :=
  { startStep := 1, frequency := 1, variance := 0, repeatKillChain := false, repeatStages := true,
    pPropagate := ⟨1, 1⟩, pC2 := ⟨1, 1⟩, pPayload := ⟨1, 1⟩, scanAttempts := 20, repeatScan := false, addrs := ["10.0.0.0/24", "10.0.1.0/24"],
    exfiltrate := true, corrupt := true, continueOnFailedExfil := true }

def exIn : In :=
  { d1 := 0, d2 := 0, u := ⟨0, 1⟩, dScan := 0, resp := { ok := true, hostsEmpty := false, containsTarget := true, hasPg := true } }

example : ∃ s0, init exCfg 0 0 0 = some s0 ∧
    ((run exCfg s0 0 (List.replicate 20 exIn)).map (·.cur)).eraseDups
      = [.notStarted, .download, .install, .activate, .propagate, .c2, .payload, .succeeded] ∧
    ((run exCfg s0 0 (List.replicate 20 exIn)).getLast?.map (·.concluded)) = some true := by
  refine ⟨_, rfl, ?_, ?_⟩ <;> decide

/-! ends per settings -/

theorem bodies_of_notStarted (c : Cfg) (i : In) (s : St) (h : s.cur = .notStarted) : bodies c i s = tapStart s := by
  rw [bodies_eq, applyDown_reach c i s 6 (by rw [h]; simp [rank]), h]
  rfl

theorem tapStart_concluded (s : St) : (tapStart s).concluded = s.concluded := by
  unfold tapStart; split
  · rfl
  · split <;> simp [St.raise]

/-- **ends_per_settings (absorbing).** Once `actions_concluded` is set, every later call returns do-nothing and
changes nothing. -/
theorem C19_tap1_concluded_absorbing (c : Cfg) (s : St) (t : Int) (i : In) (h : s.concluded = true) :
    getAction c s t i = (s, Act.nothing) := by
  simp [getAction, executes, h]

/-- **ends_per_settings (stop).** Without `repeat_kill_chain`, the first execution slot that finds the chain
SUCCEEDED or FAILED sets `actions_concluded`, keeps the stage, and returns do-nothing. -/
theorem C19_tap1_stops (c : Cfg) (s : St) (t : Int) (i : In) (h : Hist)
    (hrep : c.repeatKillChain = false) (hterm : s.cur = .succeeded ∨ s.cur = .failed)
    (hex : executes s t = true) (hh : lookBack s = some h) :
    (getAction c s t i).1.concluded = true ∧
    ((getAction c s t i).1.cur = .succeeded ∨ (getAction c s t i).1.cur = .failed) ∧
    (getAction c s t i).2 = Act.nothing := by
  have hcon : s.concluded = false := by simp [executes] at hex; exact hex.2
  have h1 : ((returnHandler c h s).cur = .succeeded ∨ (returnHandler c h s).cur = .failed) ∧
      (returnHandler c h s).concluded = false := by
    unfold returnHandler; split
    · exact ⟨Or.inr rfl, hcon⟩
    · exact ⟨hterm, hcon⟩
  unfold getAction
  rw [if_neg (by simp [hex])]
  simp only [hh]
  generalize returnHandler c h s = s1 at h1 ⊢
  have key : ∀ (b d : Int) (s' : St), (s'.cur = .succeeded ∨ s'.cur = .failed) → s'.concluded = false →
      (outcomeHandler c (setNext c s' b d)).concluded = true ∧
      ((outcomeHandler c (setNext c s' b d)).cur = .succeeded ∨ (outcomeHandler c (setNext c s' b d)).cur = .failed) ∧
      (outcomeHandler c (setNext c s' b d)).chosen = Act.nothing := by
    intro b d s' ht hc
    have hf := setNext_fields c s' b d
    have ht' : (setNext c s' b d).cur = .succeeded ∨ (setNext c s' b d).cur = .failed := by rw [hf.1]; exact ht
    have := (outcome_terminal c _ ht' (by rw [hf.2.2]; exact hc)).2 hrep
    refine ⟨this.2.2, by rw [this.1]; exact ht', ?_⟩
    unfold outcomeHandler
    rw [if_pos ht']
    simp [hf.2.2, hc, hrep]
  split
  · -- main path
    unfold mainPath
    have hk := key (t + c.frequency) i.d1 { s1 with curT := t } h1.1 h1.2
    rw [bodies_terminal c i _ hk.2.1]
    exact hk
  · unfold failPath
    have hk := key (t + c.frequency) i.d1 s1 h1.1 h1.2
    have hf := setNext_fields c { outcomeHandler c (setNext c s1 (t + c.frequency) i.d1) with curT := t } (t + c.frequency) i.d2
    refine ⟨by rw [hf.2.2]; exact hk.1, by rw [hf.1]; exact hk.2.1, ?_⟩
    rw [setNext_chosen]
    exact hk.2.2

/-- **ends_per_settings (restart).** With `repeat_kill_chain`, the first execution slot that finds the chain
SUCCEEDED or FAILED puts the agent back to NOT_STARTED (and, on the main path, straight into DOWNLOAD); it never
sets `actions_concluded`. -/
theorem C19_tap1_restarts (c : Cfg) (s : St) (t : Int) (i : In) (h : Hist)
    (hrep : c.repeatKillChain = true) (hterm : s.cur = .succeeded ∨ s.cur = .failed)
    (hex : executes s t = true) (hh : lookBack s = some h) :
    (getAction c s t i).1.concluded = false ∧
    ((getAction c s t i).1.cur = .notStarted ∨ (getAction c s t i).1.cur = .download) := by
  have hcon : s.concluded = false := by simp [executes] at hex; exact hex.2
  have h1 : ((returnHandler c h s).cur = .succeeded ∨ (returnHandler c h s).cur = .failed) ∧
      (returnHandler c h s).concluded = false := by
    unfold returnHandler; split
    · exact ⟨Or.inr rfl, hcon⟩
    · exact ⟨hterm, hcon⟩
  unfold getAction
  rw [if_neg (by simp [hex])]
  simp only [hh]
  generalize returnHandler c h s = s1 at h1 ⊢
  have key : ∀ (b d : Int) (s' : St), (s'.cur = .succeeded ∨ s'.cur = .failed) → s'.concluded = false →
      (outcomeHandler c (setNext c s' b d)).concluded = false ∧
      (outcomeHandler c (setNext c s' b d)).cur = .notStarted := by
    intro b d s' ht hc
    have hf := setNext_fields c s' b d
    have ht' : (setNext c s' b d).cur = .succeeded ∨ (setNext c s' b d).cur = .failed := by rw [hf.1]; exact ht
    have := (outcome_terminal c _ ht' (by rw [hf.2.2]; exact hc)).1 hrep
    exact ⟨this.2.2, this.1⟩
  split
  · unfold mainPath
    have hk := key (t + c.frequency) i.d1 { s1 with curT := t } h1.1 h1.2
    rw [bodies_of_notStarted c i _ hk.2]
    exact ⟨by rw [tapStart_concluded]; exact hk.1, Or.inr (tapStart_fire _ hk.2).1⟩
  · unfold failPath
    have hk := key (t + c.frequency) i.d1 s1 h1.1 h1.2
    have hf := setNext_fields c { outcomeHandler c (setNext c s1 (t + c.frequency) i.d1) with curT := t } (t + c.frequency) i.d2
    exact ⟨by rw [hf.2.2]; exact hk.1, Or.inl (by rw [hf.1]; exact hk.2)⟩

theorem succ_ne_failed (x : Stage) (h : x.chain = true) : x.succ ≠ .failed := by
  cases x <;> simp [Stage.succ, Stage.chain] at h ⊢
theorem succ_ne_notStarted (x : Stage) (h : x.chain = true) : x.succ ≠ .notStarted := by
  cases x <;> simp [Stage.succ, Stage.chain] at h ⊢

/-- **progress_only_after_success.** The stage advances to its successor only in an execution slot whose look-back
response (`history[current_timestep]`, the response to the agent's previous execution) was a success — except in
PROPAGATE (which inspects scan responses itself) and in PAYLOAD after a failed exfiltration with
`continue_on_failed_exfil`. -/
theorem C19_tap1_progress_only_after_success (c : Cfg) (s : St) (t : Int) (i : In)
    (hch : s.cur.chain = true) (hadv : (getAction c s t i).1.cur = s.cur.succ) :
    executes s t = true ∧ ∃ h, lookBack s = some h ∧
      (h.resp.ok = true ∨ s.cur = .propagate ∨
        (s.cur = .payload ∧ s.prog = .inProgress ∧ c.continueOnFailedExfil = true)) := by
  have hne : s.cur.succ ≠ s.cur := by cases hc : s.cur <;> simp_all [Stage.succ, Stage.chain]
  unfold getAction at hadv
  split at hadv
  · exact absurd hadv.symm hne
  · rename_i hex
    refine ⟨by simpa using hex, ?_⟩
    split at hadv
    · exact absurd hadv.symm hne
    · rename_i h hh
      refine ⟨h, hh, ?_⟩
      split at hadv
      · rename_i hp
        have hf : s.cur ≠ .failed := by intro hf; rw [hf] at hch; simp [Stage.chain] at hch
        rw [passes_returnHandler c h s hp hf] at hp
        simp only [passes, Bool.or_eq_true, Bool.and_eq_true, beq_iff_eq] at hp
        rcases hp with (hp | hp) | hp
        · exact Or.inl hp
        · exact Or.inr (Or.inl hp)
        · exact Or.inr (Or.inr ⟨hp.1.1, hp.1.2, hp.2⟩)
      · -- the repeat-previous-action branch never advances
        exfalso
        have hsoft := returnHandler_soft c h s
        generalize returnHandler c h s = s1 at hsoft hadv
        unfold failPath at hadv
        have hf := setNext_fields c { outcomeHandler c (setNext c s1 (t + c.frequency) i.d1) with curT := t } (t + c.frequency) i.d2
        rw [hf.1] at hadv
        have hf1 := setNext_fields c s1 (t + c.frequency) i.d1
        have ho : (outcomeHandler c (setNext c s1 (t + c.frequency) i.d1)).cur = s1.cur ∨
            (outcomeHandler c (setNext c s1 (t + c.frequency) i.d1)).cur = .notStarted := by
          unfold outcomeHandler
          split
          · split
            · exact Or.inl hf1.1
            · split
              · exact Or.inr rfl
              · exact Or.inl hf1.1
          · exact Or.inl hf1.1
        simp only at hadv
        rcases ho with ho | ho
        · rw [ho] at hadv
          rcases hsoft.1 with h1 | h1
          · rw [h1] at hadv; exact hne hadv.symm
          · rw [h1] at hadv; exact succ_ne_failed s.cur hch hadv.symm
        · rw [ho] at hadv; exact succ_ne_notStarted s.cur hch hadv.symm

/-! schedule: nothing before the start window; idle ticks change nothing -/

/-- Outputs of a run that feeds timesteps `t, t+1, …`. -/
def runOut (c : Cfg) : St → Int → List In → List (Int × Out)
  | _, _, [] => []
  | s, t, i :: is => (t, (step c s t i).2) :: runOut c (step c s t i).1 (t + 1) is

/-- A tick that does not get past the schedule guard returns do-nothing and changes nothing but the history. -/
theorem C19_tap1_idle_tick (c : Cfg) (s : St) (t : Int) (i : In) (h : executes s t = false) :
    getAction c s t i = (s, Act.nothing) := by
  simp [getAction, h]

theorem step_idle (c : Cfg) (s : St) (t : Int) (i : In) (h : executes s t = false) :
    ((step c s t i).2 = .act Act.nothing ∨ (step c s t i).2 = .raised) ∧ (step c s t i).1.nextExec = s.nextExec := by
  unfold step
  split
  · exact ⟨Or.inr rfl, rfl⟩
  · rw [C19_tap1_idle_tick c s t i h]
    split
    · exact ⟨Or.inr rfl, rfl⟩
    · exact ⟨Or.inl rfl, rfl⟩

theorem run_nothing_before (c : Cfg) (lo : Int) :
    ∀ (ins : List In) (s : St) (t : Int), (lo ≤ t ∨ lo ≤ s.nextExec) →
      ∀ t' a, (t', Out.act a) ∈ runOut c s t ins → a ≠ Act.nothing → lo ≤ t' := by
  intro ins
  induction ins with
  | nil => intro s t _ t' a h; simp [runOut] at h
  | cons i is ih =>
    intro s t hJ t' a hmem hne
    simp only [runOut, List.mem_cons] at hmem
    cases hex : executes s t with
    | false =>
      obtain ⟨hout, hnext⟩ := step_idle c s t i hex
      rcases hmem with heq | hmem
      · have h2 : (step c s t i).2 = Out.act a := (Prod.mk.inj heq).2.symm
        rcases hout with ho | ho
        · rw [ho] at h2; cases h2; exact absurd rfl hne
        · rw [ho] at h2; cases h2
      · refine ih _ (t + 1) ?_ t' a hmem hne
        rcases hJ with h | h
        · exact Or.inl (by omega)
        · exact Or.inr (by rw [hnext]; exact h)
    | true =>
      have hge : s.nextExec ≤ t := by
        simp [executes] at hex; omega
      have hlo : lo ≤ t := by rcases hJ with h | h <;> omega
      rcases hmem with heq | hmem
      · have : t' = t := (Prod.mk.inj heq).1
        omega
      · exact ih _ (t + 1) (Or.inl (by omega)) t' a hmem hne

/-- **Nothing before the start window** (TAP001): in every run from the constructor, with the first schedule draw
`d0 ∈ [-variance, variance]`, every action other than do-nothing happens at a timestep `≥ start_step − variance`. -/
theorem C19_tap1_nothing_before_start (c : Cfg) (d0 : Int) (k1 k2 : Nat) (s0 : St) (ins : List In)
    (h0 : init c d0 k1 k2 = some s0) (hd0 : -c.variance ≤ d0) :
    ∀ t a, (t, Out.act a) ∈ runOut c s0 0 ins → a ≠ Act.nothing → c.startStep - c.variance ≤ t := by
  have hs : s0.nextExec = c.startStep + d0 := by
    unfold init at h0
    split at h0
    · cases h0; rfl
    · cases h0
  exact run_nothing_before c _ ins s0 0 (Or.inr (by rw [hs]; omega))

/-! schedule: every execution slot reschedules to `t + frequency + d` -/

@[simp] theorem ne_failStage (c : Cfg) (s : St) : (failStage c s).nextExec = s.nextExec := by
  unfold failStage; split <;> rfl
@[simp] theorem ne_progress (s : St) : (progress s).nextExec = s.nextExec := by
  unfold progress; repeat' split
  all_goals simp [St.raise]
@[simp] theorem ne_progressIfFinished (s : St) : (progressIfFinished s).nextExec = s.nextExec := by
  unfold progressIfFinished; split <;> simp
@[simp] theorem ne_payloadHandler (s : St) : (payloadHandler s).1.nextExec = s.nextExec := by
  unfold payloadHandler; repeat' split
  all_goals simp
@[simp] theorem ne_payloadContinue (s : St) : (payloadContinue s).nextExec = s.nextExec := by
  unfold payloadContinue; split <;> simp
@[simp] theorem ne_payloadEnter (c : Cfg) (i : In) (s : St) : (payloadEnter c i s).nextExec = s.nextExec := by
  unfold payloadEnter; repeat' split
  all_goals simp
@[simp] theorem ne_payload (c : Cfg) (i : In) (s : St) : (payload c i s).nextExec = s.nextExec := by
  unfold payload; split <;> simp
@[simp] theorem ne_c2c (c : Cfg) (i : In) (s : St) : (c2c c i s).nextExec = s.nextExec := by
  unfold c2c; repeat' split
  all_goals simp
@[simp] theorem ne_updateNextScanTarget (c : Cfg) (i : In) (e : Bool) (s : St) :
    (updateNextScanTarget c i e s).nextExec = s.nextExec := by
  unfold updateNextScanTarget; repeat' split
  all_goals simp
@[simp] theorem ne_scanResponseHandler (c : Cfg) (i : In) (r : Resp) (s : St) :
    (scanResponseHandler c i r s).nextExec = s.nextExec := by
  unfold scanResponseHandler; repeat' split
  all_goals simp
@[simp] theorem ne_scanMark (p : Hist) (s : St) : (scanMark p s).nextExec = s.nextExec := by
  unfold scanMark; split <;> simp
@[simp] theorem ne_scanAbsorb (c : Cfg) (i : In) (p : Hist) (s : St) : (scanAbsorb c i p s).nextExec = s.nextExec := by
  unfold scanAbsorb; split <;> simp
@[simp] theorem ne_scanLogic (s : St) : (scanLogic s).1.nextExec = s.nextExec := by
  unfold scanLogic; repeat' split
  all_goals simp
@[simp] theorem ne_scanAction (ty : ScanType) (s : St) : (scanAction ty s).nextExec = s.nextExec := by
  unfold scanAction; split <;> simp
@[simp] theorem ne_scanProgress (s : St) : (scanProgress s).1.nextExec = s.nextExec := by
  unfold scanProgress; repeat' split
  all_goals simp
@[simp] theorem ne_scanDecide (c : Cfg) (s : St) : (scanDecide c s).1.nextExec = s.nextExec := by
  unfold scanDecide; split <;> simp
@[simp] theorem ne_scanHandler (c : Cfg) (i : In) (s : St) : (scanHandler c i s).1.nextExec = s.nextExec := by
  unfold scanHandler; repeat' split
  all_goals simp [St.raise]
@[simp] theorem ne_propagatePrep (c : Cfg) (s : St) : (propagatePrep c s).nextExec = s.nextExec := by
  unfold propagatePrep propagateReset; repeat' split
  all_goals simp [St.raise]
@[simp] theorem ne_propagateFirstScan (s : St) : (propagateFirstScan s).nextExec = s.nextExec := by
  simp [propagateFirstScan]
@[simp] theorem ne_propagate (c : Cfg) (i : In) (s : St) : (propagate c i s).nextExec = s.nextExec := by
  unfold propagate; repeat' split
  all_goals simp
@[simp] theorem ne_activate (s : St) : (activate s).nextExec = s.nextExec := by
  unfold activate; split <;> simp
@[simp] theorem ne_install (s : St) : (install s).nextExec = s.nextExec := by
  unfold install; split <;> simp
@[simp] theorem ne_downloadAct (s : St) : (downloadAct s).nextExec = s.nextExec := by
  unfold downloadAct; repeat' split
  all_goals simp
@[simp] theorem ne_download (s : St) : (download s).nextExec = s.nextExec := by
  unfold download; split <;> simp
@[simp] theorem ne_tapStart (s : St) : (tapStart s).nextExec = s.nextExec := by
  unfold tapStart; repeat' split
  all_goals simp [St.raise]
@[simp] theorem ne_bodies (c : Cfg) (i : In) (s : St) : (bodies c i s).nextExec = s.nextExec := by
  simp [bodies]
@[simp] theorem ne_outcomeHandler (c : Cfg) (s : St) : (outcomeHandler c s).nextExec = s.nextExec := by
  unfold outcomeHandler; repeat' split
  all_goals simp

/-- `_set_next_execution_timestep`, when it does not raise, sets exactly `base + d`; raising needs `variance < 0`. -/
theorem setNext_next (c : Cfg) (s : St) (b d : Int) :
    (0 ≤ c.variance → (setNext c s b d).nextExec = b + d ∧ (setNext c s b d).err = s.err) ∧
    (c.variance < 0 → (setNext c s b d).err = true) := by
  constructor
  · intro h; simp [setNext, randintOk, h]
  · intro h
    have : ¬ (0 ≤ c.variance) := by omega
    simp [setNext, St.raise, randintOk, this]

/-- `err` is sticky through the functions that follow the scheduling call. -/
theorem err_outcomeHandler (c : Cfg) (s : St) : (outcomeHandler c s).err = s.err := by
  unfold outcomeHandler; repeat' split
  all_goals simp

/-- **Every execution slot reschedules by `frequency + d`** (TAP001): a call that passes the schedule guard, finds its
look-back history item, and does not raise leaves `next_execution_timestep = t + frequency + d` where `d` is the
step's last `randint(-variance, variance)` draw (`d1`, or `d2` on the repeat-previous-action branch).  With
`|d| ≤ variance` the next slot is therefore the first timestep `≥ t + frequency − variance`, and no later than
`t + max 1 (frequency + variance)`. -/
theorem C19_tap1_reschedules (c : Cfg) (s : St) (t : Int) (i : In) (h : Hist)
    (hex : executes s t = true) (hh : lookBack s = some h) (hv : 0 ≤ c.variance) :
    (getAction c s t i).1.nextExec = t + c.frequency + i.d1 ∨
    (getAction c s t i).1.nextExec = t + c.frequency + i.d2 := by
  unfold getAction
  rw [if_neg (by simp [hex])]
  simp only [hh]
  split
  · left
    unfold mainPath
    simp only [ne_bodies, ne_outcomeHandler]
    exact ((setNext_next c _ (t + c.frequency) i.d1).1 hv).1
  · right
    unfold failPath
    exact ((setNext_next c _ (t + c.frequency) i.d2).1 hv).1

/-- A negative variance makes every execution slot raise (`randint` on an empty range) — the agent never acts. -/
theorem C19_tap1_negative_variance_raises (c : Cfg) (d0 : Int) (k1 k2 : Nat) (h : c.variance < 0) : init c d0 k1 k2 = none := by
  unfold init
  rw [if_neg]
  intro hc
  have := hc.1
  simp [randintOk] at this
  omega

end Tap1

/-! ## 6. TAP003: the same skeleton (InsiderKillChain) -/
namespace Tap3

/-- Successor in the part of the chain the agent implements: `RECONNAISSANCE → PLANNING → ACCESS → MANIPULATION →
EXPLOIT → SUCCEEDED`; `NOT_STARTED →` first stage, `SUCCEEDED → NOT_STARTED`. (EMBED … ERASE are enum members the agent
never enters; their successor is immaterial.) -/
def Stage.succ : Stage → Stage
  | .reconnaissance => .planning | .planning => .access | .access => .manipulation | .manipulation => .exploit
  | .exploit => .succeeded | .notStarted => .reconnaissance | .succeeded => .notStarted | .failed => .failed
  | .embed => .conceal | .conceal => .extract | .extract => .erase | .erase => .failed

def Stage.chain : Stage → Bool
  | .reconnaissance | .planning | .access | .manipulation | .exploit => true
  | _ => false

def Inv (s : St) : Prop := s.cur = .failed ∨ s.nxt = s.cur.succ

def Allowed (c : Cfg) (a b : Stage) : Prop :=
  b = a ∨ (a.chain = true ∧ b = a.succ) ∨ b = .failed ∨ (a = .notStarted ∧ b = .reconnaissance) ∨
  (c.repeatKillChain = true ∧ (a = .succeeded ∨ a = .failed) ∧ (b = .notStarted ∨ b = .reconnaissance)) ∨
  (c.repeatKillChain = true ∧ c.repeatStages = false ∧ b = .notStarted)

def Res (x : Stage) (s : St) : Prop :=
  (s.cur = x ∧ s.nxt = x.succ) ∨ (s.cur = x.succ ∧ s.nxt = x.succ.succ) ∨ s.cur = .failed

theorem progress_spec (s : St) (x : Stage) (hx : x.chain = true) (hn : s.nxt = x.succ) (hc : s.cur = x) :
    (progress s).cur = x.succ ∧ (progress s).nxt = x.succ.succ ∧ (progress s).err = s.err := by
  cases x <;> simp [Stage.chain] at hx <;>
    simp_all [progress, Stage.succ, Stage.ofVal?, Stage.all, Stage.val]

/-- `f` leaves `nxt` alone and either leaves `cur` alone or sets it to FAILED. -/
def Soft (f : St → St) : Prop := ∀ s, ((f s).cur = s.cur ∨ (f s).cur = .failed) ∧ (f s).nxt = s.nxt

theorem Soft.comp {f g : St → St} (hf : Soft f) (hg : Soft g) : Soft (fun s => g (f s)) := by
  intro s
  obtain ⟨h1, h2⟩ := hf s
  obtain ⟨h3, h4⟩ := hg (f s)
  refine ⟨?_, by rw [h4, h2]⟩
  rcases h3 with h3 | h3
  · rcases h1 with h1 | h1
    · exact Or.inl (by rw [h3, h1])
    · exact Or.inr (by rw [h3, h1])
  · exact Or.inr h3

theorem soft_failStage (c : Cfg) : Soft (failStage c) := by
  intro s; unfold failStage; split <;> simp

theorem soft_setNext (c : Cfg) (b d : Int) : Soft (fun s => setNext c s b d) := by
  intro s; simp only [setNext, St.raise]; split <;> simp

theorem soft_manipBegin : Soft manipBegin := by
  intro s; unfold manipBegin; split <;> simp

theorem soft_manipAct (c : Cfg) : Soft (manipAct c) := by
  intro s; unfold manipAct; repeat' split
  all_goals simp [St.raise]

theorem soft_exploitAct (a : Acl) (cr : Cred) (ip : Val) : Soft (exploitAct a cr ip) := by
  intro s; unfold exploitAct; split <;> simp

theorem res_of_soft_noprogress (x : Stage) (s' s : St)
    (hs : (s'.cur = s.cur ∨ s'.cur = .failed) ∧ s'.nxt = s.nxt) (h : s.cur = x) (hn : s.nxt = x.succ) :
    Res x s' := by
  rcases hs.1 with h1 | h1
  · exact Or.inl ⟨by rw [h1, h], by rw [hs.2, hn]⟩
  · exact Or.inr (Or.inr h1)

theorem exploit_skip (c : Cfg) (i : In) (s : St) (h : s.cur ≠ .exploit) : exploit c i s = s := by simp [exploit, h]
theorem manipulation_skip (c : Cfg) (i : In) (s : St) (h : s.cur ≠ .manipulation) : manipulation c i s = s := by
  simp [manipulation, h]
theorem access_skip (c : Cfg) (i : In) (s : St) (h : s.cur ≠ .access) : access c i s = s := by simp [access, h]
theorem planning_skip (c : Cfg) (i : In) (s : St) (h : s.cur ≠ .planning) : planning c i s = s := by simp [planning, h]
theorem reconnaissance_skip (s : St) (h : s.cur ≠ .reconnaissance) : reconnaissance s = s := by simp [reconnaissance, h]
theorem tapStart_skip (s : St) (h : s.cur ≠ .notStarted) : tapStart s = s := by simp [tapStart, h]

theorem fail_res (c : Cfg) (x : Stage) (s : St) (h : s.cur = x) (hn : s.nxt = x.succ) :
    Res x (failStage c { s with chosen := Act.nothing }) :=
  res_of_soft_noprogress x _ s
    ((Soft.comp (fun s => by simp : Soft (fun s => { s with chosen := Act.nothing })) (soft_failStage c)) s) h hn

theorem exploitBody_fire (c : Cfg) (s : St) (h : s.cur = .exploit) (hn : s.nxt = Stage.succ .exploit) :
    Res .exploit (exploitBody c s) := by
  unfold exploitBody
  split
  · have := progress_spec { s with numAcls := 0, chosen := Act.nothing } .exploit rfl hn h
    exact Or.inr (Or.inl ⟨this.1, this.2.1⟩)
  split
  · exact Or.inl ⟨h, hn⟩
  · rename_i a _
    split
    · rename_i cr ip _ _
      have hs := soft_exploitAct a cr ip { s with numAcls := c.acls.length }
      have hc : (exploitAct a cr ip { s with numAcls := c.acls.length }).cur = .exploit := by
        rcases hs.1 with h1 | h1
        · rw [h1]; exact h
        · unfold exploitAct at h1 ⊢; split <;> simp_all
      unfold exploitFinish
      split
      · have := progress_spec { exploitAct a cr ip { s with numAcls := c.acls.length } with curAcl := 0 } .exploit rfl
          (by simp only; rw [hs.2]; exact hn) hc
        exact Or.inr (Or.inl ⟨this.1, this.2.1⟩)
      · exact Or.inl ⟨hc, by rw [hs.2]; exact hn⟩
    · exact Or.inl ⟨h, hn⟩

theorem exploitEnter_fields (s : St) :
    (exploitEnter s).cur = s.cur ∧ (exploitEnter s).nxt = s.nxt ∧ (exploitEnter s).nextExec = s.nextExec ∧
    (exploitEnter s).concluded = s.concluded := by
  unfold exploitEnter; split <;> simp

theorem exploit_fire (c : Cfg) (i : In) (s : St) (h : s.cur = .exploit) (hn : s.nxt = Stage.succ .exploit) :
    Res .exploit (exploit c i s) := by
  unfold exploit
  rw [if_neg (by simp [h])]
  split
  · exact fail_res c .exploit s h hn
  · have he := exploitEnter_fields s
    exact exploitBody_fire c _ (by rw [he.1]; exact h) (by rw [he.2.1]; exact hn)

theorem manipulation_fire (c : Cfg) (i : In) (s : St) (h : s.cur = .manipulation) (hn : s.nxt = Stage.succ .manipulation) :
    Res .manipulation (manipulation c i s) := by
  unfold manipulation
  rw [if_neg (by simp [h])]
  split
  · have hcn : (manipAct c (manipBegin s)).cur = .manipulation ∧ (manipAct c (manipBegin s)).nxt = Stage.succ .manipulation := by
      have hb : (manipBegin s).cur = s.cur ∧ (manipBegin s).nxt = s.nxt := by unfold manipBegin; split <;> simp
      have ha : ∀ s', (manipAct c s').cur = s'.cur ∧ (manipAct c s').nxt = s'.nxt := by
        intro s'; unfold manipAct; repeat' split
        all_goals simp [St.raise]
      have := ha (manipBegin s)
      exact ⟨by rw [this.1, hb.1, h], by rw [this.2, hb.2, hn]⟩
    unfold manipFinish
    split
    · have := progress_spec (manipAct c (manipBegin s)) .manipulation rfl hcn.2 hcn.1
      exact Or.inr (Or.inl ⟨this.1, this.2.1⟩)
    · exact Or.inl hcn
  · exact fail_res c .manipulation s h hn

theorem access_fire (c : Cfg) (i : In) (s : St) (h : s.cur = .access) (hn : s.nxt = Stage.succ .access) :
    Res .access (access c i s) := by
  unfold access
  rw [if_neg (by simp [h])]
  split
  · have := progress_spec s .access rfl hn h
    exact Or.inr (Or.inl ⟨this.1, this.2.1⟩)
  · exact fail_res c .access s h hn

theorem planning_fire (c : Cfg) (i : In) (s : St) (h : s.cur = .planning) (hn : s.nxt = Stage.succ .planning) :
    Res .planning (planning c i s) := by
  unfold planning
  rw [if_neg (by simp [h])]
  split
  · have := progress_spec (if s.planned then s else { s with creds := c.creds0, planned := true }) .planning rfl
      (by split <;> exact hn) (by split <;> exact h)
    exact Or.inr (Or.inl ⟨this.1, this.2.1⟩)
  · exact fail_res c .planning s h hn

theorem reconnaissance_fire (s : St) (h : s.cur = .reconnaissance) (hn : s.nxt = Stage.succ .reconnaissance) :
    Res .reconnaissance (reconnaissance s) := by
  unfold reconnaissance
  rw [if_neg (by simp [h])]
  have := progress_spec { s with chosen := Act.nothing } .reconnaissance rfl hn h
  exact Or.inr (Or.inl ⟨this.1, this.2.1⟩)

theorem tapStart_fire (s : St) (h : s.cur = .notStarted) :
    (tapStart s).cur = .reconnaissance ∧ (tapStart s).nxt = .planning := by
  simp [tapStart, h, Stage.ofVal?, Stage.all, Stage.val]

def rank : Stage → Nat
  | .notStarted => 0 | .reconnaissance => 1 | .planning => 2 | .access => 3 | .manipulation => 4 | .exploit => 5
  | .succeeded => 7 | .failed => 7 | .embed => 8 | .conceal => 8 | .extract => 8 | .erase => 8

def bodyAt (c : Cfg) (i : In) : Nat → St → St
  | 0 => tapStart | 1 => reconnaissance | 2 => planning c i | 3 => access c i | 4 => manipulation c i | 5 => exploit c i
  | _ => id

def applyDown (c : Cfg) (i : In) : Nat → St → St
  | 0, s => bodyAt c i 0 s
  | r + 1, s => applyDown c i r (bodyAt c i (r + 1) s)

theorem bodies_eq (c : Cfg) (i : In) (s : St) : bodies c i s = applyDown c i 5 s := rfl

theorem bodyAt_skip (c : Cfg) (i : In) (r : Nat) (s : St) (h : rank s.cur ≠ r) : bodyAt c i r s = s := by
  match r with
  | 0 => exact tapStart_skip s (by intro hc; simp [hc, rank] at h)
  | 1 => exact reconnaissance_skip s (by intro hc; simp [hc, rank] at h)
  | 2 => exact planning_skip c i s (by intro hc; simp [hc, rank] at h)
  | 3 => exact access_skip c i s (by intro hc; simp [hc, rank] at h)
  | 4 => exact manipulation_skip c i s (by intro hc; simp [hc, rank] at h)
  | 5 => exact exploit_skip c i s (by intro hc; simp [hc, rank] at h)
  | _ + 6 => rfl

theorem applyDown_skip (c : Cfg) (i : In) : ∀ (r : Nat) (s : St), r < rank s.cur → applyDown c i r s = s := by
  intro r
  induction r with
  | zero => intro s h; exact bodyAt_skip c i 0 s (by omega)
  | succ r ih =>
    intro s h
    simp only [applyDown]
    rw [bodyAt_skip c i (r + 1) s (by omega)]
    exact ih s (by omega)

theorem applyDown_reach (c : Cfg) (i : In) (s : St) :
    ∀ (r : Nat), rank s.cur ≤ r → applyDown c i r s = applyDown c i (rank s.cur) s := by
  intro r
  induction r with
  | zero => intro h; have : rank s.cur = 0 := by omega
            rw [this]
  | succ r ih =>
    intro h
    rcases Nat.lt_or_ge (rank s.cur) (r + 1) with hlt | hge
    · simp only [applyDown]
      rw [bodyAt_skip c i (r + 1) s (by omega)]
      exact ih (by omega)
    · have : rank s.cur = r + 1 := by omega
      rw [this]

theorem bodyAt_fire (c : Cfg) (i : In) (x : Stage) (hx : x.chain = true) (s : St) (h : s.cur = x) (hn : s.nxt = x.succ) :
    Res x (bodyAt c i (rank x) s) := by
  cases x <;> simp [Stage.chain] at hx
  · exact reconnaissance_fire s h hn
  · exact planning_fire c i s h hn
  · exact access_fire c i s h hn
  · exact manipulation_fire c i s h hn
  · exact exploit_fire c i s h hn

theorem res_rank (x : Stage) (hx : x.chain = true) (s : St) (h : Res x s) : rank x ≤ rank s.cur := by
  rcases h with ⟨h, _⟩ | ⟨h, _⟩ | h <;> rw [h] <;> cases x <;> simp_all [Stage.chain, rank, Stage.succ]

/-- From a kill-chain stage `x` the stage methods together stay, advance to the successor of `x`, or fail. -/
theorem bodies_chain (c : Cfg) (i : In) (x : Stage) (hx : x.chain = true) (s : St) (h : s.cur = x) (hn : s.nxt = x.succ) :
    Res x (bodies c i s) := by
  have hr : 1 ≤ rank x ∧ rank x ≤ 5 := by cases x <;> simp_all [Stage.chain, rank]
  rw [bodies_eq, applyDown_reach c i s 5 (by rw [h]; exact hr.2), h]
  obtain ⟨k, hk⟩ : ∃ k, rank x = k + 1 := ⟨rank x - 1, by omega⟩
  have hfire := bodyAt_fire c i x hx s h hn
  have hrk := res_rank x hx _ hfire
  rw [hk] at hfire hrk ⊢
  simp only [applyDown]
  rw [applyDown_skip c i k _ (by omega)]
  exact hfire

theorem bodies_notStarted (c : Cfg) (i : In) (s : St) (h : s.cur = .notStarted) :
    (bodies c i s).cur = .reconnaissance ∧ (bodies c i s).nxt = .planning := by
  rw [bodies_eq, applyDown_reach c i s 5 (by rw [h]; simp [rank]), h]
  exact tapStart_fire s h

theorem bodies_terminal (c : Cfg) (i : In) (s : St) (h : s.cur = .succeeded ∨ s.cur = .failed) : bodies c i s = s := by
  rw [bodies_eq]
  exact applyDown_skip c i 5 s (by rcases h with h | h <;> rw [h] <;> simp [rank])

/-! the whole tick -/

theorem setNext_fields (c : Cfg) (s : St) (b d : Int) :
    (setNext c s b d).cur = s.cur ∧ (setNext c s b d).nxt = s.nxt ∧ (setNext c s b d).concluded = s.concluded := by
  simp only [setNext, St.raise]; split <;> simp

theorem setNext_chosen (c : Cfg) (s : St) (b d : Int) : (setNext c s b d).chosen = s.chosen := by
  simp only [setNext, St.raise]; split <;> rfl

theorem outcome_other (c : Cfg) (s : St) (h1 : s.cur ≠ .succeeded) (h2 : s.cur ≠ .failed) : outcomeHandler c s = s := by
  simp [outcomeHandler, h1, h2]

theorem outcome_terminal (c : Cfg) (s : St) (h : s.cur = .succeeded ∨ s.cur = .failed) (hc : s.concluded = false) :
    (c.repeatKillChain = true → (outcomeHandler c s).cur = .notStarted ∧ (outcomeHandler c s).nxt = .reconnaissance ∧
        (outcomeHandler c s).concluded = false) ∧
    (c.repeatKillChain = false → (outcomeHandler c s).cur = s.cur ∧ (outcomeHandler c s).nxt = s.nxt ∧
        (outcomeHandler c s).concluded = true) := by
  unfold outcomeHandler
  rw [if_pos h]
  simp only [hc, Bool.false_eq_true, if_false]
  constructor
  · intro hr; simp [hr]
  · intro hr; simp [hr]

theorem passes_returnHandler (c : Cfg) (h : Hist) (s : St) (hp : passes h (returnHandler c h s) = true)
    (_hs : s.cur ≠ .failed) : returnHandler c h s = s := by
  unfold returnHandler at hp ⊢
  split
  · rename_i hcond
    rw [if_pos hcond] at hp
    simp [passes, hcond.1] at hp
  · rfl

theorem returnHandler_soft (c : Cfg) (h : Hist) : Soft (returnHandler c h) := by
  intro s; unfold returnHandler; split <;> simp

theorem returnHandler_failed_iff (c : Cfg) (h : Hist) (s : St) (hne : (returnHandler c h s).cur ≠ s.cur) :
    (returnHandler c h s).cur = .failed ∧ c.repeatStages = false := by
  unfold returnHandler at hne ⊢
  split
  · rename_i hcond; exact ⟨rfl, by simpa using hcond.2⟩
  · rename_i hcond; rw [if_neg hcond] at hne; exact absurd rfl hne

theorem mainPath_stage (c : Cfg) (s : St) (t : Int) (i : In) (hinv : Inv s) (hcon : s.concluded = false) :
    Allowed c s.cur (mainPath c s t i).cur ∧ Inv (mainPath c s t i) := by
  unfold mainPath
  generalize hs2 : setNext c { s with curT := t } (t + c.frequency) i.d1 = s2
  have h2 : s2.cur = s.cur ∧ s2.nxt = s.nxt ∧ s2.concluded = false := by
    subst hs2
    have := setNext_fields c { s with curT := t } (t + c.frequency) i.d1
    simpa [hcon] using this
  by_cases hterm : s.cur = .succeeded ∨ s.cur = .failed
  · have ht2 : s2.cur = .succeeded ∨ s2.cur = .failed := by rw [h2.1]; exact hterm
    obtain ⟨hrep, hnorep⟩ := outcome_terminal c s2 ht2 h2.2.2
    cases hr : c.repeatKillChain with
    | true =>
      obtain ⟨hc, hn, _⟩ := hrep hr
      obtain ⟨hb1, hb2⟩ := bodies_notStarted c i _ hc
      refine ⟨?_, Or.inr (by rw [hb1, hb2]; rfl)⟩
      rw [hb1]
      exact Or.inr (Or.inr (Or.inr (Or.inr (Or.inl ⟨hr, hterm, Or.inr rfl⟩))))
    | false =>
      obtain ⟨hc, hn, _⟩ := hnorep hr
      have hterm3 : (outcomeHandler c s2).cur = .succeeded ∨ (outcomeHandler c s2).cur = .failed := by rw [hc]; exact ht2
      rw [bodies_terminal c i _ hterm3, hc, h2.1]
      refine ⟨Or.inl rfl, ?_⟩
      unfold Inv
      rw [hc, hn, h2.1, h2.2.1]
      exact hinv
  · have hns : s.cur ≠ .succeeded := fun h => hterm (Or.inl h)
    have hnf : s.cur ≠ .failed := fun h => hterm (Or.inr h)
    rw [outcome_other c s2 (by rw [h2.1]; exact hns) (by rw [h2.1]; exact hnf)]
    have hnx : s2.nxt = s2.cur.succ := by
      rcases hinv with h | h
      · exact absurd h hnf
      · rw [h2.1, h2.2.1]; exact h
    by_cases hch : s.cur.chain = true
    · have hres := bodies_chain c i s.cur hch s2 h2.1 (by rw [hnx, h2.1])
      rcases hres with ⟨hc, hn⟩ | ⟨hc, hn⟩ | hc
      · exact ⟨Or.inl hc, Or.inr (by rw [hc, hn])⟩
      · exact ⟨Or.inr (Or.inl ⟨hch, hc⟩), Or.inr (by rw [hc, hn])⟩
      · exact ⟨Or.inr (Or.inr (Or.inl hc)), Or.inl hc⟩
    · by_cases hnst : s.cur = .notStarted
      · obtain ⟨hb1, hb2⟩ := bodies_notStarted c i s2 (by rw [h2.1]; exact hnst)
        refine ⟨?_, Or.inr (by rw [hb1, hb2]; rfl)⟩
        rw [hb1]
        exact Or.inr (Or.inr (Or.inr (Or.inl ⟨hnst, rfl⟩)))
      · -- EMBED … ERASE: no stage method matches, nothing changes
        have hrk : 5 < rank s2.cur := by
          rw [h2.1]; cases hcur : s.cur <;> simp_all [Stage.chain, rank]
        rw [bodies_eq, applyDown_skip c i 5 s2 hrk]
        exact ⟨Or.inl h2.1, Or.inr hnx⟩


theorem failPath_stage (c : Cfg) (h : Hist) (s : St) (t : Int) (i : In) (hinv : Inv s) (hcon : s.concluded = false) :
    Allowed c s.cur (failPath c (returnHandler c h s) t i).cur ∧ Inv (failPath c (returnHandler c h s) t i) := by
  unfold failPath
  generalize hs1 : returnHandler c h s = s1
  have h1 := returnHandler_soft c h s
  rw [hs1] at h1
  have h1c : s1.concluded = false := by
    subst hs1; unfold returnHandler; split <;> simp [hcon]
  generalize hs2 : setNext c { s1 with curT := t } (t + c.frequency) i.d1 = s2
  have h2 : s2.cur = s1.cur ∧ s2.nxt = s1.nxt ∧ s2.concluded = false := by
    subst hs2
    have := setNext_fields c { s1 with curT := t } (t + c.frequency) i.d1
    simpa [h1c] using this
  unfold Inv
  by_cases hterm : s1.cur = .succeeded ∨ s1.cur = .failed
  · have ht2 : s2.cur = .succeeded ∨ s2.cur = .failed := by rw [h2.1]; exact hterm
    obtain ⟨hrep, hnorep⟩ := outcome_terminal c s2 ht2 h2.2.2
    cases hr : c.repeatKillChain with
    | true =>
      obtain ⟨hc, hn, _⟩ := hrep hr
      rw [hc, hn]
      refine ⟨?_, Or.inr rfl⟩
      rcases h1.1 with he | hf
      · rw [he] at hterm
        exact Or.inr (Or.inr (Or.inr (Or.inr (Or.inl ⟨hr, hterm, Or.inl rfl⟩))))
      · by_cases hsame : s1.cur = s.cur
        · rw [hsame] at hterm
          exact Or.inr (Or.inr (Or.inr (Or.inr (Or.inl ⟨hr, hterm, Or.inl rfl⟩))))
        · have := returnHandler_failed_iff c h s (by rw [hs1]; exact hsame)
          exact Or.inr (Or.inr (Or.inr (Or.inr (Or.inr ⟨hr, this.2, rfl⟩))))
    | false =>
      obtain ⟨hc, hn, _⟩ := hnorep hr
      rw [hc, hn, h2.1, h2.2.1]
      rcases h1.1 with he | hf
      · refine ⟨Or.inl he, ?_⟩
        rw [he, h1.2]; exact hinv
      · exact ⟨Or.inr (Or.inr (Or.inl hf)), Or.inl hf⟩
  · have hns : s1.cur ≠ .succeeded := fun h => hterm (Or.inl h)
    have hnf : s1.cur ≠ .failed := fun h => hterm (Or.inr h)
    rw [outcome_other c s2 (by rw [h2.1]; exact hns) (by rw [h2.1]; exact hnf), h2.1, h2.2.1]
    rcases h1.1 with he | hf
    · refine ⟨Or.inl he, ?_⟩
      rw [he, h1.2]; exact hinv
    · exact absurd hf hnf

theorem preGuard_fields (c : Cfg) (s : St) :
    (preGuardHandlers c s).cur = s.cur ∧ (preGuardHandlers c s).nxt = s.nxt ∧
    (preGuardHandlers c s).concluded = s.concluded ∧ (preGuardHandlers c s).nextExec = s.nextExec := by
  have hl : ∀ s : St, (handleLogin s).cur = s.cur ∧ (handleLogin s).nxt = s.nxt ∧
      (handleLogin s).concluded = s.concluded ∧ (handleLogin s).nextExec = s.nextExec := by
    intro s; unfold handleLogin; repeat' split
    all_goals simp [St.raise]
  have hp : ∀ s : St, (handleChangePw c s).cur = s.cur ∧ (handleChangePw c s).nxt = s.nxt ∧
      (handleChangePw c s).concluded = s.concluded ∧ (handleChangePw c s).nextExec = s.nextExec := by
    intro s; unfold handleChangePw; repeat' split
    all_goals simp
  unfold preGuardHandlers
  have a := hl s
  have b := hp (handleLogin s)
  exact ⟨by rw [b.1, a.1], by rw [b.2.1, a.2.1], by rw [b.2.2.1, a.2.2.1], by rw [b.2.2.2, a.2.2.2]⟩

theorem reasonCheck_fields (h : Hist) (s : St) :
    (reasonCheck h s).cur = s.cur ∧ (reasonCheck h s).nxt = s.nxt ∧ (reasonCheck h s).concluded = s.concluded := by
  unfold reasonCheck; split <;> simp [St.raise]

theorem getActionCore_stage (c : Cfg) (s : St) (t : Int) (i : In) (hinv : Inv s) :
    Allowed c s.cur (getActionCore c s t i).1.cur ∧ Inv (getActionCore c s t i).1 := by
  unfold getActionCore
  split
  · exact ⟨Or.inl rfl, hinv⟩
  · rename_i hex
    have hcon : s.concluded = false := by
      simp [executes] at hex; exact hex.2
    split
    · exact ⟨Or.inl rfl, hinv⟩
    · rename_i h _
      split
      · rename_i hp
        have hid : returnHandler c h s = s := by
          unfold returnHandler at hp ⊢
          split
          · rename_i hcond; rw [if_pos hcond] at hp; simp [passes, hcond.1] at hp
          · rfl
        simp only [hid]
        have hr := reasonCheck_fields h s
        have hinv' : Inv (reasonCheck h s) := by unfold Inv; rw [hr.1, hr.2.1]; exact hinv
        have := mainPath_stage c (reasonCheck h s) t i hinv' (by rw [hr.2.2]; exact hcon)
        rw [hr.1] at this
        exact this
      · exact failPath_stage c h s t i hinv hcon

theorem getAction_stage (c : Cfg) (s : St) (t : Int) (i : In) (hinv : Inv s) :
    Allowed c s.cur (getAction c s t i).1.cur ∧ Inv (getAction c s t i).1 := by
  unfold getAction
  have hp := preGuard_fields c s
  have hinv' : Inv (preGuardHandlers c s) := by unfold Inv; rw [hp.1, hp.2.1]; exact hinv
  have := getActionCore_stage c (preGuardHandlers c s) t i hinv'
  rw [hp.1] at this
  exact this

theorem C19_tap3_stage_step (c : Cfg) (s : St) (t : Int) (i : In) (hinv : Inv s) :
    Allowed c s.cur (step c s t i).1.cur ∧ Inv (step c s t i).1 := by
  unfold step
  split
  · exact ⟨Or.inl rfl, hinv⟩
  · split
    · exact ⟨Or.inl rfl, hinv⟩
    · have := getAction_stage c s t i hinv
      exact ⟨this.1, this.2⟩

/-! runs: consecutive timesteps from 0, arbitrary draws and responses -/

/-- States after each tick of a run that feeds timesteps `t, t+1, …`. -/
def run (c : Cfg) : St → Int → List In → List St
  | _, _, [] => []
  | s, t, i :: is => (step c s t i).1 :: run c (step c s t i).1 (t + 1) is

/-- Every consecutive pair of sampled stages is related by `R`. -/
def Linked (R : Stage → Stage → Prop) : Stage → List St → Prop
  | _, [] => True
  | a, s :: rest => R a s.cur ∧ Linked R s.cur rest

theorem run_stage (c : Cfg) : ∀ (ins : List In) (s : St) (t : Int), Inv s →
    Linked (Allowed c) s.cur (run c s t ins) ∧ ∀ s' ∈ run c s t ins, Inv s' := by
  intro ins
  induction ins with
  | nil => intro s t _; exact ⟨trivial, by simp [run]⟩
  | cons i is ih =>
    intro s t hinv
    obtain ⟨ha, hi⟩ := C19_tap3_stage_step c s t i hinv
    obtain ⟨h1, h2⟩ := ih _ (t + 1) hi
    refine ⟨⟨ha, h1⟩, ?_⟩
    intro s' hs'
    simp only [run, List.mem_cons] at hs'
    rcases hs' with rfl | hs'
    · exact hi
    · exact h2 s' hs'

/-- **stage_monotone** (TAP003). For every configuration, every schedule/trial/scan draw and every sequence of
simulator responses, the stage sampled after each tick is related to the previous one by `Allowed`: it stays,
moves to the *next* stage of the chain (EXPLOIT's next is SUCCEEDED), becomes FAILED, leaves NOT_STARTED for
RECONNAISSANCE, or — only with `repeat_kill_chain` — restarts from SUCCEEDED/FAILED. -/
theorem C19_tap3_stage_monotone (c : Cfg) (d0 : Int) (k : Nat) (s0 : St) (ins : List In) (h0 : init c d0 k = some s0) :
    Linked (Allowed c) s0.cur (run c s0 0 ins) ∧ ∀ s ∈ run c s0 0 ins, Inv s := by
  have hinv : Inv s0 := by
    unfold init at h0
    split at h0
    · cases h0; exact Or.inr rfl
    · cases h0
  exact run_stage c ins s0 0 hinv

/-- **no_skip**: a stage other than the first is only ever entered from its predecessor. -/
theorem C19_tap3_no_skip (c : Cfg) (a b : Stage) (h : Allowed c a b) (hb : b.chain = true) (hne : b ≠ a)
    (hfirst : b ≠ .reconnaissance) : a.chain = true ∧ b = a.succ := by
  rcases h with h | ⟨hc, h⟩ | h | ⟨_, h⟩ | ⟨_, _, h | h⟩ | ⟨_, _, h⟩
  · exact absurd h hne
  · exact ⟨hc, h⟩
  · rw [h] at hb; simp [Stage.chain] at hb
  · exact absurd h hfirst
  · rw [h] at hb; simp [Stage.chain] at hb
  · exact absurd h hfirst
  · rw [h] at hb; simp [Stage.chain] at hb

/-- The enum members EMBED, CONCEAL, EXTRACT, ERASE are never entered: no stage has any of them as its successor
in `Allowed`, so a run that starts in NOT_STARTED never shows them. -/
theorem C19_tap3_never_past_exploit (c : Cfg) (a b : Stage) (h : Allowed c a b)
    (ha : a ≠ .embed ∧ a ≠ .conceal ∧ a ≠ .extract ∧ a ≠ .erase) :
    b ≠ .embed ∧ b ≠ .conceal ∧ b ≠ .extract ∧ b ≠ .erase := by
  revert h ha
  cases a <;> cases b <;> simp [Allowed, Stage.succ, Stage.chain]

/-- **ends_per_settings (absorbing)** for TAP003: once concluded, the stage, the schedule and the flag never change and
every action is do-nothing (the two response handlers still update the agent's session bookkeeping). -/
theorem C19_tap3_concluded_absorbing (c : Cfg) (s : St) (t : Int) (i : In) (h : s.concluded = true) :
    (getAction c s t i).2 = Act.nothing ∧ (getAction c s t i).1.cur = s.cur ∧
    (getAction c s t i).1.concluded = true ∧ (getAction c s t i).1.nextExec = s.nextExec := by
  have hp := preGuard_fields c s
  unfold getAction getActionCore
  rw [if_pos (by simp [executes, hp.2.2.1, h])]
  exact ⟨rfl, hp.1, by rw [hp.2.2.1]; exact h, hp.2.2.2⟩

def exCfg : Cfg :=
  { startStep := 1, frequency := 1, variance := 0, repeatKillChain := true, repeatStages := true,
    pPlanning := ⟨1, 1⟩, pAccess := ⟨1, 1⟩, pManipulation := ⟨1, 1⟩, pExploit := ⟨1, 1⟩, defaultStartingNode := "pc",
    accountChanges := [{ host := "pc", user := "a0", newPw := "n0" }, { host := "rt", user := "a1", newPw := "n1" }],
    acls := [{ router := "rt", fields := ["DENY", "tcp", "10.0.0.0", "0.0.0.255", "ALL", "ALL", "NONE", "80", "1"] }],
    creds0 := [("pc", { user := "u0", pw := "p0" }), ("rt", { user := "u1", pw := "p1", ip := some "10.0.9.1" })] }

def exIn : In := { d1 := 0, u := ⟨0, 1⟩, resp := { ok := true } }

/-- Non-vacuity: all responses successful, repeat on: the agent walks the five implemented stages, succeeds and restarts. -/
example : ∃ s0, init exCfg 0 0 = some s0 ∧
    ((run exCfg s0 0 (List.replicate 16 exIn)).map (·.cur)).eraseDups
      = [.notStarted, .reconnaissance, .planning, .access, .manipulation, .exploit, .succeeded] := by
  refine ⟨_, rfl, ?_⟩; decide

/-! schedule: nothing before the start window; idle ticks change nothing -/

/-- Outputs of a run that feeds timesteps `t, t+1, …`. -/
def runOut (c : Cfg) : St → Int → List In → List (Int × Out)
  | _, _, [] => []
  | s, t, i :: is => (t, (step c s t i).2) :: runOut c (step c s t i).1 (t + 1) is

/-- A tick that does not get past the schedule guard returns do-nothing and changes nothing but the history. -/
theorem C19_tap3_idle_tick (c : Cfg) (s : St) (t : Int) (i : In) (h : executes s t = false) :
    (getAction c s t i).2 = Act.nothing ∧ (getAction c s t i).1.nextExec = s.nextExec ∧
    (getAction c s t i).1.cur = s.cur := by
  have hp := preGuard_fields c s
  have hex : executes (preGuardHandlers c s) t = false := by
    simp only [executes, hp.2.2.1, hp.2.2.2] at h ⊢; exact h
  unfold getAction getActionCore
  rw [if_pos (by simp [hex])]
  exact ⟨rfl, hp.2.2.2, hp.1⟩

theorem step_idle (c : Cfg) (s : St) (t : Int) (i : In) (h : executes s t = false) :
    ((step c s t i).2 = .act Act.nothing ∨ (step c s t i).2 = .raised) ∧ (step c s t i).1.nextExec = s.nextExec := by
  unfold step
  split
  · exact ⟨Or.inr rfl, rfl⟩
  · have hi := C19_tap3_idle_tick c s t i h
    split
    · exact ⟨Or.inr rfl, rfl⟩
    · refine ⟨Or.inl (by rw [hi.1]), hi.2.1⟩

theorem run_nothing_before (c : Cfg) (lo : Int) :
    ∀ (ins : List In) (s : St) (t : Int), (lo ≤ t ∨ lo ≤ s.nextExec) →
      ∀ t' a, (t', Out.act a) ∈ runOut c s t ins → a ≠ Act.nothing → lo ≤ t' := by
  intro ins
  induction ins with
  | nil => intro s t _ t' a h; simp [runOut] at h
  | cons i is ih =>
    intro s t hJ t' a hmem hne
    simp only [runOut, List.mem_cons] at hmem
    cases hex : executes s t with
    | false =>
      obtain ⟨hout, hnext⟩ := step_idle c s t i hex
      rcases hmem with heq | hmem
      · have h2 : (step c s t i).2 = Out.act a := (Prod.mk.inj heq).2.symm
        rcases hout with ho | ho
        · rw [ho] at h2; cases h2; exact absurd rfl hne
        · rw [ho] at h2; cases h2
      · refine ih _ (t + 1) ?_ t' a hmem hne
        rcases hJ with h | h
        · exact Or.inl (by omega)
        · exact Or.inr (by rw [hnext]; exact h)
    | true =>
      have hge : s.nextExec ≤ t := by
        simp [executes] at hex; omega
      have hlo : lo ≤ t := by rcases hJ with h | h <;> omega
      rcases hmem with heq | hmem
      · have : t' = t := (Prod.mk.inj heq).1
        omega
      · exact ih _ (t + 1) (Or.inl (by omega)) t' a hmem hne

/-- **Nothing before the start window** (TAP003): in every run from the constructor, with the first schedule draw
`d0 ∈ [-variance, variance]`, every action other than do-nothing happens at a timestep `≥ start_step − variance`. -/
theorem C19_tap3_nothing_before_start (c : Cfg) (d0 : Int) (k : Nat) (s0 : St) (ins : List In)
    (h0 : init c d0 k = some s0) (hd0 : -c.variance ≤ d0) :
    ∀ t a, (t, Out.act a) ∈ runOut c s0 0 ins → a ≠ Act.nothing → c.startStep - c.variance ≤ t := by
  have hs : s0.nextExec = c.startStep + d0 := by
    unfold init at h0
    split at h0
    · cases h0; rfl
    · cases h0
  exact run_nothing_before c _ ins s0 0 (Or.inr (by rw [hs]; omega))

/-! schedule: every execution slot reschedules to `t + frequency + d1` -/

@[simp] theorem ne_failStage (c : Cfg) (s : St) : (failStage c s).nextExec = s.nextExec := by
  unfold failStage; split <;> rfl
@[simp] theorem ne_progress (s : St) : (progress s).nextExec = s.nextExec := by
  unfold progress; repeat' split
  all_goals simp [St.raise]
@[simp] theorem ne_manipBegin (s : St) : (manipBegin s).nextExec = s.nextExec := by
  unfold manipBegin; split <;> simp
@[simp] theorem ne_manipAct (c : Cfg) (s : St) : (manipAct c s).nextExec = s.nextExec := by
  unfold manipAct; repeat' split
  all_goals simp [St.raise]
@[simp] theorem ne_manipFinish (s : St) : (manipFinish s).nextExec = s.nextExec := by
  unfold manipFinish; split <;> simp
@[simp] theorem ne_manipulation (c : Cfg) (i : In) (s : St) : (manipulation c i s).nextExec = s.nextExec := by
  unfold manipulation; repeat' split
  all_goals simp
@[simp] theorem ne_exploitAct (a : Acl) (cr : Cred) (ip : Val) (s : St) : (exploitAct a cr ip s).nextExec = s.nextExec := by
  unfold exploitAct; split <;> simp
@[simp] theorem ne_exploitFinish (s : St) : (exploitFinish s).nextExec = s.nextExec := by
  unfold exploitFinish; split <;> simp
@[simp] theorem ne_exploitBody (c : Cfg) (s : St) : (exploitBody c s).nextExec = s.nextExec := by
  unfold exploitBody; repeat' split
  all_goals simp [St.raise]
@[simp] theorem ne_exploitEnter (s : St) : (exploitEnter s).nextExec = s.nextExec := (exploitEnter_fields s).2.2.1
@[simp] theorem ne_exploit (c : Cfg) (i : In) (s : St) : (exploit c i s).nextExec = s.nextExec := by
  unfold exploit; repeat' split
  all_goals simp
@[simp] theorem ne_access (c : Cfg) (i : In) (s : St) : (access c i s).nextExec = s.nextExec := by
  unfold access; repeat' split
  all_goals simp
@[simp] theorem ne_planning (c : Cfg) (i : In) (s : St) : (planning c i s).nextExec = s.nextExec := by
  unfold planning; repeat' split
  all_goals simp
@[simp] theorem ne_reconnaissance (s : St) : (reconnaissance s).nextExec = s.nextExec := by
  unfold reconnaissance; split <;> simp
@[simp] theorem ne_tapStart (s : St) : (tapStart s).nextExec = s.nextExec := by
  unfold tapStart; repeat' split
  all_goals simp [St.raise]
@[simp] theorem ne_bodies (c : Cfg) (i : In) (s : St) : (bodies c i s).nextExec = s.nextExec := by
  simp [bodies]
@[simp] theorem ne_outcomeHandler (c : Cfg) (s : St) : (outcomeHandler c s).nextExec = s.nextExec := by
  unfold outcomeHandler; repeat' split
  all_goals simp

theorem setNext_next (c : Cfg) (s : St) (b d : Int) (h : 0 ≤ c.variance) : (setNext c s b d).nextExec = b + d := by
  simp [setNext, randintOk, h]

/-- **Every execution slot reschedules by `frequency + d1`** (TAP003). -/
theorem C19_tap3_reschedules (c : Cfg) (s : St) (t : Int) (i : In) (h : Hist)
    (hex : executes s t = true) (hh : lookBack (preGuardHandlers c s) = some h)
    (hv : 0 ≤ c.variance) :
    (getAction c s t i).1.nextExec = t + c.frequency + i.d1 := by
  have hp := preGuard_fields c s
  have hex' : executes (preGuardHandlers c s) t = true := by
    simp only [executes, hp.2.2.1, hp.2.2.2] at hex ⊢; exact hex
  unfold getAction getActionCore
  rw [if_neg (by simp [hex'])]
  simp only [hh]
  split
  · unfold mainPath
    simp only [ne_bodies, ne_outcomeHandler]
    exact setNext_next c _ (t + c.frequency) i.d1 hv
  · unfold failPath
    simp only [ne_outcomeHandler]
    exact setNext_next c _ (t + c.frequency) i.d1 hv

/-- **`EXPLOIT.probability` is honoured** (after the repair of F-C19-3; before it the trial was dead code and a
probability of 0 did not stop the exploit).  On entering EXPLOIT (stage progress PENDING) a failed trial makes `_exploit`
choose do-nothing, leaves the stage progress PENDING (so the trial is repeated in the next slot) and moves the stage to
FAILED exactly when stages are not repeated; no login or ACL action is issued. -/
theorem C19_tap3_exploit_trial_gates (c : Cfg) (i : In) (s : St) (h : s.cur = .exploit) (hp : s.prog = .pending)
    (ht : trial c.pExploit i.u = false) :
    (exploit c i s).chosen = Act.nothing ∧ (exploit c i s).prog = .pending ∧ (exploit c i s).curAcl = s.curAcl ∧
    (exploit c i s).cur = (if c.repeatStages then .exploit else .failed) := by
  unfold exploit
  rw [if_neg (by simp [h]), if_pos (by simp [hp, ht])]
  unfold failStage
  split <;> simp_all

/-- A configured probability `≤ 0` never passes a trial, whatever the draw: with `EXPLOIT.probability: 0` the agent
never leaves the PENDING half of EXPLOIT (together with `C19_tap3_exploit_trial_gates`). -/
theorem C19_trial_zero_never_passes (p : Prob) (u : Unif) (h : p.num ≤ 0) : trial p u = false := by
  unfold trial
  have h1 : (0 : Int) ≤ (u.num : Int) * (p.den : Int) := Int.mul_nonneg (Int.natCast_nonneg _) (Int.natCast_nonneg _)
  have h2 : p.num * (u.den : Int) ≤ 0 := Int.mul_nonpos_of_nonpos_of_nonneg h (Int.natCast_nonneg _)
  simp only [decide_eq_false_iff_not]
  omega

end Tap3

/-! ## 7. Translator tie: the tables regenerated from the source equal what the models assume -/

/-- `MobileMalwareKillChain` in the source has exactly the members and values of `Tap1.Stage`. -/
theorem C19_gen_tap1_stages :
    Gen.Agents.mobileMalwareKillChain = Tap1.Stage.all.map (fun s => (s.name, s.val)) := by decide

/-- `InsiderKillChain` in the source has exactly the members and values of `Tap3.Stage`. -/
theorem C19_gen_tap3_stages :
    Gen.Agents.insiderKillChain = Tap3.Stage.all.map (fun s => (s.name, s.val)) := by decide

theorem C19_gen_progress_enum :
    Gen.Agents.stageProgress = [Progress.pending, .inProgress, .finished].map (fun p => (p.name, p.val)) := by decide

/-- initial and final stages, and the order in which `get_action` calls the stage methods (last stage first). -/
theorem C19_gen_dispatch :
    Gen.Agents.tap1Initial = Tap1.Stage.download.name ∧ Gen.Agents.tap1Final = Tap1.Stage.payload.name ∧
    Gen.Agents.tap3Initial = Tap3.Stage.reconnaissance.name ∧ Gen.Agents.tap3Final = Tap3.Stage.exploit.name ∧
    Gen.Agents.tap1PreGuard = [] ∧ Gen.Agents.tap1Dispatch = Tap1.dispatchOrder ∧
    Gen.Agents.tap3PreGuard = Tap3.preGuard ∧ Gen.Agents.tap3Dispatch = Tap3.dispatchOrder := by decide

/-- schedule guards and comparators: `==`/`<` in PeriodicAgent, `<` in DataManipulationAgent and the TAPs,
`variance >= frequency` rejected, `random() < p`, symmetric `randint(-variance, variance)`. -/
theorem C19_gen_guards :
    Gen.Agents.periodicTimeOp = "Eq" ∧ Gen.Agents.periodicCountOp = "Lt" ∧ Gen.Agents.dmIdleOp = "Lt" ∧
    Gen.Agents.varianceRejectOp = "GtE" ∧ Gen.Agents.trialOp = "Lt" ∧
    Gen.Agents.tap1Guard = "timestep < self.next_execution_timestep or self.actions_concluded" ∧
    Gen.Agents.tap3Guard = "timestep < self.next_execution_timestep or self.actions_concluded" ∧
    Gen.Agents.periodicRandintArgs = "-variance, variance" ∧
    Gen.Agents.tapRandintArgs = "-self.config.agent_settings.variance, self.config.agent_settings.variance" := by decide

/-- F-29: the probability vector is indexed by action number, not by the order of the mapping in the file.  (Text pin of the
known shapes; for any other shape the translator can handle, the fact is theorem `C19_gen_prob_vector` of Props/C19Get.lean
about the TRANSLATED method — that one is semantic and holds on every table.) -/
theorem C19_gen_vector_by_key : Gen.Agents.probVectorOrder = "byKey" ∨ Gen.Agents.probVectorOrder = "seeTranslation" := by decide

end Primaite.Agents
