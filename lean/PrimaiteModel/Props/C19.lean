/-
C19 — scripted green/red agents act only when and how their settings allow.
Property theorems; the models are `Model/Agents.lean` and `Model/AgentsTap.lean`.
-/
import PrimaiteModel.Model.AgentsTap
namespace Primaite.Agents

/-! ## 1. The inverse-CDF sampler (numpy `Generator.choice(n, p=…)` as used by ProbabilisticAgent) -/

/-- What `scan` returns is a position of the list, relative to `base`. -/
theorem scan_spec (u : Unif) (total : Nat) :
    ∀ (ws : List Nat) (acc base i : Nat), scan u total acc base ws = some i →
      base ≤ i ∧ i - base < ws.length ∧
      u.num * total < u.den * (acc + (ws.take (i - base + 1)).sum) ∧
      ∀ j, j < i - base → ¬ u.num * total < u.den * (acc + (ws.take (j + 1)).sum) := by
  intro ws
  induction ws with
  | nil => intro acc base i h; simp [scan] at h
  | cons w ws ih =>
    intro acc base i h
    unfold scan at h
    split at h
    · rename_i hlt
      cases h
      simp only [Nat.sub_self, Nat.zero_add, List.take_succ_cons, List.take_zero, List.sum_cons, List.sum_nil,
        Nat.add_zero, List.length_cons, Nat.zero_lt_succ, Nat.le_refl, true_and]
      exact ⟨hlt, fun j hj => absurd hj (Nat.not_lt_zero j)⟩
    · rename_i hnlt
      obtain ⟨hb, hl, hu, hmin⟩ := ih (acc + w) (base + 1) i h
      have e : i - base = (i - (base + 1)) + 1 := by omega
      refine ⟨by omega, ?_, ?_, ?_⟩
      · simp only [List.length_cons]; omega
      · rw [e, List.take_succ_cons, List.sum_cons]
        simpa [Nat.add_assoc] using hu
      · intro j hj
        cases j with
        | zero => simpa using hnlt
        | succ j =>
          have := hmin j (by omega)
          rw [List.take_succ_cons, List.sum_cons]
          simpa [Nat.add_assoc] using this

/-- The weight at the position `scan` returns is not zero: the running sum must strictly increase there. -/
theorem scan_weight_pos (u : Unif) (total : Nat) :
    ∀ (ws : List Nat) (acc base i : Nat), ¬ u.num * total < u.den * acc →
      scan u total acc base ws = some i → ∃ w, ws[i - base]? = some w ∧ 0 < w := by
  intro ws
  induction ws with
  | nil => intro acc base i _ h; simp [scan] at h
  | cons w ws ih =>
    intro acc base i hacc h
    unfold scan at h
    split at h
    · rename_i hlt
      cases h
      refine ⟨w, by simp, ?_⟩
      cases w with
      | zero => simp at hlt; exact absurd hlt hacc
      | succ n => exact Nat.succ_pos n
    · rename_i hnlt
      obtain ⟨w', hw', hpos⟩ := ih (acc + w) (base + 1) i hnlt h
      have hb := (scan_spec u total ws (acc + w) (base + 1) i h).1
      have e : i - base = (i - (base + 1)) + 1 := by omega
      exact ⟨w', by rw [e, List.getElem?_cons_succ]; exact hw', hpos⟩

/-- `scan` finds an index as soon as `u · total` lies below the final running sum. -/
theorem scan_finds (u : Unif) (total : Nat) :
    ∀ (ws : List Nat) (acc base : Nat), ¬ u.num * total < u.den * acc →
      u.num * total < u.den * (acc + ws.sum) → ∃ i, scan u total acc base ws = some i := by
  intro ws
  induction ws with
  | nil => intro acc base h1 h2; simp at h2; exact absurd h2 h1
  | cons w ws ih =>
    intro acc base h1 h2
    unfold scan
    split
    · exact ⟨base, rfl⟩
    · rename_i hnlt
      exact ih (acc + w) (base + 1) hnlt (by simpa [List.sum_cons, Nat.add_assoc] using h2)

/-- Running sums (numpy `cumsum`): `cdf ws i = w₀ + … + wᵢ`. -/
def cdf (ws : List Nat) (i : Nat) : Nat := (ws.take (i + 1)).sum

/-- `u < cdf i / total`, on integers. -/
def Below (u : Unif) (ws : List Nat) (i : Nat) : Prop := u.num * ws.sum < u.den * cdf ws i

/-- **Sampler specification.** For every weight vector of the right length with positive total and every
`u ∈ [0,1)`, `choice` returns the least index whose cumulative probability exceeds `u`. -/
theorem C19_choice_is_least_cdf_index (n : Nat) (ws : List Nat) (u : Unif)
    (hlen : ws.length = n) (hsum : 0 < ws.sum) (hu : u.num < u.den) :
    ∃ i, choice n ws u = .chose i ∧ i < n ∧ Below u ws i ∧ ∀ j, j < i → ¬ Below u ws j := by
  have hfind := scan_finds u ws.sum ws 0 0 (by simp)
    (by simpa using Nat.mul_lt_mul_of_pos_right hu hsum)
  obtain ⟨i, hi⟩ := hfind
  obtain ⟨_, hl, hb, hmin⟩ := scan_spec u ws.sum ws 0 0 i hi
  refine ⟨i, ?_, by simpa [hlen] using hl, by simpa [Below, cdf] using hb, ?_⟩
  · unfold choice
    rw [if_neg (by simp [hlen]; omega), hi]
  · intro j hj
    simpa [Below, cdf] using hmin j (by simpa using hj)

/-- **never_zero.** Whatever `u` is, an index whose weight is zero is never returned. -/
theorem C19_never_zero (n : Nat) (ws : List Nat) (u : Unif) (i : Nat)
    (h : choice n ws u = .chose i) : ∃ w, ws[i]? = some w ∧ 0 < w := by
  unfold choice at h
  split at h
  · cases h
  · split at h
    · rename_i k hk
      cases h
      simpa using scan_weight_pos u ws.sum ws 0 0 i (by simp) hk
    · cases h

/-- `choice` answers inside the action range or raises. -/
theorem C19_choice_in_range (n : Nat) (ws : List Nat) (u : Unif) (i : Nat)
    (h : choice n ws u = .chose i) : i < n := by
  unfold choice at h
  split at h
  · cases h
  · rename_i hc
    split at h
    · rename_i k hk
      cases h
      have := (scan_spec u ws.sum ws 0 0 i hk).2.1
      have hl : ws.length = n := by
        rcases Nat.decEq ws.length n with hne | he
        · exact absurd (Or.inl hne) hc
        · exact he
      omega
    · cases h

/-! ## 2. ProbabilisticAgent: the vector handed to numpy is indexed by action number (F-29 repaired) -/

theorem mapM_some_spec {α β} (f : α → Option β) :
    ∀ (l : List α) (v : List β), l.mapM f = some v →
      v.length = l.length ∧ ∀ i (h : i < l.length), v[i]? = f l[i] := by
  intro l
  induction l with
  | nil => intro v h; simp at h; subst h; simp
  | cons a l ih =>
    intro v h
    simp only [List.mapM_cons] at h
    cases hfa : f a with
    | none => simp [hfa] at h
    | some b =>
      cases hl : l.mapM f with
      | none => simp [hfa, hl] at h
      | some bs =>
        simp [hfa, hl] at h
        subst h
        obtain ⟨hlen, hget⟩ := ih bs hl
        refine ⟨by simp [hlen], ?_⟩
        intro i hi
        cases i with
        | zero => simp [hfa]
        | succ i => simpa using hget i (by simpa using hi)

theorem mapM_some_of_all {α β} (f : α → Option β) :
    ∀ (l : List α), (∀ a ∈ l, (f a).isSome) → ∃ v, l.mapM f = some v := by
  intro l
  induction l with
  | nil => intro _; exact ⟨[], by simp⟩
  | cons a l ih =>
    intro h
    obtain ⟨v, hv⟩ := ih (fun x hx => h x (List.mem_cons_of_mem a hx))
    have ha := h a (List.mem_cons_self)
    cases hfa : f a with
    | none => simp [hfa] at ha
    | some b => exact ⟨b :: v, by simp [List.mapM_cons, hfa, hv]⟩

/-- **vector_aligned.** For every table the validator accepts, the vector the (repaired) code builds has one entry
per key and entry `i` is the probability configured for action `i`. -/
theorem C19_vector_aligned (tb : Table) (h : tb.covered = true) :
    ∃ v, tb.vector .byKey = some v ∧ v.length = tb.length ∧ ∀ i, i < tb.length → v[i]? = tb.lookup i := by
  have hall : ∀ a ∈ List.range tb.length, (tb.lookup a).isSome := by
    simpa [Table.covered, List.all_eq_true] using h
  obtain ⟨v, hv⟩ := mapM_some_of_all tb.lookup _ hall
  obtain ⟨hlen, hget⟩ := mapM_some_spec tb.lookup _ v hv
  refine ⟨v, hv, by simpa using hlen, ?_⟩
  intro i hi
  have := hget i (by simpa using hi)
  rw [List.getElem_range] at this
  exact this

/-- Without the validator's guarantee the by-key vector is a `KeyError`, never a misaligned vector. -/
theorem C19_vector_by_key_aligned_or_raises (tb : Table) (v : List Nat) (h : tb.vector .byKey = some v) :
    v.length = tb.length ∧ ∀ i, i < tb.length → v[i]? = tb.lookup i := by
  obtain ⟨hlen, hget⟩ := mapM_some_spec tb.lookup _ v h
  refine ⟨by simpa using hlen, fun i hi => ?_⟩
  have := hget i (by simpa using hi)
  rw [List.getElem_range] at this
  exact this

/-- **The probabilistic agent never selects an action configured with probability zero** — for every table, every
number of actions and every uniform draw; the selected index also lies inside the action map. -/
theorem C19_prob_agent_never_selects_zero (tb : Table) (n : Nat) (u : Unif) (i : Nat)
    (h : probAgentChoice .byKey tb n u = .chose i) :
    i < n ∧ ∃ w, tb.lookup i = some w ∧ 0 < w := by
  unfold probAgentChoice at h
  split at h
  · cases h
  · rename_i ws hws
    obtain ⟨hlen, hget⟩ := C19_vector_by_key_aligned_or_raises tb ws hws
    have hin := C19_choice_in_range n ws u i h
    obtain ⟨w, hw, hpos⟩ := C19_never_zero n ws u i h
    have hi : i < tb.length := by
      have : i < ws.length := by
        rcases Nat.lt_or_ge i ws.length with hlt | hge
        · exact hlt
        · rw [List.getElem?_eq_none hge] at hw; cases hw
      omega
    exact ⟨hin, w, by rw [← hget i hi]; exact hw, hpos⟩

/-- The statement the unrepaired code (vector in insertion order) would have to satisfy … -/
def C19_InsertionOrderNeverSelectsZero : Prop :=
  ∀ (tb : Table) (n : Nat) (u : Unif) (i : Nat), tb.covered = true → u.num < u.den →
    probAgentChoice .insertion tb n u = .chose i → ∃ w, tb.lookup i = some w ∧ 0 < w

/-- … and its refutation: the table written `{1: 0.0, 0: 1.0}` selects action 1 for every draw (finding F-29). -/
theorem C19_insertion_order_counterexample : ¬ C19_InsertionOrderNeverSelectsZero := by
  intro h
  have := h [(1, 0), (0, 1)] 2 ⟨0, 1⟩ 1 (by decide) (by decide) (by decide)
  obtain ⟨w, hw, hpos⟩ := this
  have : w = 0 := by
    have e : Table.lookup [(1, 0), (0, 1)] 1 = some 0 := by decide
    rw [e] at hw; cases hw; rfl
  omega

/-- In that table *every* draw selects the zero-probability action. -/
example (u : Unif) (hu : u.num < u.den) : probAgentChoice .insertion [(1, 0), (0, 1)] 2 u = .chose 1 := by
  simp [probAgentChoice, Table.vector, Table.vectorInsertion, choice, scan, hu]

/-- Non-vacuity of `C19_prob_agent_never_selects_zero`: a shuffled table with a zero entry does select something. -/
example : probAgentChoice .byKey [(1, 0), (0, 1)] 2 ⟨1, 2⟩ = .chose 0 := by decide

/-! ## 3. PeriodicAgent: first action, gaps, count, action -/

/-- One call of `PeriodicAgent.get_action` idles, executes, or raises — with exactly these side conditions. -/
theorem periodicStep_tri (c : PeriodicCfg) (s : PeriodicState) (t d : Int) (k : Nat) :
    let r := periodicStep c s t d k
    (r.2 = .doNothing ∧ r.1 = s ∧ s.dead = false ∧ ¬ (t = s.next ∧ s.numExec < c.maxExecutions)) ∨
    (∃ n, r.2 = .execute n ∧ s.dead = false ∧ t = s.next ∧ s.numExec < c.maxExecutions ∧
        r.1.next = t + c.frequency + d ∧ r.1.numExec = s.numExec + 1 ∧ r.1.dead = false ∧ r.1.startNode = some n ∧
        (s.startNode = some n ∨ (s.startNode = none ∧ n = k ∧ k < c.nStartNodes)) ∧ 0 ≤ c.variance) ∨
    (r.2 = .raised ∧ r.1.dead = true) := by
  intro r
  cases hd : s.dead with
  | true => right; right; simp [r, periodicStep, hd]
  | false =>
    by_cases hc : t = s.next ∧ s.numExec < c.maxExecutions
    · by_cases hv : randintOk c.variance = true
      · have hv' : 0 ≤ c.variance := by simpa [randintOk] using hv
        cases hn : s.startNode with
        | some n =>
          right; left
          exact ⟨n, by simp [r, periodicStep, hd, hc, hv, hn], rfl, hc.1, hc.2, by simp [r, periodicStep, hd, hc, hv, hn],
            by simp [r, periodicStep, hd, hc, hv, hn], by simp [r, periodicStep, hd, hc, hv, hn],
            by simp [r, periodicStep, hd, hc, hv, hn], Or.inl rfl, hv'⟩
        | none =>
          by_cases hk : k < c.nStartNodes
          · right; left
            exact ⟨k, by simp [r, periodicStep, hd, hc, hv, hn, hk], rfl, hc.1, hc.2, by simp [r, periodicStep, hd, hc, hv, hn, hk],
              by simp [r, periodicStep, hd, hc, hv, hn, hk], by simp [r, periodicStep, hd, hc, hv, hn, hk],
              by simp [r, periodicStep, hd, hc, hv, hn, hk], Or.inr ⟨rfl, rfl, hk⟩, hv'⟩
          · right; right
            simp [r, periodicStep, hd, hc, hv, hn, hk]
      · right; right
        simp [r, periodicStep, hd, hc, hv]
    · left
      simp [r, periodicStep, hd, hc]

/-- A dead agent never executes again. -/
theorem periodic_dead_run (c : PeriodicCfg) :
    ∀ (ins : List PIn) (s : PeriodicState) (t : Int), s.dead = true →
      execTimes t (runFrom (periodicStep c) s t ins) = [] := by
  intro ins
  induction ins with
  | nil => intro s t _; rfl
  | cons i is ih =>
    intro s t hd
    have : periodicStep c s t i.d i.k = (s, .raised) := by simp [periodicStep, hd]
    simp only [runFrom, this, execTimes]
    exact ih s (t + 1) hd

/-- Draws lie in the range the code asks `randint` for. -/
def DrawsIn (v : Int) (ins : List PIn) : Prop := ∀ i ∈ ins, -v ≤ i.d ∧ i.d ≤ v

/-- Invariant-carrying form of the schedule theorem, from an arbitrary state and timestep. -/
theorem periodic_run_from (c : PeriodicCfg) :
    ∀ (ins : List PIn) (s : PeriodicState) (t : Int), DrawsIn c.variance ins →
      let L := execTimes t (runFrom (periodicStep c) s t ins)
      (∀ x ∈ L, t ≤ x) ∧ (L = [] ∨ ∃ rest, L = s.next :: rest) ∧
      GapsIn (c.frequency - c.variance) (c.frequency + c.variance) L ∧
      ((L.length : Int) ≤ max 0 (c.maxExecutions - s.numExec)) := by
  intro ins
  induction ins with
  | nil => intro s t _; simp [runFrom, execTimes, GapsIn]; omega
  | cons i is ih =>
    intro s t hdr
    have hdr' : DrawsIn c.variance is := fun j hj => hdr j (List.mem_cons_of_mem i hj)
    have hi := hdr i List.mem_cons_self
    rcases periodicStep_tri c s t i.d i.k with ⟨he, hs, _, hnc⟩ | ⟨n, he, _, htn, hlt, hnext, hnum, _, _, _, _⟩ | ⟨he, hdead⟩
    · -- idle
      simp only [runFrom, he, hs, execTimes]
      obtain ⟨h1, h2, h3, h4⟩ := ih s (t + 1) hdr'
      refine ⟨fun x hx => by have := h1 x hx; omega, h2, h3, h4⟩
    · -- execute at t = s.next
      simp only [runFrom, he, execTimes]
      obtain ⟨h1, h2, h3, h4⟩ := ih (periodicStep c s t i.d i.k).1 (t + 1) hdr'
      refine ⟨?_, Or.inr ⟨_, by rw [htn]⟩, ?_, ?_⟩
      · intro x hx
        rcases List.mem_cons.mp hx with rfl | hx
        · exact Int.le_refl _
        · have := h1 x hx; omega
      · rcases h2 with hnil | ⟨rest, hrest⟩
        · rw [hnil]; simp [GapsIn]
        · rw [hrest] at h3 ⊢
          refine ⟨?_, h3⟩
          rw [hnext]; constructor <;> omega
      · simp only [List.length_cons]
        rw [hnum] at h4
        omega
    · -- raised
      simp only [runFrom, he, execTimes]
      rw [periodic_dead_run c is _ (t + 1) hdead]
      simp [GapsIn]
      omega

/-- **Schedule of the periodic agent**, for every configuration the validator accepts, every start draw in
`[-start_variance, start_variance]`, every sequence of later draws in `[-variance, variance]` and every run length:
nothing happens before `start_step − start_variance`; the first action, if any, is exactly at `start_step + d0`
(hence within `start_step ± start_variance`); consecutive actions are `frequency + d` apart, i.e. within
`frequency ± variance`; and there are at most `max_executions` of them. -/
theorem C19_periodic_schedule (c : PeriodicCfg) (d0 : Int) (s0 : PeriodicState) (ins : List PIn)
    (h0 : periodicInit c d0 = some s0)
    (hd0 : -c.startVariance ≤ d0 ∧ d0 ≤ c.startVariance) (hins : DrawsIn c.variance ins) :
    let L := execTimes 0 (runFrom (periodicStep c) s0 0 ins)
    (∀ x ∈ L, c.startStep - c.startVariance ≤ x) ∧
    (L = [] ∨ ∃ rest, L = (c.startStep + d0) :: rest) ∧
    (∀ x, L.head? = some x → c.startStep - c.startVariance ≤ x ∧ x ≤ c.startStep + c.startVariance) ∧
    GapsIn (c.frequency - c.variance) (c.frequency + c.variance) L ∧
    (L.length : Int) ≤ max 0 c.maxExecutions := by
  have hs : s0.next = c.startStep + d0 ∧ s0.numExec = 0 := by
    unfold periodicInit at h0
    split at h0
    · cases h0; exact ⟨rfl, rfl⟩
    · cases h0
  obtain ⟨h1, h2, h3, h4⟩ := periodic_run_from c ins s0 0 hins
  rw [hs.1] at h2
  rw [hs.2] at h4
  have hfirst : ∀ x, (execTimes 0 (runFrom (periodicStep c) s0 0 ins)).head? = some x → x = c.startStep + d0 := by
    intro x hx
    rcases h2 with hnil | ⟨rest, hrest⟩
    · rw [hnil] at hx; cases hx
    · rw [hrest] at hx; simp at hx; exact hx.symm
  refine ⟨?_, h2, ?_, h3, by simpa using h4⟩
  · -- every action time is ≥ the first one (gaps are positive because variance < frequency)
    have hpos : 0 < c.frequency - c.variance := by
      unfold periodicInit at h0
      split at h0
      · rename_i hv; have := hv.1; simp [PeriodicCfg.valid] at this; omega
      · cases h0
    rcases h2 with hnil | ⟨rest, hrest⟩
    · rw [hnil]; simp
    · rw [hrest] at h3 ⊢
      have : ∀ (l : List Int) (a : Int), GapsIn (c.frequency - c.variance) (c.frequency + c.variance) (a :: l) →
          ∀ x ∈ a :: l, a ≤ x := by
        intro l
        induction l with
        | nil => intro a _ x hx; simp at hx; omega
        | cons b l ihl =>
          intro a hg x hx
          rcases List.mem_cons.mp hx with rfl | hx
          · exact Int.le_refl _
          · have := ihl b hg.2 x hx
            have := hg.1.1
            omega
      intro x hx
      have := this rest _ h3 x hx
      omega
  · intro x hx
    have := hfirst x hx
    omega

/-- Non-vacuity: start 3, start variance 1 (draw −1), frequency 4, variance 2, at most 3 executions: the agent acts at
steps 2, 5, 7 and then never again. -/
example :
    let c : PeriodicCfg := { startStep := 3, startVariance := 1, frequency := 4, variance := 2, maxExecutions := 3, nStartNodes := 2 }
    ∃ s0, periodicInit c (-1) = some s0 ∧
      execTimes 0 (runFrom (periodicStep c) s0 0
        ((List.range 20).map fun j => ({ d := if j = 2 then -1 else if j = 5 then -2 else 0, k := 1 } : PIn))) = [2, 5, 7] := by
  refine ⟨_, rfl, ?_⟩
  decide

/-- What the action theorem needs from a step function (both `periodicStep` and `dmStep` provide it). -/
def NodeTri (c : PeriodicCfg) (step : PeriodicState → Int → Int → Nat → PeriodicState × PeriodicOut) : Prop :=
  (∀ s t d k, s.dead = true → step s t d k = (s, .raised)) ∧
  ∀ s t d k, let r := step s t d k
    (r.2 = .doNothing ∧ r.1 = s) ∨
    (∃ n, r.2 = .execute n ∧ r.1.startNode = some n ∧
      (s.startNode = some n ∨ (s.startNode = none ∧ n = k ∧ k < c.nStartNodes))) ∨
    (r.2 = .raised ∧ r.1.dead = true)

theorem nodeTri_periodic (c : PeriodicCfg) : NodeTri c (periodicStep c) := by
  refine ⟨fun s t d k hd => by simp [periodicStep, hd], fun s t d k => ?_⟩
  rcases periodicStep_tri c s t d k with ⟨he, hs, _, _⟩ | ⟨n, he, _, _, _, _, _, _, hsn, hfrom, _⟩ | ⟨he, hdead⟩
  · exact Or.inl ⟨he, hs⟩
  · exact Or.inr (Or.inl ⟨n, he, hsn, hfrom⟩)
  · exact Or.inr (Or.inr ⟨he, hdead⟩)

/-- Generic action theorem: every `execute` of a run names a node of `possible_start_nodes`, and always the same one. -/
theorem action_node_generic (c : PeriodicCfg) (step : PeriodicState → Int → Int → Nat → PeriodicState × PeriodicOut)
    (H : NodeTri c step) :
    ∀ (ins : List PIn) (s : PeriodicState) (t : Int),
      (∀ m, s.startNode = some m → m < c.nStartNodes) →
      ∀ n, .execute n ∈ runFrom step s t ins →
        n < c.nStartNodes ∧ (∀ m, s.startNode = some m → n = m) ∧
        ∀ n', .execute n' ∈ runFrom step s t ins → n' = n := by
  obtain ⟨Hdead, Htri⟩ := H
  have hnone : ∀ (js : List PIn) (s : PeriodicState) (t : Int), s.dead = true →
      ∀ x, PeriodicOut.execute x ∉ runFrom step s t js := by
    intro js
    induction js with
    | nil => intro s t _ x h; simp [runFrom] at h
    | cons j js ihj =>
      intro s t hd x h
      simp only [runFrom, Hdead s t j.d j.k hd, List.mem_cons, reduceCtorEq, false_or] at h
      exact ihj s (t + 1) hd x h
  intro ins
  induction ins with
  | nil => intro s t _ n h; simp [runFrom] at h
  | cons i is ih =>
    intro s t hwf n hmem
    rcases Htri s t i.d i.k with ⟨he, hs⟩ | ⟨n0, he, hsn, hfrom⟩ | ⟨he, hdead⟩
    · simp only [runFrom, he, hs, List.mem_cons, reduceCtorEq, false_or] at hmem ⊢
      exact ih s (t + 1) hwf n hmem
    · have hn0 : n0 < c.nStartNodes := by
        rcases hfrom with h | ⟨_, rfl, hk⟩
        · exact hwf n0 h
        · exact hk
      have hwf' : ∀ m, (step s t i.d i.k).1.startNode = some m → m < c.nStartNodes := by
        intro m hm; rw [hsn] at hm; cases hm; exact hn0
      have hall : ∀ x, .execute x ∈ runFrom step (step s t i.d i.k).1 (t + 1) is → x = n0 := by
        intro x hx
        exact ((ih _ (t + 1) hwf' x hx).2.1 n0 hsn)
      have hs_same : ∀ m, s.startNode = some m → n0 = m := by
        intro m hm
        rcases hfrom with h | ⟨hnone', _, _⟩
        · rw [h] at hm; cases hm; rfl
        · rw [hnone'] at hm; cases hm
      simp only [runFrom, he, List.mem_cons, PeriodicOut.execute.injEq] at hmem ⊢
      have hn : n = n0 := by
        rcases hmem with h | h
        · exact h
        · exact hall n h
      subst hn
      refine ⟨hn0, hs_same, ?_⟩
      intro n' hn'
      rcases hn' with h | h
      · exact h
      · exact hall n' h
    · simp only [runFrom, he, List.mem_cons, reduceCtorEq, false_or] at hmem
      exact absurd hmem (hnone is _ (t + 1) hdead n)

/-- **Action of the periodic agent**: every action is `node-application-execute` of the configured application
(the only non-idle output of the model) on a node of `possible_start_nodes`, and always the same node. -/
theorem C19_periodic_action_node (c : PeriodicCfg) (d0 : Int) (s0 : PeriodicState) (ins : List PIn)
    (h0 : periodicInit c d0 = some s0) (n : Nat) (h : .execute n ∈ runFrom (periodicStep c) s0 0 ins) :
    n < c.nStartNodes ∧ ∀ n', .execute n' ∈ runFrom (periodicStep c) s0 0 ins → n' = n := by
  have hs : s0.startNode = none := by
    unfold periodicInit at h0
    split at h0
    · cases h0; rfl
    · cases h0
  have := action_node_generic c _ (nodeTri_periodic c) ins s0 0 (by intro m hm; rw [hs] at hm; cases hm) n h
  exact ⟨this.1, this.2.2⟩

/-! ## 4. DataManipulationAgent: threshold schedule -/

theorem dmStep_tri (c : PeriodicCfg) (s : PeriodicState) (t d : Int) (k : Nat) :
    let r := dmStep c s t d k
    (r.2 = .doNothing ∧ r.1 = s ∧ s.dead = false ∧ t < s.next) ∨
    (∃ n, r.2 = .execute n ∧ s.dead = false ∧ s.next ≤ t ∧
        r.1.next = t + c.frequency + d ∧ r.1.dead = false ∧ r.1.startNode = some n ∧
        (s.startNode = some n ∨ (s.startNode = none ∧ n = k ∧ k < c.nStartNodes)) ∧ 0 ≤ c.variance) ∨
    (r.2 = .raised ∧ r.1.dead = true) := by
  intro r
  cases hd : s.dead with
  | true => right; right; simp [r, dmStep, hd]
  | false =>
    by_cases hc : t < s.next
    · left; simp [r, dmStep, hd, hc]
    · have hc' : s.next ≤ t := by omega
      by_cases hv : randintOk c.variance = true
      · have hv' : 0 ≤ c.variance := by simpa [randintOk] using hv
        cases hn : s.startNode with
        | some n =>
          right; left
          exact ⟨n, by simp [r, dmStep, hd, hc, hv, hn], rfl, hc', by simp [r, dmStep, hd, hc, hv, hn],
            by simp [r, dmStep, hd, hc, hv, hn], by simp [r, dmStep, hd, hc, hv, hn], Or.inl rfl, hv'⟩
        | none =>
          by_cases hk : k < c.nStartNodes
          · right; left
            exact ⟨k, by simp [r, dmStep, hd, hc, hv, hn, hk], rfl, hc', by simp [r, dmStep, hd, hc, hv, hn, hk],
              by simp [r, dmStep, hd, hc, hv, hn, hk], by simp [r, dmStep, hd, hc, hv, hn, hk], Or.inr ⟨rfl, rfl, hk⟩, hv'⟩
          · right; right
            simp [r, dmStep, hd, hc, hv, hn, hk]
      · right; right
        simp [r, dmStep, hd, hc, hv]

theorem nodeTri_dm (c : PeriodicCfg) : NodeTri c (dmStep c) := by
  refine ⟨fun s t d k hd => by simp [dmStep, hd], fun s t d k => ?_⟩
  rcases dmStep_tri c s t d k with ⟨he, hs, _, _⟩ | ⟨n, he, _, _, _, _, hsn, hfrom, _⟩ | ⟨he, hdead⟩
  · exact Or.inl ⟨he, hs⟩
  · exact Or.inr (Or.inl ⟨n, he, hsn, hfrom⟩)
  · exact Or.inr (Or.inr ⟨he, hdead⟩)

theorem dm_dead_run (c : PeriodicCfg) :
    ∀ (ins : List PIn) (s : PeriodicState) (t : Int), s.dead = true →
      execTimes t (runFrom (dmStep c) s t ins) = [] := by
  intro ins
  induction ins with
  | nil => intro s t _; rfl
  | cons i is ih =>
    intro s t hd
    have : dmStep c s t i.d i.k = (s, .raised) := by simp [dmStep, hd]
    simp only [runFrom, this, execTimes]
    exact ih s (t + 1) hd

theorem dm_run_from (c : PeriodicCfg) (hv : c.variance < c.frequency) :
    ∀ (ins : List PIn) (s : PeriodicState) (t : Int), DrawsIn c.variance ins →
      let L := execTimes t (runFrom (dmStep c) s t ins)
      (L = [] ∨ ∃ rest, L = max t s.next :: rest) ∧
      GapsIn (c.frequency - c.variance) (c.frequency + c.variance) L := by
  intro ins
  induction ins with
  | nil => intro s t _; simp [runFrom, execTimes, GapsIn]
  | cons i is ih =>
    intro s t hdr
    have hdr' : DrawsIn c.variance is := fun j hj => hdr j (List.mem_cons_of_mem i hj)
    have hi := hdr i List.mem_cons_self
    rcases dmStep_tri c s t i.d i.k with ⟨he, hs, _, hlt⟩ | ⟨n, he, _, hle, hnext, _, _, _, _⟩ | ⟨he, hdead⟩
    · simp only [runFrom, he, hs, execTimes]
      obtain ⟨h2, h3⟩ := ih s (t + 1) hdr'
      refine ⟨?_, h3⟩
      have e : max (t + 1) s.next = max t s.next := by omega
      rw [← e]; exact h2
    · simp only [runFrom, he, execTimes]
      obtain ⟨h2, h3⟩ := ih (dmStep c s t i.d i.k).1 (t + 1) hdr'
      have e : max t s.next = t := by omega
      refine ⟨Or.inr ⟨_, by rw [e]⟩, ?_⟩
      rcases h2 with hnil | ⟨rest, hrest⟩
      · rw [hnil]; simp [GapsIn]
      · rw [hrest] at h3 ⊢
        refine ⟨?_, h3⟩
        rw [hnext]
        have e2 : max (t + 1) (t + c.frequency + i.d) = t + c.frequency + i.d := by omega
        rw [e2]; constructor <;> omega
    · simp only [runFrom, he, execTimes]
      rw [dm_dead_run c is _ (t + 1) hdead]
      simp [GapsIn]

/-- **Schedule of the data-manipulation agent**: the first action is at `max 0 start_step` — exactly `start_step`,
the start variance is drawn and then discarded — and afterwards the gaps are `frequency + d ∈ frequency ± variance`.
(There is no count bound: this agent never reads `max_executions`.) -/
theorem C19_dm_schedule (c : PeriodicCfg) (s0 : PeriodicState) (ins : List PIn)
    (h0 : dmInit c = some s0) (hins : DrawsIn c.variance ins) :
    let L := execTimes 0 (runFrom (dmStep c) s0 0 ins)
    (L = [] ∨ ∃ rest, L = max 0 c.startStep :: rest) ∧
    (0 ≤ c.startStep → ∀ x, L.head? = some x →
        c.startStep - c.startVariance ≤ x ∧ x ≤ c.startStep + c.startVariance) ∧
    GapsIn (c.frequency - c.variance) (c.frequency + c.variance) L := by
  have hs : s0.next = c.startStep ∧ c.variance < c.frequency ∧ 0 ≤ c.startVariance := by
    unfold dmInit at h0
    split at h0
    · rename_i hv; cases h0
      refine ⟨rfl, by simpa [PeriodicCfg.valid] using hv.1, by simpa [randintOk] using hv.2⟩
    · cases h0
  obtain ⟨h2, h3⟩ := dm_run_from c hs.2.1 ins s0 0 hins
  rw [hs.1] at h2
  refine ⟨h2, ?_, h3⟩
  intro hstart x hx
  rcases h2 with hnil | ⟨rest, hrest⟩
  · rw [hnil] at hx; cases hx
  · rw [hrest] at hx
    simp at hx
    have := hs.2.2
    omega

/-- Every action of the data-manipulation agent is an execute of the configured application on one fixed node of
`possible_start_nodes`. -/
theorem C19_dm_action_node (c : PeriodicCfg) (s0 : PeriodicState) (ins : List PIn)
    (h0 : dmInit c = some s0) (n : Nat) (h : .execute n ∈ runFrom (dmStep c) s0 0 ins) :
    n < c.nStartNodes ∧ ∀ n', .execute n' ∈ runFrom (dmStep c) s0 0 ins → n' = n := by
  have hs : s0.startNode = none := by
    unfold dmInit at h0
    split at h0
    · cases h0; rfl
    · cases h0
  have := action_node_generic c _ (nodeTri_dm c) ins s0 0 (by intro m hm; rw [hs] at hm; cases hm) n h
  exact ⟨this.1, this.2.2⟩

/-- Non-vacuity: start 2 (start variance 3 ignored), frequency 3, variance 1. -/
example :
    let c : PeriodicCfg := { startStep := 2, startVariance := 3, frequency := 3, variance := 1, maxExecutions := 1, nStartNodes := 1 }
    ∃ s0, dmInit c = some s0 ∧
      execTimes 0 (runFrom (dmStep c) s0 0
        ((List.range 12).map fun j => ({ d := if j = 2 then 1 else -1, k := 0 } : PIn))) = [2, 6, 8, 10] := by
  refine ⟨_, rfl, ?_⟩
  decide

end Primaite.Agents
