/-
C01 (totality) — `SoftwareManager.uninstall`, translated statement by statement from the source
(Gen/EpisodeRegs.lean), NEVER RAISES on any registry state reachable by installs / uninstalls / requests / ticks / power
events, and has exactly the effect of C13's `Registries.Node.uninstall`.

  C01_gen_uninstall_body        the translated body, minus the statements without registry effect, is the one the proofs are about
  exec_strip                    … and dropping those statements does not change what the body does (for every state)
  C01_uninstall_refines         under the agreement invariant `Rep` of C13 the translated body = `Node.uninstall`
  C01_uninstall_total           hence on every reachable node it returns (no KeyError / RuntimeError), for every name
  C01_tidied_uninstall_raises   the interpreter is not vacuous: the O(1) "tidied" body (direct `pop` by (port, protocol) and by
                                class) raises KeyError on a reachable node (two applications sharing a (port, protocol) key)
-/
import PrimaiteModel.Model.EpisodeRegs
import PrimaiteModel.Lemmas.RegistriesRep
import PrimaiteModel.Gen.EpisodeRegs
namespace Primaite.C01Regs
open Primaite.Lifecycle Primaite.Registries Primaite.EpisodeRegs Primaite.C13

/-- the statements with a registry effect, as read in the source -/
def coreAsRead : List Stmt := [
  .guardInstalled, .lookupUninstall, .popSoftware,
  .kindChain [.popByUuid .applications, .removeRoute .app .objName] [.popByUuid .services, .removeRoute .svc .objName],
  .act .scanPopPort, .act .scanPopClass, .ret]

/-- **Gen obligation**: the body translated from the source on this run. -/
theorem C01_gen_uninstall_body : strip Gen.EpisodeRegs.uninstallBody = coreAsRead := by decide

theorem execActs_strip (name : String) (u : Nat) (acts : List Act) (n : Node) :
    execActs name u (acts.filter (· != .noop)) n = execActs name u acts n := by
  induction acts generalizing n with
  | nil => rfl
  | cons a rest ih =>
    by_cases ha : a = .noop
    · subst ha
      simp [execActs, execAct, ih]
    · have : (a != Act.noop) = true := by simp [ha]
      simp only [List.filter_cons, this, if_true, execActs]
      cases execAct n name u a with
      | none => rfl
      | some n' => exact ih n'

/-- statements without registry effect can be dropped: same result for every state and binding -/
theorem exec_strip (name : String) (body : List Stmt) (n : Node) (cur : Option Nat) :
    exec name (strip body) n cur = exec name body n cur := by
  induction body generalizing n cur with
  | nil => rfl
  | cons s rest ih =>
    cases s with
    | guardInstalled => simp only [strip, exec, ih]
    | lookupUninstall => simp only [strip, exec, ih]
    | popSoftware =>
      simp only [strip, exec]
      cases dget name n.software with
      | none => rfl
      | some u => exact ih _ _
    | kindChain app svc =>
      simp only [strip, exec]
      cases cur with
      | none => rfl
      | some u =>
        simp only [execActs_strip]
        split
        · cases execActs name u app n with
          | none => rfl
          | some n' => exact ih _ _
        · split
          · cases execActs name u svc n with
            | none => rfl
            | some n' => exact ih _ _
          · exact ih _ _
    | act a =>
      by_cases ha : a = .noop
      · subst ha
        simp [strip, exec, ih]
      · have hs : strip (Stmt.act a :: rest) = Stmt.act a :: strip rest := by
          cases a <;> first | rfl | exact absurd rfl ha
        rw [hs]
        simp only [exec, ha, if_false]
        cases cur with
        | none => rfl
        | some u =>
          dsimp only
          cases execAct n name u a with
          | none => rfl
          | some n' => exact ih _ _
    | ret => simp only [strip, exec]

theorem mem_filter_map_uid (es : List Entry) (p : Entry → Bool) (e : Entry) (he : e ∈ es) (hp : p e = true) :
    e.uid ∈ (es.filter p).map (·.uid) :=
  List.mem_map.mpr ⟨e, List.mem_filter.mpr ⟨he, hp⟩, rfl⟩

/-- **Refinement.**  On every node whose registries agree (`Rep`, the invariant C13 proves for every reachable node) the
translated statements compute exactly `Node.uninstall` — in particular they do not raise. -/
theorem uninstall_refines_core (n : Node) (es : List Entry) (h : Rep n es) (name : String) :
    uninstallBy coreAsRead n name = n.uninstall name := by
  obtain ⟨n', hu, _⟩ := rep_uninstall n es h name
  cases hd : dget name n.software with
  | none => simp [uninstallBy, exec, coreAsRead, Node.uninstall, dhas, hd]
  | some u =>
    have hd' := hd
    rw [h.software] at hd'
    obtain ⟨e, he, hen, heu⟩ := dget_kv_some es name u hd'
    cases hk : e.isApp with
    | true =>
      obtain ⟨hs, i, hi, hin⟩ := h.appEntry e he hk
      rw [heu] at hs hi
      rw [hen] at hin
      have hmem : u ∈ n.applications := by
        rw [h.applications, ← heu]; exact mem_filter_map_uid es _ e he hk
      have hnd : n.applications.Nodup := by
        rw [h.applications]; exact nodup_filter_map es _ _ h.uidsNodup
      have hr : (dget name n.appRoutes).isSome = true := by
        simp only [Node.uninstall, hd, hs, hi, dhas] at hu
        by_cases hc : (dget name n.appRoutes).isSome = true
        · exact hc
        · simp [hc] at hu
      have hs' : List.find? (fun i => i.m.uid == u) n.svcs = none := hs
      have hi' : List.find? (fun i => i.m.uid == u) n.apps = some i := hi
      simp only [uninstallBy, exec, coreAsRead, dhas, hd, Option.isSome_some, if_true, isApp, isSvc, Node.findSvc, Node.findApp,
        execActs, execAct, nameRef, Node.nameOf, Node.metaOf, Node.uninstall, hs', hi', Option.isNone_none, Bool.and_self,
        List.contains_iff_mem, hmem, Option.map_some, hin, hr, hnd.erase_eq_filter, reduceCtorEq, if_false]
    | false =>
      obtain ⟨i, hi, hin⟩ := h.svcEntry e he hk
      rw [heu] at hi
      rw [hen] at hin
      have hmem : u ∈ n.services := by
        rw [h.services, ← heu]; exact mem_filter_map_uid es _ e he (by simp [hk])
      have hnd : n.services.Nodup := by
        rw [h.services]; exact nodup_filter_map es _ _ h.uidsNodup
      have hr : (dget name n.svcRoutes).isSome = true := by
        simp only [Node.uninstall, hd, hi, dhas] at hu
        by_cases hc : (dget name n.svcRoutes).isSome = true
        · exact hc
        · simp [hc] at hu
      have hi' : List.find? (fun i => i.m.uid == u) n.svcs = some i := hi
      simp only [uninstallBy, exec, coreAsRead, dhas, hd, Option.isSome_some, if_true, isApp, isSvc, Node.findSvc, Node.findApp,
        execActs, execAct, nameRef, Node.nameOf, Node.metaOf, Node.uninstall, hi', Option.isNone_some, Bool.false_and,
        List.contains_iff_mem, hmem, Option.map_some, hin, hr, hnd.erase_eq_filter, reduceCtorEq, if_false]

/-- the same for the body translated from the source on this run -/
theorem C01_uninstall_refines (n : Node) (es : List Entry) (h : Rep n es) (name : String) :
    uninstallBy Gen.EpisodeRegs.uninstallBody n name = n.uninstall name := by
  unfold uninstallBy
  rw [← exec_strip, C01_gen_uninstall_body]
  exact uninstall_refines_core n es h name

/-- **Totality of `SoftwareManager.uninstall`.**  From an empty node, after ANY sequence of operations of the registries model
(installs and uninstalls through the API and through requests — of anything, installed or not, with or without a configuration —,
requests, API calls, ticks, power events, payloads), uninstalling ANY name (installed or not) returns: none of the method's
`d[k]`, `d.pop(k)`, `remove_request(…)` raises. -/
theorem C01_uninstall_total (p : Power) (up down : Int) (ops : List Op) (name : String) :
    (uninstallBy Gen.EpisodeRegs.uninstallBody (Node.run { power := p, upDur := up, downDur := down } ops) name).isSome = true := by
  obtain ⟨es, h⟩ := rep_run ops _ [] (C13_rep_init p up down)
  obtain ⟨n', hu, _⟩ := rep_uninstall _ es h name
  rw [C01_uninstall_refines _ es h name, hu]; rfl

/-- … and it leaves the registries in agreement again (so the NEXT uninstall / install is total as well) -/
theorem C01_uninstall_keeps_agreement (n : Node) (es : List Entry) (h : Rep n es) (name : String) :
    ∃ n', uninstallBy Gen.EpisodeRegs.uninstallBody n name = some n' ∧ Rep n' (es.filter (fun e => e.name != name)) := by
  obtain ⟨n', hu, hr⟩ := rep_uninstall n es h name
  exact ⟨n', by rw [C01_uninstall_refines n es h name, hu], hr⟩

/-! ### non-vacuity: the interpreter does raise where Python would -/

/-- the "tidied" O(1) body (seeded change C01-f): direct pops by `(software.port, software.protocol)` and by class -/
def tidied : List Stmt := [
  .guardInstalled, .lookupUninstall, .popSoftware,
  .kindChain [.popByUuid .applications, .removeRoute .app .objName] [.popByUuid .services, .removeRoute .svc .objName],
  .act .popPortKey, .act .popClassKey, .ret]

def nmapCls : Cls := { cid := "NMAP", name := "nmap", port := 0, proto := 0 }
def ransomCls : Cls := { cid := "RansomwareScript", name := "ransomware-script", port := 0, proto := 0, genericExecute := false }
/-- a host with nmap and ransomware-script: two applications sharing the key (NONE, none) -/
def twoSharing : Node := ({} : Node).run [.installApp nmapCls false [] .good 2, .installApp ransomCls false [] .good 2]

/-- With the tidied body: removing the first of two applications that share a (port, protocol) key succeeds (and takes the
OTHER application's port entry with it); removing the second one raises KeyError — in either order.  With the body as it is
in the source both removals return (instance of `C01_uninstall_total`). -/
theorem C01_tidied_uninstall_raises :
    (((uninstallBy tidied twoSharing "nmap").bind (fun n => uninstallBy tidied n "ransomware-script")).isSome = false) ∧
    (((uninstallBy tidied twoSharing "ransomware-script").bind (fun n => uninstallBy tidied n "nmap")).isSome = false) ∧
    (uninstallBy tidied twoSharing "nmap").isSome = true ∧ (uninstallBy tidied twoSharing "ransomware-script").isSome = true ∧
    (((uninstallBy Gen.EpisodeRegs.uninstallBody twoSharing "nmap").bind
        (fun n => uninstallBy Gen.EpisodeRegs.uninstallBody n "ransomware-script")).isSome = true) := by decide

/-! ### `SoftwareManager.install` -/

/-- whatever the statements are, `execInstall` can fail only through the nested `uninstall` -/
theorem execInstall_total_of_uninstall (ubody : List Stmt) (c : Cls) (cfg : Bool) (body : List IStmt)
    (P : Node → Prop) (hP : ∀ n, P n → ∃ n', uninstallBy ubody n c.name = some n' ∧ P n') (n : Node) (hn : P n) :
    (execInstall ubody c cfg body n).isSome = true := by
  induction body generalizing n with
  | nil => rfl
  | cons s rest ih =>
    cases s with
    | guardRefused =>
      simp only [execInstall]
      split
      · rfl
      · exact ih n hn
    | construct => exact ih n hn
    | evictIfInstalled =>
      simp only [execInstall]
      split
      · obtain ⟨n', hu, hn'⟩ := hP n hn
        rw [hu]; exact ih n' hn'
      · exact ih n hn
    | write => exact ih n hn
    | ret => rfl

/-- **Totality of `SoftwareManager.install`** (translated on this run: `Gen.EpisodeRegs.installBody`, with the translated
`uninstall` as the nested call): on every node reachable in the registries model by any operation sequence, installing ANY class,
with or without a configuration, returns — the only statement of the method that can raise is the eviction of the installed instance of
that name, and `uninstall` is total there (`C01_uninstall_keeps_agreement`).  Assumes the constructor and the lifecycle calls
`start()` / `install()` return (C13's subject). -/
theorem C01_install_total (p : Power) (up down : Int) (ops : List Op) (c : Cls) (cfg : Bool) :
    (execInstall Gen.EpisodeRegs.uninstallBody c cfg Gen.EpisodeRegs.installBody
      (Node.run { power := p, upDur := up, downDur := down } ops)).isSome = true := by
  obtain ⟨es, h⟩ := rep_run ops _ [] (C13_rep_init p up down)
  refine execInstall_total_of_uninstall _ c cfg _ (fun n => ∃ es, Rep n es) ?_ _ ⟨es, h⟩
  intro n ⟨es', h'⟩
  obtain ⟨n', hu, hr⟩ := C01_uninstall_keeps_agreement n es' h' c.name
  exact ⟨n', hu, _, hr⟩

/-- **Gen obligation**: the shape of `install` the note describes — refusal guard, construction, eviction, then only statements that
cannot raise (the eviction comes BEFORE every registry write). -/
theorem C01_gen_install_body :
    Gen.EpisodeRegs.installBody.take 3 = [.guardRefused, .construct, .evictIfInstalled] ∧
    (Gen.EpisodeRegs.installBody.drop 3).all (fun s => s == .write || s == .ret) = true := by decide

/-- non-vacuity: with the tidied `uninstall` a CONFIGURED re-install of ransomware-script after nmap was removed raises
(the eviction hits the missing port entry) -/
example :
    ((uninstallBy tidied twoSharing "nmap").bind
      (fun n => execInstall tidied ransomCls true [.guardRefused, .construct, .evictIfInstalled, .write] n)).isSome = false := by decide

end Primaite.C01Regs
