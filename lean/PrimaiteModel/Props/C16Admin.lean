/-
C16 — "the last enabled administrator account can never be disabled": every way the code can edit accounts.

The inventory is regenerated from the source on every run (Gen/Session.lean): every statement inside `UserManager` that writes to
an attribute / subscript or mutates `users`, every write to an account field anywhere else in the package, every call of an
account-editing method from outside `UserManager`, the requests `UserManager` registers and the requests agent actions build.
`C16_gen_account_writers` pins it; each entry is an operation of the model:

    add_user (request)                         Cmd.addUser            canUm guard; refuses an existing name BEFORE writing
    add_user (API, bypass_can_perform_action)  Op.addUserBypass       config loading (`Node.__init__`, `PrimaiteGame.from_config`), `install`
    change_user_password (request)             Cmd.changePassword     writes `password` only
    disable_user (request)                     Cmd.disableUser        refuses the last enabled admin
    enable_user (API only, no request)         Op.enableUser          no guard
    (no deletion, no write to `is_admin`, no write from outside UserManager)

`C16_last_admin_step` / `C16_last_admin` (Props/C16.lean) prove the invariant "every node has an enabled administrator" for every
operation sequence over all of these (directly, through remote and local terminal commands, nested to any depth).  This file adds
the per-editor statement, "accounts are never removed, renamed or demoted", "`add_user` never overwrites", and the initial state
built from any configured user list.
-/
import PrimaiteModel.Props.C16Timeout
namespace Primaite.Session

/-! ### translator tie -/

/-- **C16, inventory of account editors.** Inside `UserManager` exactly four statements write to `users` / a user's field (one
each in add_user, change_user_password, disable_user, enable_user; the other writes are to local dictionaries / a table object);
`add_user` refuses an existing name before it writes; class `User` has the five fields the model knows (username, password,
disabled, is_admin and the login counter, which nothing reads); nothing outside `UserManager` writes to an account field or to a
`users` mapping; the only calls of an account-editing method from outside are the two config loaders, both
`add_user(..., bypass_can_perform_action=True)`; `install` adds the enabled administrator `admin`; `UserManager` registers exactly
the three requests, and agent actions build exactly those three. -/
theorem C16_gen_account_writers :
    Gen.Session.userManagerMethods =
      ["__init__", "_init_request_manager", "describe_state", "show", "non_admins", "disabled_non_admins", "admins",
       "disabled_admins", "install", "_is_last_admin", "add_user", "authenticate_user", "change_user_password", "disable_user",
       "enable_user", "_user_session_manager"] ∧
    Gen.Session.userManagerWrites =
      [("__init__", "kwargs['name'] = 'user-manager'"), ("__init__", "kwargs['port'] = PORT_LOOKUP['NONE']"),
       ("__init__", "kwargs['protocol'] = PROTOCOL_LOOKUP['NONE']"),
       ("describe_state", "state['users'] = {k: v.describe_state() for k, v in self.users.items()}"),
       ("show", "table.align = 'l'"), ("show", "table.title = f'{self.sys_log.hostname} User Manager'"),
       ("add_user", "self.users[username] = user"), ("change_user_password", "user.password = new_password"),
       ("disable_user", "self.users[username].disabled = True"), ("enable_user", "self.users[username].disabled = False")] ∧
    Gen.Session.addUserRefusesExistingNameBeforeWriting = true ∧
    Gen.Session.userFields =
      [("username", "-"), ("password", "-"), ("disabled", "False"), ("is_admin", "False"), ("num_of_logins", "0")] ∧
    Gen.Session.accountWritesElsewhere = [] ∧
    Gen.Session.accountEditorCallsElsewhere =
      ["game/game.py:PrimaiteGame.from_config: user_manager.add_user(**user_cfg, bypass_can_perform_action=True)",
       "simulator/network/hardware/base.py:Node.__init__: self.user_manager.add_user(**user, bypass_can_perform_action=True)"] ∧
    Gen.Session.installBody =
      ["self.add_user(username='admin', password='admin', is_admin=True, bypass_can_perform_action=True)"] ∧
    Gen.Session.addUserGuard = "not bypass_can_perform_action and (not self._can_perform_action())" ∧
    Gen.Session.userManagerRequests = ["add_user", "disable_user", "change_password"] ∧
    Gen.Session.actionAccountRequests = ["user-manager:add_user", "user-manager:change_password", "user-manager:disable_user"] := by
  decide

set_option maxRecDepth 8192 in
/-- **C16, time-out kinds.** (What `pre_timestep` decides is no longer pinned here: the method is translated and proved equal to
the model's time-out step in Props/C16Tr.lean, `C16_gen_pre_timestep`.) `_timeout_session` tells the kinds
apart by `session.local`; the only assignment to a `last_active_step` in the whole package is the one in `Terminal.receive` for the
session a command was accepted on (model: `Node.touch` in `opRemoteCmdK`) — nothing moves the clock of a local session. -/
theorem C16_gen_timeout_kinds :
    Gen.Session.timeoutSessionTests = ["session.local"] ∧
    Gen.Session.lastActiveStepWrites =
      ["simulator/system/services/terminal/terminal.py:Terminal.receive: remote_session.last_active_step = self.software_manager.node.user_session_manager.current_timestep"] ∧
    Gen.Session.sessionCreateClocks =
      ["UserSession.create: UserSession(user=user, start_step=timestep, last_active_step=timestep)",
       "RemoteUserSession.create: RemoteUserSession(user=user, start_step=timestep, last_active_step=timestep, remote_ip_address=remote_ip_address)"] ∧
    Gen.Session.remoteSessionIsSubclassOfUserSession = true := by
  decide

/-- the node-level `logon` / `logoff` requests are stubs (constant `False`: answer failure, no effect): no session is opened or
ended through them, so they are not operations of the model (the rig checks the same on a built node) -/
theorem C16_gen_node_login_stubs :
    Gen.Session.nodeLoginRequests =
      [("logon", "RequestResponse.from_bool(False)"), ("logoff", "RequestResponse.from_bool(False)")] := by decide

/-! ### every editor keeps an enabled administrator -/

/-- **C16, last admin (every editor).** Spelt out for each entry of the inventory: whatever the arguments, none of the five
account-editing operations leaves a node without an enabled administrator. -/
theorem C16_last_admin_every_editor (n : Net) (h : AdminRemains n) (y : Nat) (u p old new : String) (adm : Bool) :
    AdminRemains (step n (.req y (.addUser u p adm))).1 ∧
    AdminRemains (step n (.addUserBypass y u p adm)).1 ∧
    AdminRemains (step n (.req y (.changePassword u old new))).1 ∧
    AdminRemains (step n (.req y (.disableUser u))).1 ∧
    AdminRemains (step n (.enableUser y u)).1 :=
  ⟨C16_last_admin_step n _ h, C16_last_admin_step n _ h, C16_last_admin_step n _ h, C16_last_admin_step n _ h,
   C16_last_admin_step n _ h⟩

/-- **C16, `add_user` never overwrites.** With a name the node already has — e.g. `add_user("admin", …, is_admin=False)` — neither
the request nor the API call with `bypass_can_perform_action` changes anything. -/
theorem C16_add_user_never_overwrites (n : Net) (y : Nat) (u p : String) (adm : Bool) (b : Node) (w : User)
    (hb : n.node y = some b) (hw : b.findUser u = some w) :
    (step n (.req y (.addUser u p adm))).1 = n ∧ (step n (.req y (.addUser u p adm))).2 ≠ .success ∧
    (step n (.addUserBypass y u p adm)).1 = n ∧ (step n (.addUserBypass y u p adm)).2 ≠ .success := by
  simp only [step, execCmd, opAddUser, opAddUserBypass, hb, hw, Option.isNone_some, Bool.and_false, Bool.false_eq_true, if_false]
  refine ⟨?_, ?_, trivial, by simp⟩
  · split <;> rfl
  · split <;> simp

/-! ### accounts are never removed, renamed or demoted -/

def User.key (w : User) : String × Bool := (w.name, w.admin)

/-- the accounts before are still there, in place, with their names and administrator flags; accounts may have been appended -/
def UsersKept : Nat → Node → Node → Prop := fun _ a b => (a.users.map User.key) <+: (b.users.map User.key)

theorem updUser_keys (l : List User) (u : String) (f : User → User) (hf : ∀ v, (f v).key = v.key) :
    (updUser l u f).map User.key = l.map User.key := by
  induction l with
  | nil => rfl
  | cons v t ih =>
    unfold updUser
    split
    · simp [hf]
    · simp [ih]

theorem usersKept_upd (a : Node) (u : String) (f : User → User) (hf : ∀ v, (f v).key = v.key) :
    (a.users.map User.key) <+: ((updUser a.users u f).map User.key) := by
  rw [updUser_keys _ _ _ hf]; exact List.prefix_refl _

theorem usersKept_frame : Frame UsersKept :=
  { refl := fun _ _ => List.prefix_refl _, trans := fun _ _ _ _ h1 h2 => List.IsPrefix.trans h1 h2,
    shr := fun _ _ _ h => by unfold UsersKept; rw [h.users]; exact List.prefix_refl _,
    data := fun _ _ _ h => by unfold UsersKept; rw [data_users h]; exact List.prefix_refl _ }

theorem usersKept_edits : Edits UsersKept :=
  ⟨fun _ a w => by
      show (a.users.map User.key) <+: ((a.users ++ [w]).map User.key)
      rw [List.map_append]; exact List.prefix_append _ _,
   fun _ a u p => usersKept_upd a u _ (fun _ => rfl),
   fun _ _ _ => List.prefix_refl _, fun _ _ _ _ => List.prefix_refl _⟩

/-- **C16, accounts only grow.** Whatever the operation (nested commands included): every account a node had is still there
afterwards, at the same position, with the same name and the same administrator flag — the code has no way to delete, rename or
demote an account; only `disabled` and `password` of an existing account ever change, and new accounts are appended. -/
theorem C16_accounts_never_removed_or_demoted (n : Net) (op : Op) : Net.Rel UsersKept n (step n op).1 :=
  usersKept_frame.step' usersKept_edits
    (fun _ a u => usersKept_upd a u _ (fun _ => rfl))
    (fun _ _ _ => List.prefix_refl _)
    (fun _ a u => usersKept_upd a u _ (fun _ => rfl))
    n op (fun _ _ _ _ => List.prefix_refl _) (fun _ _ _ _ => List.prefix_refl _)

/-! ### the initial state: any configured user list -/

/-- `add_user(**user, bypass_can_perform_action=True)` on the `users` dictionary -/
def addCfgUser (l : List User) (w : User) : List User := if l.any (fun v => v.name == w.name) then l else l ++ [w]

/-- the accounts of a freshly built node: `install` adds `admin`, then the configured users in order -/
def initialUsers (cfg : List User) : List User :=
  cfg.foldl addCfgUser [{ name := "admin", password := "admin", admin := true }]

theorem addCfgUser_count (l : List User) (w : User) : adminCount l ≤ adminCount (addCfgUser l w) := by
  unfold addCfgUser
  split
  · exact Nat.le_refl _
  · unfold adminCount; rw [List.filter_append, List.length_append]; omega

theorem foldl_addCfgUser_count (cfg : List User) (l : List User) : adminCount l ≤ adminCount (cfg.foldl addCfgUser l) := by
  induction cfg generalizing l with
  | nil => exact Nat.le_refl _
  | cons w t ih => exact Nat.le_trans (addCfgUser_count l w) (ih _)

/-- **C16, last admin (initial state).** Whatever users the scenario configures — also one called `admin` with `is_admin: false`,
also none — a freshly built node has an enabled administrator: the configured list is loaded with `add_user`, which never
overwrites, after `install` created `admin`; a configured user cannot be created disabled (`User.disabled` defaults to `False` and
`add_user` takes no such argument). -/
theorem C16_config_users_keep_admin (cfg : List User) : 0 < adminCount (initialUsers cfg) :=
  Nat.lt_of_lt_of_le (by decide) (foldl_addCfgUser_count cfg _)

/-- the model's bypass operation is that dictionary edit -/
theorem addUserBypass_is_addCfgUser (n : Net) (y : Nat) (u p : String) (adm : Bool) (b : Node) (hb : n.node y = some b) :
    ∃ a, (step n (.addUserBypass y u p adm)).1.node y = some a ∧
      a.users = addCfgUser b.users { name := u, password := p, admin := adm } := by
  simp only [step, opAddUserBypass, hb]
  unfold addCfgUser Node.findUser
  cases hf : b.users.find? (fun w => w.name == u) with
  | some w =>
    have : b.users.any (fun v => v.name == u) = true := by
      rw [List.any_eq_true]; exact ⟨w, List.mem_of_find?_eq_some hf, by have := List.find?_some hf; simpa using this⟩
    simp [this, hb]
  | none =>
    have : b.users.any (fun v => v.name == u) = false := by
      rw [List.any_eq_false]; intro v hv; have := List.find?_eq_none.mp hf v hv; simpa using this
    simp [this, hb, Node.addUser]

/-! ### non-vacuity -/

-- `add_user admin … is_admin=False` on a node that has `admin`: refused, nothing changes (hypotheses of C16_add_user_never_overwrites)
example : (step demoNet (.req 1 (.addUser "admin" "x" false))).2 = .failure := by decide
example : (step demoNet (.addUserBypass 1 "admin" "x" false)).2 = .failure := by decide
-- a configured user called admin does not replace the administrator
example : (initialUsers [{ name := "admin", password := "x", admin := false }, { name := "bob", password := "b" }]).map User.key
    = [("admin", true), ("bob", false)] := by decide
-- the bypass API works while the node is off (config time), the request does not
example : (step (run demoNet [.req 1 .shutdown, .tick, .tick, .tick, .tick]) (.addUserBypass 1 "bob" "b" true)).2 = .success := by decide
example : (step (run demoNet [.req 1 .shutdown, .tick, .tick, .tick, .tick]) (.req 1 (.addUser "bob" "b" true))).2 = .failure := by decide

end Primaite.Session
