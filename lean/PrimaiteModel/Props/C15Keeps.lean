/-
Property C15, eighth part (round 4): "never neither", across folders and across both layers.

`Keeps` (Lemmas/FileSystemKeeps.lean) says that every file uuid stays with ITS folder; `move_file` takes a file out of its folder
by design, so `Keeps` does not hold for it and was not stated for runs that mix requests with API calls.  `GKeeps` is the
statement across folders: every folder uuid is still a folder uuid, and every file uuid is still a file uuid of SOME folder.
It holds for every request, tick, API call (`move_file` included) and node-level event, hence along every run; with `XDisj` and
`C15_partition` the place is unique: at every later moment every item ever created is in exactly one of the two sets of exactly
one owner.
-/
import PrimaiteModel.Props.C15Disjoint
namespace Primaite.FileSystem

/-- No folder uuid and no file uuid disappears (the file may have changed folder). -/
def GKeeps (s s' : State) : Prop :=
  (∀ g, g ∈ s.folders ∨ g ∈ s.deletedFolders → ∃ g', (g' ∈ s'.folders ∨ g' ∈ s'.deletedFolders) ∧ g'.id = g.id) ∧
  (∀ g, g ∈ s.folders ∨ g ∈ s.deletedFolders → ∀ f, f ∈ g.files ∨ f ∈ g.deletedFiles →
    ∃ g' f', (g' ∈ s'.folders ∨ g' ∈ s'.deletedFolders) ∧ (f' ∈ g'.files ∨ f' ∈ g'.deletedFiles) ∧ f'.id = f.id)

theorem GKeeps.refl (s : State) : GKeeps s s :=
  ⟨fun g hg => ⟨g, hg, rfl⟩, fun g hg f hf => ⟨g, f, hg, hf, rfl⟩⟩

theorem GKeeps.trans {a b c : State} (h1 : GKeeps a b) (h2 : GKeeps b c) : GKeeps a c := by
  refine ⟨?_, ?_⟩
  · intro g hg
    obtain ⟨g1, hg1, e1⟩ := h1.1 g hg
    obtain ⟨g2, hg2, e2⟩ := h2.1 g1 hg1
    exact ⟨g2, hg2, e2.trans e1⟩
  · intro g hg f hf
    obtain ⟨g1, f1, hg1, hf1, e1⟩ := h1.2 g hg f hf
    obtain ⟨g2, f2, hg2, hf2, e2⟩ := h2.2 g1 hg1 f1 hf1
    exact ⟨g2, f2, hg2, hf2, e2.trans e1⟩

/-- Staying with one's folder is a special case. -/
theorem GKeeps.of_keeps {s s' : State} (h : Keeps s s') : GKeeps s s' := by
  refine ⟨?_, ?_⟩
  · intro g hg
    obtain ⟨g', hg', e, _⟩ := h g hg
    exact ⟨g', hg', e⟩
  · intro g hg f hf
    obtain ⟨g', hg', _, hk⟩ := h g hg
    obtain ⟨f', hf', e⟩ := hk f hf
    exact ⟨g', f', hg', hf', e⟩

theorem mem_updFolder_image {s : State} {i : Nat} {t : Folder → Folder} {g : Folder}
    (hg : g ∈ s.folders ∨ g ∈ s.deletedFolders) :
    (if g.id == i then t g else g) ∈ (updFolder s i t).folders ∨ (if g.id == i then t g else g) ∈ (updFolder s i t).deletedFolders := by
  rcases hg with hg | hg
  · exact Or.inl (List.mem_map.mpr ⟨g, hg, rfl⟩)
  · exact Or.inr (List.mem_map.mpr ⟨g, hg, rfl⟩)

/-- **`move_file` loses nothing**: every folder is still there, every file of every folder is still somewhere — the moved file in
the destination, all others where they were. -/
theorem gkeeps_apiMoveFile {s : State} (h : Inv s) (F x G : Name) : GKeeps s (apiMoveFile s F x G).1 := by
  unfold apiMoveFile
  cases hsrc : getFolder s F with
  | none => exact GKeeps.refl s
  | some src =>
    simp only
    cases hf : src.getFile x with
    | none => exact GKeeps.refl s
    | some f =>
      simp only
      obtain ⟨hsm, _⟩ := getFolder_live hsrc
      obtain ⟨hfm, _⟩ := getFile_live hf
      obtain ⟨h1, hm, _, _⟩ := getOrCreateFolder_spec h G
      have k1 : GKeeps s (getOrCreateFolder s G).1 := GKeeps.of_keeps (keeps_getOrCreateFolder h G)
      have hsm1 : src ∈ (getOrCreateFolder s G).1.folders := by
        unfold getOrCreateFolder
        cases hg : getFolder s G with
        | some g => exact hsm
        | none =>
          rw [createFolder_eq, hg]
          simp only
          refine (mem_dictSet Folder.id).mpr (Or.inr ⟨hsm, ?_⟩)
          obtain ⟨f1, _⟩ := setDur_fields s { id := s.next, name := G }
          rw [f1]
          exact Nat.ne_of_lt (h.folder src (Or.inl hsm)).2.2
      generalize getOrCreateFolder s G = r at h1 hm k1 hsm1 ⊢
      split
      · exact k1
      · rename_i hnone
        have hnone' : r.2.getFile f.name = none := by
          cases hq : r.2.getFile f.name with
          | none => rfl
          | some _ => rw [hq] at hnone; simp at hnone
        have hne : r.2.id ≠ src.id := by
          intro e
          have := folder_eq_of_id h1 hsm1 (Or.inl hm) e
          rw [this] at hnone'
          exact getFile_none hnone' f hfm rfl
        refine k1.trans ?_
        -- where a folder of `r.1` ends up after the two in-place updates
        let pop : Folder → Folder := fun g => { g with files := dictPop File.id g.files f.id }
        let T : Folder → Folder := fun g =>
          if (if g.id == src.id then pop g else g).id == r.2.id then (if g.id == src.id then pop g else g).addFile f
          else (if g.id == src.id then pop g else g)
        have hT : ∀ g, g ∈ r.1.folders ∨ g ∈ r.1.deletedFolders →
            T g ∈ (updFolder (updFolder r.1 src.id pop) r.2.id (fun g => g.addFile f)).folders ∨
            T g ∈ (updFolder (updFolder r.1 src.id pop) r.2.id (fun g => g.addFile f)).deletedFolders :=
          fun g hg => mem_updFolder_image (mem_updFolder_image hg)
        have hTid : ∀ g, (T g).id = g.id := by
          intro g
          simp only [T, pop]
          split <;> split <;> simp [Folder.addFile]
        have hTdst : T r.2 = r.2.addFile f := by
          simp [T, hne]
        refine ⟨fun g hg => ⟨T g, hT g hg, hTid g⟩, ?_⟩
        intro g hg y hy
        by_cases hi : g.id = src.id
        · have hgs := folder_eq_of_id h1 hsm1 hg hi
          subst hgs
          by_cases hy' : y.id = f.id
          · refine ⟨T r.2, f, hT r.2 (Or.inl hm), ?_, hy'.symm⟩
            rw [hTdst]
            exact Or.inl ((mem_dictSet File.id).mpr (Or.inl rfl))
          · have hne' : g.id ≠ r.2.id := fun e => hne e.symm
            refine ⟨T g, y, hT g hg, ?_, rfl⟩
            have : T g = pop g := by simp [T, pop, hne']
            rw [this]
            rcases hy with hy | hy
            · exact Or.inl ((mem_dictPop File.id).mpr ⟨hy, hy'⟩)
            · exact Or.inr hy
        · by_cases hd : g.id = r.2.id
          · obtain ⟨y', hy'm, e⟩ := folderKeeps_addFile g f y hy
            refine ⟨T g, y', hT g hg, ?_, e⟩
            have : T g = g.addFile f := by simp [T, hi, hd, hne]
            rw [this]; exact hy'm
          · refine ⟨T g, y, hT g hg, ?_, rfl⟩
            have : T g = g := by simp [T, hi, hd, hne]
            rw [this]; exact hy

/-- Every request, tick and API call loses nothing. -/
theorem C15_no_item_lost_any_step {s : State} (h : Inv s) (op : AnyOp) : GKeeps s (stepAny s op).1 := by
  cases op with
  | req op => exact GKeeps.of_keeps (keeps_step h op)
  | api op =>
    cases op with
    | moveFile F x G => exact gkeeps_apiMoveFile h F x G
    | createFile F x force => exact GKeeps.of_keeps (C15_api_no_item_lost h _ (by intro _ _ _ e; cases e))
    | copyFile F x G => exact GKeeps.of_keeps (C15_api_no_item_lost h _ (by intro _ _ _ e; cases e))
    | addFile F x force => exact GKeeps.of_keeps (C15_api_no_item_lost h _ (by intro _ _ _ e; cases e))
    | deleteFileById i j => exact GKeeps.of_keeps (C15_api_no_item_lost h _ (by intro _ _ _ e; cases e))
    | deleteFolderById i => exact GKeeps.of_keeps (C15_api_no_item_lost h _ (by intro _ _ _ e; cases e))
    | removeFileById i j => exact GKeeps.of_keeps (C15_api_no_item_lost h _ (by intro _ _ _ e; cases e))

/-- **No item is ever lost, in runs that mix requests, ticks and API calls (`move_file` included) in any order.** -/
theorem C15_no_item_lost_any_run {s : State} (h : Inv2 s) (ops : List AnyOp) : GKeeps s (runAny s ops).1 := by
  induction ops generalizing s with
  | nil => exact GKeeps.refl s
  | cons op ops ih => exact (C15_no_item_lost_any_step h.1 op).trans (ih (C15_inv2_any_step h op))

/-- From any reachable state onwards, along any continuation: every folder and every file that exists now exists at every
later moment, and (`C15_file_in_one_folder`, `C15_partition`) in exactly one place. -/
theorem C15_no_item_lost_any_reachable (d : Option Int) (ops1 ops2 : List AnyOp) :
    GKeeps (runAny (init d) ops1).1 (runAny (runAny (init d) ops1).1 ops2).1 :=
  C15_no_item_lost_any_run (C15_inv2_any_run (C15_inv2_init d) ops1) ops2

/-- The same at node level: whatever the power history, requests, agent actions, API calls, node scans and ticks. -/
theorem C15_node_no_item_lost_step {n : NState} (h : Inv n.x.s) (op : NOp) : GKeeps n.x.s (nstep n op).1.x.s := by
  cases op with
  | power b => exact GKeeps.refl _
  | osScan => simp only [nstep, nstepWith]; split <;> exact GKeeps.refl _
  | preTimestep => exact GKeeps.of_keeps (keeps_step h .preTick)
  | applyTimestep b =>
    rw [(C15_node_tick_only_while_on n b).1]
    cases b
    · exact GKeeps.refl _
    · exact GKeeps.of_keeps (keeps_step h .tick)
  | api a => exact C15_no_item_lost_any_step h (.api a)
  | req path =>
    cases hon : n.on with
    | false => rw [(C15_node_request_refused_while_off n hon path).1]; exact GKeeps.refl _
    | true =>
      cases hr : resolve n.x.s path with
      | inl o => rw [((C15_node_request_is_fs_request n path hon).1 o hr).1]; exact GKeeps.of_keeps (keeps_step h o)
      | inr o => rw [(C15_node_request_is_fs_request n path hon).2 o hr]; exact GKeeps.refl _

theorem C15_node_no_item_lost_run {n : NState} (h : Inv2 n.x.s) (ops : List NOp) : GKeeps n.x.s (nrun n ops).1.x.s := by
  induction ops generalizing n with
  | nil => exact GKeeps.refl _
  | cons op ops ih => exact (C15_node_no_item_lost_step h.1 op).trans (ih (C15_node_inv2_step h op))

/-- Non-vacuity: a file is moved out of its folder — folder `fa` (uuid 1) holds the uuid 2 neither live nor deleted afterwards, so
`Keeps` fails for that folder — and is found in the destination. -/
example :
    let s := (runAny (init none) [.req (.createFile "fa" "a" false)]).1
    let s' := (stepAny s (.api (.moveFile "fa" "a" "fb"))).1
    (∀ g' ∈ s'.folders ++ s'.deletedFolders, g'.id = 1 → ∀ f' ∈ g'.files ++ g'.deletedFiles, f'.id ≠ 2) ∧
    (s'.folders.map fun g => (g.name, g.files.map File.id)) = [("root", []), ("fa", []), ("fb", [2])] := by
  decide

end Primaite.FileSystem
