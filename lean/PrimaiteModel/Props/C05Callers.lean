/-
C05 — "refused requests change nothing", tied to the CALLERS of the request layer (Gen/RequestCallers.lean, regenerated).

The request layer itself is proved in Props/C05.lean (`execK`: a refusal returns the state it was given).  What a caller does with
the non-success response is outside that model; this file pins the complete inventory: who calls `apply_request` /
`_request_manager`, what becomes of the response, and that nobody who later READS a recorded response has a way back into the
simulation from that function.
-/
import PrimaiteModel.Gen.RequestCallers
namespace Primaite.Request
open Primaite.Gen.RequestCallers

/-- the five call sites of the package: the game's step loop (response handed to `process_action_response` and nothing else), the
component's own `apply_request` and two forwarding handlers (response returned unchanged), and the terminal (response stored in
`_last_response` and returned).  None branches on the response. -/
theorem C05_gen_request_call_sites :
    requestCallSites =
      ["game/game.py:PrimaiteGame.apply_agent_actions: self.simulation.apply_request(…) -> local+handed:agent.process_action_response",
       "simulator/core.py:SimComponent.apply_request: self._request_manager(…) -> returned",
       "simulator/domain/controller.py:DomainController._init_request_manager: self.accounts[request.pop(0)].apply_request(…) -> returned(lambda)",
       "simulator/file_system/file_system.py:FileSystem._init_request_manager._file_action: file._request_manager(…) -> returned",
       "simulator/system/services/terminal/terminal.py:Terminal.execute: self.parent.apply_request(…) -> stored:self._last_response+returned"] := by
  decide +kernel

/-- there is ONE `process_action_response` (no agent class overrides it) and all it does is append the history item -/
theorem C05_gen_response_only_recorded :
    processActionResponse =
      ["game/agent/interface.py:AbstractAgent.process_action_response: self.history.append(AgentHistoryItem(timestep=timestep, action=action, parameters=parameters, request=request, response=response, observation=observation))"] := by
  decide +kernel

/-- **Callers do not mutate the simulation on refusal**: every function of game/ that reads a recorded response (history table,
reward components, the TAP agents' reaction to a failed step) mentions no way into the simulation (`simulation`, `apply_request`,
`_request_manager`, `software_manager`, `file_system`, `network`, `nodes`, `get_node_by_hostname`): whatever it does with a
`failure` / `unreachable`, it does to the agent's own bookkeeping. -/
theorem C05_gen_callers_do_not_touch_simulation_on_refusal :
    responseReadersReaching = [] ∧ responseReaders.length = 15 := by decide +kernel

end Primaite.Request
