/-
C03 — the loops that iterate a hash-ordered set, TRANSLATED from the source (Gen/NondetLoops.lean) instead of read.

Before: the discharges `setToSet`, `setNoEffect`, `setLengthOnly`, `setDictByKey` rested on "the code's loop IS the consumer
`listenPorts` / `noEffect` / `lengthOnly` / `dictByKey`" — established by reading.  Now the extractor translates the real loop
statement by statement into the loop language of `Model/NoninterfLoop.lean`, and

  * `C03_loop_wellformed_invariant`  every well-formed loop is a permutation-invariant consumer, for ALL interpretations of the pure
                                     functions it applies (induction over the body; definite assignment ⇒ no loop-carried local);
  * `C03_gen_loops_order_free`       Gen obligation: every set-iteration site with one of the four reasons has a translated loop that
                                     is well-formed and whose accumulators are used exactly as the reason says;
  * `C03_translated_loops_invariant` hence each of those loops is `Invariant` — the hypothesis `Prog.Safe` asks of an `iterSet`;
  * counterexamples: a loop-carried local, an ordered use, a dict keyed by something else than the element — each NOT invariant
    (so each clause of `wellFormed` is needed).
-/
import PrimaiteModel.Lemmas.NondetDischarge
import PrimaiteModel.Lemmas.NoninterfLoop
import PrimaiteModel.Gen.NondetLoops

namespace Primaite.Noninterf
open Primaite.Gen.Nondet Primaite.Gen.NondetLoops LoopIR

/-- **A well-formed loop is order-free**: whatever the pure functions compute, whatever keys are looked up later. -/
theorem C03_loop_wellformed_invariant (P : Prims) (keys : List Nat) (p : Loop) (hw : p.wellFormed = true) :
    Invariant (p.consumer P keys) := wellFormed_invariant P keys p hw

/-- how the accumulators of the loop must be used for the reason to apply (`none`: the reason does not rest on the loop's shape) -/
def loopUsesFor : Discharge → Option (List Use)
  | .setToSet => some [.asSet]
  | .setNoEffect => some []
  | .setLengthOnly => some [.lenOnly]
  | .setDictByKey => some [.byKey]
  | _ => none

def loopFor (s : Site) : Option Translation :=
  (loops.find? fun r => r.1 == s.file && r.2.1 == s.scope && r.2.2.1 == s.detail && r.2.2.2.1 == s.occ).map (·.2.2.2.2)

def loopSupports (d : Discharge) (t : Option Translation) : Bool :=
  match loopUsesFor d, t with
  | none, _ => true
  | some us, some (.loop l _) => l.wellFormed && l.uses.map (·.2) == us
  | some _, _ => false

set_option maxRecDepth 100000 in
/-- **Gen obligation: the loops are what the table says they are.** For every set-iteration site discharged by `setToSet`,
`setNoEffect`, `setLengthOnly` or `setDictByKey`, the loop regenerated from the source is translatable (no call with an effect, no
store outside the declared accumulators, no `continue` / `break`), WELL-FORMED (no local carried from one iteration to the next,
every accumulator consumed by `set()` / `len()` / by key / not at all, dict accumulators keyed by the element) and its accumulators
are used as the reason says. Replacing `set(listen_on_ports)` by `list(…)`, dropping `port = None`, returning `list(ip_addresses)[0]`,
iterating the episode dict, … break this. -/
theorem C03_gen_loops_order_free :
    (table.all fun e => e.1.kind != .setIter || loopSupports e.2 (loopFor e.1)) = true := by decide

/-- which loops that covers on the current tree (4 of the 9 non-`sorted` set iterations; the other five are opaque to the translator or
ordered, and are discharged by `setIntHash` (2), `setTopo`, `setCycleCheck`, `setEmpty`) -/
theorem C03_gen_loops_translated :
    ((table.filter fun e => e.1.kind == .setIter && (loopUsesFor e.2).isSome).map (fun e => (e.1.scope, e.2)),
     loops.length) =
    ([("PrimaiteGame.from_config._set_software_listen_on_ports", .setToSet), ("build_scheduler", .setDictByKey),
      ("RouteTable.add_route", .setNoEffect), ("NMAP.port_scan", .setLengthOnly)], 9) := by decide

/-- Hence every such site's loop is a permutation-invariant consumer — what `Prog.Safe` demands of an `iterSet` node. -/
theorem C03_translated_loops_invariant (e : Site × Discharge) (he : e ∈ table) (hk : e.1.kind = .setIter)
    (hd : (loopUsesFor e.2).isSome = true) :
    ∃ l n, loopFor e.1 = some (.loop l n) ∧ ∀ (P : Prims) (keys : List Nat), Invariant (l.consumer P keys) := by
  have h := List.all_eq_true.mp C03_gen_loops_order_free e he
  simp only [hk, bne_self_eq_false, Bool.false_or] at h
  unfold loopSupports at h
  obtain ⟨us, hus⟩ := Option.isSome_iff_exists.mp hd
  rw [hus] at h
  match ht : loopFor e.1, h with
  | some (.loop l n), h =>
    simp only [Bool.and_eq_true] at h
    exact ⟨l, n, rfl, fun P keys => wellFormed_invariant P keys l h.1⟩

/-! ### each clause of `wellFormed` is needed -/

/-- a local carried over from the previous iteration: `acc.append(prev); prev = x` then `set(acc)` -/
def carriedLoop : Loop :=
  ⟨.seq (.emit "acc" (.var "prev") (.var "prev")) (.assign "prev" .elem), [("acc", .asSet)]⟩

def idPrims : Prims := ⟨fun _ a => a, fun _ a _ => a⟩

theorem C03_loop_carried_local_counterexample :
    carriedLoop.wellFormed = false ∧ ¬ Invariant (carriedLoop.consumer idPrims []) := by
  refine ⟨by decide, fun h => ?_⟩
  have := h [1, 2] [2, 1] (List.Perm.swap 2 1 [])
  revert this
  decide

/-- `acc.append(x)` then `return acc` (an ORDERED use) -/
def orderedLoop : Loop := ⟨.emit "acc" .elem .elem, [("acc", .ordered)]⟩

theorem C03_loop_ordered_use_counterexample :
    orderedLoop.wellFormed = false ∧ ¬ Invariant (orderedLoop.consumer idPrims []) := by
  refine ⟨by decide, fun h => ?_⟩
  have := h [1, 2] [2, 1] (List.Perm.swap 2 1 [])
  revert this
  decide

/-- `d[f(x)] = x` read by key, with `f` constant: the LAST element wins -/
def keyedLoop : Loop := ⟨.emit "d" (.const 7) .elem, [("d", .byKey)]⟩

theorem C03_loop_foreign_key_counterexample :
    keyedLoop.wellFormed = false ∧ ¬ Invariant (keyedLoop.consumer idPrims [7]) := by
  refine ⟨by decide, fun h => ?_⟩
  have := h [1, 2] [2, 1] (List.Perm.swap 2 1 [])
  revert this
  decide

/-- an accumulator nobody declared a use for is not accepted (its use is unknown) -/
theorem C03_loop_undeclared_accumulator : (Loop.mk (.emit "acc" .elem .elem) []).wellFormed = false := by decide

/-- non-vacuity: the four translated loops of the current tree ARE well-formed, and their consumers tell sets apart -/
example : (loops.filterMap fun r => match r.2.2.2.2 with | .loop l _ => some l.wellFormed | _ => none) =
    [true, true, true, false, true, false] := by decide

/-- **Gen obligation: a result that carries a set's iteration order is consumed order-free.** `SoftwareManager.get_open_ports` returns
`[…] + list(software.listen_on_ports)`: an int-valued set, discharged by `setIntHash` ("CPython hashes an int to itself, so the order is a
function of the values and of the order in which they were INSERTED"). The insertions come from the loop of
`_set_software_listen_on_ports`, i.e. from a string-hashed set: for colliding values (21 / 53 / 445 are all 5 mod 8) the list order DOES
depend on PYTHONHASHSEED. That is harmless only because every caller of `get_open_ports` tests membership, except `show_open_ports`, which
prints a table sorted by port. A new caller (or a changed one) breaks this. -/
theorem C03_gen_ordered_result_consumers :
    orderedResultCallers =
      [("get_open_ports",
        [("simulator/network/hardware/base.py", "Node.show_open_ports", "for"),
         ("simulator/network/hardware/nodes/host/host_node.py", "HostNode.receive_frame", "member"),
         ("simulator/network/hardware/nodes/network/router.py", "Router.check_send_frame_to_session_manager", "member")])] := by decide

/-! ### the translated `_set_software_listen_on_ports` loop IS the consumer `listenPorts` the component rig validates -/

/-- the statement-by-statement translation of the source as it is today (not pinned: a rewrite with the same meaning may change it) -/
def listenLoop : Loop :=
  ⟨.seq (.assign "port_id" .elem) (.seq (.assign "port" (.const 0))
    (.seq (.ite (.app2 "call:isinstance" (.var "port_id") (.app1 "free:int" (.const 0))) (.assign "port" (.var "port_id"))
            (.ite (.app2 "call:isinstance" (.var "port_id") (.app1 "free:str" (.const 0)))
              (.assign "port" (.app2 "getitem" (.app1 "free:PORT_LOOKUP" (.const 0)) (.var "port_id"))) .skip))
          (.ite (.var "port") (.emit "listen_on_ports" (.var "port") (.var "port")) .skip))),
   [("listen_on_ports", .asSet)]⟩

/-- its PATH NORMAL FORM (decision tree over conditions on the element, emits at the leaves): what the extractor's symbolic execution
makes of ANY statement shape with this meaning - guard clause (`if not port: continue`), conditional expression, `else: port = None` -/
def listenNormal : Loop :=
  ⟨.ite (.app2 "call:isinstance" .elem (.app1 "free:int" (.const 0)))
      (.ite .elem (.emit "listen_on_ports" .elem .elem) .skip)
      (.ite (.app2 "call:isinstance" .elem (.app1 "free:str" (.const 0)))
        (.ite (.app2 "getitem" (.app1 "free:PORT_LOOKUP" (.const 0)) .elem)
          (.emit "listen_on_ports" (.app2 "getitem" (.app1 "free:PORT_LOOKUP" (.const 0)) .elem)
            (.app2 "getitem" (.app1 "free:PORT_LOOKUP" (.const 0)) .elem)) .skip) .skip),
   [("listen_on_ports", .asSet)]⟩

def normalFor (s : Site) : Option Loop :=
  match loopFor s with
  | some (.loop _ n) => some n
  | _ => none

def listenSite : Site :=
  ⟨"game/game.py", "PrimaiteGame.from_config._set_software_listen_on_ports", .setIter,
    "for <- set(software_cfg.get('options', {}).get('listen_on_ports', []))", 0⟩

set_option maxRecDepth 100000 in
/-- **Gen obligation: what the loop of `_set_software_listen_on_ports` computes.** The normal form of the loop regenerated from game.py is
`listenNormal`: ints pass, names go through `PORT_LOOKUP`, a FALSY result (0, `None`) is dropped, everything else is dropped. A rewrite of
the statements with the same meaning keeps this; `if port is not None:`, another table, another test order, a second emit break it. -/
theorem C03_gen_listen_loop_normal_form : normalFor listenSite = some listenNormal := by decide

/-- sample interpretations of the pure functions, for the validation below -/
def gridPrims (m : Nat) : Prims := ⟨fun f a => (f.length + a) % m, fun f a b => (f.length * 7 + a + 2 * b) % m⟩

set_option maxRecDepth 100000 in
/-- VALIDATION (testing, not proof) of the extractor's symbolic execution on the current tree: for every translated loop, the raw
translation and its normal form emit the same values on a grid of 3 interpretations × 6 elements. (That two loops with the same normal
form are equivalent is the extractor's claim; the theorems below are about the normal form and, separately, about today's raw shape.) -/
theorem C03_gen_normal_forms_agree_on_grid :
    (loops.all fun r => match r.2.2.2.2 with
      | .loop l n => [2, 3, 5].all fun m => (List.range 6).all fun x =>
          iterEmits (gridPrims m) l.body x == iterEmits (gridPrims m) n.body x
      | .opaque _ => true) = true := by decide

/-- what one entry becomes: ints pass, names go through `PORT_LOOKUP`, anything else and every falsy result is dropped -/
def listenLookup (P : Prims) (x : Nat) : Option Nat :=
  let port :=
    if P.f2 "call:isinstance" x (P.f1 "free:int" 0) ≠ 0 then x
    else if P.f2 "call:isinstance" x (P.f1 "free:str" 0) ≠ 0 then P.f2 "getitem" (P.f1 "free:PORT_LOOKUP" 0) x
    else 0
  if port ≠ 0 then some port else none

theorem listenLoop_iter (P : Prims) (x : Nat) :
    accOf "listen_on_ports" (iterEmits P listenLoop.body x) = match listenLookup P x with
      | some p => [(p, p)]
      | none => [] := by
  unfold listenLookup
  by_cases h1 : P.f2 "call:isinstance" x (P.f1 "free:int" 0) ≠ 0
  · by_cases hx : x ≠ 0
    · simp [iterEmits, listenLoop, Stmt.exec, Expr.eval, get_cons, accOf, h1, hx]
    · simp [iterEmits, listenLoop, Stmt.exec, Expr.eval, get_cons, accOf, h1, hx]
  · by_cases h2 : P.f2 "call:isinstance" x (P.f1 "free:str" 0) ≠ 0
    · by_cases hp : P.f2 "getitem" (P.f1 "free:PORT_LOOKUP" 0) x ≠ 0
      · simp [iterEmits, listenLoop, Stmt.exec, Expr.eval, get_cons, accOf, h1, h2, hp]
      · simp [iterEmits, listenLoop, Stmt.exec, Expr.eval, get_cons, accOf, h1, h2, hp]
    · simp [iterEmits, listenLoop, Stmt.exec, Expr.eval, get_cons, accOf, h1, h2]

theorem map_snd_flatMap_lookup (P : Prims) : ∀ l : List Nat,
    ((l.flatMap fun x => accOf "listen_on_ports" (iterEmits P listenLoop.body x)).map (·.2)) = l.filterMap (listenLookup P)
  | [] => rfl
  | a :: t => by
    rw [List.flatMap_cons, List.map_append, map_snd_flatMap_lookup P t, listenLoop_iter, List.filterMap_cons]
    cases listenLookup P a <;> simp

/-- **The real loop, translated, computes exactly the modelled consumer** `listenPorts` (the one the component rig compares with
`from_config` on generated lists of names / ints / duplicates / 0): `set(filterMap lookup entries)`. -/
theorem C03_listen_loop_is_listenPorts (P : Prims) (keys : List Nat) (l : List Nat) :
    listenLoop.consumer P keys l = listenPorts (listenLookup P) l := by
  have hr : listenLoop.body.readsOk [] = true := by decide
  simp only [Loop.consumer, listenLoop, List.flatMap_cons, List.flatMap_nil, List.append_nil]
  have := runLoop_eq_flatMap P listenLoop.body hr l []
  simp only [listenLoop] at this
  rw [this, accOf_flatMap]
  simp only [observe, listenPorts]
  have h2 := map_snd_flatMap_lookup P l
  simp only [listenLoop] at h2
  rw [h2]

theorem listenNormal_iter (P : Prims) (x : Nat) :
    accOf "listen_on_ports" (iterEmits P listenNormal.body x) = match listenLookup P x with
      | some p => [(p, p)]
      | none => [] := by
  unfold listenLookup
  by_cases h1 : P.f2 "call:isinstance" x (P.f1 "free:int" 0) ≠ 0
  · by_cases hx : x ≠ 0
    · simp [iterEmits, listenNormal, Stmt.exec, Expr.eval, accOf, h1, hx]
    · simp [iterEmits, listenNormal, Stmt.exec, Expr.eval, accOf, h1, hx]
  · by_cases h2 : P.f2 "call:isinstance" x (P.f1 "free:str" 0) ≠ 0
    · by_cases hp : P.f2 "getitem" (P.f1 "free:PORT_LOOKUP" 0) x ≠ 0
      · simp [iterEmits, listenNormal, Stmt.exec, Expr.eval, accOf, h1, h2, hp]
      · simp [iterEmits, listenNormal, Stmt.exec, Expr.eval, accOf, h1, h2, hp]
    · simp [iterEmits, listenNormal, Stmt.exec, Expr.eval, accOf, h1, h2]

theorem map_snd_flatMap_lookup_normal (P : Prims) : ∀ l : List Nat,
    ((l.flatMap fun x => accOf "listen_on_ports" (iterEmits P listenNormal.body x)).map (·.2)) = l.filterMap (listenLookup P)
  | [] => rfl
  | a :: t => by
    rw [List.flatMap_cons, List.map_append, map_snd_flatMap_lookup_normal P t, listenNormal_iter, List.filterMap_cons]
    cases listenLookup P a <;> simp

/-- **The pinned normal form computes exactly the modelled consumer** `listenPorts` — the one the component rig compares with the real
`from_config` on generated lists of names / ints / duplicates / 0, and the cross-process probe on lists of names. -/
theorem C03_listen_normal_is_listenPorts (P : Prims) (keys : List Nat) (l : List Nat) :
    listenNormal.consumer P keys l = listenPorts (listenLookup P) l := by
  have hr : listenNormal.body.readsOk [] = true := by decide
  simp only [Loop.consumer, listenNormal, List.flatMap_cons, List.flatMap_nil, List.append_nil]
  have := runLoop_eq_flatMap P listenNormal.body hr l []
  simp only [listenNormal] at this
  rw [this, accOf_flatMap]
  simp only [observe, listenPorts]
  have h2 := map_snd_flatMap_lookup_normal P l
  simp only [listenNormal] at h2
  rw [h2]

end Primaite.Noninterf
